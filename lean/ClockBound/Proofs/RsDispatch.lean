/-
  Proofs of the translation tie for `process_messages` (statements in `Properties/CodeTieDispatch.lean`):
  one iteration per kind of message, for every fuel `N ≥ 100`.  The two handlers are inlined by the
  interpreter; the `data` case is closed by the tactic of `Proofs/RsUpdater.lean`.
-/
import ClockBound.Proofs.RsNow
import ClockBound.Proofs.RsTurn
import ClockBound.Rs.EmbedTurn
namespace ClockBound.Rs.DispatchProof
open ClockBound ClockBound.Rs ClockBound.Generated ClockBound.Rs.DictPoller ClockBound.Rs.NowProof

abbrev frW : Frame := ⟨"shm_writer", "", "()"⟩

/-- the state at the top of the loop of `process_messages` with updater state `u` (computed: `Rs.topSt`) -/
abbrev topW (nowNs : Int) (inp : Nat → Value) (pre : List Stmt) (u : Updater) (log : List Value) (pos : Nat) : St :=
  topSt (ctxP nowNs [] inp) Code.fn_shm_writer__process_messages (writerArgs u) pre log pos

/-- what a turn amounts to after the updater handled a message (`none` = panic) -/
def stepSpec (nowNs : Int) (inp : Nat → Value) (pre : List Stmt) (log : List Value) (pos : Nat) (ev : Value) :
    Option (Updater × Record) → TurnSpec
  | none => .panic
  | some (u', r) => .next (topW nowNs inp pre u' (log ++ [ev, recordValue r]) (pos + 1))

/-- ONE TURN of the loop of `process_messages` (however it is written) on the message `m` -/
def DispStmt (nowNs : Int) (u : Updater) (m : WMsg) : Prop :=
  ∀ (inp : Nat → Value) (log : List Value) (pos : Nat) (pre : List Stmt) (c : Expr) (body : List Stmt)
    (_hfl : findLoop Code.fn_shm_writer__process_messages_stmts = some (pre, c, body))
    (_hin : inp pos = m.recvd) (K : Nat) (_hK : 100 ≤ K),
    turnIs (ctxP nowNs [] inp) frW c body K
      (evalWhile (K + 2) (ctxP nowNs [] inp) frW c body (topW nowNs inp pre u log pos))
      (match m.toMsg nowNs with
       | none => .next (topW nowNs inp pre u (log ++ [evRecv m.recvd]) (pos + 1))
       | some msg => stepSpec nowNs inp pre log pos (evRecv m.recvd) (u.step msg))

/-- a block that is one trailing expression -/
theorem evalBlock_single (n : Nat) (ctx : Ctx) (fr : Frame) (e : Expr) (st : St) :
    evalBlock (n + 1) ctx fr [.expr e false] st = eval n ctx fr e st := by
  simp only [evalBlock]
  rfl

/-- a `match` whose scrutinee evaluates to a value: the arms are run on THAT value, in the state `f st` the
    scrutinee leaves.  (Used instead of `simp [rs_eval]` on the whole `match`: simp normalises the continuation
    `fun v st => evalArms .. v st` for a symbolic `v` before applying it, and the kernel does not get through the
    resulting term for the arms of `process_messages`.) -/
theorem eval_matchE_val (n : Nat) (ctx : Ctx) (fr : Frame) (s : Expr) (arms : List Arm) (st : St) (f : St → St)
    (v : Value) (h : eval n ctx fr s st = .val v (f st)) :
    eval (n + 1) ctx fr (.matchE s arms) st = evalArms n ctx fr arms v (f st) := by
  simp only [eval, h, Res.bind_val]

set_option hygiene false in
macro "disp_start" : tactic => `(tactic| (
  intro inp log pos pre c body hfl hin K hK
  obtain ⟨M, rfl⟩ : ∃ M, K = M + 100 := ⟨K - 100, by omega⟩
  simp [rs_eval, rs_code] at hfl
  obtain ⟨rfl, rfl, rfl⟩ := hfl
  simp only [ctxP, topW, linuxUses_eq]
  simp only [WMsg.recvd, WMsg.value, recvAbort] at hin
  -- the loop's condition holds at its top; its body is one `match` on what `recv()` returns (the next input)
  rw [evalWhile_true (h := by simp [rs_eval, rs_code, writerArgs, contextValue, updaterValue, ctimespecValue]),
    evalBlock_single,
    eval_matchE_val (v := inp pos)
      (f := fun st => { st with log := st.log ++ [evRecv (inp st.pos)], pos := st.pos + 1 })
      (h := by simp [rs_eval, rs_code, writerArgs, contextValue, updaterValue, ctimespecValue])]
  -- the rest of the loop as an opaque function (the loop body would be repeated in every leaf)
  rw [turnIs_W]
  generalize hW : evalWhile _ _ _ _ _ = W))

macro "disp_tie" : tactic => `(tactic| (
  simp (maxSteps := 400000) [rs_eval, ↓eval_matchE_G, chkInt, rs_code, writerArgs, contextValue, trackingValue,
    updaterValue, ctimespecValue, WMsg.recvd, WMsg.value, WMsg.toMsg, *]
  generalize hM : Updater.step _ _ = M
  repeat' split
  all_goals (subst hM; try simp [Updater.step, extractBound, boundF, classify, leapClass, Updater.record, chk,
    inI64, I64_MIN, I64_MAX, stepSpec, turnIsW_panic, turnIsW_next, rs_eval, rs_code, writerArgs, contextValue,
    dispatchBox, receiver, updaterValue, recordValue, ctimespecValue, statusValue, statusName, *])
  -- comparisons may come in another normal form than the model's (`x < 3` for `x ≤ 2`): split what is left
  all_goals (try (split_ifs <;> first | rfl | omega | simp_all))))

set_option maxRecDepth 8000 in
set_option maxHeartbeats 4000000 in
theorem disp_nrGrace (nowNs : Int) (u : Updater) : DispStmt nowNs u .nrGrace := by
  disp_start
  obtain ⟨drift, fsm, bound, ⟨as, an⟩, res, hmeas⟩ := u
  disp_tie

set_option maxRecDepth 8000 in
set_option maxHeartbeats 4000000 in
theorem disp_phcGrace (nowNs : Int) (u : Updater) : DispStmt nowNs u .phcGrace := by
  disp_start
  obtain ⟨drift, fsm, bound, ⟨as, an⟩, res, hmeas⟩ := u
  disp_tie

set_option maxRecDepth 8000 in
set_option maxHeartbeats 4000000 in
theorem disp_nr (nowNs : Int) (u : Updater) : DispStmt nowNs u .nr := by
  disp_start
  obtain ⟨drift, fsm, bound, ⟨as, an⟩, res, hmeas⟩ := u
  disp_tie

set_option maxRecDepth 8000 in
set_option maxHeartbeats 4000000 in
theorem disp_phcFail (nowNs : Int) (u : Updater) : DispStmt nowNs u .phcFail := by
  disp_start
  obtain ⟨drift, fsm, bound, ⟨as, an⟩, res, hmeas⟩ := u
  disp_tie

/-- a message without handler (any other variant of `Message`, any payload) is logged by `info!` and ignored -/
theorem disp_ignored (nowNs : Int) (u : Updater) (v : String) (args : List Value) (hv : handledVariant v = false) :
    DispStmt nowNs u (.ignored v args) := by
  simp [handledVariant] at hv
  obtain ⟨⟨⟨⟨⟨h1, h2⟩, h3⟩, h4⟩, h5⟩, h6⟩ := hv
  disp_start
  simp (maxSteps := 400000) [rs_eval, ↓eval_matchE_G, rs_code, writerArgs, contextValue, updaterValue, ctimespecValue,
    WMsg.recvd, WMsg.value, WMsg.toMsg, turnIsW_next, *]

/-- `Ok(Message::ThreadAbort)` ends the loop; nothing is written -/
theorem disp_abort (nowNs : Int) (u : Updater) (inp : Nat → Value) (log : List Value) (pos : Nat) (pre : List Stmt)
    (c : Expr) (body : List Stmt)
    (hfl : findLoop Code.fn_shm_writer__process_messages_stmts = some (pre, c, body))
    (hin : inp pos = recvAbort) (K : Nat) (hK : 100 ≤ K) :
    turnIs (ctxP nowNs [] inp) frW c body K
      (evalWhile (K + 2) (ctxP nowNs [] inp) frW c body (topW nowNs inp pre u log pos))
      (.done (log ++ [evRecv recvAbort]) (pos + 1)) := by
  revert inp log pos pre c body hfl hin K hK
  disp_start
  simp (maxSteps := 400000) [rs_eval, ↓eval_matchE_G, rs_code, writerArgs, contextValue, updaterValue, ctimespecValue,
    recvAbort, turnIsW_done, *]
  -- when the loop ends because a flag was cleared: one more evaluation of its condition
  first
    | done
    | (rw [← hW, evalWhile_false (h := by simp [rs_eval])]; simp [rs_eval, St.popTo])

end ClockBound.Rs.DispatchProof
