/-
  Simp set `rs_eval`: how the proofs of the translation tie normalise the interpreter on a concrete
  program.  One `simp only [rs_eval, rs_code, ..]` turns `run ctx name self args` into a decision tree
  whose inner nodes are the symbolic tests of the program (`if`, `orPanic (checked operation)`) and
  whose leaves are `Outcome`s: sequencing (`Res.bind`, `Res.on`) is pushed into the branches.
-/
import ClockBound.Rs.Interp
import ClockBound.Rs.Attr
namespace ClockBound.Rs

/-! ### equations of the recursive functions (they fire on constructors only) -/
rs_register_eqns eval evalList evalBlock evalArms evalFields callDecl
rs_register_loop_eqns evalWhile evalFor
rs_register_eqns matchPat matchPat.matchPats matchPat.matchFields bindParams readPlace writePlace findLet findWhile
rs_register_eqns canon constKey lastSeg lastTwo envGet envSet insertField sortFields listGet listSet lookupFn localVar
  ascribeFields updateFields enumOfVariant discrOf sizeOf intConvAt

/-! ### the dictionary: equations that fire on constructors / literals only -/
rs_register_eqns IntTy.ofName IntTy.name IntTy.lo IntTy.hi IntTy.signed IntTy.unify IntTy.bits IntTy.toUnsigned
  litValue ascribe fieldOf setField binOp unOp primCast intBin f64Bin timespecBin durationBin
  primPath primCall primMethod primMethod2 intMethod closureMethod primMacro userTypeName typeName chronyOfValue
  rangeEnd callKeys methodDecl Res.outcome statusName chronyName adoptTy iterItems intConvCall runUnary wrapWith

/-! ### small non-recursive definitions, unfolded

  `chkInt` (the overflow check) is NOT in `rs_eval`: a proof either unfolds it (`simp [rs_eval, chkInt]`: the
  check becomes a node `if lo ≤ v ∧ v ≤ hi` of the decision tree — the loop-free groups do this) or
  discharges it with `chkInt_ok` (`Proofs/RsLoop.lean`: a conditional rewrite, for symbolic iterations). -/
attribute [rs_eval] run runFuel evalIn defaultFuel Res.popTo St.popTo IntTy.card
  wrapInt boolRes enumArity mkStruct List.lookup statusValue chronyValue
  runMacro runCast runField Ctx.inputs allIntTys shiftInt St.input St.emit

section
variable {k kv kr : Value → St → Res}

@[rs_eval] theorem Res.bind_val (v st) : (Res.val v st).bind k = k v st := rfl
@[rs_eval] theorem Res.bind_ret (v st) : (Res.ret v st).bind k = .ret v st := rfl
@[rs_eval] theorem Res.bind_panic : Res.panic.bind k = .panic := rfl
@[rs_eval] theorem Res.bind_stuck (m) : (Res.stuck m).bind k = .stuck m := rfl
@[rs_eval] theorem Res.bind_ite (c : Prop) [Decidable c] (a b : Res) :
    (if c then a else b).bind k = if c then a.bind k else b.bind k := by split <;> rfl
@[rs_eval] theorem Res.bind_orPanic {α} (o : Option α) (f : α → Res) :
    (orPanic o f).bind k = orPanic o fun a => (f a).bind k := by cases o <;> rfl

@[rs_eval] theorem Res.bind_brk (v st) : (Res.brk v st).bind k = .brk v st := rfl
@[rs_eval] theorem Res.bind_cont (st) : (Res.cont st).bind k = .cont st := rfl

@[rs_eval] theorem Res.on_val (v st) : (Res.val v st).on kv kr = kv v st := rfl
@[rs_eval] theorem Res.on_ret (v st) : (Res.ret v st).on kv kr = kr v st := rfl
@[rs_eval] theorem Res.on_panic : Res.panic.on kv kr = .panic := rfl
@[rs_eval] theorem Res.on_stuck (m) : (Res.stuck m).on kv kr = .stuck m := rfl
@[rs_eval] theorem Res.on_brk (v st) : (Res.brk v st).on kv kr = .stuck "break outside of a loop" := rfl
@[rs_eval] theorem Res.on_cont (st) : (Res.cont st).on kv kr = .stuck "continue outside of a loop" := rfl
@[rs_eval] theorem Res.on_ite (c : Prop) [Decidable c] (a b : Res) :
    (if c then a else b).on kv kr = if c then a.on kv kr else b.on kv kr := by split <;> rfl
@[rs_eval] theorem Res.on_orPanic {α} (o : Option α) (f : α → Res) :
    (orPanic o f).on kv kr = orPanic o fun a => (f a).on kv kr := by cases o <;> rfl
end

section
variable {f : St → St} {next : St → Res}
@[rs_eval] theorem Res.mapSt_val (v st) : (Res.val v st).mapSt f = .val v (f st) := rfl
@[rs_eval] theorem Res.mapSt_ret (v st) : (Res.ret v st).mapSt f = .ret v (f st) := rfl
@[rs_eval] theorem Res.mapSt_brk (v st) : (Res.brk v st).mapSt f = .brk v (f st) := rfl
@[rs_eval] theorem Res.mapSt_cont (st) : (Res.cont st).mapSt f = .cont (f st) := rfl
@[rs_eval] theorem Res.mapSt_panic : Res.panic.mapSt f = .panic := rfl
@[rs_eval] theorem Res.mapSt_stuck (m) : (Res.stuck m).mapSt f = .stuck m := rfl
@[rs_eval] theorem Res.mapSt_ite (c : Prop) [Decidable c] (a b : Res) :
    (if c then a else b).mapSt f = if c then a.mapSt f else b.mapSt f := by split <;> rfl
@[rs_eval] theorem Res.mapSt_orPanic {α} (o : Option α) (g : α → Res) :
    (orPanic o g).mapSt f = orPanic o fun a => (g a).mapSt f := by cases o <;> rfl

@[rs_eval] theorem Res.loopNext_val (v st) : (Res.val v st).loopNext next = next st := rfl
@[rs_eval] theorem Res.loopNext_cont (st) : (Res.cont st).loopNext next = next st := rfl
@[rs_eval] theorem Res.loopNext_brk (v st) : (Res.brk v st).loopNext next = .val v st := rfl
@[rs_eval] theorem Res.loopNext_ret (v st) : (Res.ret v st).loopNext next = .ret v st := rfl
@[rs_eval] theorem Res.loopNext_panic : Res.panic.loopNext next = .panic := rfl
@[rs_eval] theorem Res.loopNext_stuck (m) : (Res.stuck m).loopNext next = .stuck m := rfl
@[rs_eval] theorem Res.loopNext_ite (c : Prop) [Decidable c] (a b : Res) :
    (if c then a else b).loopNext next = if c then a.loopNext next else b.loopNext next := by split <;> rfl
@[rs_eval] theorem Res.loopNext_orPanic {α} (o : Option α) (g : α → Res) :
    (orPanic o g).loopNext next = orPanic o fun a => (g a).loopNext next := by cases o <;> rfl
end

@[rs_eval] theorem firstRule_some (r b) : firstRule (some r) b = r := rfl
@[rs_eval] theorem firstRule_none (b) : firstRule none b = b := rfl

/-- without a fallback type nothing is retyped -/
@[rs_eval] theorem litFallback_none (a b : Value) : litFallback none a b = (a, b) := by
  unfold litFallback; split <;> simp_all
@[rs_eval] theorem litFallback_some (t : IntTy) (x y : Int) :
    litFallback (some t) (.int .infer x) (.int .infer y) = (.int t x, .int t y) := rfl

/-! the empty dictionary -/
@[rs_eval] theorem Ext.none_call (w n a st) : Ext.none.call w n a st = Option.none := rfl
@[rs_eval] theorem Ext.none_method (w v n a st) : Ext.none.method w v n a st = Option.none := rfl
@[rs_eval] theorem Ext.none_path (n) : Ext.none.path n = Option.none := rfl
@[rs_eval] theorem Ext.none_macroCall (w n a st) : Ext.none.macroCall w n a st = Option.none := rfl
@[rs_eval] theorem Ext.none_deref (w v st) : Ext.none.deref w v st = Option.none := rfl
@[rs_eval] theorem Ext.none_fieldOf (v n) : Ext.none.fieldOf v n = Option.none := rfl
@[rs_eval] theorem Ext.none_cast (w t v st) : Ext.none.cast w t v st = Option.none := rfl
@[rs_eval] theorem Ext.none_litFallback : Ext.none.litFallback = Option.none := rfl
@[rs_eval] theorem Ext.none_errFrom (r v) : Ext.none.errFrom r v = Option.none := rfl

@[rs_eval] theorem orStuck_some {α} (m) (a : α) (k : α → Res) : orStuck m (some a) k = k a := rfl
@[rs_eval] theorem orStuck_none {α} (m) (k : α → Res) : orStuck m none k = .stuck m := rfl
@[rs_eval] theorem orPanic_some {α} (a : α) (k : α → Res) : orPanic (some a) k = k a := rfl
@[rs_eval] theorem orPanic_none {α} (k : α → Res) : orPanic none k = .panic := rfl

@[rs_eval] theorem Res.outcome_ite (c : Prop) [Decidable c] (a b : Res) :
    (if c then a else b).outcome = if c then a.outcome else b.outcome := by split <;> rfl

/-- `Res.outcome` of a checked operation -/
def orPanicO {α : Type} (o : Option α) (k : α → Outcome) : Outcome :=
  match o with
  | none => .panic
  | some a => k a

@[rs_eval] theorem Res.outcome_orPanic {α} (o : Option α) (f : α → Res) :
    (orPanic o f).outcome = orPanicO o fun a => (f a).outcome := by cases o <;> rfl
@[rs_eval] theorem orPanicO_some {α} (a : α) (k : α → Outcome) : orPanicO (some a) k = k a := rfl
@[rs_eval] theorem orPanicO_none {α} (k : α → Outcome) : orPanicO none k = .panic := rfl

-- [shm] begin: generate the equation lemmas of `callDeclRef` HERE (a common ancestor) WITHOUT adding them to `rs_eval`
-- (they unfold a call by reference inside continuations, which is expensive): a proof that needs them says
-- `simp [callDeclRef]`; two groups that did so independently could otherwise not be imported together
open Lean Meta Elab Command in
elab "rs_realize_eqns_core " ids:ident+ : command => do
  for id in ids do
    let declName ← liftCoreM <| realizeGlobalConstNoOverloadWithInfo id
    let _ ← liftTermElabM <| getEqnsFor? declName
rs_realize_eqns_core callDeclRef
-- [shm] end
-- [shm] begin: the array comparison added to `binOp` (`Rs/Interp.lean`, block `[shm]`)
rs_register_eqns intListEq tupleFieldName
rs_register_eqns letValue
@[rs_eval] theorem Ext.none_letPtr (t v) : Ext.none.letPtr t v = Option.none := rfl
-- [shm] end
-- [poller] begin: trait-impl method resolution (`Rs/Interp.lean`, block [poller])
rs_register_eqns SelfKind.hasRecv traitImplCands traitImplDecl
-- by-reference arguments (`Rs/Interp.lean`, second block [poller])
rs_register_eqns derefArgs writeBackArgs hasMutRefParam
-- [poller] end
-- [errors] BEGIN
rs_register_eqns enumFromKeys fnPathArg fnPathParams fnPathArgs
rs_register_eqns memStr useGlobEnum globVariant globPath retHasErr tryFromDecl typedInit typedFields fieldTyOf
attribute [rs_eval] tableTys
-- [errors] END
/-! ### [threads] begin: registrations for the core rules added with the `Threads` group -/
rs_register_eqns evalEach listPush captureArgs filterBy
@[rs_eval] theorem Ext.none_refMut (w v st) : Ext.none.refMut w v st = Option.none := rfl
/-! ### [threads] end -/

end ClockBound.Rs
