/-
  Simp set `rs_eval`: how the proofs of the translation tie normalise the interpreter on a concrete
  program.  One `simp only [rs_eval, rs_code, ..]` turns `run ctx name self args` into a decision tree
  whose inner nodes are the symbolic tests of the program (`if`, `orPanic (checked operation)`) and
  whose leaves are `Outcome`s: sequencing (`Res.bind`, `Res.on`) is pushed into the branches.
-/
import ClockBound.Rs.Interp
import ClockBound.Rs.Attr
namespace ClockBound.Rs

/-! ### equations of the recursive functions (they fire on constructors only) -/
rs_register_eqns eval evalList evalBlock evalArms evalFields callDecl
rs_register_eqns matchPat matchPat.matchPats bindParams readPlace writePlace findLet
rs_register_eqns canon constKey lastSeg lastTwo envGet envSet insertField sortFields listGet lookupFn localVar
  ascribeFields

/-! ### the dictionary: equations that fire on constructors / literals only -/
rs_register_eqns IntTy.ofName IntTy.name IntTy.lo IntTy.hi IntTy.signed IntTy.unify
  litValue ascribe fieldOf setField binOp unOp castTo intBin f64Bin timespecBin durationBin
  primPath primCall primMethod primMacro userTypeName typeName chronyOfValue rangeEnd callKeys
  Res.outcome statusName chronyName

/-! ### small non-recursive definitions, unfolded -/
attribute [rs_eval] run evalIn defaultFuel Res.popTo St.popTo IntTy.card
  chkInt wrapInt boolRes enumArity mkStruct List.lookup statusValue chronyValue

section
variable {k kv kr : Value → St → Res}

@[rs_eval] theorem Res.bind_val (v st) : (Res.val v st).bind k = k v st := rfl
@[rs_eval] theorem Res.bind_ret (v st) : (Res.ret v st).bind k = .ret v st := rfl
@[rs_eval] theorem Res.bind_panic : Res.panic.bind k = .panic := rfl
@[rs_eval] theorem Res.bind_stuck (m) : (Res.stuck m).bind k = .stuck m := rfl
@[rs_eval] theorem Res.bind_ite (c : Prop) [Decidable c] (a b : Res) :
    (if c then a else b).bind k = if c then a.bind k else b.bind k := by split <;> rfl
@[rs_eval] theorem Res.bind_orPanic {α} (o : Option α) (f : α → Res) :
    (orPanic o f).bind k = orPanic o fun a => (f a).bind k := by cases o <;> rfl

@[rs_eval] theorem Res.on_val (v st) : (Res.val v st).on kv kr = kv v st := rfl
@[rs_eval] theorem Res.on_ret (v st) : (Res.ret v st).on kv kr = kr v st := rfl
@[rs_eval] theorem Res.on_panic : Res.panic.on kv kr = .panic := rfl
@[rs_eval] theorem Res.on_stuck (m) : (Res.stuck m).on kv kr = .stuck m := rfl
@[rs_eval] theorem Res.on_ite (c : Prop) [Decidable c] (a b : Res) :
    (if c then a else b).on kv kr = if c then a.on kv kr else b.on kv kr := by split <;> rfl
@[rs_eval] theorem Res.on_orPanic {α} (o : Option α) (f : α → Res) :
    (orPanic o f).on kv kr = orPanic o fun a => (f a).on kv kr := by cases o <;> rfl
end

@[rs_eval] theorem orStuck_some {α} (m) (a : α) (k : α → Res) : orStuck m (some a) k = k a := rfl
@[rs_eval] theorem orStuck_none {α} (m) (k : α → Res) : orStuck m none k = .stuck m := rfl
@[rs_eval] theorem orPanic_some {α} (a : α) (k : α → Res) : orPanic (some a) k = k a := rfl
@[rs_eval] theorem orPanic_none {α} (k : α → Res) : orPanic none k = .panic := rfl

@[rs_eval] theorem Res.outcome_ite (c : Prop) [Decidable c] (a b : Res) :
    (if c then a else b).outcome = if c then a.outcome else b.outcome := by split <;> rfl

/-- `Res.outcome` of a checked operation -/
def orPanicO {α : Type} (o : Option α) (k : α → Outcome) : Outcome :=
  match o with
  | none => .panic
  | some a => k a

@[rs_eval] theorem Res.outcome_orPanic {α} (o : Option α) (f : α → Res) :
    (orPanic o f).outcome = orPanicO o fun a => (f a).outcome := by cases o <;> rfl
@[rs_eval] theorem orPanicO_some {α} (a : α) (k : α → Outcome) : orPanicO (some a) k = k a := rfl
@[rs_eval] theorem orPanicO_none {α} (k : α → Outcome) : orPanicO none k = .panic := rfl

end ClockBound.Rs
