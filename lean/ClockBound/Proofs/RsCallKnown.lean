/-
  Calls of the four callees of `ShmWriter::new` as rewrite rules.  `simp [rs_eval]` normalises INSIDE continuations
  before they are applied, so the interpreter's equation for `callDecl` unfolds a call while the callee is still a
  variable, and a lemma about a specific callee never gets to see it.  Therefore: `callKnown` wraps the call of a
  function that is already looked up (the interpreter's equations do not unfold it), `eval_call_*` (used as
  PRE-rewrite rules, `↓`) turn `eval (.call ["ShmWriter", f] args)` into the evaluation of the arguments followed by
  `callKnown .. fn_ShmWriter__f ..`, and `known_*` are the callee lemmas of `Proofs/RsWipe.lean` in that form.
-/
import ClockBound.Proofs.RsWipe
namespace ClockBound.Rs.WriterNewProof
open ClockBound ClockBound.Rs ClockBound.Generated ClockBound.Rs.DictShm ClockBound.Rs.EmbedShm

/-- a call of a KNOWN function of the tables on evaluated arguments -/
def callKnown (n : Nat) (ctx : Ctx) (d : FnDecl) (vs : List Value) (st : St) : Res :=
  (callDecl n ctx d .unit vs st).bind fun rv st =>
    match rv with
    | .tuple [v, _] => .val v st
    | _ => .stuck "internal: callDecl result"

/-- the proof of each `eval_call_*`: the interpreter's rule for `.call`, the name is no library function, no
    enum constructor, and `fns` has it under its plain key whatever the arguments -/
-- [poller, integration] the core rule `[threads]` for `f(|| g(..))` comes before the rule for `.call segs args`, so
-- the latter applies when `args` is not that one closure: the side condition `hargs` (discharged by `simp` on the
-- concrete argument lists of `ShmWriter::new`), and `rw [eval]` instead of `simp only [eval]`.
local macro "eval_call_tac" h:ident : tactic => `(tactic| (
  rw [eval]
  case x_5 => exact $h
  congr 1
  funext av st'
  cases av <;> try rfl
  rename_i vs
  rcases vs with _ | ⟨a, _ | ⟨b, t⟩⟩ <;> simp [rs_eval, rs_code, callKnown] <;> rfl))

set_option maxRecDepth 8000 in
theorem eval_call_wipe (n : Nat) (inp : Nat → Value) (fr : Frame) (args : List Expr) (st : St)
    (hargs : ∀ (fsegs : List String) (fargs : List Expr), args = [Expr.closure [] (Expr.call fsegs fargs)] → False) :
    eval (n + 1) (nctx inp) fr (.call ["ShmWriter", "wipe"] args) st
    = (evalList n (nctx inp) fr args st).bind fun av st =>
        match av with
        | .tuple vs => callKnown n (nctx inp) Code.fn_ShmWriter__wipe vs st
        | _ => .stuck "internal: evalList result" := by eval_call_tac hargs

set_option maxRecDepth 8000 in
theorem eval_call_usable (n : Nat) (inp : Nat → Value) (fr : Frame) (args : List Expr) (st : St)
    (hargs : ∀ (fsegs : List String) (fargs : List Expr), args = [Expr.closure [] (Expr.call fsegs fargs)] → False) :
    eval (n + 1) (nctx inp) fr (.call ["ShmWriter", "is_usable_segment"] args) st
    = (evalList n (nctx inp) fr args st).bind fun av st =>
        match av with
        | .tuple vs => callKnown n (nctx inp) Code.fn_ShmWriter__is_usable_segment vs st
        | _ => .stuck "internal: evalList result" := by eval_call_tac hargs

set_option maxRecDepth 8000 in
theorem eval_call_mmap (n : Nat) (inp : Nat → Value) (fr : Frame) (args : List Expr) (st : St)
    (hargs : ∀ (fsegs : List String) (fargs : List Expr), args = [Expr.closure [] (Expr.call fsegs fargs)] → False) :
    eval (n + 1) (nctx inp) fr (.call ["ShmWriter", "mmap_segment_at"] args) st
    = (evalList n (nctx inp) fr args st).bind fun av st =>
        match av with
        | .tuple vs => callKnown n (nctx inp) Code.fn_ShmWriter__mmap_segment_at vs st
        | _ => .stuck "internal: evalList result" := by eval_call_tac hargs

set_option maxRecDepth 8000 in
theorem eval_call_segsize (n : Nat) (inp : Nat → Value) (fr : Frame) (args : List Expr) (st : St)
    (hargs : ∀ (fsegs : List String) (fargs : List Expr), args = [Expr.closure [] (Expr.call fsegs fargs)] → False) :
    eval (n + 1) (nctx inp) fr (.call ["ShmWriter", "segment_size"] args) st
    = (evalList n (nctx inp) fr args st).bind fun av st =>
        match av with
        | .tuple vs => callKnown n (nctx inp) Code.fn_ShmWriter__segment_size vs st
        | _ => .stuck "internal: evalList result" := by eval_call_tac hargs

theorem known_segsize (inp : Nat → Value) (N : Nat) (st : St) :
    callKnown (N + 60) (nctx inp) Code.fn_ShmWriter__segment_size [] st = .val (.int .usize 72) st := by
  simp [callKnown, segment_size_call, Res.bind]

theorem known_wipe (inp : Nat → Value) (parent : String) (hasParent : Bool) (hp : hasParent = (parent != ""))
    (N : Nat) (env : List (String × Value)) (lg : List Value) (p : Nat)
    (hw : ∀ i, i < (wipeAnswers hasParent).length → inp (p + i) = (wipeAnswers hasParent).getD i .unit) :
    callKnown (N + 60) (nctx inp) Code.fn_ShmWriter__wipe [.ext "Path" [.str "shm", .str parent], .int .usize 72]
      { env := env, log := lg, pos := p }
    = .val (.enumv "Ok" [.tuple []])
        { env := env,
          log := lg ++ wipeEvents (.ext "Path" [.str "shm", .str parent]) (.ext "Path" [.str parent, .str ""]) hasParent,
          pos := p + (wipeAnswers hasParent).length } := by
  simp [callKnown, wipe_call inp parent hasParent hp N env lg p hw, Res.bind]

theorem known_mmap (inp : Nat → Value) (parent : String) (fd : Nat) (N : Nat) (env : List (String × Value))
    (lg : List Value) (p : Nat)
    (h0 : inp p = .enumv "Ok" [.int .i32 fd]) (h1 : inp (p + 1) = .enumv "Ok" [.enumv "addr:segment" []]) :
    callKnown (N + 60) (nctx inp) Code.fn_ShmWriter__mmap_segment_at
      [.ext "Path" [.str "shm", .str parent], .int .usize 72] { env := env, log := lg, pos := p }
    = .val (.enumv "Ok" [.enumv "addr:segment" []])
        { env := env, log := lg ++ mapEvents (.ext "Path" [.str "shm", .str parent]) fd, pos := p + 2 } := by
  simp [callKnown, mmap_call inp parent fd N env lg p h0 h1, Res.bind]

end ClockBound.Rs.WriterNewProof
