/-
  Helper lemmas for the file-level crash model (C04).
-/
import ClockBound.Model.Crash
namespace ClockBound.Crash

end ClockBound.Crash
