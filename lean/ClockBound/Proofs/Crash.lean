/-
  Helper lemmas for the file-level crash model (C04).

  * `runUntil_fst`: the file left behind by a writer dying at event `k` is `effectBefore` folded over
    the first `k+1` events of the script;
  * `script_usable` / `script_unusable`: the script as a concrete list;
  * `runUntil_usable_cases`: the five possible files left behind over a usable segment;
  * `runAll_usable` / `runAll_unusable`: the file after a complete start-up + first publication;
  * `runUntil_unusable_prefix` / `runUntil_unusable_suffix`: the file left behind while an unusable
    file is being re-created / once the first publication over the re-created file has started;
  * generation arithmetic and `ReaderA.snap` facts.
-/
import ClockBound.Model.Crash
namespace ClockBound.Crash
open ClockBound

/-! ### `runUntil` as a fold over a prefix of the script -/

theorem go_fst (rec : List Nat) (k : Nat) : ∀ (evs : List Ev) (f : FileA) (i : Nat), i ≤ k →
    (runUntil.go rec k f i evs).1 = (evs.take (k + 1 - i)).foldl (effectBefore rec) f
  | [], f, i, _ => by simp [runUntil.go]
  | e :: rest, f, i, h => by
    unfold runUntil.go
    by_cases hik : i = k
    · subst hik
      have : i + 1 - i = 1 := by omega
      simp [this]
    · have h1 : k + 1 - i = (k + 1 - (i + 1)) + 1 := by omega
      simp only [hik, if_false]
      rw [go_fst rec k rest _ (i + 1) (by omega), h1, List.take_succ_cons, List.foldl_cons]

theorem runUntil_fst (f : FileA) (rec : List Nat) (k : Nat) :
    (runUntil f rec k).1 = ((script f).take (k + 1)).foldl (effectBefore rec) f := by
  unfold runUntil
  exact go_fst rec k (script f) f 0 (Nat.zero_le _)

theorem foldl_hdrLoad (rec : List Nat) (f : FileA) : ∀ n : Nat,
    (List.replicate n Ev.hdrLoad).foldl (effectBefore rec) f = f
  | 0 => rfl
  | n + 1 => by rw [List.replicate_succ, List.foldl_cons]; exact foldl_hdrLoad rec f n

/-! ### the script as a concrete list -/

theorem usable_iff (f : FileA) : f.usable = true ↔
    f.present = true ∧ 16 ≤ f.len ∧ f.magic0 = true ∧ f.magic1 = true ∧ f.version ≠ 0 ∧ f.gen ≠ 0 ∧
    72 ≤ f.size := by
  simp [FileA.usable, and_assoc]

theorem hdrLoads_usable (f : FileA) (h : f.usable = true) : hdrLoads f = 3 := by
  obtain ⟨h1, h2, h3, h4, h5, h6, _⟩ := (usable_iff f).1 h
  simp [hdrLoads, h1, h2, h3, h4, h5, h6]

theorem hdrLoads_le (f : FileA) : hdrLoads f ≤ 3 := by
  unfold hdrLoads; split <;> (try split) <;> (try split) <;> omega

/-- the ten events of `new` (after the usability check) + first `write` -/
def tailEvs : List Ev :=
  [.newChecked, .newMapped, .storeVersion, .newVersioned, .loadGen, .storeGenOdd, .fence, .copy,
   .storeGenEven, .done]

/-- the nine wipe events -/
def wipeEvs : List Ev :=
  [.wipeDirs, .wipeCreated, .wipeMagic0, .wipeMagic1, .wipeSegsize, .wipeVersion, .wipeGeneration,
   .wipeZeroed, .wipeSynced]

theorem script_usable (f : FileA) (h : f.usable = true) :
    script f = [.newStart, .hdrLoad, .hdrLoad, .hdrLoad, .newChecked, .newMapped, .storeVersion,
      .newVersioned, .loadGen, .storeGenOdd, .fence, .copy, .storeGenEven, .done] := by
  simp [script, h, hdrLoads_usable f h, List.replicate]

theorem script_unusable (f : FileA) (h : f.usable = false) :
    script f = .newStart :: (List.replicate (hdrLoads f) .hdrLoad ++ (wipeEvs ++ tailEvs)) := by
  simp [script, h, wipeEvs, tailEvs]

/-! ### the file left behind -/

/-- the file after a complete `new; write rec` over a usable segment -/
def finalUsable (f : FileA) (rec : List Nat) : FileA :=
  { f with version := 1, gen := genFinish (genStart f.gen), cells := rec }

/-- the file after a complete `new; write rec` over an unusable file -/
def finalFresh (rec : List Nat) : FileA :=
  { present := true, len := 72, magic0 := true, magic1 := true, size := 72, version := 1, gen := 2,
    cells := rec }

theorem runUntil_usable_cases (f : FileA) (rec : List Nat) (k : Nat) (h : f.usable = true) :
    (runUntil f rec k).1 = f ∨
    (runUntil f rec k).1 = { f with version := 1 } ∨
    (runUntil f rec k).1 = { f with version := 1, gen := genStart f.gen } ∨
    (runUntil f rec k).1 = { f with version := 1, gen := genStart f.gen, cells := rec } ∨
    (runUntil f rec k).1 = finalUsable f rec := by
  rw [runUntil_fst, script_usable f h]
  have hk : k = 0 ∨ k = 1 ∨ k = 2 ∨ k = 3 ∨ k = 4 ∨ k = 5 ∨ k = 6 ∨ k = 7 ∨ k = 8 ∨ k = 9 ∨ k = 10 ∨
      k = 11 ∨ k = 12 ∨ 13 ≤ k := by omega
  rcases hk with rfl | rfl | rfl | rfl | rfl | rfl | rfl | rfl | rfl | rfl | rfl | rfl | rfl | hk
  case inr.inr.inr.inr.inr.inr.inr.inr.inr.inr.inr.inr.inr =>
    rw [List.take_of_length_le (by simp; omega)]
    simp [effectBefore, finalUsable]
  all_goals simp [effectBefore]

theorem runAll_usable (f : FileA) (rec : List Nat) (h : f.usable = true) :
    runAll f rec = finalUsable f rec := by
  unfold runAll
  rw [runUntil_fst, script_usable f h, List.take_of_length_le (by simp)]
  simp [effectBefore, finalUsable]

theorem runAll_unusable (f : FileA) (rec : List Nat) (h : f.usable = false) :
    runAll f rec = finalFresh rec := by
  unfold runAll
  have hl := hdrLoads_le f
  rw [runUntil_fst, script_unusable f h, List.take_of_length_le (by simp [wipeEvs, tailEvs]; omega),
    List.foldl_cons, List.foldl_append, show effectBefore rec f .newStart = f from rfl, foldl_hdrLoad]
  simp [wipeEvs, tailEvs, effectBefore, finalFresh, genStart, genFinish]

/-- while an unusable file is being re-created (up to the crash point just before the first
    generation store takes effect) the file left behind is the old one, or too short, or has
    generation 0 -/
theorem runUntil_unusable_prefix (f : FileA) (rec : List Nat) (k : Nat) (h : f.usable = false)
    (hk : k ≤ 15 + hdrLoads f) :
    (runUntil f rec k).1 = f ∨ (runUntil f rec k).1.len < 16 ∨ (runUntil f rec k).1.gen = 0 := by
  rw [runUntil_fst, script_unusable f h, List.take_succ_cons, List.foldl_cons,
    show effectBefore rec f .newStart = f from rfl, List.take_append, List.foldl_append,
    List.take_replicate, foldl_hdrLoad, List.length_replicate]
  generalize hj : k - hdrLoads f = j
  have hj' : j = 0 ∨ j = 1 ∨ j = 2 ∨ j = 3 ∨ j = 4 ∨ j = 5 ∨ j = 6 ∨ j = 7 ∨ j = 8 ∨ j = 9 ∨ j = 10 ∨
      j = 11 ∨ j = 12 ∨ j = 13 ∨ j = 14 ∨ j = 15 := by omega
  rcases hj' with rfl | rfl | rfl | rfl | rfl | rfl | rfl | rfl | rfl | rfl | rfl | rfl | rfl | rfl |
    rfl | rfl <;> simp [wipeEvs, tailEvs, effectBefore]

/-- once the first generation store of the first publication over a re-created file has taken
    effect, the file left behind is the freshly laid out one: in-flight (odd) generation over the
    zeroed payload, in-flight generation over the copied record, or the completed publication -/
theorem runUntil_unusable_suffix (f : FileA) (rec : List Nat) (k : Nat) (h : f.usable = false)
    (hk : 15 + hdrLoads f < k) :
    (runUntil f rec k).1 = { finalFresh (List.replicate 7 0) with gen := 1 } ∨
    (runUntil f rec k).1 = { finalFresh rec with gen := 1 } ∨
    (runUntil f rec k).1 = finalFresh rec := by
  rw [runUntil_fst, script_unusable f h, List.take_succ_cons, List.foldl_cons,
    show effectBefore rec f .newStart = f from rfl, List.take_append, List.foldl_append,
    List.take_replicate, foldl_hdrLoad, List.length_replicate]
  generalize hj : k - hdrLoads f = j
  have hj' : j = 16 ∨ j = 17 ∨ j = 18 ∨ 19 ≤ j := by omega
  rcases hj' with rfl | rfl | rfl | hj'
  case inr.inr.inr =>
    rw [List.take_of_length_le (by simp [wipeEvs, tailEvs]; omega)]
    simp [wipeEvs, tailEvs, effectBefore, finalFresh, genStart, genFinish]
  all_goals simp [wipeEvs, tailEvs, effectBefore, finalFresh, genStart]

/-! ### generation arithmetic -/

theorem genStart_odd (g : Nat) : genStart g % 2 = 1 := by
  unfold genStart; split <;> omega

theorem genFinish_ne_zero (g : Nat) : genFinish g ≠ 0 := by
  unfold genFinish; simp only; split <;> omega

theorem genFinish_even (g : Nat) (h : g % 2 = 1) : genFinish g % 2 = 0 := by
  unfold genFinish; simp only; split <;> omega

theorem genFinish_lt (g : Nat) : genFinish g < 65536 := by
  unfold genFinish; simp only; split <;> omega

theorem genStart_lt (g : Nat) (hg : g < 65536) : genStart g < 65536 := by
  unfold genStart; split <;> omega

theorem genStart_of_odd (g : Nat) (h : g % 2 = 1) : genStart g = g := by
  unfold genStart; split <;> omega

theorem genStart_ne_zero (g : Nat) : genStart g ≠ 0 := by
  have := genStart_odd g; omega

theorem genStart_idem (g : Nat) : genStart (genStart g) = genStart g := by
  have := genStart_odd g
  generalize genStart g = s at *
  unfold genStart; split <;> omega

/-- a completed update changes the generation -/
theorem genNext_ne (g : Nat) (hg : g < 65536) : genFinish (genStart g) ≠ g := by
  unfold genFinish genStart; simp only; split <;> split <;> omega

/-- finishing an update that was already started, over an odd generation -/
theorem genFinish_ne_of_odd (g : Nat) (h : g % 2 = 1) : genFinish g ≠ g := by
  have := genFinish_even g h; omega

/-- an update completed over the in-flight (odd) generation `genStart g` never lands on `g` -/
theorem genFinish_genStart_ne (g : Nat) (hg : g < 65536) : genFinish (genStart (genStart g)) ≠ g := by
  rw [genStart_idem]; exact genNext_ne g hg

theorem finalUsable_usable (f : FileA) (rec : List Nat) (h : f.usable = true) :
    (finalUsable f rec).usable = true := by
  obtain ⟨h1, h2, h3, h4, _, _, h7⟩ := (usable_iff f).1 h
  rw [usable_iff]
  exact ⟨h1, h2, h3, h4, by simp [finalUsable], genFinish_ne_zero _, h7⟩

theorem openText_usable (f : FileA) (h : f.usable = true) : openText f = "ok" := by
  obtain ⟨h1, h2, h3, h4, h5, h6, h7⟩ := (usable_iff f).1 h
  have h2' : ¬ f.len < 16 := by omega
  have h7' : ¬ f.size < 72 := by omega
  simp [openText, h1, h2', h3, h4, h5, h6, h7']

/-- `ShmReader::new` fails on every unusable file -/
theorem openText_unusable (f : FileA) (h : f.usable = false) : openText f ≠ "ok" := by
  have hn : ¬ (f.present = true ∧ 16 ≤ f.len ∧ f.magic0 = true ∧ f.magic1 = true ∧ f.version ≠ 0 ∧
      f.gen ≠ 0 ∧ 72 ≤ f.size) := by
    intro hc; rw [(usable_iff f).2 hc] at h; exact Bool.noConfusion h
  unfold openText
  repeat' split
  all_goals first | decide | (exfalso; apply hn; simp_all <;> omega)

/-- the first `snapshot()` of a freshly attached reader: its empty initial record while the segment is
    uninitialised or an update is in flight, the segment's payload otherwise -/
theorem snap_fresh_cache (f : FileA) : (({} : ReaderA).snap f).cache =
    if f.version = 0 ∨ f.gen = 0 ∨ f.gen % 2 = 1 then List.replicate 7 0 else f.cells := by
  unfold ReaderA.snap
  by_cases h : f.version = 0 ∨ f.gen = 0 ∨ f.gen % 2 = 1
  · rw [if_pos h, if_pos (by rcases h with h | h | h <;> simp [h])]
  · rw [if_neg h, if_neg (by intro hc; apply h; rcases hc with hc | hc | hc | hc <;> simp_all)]

/-! ### the fields of `predict`, in terms of `runUntil` / `runAll` -/

section predict
variable (p : Prior) (k k1 k2 : Nat)

/-- the file left behind by the first incarnation in `predict` -/
abbrev pf1 : FileA := (runUntil p.file (recCells k1) k).1
/-- the file after the restarted writer's first publication in `predict` -/
abbrev pf2 : FileA := runAll (pf1 p k k1) (recCells k2)

theorem predict_fresh :
    (predict p k k1 k2).fresh = cellsText (({} : ReaderA).snap (pf2 p k k1 k2)).cache := rfl
theorem predict_open1 : (predict p k k1 k2).open1 = openText (pf1 p k k1) := rfl
theorem predict_len1 :
    (predict p k k1 k2).len1 = if (pf1 p k k1).present then ((pf1 p k k1).len : Int) else -1 := rfl
theorem predict_fresh1 :
    (predict p k k1 k2).fresh1 =
      if openText (pf1 p k k1) ≠ "ok" then "none" else cellsText (({} : ReaderA).snap (pf1 p k k1)).cache := rfl
theorem predict_inodeSame : (predict p k k1 k2).inodeSame = p.file.present := rfl
theorem predict_len2 : (predict p k k1 k2).len2 = ((pf2 p k k1 k2).len : Int) := rfl

theorem predict_att1_unusable (hu : p.file.usable = false) : (predict p k k1 k2).att1 = "none" := by
  show ((Option.map (fun x : ReaderA => x.snap (pf1 p k k1))
    (if p.file.usable = true then some (({} : ReaderA).snap p.file) else none)).map
      (fun r => cellsText r.cache)).getD "none" = "none"
  rw [hu]; rfl

theorem predict_att2_unusable (hu : p.file.usable = false) : (predict p k k1 k2).att2 = "none" := by
  show (((Option.map (fun x : ReaderA => x.snap (pf1 p k k1))
    (if p.file.usable = true then some (({} : ReaderA).snap p.file) else none)).map
      (fun x : ReaderA => x.snap (pf2 p k k1 k2))).map (fun r => cellsText r.cache)).getD "none" = "none"
  rw [hu]; rfl

theorem predict_att1_usable (hu : p.file.usable = true) :
    (predict p k k1 k2).att1 = cellsText ((({} : ReaderA).snap p.file).snap (pf1 p k k1)).cache := by
  show ((Option.map (fun x : ReaderA => x.snap (pf1 p k k1))
    (if p.file.usable = true then some (({} : ReaderA).snap p.file) else none)).map
      (fun r => cellsText r.cache)).getD "none" = _
  rw [hu]; rfl

theorem predict_att2_usable (hu : p.file.usable = true) :
    (predict p k k1 k2).att2 =
      cellsText (((({} : ReaderA).snap p.file).snap (pf1 p k k1)).snap (pf2 p k k1 k2)).cache := by
  show (((Option.map (fun x : ReaderA => x.snap (pf1 p k k1))
    (if p.file.usable = true then some (({} : ReaderA).snap p.file) else none)).map
      (fun x : ReaderA => x.snap (pf2 p k k1 k2))).map (fun r => cellsText r.cache)).getD "none" = _
  rw [hu]; rfl

end predict

/-- a `Prior` whose file is usable is 72 bytes long -/
theorem prior_usable_len (p : Prior) (hu : p.file.usable = true) : p.file.len = 72 := by
  cases p <;> first | rfl | exact absurd hu (by decide)

end ClockBound.Crash
