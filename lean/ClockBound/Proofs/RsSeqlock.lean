/-
  Proofs of the translation tie for the seqlock: `ShmWrite for ShmWriter::write` and `ShmReader::snapshot`
  (statements in `Properties/CodeTieSeqlock.lean`).
-/
import ClockBound.Proofs.RsShm
import ClockBound.Model.Pipeline
namespace ClockBound.Rs.SeqlockProof
open ClockBound ClockBound.Rs ClockBound.Generated ClockBound.Rs.DictShm ClockBound.Rs.EmbedShm

/-! ### the writer -/

/-- the model's `genStart`, over the integers -/
theorem genStart_int (g : Nat) :
    ((genStart g : Nat) : Int) = if (g : Int) % 2 = 0 then ((g : Int) + 1) % 65536 else (g : Int) := by
  unfold genStart
  split <;> split <;> omega

/-- the model's `genFinish`, over the integers -/
theorem genFinish_int (s : Nat) :
    ((genFinish s : Nat) : Int) = if ((s : Int) + 1) % 65536 = 0 then 2 else ((s : Int) + 1) % 65536 := by
  unfold genFinish
  simp only
  split <;> split <;> omega

/-- the dictionary's word stores are the model's cell stores -/
theorem wordStores_eq (cells : List Nat) (c : Nat) :
    wordStores c (cells.map fun (w : Nat) => Value.int .u64 (w : Int))
    = ((List.range cells.length).map fun i => SL.Acc.store (.cell (c + i)) .relaxed (cells[i]?.getD 0)).map accValue := by
  induction cells generalizing c with
  | nil => simp [wordStores]
  | cons w ws ih =>
    simp only [List.map_cons, wordStores, List.length_cons, List.range_succ_eq_map, List.map_map]
    rw [ih (c + 1)]
    simp [accValue, locValue, locTy, ordValue, Function.comp_def, Nat.add_assoc, Nat.add_comm 1]

/-! #### the writer's annotation, read off a probe run

  `write` is run once on a probe input (generation 4, a record without words): the orderings its four
  accesses name are the writer fields of the annotation `writeAnn` — found by evaluation, not written in the
  proof, so that a refactoring that strengthens an ordering changes `writeAnn`, not the theorem. -/

/-- the last event of a log -/
def lastOf : List Value → Value
  | [] => .unit
  | [x] => x
  | _ :: y :: r => lastOf (y :: r)

/-- the ordering a load / store / fence event names -/
def evOrd : Value → Option SL.Ord
  | .ext "load" [_, o, _] => ordOfValue o
  | .ext "store" [_, _, o] => ordOfValue o
  | .ext "fence" [o] => ordOfValue o
  | _ => none

def isFenceEv : Value → Bool
  | .ext "fence" _ => true
  | _ => false

def writeProbeLog : List Value :=
  match run (Code.ctxWith 0 DictShm.ext [] (rawInp fun _ => 4)) "ShmWrite for ShmWriter::write" (writerValue 72)
      [wordsValue []] with
  | .ok _ _ l => l
  | _ => []

/-- the annotation of the writer found in the source (reader fields: the defaults, not used by `writerProg`) -/
def writeAnn : SL.Ann :=
  { wLoad := (evOrd (writeProbeLog.getD 0 .unit)).getD .relaxed,
    wStore1 := (evOrd (writeProbeLog.getD 1 .unit)).getD .relaxed,
    wFence := if isFenceEv (writeProbeLog.getD 2 .unit) then evOrd (writeProbeLog.getD 2 .unit) else none,
    wStore2 := (evOrd (lastOf writeProbeLog)).getD .relaxed }

set_option maxRecDepth 8000 in
set_option maxHeartbeats 2000000 in
theorem write_tie (inp : Nat → Nat) (cells : List Nat) (segsize : Nat) (nowNs : Int) (sizes : List (String × Nat)) :
    run (Code.ctxWith nowNs DictShm.ext sizes (rawInp inp)) "ShmWrite for ShmWriter::write" (writerValue segsize)
      [wordsValue cells]
    = .ok .unit (writerValue segsize) ((SL.writerProg writeAnn (inp 0 % 65536) cells).map accValue) := by
  obtain ⟨g, hg, hgi, hgn⟩ : ∃ g : Nat, g < 65536 ∧ ((inp 0 : Nat) : Int) % 65536 = (g : Int) ∧ inp 0 % 65536 = g :=
    ⟨inp 0 % 65536, Nat.mod_lt _ (by decide), by omega, rfl⟩
  simp [rs_eval, rs_code, rawInp, writerValue, wordsValue, hgi, hgn]
  -- the annotation: evaluate the probe run
  simp only [SL.writerProg, List.map_append, List.map_cons, List.map_nil, accValue, locValue, locTy,
    wordStores_eq, Nat.zero_add, List.cons_append, List.nil_append]
  simp [writeAnn, writeProbeLog, evOrd, isFenceEv, lastOf, ordOfValue, rs_eval, rs_code, rawInp, writerValue, wordsValue,
    wordStores, ordValue, evStore, evLoad, evFence]
  rw [genFinish_int, genStart_int]
  clear hgi hgn
  -- the arithmetic: parity test by `& 1`, first store by `wrapping_add` or `| 1`, roll-over by `== 0`
  try simp only [lor_one]
  split_ifs <;> simp_all [ordering, evStore, evLoad, evFence, accValue, ordValue, locValue, locTy] <;> omega

/-- the orderings `C02` needs of the writer: the fence after the first generation store and the second store
    are (at least) `Release` -/
theorem writeAnn_rel : (writeAnn.wStore2.isRel && (writeAnn.wFence.map SL.Ord.isRel).getD false) = true := by
  simp [writeAnn, writeProbeLog, evOrd, isFenceEv, lastOf, ordOfValue, rs_eval, rs_code, rawInp, writerValue, wordsValue,
    wordStores, SL.Ord.isRel, evStore, evLoad, evFence]

/-! ### the reader -/

/-- frame of `ShmReader::snapshot` -/
def sfr : Frame := ⟨"reader", "ShmReader", "Result<&ClockErrorBound,ShmError>"⟩

/-- the positions at which an attempt of the retry loop starts: 2, 2 + (N+1), 2 + 2(N+1), … -/
def AttemptPos (pos : Nat) : Prop := ∃ j, pos = 2 + (SL.N + 1) * j

theorem AttemptPos.next {pos : Nat} (h : AttemptPos pos) : AttemptPos (pos + SL.N + 1) := by
  obtain ⟨j, rfl⟩ := h
  exact ⟨j + 1, by simp only [SL.N]; omega⟩

theorem loadCard_cell {pos : Nat} (h : AttemptPos pos) (c : Nat) (hc : c < SL.N) :
    loadCard (pos + c) = 18446744073709551616 := by
  obtain ⟨j, rfl⟩ := h
  have hN : SL.N = 7 := rfl
  simp only [loadCard, hN] at hc ⊢
  rw [if_neg]
  omega

theorem loadCard_gen2 {pos : Nat} (h : AttemptPos pos) : loadCard (pos + SL.N) = 65536 := by
  obtain ⟨j, rfl⟩ := h
  have hN : SL.N = 7 := rfl
  simp only [loadCard, hN]
  rw [if_pos]
  omega

theorem typedInp_gen2 (inp : Nat → Nat) {pos : Nat} (h : AttemptPos pos) :
    ((inp (pos + SL.N) : Nat) : Int) % 65536 = ((typedInp inp (pos + SL.N) : Nat) : Int) := by
  unfold typedInp
  rw [loadCard_gen2 h]
  omega

theorem typedInp_0 (inp : Nat → Nat) : ((inp 0 : Nat) : Int) % 65536 = ((typedInp inp 0 : Nat) : Int) := by
  simp [typedInp, loadCard]
theorem typedInp_1 (inp : Nat → Nat) : ((inp 1 : Nat) : Int) % 65536 = ((typedInp inp 1 : Nat) : Int) := by
  simp [typedInp, loadCard]

theorem readWords_raw (inp : Nat → Nat) : ∀ k c pos,
    readWords (rawInp inp) k c pos
    = some ((List.range k).map fun i => Value.int .u64 (((inp (pos + i) : Nat) : Int) % 18446744073709551616)) := by
  intro k
  induction k with
  | zero => intro c pos; simp [readWords]
  | succ k ih =>
    intro c pos
    simp only [readWords, ih, rawInp, asU64, List.range_succ_eq_map, List.map_cons, List.map_map]
    simp [Function.comp_def, Nat.add_assoc, Nat.add_comm 1]

/-- the volatile copy of the record reads the words `attemptCells (typedInp inp) pos` -/
theorem readWords_attempt (inp : Nat → Nat) {pos : Nat} (h : AttemptPos pos) :
    readWords (rawInp inp) SL.N 0 pos
    = some ((SL.attemptCells (typedInp inp) pos).map fun (w : Nat) => Value.int .u64 (w : Int)) := by
  rw [readWords_raw, SL.attemptCells, List.map_map]
  congr 1
  apply List.map_congr_left
  intro i hi
  have hi' : i < SL.N := List.mem_range.mp hi
  simp only [Function.comp, typedInp, loadCard_cell h i hi']
  congr 1

theorem wordLoads_range (f : Nat → Nat) : ∀ k c,
    wordLoads c ((List.range k).map fun i => Value.int .u64 ((f i : Nat) : Int))
    = ((List.range k).map fun i => SL.Acc.load (.cell (c + i)) .relaxed (f i)).map accValue := by
  intro k
  induction k generalizing f with
  | zero => intro c; simp [wordLoads]
  | succ k ih =>
    intro c
    simp only [List.range_succ_eq_map, List.map_cons, List.map_map, wordLoads]
    have := ih (fun i => f (i + 1)) (c + 1)
    simp only [Function.comp_def] at this ⊢
    rw [this]
    simp [accValue, locValue, locTy, ordValue, Function.comp_def, Nat.add_assoc, Nat.add_comm 1]

/-- the load events of that copy are the model's cell loads -/
theorem wordLoads_attempt (inp : Nat → Nat) (pos : Nat) :
    wordLoads 0 ((SL.attemptCells inp pos).map fun (w : Nat) => Value.int .u64 (w : Int))
    = ((List.range SL.N).map fun c => SL.Acc.load (.cell c) .relaxed (inp (pos + c))).map accValue := by
  have := wordLoads_range (fun c => inp (pos + c)) SL.N 0
  simpa [SL.attemptCells, List.map_map, Function.comp_def] using this

/-- the context of the statements: the generated tables, the dictionary, the raw input stream -/
abbrev sctx (nowNs : Int) (sizes : List (String × Nat)) (inp : Nat → Nat) : Ctx :=
  Code.ctxWith nowNs DictShm.ext sizes (rawInp inp)

/-- how a loop state is built from: remaining budget, generation to confirm, cached generation, cached
    record, log, position in the input stream -/
abbrev MkSt := Nat → Nat → Nat → List Nat → List Value → Nat → St

/-! ### the layout of the loop state, read off a PROBE run (so that names, number and order of the local
  variables, helper functions and accessor methods are not in the proofs)

  The statements of `snapshot` before its retry loop are run on a probe input — version 7, generation 10, cached
  generation 3 — for which no early return is taken; the environment this leaves is the layout of the state at
  the head of the loop, and `relabel` puts the actual values where the probe values are: the generation to
  confirm for 10, the version for 7, the retry budget for the literal 1000000 (if the loop counts down), the
  reader for the probe reader. -/

/-- the statements before the first top-level loop of a body -/
def loopPrefix : List Stmt → List Stmt
  | [] => []
  | s :: rest =>
    match s with
    | .expr (.whileE _ _) _ => []
    | .expr (.forE _ _ _) _ => []
    | .expr (.loopE _) _ => []
    | _ => s :: loopPrefix rest

def probeInp : Nat → Nat := fun k => if k = 0 then 7 else 10

/-- the state the statements before the loop leave on the probe input -/
def probeSt : St :=
  match evalBlock 150 (sctx 0 [] probeInp) sfr (loopPrefix Code.fn_ShmReader__snapshot_stmts)
      { env := [("self", readerValue 3 [])], log := [], pos := 0 } with
  | .val _ st => st
  | _ => { env := [], log := [] }

/-- the local variables at the head of the retry loop on the probe input -/
def probeEnv : List (String × Value) := probeSt.env

/-- the actual values for the probe values -/
def relabel (tc : IntTy) (k g1 v cg : Nat) (cache : List Nat) : Value → Value
  | .int t n => if n = 10 then .int t g1 else if n = 7 then .int t v else if n = 1000000 then .int tc k else .int t n
  | .struct "ShmReader" _ => readerValue cg cache
  | x => x

/-- the first top-level `for` of a body: pattern, iterator, body (`findWhile`'s counterpart) -/
def findFor : List Stmt → Option (Pat × Expr × List Stmt)
  | [] => none
  | s :: rest =>
    match s with
    | .expr (.forE p it b) _ => some (p, it, b)
    | _ => findFor rest

/-- the state at the head of the retry loop: `tc`, `k` the type and value of the retry counter (if there is one),
    `g1` the generation to confirm, `v` the version read -/
def LSg (tc : IntTy) (v : Nat) : MkSt := fun k g1 cg cache lg pos =>
  { env := probeEnv.map fun p => (p.1, relabel tc k g1 v cg cache p.2), log := lg, pos := pos }

/-! #### the reader's annotation, read off the probe

  The orderings of the version load and of the first generation load are those of the two events of the probe run of
  the prefix; the fence and the re-check are those of ONE run of the loop body from the probe state (the `N` cell
  loads come first, then the fence if there is one, then the generation load).  The writer fields are `writeAnn`'s. -/

def logOf : Res → List Value
  | .val _ st => st.log
  | .ret _ st => st.log
  | .brk _ st => st.log
  | .cont st => st.log
  | _ => []

/-- the accesses of one run of the loop body on the probe state -/
def bodyLog : List Value :=
  match findWhile Code.fn_ShmReader__snapshot_stmts, findFor Code.fn_ShmReader__snapshot_stmts with
  | some (_, b), _ => logOf (evalBlock 150 (sctx 0 [] probeInp) sfr b { env := probeEnv, log := [], pos := 2 })
  | none, some (p, _, b) =>
    logOf (evalFor 150 (sctx 0 [] probeInp) sfr p b [.int .infer 0] { env := probeEnv, log := [], pos := 2 })
  | none, none => []

/-- the annotation found in the source: `writeAnn` for the writer, the probe for the reader -/
def snapAnn : SL.Ann :=
  { writeAnn with
    rVersion := (evOrd (probeSt.log.getD 0 .unit)).getD .relaxed,
    rGen1 := (evOrd (probeSt.log.getD 1 .unit)).getD .relaxed,
    rFence := if isFenceEv (bodyLog.getD 7 .unit) then evOrd (bodyLog.getD 7 .unit) else none,
    rGen2 := (evOrd (lastOf bodyLog)).getD .relaxed }

/-- evaluate the probe of the loop body: `h : bodyLog = <the concrete events>` (no event is written in a proof) -/
macro "eval_bodyLog " h:ident : tactic => `(tactic| (
  have $h : bodyLog = bodyLog := rfl
  conv at $h =>
    rhs
    simp [bodyLog, probeEnv, probeSt, loopPrefix, probeInp, logOf, findFor, evalFor_cons, evalFor_nil, rs_eval, rs_code,
      sfr, rawInp, readerValue, wordsValue, SL.N, DictShm.readWords, DictShm.wordLoads]))

/-- evaluate the probe of the prefix: `h : probeSt.log = <the concrete events>` -/
macro "eval_preLog " h:ident : tactic => `(tactic| (
  have $h : probeSt.log = probeSt.log := rfl
  conv at $h =>
    rhs
    simp [probeSt, loopPrefix, probeInp, rs_eval, rs_code, sfr, rawInp, readerValue, wordsValue]))

/-! ### the retry loop of the CODE in closed form, generic in how the interpreter state is laid out -/

/-- same recursion as `SL.readerLoop`, but with the whole interpreter state (`mk` lays out the first
    iteration, `mk'` the later ones: the `while` form changes the type of its counter after the first
    `retries -= 1`) -/
def loopOutG (tinp : Nat → Nat) (cg : Nat) (cache : List Nat) (mk' : MkSt) : MkSt → Nat → Nat → Nat → List Value → Res
  | mk, 0, pos, g1, lg => .val .unit (mk 0 g1 cg cache lg pos)
  | mk, k + 1, pos, g1, lg =>
    if g1 = tinp (pos + SL.N) then
      .ret (.enumv "Ok" [wordsValue (SL.attemptCells tinp pos)])
        (mk (k + 1) g1 g1 (SL.attemptCells tinp pos) (lg ++ (SL.attemptAccs snapAnn tinp pos).map accValue)
          (pos + SL.N + 1))
    else
      loopOutG tinp cg cache mk' mk' k (pos + SL.N + 1) (if tinp (pos + SL.N) % 2 = 0 then tinp (pos + SL.N) else g1)
        (lg ++ (SL.attemptAccs snapAnn tinp pos).map accValue)

/-- a layout that keeps the reader in `self` and the log where the rest of the function looks for them -/
def GoodMk (mk : MkSt) : Prop :=
  ∀ k g1 cg cache lg pos, envGet (mk k g1 cg cache lg pos).env "self" = some (readerValue cg cache) ∧
    (mk k g1 cg cache lg pos).log = lg

/-- what the rest of `snapshot` needs to know about the outcome of the loop, in terms of the MODEL's
    `SL.readerLoop`: accepted — a `return Ok(&snapshot_ceb)` with the cache updated; budget used up — the
    loop ends normally with the cache untouched; in both cases the log grew by the model's accesses -/
def LoopPost (r : Res) (lg : List Value) (cg : Nat) (cache : List Nat) : List SL.Acc × Option (Nat × List Nat) → Prop
  | (accs, some (g', cells)) =>
    ∃ st', r = .ret (.enumv "Ok" [wordsValue cells]) st' ∧ envGet st'.env "self" = some (readerValue g' cells) ∧
      st'.log = lg ++ accs.map accValue
  | (accs, none) =>
    ∃ st', r = .val .unit st' ∧ envGet st'.env "self" = some (readerValue cg cache) ∧ st'.log = lg ++ accs.map accValue

theorem loopOutG_spec (tinp : Nat → Nat) (cg : Nat) (cache : List Nat) (mk' : MkSt) (hmk' : GoodMk mk') :
    ∀ k mk, GoodMk mk → ∀ pos g1 lg r, loopOutG tinp cg cache mk' mk k pos g1 lg = r →
      LoopPost r lg cg cache (SL.readerLoop snapAnn tinp k pos g1) := by
  intro k
  induction k with
  | zero =>
    intro mk hmk pos g1 lg r h
    subst h
    simp [SL.readerLoop, LoopPost, loopOutG, hmk 0 g1 cg cache lg pos]
  | succ k ih =>
    intro mk hmk pos g1 lg r h
    subst h
    rw [loopOutG, SL.readerLoop]
    simp only
    split
    · exact ⟨_, rfl, (hmk _ _ _ _ _ _).1, (hmk _ _ _ _ _ _).2⟩
    · have := ih mk' hmk' (pos + SL.N + 1) (if tinp (pos + SL.N) % 2 = 0 then tinp (pos + SL.N) else g1)
        (lg ++ (SL.attemptAccs snapAnn tinp pos).map accValue) _ rfl
      rcases hrl : SL.readerLoop snapAnn tinp k (pos + SL.N + 1) (if tinp (pos + SL.N) % 2 = 0 then tinp (pos + SL.N) else g1)
        with ⟨accs, _ | ⟨g', cells⟩⟩
      · rw [hrl] at this
        obtain ⟨st', h1, h2, h3⟩ := this
        exact ⟨st', h1, h2, by simp [h3]⟩
      · rw [hrl] at this
        obtain ⟨st', h1, h2, h3⟩ := this
        exact ⟨st', h1, h2, by simp [h3]⟩

/-- a well-typed stream of load results is not changed by the reduction to the width of the locations -/
theorem typedInp_id (inp : Nat → Nat) (h : ∀ k, inp k < loadCard k) : typedInp inp = inp := by
  funext k
  exact Nat.mod_eq_of_lt (h k)

end ClockBound.Rs.SeqlockProof
