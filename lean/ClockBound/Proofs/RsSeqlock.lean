/-
  Proofs of the translation tie for the seqlock: `ShmWrite for ShmWriter::write` and `ShmReader::snapshot`
  (statements in `Properties/CodeTieSeqlock.lean`).
-/
import ClockBound.Proofs.RsShm
import ClockBound.Model.Pipeline
namespace ClockBound.Rs.SeqlockProof
open ClockBound ClockBound.Rs ClockBound.Generated ClockBound.Rs.DictShm ClockBound.Rs.EmbedShm

/-! ### the writer -/

/-- the model's `genStart`, over the integers -/
theorem genStart_int (g : Nat) :
    ((genStart g : Nat) : Int) = if (g : Int) % 2 = 0 then ((g : Int) + 1) % 65536 else (g : Int) := by
  unfold genStart
  split <;> split <;> omega

/-- the model's `genFinish`, over the integers -/
theorem genFinish_int (s : Nat) :
    ((genFinish s : Nat) : Int) = if ((s : Int) + 1) % 65536 = 0 then 2 else ((s : Int) + 1) % 65536 := by
  unfold genFinish
  simp only
  split <;> split <;> omega

/-- the dictionary's word stores are the model's cell stores -/
theorem wordStores_eq (cells : List Nat) (c : Nat) :
    wordStores c (cells.map fun (w : Nat) => Value.int .u64 (w : Int))
    = ((List.range cells.length).map fun i => SL.Acc.store (.cell (c + i)) .relaxed (cells[i]?.getD 0)).map accValue := by
  induction cells generalizing c with
  | nil => simp [wordStores]
  | cons w ws ih =>
    simp only [List.map_cons, wordStores, List.length_cons, List.range_succ_eq_map, List.map_map]
    rw [ih (c + 1)]
    simp [accValue, locValue, locTy, ordValue, Function.comp_def, Nat.add_assoc, Nat.add_comm 1]

set_option maxRecDepth 8000 in
set_option maxHeartbeats 1000000 in
theorem write_tie (inp : Nat → Nat) (cells : List Nat) (segsize : Nat) (nowNs : Int) (sizes : List (String × Nat)) :
    run (Code.ctxWith nowNs DictShm.ext sizes (rawInp inp)) "ShmWrite for ShmWriter::write" (writerValue segsize)
      [wordsValue cells]
    = .ok .unit (writerValue segsize) ((SL.writerProg {} (inp 0 % 65536) cells).map accValue) := by
  obtain ⟨g, hg, hgi, hgn⟩ : ∃ g : Nat, g < 65536 ∧ ((inp 0 : Nat) : Int) % 65536 = (g : Int) ∧ inp 0 % 65536 = g :=
    ⟨inp 0 % 65536, Nat.mod_lt _ (by decide), by omega, rfl⟩
  simp [rs_eval, rs_code, rawInp, writerValue, wordsValue, hgi, hgn]
  simp only [SL.writerProg, List.map_append, List.map_cons, List.map_nil, accValue, locValue, locTy, ordValue,
    wordStores_eq, Nat.zero_add, List.cons_append, List.nil_append]
  rw [genFinish_int, genStart_int]
  clear hgi hgn
  -- the arithmetic: parity test by `& 1`, first store by `wrapping_add` or `| 1`, roll-over by `== 0`
  try simp only [lor_one]
  split_ifs <;> simp_all [ordering, evStore, evLoad, evFence] <;> omega

/-! ### the reader -/

/-- frame of `ShmReader::snapshot` -/
def sfr : Frame := ⟨"reader", "ShmReader", "Result<&ClockErrorBound,ShmError>"⟩

/-- the positions at which an attempt of the retry loop starts: 2, 2 + (N+1), 2 + 2(N+1), … -/
def AttemptPos (pos : Nat) : Prop := ∃ j, pos = 2 + (SL.N + 1) * j

theorem AttemptPos.next {pos : Nat} (h : AttemptPos pos) : AttemptPos (pos + SL.N + 1) := by
  obtain ⟨j, rfl⟩ := h
  exact ⟨j + 1, by simp only [SL.N]; omega⟩

theorem loadCard_cell {pos : Nat} (h : AttemptPos pos) (c : Nat) (hc : c < SL.N) :
    loadCard (pos + c) = 18446744073709551616 := by
  obtain ⟨j, rfl⟩ := h
  have hN : SL.N = 7 := rfl
  simp only [loadCard, hN] at hc ⊢
  rw [if_neg]
  omega

theorem loadCard_gen2 {pos : Nat} (h : AttemptPos pos) : loadCard (pos + SL.N) = 65536 := by
  obtain ⟨j, rfl⟩ := h
  have hN : SL.N = 7 := rfl
  simp only [loadCard, hN]
  rw [if_pos]
  omega

theorem typedInp_gen2 (inp : Nat → Nat) {pos : Nat} (h : AttemptPos pos) :
    ((inp (pos + SL.N) : Nat) : Int) % 65536 = ((typedInp inp (pos + SL.N) : Nat) : Int) := by
  unfold typedInp
  rw [loadCard_gen2 h]
  omega

theorem typedInp_0 (inp : Nat → Nat) : ((inp 0 : Nat) : Int) % 65536 = ((typedInp inp 0 : Nat) : Int) := by
  simp [typedInp, loadCard]
theorem typedInp_1 (inp : Nat → Nat) : ((inp 1 : Nat) : Int) % 65536 = ((typedInp inp 1 : Nat) : Int) := by
  simp [typedInp, loadCard]

theorem readWords_raw (inp : Nat → Nat) : ∀ k c pos,
    readWords (rawInp inp) k c pos
    = some ((List.range k).map fun i => Value.int .u64 (((inp (pos + i) : Nat) : Int) % 18446744073709551616)) := by
  intro k
  induction k with
  | zero => intro c pos; simp [readWords]
  | succ k ih =>
    intro c pos
    simp only [readWords, ih, rawInp, asU64, List.range_succ_eq_map, List.map_cons, List.map_map]
    simp [Function.comp_def, Nat.add_assoc, Nat.add_comm 1]

/-- the volatile copy of the record reads the words `attemptCells (typedInp inp) pos` -/
theorem readWords_attempt (inp : Nat → Nat) {pos : Nat} (h : AttemptPos pos) :
    readWords (rawInp inp) SL.N 0 pos
    = some ((SL.attemptCells (typedInp inp) pos).map fun (w : Nat) => Value.int .u64 (w : Int)) := by
  rw [readWords_raw, SL.attemptCells, List.map_map]
  congr 1
  apply List.map_congr_left
  intro i hi
  have hi' : i < SL.N := List.mem_range.mp hi
  simp only [Function.comp, typedInp, loadCard_cell h i hi']
  congr 1

theorem wordLoads_range (f : Nat → Nat) : ∀ k c,
    wordLoads c ((List.range k).map fun i => Value.int .u64 ((f i : Nat) : Int))
    = ((List.range k).map fun i => SL.Acc.load (.cell (c + i)) .relaxed (f i)).map accValue := by
  intro k
  induction k generalizing f with
  | zero => intro c; simp [wordLoads]
  | succ k ih =>
    intro c
    simp only [List.range_succ_eq_map, List.map_cons, List.map_map, wordLoads]
    have := ih (fun i => f (i + 1)) (c + 1)
    simp only [Function.comp_def] at this ⊢
    rw [this]
    simp [accValue, locValue, locTy, ordValue, Function.comp_def, Nat.add_assoc, Nat.add_comm 1]

/-- the load events of that copy are the model's cell loads -/
theorem wordLoads_attempt (inp : Nat → Nat) (pos : Nat) :
    wordLoads 0 ((SL.attemptCells inp pos).map fun (w : Nat) => Value.int .u64 (w : Int))
    = ((List.range SL.N).map fun c => SL.Acc.load (.cell c) .relaxed (inp (pos + c))).map accValue := by
  have := wordLoads_range (fun c => inp (pos + c)) SL.N 0
  simpa [SL.attemptCells, List.map_map, Function.comp_def] using this

/-- the local variables at the head of the retry loop: the remaining budget (an `i32` once it has been
    decremented, an untyped literal before), the generation to confirm, and the reader -/
def LS (t : IntTy) (k g1 v cg : Nat) (cache : List Nat) (lg : List Value) (pos : Nat) : St :=
  { env := [("retries", .int t k), ("first_gen", .int .u16 g1), ("generation", refA16 "generation"),
            ("version", .int .u16 v), ("version", refA16 "version"), ("self", readerValue cg cache)],
    log := lg, pos := pos }

/-- the context of the statements: the generated tables, the dictionary, the raw input stream -/
abbrev sctx (nowNs : Int) (sizes : List (String × Nat)) (inp : Nat → Nat) : Ctx :=
  Code.ctxWith nowNs DictShm.ext sizes (rawInp inp)

set_option maxRecDepth 8000 in
/-- the loop condition `retries > 0` on a positive budget -/
theorem cond_succ (inp : Nat → Nat) (nowNs : Int) (sizes : List (String × Nat)) (c : Expr) (b : List Stmt)
    (hcb : findWhile Code.fn_ShmReader__snapshot_stmts = some (c, b))
    (t : IntTy) (ht : t = .infer ∨ t = .i32) (k g1 v cg : Nat) (cache : List Nat) (lg : List Value) (pos : Nat)
    (N : Nat) (hN : 30 ≤ N) :
    eval N (sctx nowNs sizes inp) sfr c (LS t (k + 1) g1 v cg cache lg pos)
    = .val (.bool true) (LS t (k + 1) g1 v cg cache lg pos) := by
  simp [rs_eval] at hcb
  obtain ⟨rfl, rfl⟩ := hcb
  obtain ⟨M, rfl⟩ := Nat.exists_eq_add_of_le' hN
  have h : (0 : Int) < (k : Int) + 1 := by omega
  rcases ht with rfl | rfl <;> simp [rs_eval, LS, sfr, h]

set_option maxRecDepth 8000 in
/-- … and on an exhausted one -/
theorem cond_zero (inp : Nat → Nat) (nowNs : Int) (sizes : List (String × Nat)) (c : Expr) (b : List Stmt)
    (hcb : findWhile Code.fn_ShmReader__snapshot_stmts = some (c, b))
    (t : IntTy) (ht : t = .infer ∨ t = .i32) (g1 v cg : Nat) (cache : List Nat) (lg : List Value) (pos : Nat)
    (N : Nat) (hN : 30 ≤ N) :
    eval N (sctx nowNs sizes inp) sfr c (LS t 0 g1 v cg cache lg pos)
    = .val (.bool false) (LS t 0 g1 v cg cache lg pos) := by
  simp [rs_eval] at hcb
  obtain ⟨rfl, rfl⟩ := hcb
  obtain ⟨M, rfl⟩ := Nat.exists_eq_add_of_le' hN
  rcases ht with rfl | rfl <;> simp [rs_eval, LS, sfr]

set_option maxRecDepth 8000 in
set_option maxHeartbeats 2000000 in
/-- one run of the loop body: the volatile copy, the fence, the re-check; then either the snapshot is
    accepted (`return Ok(..)` with the cache updated) or the loop goes on with one retry less and, if the
    generation seen is even, with that generation as the one to confirm -/
theorem iter_eq (inp : Nat → Nat) (nowNs : Int) (sizes : List (String × Nat)) (c : Expr) (b : List Stmt)
    (hcb : findWhile Code.fn_ShmReader__snapshot_stmts = some (c, b))
    (t : IntTy) (ht : t = .infer ∨ t = .i32) (k g1 v cg : Nat) (cache : List Nat) (lg : List Value) (pos : Nat)
    (hk : k + 1 ≤ 2147483647) (hpos : AttemptPos pos) (N : Nat) (hN : 30 ≤ N) (next : St → Res) :
    ((evalBlock N (sctx nowNs sizes inp) sfr b (LS t (k + 1) g1 v cg cache lg pos)).popTo
        (LS t (k + 1) g1 v cg cache lg pos).env.length).loopNext next
    = if g1 = typedInp inp (pos + SL.N) then
        .ret (.enumv "Ok" [wordsValue (SL.attemptCells (typedInp inp) pos)])
          (LS t (k + 1) g1 v g1 (SL.attemptCells (typedInp inp) pos)
            (lg ++ (SL.attemptAccs {} (typedInp inp) pos).map accValue) (pos + SL.N + 1))
      else
        next (LS .i32 k (if typedInp inp (pos + SL.N) % 2 = 0 then typedInp inp (pos + SL.N) else g1) v cg cache
          (lg ++ (SL.attemptAccs {} (typedInp inp) pos).map accValue) (pos + SL.N + 1)) := by
  simp [rs_eval] at hcb
  obtain ⟨rfl, rfl⟩ := hcb
  obtain ⟨M, rfl⟩ := Nat.exists_eq_add_of_le' hN
  have hlo : IntTy.lo .i32 ≤ (k : Int) := by show (-2147483648 : Int) ≤ k; omega
  have hhi : (k : Int) ≤ IntTy.hi .i32 := by show (k : Int) ≤ 2147483647; omega
  have hchk : ∀ st, chkInt .i32 (k : Int) st = .val (.int .i32 k) st :=
    fun st => chkInt_ok .i32 k st (by decide) hlo hhi
  rcases ht with rfl | rfl <;>
  · simp [rs_eval, rs_code, LS, sfr, rawInp, readerValue, wordsValue, readWords_attempt inp hpos, typedInp_gen2 inp hpos,
      wordLoads_attempt, hchk, SL.attemptAccs, accValue, locValue, locTy, ordValue]
    split_ifs <;> simp_all <;> omega

/-- the retry loop of the CODE in closed form (same recursion as `SL.readerLoop`, but with the whole
    interpreter state: needed because the state is what the rest of the function continues with) -/
def loopOut (tinp : Nat → Nat) (v cg : Nat) (cache : List Nat) : IntTy → Nat → Nat → Nat → List Value → Res
  | t, 0, pos, g1, lg => .val .unit (LS t 0 g1 v cg cache lg pos)
  | t, k + 1, pos, g1, lg =>
    if g1 = tinp (pos + SL.N) then
      .ret (.enumv "Ok" [wordsValue (SL.attemptCells tinp pos)])
        (LS t (k + 1) g1 v g1 (SL.attemptCells tinp pos) (lg ++ (SL.attemptAccs {} tinp pos).map accValue)
          (pos + SL.N + 1))
    else
      loopOut tinp v cg cache .i32 k (pos + SL.N + 1) (if tinp (pos + SL.N) % 2 = 0 then tinp (pos + SL.N) else g1)
        (lg ++ (SL.attemptAccs {} tinp pos).map accValue)

/-- the loop of `ShmReader::snapshot` with a budget of `k` retries, for every fuel ≥ `k + 31` -/
theorem loop_eq (inp : Nat → Nat) (nowNs : Int) (sizes : List (String × Nat)) (c : Expr) (b : List Stmt)
    (hcb : findWhile Code.fn_ShmReader__snapshot_stmts = some (c, b)) (v cg : Nat) (cache : List Nat) :
    ∀ k, k ≤ 2147483647 → ∀ t, (t = .infer ∨ t = .i32) → ∀ pos, AttemptPos pos → ∀ g1 lg N, k + 31 ≤ N →
      evalWhile N (sctx nowNs sizes inp) sfr c b (LS t k g1 v cg cache lg pos)
      = loopOut (typedInp inp) v cg cache t k pos g1 lg := by
  intro k
  induction k with
  | zero =>
    intro _ t ht pos _ g1 lg N hN
    obtain ⟨M, rfl⟩ : ∃ M, N = M + 1 := ⟨N - 1, by omega⟩
    rw [evalWhile_succ, cond_zero inp nowNs sizes c b hcb t ht g1 v cg cache lg pos M (by omega)]
    simp [loopOut, LS, St.popTo, Res.bind_val]
  | succ k ih =>
    intro hk t ht pos hpos g1 lg N hN
    obtain ⟨M, rfl⟩ : ∃ M, N = M + 1 := ⟨N - 1, by omega⟩
    rw [evalWhile_succ, cond_succ inp nowNs sizes c b hcb t ht k g1 v cg cache lg pos M (by omega)]
    simp only [Res.bind_val, if_true]
    rw [iter_eq inp nowNs sizes c b hcb t ht k g1 v cg cache lg pos hk hpos M (by omega)]
    rw [loopOut]
    split
    · rfl
    · exact ih (by omega) .i32 (Or.inr rfl) _ hpos.next _ _ M (by omega)

/-- what the rest of `snapshot` needs to know about the outcome of the loop, in terms of the MODEL's
    `SL.readerLoop`: accepted — a `return Ok(&snapshot_ceb)` with the cache updated; budget used up — the
    loop ends normally with the cache untouched; in both cases the log grew by the model's accesses -/
def LoopPost (r : Res) (lg : List Value) (cg : Nat) (cache : List Nat) : List SL.Acc × Option (Nat × List Nat) → Prop
  | (accs, some (g', cells)) =>
    ∃ st', r = .ret (.enumv "Ok" [wordsValue cells]) st' ∧ envGet st'.env "self" = some (readerValue g' cells) ∧
      st'.log = lg ++ accs.map accValue
  | (accs, none) =>
    ∃ st', r = .val .unit st' ∧ envGet st'.env "self" = some (readerValue cg cache) ∧ st'.log = lg ++ accs.map accValue

theorem loopOut_spec (tinp : Nat → Nat) (v cg : Nat) (cache : List Nat) :
    ∀ k t pos g1 lg r, loopOut tinp v cg cache t k pos g1 lg = r →
      LoopPost r lg cg cache (SL.readerLoop {} tinp k pos g1) := by
  intro k
  induction k with
  | zero =>
    intro t pos g1 lg r h
    subst h
    simp [SL.readerLoop, LoopPost, loopOut, LS, envGet]
  | succ k ih =>
    intro t pos g1 lg r h
    subst h
    rw [loopOut, SL.readerLoop]
    simp only
    split
    · simp [LoopPost, LS, envGet]
    · have := ih .i32 (pos + SL.N + 1) (if tinp (pos + SL.N) % 2 = 0 then tinp (pos + SL.N) else g1)
        (lg ++ (SL.attemptAccs {} tinp pos).map accValue) _ rfl
      rcases hrl : SL.readerLoop {} tinp k (pos + SL.N + 1) (if tinp (pos + SL.N) % 2 = 0 then tinp (pos + SL.N) else g1)
        with ⟨accs, _ | ⟨g', cells⟩⟩
      · rw [hrl] at this
        obtain ⟨st', h1, h2, h3⟩ := this
        exact ⟨st', h1, h2, by simp [h3]⟩
      · rw [hrl] at this
        obtain ⟨st', h1, h2, h3⟩ := this
        exact ⟨st', h1, h2, by simp [h3]⟩

set_option maxRecDepth 8000 in
set_option maxHeartbeats 2000000 in
/-- `ShmReader::snapshot` is `SL.readerProg`, for every stream of load results, every cache, every fuel
    ≥ RETRIES + 200 -/
theorem snapshot_tie (inp : Nat → Nat) (cg : Nat) (cache : List Nat) (nowNs : Int) (sizes : List (String × Nat))
    (F : Nat) (hF : SL.RETRIES ≤ F) :
    runFuel (F + 200) (sctx nowNs sizes inp) "ShmReader::snapshot" (readerValue cg cache) []
    = readerOutcome (SL.readerProg {} (typedInp inp) cg cache) := by
  -- the source literal `1_000_000` is the model's RETRIES (the only place where RETRIES is unfolded)
  have hR : ((SL.RETRIES : Nat) : Int) = 1000000 := rfl
  have hR2 : SL.RETRIES ≤ 2147483647 := by decide
  have hloop := loop_eq inp nowNs sizes _ _ rfl (typedInp inp 0) cg cache SL.RETRIES hR2 .infer (Or.inl rfl)
    2 ⟨0, rfl⟩ (typedInp inp 1)
  simp only [LS, sfr, hR, readerValue, wordsValue, rs_eval] at hloop
  -- the function up to the loop: version load, generation load, the three early returns
  simp [rs_eval, rs_code, readerValue, wordsValue, rawInp, typedInp_0, typedInp_1]
  rw [hloop _ _ (by omega)]
  -- the loop, and the rest of the function on its two kinds of outcome
  generalize hL : loopOut _ _ _ _ _ _ _ _ _ = r
  have hs := loopOut_spec _ _ _ _ _ _ _ _ _ _ hL
  clear hL hloop hR hR2 hF
  simp only [SL.readerProg, readerOutcome]
  rcases hrl : SL.readerLoop {} (typedInp inp) SL.RETRIES 2 (typedInp inp 1) with ⟨accs, _ | ⟨g', cells⟩⟩
  · rw [hrl] at hs
    obtain ⟨st', rfl, h2, h3⟩ := hs
    simp [rs_eval, h2, h3, resultValue, readerValue, wordsValue]
    split_ifs <;> simp_all [accValue, locValue, locTy, ordValue, ordering] <;> omega
  · rw [hrl] at hs
    obtain ⟨st', rfl, h2, h3⟩ := hs
    simp [rs_eval, h2, h3, resultValue, readerValue, wordsValue]
    split_ifs <;> simp_all [accValue, locValue, locTy, ordValue, ordering] <;> omega

/-- a well-typed stream of load results is not changed by the reduction to the width of the locations -/
theorem typedInp_id (inp : Nat → Nat) (h : ∀ k, inp k < loadCard k) : typedInp inp = inp := by
  funext k
  exact Nat.mod_eq_of_lt (h k)

end ClockBound.Rs.SeqlockProof
