/-
  Proofs of the translation tie for the seqlock: `ShmWrite for ShmWriter::write` and `ShmReader::snapshot`
  (statements in `Properties/CodeTieSeqlock.lean`).
-/
import ClockBound.Proofs.RsShm
import ClockBound.Model.Pipeline
namespace ClockBound.Rs.SeqlockProof
open ClockBound ClockBound.Rs ClockBound.Generated ClockBound.Rs.DictShm ClockBound.Rs.EmbedShm

/-! ### the writer -/

/-- the model's `genStart`, over the integers -/
theorem genStart_int (g : Nat) :
    ((genStart g : Nat) : Int) = if (g : Int) % 2 = 0 then ((g : Int) + 1) % 65536 else (g : Int) := by
  unfold genStart
  split <;> split <;> omega

/-- the model's `genFinish`, over the integers -/
theorem genFinish_int (s : Nat) :
    ((genFinish s : Nat) : Int) = if ((s : Int) + 1) % 65536 = 0 then 2 else ((s : Int) + 1) % 65536 := by
  unfold genFinish
  simp only
  split <;> split <;> omega

/-- the dictionary's word stores are the model's cell stores -/
theorem wordStores_eq (cells : List Nat) (c : Nat) :
    wordStores c (cells.map fun (w : Nat) => Value.int .u64 (w : Int))
    = ((List.range cells.length).map fun i => SL.Acc.store (.cell (c + i)) .relaxed (cells[i]?.getD 0)).map accValue := by
  induction cells generalizing c with
  | nil => simp [wordStores]
  | cons w ws ih =>
    simp only [List.map_cons, wordStores, List.length_cons, List.range_succ_eq_map, List.map_map]
    rw [ih (c + 1)]
    simp [accValue, locValue, locTy, ordValue, Function.comp_def, Nat.add_assoc, Nat.add_comm 1]

set_option maxRecDepth 8000 in
set_option maxHeartbeats 1000000 in
theorem write_tie (inp : Nat → Nat) (cells : List Nat) (segsize : Nat) (nowNs : Int) (sizes : List (String × Nat)) :
    run (Code.ctxWith nowNs DictShm.ext sizes (rawInp inp)) "ShmWrite for ShmWriter::write" (writerValue segsize)
      [wordsValue cells]
    = .ok .unit (writerValue segsize) ((SL.writerProg {} (inp 0 % 65536) cells).map accValue) := by
  obtain ⟨g, hg, hgi, hgn⟩ : ∃ g : Nat, g < 65536 ∧ ((inp 0 : Nat) : Int) % 65536 = (g : Int) ∧ inp 0 % 65536 = g :=
    ⟨inp 0 % 65536, Nat.mod_lt _ (by decide), by omega, rfl⟩
  simp [rs_eval, rs_code, rawInp, writerValue, wordsValue, hgi, hgn]
  simp only [SL.writerProg, List.map_append, List.map_cons, List.map_nil, accValue, locValue, locTy, ordValue,
    wordStores_eq, Nat.zero_add, List.cons_append, List.nil_append]
  rw [genFinish_int, genStart_int]
  clear hgi hgn
  split_ifs <;> simp_all [ordering] <;> omega

end ClockBound.Rs.SeqlockProof
