/-
  Helper lemmas about `computeBoundAt` shared by C05, C06, C14 (and C01).
-/
import ClockBound.Model.Oracles
import ClockBound.Proofs.Time
import ClockBound.Proofs.F64
namespace ClockBound
open TimeSpec

/-! ### the drift-growth term -/

/-- `growth` written out: three roundings and one truncating cast. -/
theorem growth_eq (age : Int) (drift : Nat) :
    growth age drift =
      F64.castI64 (F64.rne53 (F64.rne53 (F64.rne53 (age : ℚ) / 1000000000) *
        F64.rne53 (((drift : Int) : ℚ)))) := rfl

/-- one rounding of a non-negative value: relative error at most `2^-53` each way -/
theorem rne53_bounds_nonneg {x : ℚ} (hx : 0 ≤ x) :
    x * (1 - 1 / 2 ^ 53) ≤ F64.rne53 x ∧ F64.rne53 x ≤ x * (1 + 1 / 2 ^ 53) := by
  have h := F64.rne53_rel x
  rw [abs_of_nonneg hx, F64.two_zpow_neg53, abs_le] at h
  constructor <;> linarith [h.1, h.2]

theorem rne53_drift (drift : Nat) (hd : drift < 2 ^ 32) :
    F64.rne53 (((drift : Int) : ℚ)) = (drift : ℚ) := by
  rw [F64.rne53_int]
  · push_cast; rfl
  · rw [abs_le]; constructor <;> omega

/-- the rounded product against the exact one, before truncation -/
theorem growth_real_bounds (age : Int) (drift : Nat) (ha : 0 ≤ age) (hd : drift < 2 ^ 32) :
    let P : ℚ := (drift : ℚ) * (age : ℚ) / 1000000000
    let c : ℚ := F64.rne53 (F64.rne53 (F64.rne53 (age : ℚ) / 1000000000) *
        F64.rne53 (((drift : Int) : ℚ)))
    0 ≤ c ∧ P * (1 - C05.eps51) ≤ c ∧ c ≤ P * (1 + C05.eps51) := by
  intro P c
  have haq : (0 : ℚ) ≤ (age : ℚ) := by exact_mod_cast ha
  have hdq : (0 : ℚ) ≤ (drift : ℚ) := by positivity
  have hc : c = F64.rne53 (F64.rne53 (F64.rne53 (age : ℚ) / 1000000000) * (drift : ℚ)) := by
    show F64.rne53 _ = _
    rw [rne53_drift drift hd]
  -- first rounding
  obtain ⟨l1, u1⟩ := rne53_bounds_nonneg haq
  have h1 : 0 ≤ F64.rne53 (age : ℚ) := F64.rne53_nonneg haq
  -- division and second rounding
  have hq : 0 ≤ F64.rne53 (age : ℚ) / 1000000000 := by positivity
  obtain ⟨l2, u2⟩ := rne53_bounds_nonneg hq
  have h2 : 0 ≤ F64.rne53 (F64.rne53 (age : ℚ) / 1000000000) := F64.rne53_nonneg hq
  -- product and third rounding
  have hp : 0 ≤ F64.rne53 (F64.rne53 (age : ℚ) / 1000000000) * (drift : ℚ) := by positivity
  obtain ⟨l3, u3⟩ := rne53_bounds_nonneg hp
  have h3 : 0 ≤ c := by rw [hc]; exact F64.rne53_nonneg hp
  rw [← hc] at l3 u3
  set a1 := F64.rne53 (age : ℚ) with ha1
  set a2 := F64.rne53 (a1 / 1000000000) with ha2
  set u : ℚ := 1 / 2 ^ 53 with hu
  have hu0 : 0 ≤ 1 - u := by rw [hu]; norm_num
  have hu1 : 0 ≤ 1 + u := by rw [hu]; norm_num
  have hP : 0 ≤ P := by positivity
  -- upper chain
  have U2 : a2 ≤ (age : ℚ) / 1000000000 * ((1 + u) * (1 + u)) := by
    calc a2 ≤ a1 / 1000000000 * (1 + u) := u2
      _ ≤ ((age : ℚ) * (1 + u)) / 1000000000 * (1 + u) := by
          apply mul_le_mul_of_nonneg_right _ hu1
          exact div_le_div_of_nonneg_right u1 (by norm_num)
      _ = _ := by ring
  have U3 : c ≤ P * ((1 + u) * (1 + u) * (1 + u)) := by
    calc c ≤ a2 * (drift : ℚ) * (1 + u) := u3
      _ ≤ ((age : ℚ) / 1000000000 * ((1 + u) * (1 + u))) * (drift : ℚ) * (1 + u) := by
          apply mul_le_mul_of_nonneg_right _ hu1
          exact mul_le_mul_of_nonneg_right U2 hdq
      _ = _ := by ring
  have L2 : (age : ℚ) / 1000000000 * ((1 - u) * (1 - u)) ≤ a2 := by
    calc _ = ((age : ℚ) * (1 - u)) / 1000000000 * (1 - u) := by ring
      _ ≤ a1 / 1000000000 * (1 - u) := by
          apply mul_le_mul_of_nonneg_right _ hu0
          exact div_le_div_of_nonneg_right l1 (by norm_num)
      _ ≤ a2 := l2
  have L3 : P * ((1 - u) * (1 - u) * (1 - u)) ≤ c := by
    calc _ = ((age : ℚ) / 1000000000 * ((1 - u) * (1 - u))) * (drift : ℚ) * (1 - u) := by ring
      _ ≤ a2 * (drift : ℚ) * (1 - u) := by
          apply mul_le_mul_of_nonneg_right _ hu0
          exact mul_le_mul_of_nonneg_right L2 hdq
      _ ≤ c := l3
  have e1 : (1 + u) * (1 + u) * (1 + u) ≤ 1 + C05.eps51 := by
    rw [hu]; unfold C05.eps51; norm_num
  have e2 : 1 - C05.eps51 ≤ (1 - u) * (1 - u) * (1 - u) := by
    rw [hu]; unfold C05.eps51; norm_num
  refine ⟨h3, ?_, ?_⟩
  · exact le_trans (mul_le_mul_of_nonneg_left e2 hP) L3
  · exact le_trans U3 (mul_le_mul_of_nonneg_left e1 hP)

/-- `P(1 − 2^-51) − 1 < growth ≤ P(1 + 2^-51)`, and `growth ≥ 0` -/
theorem growth_bounds_aux (age : Int) (drift : Nat) (ha : 0 ≤ age) (ha2 : age ≤ 4300000000000000000)
    (hd : drift < 1000000000) :
    let P : ℚ := (drift : ℚ) * (age : ℚ) / 1000000000
    0 ≤ growth age drift ∧
    P * (1 - C05.eps51) - 1 < (growth age drift : ℚ) ∧ (growth age drift : ℚ) ≤ P * (1 + C05.eps51) := by
  intro P
  obtain ⟨c0, cl, cu⟩ := growth_real_bounds age drift ha (by omega)
  change P * (1 - C05.eps51) ≤ _ at cl
  change _ ≤ P * (1 + C05.eps51) at cu
  rw [growth_eq]
  set c : ℚ := F64.rne53 (F64.rne53 (F64.rne53 (age : ℚ) / 1000000000) *
        F64.rne53 (((drift : Int) : ℚ))) with hc
  have haq : (0 : ℚ) ≤ (age : ℚ) := by exact_mod_cast ha
  have haq2 : (age : ℚ) ≤ 4300000000000000000 := by exact_mod_cast ha2
  have hdq : (drift : ℚ) ≤ 1000000000 := by exact_mod_cast hd.le
  have hP : P ≤ 4300000000000000000 := by
    show (drift : ℚ) * (age : ℚ) / 1000000000 ≤ _
    rw [div_le_iff₀ (by norm_num)]
    calc (drift : ℚ) * (age : ℚ) ≤ 1000000000 * (age : ℚ) := mul_le_mul_of_nonneg_right hdq haq
      _ ≤ 1000000000 * 4300000000000000000 := by linarith
      _ = _ := by ring
  have hlt : c < 9223372036854775808 := by
    have : P * (1 + C05.eps51) ≤ 4300000000000000000 * (1 + C05.eps51) :=
      mul_le_mul_of_nonneg_right hP (by unfold C05.eps51; norm_num)
    have e : (4300000000000000000 : ℚ) * (1 + C05.eps51) < 9223372036854775808 := by
      unfold C05.eps51; norm_num
    linarith
  rw [F64.castI64_eq_floor c0 hlt]
  refine ⟨?_, ?_, ?_⟩
  · rw [Rat.le_floor_iff]; exact_mod_cast c0
  · have := F64.lt_floor_add_one' c; linarith
  · exact le_trans (F64.floor_le' c) cu

/-- growth stays below `4.31·10^18` on the ages that can occur -/
theorem growth_range (age : Int) (drift : Nat) (ha : 0 ≤ age) (ha2 : age ≤ 4300000000000000000)
    (hd : drift < 1000000000) :
    0 ≤ growth age drift ∧ growth age drift ≤ 4310000000000000000 := by
  obtain ⟨g0, _, gu⟩ := growth_bounds_aux age drift ha ha2 hd
  refine ⟨g0, ?_⟩
  have haq : (0 : ℚ) ≤ (age : ℚ) := by exact_mod_cast ha
  have haq2 : (age : ℚ) ≤ 4300000000000000000 := by exact_mod_cast ha2
  have hdq : (drift : ℚ) ≤ 1000000000 := by exact_mod_cast hd.le
  have hP : (drift : ℚ) * (age : ℚ) / 1000000000 ≤ 4300000000000000000 := by
    rw [div_le_iff₀ (by norm_num)]
    calc (drift : ℚ) * (age : ℚ) ≤ 1000000000 * (age : ℚ) := mul_le_mul_of_nonneg_right hdq haq
      _ ≤ 1000000000 * 4300000000000000000 := by linarith
      _ = _ := by ring
  have : (drift : ℚ) * (age : ℚ) / 1000000000 * (1 + C05.eps51)
      ≤ 4300000000000000000 * (1 + C05.eps51) :=
    mul_le_mul_of_nonneg_right hP (by unfold C05.eps51; norm_num)
  have e : (4300000000000000000 : ℚ) * (1 + C05.eps51) ≤ 4310000000000000000 := by
    unfold C05.eps51; norm_num
  have : (growth age drift : ℚ) ≤ ((4310000000000000000 : Int) : ℚ) := by push_cast; linarith
  exact_mod_cast this

theorem growth_mono_aux (a1 a2 : Int) (drift : Nat) (h : a1 ≤ a2) :
    growth a1 drift ≤ growth a2 drift := by
  rw [growth_eq, growth_eq]
  apply F64.castI64_mono
  apply F64.rne53_mono
  apply mul_le_mul_of_nonneg_right
  · apply F64.rne53_mono
    apply div_le_div_of_nonneg_right _ (by norm_num)
    apply F64.rne53_mono
    exact_mod_cast h
  · apply F64.rne53_nonneg
    positivity

theorem growth_exact_aux (secs : Nat) (drift : Nat) (h1 : secs * 1000000000 < 2^53)
    (h2 : drift * secs < 2^53) (hd : drift < 2^32) :
    growth ((secs : Int) * 1000000000) drift = drift * secs := by
  rw [growth_eq, rne53_drift drift hd]
  rw [F64.rne53_int _ (by rw [abs_le]; constructor <;> omega)]
  have e1 : (((secs : Int) * 1000000000 : Int) : ℚ) / 1000000000 = ((secs : Int) : ℚ) := by
    push_cast; field_simp
  rw [e1, F64.rne53_int _ (by rw [abs_le]; constructor <;> omega)]
  have e2 : ((secs : Int) : ℚ) * (drift : ℚ) = (((drift : Int) * (secs : Int) : Int) : ℚ) := by
    push_cast; ring
  have hb : ((drift : Int) * (secs : Int)) < 2 ^ 53 := by exact_mod_cast h2
  have hb0 : 0 ≤ ((drift : Int) * (secs : Int)) := by positivity
  rw [e2, F64.rne53_int _ (by rw [abs_le]; constructor <;> omega)]
  rw [F64.castI64_eq_floor (by exact_mod_cast hb0)
    (by
      have : (((drift : Int) * (secs : Int) : Int) : ℚ) < (((2:Int) ^ 53 : Int) : ℚ) := by
        exact_mod_cast hb
      have e : (((2:Int) ^ 53 : Int) : ℚ) < 9223372036854775808 := by norm_num
      linarith)]
  exact Rat.floor_intCast _

theorem growth_zero (drift : Nat) : growth 0 drift = 0 := by
  rw [growth_eq]
  simp only [Int.cast_zero, F64.rne53_zero, zero_div, zero_mul]
  rw [F64.castI64_eq_floor le_rfl (by norm_num)]
  exact Rat.floor_intCast 0

/-! ### ranges of meaningful inputs -/

theorem inRange_spec {t : TimeSpec} (h : t.inRange = true) :
    t.normalized ∧ -2147483648000000000 ≤ t.toNs ∧ t.toNs ≤ 2147483648999999999 := by
  unfold TimeSpec.inRange at h
  simp only [decide_eq_true_eq] at h
  unfold normalized toNs
  unfold NANOS at *
  omega

theorem meaningful_spec {x : ClientIn} (h : x.meaningful = true) :
    x.r.asOf.inRange = true ∧ x.r.voidAfter.inRange = true ∧ x.real.inRange = true ∧
    x.mono.inRange = true ∧ 0 ≤ x.r.bound ∧ x.r.bound < 1152921504606846976 := by
  simp only [ClientIn.meaningful, Bool.and_eq_true, decide_eq_true_eq] at h
  obtain ⟨⟨⟨⟨h1, h2⟩, h3⟩, h4⟩, h5, h6⟩ := h
  exact ⟨h1, h2, h3, h4, h5, h6⟩

theorem age_nonneg (x : ClientIn) : 0 ≤ x.age := by
  unfold ClientIn.age; simp only []; split <;> omega

theorem age_eq_max (x : ClientIn) : x.age = max 0 (x.mono.toNs - x.r.asOf.toNs) := by
  unfold ClientIn.age; simp only []; split <;> omega

theorem age_le (x : ClientIn) (h : x.meaningful = true) : x.age ≤ 4300000000000000000 := by
  obtain ⟨ha, _, _, hm, _, _⟩ := meaningful_spec h
  obtain ⟨_, a1, a2⟩ := inRange_spec ha
  obtain ⟨_, m1, m2⟩ := inRange_spec hm
  rw [age_eq_max]; omega

/-! ### the reported status -/

theorem clientStatus_eq (x : ClientIn) (h : x.meaningful = true) :
    clientStatus x.r x.mono = some (C06.expected x) := by
  obtain ⟨ha, hv, _, hm, _, _⟩ := meaningful_spec h
  obtain ⟨an, a1, a2⟩ := inRange_spec ha
  obtain ⟨vn, _, _⟩ := inRange_spec hv
  obtain ⟨mn, _, _⟩ := inRange_spec hm
  have gn : GRACE.normalized := by decide
  have gns : GRACE.toNs = 5000000000 := by decide
  obtain ⟨lim, hlim, hlns, ln⟩ := add_spec an gn (by unfold I64_MIN; omega) (by unfold I64_MAX; omega)
    (by rw [gns]; unfold I64_MIN; omega) (by rw [gns]; unfold I64_MAX; omega)
    (by rw [gns]; omega) (by rw [gns]; omega)
  rw [gns] at hlns
  unfold clientStatus C06.expected
  cases hs : x.r.status
  · rfl
  · simp only [hlim, lt_iff mn ln, lt_iff mn vn, hlns]
    split_ifs <;> rfl
  · simp only [hlim, lt_iff mn ln, lt_iff mn vn, hlns]
    split_ifs <;> rfl

/-! ### closed form of `computeBoundAt` -/

/-- Under `meaningful` the call is total and has the closed form: malformed / causality / an
    interval centred on the realtime reading with half-width `bound + growth age drift` and the
    status `C06.expected`. -/
theorem computeBoundAt_closed (x : ClientIn) (h : x.meaningful = true) :
    (1000000000 ≤ x.r.drift ∧ computeBoundAt x.r x.real x.mono = .malformed) ∨
    (x.r.drift < 1000000000 ∧ x.mono.toNs ≤ x.r.asOf.toNs - 1000 ∧
        computeBoundAt x.r x.real x.mono = .causality) ∨
    (x.r.drift < 1000000000 ∧ x.r.asOf.toNs - 1000 < x.mono.toNs ∧
        ∃ e l, computeBoundAt x.r x.real x.mono = .ok e l (C06.expected x) ∧
          e.toNs = x.real.toNs - (x.r.bound + growth x.age x.r.drift) ∧
          l.toNs = x.real.toNs + (x.r.bound + growth x.age x.r.drift) ∧
          e.normalized ∧ l.normalized ∧ 0 ≤ growth x.age x.r.drift) := by
  by_cases hd : x.r.drift ≥ 1000000000
  · left
    refine ⟨hd, ?_⟩
    unfold computeBoundAt
    rw [if_pos hd]
  right
  have hd' : x.r.drift < 1000000000 := by omega
  obtain ⟨ha, hv, hr, hm, hb0, hb1⟩ := meaningful_spec h
  obtain ⟨an, a1, a2⟩ := inRange_spec ha
  obtain ⟨rn, r1, r2⟩ := inRange_spec hr
  obtain ⟨mn, m1, m2⟩ := inRange_spec hm
  have bn : BLUR.normalized := by decide
  have bns : BLUR.toNs = 1000 := by decide
  obtain ⟨blur, hblur, hblns, bln⟩ := sub_spec an bn (by unfold I64_MIN; omega)
    (by unfold I64_MAX; omega) (by rw [bns]; unfold I64_MIN; omega) (by rw [bns]; unfold I64_MAX; omega)
    (by rw [bns]; omega) (by rw [bns]; omega)
  rw [bns] at hblns
  unfold computeBoundAt
  rw [if_neg hd, clientStatus_eq x h]
  simp only [hblur]
  by_cases hc : x.mono.toNs ≤ x.r.asOf.toNs - 1000
  · left
    refine ⟨hd', hc, ?_⟩
    have c1 : x.r.asOf.le x.mono = false :=
      Bool.eq_false_iff.2 (fun hh => by have := (le_iff an mn).1 hh; omega)
    have c2 : blur.lt x.mono = false :=
      Bool.eq_false_iff.2 (fun hh => by have := (lt_iff bln mn).1 hh; omega)
    simp [c1, c2]
  right
  have hc' : x.r.asOf.toNs - 1000 < x.mono.toNs := by omega
  refine ⟨hd', hc', ?_⟩
  -- the duration
  have hdur : ∃ d : TimeSpec,
      (if x.r.asOf.le x.mono = true then some (x.mono.sub x.r.asOf)
        else if blur.lt x.mono = true then some (some (⟨0, 0⟩ : TimeSpec)) else none)
        = some (some d) ∧ d.numNanoseconds = some x.age := by
    by_cases c : x.r.asOf.toNs ≤ x.mono.toNs
    · have c1 : x.r.asOf.le x.mono = true := (le_iff an mn).2 c
      obtain ⟨d, hd1, hd2, hd3⟩ := sub_spec mn an (by unfold I64_MIN; omega) (by unfold I64_MAX; omega)
        (by unfold I64_MIN; omega) (by unfold I64_MAX; omega) (by omega) (by omega)
      refine ⟨d, by rw [if_pos c1, hd1], ?_⟩
      rw [numNanoseconds_of_toNs hd3 (by unfold I64_MIN; omega) (by unfold I64_MAX; omega), hd2,
        age_eq_max]
      congr 1; omega
    · have c1 : x.r.asOf.le x.mono = false :=
        Bool.eq_false_iff.2 (fun hh => c ((le_iff an mn).1 hh))
      have c2 : blur.lt x.mono = true := (lt_iff bln mn).2 (by omega)
      refine ⟨⟨0, 0⟩, by simp [c1, c2], ?_⟩
      rw [age_eq_max]
      have : max 0 (x.mono.toNs - x.r.asOf.toNs) = 0 := by omega
      rw [this]; rfl
  obtain ⟨d, hd1, hd2⟩ := hdur
  simp only [hd1, hd2]
  -- the bound
  obtain ⟨g0, g1⟩ := growth_range x.age x.r.drift (age_nonneg x) (age_le x h) hd'
  rw [chk_some (by unfold I64_MIN; omega) (by unfold I64_MAX; omega)]
  simp only []
  obtain ⟨ub, hub1, hub2, hub3, _⟩ := nanoseconds_spec
    (n := x.r.bound + growth x.age x.r.drift) (by omega) (by omega)
  simp only [hub1]
  obtain ⟨e, he1, he2, he3⟩ := sub_spec rn hub3 (by unfold I64_MIN; omega) (by unfold I64_MAX; omega)
    (by unfold I64_MIN; omega) (by unfold I64_MAX; omega) (by omega) (by omega)
  obtain ⟨l, hl1, hl2, hl3⟩ := add_spec rn hub3 (by unfold I64_MIN; omega) (by unfold I64_MAX; omega)
    (by unfold I64_MIN; omega) (by unfold I64_MAX; omega) (by omega) (by omega)
  refine ⟨e, l, ?_, by rw [he2, hub2], by rw [hl2, hub2], he3, hl3, g0⟩
  simp only [he1, hl1]

/-- what an `ok` outcome looks like -/
theorem ok_closed (x : ClientIn) (h : x.meaningful = true) (e l : TimeSpec) (st : Status)
    (hout : computeBoundAt x.r x.real x.mono = .ok e l st) :
    x.r.drift < 1000000000 ∧ x.r.asOf.toNs - 1000 < x.mono.toNs ∧ st = C06.expected x ∧
    e.toNs = x.real.toNs - (x.r.bound + growth x.age x.r.drift) ∧
    l.toNs = x.real.toNs + (x.r.bound + growth x.age x.r.drift) ∧
    e.normalized ∧ l.normalized ∧ 0 ≤ growth x.age x.r.drift := by
  rcases computeBoundAt_closed x h with ⟨_, ho⟩ | ⟨_, _, ho⟩ |
    ⟨hd, hc, e', l', ho, he, hl, hen, hln, hg⟩
  · rw [ho] at hout; cases hout
  · rw [ho] at hout; cases hout
  · rw [ho] at hout
    injection hout with h1 h2 h3
    subst h1 h2 h3
    exact ⟨hd, hc, rfl, he, hl, hen, hln, hg⟩

/-- the same input with a different monotonic reading -/
theorem meaningful_withMono {x : ClientIn} (h : x.meaningful = true) {m : TimeSpec}
    (hm : m.inRange = true) : (⟨x.r, x.real, m⟩ : ClientIn).meaningful = true := by
  obtain ⟨h1, h2, h3, _, h5, h6⟩ := meaningful_spec h
  simp only [ClientIn.meaningful, Bool.and_eq_true, decide_eq_true_eq]
  exact ⟨⟨⟨⟨h1, h2⟩, h3⟩, hm⟩, h5, h6⟩

end ClockBound
