/-
  `ShmReader::new`, part 1: the path is missing or a directory (statement in `Properties/CodeTieHeader.lean`).
-/
import ClockBound.Proofs.RsHeader
namespace ClockBound.Rs.HeaderProof
open ClockBound ClockBound.Rs ClockBound.Generated ClockBound.Rs.DictShm ClockBound.Rs.EmbedShm

@[simp] theorem noLog_ok (v s : Value) (l : List Value) : (Outcome.ok v s l).noLog = .ok v s [] := rfl
@[simp] theorem noLog_ite (c : Prop) [Decidable c] (a b : Outcome) :
    (if c then a else b).noLog = if c then a.noLog else b.noLog := by split <;> rfl

set_option maxRecDepth 8000 in
set_option maxHeartbeats 4000000 in
theorem reader_new_missing (lim : Option Nat) (fd : Nat) :
    (run (hctx (streamOf (openAnswers lim fd .missing))) "ShmReader::new" .unit [cstrValue]).noLog
      = .ok (openValue (readerOpenLim lim .missing)) .unit [] := by
  simp (config := { maxSteps := 4000000 }) [rs_eval, rs_code, streamOf, openAnswers, cstrValue, readerOpenLim, openValue,
    shmErrValue, syscallErr, Origin.text, ENOENT]

set_option maxRecDepth 8000 in
set_option maxHeartbeats 4000000 in
theorem reader_new_directory (lim : Option Nat) (fd : Nat) (hfd : fd ≤ 2147483647) :
    (run (hctx (streamOf (openAnswers lim fd .directory))) "ShmReader::new" .unit [cstrValue]).noLog
      = .ok (openValue (readerOpenLim lim .directory)) .unit [] := by
  have hfd' : (fd : Int) ≤ 2147483647 := by omega
  have hfd0 : ¬ ((fd : Int) < 0) := by omega
  simp (config := { maxSteps := 4000000 }) [rs_eval, rs_code, streamOf, openAnswers, cstrValue, readerOpenLim,
    openValue, shmErrValue, syscallErr, Origin.text, EISDIR, hfd', hfd0, EmbedShm.sizes]

end ClockBound.Rs.HeaderProof
