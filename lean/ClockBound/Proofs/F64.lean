import ClockBound.Model.F64
import Mathlib.Tactic.Linarith
import Mathlib.Tactic.Ring
import Mathlib.Tactic.Positivity
import Mathlib.Tactic.FieldSimp
import Mathlib.Tactic.NormNum
import Mathlib.Data.Rat.Floor
import Mathlib.Algebra.Order.Field.Power
import Mathlib.Data.Nat.Log

namespace ClockBound.F64

theorem pow2_eq (e : Int) : pow2 e = (2:ℚ) ^ e := by
  unfold pow2
  split_ifs with h
  · lift e to ℕ using h
    simp
  · obtain ⟨n, rfl⟩ : ∃ n : ℕ, e = -(n:ℤ) := ⟨(-e).toNat, by omega⟩
    simp [zpow_neg]

theorem pow2_pos (e : Int) : 0 < pow2 e := by
  rw [pow2_eq]; positivity

theorem pow2_le {a b : Int} (h : a ≤ b) : pow2 a ≤ pow2 b := by
  rw [pow2_eq, pow2_eq]; exact zpow_le_zpow_right₀ (by norm_num) h

theorem pow2_lt_iff {a b : Int} : pow2 a < pow2 b ↔ a < b := by
  rw [pow2_eq, pow2_eq]; exact zpow_lt_zpow_iff_right₀ (by norm_num)

theorem pow2_add (a b : Int) : pow2 (a + b) = pow2 a * pow2 b := by
  simp only [pow2_eq]; exact zpow_add₀ (by norm_num) a b

theorem pow2_succ (a : Int) : pow2 (a + 1) = 2 * pow2 a := by
  rw [pow2_add, mul_comm]; congr 1

theorem ilog2_spec (x : ℚ) (hx : 0 < x) : pow2 (ilog2 x) ≤ x ∧ x < pow2 (ilog2 x + 1) := by
  have hnum : 0 < x.num := Rat.num_pos.mpr hx
  have hN0 : x.num.natAbs ≠ 0 := by omega
  have hD0 : x.den ≠ 0 := x.den_nz
  have hDpos : (0:ℚ) < x.den := by exact_mod_cast Nat.pos_of_ne_zero hD0
  have hxe : x = (x.num.natAbs:ℚ) / (x.den:ℚ) := by
    have h1 : (x.num : ℚ) = (x.num.natAbs : ℚ) := by
      have : x.num = (x.num.natAbs : ℤ) := by omega
      conv_lhs => rw [this]
      simp
    rw [← h1]; exact (Rat.num_div_den x).symm
  have h1 : ((2:ℚ))^(x.num.natAbs.log2) ≤ x.num.natAbs := by exact_mod_cast Nat.log2_self_le hN0
  have h2 : (x.num.natAbs:ℚ) < 2^(x.num.natAbs.log2+1) := by exact_mod_cast Nat.lt_log2_self
  have h3 : ((2:ℚ))^(x.den.log2) ≤ x.den := by exact_mod_cast Nat.log2_self_le hD0
  have h4 : (x.den:ℚ) < 2^(x.den.log2+1) := by exact_mod_cast Nat.lt_log2_self
  unfold ilog2
  simp only []
  generalize x.num.natAbs.log2 = a at *
  generalize x.den.log2 = b at *
  generalize (x.num.natAbs : ℚ) = N at *
  generalize (x.den : ℚ) = D at *
  have ha : pow2 a = (2:ℚ)^a := by rw [pow2_eq]; simp
  have hb : pow2 b = (2:ℚ)^b := by rw [pow2_eq]; simp
  have hab : pow2 ((a:ℤ) - b) = pow2 a / pow2 b := by
    rw [sub_eq_add_neg, pow2_add, pow2_eq (-(b:ℤ)), zpow_neg, ← pow2_eq]; rfl
  have hpa := pow2_pos a
  have hpb := pow2_pos b
  rw [pow_succ] at h2 h4
  rw [← ha] at h1 h2
  rw [← hb] at h3 h4
  split_ifs with h
  · refine ⟨h, ?_⟩
    rw [pow2_succ, hab, hxe, div_lt_iff₀ hDpos]
    have : 2 * (pow2 a / pow2 b) * D = 2 * pow2 a * (D / pow2 b) := by field_simp
    rw [this]
    have : 1 ≤ D / pow2 b := by rw [le_div_iff₀ hpb]; linarith
    nlinarith
  · have h := not_le.mp h
    have e1 : (a:ℤ) - b - 1 + 1 = a - b := by ring
    rw [e1]
    refine ⟨?_, h⟩
    have : pow2 ((a:ℤ) - b) = 2 * pow2 ((a:ℤ) - b - 1) := by rw [← pow2_succ, e1]
    rw [hab] at this
    rw [hxe, le_div_iff₀ hDpos]
    have e2 : pow2 ((a:ℤ) - b - 1) = pow2 a / pow2 b / 2 := by linarith
    rw [e2]
    have : pow2 a / pow2 b / 2 * D = pow2 a * (D / (pow2 b * 2)) := by field_simp
    rw [this]
    have : D / (pow2 b * 2) ≤ 1 := by rw [div_le_iff₀ (by positivity)]; linarith
    nlinarith


/-! ### roundHalfEven -/

theorem floor_le' (y : ℚ) : (y.floor : ℚ) ≤ y := Rat.floor_le y
theorem lt_floor_add_one' (y : ℚ) : y < (y.floor : ℚ) + 1 := by
  have := Rat.lt_floor_add_one y; push_cast at this; exact this

theorem rhe_cases (y : ℚ) : roundHalfEven y = y.floor ∨ roundHalfEven y = y.floor + 1 := by
  unfold roundHalfEven; simp only []; split_ifs <;> simp

theorem rhe_err (y : ℚ) : |(roundHalfEven y : ℚ) - y| ≤ 1/2 := by
  have h1 := floor_le' y
  have h2 := lt_floor_add_one' y
  rw [abs_le]
  unfold roundHalfEven; simp only []
  split_ifs with a b c <;> push_cast <;> constructor <;> linarith

theorem rhe_int (n : Int) : roundHalfEven (n : ℚ) = n := by
  unfold roundHalfEven; simp only [Rat.floor_intCast]; norm_num

theorem rhe_mono {a b : ℚ} (h : a ≤ b) : roundHalfEven a ≤ roundHalfEven b := by
  have hf : a.floor ≤ b.floor := Rat.floor_monotone h
  rcases lt_or_eq_of_le hf with hlt | heq
  · have h1 : roundHalfEven a ≤ a.floor + 1 := by rcases rhe_cases a with h | h <;> omega
    have h2 : b.floor ≤ roundHalfEven b := by rcases rhe_cases b with h | h <;> omega
    omega
  · unfold roundHalfEven; simp only []
    rw [← heq]
    split_ifs <;> first | omega | (exfalso; linarith)

/-! ### trunc / casts -/

theorem trunc_le_of_nonneg {a : ℚ} (h : 0 ≤ a) : (trunc a : ℚ) ≤ a ∧ a < (trunc a : ℚ) + 1 := by
  unfold trunc; rw [if_pos h]; exact ⟨floor_le' a, lt_floor_add_one' a⟩

theorem ceil_mono' {a b : ℚ} (h : a ≤ b) : a.ceil ≤ b.ceil := by
  rw [Rat.ceil_le_iff]; exact le_trans h (Rat.ceil_le_iff.mp le_rfl)

theorem trunc_mono {a b : ℚ} (h : a ≤ b) : trunc a ≤ trunc b := by
  unfold trunc
  split_ifs with ha hb hb
  · exact Rat.floor_monotone h
  · exfalso; linarith
  · have h1 : a.ceil ≤ 0 := by rw [Rat.ceil_le_iff]; push_cast; linarith
    have h2 : 0 ≤ b.floor := by rw [Rat.le_floor_iff]; push_cast; linarith
    omega
  · exact ceil_mono' h

theorem castI64_mono {a b : ℚ} (h : a ≤ b) : castI64 a ≤ castI64 b := by
  have := trunc_mono h
  unfold castI64 I64_MAX I64_MIN; simp only []
  split_ifs <;> omega

theorem castI64_range (a : ℚ) : I64_MIN ≤ castI64 a ∧ castI64 a ≤ I64_MAX := by
  unfold castI64 I64_MAX I64_MIN; simp only []
  split_ifs <;> omega

theorem castI64_eq_floor {a : ℚ} (h0 : 0 ≤ a) (h1 : a < 9223372036854775808) : castI64 a = a.floor := by
  have ht : trunc a = a.floor := by unfold trunc; rw [if_pos h0]
  have h2 : 0 ≤ a.floor := by rw [Rat.le_floor_iff]; push_cast; linarith
  have h3 : a.floor < 9223372036854775808 := by rw [Rat.floor_lt_iff]; push_cast; linarith
  unfold castI64 I64_MAX I64_MIN; simp only []
  rw [ht]
  split_ifs <;> omega

/-! ### chrony wire float -/

theorem chronyFloat_repr (w : Nat) : ∃ m e : Int, |m| ≤ 2^24 ∧ -89 ≤ e ∧ e ≤ 38 ∧ chronyFloat w = (m:ℚ) * (2:ℚ)^e := by
  unfold chronyFloat; simp only []
  refine ⟨_, _, ?_, ?_, ?_, by rw [pow2_eq]⟩
  · rw [abs_le]; split_ifs <;> omega
  · split_ifs <;> omega
  · split_ifs <;> omega


/-! ### rne53 -/

theorem rne53_zero : rne53 0 = 0 := by simp [rne53]

theorem rne53_of_pos {x : ℚ} (hx : 0 < x) : rne53 x = rnePos x := by
  unfold rne53; rw [if_neg hx.ne', if_pos hx]

theorem rne53_of_neg {x : ℚ} (hx : x < 0) : rne53 x = - rnePos (-x) := by
  unfold rne53; rw [if_neg hx.ne, if_neg (not_lt.mpr hx.le)]

theorem rne53_neg (x : ℚ) : rne53 (-x) = - rne53 x := by
  rcases lt_trichotomy x 0 with h | h | h
  · rw [rne53_of_neg h, rne53_of_pos (by linarith : 0 < -x)]; simp
  · subst h; simp [rne53_zero]
  · rw [rne53_of_pos h, rne53_of_neg (by linarith : -x < 0)]; simp

theorem pow2_52 (k : Int) : pow2 k = 2^52 * pow2 (k - 52) := by
  have : k = 52 + (k - 52) := by ring
  conv_lhs => rw [this, pow2_add]
  congr 1

theorem pow2_53 (k : Int) : pow2 (k + 1) = 2^53 * pow2 (k - 52) := by
  rw [pow2_succ, pow2_52]; ring

/-- the scaled significand lies in `[2^52, 2^53)` -/
theorem scaled_range {x : ℚ} (hx : 0 < x) :
    (2:ℚ)^52 ≤ x / pow2 (ilog2 x - 52) ∧ x / pow2 (ilog2 x - 52) < 2^53 := by
  obtain ⟨h1, h2⟩ := ilog2_spec x hx
  have hu := pow2_pos (ilog2 x - 52)
  rw [pow2_52] at h1; rw [pow2_53] at h2
  exact ⟨(le_div_iff₀ hu).mpr h1, (div_lt_iff₀ hu).mpr h2⟩

theorem rhe_range {x : ℚ} (hx : 0 < x) :
    (2:ℤ)^52 ≤ roundHalfEven (x / pow2 (ilog2 x - 52)) ∧
    roundHalfEven (x / pow2 (ilog2 x - 52)) ≤ (2:ℤ)^53 := by
  obtain ⟨h1, h2⟩ := scaled_range hx
  constructor
  · have := rhe_mono (a := (((2:ℤ)^52 : ℤ) : ℚ)) (by push_cast; exact h1)
    rwa [rhe_int] at this
  · have := rhe_mono (b := (((2:ℤ)^53 : ℤ) : ℚ)) (by push_cast; exact h2.le)
    rwa [rhe_int] at this

theorem rnePos_range {x : ℚ} (hx : 0 < x) :
    pow2 (ilog2 x) ≤ rnePos x ∧ rnePos x ≤ pow2 (ilog2 x + 1) := by
  obtain ⟨h1, h2⟩ := rhe_range hx
  have hu := pow2_pos (ilog2 x - 52)
  rw [pow2_52, pow2_53]
  unfold rnePos; simp only []
  constructor
  · apply mul_le_mul_of_nonneg_right _ hu.le
    exact_mod_cast h1
  · apply mul_le_mul_of_nonneg_right _ hu.le
    exact_mod_cast h2

theorem rnePos_pos {x : ℚ} (hx : 0 < x) : 0 < rnePos x :=
  lt_of_lt_of_le (pow2_pos _) (rnePos_range hx).1

theorem rne53_nonneg {x : ℚ} (hx : 0 ≤ x) : 0 ≤ rne53 x := by
  rcases eq_or_lt_of_le hx with h | h
  · subst h; rw [rne53_zero]
  · rw [rne53_of_pos h]; exact (rnePos_pos h).le

theorem rne53_nonpos {x : ℚ} (hx : x ≤ 0) : rne53 x ≤ 0 := by
  have := rne53_nonneg (x := -x) (by linarith)
  rw [rne53_neg] at this; linarith

theorem two_zpow_neg53 : (2:ℚ)^(-53:Int) = 1 / 2^53 := by
  rw [zpow_neg, one_div]; rfl

theorem rnePos_rel {x : ℚ} (hx : 0 < x) : |rnePos x - x| ≤ x * (2:ℚ)^(-53:Int) := by
  have hu := pow2_pos (ilog2 x - 52)
  have hk := (ilog2_spec x hx).1
  rw [pow2_52] at hk
  have he := rhe_err (x / pow2 (ilog2 x - 52))
  have hx' : x = x / pow2 (ilog2 x - 52) * pow2 (ilog2 x - 52) := by field_simp
  have : rnePos x - x =
      ((roundHalfEven (x / pow2 (ilog2 x - 52)) : ℚ) - x / pow2 (ilog2 x - 52)) *
        pow2 (ilog2 x - 52) := by
    unfold rnePos; simp only []
    rw [sub_mul, ← hx']
  rw [this, abs_mul, abs_of_pos hu, two_zpow_neg53]
  calc _ ≤ 1/2 * pow2 (ilog2 x - 52) := mul_le_mul_of_nonneg_right he hu.le
    _ = 2^52 * pow2 (ilog2 x - 52) * (1 / 2^53) := by ring
    _ ≤ x * (1 / 2^53) := mul_le_mul_of_nonneg_right hk (by positivity)

/-- relative error of one rounding -/
theorem rne53_rel (x : ℚ) : |rne53 x - x| ≤ |x| * (2:ℚ)^(-53:Int) := by
  rcases lt_trichotomy x 0 with h | h | h
  · rw [rne53_of_neg h, abs_of_neg h]
    have := rnePos_rel (x := -x) (by linarith)
    rwa [show -rnePos (-x) - x = -(rnePos (-x) - -x) by ring, abs_neg]
  · subst h; simp [rne53_zero]
  · rw [rne53_of_pos h, abs_of_pos h]; exact rnePos_rel h

theorem ilog2_mono {x y : ℚ} (hx : 0 < x) (h : x ≤ y) : ilog2 x ≤ ilog2 y := by
  by_contra hc
  have hc : ilog2 y + 1 ≤ ilog2 x := by omega
  have h1 := (ilog2_spec x hx).1
  have h2 := (ilog2_spec y (lt_of_lt_of_le hx h)).2
  have := pow2_le hc
  linarith

theorem rnePos_mono {x y : ℚ} (hx : 0 < x) (h : x ≤ y) : rnePos x ≤ rnePos y := by
  have hy : 0 < y := lt_of_lt_of_le hx h
  rcases lt_or_eq_of_le (ilog2_mono hx h) with hlt | heq
  · calc rnePos x ≤ pow2 (ilog2 x + 1) := (rnePos_range hx).2
      _ ≤ pow2 (ilog2 y) := pow2_le (by omega)
      _ ≤ rnePos y := (rnePos_range hy).1
  · unfold rnePos; simp only []
    rw [heq]
    have hu := pow2_pos (ilog2 y - 52)
    apply mul_le_mul_of_nonneg_right _ hu.le
    exact_mod_cast rhe_mono (div_le_div_of_nonneg_right h hu.le)

/-- rounding is monotone (weakly) -/
theorem rne53_mono {x y : ℚ} (h : x ≤ y) : rne53 x ≤ rne53 y := by
  rcases lt_trichotomy x 0 with hx | hx | hx
  · rcases lt_or_ge y 0 with hy | hy
    · rw [rne53_of_neg hx, rne53_of_neg hy]
      have := rnePos_mono (x := -y) (y := -x) (by linarith) (by linarith)
      linarith
    · exact le_trans (rne53_nonpos hx.le) (rne53_nonneg hy)
  · subst hx; rw [rne53_zero]; exact rne53_nonneg h
  · rw [rne53_of_pos hx, rne53_of_pos (lt_of_lt_of_le hx h)]
    exact rnePos_mono hx h

theorem rnePos_exact (m e : Int) (hm0 : 0 < m) (hm : m < 2^53) :
    rnePos ((m:ℚ) * (2:ℚ)^e) = (m:ℚ) * (2:ℚ)^e := by
  have hmq : (0:ℚ) < m := by exact_mod_cast hm0
  have hx : (0:ℚ) < (m:ℚ) * (2:ℚ)^e := by positivity
  have h1 := (ilog2_spec _ hx).1
  generalize hk : ilog2 ((m:ℚ) * (2:ℚ)^e) = k at *
  have hlt : k < 53 + e := by
    rw [← pow2_lt_iff]
    apply lt_of_le_of_lt h1
    rw [pow2_add, ← pow2_eq e]
    apply mul_lt_mul_of_pos_right _ (pow2_pos e)
    rw [pow2_eq]
    exact_mod_cast hm
  obtain ⟨n, hn⟩ : ∃ n : ℕ, e = (k - 52) + n := ⟨(e - (k - 52)).toNat, by omega⟩
  have hu := pow2_pos (k - 52)
  have hxe : (m:ℚ) * (2:ℚ)^e = ((m * 2^n : ℤ) : ℚ) * pow2 (k - 52) := by
    rw [hn, zpow_add₀ (by norm_num), zpow_natCast, pow2_eq]; push_cast; ring
  unfold rnePos; simp only []
  rw [hk, hxe, mul_div_assoc, div_self hu.ne', mul_one, rhe_int]

theorem rne53_exact_pos (m e : Int) (hm0 : 0 < m) (hm : m ≤ 2^53) :
    rne53 ((m:ℚ) * (2:ℚ)^e) = (m:ℚ) * (2:ℚ)^e := by
  have hmq : (0:ℚ) < m := by exact_mod_cast hm0
  have hx : (0:ℚ) < (m:ℚ) * (2:ℚ)^e := by positivity
  rw [rne53_of_pos hx]
  rcases lt_or_eq_of_le hm with h | h
  · exact rnePos_exact m e hm0 h
  · have : (m:ℚ) * (2:ℚ)^e = (((2:ℤ)^52 : ℤ) : ℚ) * (2:ℚ)^(e+1) := by
      rw [h, zpow_add₀ (by norm_num)]; push_cast; ring
    rw [this]
    exact rnePos_exact _ _ (by norm_num) (by norm_num)

/-- a value m·2^e with |m| ≤ 2^53 is a double: rounding leaves it unchanged -/
theorem rne53_exact (m e : Int) (hm : |m| ≤ 2^53) : rne53 ((m:ℚ) * (2:ℚ)^e) = (m:ℚ) * (2:ℚ)^e := by
  rw [abs_le] at hm
  rcases lt_trichotomy m 0 with h | h | h
  · have := rne53_exact_pos (-m) e (by omega) (by omega)
    push_cast at this
    rw [neg_mul, rne53_neg] at this
    linarith
  · subst h; simp [rne53_zero]
  · exact rne53_exact_pos m e h hm.2

theorem rne53_int (n : Int) (hn : |n| ≤ 2^53) : rne53 (n:ℚ) = n := by
  have := rne53_exact n 0 hn
  simpa using this

/-- the result of rounding is itself of the form m·2^e with |m| ≤ 2^53 (so rounding is idempotent) -/
theorem rne53_repr (x : ℚ) : ∃ m e : Int, |m| ≤ 2^53 ∧ rne53 x = (m:ℚ) * (2:ℚ)^e := by
  have pos : ∀ x : ℚ, 0 < x → ∃ m e : Int, |m| ≤ 2^53 ∧ rnePos x = (m:ℚ) * (2:ℚ)^e := by
    intro x hx
    obtain ⟨h1, h2⟩ := rhe_range hx
    refine ⟨roundHalfEven (x / pow2 (ilog2 x - 52)), ilog2 x - 52, ?_, ?_⟩
    · rw [abs_le]; constructor <;> omega
    · unfold rnePos; simp only []; rw [pow2_eq]
  rcases lt_trichotomy x 0 with h | h | h
  · obtain ⟨m, e, hm, he⟩ := pos (-x) (by linarith)
    refine ⟨-m, e, by rwa [abs_neg], ?_⟩
    rw [rne53_of_neg h, he]; push_cast; ring
  · subst h; exact ⟨0, 0, by norm_num, by simp [rne53_zero]⟩
  · obtain ⟨m, e, hm, he⟩ := pos x h
    exact ⟨m, e, hm, by rw [rne53_of_pos h, he]⟩

theorem rne53_idem (x : ℚ) : rne53 (rne53 x) = rne53 x := by
  obtain ⟨m, e, hm, he⟩ := rne53_repr x
  rw [he]; exact rne53_exact m e hm

end ClockBound.F64

open ClockBound.F64 in
#print axioms rne53_rel
open ClockBound.F64 in
#print axioms rne53_mono
open ClockBound.F64 in
#print axioms rne53_exact
open ClockBound.F64 in
#print axioms rne53_repr
open ClockBound.F64 in
#print axioms chronyFloat_repr
open ClockBound.F64 in
#print axioms castI64_mono

