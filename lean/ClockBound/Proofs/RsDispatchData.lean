/-
  `process_messages`, the message `ClockErrorBoundData` (see `Proofs/RsDispatch.lean`): the handler
  `process_clock_update` is inlined; same tactic as `Proofs/RsUpdater.lean`.
-/
import ClockBound.Proofs.RsDispatch
namespace ClockBound.Rs.DispatchProof
open ClockBound ClockBound.Rs ClockBound.Generated ClockBound.Rs.DictPoller ClockBound.Rs.NowProof

set_option maxRecDepth 8000 in
set_option maxHeartbeats 8000000 in
theorem disp_data (nowNs : Int) (u : Updater) (t : Tracking) (phc : Int) (asOf : TimeSpec) :
    DispStmt nowNs u (.data t phc asOf) := by
  disp_start
  obtain ⟨leap, refNs, offW, dispW, delayW, intervalW, refid⟩ := t
  obtain ⟨drift, fsm, bound, ⟨as, an⟩, res, hm⟩ := u
  obtain ⟨s, n⟩ := asOf
  disp_tie

end ClockBound.Rs.DispatchProof
