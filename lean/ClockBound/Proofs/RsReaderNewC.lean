/-
  `ShmReader::new`, on a regular file, `mmap` succeeds (statement in `Properties/CodeTieHeader.lean`).
-/
import ClockBound.Proofs.RsReaderNewA
namespace ClockBound.Rs.HeaderProof
open ClockBound ClockBound.Rs ClockBound.Generated ClockBound.Rs.DictShm ClockBound.Rs.EmbedShm

set_option maxRecDepth 8000 in
set_option maxHeartbeats 4000000 in
theorem reader_new_file_maps (lim : Option Nat) (bs : Bytes) (fd : Nat) (hfd : fd ≤ 2147483647)
    (hin : (parseHeader bs).inRange) (hm : mapFails lim (parseHeader bs).segsize = false) :
    (run (hctx (streamOf (openAnswers lim fd (.file bs)))) "ShmReader::new" .unit [cstrValue]).noLog
      = .ok (openValue (readerOpenLim lim (.file bs))) .unit [] := by
  have hfd' : (fd : Int) ≤ 2147483647 := by omega
  have hfd0 : ¬ ((fd : Int) < 0) := by omega
  obtain ⟨_, _, hs, _, _⟩ := hin
  rw [Proofs.readerOpenLim_eq_prog]
  have hr0 : ¬ (readRet bs < 0) := by unfold readRet; omega
  have hr1 : readRet bs ≤ 16 := by unfold readRet HEADER_SIZE; omega
  have hr2 : (0 : Int) ≤ readRet bs := by omega
  have hw : readRet bs % 18446744073709551616 = readRet bs := by omega
  have hlo : (-9223372036854775808 : Int) ≤ readRet bs := by omega
  have hhi : readRet bs ≤ (9223372036854775807 : Int) := by omega
  simp only [openAnswers]
  generalize readRet bs = ret at *
  generalize parseHeader bs = h at *
  have hs' : ((h.segsize : Nat) : Int) % 18446744073709551616 = h.segsize := by
    unfold TWO32 at hs; omega
  have hsz : ((h.segsize : Nat) : Int) ≤ 18446744073709551615 := by unfold TWO32 at hs; omega
  simp (config := { maxSteps := 4000000 }) [rs_eval, rs_code, streamOf, cstrValue, hfd', hfd0,
    EmbedShm.sizes, hm, hr0, hw, hlo, hhi, hs', hsz, headerValue, readProg, mapProg, chkInt, ENOMEM, syscallErr]
  unfold checkHeader
  split_ifs <;> simp_all [openValue, shmErrValue, Origin.text, MAGIC0, MAGIC1, HEADER_SIZE, RECORD_SIZE, ENOMEM,
    freshReaderValue, recordValue, Record.empty, ctimespecValue] <;>
    first
    | omega
    | (have hlt : ¬ (h.segsize < 72) := by omega
       simp [hlt, DictShm.addr, DictShm.ptrCeb, DictShm.ptrA16, statusValue, statusName])

end ClockBound.Rs.HeaderProof
