/- chrony poller iteration: a reply that is not Tracking (see `Proofs/RsPoller.lean`) -/
import ClockBound.Proofs.RsPoller
namespace ClockBound.Rs.PollerProof
open ClockBound ClockBound.Rs ClockBound.Generated ClockBound.Rs.DictPoller ClockBound.Rs.NowProof

set_option maxRecDepth 8000 in
set_option maxHeartbeats 4000000 in
theorem iter_other (e : IterEnv) (s : PollerState) (coarse : TimeSpec) (tReply tGrace : Int)
    (refid : Option Nat) (file : PhcFile) : IterStmt e s coarse .other tReply tGrace refid file := by
  cases refid <;>
  · iter_start
    obtain ⟨h0, h1, h2, h3, h4⟩ := hin
    poll_tie
    poll_finish

end ClockBound.Rs.PollerProof
