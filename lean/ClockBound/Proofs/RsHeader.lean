/-
  Proofs of the translation tie for the header checks: `ShmHeader::is_valid` (+ helpers), `ShmHeader::read`,
  `ShmReader::new` (+ `FdGuard::new`, `MmapGuard::new`), `ShmWriter::segment_size`
  (statements in `Properties/CodeTieHeader.lean`).
-/
import ClockBound.Proofs.RsShm
import ClockBound.Proofs.HeaderProg
namespace ClockBound.Rs.HeaderProof
open ClockBound ClockBound.Rs ClockBound.Generated ClockBound.Rs.DictShm ClockBound.Rs.EmbedShm

/-- the context: generated tables, the dictionary, the sizes of the two `repr(C)` structs -/
abbrev hctx (inp : Nat → Value) : Ctx := Code.ctxWith 0 DictShm.ext EmbedShm.sizes inp

set_option maxRecDepth 8000 in
set_option maxHeartbeats 2000000 in
theorem is_valid_tie (h : Header) (hh : h.inRange) (inp : Nat → Value) :
    run (hctx inp) "ShmHeader::is_valid" (headerValue h) [] = .ok (validValue (checkHeader h)) (headerValue h) [] := by
  obtain ⟨_, _, hs, _, _⟩ := hh
  have hs' : ((h.segsize : Nat) : Int) % 18446744073709551616 = h.segsize := by
    unfold TWO32 at hs; omega
  simp [rs_eval, rs_code, headerValue, EmbedShm.sizes, hs']
  unfold checkHeader
  split_ifs <;> simp_all [validValue, shmErrValue, MAGIC0, MAGIC1, HEADER_SIZE] <;> omega

set_option maxRecDepth 8000 in
set_option maxHeartbeats 2000000 in
theorem segment_size_tie (inp : Nat → Value) :
    run (hctx inp) "ShmWriter::segment_size" .unit [] = .ok (.int .usize SEGMENT_SIZE) .unit [] := by
  simp [rs_eval, rs_code, EmbedShm.sizes, chkInt, HEADER_SIZE, RECORD_SIZE, SEGMENT_SIZE]

set_option maxRecDepth 8000 in
set_option maxHeartbeats 4000000 in
theorem read_tie (ret : Int) (hret : IntTy.isize.lo ≤ ret ∧ ret ≤ IntTy.isize.hi) (errno : Nat) (he : errno ≤ 2147483647)
    (h : Header) (hh : h.inRange) (fd : Nat) (inp : Nat → Value)
    (h0 : inp 0 = .int .infer ret) (h1 : inp 1 = if ret < 0 then .int .infer errno else headerValue h) :
    ∃ log, run (hctx inp) "ShmHeader::read" .unit [.int .i32 fd] = .ok (readValue (readProg ret errno h)) .unit log := by
  obtain ⟨_, _, hs, _, _⟩ := hh
  have hs' : ((h.segsize : Nat) : Int) % 18446744073709551616 = h.segsize := by
    unfold TWO32 at hs; omega
  have hlo := hret.1
  have hhi := hret.2
  simp only [rs_eval] at hlo hhi
  by_cases hneg : ret < 0
  · simp [hneg] at h1
    simp [rs_eval, rs_code, headerValue, EmbedShm.sizes, hs', h0, h1, hlo, hhi, hneg, readProg, readValue, shmErrValue,
      syscallErr, Origin.text, he]
  · simp [hneg] at h1
    have hw : ret % 18446744073709551616 = ret := by omega
    simp [rs_eval, rs_code, headerValue, EmbedShm.sizes, hs', h0, h1, hlo, hhi, hneg, readProg, hw]
    refine ⟨[evSys "read" [.int .i32 fd, .ext "ptr:buf" [], .int .usize HEADER_SIZE] (.int .isize ret)], ?_⟩
    unfold checkHeader
    split_ifs <;> simp_all [readValue, shmErrValue, headerValue, atomicVal, MAGIC0, MAGIC1, HEADER_SIZE] <;> omega

end ClockBound.Rs.HeaderProof
