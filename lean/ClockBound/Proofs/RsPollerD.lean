/- chrony poller iteration with a failing `send` (see `Proofs/RsPoller.lean`), part 1 -/
import ClockBound.Proofs.RsPoller
namespace ClockBound.Rs.PollerProof
open ClockBound ClockBound.Rs ClockBound.Generated ClockBound.Rs.DictPoller ClockBound.Rs.NowProof

/-- the same turn when `dbox.send` returns `Err(x)` (the receiving end of the channel is gone): the thread
    panics ("Broken channel to ShmWriter") -/
def IterSendFails (e : IterEnv) (s : PollerState) (coarse : TimeSpec) (reply : ReplyKind) (tReply tGrace : Int)
    (refid : Option Nat) (file : PhcFile) : Prop :=
  ∀ (x : Value) (nowNs : Int) (inp : Nat → Value) (log : List Value) (pos : Nat) (pre : List Stmt) (c : Expr)
    (body : List Stmt)
    (_hfl : findLoop Code.fn_chrony_poller__run_clock_error_bound_poller_stmts = some (pre, c, body))
    (_hother : e.other ≠ "ReplyBody::Tracking") (_hsend : e.sendRes = .enumv "Err" [x])
    (_hin : inputsAt inp pos ((pollTrace s coarse reply tReply tGrace (phcOf refid file)).map (pollEvInput e)))
    (K : Nat) (_hK : 60 ≤ K),
    evalWhile (K + 2) (ctxP nowNs [] inp) frP c body (topP nowNs inp pre e s refid log pos) = .panic

set_option hygiene false in
macro "fail_start" : tactic => `(tactic| (intro x; iter_start))

macro "fail_tie" : tactic => `(tactic| (poll_tie; try (split_ifs <;> simp_all [rs_eval])))

set_option maxRecDepth 8000 in
set_option maxHeartbeats 4000000 in
theorem sf_none (e : IterEnv) (s : PollerState) (coarse : TimeSpec) (refid : Option Nat) (file : PhcFile) (tReply tGrace : Int)
    : IterSendFails e s coarse .none tReply tGrace refid file := by
  cases refid <;>
  · fail_start
    obtain ⟨h0, h1, h2, h3, h4⟩ := hin
    fail_tie

set_option maxRecDepth 8000 in
set_option maxHeartbeats 4000000 in
theorem sf_other (e : IterEnv) (s : PollerState) (coarse : TimeSpec) (refid : Option Nat) (file : PhcFile) (tReply tGrace : Int)
    : IterSendFails e s coarse .other tReply tGrace refid file := by
  cases refid <;>
  · fail_start
    obtain ⟨h0, h1, h2, h3, h4⟩ := hin
    fail_tie

set_option maxRecDepth 8000 in
set_option maxHeartbeats 4000000 in
theorem sf_tracking_nophc (e : IterEnv) (s : PollerState) (coarse : TimeSpec) (t : Tracking) (file : PhcFile) (tReply tGrace : Int)
    : IterSendFails e s coarse (.tracking t) tReply tGrace none file := by
  fail_start
  obtain ⟨h0, h1, h2, h3, h4⟩ := hin
  fail_tie

set_option maxRecDepth 8000 in
set_option maxHeartbeats 4000000 in
theorem sf_tracking_otherref (e : IterEnv) (s : PollerState) (coarse : TimeSpec) (t : Tracking) (r : Nat) (hr : r ≠ t.refid) (file : PhcFile) (tReply tGrace : Int)
    : IterSendFails e s coarse (.tracking t) tReply tGrace (some r) file := by
  fail_start
  obtain ⟨h0, h1, h2, h3, h4⟩ := hin
  fail_tie

end ClockBound.Rs.PollerProof
