/-
  `ShmWriter::new(path)` itself, given what its callees do (`Proofs/RsWipe.lean`, `RsUsable*.lean`): the three
  paths — unusable segment (wipe), usable and long enough, usable but shorter than the segment (`set_len`).
  `husable` is the outcome of `is_usable_segment` as a rewrite rule, so that `new` is run once per path.
-/
import ClockBound.Proofs.RsCallKnown
namespace ClockBound.Rs.WriterNewProof
open ClockBound ClockBound.Rs ClockBound.Generated ClockBound.Rs.DictShm ClockBound.Rs.EmbedShm

/-- the two places where `new` itself needs the size table (kept folded in the context, so that the callee
    lemmas, stated with `nctx inp`, match) -/
theorem sizeOf_header : sizeOf EmbedShm.sizes "size_of<ShmHeader>" = some 16 := by
  simp [rs_eval, EmbedShm.sizes, HEADER_SIZE]
theorem sizeOf_new : sizeOf EmbedShm.sizes "new" = none := by
  simp [rs_eval, EmbedShm.sizes]
theorem lookup_header : List.lookup "ShmHeader" EmbedShm.sizes = some 16 := by
  simp [EmbedShm.sizes, List.lookup, HEADER_SIZE]

/-- the final store through the mapping, with the memory ordering `ov` (a Rust value) -/
def versionStore (ov : Value) : Value := evStore (.str "version") (.int .u16 1) ov

set_option maxRecDepth 8000 in
set_option maxHeartbeats 8000000 in
/-- an unusable segment: `wipe`, map, store the version -/
theorem new_unusable (inp : Nat → Value) (parent : String) (hasParent : Bool) (hp : hasParent = (parent != "")) (fd : Nat)
    (e : Value) (evs : List Value) (k : Nat)
    (husable : ∀ N env lg, callKnown (N + 120) (nctx inp) Code.fn_ShmWriter__is_usable_segment
        [.ext "Path" [.str "shm", .str parent]] { env := env, log := lg, pos := 0 }
      = .val (.enumv "Err" [e]) { env := env, log := lg ++ evs, pos := k })
    (hw : ∀ i, i < (wipeAnswers hasParent).length → inp (k + i) = (wipeAnswers hasParent).getD i .unit)
    (hm0 : inp (k + (wipeAnswers hasParent).length) = .enumv "Ok" [.int .i32 fd])
    (hm1 : inp (k + (wipeAnswers hasParent).length + 1) = .enumv "Ok" [.enumv "addr:segment" []]) :
    run (nctx inp) "ShmWriter::new" .unit [.ext "Path" [.str "shm", .str parent]]
    = .ok (.enumv "Ok" [writerValue 72]) .unit
        (evs ++ wipeEvents (.ext "Path" [.str "shm", .str parent]) (.ext "Path" [.str parent, .str ""]) hasParent ++
          mapEvents (.ext "Path" [.str "shm", .str parent]) fd ++ [versionStore (lastOrdV (run (nctx inp) "ShmWriter::new" .unit [.ext "Path" [.str "shm", .str parent]]))]) ∧
    (ordOfValue (lastOrdV (run (nctx inp) "ShmWriter::new" .unit [.ext "Path" [.str "shm", .str parent]]))).isSome = true := by
  have hwipe := fun N env lg => known_wipe inp parent hasParent hp N env lg k hw
  have hmap := fun N env lg => known_mmap inp parent fd N env lg (k + (wipeAnswers hasParent).length) hm0 hm1
  have hseg := fun N st => known_segsize inp N st
  simp (config := { maxSteps := 8000000 }) [rs_eval, rs_code, ↓eval_call_wipe, ↓eval_call_usable, ↓eval_call_mmap, ↓eval_call_segsize, husable, hwipe, hmap, hseg, sizeOf_header, sizeOf_new, lookup_header, writerValue,
    versionStore, evStore, mapEvents, evFs, lastOrdV, storeOrd, lastEv, lastEv_append_cons, lastEv_append_append, ordOfValue, List.append_assoc]

set_option maxRecDepth 8000 in
set_option maxHeartbeats 8000000 in
/-- a usable segment whose file is at least as long as the segment: map, store the version -/
theorem new_usable_long (inp : Nat → Value) (parent : String) (fd : Nat) (len : Nat) (hlen : 72 ≤ len)
    (evs : List Value) (k : Nat)
    (husable : ∀ N env lg, callKnown (N + 120) (nctx inp) Code.fn_ShmWriter__is_usable_segment
        [.ext "Path" [.str "shm", .str parent]] { env := env, log := lg, pos := 0 }
      = .val (.enumv "Ok" [.tuple []]) { env := env, log := lg ++ evs, pos := k })
    (hmeta : inp k = .enumv "Ok" [.ext "Metadata" [.int .u64 len]])
    (hm0 : inp (k + 1) = .enumv "Ok" [.int .i32 fd])
    (hm1 : inp (k + 1 + 1) = .enumv "Ok" [.enumv "addr:segment" []]) :
    run (nctx inp) "ShmWriter::new" .unit [.ext "Path" [.str "shm", .str parent]]
    = .ok (.enumv "Ok" [writerValue 72]) .unit
        (evs ++ [evFs "metadata" [.ext "Path" [.str "shm", .str parent]] (.enumv "Ok" [.ext "Metadata" [.int .u64 len]])] ++
          mapEvents (.ext "Path" [.str "shm", .str parent]) fd ++ [versionStore (lastOrdV (run (nctx inp) "ShmWriter::new" .unit [.ext "Path" [.str "shm", .str parent]]))]) ∧
    (ordOfValue (lastOrdV (run (nctx inp) "ShmWriter::new" .unit [.ext "Path" [.str "shm", .str parent]]))).isSome = true := by
  have hmap := fun N env lg => known_mmap inp parent fd N env lg (k + 1) hm0 hm1
  have hseg := fun N st => known_segsize inp N st
  have hl : ¬ ((len : Int) < 72) := by omega
  simp (config := { maxSteps := 8000000 }) [rs_eval, rs_code, ↓eval_call_wipe, ↓eval_call_usable, ↓eval_call_mmap, ↓eval_call_segsize, husable, hmap, hseg, sizeOf_header, sizeOf_new, lookup_header, writerValue,
    versionStore, evStore, mapEvents, evFs, lastOrdV, storeOrd, lastEv, lastEv_append_cons, lastEv_append_append, ordOfValue, List.append_assoc, hmeta, hl]

set_option maxRecDepth 8000 in
set_option maxHeartbeats 8000000 in
/-- a usable segment whose file is shorter than the segment: grow it in place (`set_len(72)`), map, store -/
theorem new_usable_short (inp : Nat → Value) (parent : String) (fd : Nat) (len : Nat) (hlen : len < 72)
    (evs : List Value) (k : Nat)
    (husable : ∀ N env lg, callKnown (N + 120) (nctx inp) Code.fn_ShmWriter__is_usable_segment
        [.ext "Path" [.str "shm", .str parent]] { env := env, log := lg, pos := 0 }
      = .val (.enumv "Ok" [.tuple []]) { env := env, log := lg ++ evs, pos := k })
    (hmeta : inp k = .enumv "Ok" [.ext "Metadata" [.int .u64 len]])
    (hopen : inp (k + 1) = .enumv "Ok" [.ext "File" []]) (hset : inp (k + 2) = .enumv "Ok" [.tuple []])
    (hm0 : inp (k + 3) = .enumv "Ok" [.int .i32 fd])
    (hm1 : inp (k + 3 + 1) = .enumv "Ok" [.enumv "addr:segment" []]) :
    run (nctx inp) "ShmWriter::new" .unit [.ext "Path" [.str "shm", .str parent]]
    = .ok (.enumv "Ok" [writerValue 72]) .unit
        (evs ++ [evFs "metadata" [.ext "Path" [.str "shm", .str parent]] (.enumv "Ok" [.ext "Metadata" [.int .u64 len]]),
                 evFs "open_write" [.ext "Path" [.str "shm", .str parent]] (.enumv "Ok" [.ext "File" []]),
                 evFs "set_len" [.int .u64 72] (.enumv "Ok" [.tuple []])] ++
          mapEvents (.ext "Path" [.str "shm", .str parent]) fd ++ [versionStore (lastOrdV (run (nctx inp) "ShmWriter::new" .unit [.ext "Path" [.str "shm", .str parent]]))]) ∧
    (ordOfValue (lastOrdV (run (nctx inp) "ShmWriter::new" .unit [.ext "Path" [.str "shm", .str parent]]))).isSome = true := by
  have hmap := fun N env lg => known_mmap inp parent fd N env lg (k + 3) hm0 hm1
  have hseg := fun N st => known_segsize inp N st
  have hl : (len : Int) < 72 := by omega
  simp (config := { maxSteps := 8000000 }) [rs_eval, rs_code, ↓eval_call_wipe, ↓eval_call_usable, ↓eval_call_mmap, ↓eval_call_segsize, husable, hmap, hseg, sizeOf_header, sizeOf_new, lookup_header, writerValue,
    versionStore, evStore, mapEvents, evFs, lastOrdV, storeOrd, lastEv, lastEv_append_cons, lastEv_append_append, ordOfValue, List.append_assoc, Nat.add_assoc, hmeta, hopen, hset, hl]

end ClockBound.Rs.WriterNewProof
