/-
  Proofs of the translation tie for the two client libraries, part: `ClockBoundClient::new` (statements in
  `Properties/CodeTieErrors.lean`).  Method: case split on the model values, then
  `simp [rs_eval, rs_code, <embeddings>]` normalises the interpreter on the generated AST.
-/
import ClockBound.Proofs.RsErrors
set_option linter.unusedSimpArgs false
namespace ClockBound.Rs.ErrorsProof
open ClockBound ClockBound.Rs ClockBound.Generated ClockBound.Rs.DictErrors ClockBound.Rs.EmbedErrors

/-- the default path of the Rust client (the constant `CLOCKBOUND_SHM_DEFAULT_PATH` of clock-bound-client) -/
def defaultPath : String := "/var/run/clockbound/shm"

set_option maxRecDepth 8000 in
set_option maxHeartbeats 4000000 in
theorem rust_new_err (inp : Nat → Value) (e : ShmErrorV) (h0 : inp 0 = openResValue (.error e)) :
    run (ctxE inp) "ClockBoundClient::new" .unit [] = rustOpenOutcome defaultPath (.error e) := by
  cases e <;> simp [rs_eval, rs_code, clientFns, h0, defaultPath, shmErrorValue, clientErrValue, ShmErrorV.toClient, clientKindValue, openResValue, resultValue, clientValue, clientOpen, rustOpenOutcome]

set_option maxRecDepth 8000 in
set_option maxHeartbeats 4000000 in
theorem rust_new_ok (inp : Nat → Value) (h : Value) (h0 : inp 0 = openResValue (.ok h)) :
    run (ctxE inp) "ClockBoundClient::new" .unit [] = rustOpenOutcome defaultPath (.ok h) := by
  simp [rs_eval, rs_code, clientFns, h0, defaultPath, shmErrorValue, clientErrValue, ShmErrorV.toClient, clientKindValue, openResValue, resultValue, clientValue, clientOpen, rustOpenOutcome]

theorem rust_new (inp : Nat → Value) (res : Except ShmErrorV Value) (h0 : inp 0 = openResValue res) :
    run (ctxE inp) "ClockBoundClient::new" .unit [] = rustOpenOutcome defaultPath res := by
  cases res with
  | error e => exact rust_new_err inp e h0
  | ok h => exact rust_new_ok inp h h0

end ClockBound.Rs.ErrorsProof
