/-
  Helper lemmas for the N-reader projection.
-/
import ClockBound.Model.SeqlockSysN
import ClockBound.Properties.C02
namespace ClockBound.SLN
open ClockBound ClockBound.SL

/-- a reachable one-reader state with the given shared parts, the given reader, and at least the
    given returned records -/
def Wit (a : Ann) (ver gen : Nat) (cells0 : List Nat) (log : Log) (w : Writer)
    (written : List (List Nat)) (r : Reader) (ret : List (List Nat)) : Prop :=
  ∃ t : Sys, Reachable a (Sys.init ver gen cells0) t ∧ t.log = log ∧ t.w = w ∧ t.written = written ∧
    t.r = r ∧ ∀ c ∈ ret, c ∈ t.returned

variable {a : Ann} {ver gen : Nat} {cells0 : List Nat}

theorem wit_wNew {log w written r ret} (h : Wit a ver gen cells0 log w written r ret)
    (hp : w.pc = .idle) :
    Wit a ver gen cells0 log { pc := .newVersion, relFence := 0 } written r ret := by
  obtain ⟨t, ht, rfl, rfl, rfl, rfl, hret⟩ := h
  exact ⟨_, ht.step (Step.wNew t hp), rfl, rfl, rfl, rfl, hret⟩

theorem wit_wWrite {log w written r ret} (h : Wit a ver gen cells0 log w written r ret)
    (rec : List Nat) (hp : w.pc = .idle) (hl : rec.length = N) :
    Wit a ver gen cells0 log { w with pc := .loadGen rec } (rec :: written) r ret := by
  obtain ⟨t, ht, rfl, rfl, rfl, rfl, hret⟩ := h
  exact ⟨_, ht.step (Step.wWrite t rec hp hl), rfl, rfl, rfl, rfl, hret⟩

theorem wit_wStep {log w written r ret} (h : Wit a ver gen cells0 log w written r ret)
    (pick : Nat) (hp : w.pc ≠ .idle) :
    Wit a ver gen cells0 (wStep a log w pick).1 (wStep a log w pick).2.1 written r ret := by
  obtain ⟨t, ht, rfl, rfl, rfl, rfl, hret⟩ := h
  exact ⟨_, ht.step (Step.wStep t pick hp), rfl, rfl, rfl, rfl, hret⟩

theorem wit_wKill {log w written r ret} (h : Wit a ver gen cells0 log w written r ret) :
    Wit a ver gen cells0 log {} written r ret := by
  obtain ⟨t, ht, rfl, rfl, rfl, rfl, hret⟩ := h
  exact ⟨_, ht.step (Step.wKill t), rfl, rfl, rfl, rfl, hret⟩

theorem wit_rOpen {log w written r ret} (h : Wit a ver gen cells0 log w written r ret)
    (hp : r.pc = .idle) : Wit a ver gen cells0 log w written {} ret := by
  obtain ⟨t, ht, rfl, rfl, rfl, rfl, hret⟩ := h
  exact ⟨_, ht.step (Step.rOpen t hp), rfl, rfl, rfl, rfl, hret⟩

theorem wit_rCall {log w written r ret} (h : Wit a ver gen cells0 log w written r ret)
    (hp : r.pc = .idle) : Wit a ver gen cells0 log w written r.call ret := by
  obtain ⟨t, ht, rfl, rfl, rfl, rfl, hret⟩ := h
  exact ⟨_, ht.step (Step.rCall t hp), rfl, rfl, rfl, rfl, hret⟩

theorem wit_rStep {log w written r ret} (h : Wit a ver gen cells0 log w written r ret)
    (pickCell pickMsg : Nat) (hp : r.pc ≠ .idle) :
    Wit a ver gen cells0 log w written (rStep a log r pickCell pickMsg).1
      (match returnedBy (rStep a log r pickCell pickMsg).2.1 with
        | some c => c :: ret
        | none => ret) := by
  obtain ⟨t, ht, rfl, rfl, rfl, rfl, hret⟩ := h
  refine ⟨_, ht.step (Step.rStep t pickCell pickMsg hp), rfl, rfl, rfl, rfl, ?_⟩
  dsimp only
  cases returnedBy (rStep a t.log t.r pickCell pickMsg).2.1 with
  | none => exact hret
  | some c0 =>
    intro c hc
    rcases List.mem_cons.1 hc with rfl | hc
    · exact List.mem_cons_self
    · exact List.mem_cons_of_mem _ (hret c hc)

theorem wit_nil {log w written r ret} (h : Wit a ver gen cells0 log w written r ret) :
    Wit a ver gen cells0 log w written r [] := by
  obtain ⟨t, ht, h1, h2, h3, h4, _⟩ := h
  exact ⟨t, ht, h1, h2, h3, h4, fun c hc => absurd hc List.not_mem_nil⟩

/-- the projection invariant -/
structure InvN (a : Ann) (ver gen : Nat) (cells0 : List Nat) (s : SysN) : Prop where
  len : s.returned.length = s.rs.length
  fresh : Wit a ver gen cells0 s.log s.w s.written {} []
  each : ∀ (i : Nat) (r : Reader), s.rs[i]? = some r →
    Wit a ver gen cells0 s.log s.w s.written r (s.returned[i]?.getD [])

theorem inv_init : InvN a ver gen cells0 (SysN.init ver gen cells0) where
  len := rfl
  fresh := ⟨_, Reachable.refl, rfl, rfl, rfl, rfl, fun c hc => absurd hc List.not_mem_nil⟩
  each := by intro i r h; simp [SysN.init] at h

theorem inv_step {s s' : SysN} (hI : InvN a ver gen cells0 s) (hs : StepN a s s') :
    InvN a ver gen cells0 s' := by
  obtain ⟨hlen, hfresh, heach⟩ := hI
  cases hs with
  | wNew h => exact ⟨hlen, wit_wNew hfresh h, fun i r hi => wit_wNew (heach i r hi) h⟩
  | wWrite rec h hl =>
    exact ⟨hlen, wit_wWrite hfresh rec h hl, fun i r hi => wit_wWrite (heach i r hi) rec h hl⟩
  | wStep pick h => exact ⟨hlen, wit_wStep hfresh pick h, fun i r hi => wit_wStep (heach i r hi) pick h⟩
  | wKill => exact ⟨hlen, wit_wKill hfresh, fun i r hi => wit_wKill (heach i r hi)⟩
  | rJoin =>
    refine ⟨by simp [hlen], hfresh, ?_⟩
    intro i r hi
    dsimp only at hi ⊢
    by_cases hlt : i < s.rs.length
    · rw [List.getElem?_append_left hlt] at hi
      rw [List.getElem?_append_left (by omega)]
      exact heach i r hi
    · have hge : s.rs.length ≤ i := Nat.le_of_not_lt hlt
      rw [List.getElem?_append_right hge] at hi
      rw [List.getElem?_append_right (by omega)]
      have hi0 : i - s.rs.length = 0 := by
        rcases Nat.eq_zero_or_pos (i - s.rs.length) with h | h
        · exact h
        · rw [List.getElem?_eq_none (by simp; omega)] at hi; cases hi
      rw [hi0] at hi
      rw [hlen, hi0]
      simp at hi
      subst hi
      simpa using hfresh
  | rOpen i r hi h =>
    refine ⟨by simp [setAt, hlen], hfresh, ?_⟩
    intro j rj hj
    dsimp only [setAt] at hj ⊢
    by_cases hji : i = j
    · subst hji
      have hlt : i < s.rs.length := (List.getElem?_eq_some_iff.1 hi).1
      rw [List.getElem?_set_self hlt] at hj
      cases hj
      exact wit_rOpen (heach i r hi) h
    · rw [List.getElem?_set_ne hji] at hj
      exact heach j rj hj
  | rCall i r hi h =>
    refine ⟨by simp [setAt, hlen], hfresh, ?_⟩
    intro j rj hj
    dsimp only [setAt] at hj ⊢
    by_cases hji : i = j
    · subst hji
      have hlt : i < s.rs.length := (List.getElem?_eq_some_iff.1 hi).1
      rw [List.getElem?_set_self hlt] at hj
      cases hj
      exact wit_rCall (heach i r hi) h
    · rw [List.getElem?_set_ne hji] at hj
      exact heach j rj hj
  | rStep i r hi pickCell pickMsg h =>
    have hlt : i < s.rs.length := (List.getElem?_eq_some_iff.1 hi).1
    refine ⟨?_, hfresh, ?_⟩
    · dsimp only [setAt]; split <;> simp [hlen]
    · intro j rj hj
      dsimp only [setAt] at hj ⊢
      by_cases hji : i = j
      · subst hji
        rw [List.getElem?_set_self hlt] at hj
        cases hj
        have := wit_rStep (heach i r hi) pickCell pickMsg h
        split
        · next c hc =>
          rw [hc] at this
          rw [List.getElem?_set_self (by omega)]
          exact this
        · next hc =>
          rw [hc] at this
          exact this
      · rw [List.getElem?_set_ne hji] at hj
        have := heach j rj hj
        split
        · rw [List.getElem?_set_ne hji]; exact this
        · exact this

theorem inv_reachable {s : SysN} (hr : ReachableN a (SysN.init ver gen cells0) s) :
    InvN a ver gen cells0 s := by
  induction hr with
  | refl => exact inv_init
  | step _ hs ih => exact inv_step ih hs

end ClockBound.SLN
