/-
  The chrony poller iteration, all cases together (`Proofs/RsPoller.lean`, `RsPollerA/B/C.lean`).
-/
import ClockBound.Proofs.RsPollerS
import ClockBound.Proofs.RsPollerA
import ClockBound.Proofs.RsPollerB
import ClockBound.Proofs.RsPollerC
namespace ClockBound.Rs.PollerProof
open ClockBound ClockBound.Rs ClockBound.Generated ClockBound.Rs.DictPoller

theorem iteration (e : IterEnv) (s : PollerState) (coarse : TimeSpec) (reply : ReplyKind) (tReply tGrace : Int)
    (refid : Option Nat) (file : PhcFile) : IterStmt e s coarse reply tReply tGrace refid file := by
  cases reply with
  | none => exact iter_none _ _ _ _ _ _ _
  | other => exact iter_other _ _ _ _ _ _ _
  | tracking t =>
    cases refid with
    | none => exact iter_tracking_nophc _ _ _ _ _ _ _
    | some r =>
      by_cases hr : r = t.refid
      · subst hr
        cases file with
        | ok v =>
          cases hv : inI64 v
          · exact iter_phc_range _ _ _ _ _ _ _ hv
          · exact iter_phc_ok _ _ _ _ _ _ _ hv
        | unreadable =>
          cases he : e.atOpen
          · exact iter_phc_unreadable_read _ he _ _ _ _ _
          · exact iter_phc_unreadable_open _ he _ _ _ _ _
        | unparsable => exact iter_phc_garbage _ _ _ _ _ _
      · exact iter_tracking_otherref _ _ _ _ _ _ _ hr _

end ClockBound.Rs.PollerProof
