/-
  Helper lemmas for the ABA counter-example (C02Full).

  * `iter_eq` / `iter_cycle`: the generation counter under completed updates is a cycle of length
    32767 on the even values 2 … 65534;
  * `update_once` (L1) / `update_many` (L2): the writer alone performs any number of complete updates
    from any reachable state in which it is idle, leaving the reader untouched;
  * `reach_rfresh` / `reach_rfresh_ret` (L3): a reader step with fresh reads, lifted to `Reachable`;
  * `aba_execution` (L4): the stalled-reader execution for the repaired annotation `{}`.
-/
import ClockBound.Model.SeqlockSys
import ClockBound.Proofs.SeqlockReader
namespace ClockBound.SLA
open ClockBound ClockBound.SL

/-! ### the generation cycle -/

/-- the generation after `k` completed updates -/
def iter (k g : Nat) : Nat := (List.range k).foldl (fun x _ => genFinish (genStart x)) g

theorem iter_zero (g : Nat) : iter 0 g = g := rfl

theorem iter_succ (k g : Nat) : iter (k + 1) g = genFinish (genStart (iter k g)) := by
  unfold iter
  rw [List.range_succ, List.foldl_append]
  rfl

/-- one completed update on an even in-range generation -/
theorem update_gen {v : Nat} (he : v % 2 = 0) (h2 : 2 ≤ v) (h : v < 65536) :
    genFinish (genStart v) = if v = 65534 then 2 else v + 2 := by
  unfold genFinish genStart
  rw [if_pos he]
  have h1 : (v + 1) % 65536 = v + 1 := Nat.mod_eq_of_lt (by omega)
  rw [h1]
  dsimp only
  by_cases hv : v = 65534
  · subst hv; rfl
  · rw [if_neg hv]
    have h3 : (v + 1 + 1) % 65536 = v + 2 := Nat.mod_eq_of_lt (by omega)
    rw [h3, if_neg (by omega)]

theorem iter_eq (k g : Nat) (hg : g % 2 = 0) (h2 : 2 ≤ g) (h : g < 65536) :
    iter k g = 2 + (g - 2 + 2 * k) % 65534 := by
  induction k with
  | zero => rw [iter_zero]; omega
  | succ k ih =>
    rw [iter_succ, ih, update_gen (by omega) (by omega) (by omega)]
    split <;> omega

theorem iter_cycle (g : Nat) (hg : g % 2 = 0) (h2 : 2 ≤ g) (h : g < 65536) : iter 32767 g = g := by
  rw [iter_eq _ _ hg h2 h]; omega

/-! ### newest values after an append -/

theorem latest_snoc (log : Log) (m : SL.Msg) (x : Loc) :
    latest (log ++ [m]) x = if m.loc = x then m.val else latest log x := by
  unfold latest
  rw [SLR.lastBefore_append]
  by_cases hm : m.loc = x
  · rw [if_pos hm, if_pos hm]
    simp
  · rw [if_neg hm, if_neg hm]
    cases h : lastBefore log x log.length with
    | none => rfl
    | some j =>
      have hj : j < log.length := by
        have := (SLR.lastBefore_some.mp h).1
        omega
      simp only [List.getElem?_append_left hj]

theorem latest_store (log : Log) (rf : Nat) (x : Loc) (v : Nat) (o : Ord) (y : Loc) :
    latest (storeMsg log rf x v o) y = if x = y then v else latest log y := by
  unfold storeMsg
  rw [latest_snoc]

/-! ### L1: one complete update by the writer alone -/

/-- a system state, fields spelled out -/
abbrev mk (log : Log) (w : Writer) (r : Reader) (wr ret : List (List Nat)) : Sys :=
  { log := log, w := w, r := r, written := wr, returned := ret }

theorem update_once {s0 : Sys} {log : Log} {rf : Nat} {r : Reader} {wr ret : List (List Nat)}
    (a0 a1 a2 a3 a4 a5 a6 : Nat)
    (h : Reachable ({} : Ann) s0 (mk log ⟨.idle, rf⟩ r wr ret)) :
    ∃ log' rf', Reachable ({} : Ann) s0 (mk log' ⟨.idle, rf'⟩ r ([a0, a1, a2, a3, a4, a5, a6] :: wr) ret) ∧
      latest log' .gen = genFinish (genStart (latest log .gen)) ∧
      latest log' .version = latest log .version ∧
      latest log' (.cell 0) = a0 ∧ latest log' (.cell 1) = a1 ∧ latest log' (.cell 2) = a2 ∧
      latest log' (.cell 3) = a3 ∧ latest log' (.cell 4) = a4 ∧ latest log' (.cell 5) = a5 ∧
      latest log' (.cell 6) = a6 := by
  let rec_ : List Nat := [a0, a1, a2, a3, a4, a5, a6]
  let g := genStart (latest log .gen)
  have s1 : Reachable ({} : Ann) s0 (mk log ⟨.loadGen rec_, rf⟩ r (rec_ :: wr) ret) :=
    Reachable.step h (Step.wWrite _ rec_ rfl rfl)
  have s2 : Reachable ({} : Ann) s0 (mk log ⟨.store1 rec_ g, rf⟩ r (rec_ :: wr) ret) :=
    Reachable.step s1 (Step.wStep _ 0 (by simp))
  let l1 := storeMsg log rf .gen g .release
  have s3 : Reachable ({} : Ann) s0 (mk l1 ⟨.fence rec_ g, rf⟩ r (rec_ :: wr) ret) :=
    Reachable.step s2 (Step.wStep _ 0 (by simp))
  let f := l1.length
  have s4 : Reachable ({} : Ann) s0 (mk l1 ⟨.copy rec_ g [0, 1, 2, 3, 4, 5, 6], f⟩ r (rec_ :: wr) ret) :=
    Reachable.step s3 (Step.wStep _ 0 (by simp))
  let c0 := storeMsg l1 f (.cell 0) a0 .relaxed
  have s5 : Reachable ({} : Ann) s0 (mk c0 ⟨.copy rec_ g [1, 2, 3, 4, 5, 6], f⟩ r (rec_ :: wr) ret) :=
    Reachable.step s4 (Step.wStep _ 0 (by simp))
  let c1 := storeMsg c0 f (.cell 1) a1 .relaxed
  have s6 : Reachable ({} : Ann) s0 (mk c1 ⟨.copy rec_ g [2, 3, 4, 5, 6], f⟩ r (rec_ :: wr) ret) :=
    Reachable.step s5 (Step.wStep _ 0 (by simp))
  let c2 := storeMsg c1 f (.cell 2) a2 .relaxed
  have s7 : Reachable ({} : Ann) s0 (mk c2 ⟨.copy rec_ g [3, 4, 5, 6], f⟩ r (rec_ :: wr) ret) :=
    Reachable.step s6 (Step.wStep _ 0 (by simp))
  let c3 := storeMsg c2 f (.cell 3) a3 .relaxed
  have s8 : Reachable ({} : Ann) s0 (mk c3 ⟨.copy rec_ g [4, 5, 6], f⟩ r (rec_ :: wr) ret) :=
    Reachable.step s7 (Step.wStep _ 0 (by simp))
  let c4 := storeMsg c3 f (.cell 4) a4 .relaxed
  have s9 : Reachable ({} : Ann) s0 (mk c4 ⟨.copy rec_ g [5, 6], f⟩ r (rec_ :: wr) ret) :=
    Reachable.step s8 (Step.wStep _ 0 (by simp))
  let c5 := storeMsg c4 f (.cell 5) a5 .relaxed
  have s10 : Reachable ({} : Ann) s0 (mk c5 ⟨.copy rec_ g [6], f⟩ r (rec_ :: wr) ret) :=
    Reachable.step s9 (Step.wStep _ 0 (by simp))
  let c6 := storeMsg c5 f (.cell 6) a6 .relaxed
  have s11 : Reachable ({} : Ann) s0 (mk c6 ⟨.store2 rec_ g, f⟩ r (rec_ :: wr) ret) :=
    Reachable.step s10 (Step.wStep _ 0 (by simp))
  let l2 := storeMsg c6 f .gen (genFinish g) .release
  have s12 : Reachable ({} : Ann) s0 (mk l2 ⟨.idle, f⟩ r (rec_ :: wr) ret) :=
    Reachable.step s11 (Step.wStep _ 0 (by simp))
  refine ⟨l2, f, s12, ?_, ?_, ?_, ?_, ?_, ?_, ?_, ?_, ?_⟩ <;>
    simp [l2, c6, c5, c4, c3, c2, c1, c0, l1, latest_store, g]

/-! ### L2: any number of complete updates -/

theorem update_many {s0 : Sys} {r : Reader} {ret : List (List Nat)} (a0 a1 a2 a3 a4 a5 a6 : Nat)
    (wr0 : List (List Nat)) (g0 v0 : Nat) (k : Nat) :
    ∀ {log : Log} {rf : Nat} {wr : List (List Nat)},
      Reachable ({} : Ann) s0 (mk log ⟨.idle, rf⟩ r wr ret) →
      (∀ x ∈ wr, x ∈ wr0 ∨ x = [a0, a1, a2, a3, a4, a5, a6]) →
      latest log .gen = g0 → latest log .version = v0 →
      ∃ log' rf' wr', Reachable ({} : Ann) s0 (mk log' ⟨.idle, rf'⟩ r wr' ret) ∧
        (∀ x ∈ wr', x ∈ wr0 ∨ x = [a0, a1, a2, a3, a4, a5, a6]) ∧
        latest log' .gen = iter (k + 1) g0 ∧
        latest log' .version = v0 ∧
        latest log' (.cell 0) = a0 ∧ latest log' (.cell 1) = a1 ∧ latest log' (.cell 2) = a2 ∧
        latest log' (.cell 3) = a3 ∧ latest log' (.cell 4) = a4 ∧ latest log' (.cell 5) = a5 ∧
        latest log' (.cell 6) = a6 := by
  induction k with
  | zero =>
    intro log rf wr h hw hg hv
    obtain ⟨log', rf', h', e⟩ := update_once a0 a1 a2 a3 a4 a5 a6 h
    refine ⟨log', rf', _, h', ?_, ?_, ?_, e.2.2⟩
    · intro x hx
      rcases List.mem_cons.mp hx with rfl | hx
      · exact Or.inr rfl
      · exact hw x hx
    · rw [e.1, hg, iter_succ, iter_zero]
    · rw [e.2.1, hv]
  | succ k ih =>
    intro log rf wr h hw hg hv
    obtain ⟨log1, rf1, wr1, h1, hw1, hg1, hv1, _⟩ := ih h hw hg hv
    obtain ⟨log', rf', h', e⟩ := update_once a0 a1 a2 a3 a4 a5 a6 h1
    refine ⟨log', rf', _, h', ?_, ?_, ?_, e.2.2⟩
    · intro x hx
      rcases List.mem_cons.mp hx with rfl | hx
      · exact Or.inr rfl
      · exact hw1 x hx
    · rw [e.1, hg1, ← iter_succ]
    · rw [e.2.1, hv1]

/-! ### L3: reader steps with fresh reads, lifted to `Reachable` -/

theorem reach_rfresh {a : Ann} {s0 : Sys} {log : Log} {w : Writer} {r r' : Reader}
    {wr ret : List (List Nat)} (h : Reachable a s0 (mk log w r wr ret)) (hpc : r.pc ≠ .idle)
    (e : SLR.rStep2 a log r = (r', none)) : Reachable a s0 (mk log w r' wr ret) := by
  have hs := Reachable.step h (Step.rStep _ 0 0 hpc)
  unfold SLR.rStep2 at e
  have e1 : (rStep a log r 0 0).1 = r' := congrArg Prod.fst e
  have e2 : (rStep a log r 0 0).2.1 = none := congrArg Prod.snd e
  simp only [e1, e2, returnedBy] at hs
  exact hs

theorem reach_rfresh_ret {a : Ann} {s0 : Sys} {log : Log} {w : Writer} {r : Reader}
    {wr ret : List (List Nat)} {c : List Nat} (h : Reachable a s0 (mk log w r wr ret))
    (hpc : r.pc ≠ .idle) (e : (SLR.rStep2 a log r).2 = some (.ok c)) :
    ∃ r', Reachable a s0 (mk log w r' wr (c :: ret)) := by
  have hs := Reachable.step h (Step.rStep _ 0 0 hpc)
  unfold SLR.rStep2 at e
  have e2 : (rStep a log r 0 0).2.1 = some (.ok c) := e
  simp only [e2, returnedBy] at hs
  exact ⟨_, hs⟩

theorem cohOk_of_reachable {a : Ann} {ver gen : Nat} {cells : List Nat} {s : Sys}
    (h : Reachable a (Sys.init ver gen cells) s) : SLR.CohOk s.log s.r.view :=
  (SLR.sysInv_reachable (SLR.sysInv_init ver gen cells) h).view.2.2

/-! ### L4: the stalled-reader execution -/

/-- the initial block of the counter-example -/
abbrev l0 : Log := initBlock 1 4 (List.replicate N 7)
/-- the initial state of the counter-example -/
abbrev s0 : Sys := Sys.init 1 4 (List.replicate N 7)

/-- newest values of the initial block used by the counter-example -/
theorem init_latest :
    latest l0 .version = 1 ∧ latest l0 .gen = 4 ∧
    latest l0 (.cell 0) = 7 ∧ latest l0 (.cell 1) = 7 ∧ latest l0 (.cell 2) = 7 := by
  decide

/-- the execution: the reader copies cells 0–2 of the old record, stalls while the writer completes
    32767 updates with the record `9…9`, copies cells 3–6, re-reads the same generation and accepts -/
theorem aba_execution :
    ∃ s : Sys, Reachable ({} : Ann) (Sys.init 1 4 (List.replicate N 7)) s ∧
      s.returned = [[7, 7, 7, 9, 9, 9, 9]] ∧
      ∀ x ∈ s.written, x = [9, 9, 9, 9, 9, 9, 9] := by
  obtain ⟨iv, ig, ic0, ic1, ic2⟩ := init_latest
  -- phase 1: the reader starts a call and copies cells 0, 1, 2
  have p0 : Reachable ({} : Ann) s0 (mk l0 {} ({} : Reader).call [] []) :=
    Reachable.step Reachable.refl (Step.rCall _ rfl)
  obtain ⟨r1, e1, q1, -, g1, -⟩ := SLR.fresh_version {} l0 ({} : Reader).call rfl
    (cohOk_of_reachable p0) (by rw [iv]; decide)
  have p1 := reach_rfresh p0 (by simp [Reader.call]) e1
  obtain ⟨r2, e2, q2, -⟩ := SLR.fresh_gen1_go {} l0 r1 q1 (cohOk_of_reachable p1)
    (by rw [ig]; decide) (by rw [ig]) (by rw [g1, ig]; decide)
  have p2 := reach_rfresh p1 (by simp [q1]) e2
  have hN : List.range N = [0, 1, 2, 3, 4, 5, 6] := by decide
  rw [hN, ig] at q2
  obtain ⟨r3, e3, q3, -⟩ := SLR.fresh_copy {} l0 r2 _ _ _ _ _ q2 (by decide) (cohOk_of_reachable p2)
  have p3 := reach_rfresh p2 (by simp [q2]) e3
  simp only [List.isEmpty_cons, Bool.false_eq_true, if_false, ic0] at q3
  obtain ⟨r4, e4, q4, -⟩ := SLR.fresh_copy {} l0 r3 _ _ _ _ _ q3 (by decide) (cohOk_of_reachable p3)
  have p4 := reach_rfresh p3 (by simp [q3]) e4
  simp only [List.isEmpty_cons, Bool.false_eq_true, if_false, ic1] at q4
  obtain ⟨r5, e5, q5, -⟩ := SLR.fresh_copy {} l0 r4 _ _ _ _ _ q4 (by decide) (cohOk_of_reachable p4)
  have p5 := reach_rfresh p4 (by simp [q4]) e5
  simp only [List.isEmpty_cons, Bool.false_eq_true, if_false, ic2] at q5
  -- phase 2: a writer process starts and completes 32767 updates
  have w1 : Reachable ({} : Ann) s0 (mk l0 ⟨.newVersion, 0⟩ r5 [] []) :=
    Reachable.step p5 (Step.wNew _ rfl)
  have w2 : Reachable ({} : Ann) s0 (mk (storeMsg l0 0 .version 1 .relaxed) ⟨.idle, 0⟩ r5 [] []) :=
    Reachable.step w1 (Step.wStep _ 0 (by simp))
  obtain ⟨lg, rf, wr, w3, hwr, hg, hv, k0, k1, k2, k3, k4, k5, k6⟩ :=
    update_many 9 9 9 9 9 9 9 [] 4 1 32766 w2 (by simp)
      (by rw [latest_store, ig]; simp) (by rw [latest_store]; simp)
  rw [show 32766 + 1 = 32767 from rfl, iter_cycle 4 (by decide) (by decide) (by decide)] at hg
  -- phase 3: the reader resumes, copies cells 3–6, fences and re-reads the generation
  obtain ⟨r6, e6, q6, -⟩ := SLR.fresh_copy {} lg r5 _ _ _ _ _ q5 (by decide) (cohOk_of_reachable w3)
  have p6 := reach_rfresh w3 (by simp [q5]) e6
  simp only [List.isEmpty_cons, Bool.false_eq_true, if_false, k3] at q6
  obtain ⟨r7, e7, q7, -⟩ := SLR.fresh_copy {} lg r6 _ _ _ _ _ q6 (by decide) (cohOk_of_reachable p6)
  have p7 := reach_rfresh p6 (by simp [q6]) e7
  simp only [List.isEmpty_cons, Bool.false_eq_true, if_false, k4] at q7
  obtain ⟨r8, e8, q8, -⟩ := SLR.fresh_copy {} lg r7 _ _ _ _ _ q7 (by decide) (cohOk_of_reachable p7)
  have p8 := reach_rfresh p7 (by simp [q7]) e8
  simp only [List.isEmpty_cons, Bool.false_eq_true, if_false, k5] at q8
  obtain ⟨r9, e9, q9, -⟩ := SLR.fresh_copy {} lg r8 _ _ _ _ _ q8 (by decide) (cohOk_of_reachable p8)
  have p9 := reach_rfresh p8 (by simp [q8]) e9
  simp only [List.isEmpty_nil, if_true, k6] at q9
  have q9' : r9.pc = .fence 4 RETRIES [(6, 9), (5, 9), (4, 9), (3, 9), (2, 7), (1, 7), (0, 7)] := q9
  obtain ⟨r10, e10, q10, -⟩ := SLR.fresh_fence {} lg r9 _ _ _ q9' (cohOk_of_reachable p9)
  have p10 := reach_rfresh p9 (by simp [q9']) e10
  have q10' : r10.pc = .gen2 (latest lg .gen) RETRIES
      [(6, 9), (5, 9), (4, 9), (3, 9), (2, 7), (1, 7), (0, 7)] := by rw [hg]; exact q10
  obtain ⟨r11, p11⟩ := reach_rfresh_ret p10 (by simp [q10])
    (SLR.fresh_gen2 {} lg r10 _ _ q10' (cohOk_of_reachable p10))
  rw [SLR.assemble_seven] at p11
  refine ⟨_, p11, rfl, ?_⟩
  intro x hx
  rcases hwr x hx with h | h
  · cases h
  · exact h

end ClockBound.SLA
