/-
  Helper lemmas for the ABA counter-example (C02Full).
-/
import ClockBound.Model.SeqlockSys
namespace ClockBound.SLA
open ClockBound ClockBound.SL

end ClockBound.SLA
