/-
  Common ground of the `Threads` translation-tie proofs: the dictionary's definitions as members of `rs_eval`,
  small facts about the embedded values, and `evalWhile_skip` (skip `k` iterations of a loop, leaving the rest of
  the loop to be evaluated where the state is concrete).
-/
import ClockBound.Proofs.RsLoop
import ClockBound.Generated.Code
import ClockBound.Rs.EmbedThreads
namespace ClockBound.Rs.ThreadsProof
open ClockBound ClockBound.Rs ClockBound.Generated ClockBound.Rs.DictThreads ClockBound.Rs.EmbedThreads
open ClockBound.Threads

/-! the dictionary stays folded (`DictThreads.ext`); its hooks are reached through these projections -/
@[rs_eval] theorem ext_call : DictThreads.ext.call = DictThreads.call := rfl
@[rs_eval] theorem ext_method : DictThreads.ext.method = DictThreads.method := rfl
@[rs_eval] theorem ext_path : DictThreads.ext.path = DictThreads.path := rfl
@[rs_eval] theorem ext_macroCall : DictThreads.ext.macroCall = DictThreads.macroCall := rfl
@[rs_eval] theorem ext_refMut : DictThreads.ext.refMut = DictThreads.refMut := rfl
@[rs_eval] theorem ext_deref (w v st) : DictThreads.ext.deref w v st = none := rfl
@[rs_eval] theorem ext_fieldOf (v n) : DictThreads.ext.fieldOf v n = none := rfl
@[rs_eval] theorem ext_cast (w t v st) : DictThreads.ext.cast w t v st = none := rfl
@[rs_eval] theorem ext_litFallback : DictThreads.ext.litFallback = none := rfl
@[rs_eval] theorem ext_errFrom (r v) : DictThreads.ext.errFrom r v = none := rfl

-- calls of functions that declare a `&mut T` parameter (`take_mailbox(mailbox: &mut MailBox<..>, ..)` once it is
-- factored out): the core's by-reference call rule, whose equations each group registers for itself
rs_register_eqns callDeclRef

attribute [rs_eval] DictThreads.path DictThreads.call DictThreads.method DictThreads.refMut
  DictThreads.ask DictThreads.askDone DictThreads.macroCall DictThreads.hmGet DictThreads.hashMapValue DictThreads.rxValue DictThreads.txValue
  DictThreads.mailboxValue DictThreads.chanValue

/-- the six iteration orders -/
theorem isOrder_cases {ks : List Thread} (h : isOrder ks = true) :
    ks = [.main, .poller, .writer] ∨ ks = [.main, .writer, .poller] ∨ ks = [.poller, .main, .writer] ∨
    ks = [.poller, .writer, .main] ∨ ks = [.writer, .main, .poller] ∨ ks = [.writer, .poller, .main] := by
  rcases ks with _ | ⟨a, _ | ⟨b, _ | ⟨c, _ | _⟩⟩⟩ <;> try (simp [isOrder] at h)
  cases a <;> cases b <;> cases c <;> simp_all [isOrder]

/-- a send result never is an untyped integer literal: declared types leave it alone -/
@[rs_eval] theorem ascribe_sendResult (ty : String) (ok : Bool) (m : Value) :
    ascribe ty (sendResult ok m) = some (sendResult ok m) := by
  cases ok <;> simp [sendResult, rs_eval]

@[rs_eval] theorem ascribe_joinResult (ty : String) (ok : Bool) :
    ascribe ty (joinResult ok) = some (joinResult ok) := by
  cases ok <;> simp [joinResult, rs_eval]

@[rs_eval] theorem ascribe_phcValue (ty : String) (p : Option (Nat × Value)) :
    ascribe ty (phcValue p) = some (phcValue p) := by
  rcases p with _ | ⟨r, q⟩ <;> simp [phcValue, rs_eval]

/-- a message that is not a notice is a `Message` variant other than `ThreadTerminate` / `ThreadPanic` -/
theorem value_nonNotice (m : RMsg) (h : m.isNotice = false) :
    ∃ name args, m.value = .enumv name args ∧ name ≠ "Message::ThreadTerminate" ∧ name ≠ "Message::ThreadPanic" := by
  cases m with
  | data p => exact ⟨_, _, rfl, by decide, by decide⟩
  | noData n => cases n <;> exact ⟨_, _, rfl, by decide, by decide⟩
  | terminate c => simp [RMsg.isNotice] at h
  | panic c => simp [RMsg.isNotice] at h
  | abort => exact ⟨_, _, rfl, by decide, by decide⟩

/-- `k` iterations of a `while`, described by the state `S i` at the start of iteration `i`; what is left is the
    same loop in state `S k` with `k` units of fuel less -/
theorem evalWhile_skipS {ctx : Ctx} {fr : Frame} {c : Expr} {body : List Stmt}
    (S : Nat → St) (d k : Nat)
    (hc : ∀ i, i < k → ∀ N, d ≤ N → eval N ctx fr c (S i) = .val (.bool true) (S i))
    (hb : ∀ i, i < k → ∀ N, d ≤ N → ∀ next : St → Res,
      ((evalBlock N ctx fr body (S i)).popTo (S i).env.length).loopNext next = next (S (i + 1))) :
    ∀ N, d ≤ N → evalWhile (N + k) ctx fr c body (S 0) = evalWhile N ctx fr c body (S k) := by
  induction k generalizing S with
  | zero => intro N _; rfl
  | succ k ih =>
    intro N hN
    have e : N + (k + 1) = (N + k) + 1 := by omega
    rw [e, evalWhile_succ, hc 0 (by omega) (N + k) (by omega)]
    simp only [Res.bind_val, if_true]
    rw [hb 0 (by omega) (N + k) (by omega)]
    exact ih (fun i => S (i + 1)) (fun i hi => hc (i + 1) (by omega)) (fun i hi => hb (i + 1) (by omega)) N hN

/-- the same, relative to the state the loop starts in: iteration `i` starts with the events `E i` appended to the
    log and `P i` inputs consumed, in the same environment -/
theorem evalWhile_skip {ctx : Ctx} {fr : Frame} {c : Expr} {body : List Stmt}
    (st : St) (E : Nat → List Value) (P : Nat → Nat) (d k : Nat) (hE : E 0 = []) (hP : P 0 = 0)
    (hc : ∀ i, i < k → ∀ N, d ≤ N →
      eval N ctx fr c ⟨st.env, st.log ++ E i, st.pos + P i⟩ = .val (.bool true) ⟨st.env, st.log ++ E i, st.pos + P i⟩)
    (hb : ∀ i, i < k → ∀ N, d ≤ N → ∀ next : St → Res,
      ((evalBlock N ctx fr body ⟨st.env, st.log ++ E i, st.pos + P i⟩).popTo st.env.length).loopNext next
        = next ⟨st.env, st.log ++ E (i + 1), st.pos + P (i + 1)⟩) :
    ∀ N, d ≤ N → evalWhile (N + k) ctx fr c body st
      = evalWhile N ctx fr c body ⟨st.env, st.log ++ E k, st.pos + P k⟩ := by
  intro N hN
  have h := evalWhile_skipS (ctx := ctx) (fr := fr) (c := c) (body := body)
    (fun i => ⟨st.env, st.log ++ E i, st.pos + P i⟩) d k hc hb N hN
  simpa [hE, hP] using h

/-- body of the first top-level `loop { .. }` statement of a function body -/
def findLoop : List Stmt → Option (List Stmt)
  | [] => none
  | s :: rest =>
    match s with
    | .expr (.loopE b) _ => some b
    | _ => findLoop rest

end ClockBound.Rs.ThreadsProof
