/-
  Proof of `CodeTieThreads.drop_eq` (`Drop for Context::drop`): one file per channel id (the `clone()` of the id is
  a rule on the three variants), `panicking()` and the outcome of the send split inside.
-/
import ClockBound.Proofs.RsThreadsDropP
import ClockBound.Proofs.RsThreadsDropW
import ClockBound.Proofs.RsThreadsDropM
namespace ClockBound.Rs.ThreadsProof
open ClockBound ClockBound.Rs ClockBound.Generated ClockBound.Rs.DictThreads ClockBound.Rs.EmbedThreads
open ClockBound.Threads

theorem drop_tie (c : Thread) (ks : List Thread) (p ok : Bool) (nowNs : Int) (inp : Nat → Value)
    (h0 : inp 0 = .bool p) (h1 : inp 1 = sendResult ok (noticeOf c p).value) :
    run (Code.ctxWith nowNs DictThreads.ext [] inp) "Drop for Context::drop" (contextValue c ks) []
    = .ok .unit (contextValue c ks)
        [evPanicking (.bool p),
         evSend (chanValue .main) (noticeOf c p).value (sendResult ok (noticeOf c p).value)] := by
  cases c
  · exact drop_tie_main ks p ok nowNs inp h0 h1
  · exact drop_tie_poller ks p ok nowNs inp h0 h1
  · exact drop_tie_writer ks p ok nowNs inp h0 h1

end ClockBound.Rs.ThreadsProof
