/-
  Proof of `CodeTieThreads.drop_eq` (`Drop for Context::drop`): one evaluation per channel id (the `clone()` of
  the id is a rule on the three variants), with `panicking()` and the outcome of the send symbolic.
-/
import ClockBound.Proofs.RsThreadsBase
namespace ClockBound.Rs.ThreadsProof
open ClockBound ClockBound.Rs ClockBound.Generated ClockBound.Rs.DictThreads ClockBound.Rs.EmbedThreads
open ClockBound.Threads

/-- the notice a dying thread with id `c` sends: `ThreadPanic(c)` if it is unwinding, else `ThreadTerminate(c)` -/
def noticeOf (c : Thread) (panicking : Bool) : RMsg := if panicking = true then .panic c else .terminate c

set_option maxRecDepth 8000 in
set_option maxHeartbeats 4000000 in
theorem drop_tie (c : Thread) (ks : List Thread) (p ok : Bool) (nowNs : Int) (inp : Nat → Value)
    (h0 : inp 0 = .bool p) (h1 : inp 1 = sendResult ok (noticeOf c p).value) :
    run (Code.ctxWith nowNs DictThreads.ext [] inp) "Drop for Context::drop" (contextValue c ks) []
    = .ok .unit (contextValue c ks)
        [evPanicking (.bool p),
         evSend (chanValue .main) (noticeOf c p).value (sendResult ok (noticeOf c p).value)] := by
  cases p <;> cases ok <;> simp only [noticeOf, sendResult, RMsg.value, Bool.false_eq_true, if_false, if_true] at h1 ⊢ <;>
    cases c <;> simp [rs_eval, rs_code, contextValue, dispatchValue, allChans, h0, h1]

end ClockBound.Rs.ThreadsProof
