/-
  One turn of a loop, independently of its shape: lemmas used by `Proofs/RsPoller*.lean` and `RsDispatch*.lean`.
-/
import ClockBound.Proofs.RsLoop
import ClockBound.Rs.EmbedLoop
namespace ClockBound.Rs

rs_register_eqns findLoop
attribute [rs_eval] topSt

/-- a loop whose condition holds (and has no effect): one run of the body, then the loop again.  (Used instead of
    `evalWhile_succ` + `simp`, which would normalise the body for a symbolic state inside the continuation first.) -/
theorem evalWhile_true (n : Nat) (ctx : Ctx) (fr : Frame) (c : Expr) (body : List Stmt) (st : St)
    (h : eval n ctx fr c st = .val (.bool true) st) :
    evalWhile (n + 1) ctx fr c body st
    = ((evalBlock n ctx fr body st).popTo st.env.length).loopNext fun st'' => evalWhile n ctx fr c body st'' := by
  rw [evalWhile_succ, h]
  simp only [Res.bind_val, if_true]

/-- a loop whose condition is false (and has no effect) is over -/
theorem evalWhile_false (n : Nat) (ctx : Ctx) (fr : Frame) (c : Expr) (body : List Stmt) (st : St)
    (h : eval n ctx fr c st = .val (.bool false) st) :
    evalWhile (n + 1) ctx fr c body st = .val .unit (st.popTo st.env.length) := by
  rw [evalWhile_succ, h]
  simp only [Res.bind_val]
  rfl

theorem turnIs_ite (ctx : Ctx) (fr : Frame) (c : Expr) (body : List Stmt) (K : Nat) (r : Res) (p : Prop)
    [Decidable p] (a b : TurnSpec) :
    turnIs ctx fr c body K r (if p then a else b) ↔ if p then turnIs ctx fr c body K r a else turnIs ctx fr c body K r b := by
  split <;> rfl

theorem turnIs_panic (ctx : Ctx) (fr : Frame) (c : Expr) (body : List Stmt) (K : Nat) (r : Res) :
    turnIs ctx fr c body K r .panic ↔ r = .panic := Iff.rfl

theorem turnIs_done (ctx : Ctx) (fr : Frame) (c : Expr) (body : List Stmt) (K : Nat) (r : Res) (l : List Value) (p : Nat) :
    turnIs ctx fr c body K r (.done l p)
    ↔ ∃ st : St, r = .val .unit st ∧ st.log = l ∧ st.pos = p ∧ envGet st.env "self" = none := Iff.rfl

theorem turnIs_next (ctx : Ctx) (fr : Frame) (c : Expr) (body : List Stmt) (K : Nat) (r : Res) (st : St) :
    turnIs ctx fr c body K r (.next st) ↔ r = evalWhile (K + 1) ctx fr c body st := Iff.rfl

/-- the same turn with the panic case spelled out as a result -/
theorem turnIs_val_done (ctx : Ctx) (fr : Frame) (c : Expr) (body : List Stmt) (K : Nat) (st : St) (l : List Value)
    (p : Nat) (h1 : st.log = l) (h2 : st.pos = p) (h3 : envGet st.env "self" = none) :
    turnIs ctx fr c body K (.val .unit st) (.done l p) := ⟨st, rfl, h1, h2, h3⟩

/-- `turnIs` with the rest of the loop as an opaque function `W` (so that the proofs can abstract the loop body, which
    otherwise is repeated in every leaf of a decision tree) -/
def turnIsW (W : St → Res) (r : Res) : TurnSpec → Prop
  | .panic => r = .panic
  | .done log pos => ∃ st : St, r = .val .unit st ∧ st.log = log ∧ st.pos = pos ∧ envGet st.env "self" = none
  | .next st => r = W st

theorem turnIs_W (ctx : Ctx) (fr : Frame) (c : Expr) (body : List Stmt) (K : Nat) (r : Res) (spec : TurnSpec) :
    turnIs ctx fr c body K r spec = turnIsW (evalWhile (K + 1) ctx fr c body) r spec := by
  cases spec <;> rfl

theorem turnIsW_ite (W : St → Res) (r : Res) (p : Prop) [Decidable p] (a b : TurnSpec) :
    turnIsW W r (if p then a else b) ↔ if p then turnIsW W r a else turnIsW W r b := by
  split <;> rfl
theorem turnIsW_panic (W : St → Res) (r : Res) : turnIsW W r .panic ↔ r = .panic := Iff.rfl
theorem turnIsW_done (W : St → Res) (r : Res) (l : List Value) (p : Nat) :
    turnIsW W r (.done l p)
    ↔ ∃ st : St, r = .val .unit st ∧ st.log = l ∧ st.pos = p ∧ envGet st.env "self" = none := Iff.rfl
theorem turnIsW_next (W : St → Res) (r : Res) (st : St) : turnIsW W r (.next st) ↔ r = W st := Iff.rfl

end ClockBound.Rs
