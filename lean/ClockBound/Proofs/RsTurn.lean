/-
  One turn of a loop, independently of its shape: lemmas used by `Proofs/RsPoller*.lean` and `RsDispatch*.lean`.
-/
import ClockBound.Proofs.RsLoop
import ClockBound.Rs.EmbedLoop
namespace ClockBound.Rs

rs_register_eqns findLoop
attribute [rs_eval] topSt

/-- a loop whose condition holds (and has no effect): one run of the body, then the loop again.  (Used instead of
    `evalWhile_succ` + `simp`, which would normalise the body for a symbolic state inside the continuation first.) -/
theorem evalWhile_true (n : Nat) (ctx : Ctx) (fr : Frame) (c : Expr) (body : List Stmt) (st : St)
    (h : eval n ctx fr c st = .val (.bool true) st) :
    evalWhile (n + 1) ctx fr c body st
    = ((evalBlock n ctx fr body st).popTo st.env.length).loopNext fun st'' => evalWhile n ctx fr c body st'' := by
  rw [evalWhile_succ, h]
  simp only [Res.bind_val, if_true]

/-- a loop whose condition is false (and has no effect) is over -/
theorem evalWhile_false (n : Nat) (ctx : Ctx) (fr : Frame) (c : Expr) (body : List Stmt) (st : St)
    (h : eval n ctx fr c st = .val (.bool false) st) :
    evalWhile (n + 1) ctx fr c body st = .val .unit (st.popTo st.env.length) := by
  rw [evalWhile_succ, h]
  simp only [Res.bind_val]
  rfl

theorem turnIs_ite (ctx : Ctx) (fr : Frame) (c : Expr) (body : List Stmt) (K : Nat) (r : Res) (p : Prop)
    [Decidable p] (a b : TurnSpec) :
    turnIs ctx fr c body K r (if p then a else b) ↔ if p then turnIs ctx fr c body K r a else turnIs ctx fr c body K r b := by
  split <;> rfl

theorem turnIs_panic (ctx : Ctx) (fr : Frame) (c : Expr) (body : List Stmt) (K : Nat) (r : Res) :
    turnIs ctx fr c body K r .panic ↔ r = .panic := Iff.rfl

theorem turnIs_done (ctx : Ctx) (fr : Frame) (c : Expr) (body : List Stmt) (K : Nat) (r : Res) (l : List Value) (p : Nat) :
    turnIs ctx fr c body K r (.done l p)
    ↔ ∃ st : St, r = .val .unit st ∧ st.log = l ∧ st.pos = p ∧ envGet st.env "self" = none := Iff.rfl

theorem turnIs_next (ctx : Ctx) (fr : Frame) (c : Expr) (body : List Stmt) (K : Nat) (r : Res) (st : St) :
    turnIs ctx fr c body K r (.next st) ↔ r = evalWhile (K + 1) ctx fr c body st := Iff.rfl

/-- the same turn with the panic case spelled out as a result -/
theorem turnIs_val_done (ctx : Ctx) (fr : Frame) (c : Expr) (body : List Stmt) (K : Nat) (st : St) (l : List Value)
    (p : Nat) (h1 : st.log = l) (h2 : st.pos = p) (h3 : envGet st.env "self" = none) :
    turnIs ctx fr c body K (.val .unit st) (.done l p) := ⟨st, rfl, h1, h2, h3⟩

/-- `turnIs` with the rest of the loop as an opaque function `W` (so that the proofs can abstract the loop body, which
    otherwise is repeated in every leaf of a decision tree) -/
def turnIsW (W : St → Res) (r : Res) : TurnSpec → Prop
  | .panic => r = .panic
  | .done log pos => ∃ st : St, r = .val .unit st ∧ st.log = log ∧ st.pos = pos ∧ envGet st.env "self" = none
  | .next st => r = W st

theorem turnIs_W (ctx : Ctx) (fr : Frame) (c : Expr) (body : List Stmt) (K : Nat) (r : Res) (spec : TurnSpec) :
    turnIs ctx fr c body K r spec = turnIsW (evalWhile (K + 1) ctx fr c body) r spec := by
  cases spec <;> rfl

theorem turnIsW_ite (W : St → Res) (r : Res) (p : Prop) [Decidable p] (a b : TurnSpec) :
    turnIsW W r (if p then a else b) ↔ if p then turnIsW W r a else turnIsW W r b := by
  split <;> rfl
theorem turnIsW_panic (W : St → Res) (r : Res) : turnIsW W r .panic ↔ r = .panic := Iff.rfl
theorem turnIsW_done (W : St → Res) (r : Res) (l : List Value) (p : Nat) :
    turnIsW W r (.done l p)
    ↔ ∃ st : St, r = .val .unit st ∧ st.log = l ∧ st.pos = p ∧ envGet st.env "self" = none := Iff.rfl
theorem turnIsW_next (W : St → Res) (r : Res) (st : St) : turnIsW W r (.next st) ↔ r = W st := Iff.rfl

/-! ### `match`: evaluate the scrutinee first

  `simp [rs_eval]` normalises the continuation `fun v st => evalArms .. v st` of a `match` for a SYMBOLIC `v` before the
  scrutinee is evaluated; for a `match` with many arms that inline big functions (the message dispatch of the writer
  thread) the resulting proof does not get through (simp or the kernel).  With `↓eval_matchE_G` in the simp set there
  is no continuation: the arms are applied (`armsOn`) to the RESULT of the scrutinee, and unfold once that is a value. -/

/-- the arms of a `match` on the result of its scrutinee -/
def armsOn (n : Nat) (ctx : Ctx) (fr : Frame) (arms : List Arm) : Res → Res
  | .val v st => evalArms n ctx fr arms v st
  | .ret v st => .ret v st
  | .panic => .panic
  | .stuck m => .stuck m
  | .brk v st => .brk v st
  | .cont st => .cont st

theorem eval_matchE_G (n : Nat) (ctx : Ctx) (fr : Frame) (s : Expr) (arms : List Arm) (st : St) :
    eval (n + 1) ctx fr (.matchE s arms) st = armsOn n ctx fr arms (eval n ctx fr s st) := by
  simp only [eval]
  cases eval n ctx fr s st <;> rfl

@[rs_eval] theorem armsOn_val (n ctx fr arms v st) : armsOn n ctx fr arms (.val v st) = evalArms n ctx fr arms v st := rfl
@[rs_eval] theorem armsOn_ret (n ctx fr arms v st) : armsOn n ctx fr arms (.ret v st) = .ret v st := rfl
@[rs_eval] theorem armsOn_panic (n ctx fr arms) : armsOn n ctx fr arms .panic = .panic := rfl
@[rs_eval] theorem armsOn_stuck (n ctx fr arms m) : armsOn n ctx fr arms (.stuck m) = .stuck m := rfl
@[rs_eval] theorem armsOn_ite (n ctx fr arms) (c : Prop) [Decidable c] (a b : Res) :
    armsOn n ctx fr arms (if c then a else b) = if c then armsOn n ctx fr arms a else armsOn n ctx fr arms b := by
  split <;> rfl
@[rs_eval] theorem armsOn_orPanic {α} (n ctx fr arms) (o : Option α) (f : α → Res) :
    armsOn n ctx fr arms (orPanic o f) = orPanic o fun a => armsOn n ctx fr arms (f a) := by cases o <;> rfl

end ClockBound.Rs
