/-
  TEMPLATE: a theorem about a loop with a symbolic number of iterations.

  The toy program (what the translator emits for it is `fn_demo__sum_below` below):

      fn sum_below(n: u32) -> u64 {
          let mut i: u32 = 0;
          let mut s: u64 = 0;
          while i < n {
              s += i as u64;
              i = 1 + i;
          }
          s
      }

  Theorem `sum_below_eq`: for EVERY `n : u32` the interpreter returns `Ok`-free `sumBelow n : u64`
  (= n(n-1)/2), never panics (neither `s += ..` nor `i += 1` overflows) and never gets stuck — given
  fuel `n + 30`: one unit per iteration plus the (constant) depth of the function.

  KNOWN ISSUE (open): the increment is written `i = 1 + i`, not `i += 1`.  With `i += 1` the same proof
  script closes every goal, but the KERNEL rejects the resulting term with "deep recursion detected": while
  checking it evaluates the `Decidable` instance of the overflow test `↑i + 1 ≤ 4294967295`, and
  `Int.ofNat i + Int.ofNat 1` reduces to `Int.ofNat (Nat.succ i)`, after which `Int.decLe` recurses on the
  4294967295 in unary.  `1 + i`, `i - 1` and sums of two variables are stuck earlier and are fine.  Until this
  is understood, a loop whose counter is incremented by `x += 1` on a `Nat`-embedded value needs its state
  expressed so that the counter is not of the form `↑(k : Nat)` (e.g. over an `Int` variable).

  The recipe (copy it):
  1. name the state at the start of iteration `i` (`S i`): the local variables as values;
  2. locate condition and body of the loop BY `findWhile` in the function body (no positions);
  3. per-iteration facts, for every fuel `M + d` (`d` a literal ≥ depth of condition/body): condition
     true for `i < k`, body takes `S i` to `S (i+1)`, condition false at `S k`; each is one
     `simp [rs_eval, S, <arithmetic facts>]`;
  4. `evalWhile_count` (or `evalWhile_iterate` when the loop ends by `return`/`break`) gives the loop;
  5. the function: `simp [rs_eval, rs_code]` normalises up to the loop (the loop equations are NOT in
     `rs_eval`), rewrite with 4, `simp [rs_eval]` finishes the rest of the function.
-/
import ClockBound.Proofs.RsLoop
import Mathlib.Tactic.Ring
import Mathlib.Tactic.Linarith
set_option linter.style.nameCheck false
namespace ClockBound.Rs.LoopDemo
open ClockBound ClockBound.Rs

/-- body of `demo::sum_below`, in the translator's output format -/
@[simp, rs_code] def fn_demo__sum_below_stmts : List Stmt := [
    .letS (.bind "i") (some "u32") (some (.lit (.int 0 ""))) none,
    .letS (.bind "s") (some "u64") (some (.lit (.int 0 ""))) none,
    .expr (.whileE (.binary .lt (.path ["i"]) (.path ["n"])) [
      .expr (.assignOp .add (.path ["s"]) (.cast (.path ["i"]) "u64")) true,
      .expr (.assign (.path ["i"]) (.binary .add (.lit (.int 1 "")) (.path ["i"]))) true
    ]) false,
    .expr (.path ["s"]) false
  ]
def fn_demo__sum_below : FnDecl :=
  { name := "demo::sum_below", module := "demo", selfTy := "", trait := "", ident := "sum_below",
    self := SelfKind.none,
    params := [(.bind "n", "u32")],
    ret := "u64",
    body := fn_demo__sum_below_stmts }
@[simp, rs_code] theorem fn_demo__sum_below_ret : fn_demo__sum_below.ret = "u64" := rfl
@[simp, rs_code] theorem fn_demo__sum_below_module : fn_demo__sum_below.module = "demo" := rfl
@[simp, rs_code] theorem fn_demo__sum_below_selfTy : fn_demo__sum_below.selfTy = "" := rfl
@[simp, rs_code] theorem fn_demo__sum_below_self : fn_demo__sum_below.self = SelfKind.none := rfl
@[simp, rs_code] theorem fn_demo__sum_below_params : fn_demo__sum_below.params = [(.bind "n", "u32")] := rfl
@[simp, rs_code] theorem fn_demo__sum_below_body : fn_demo__sum_below.body = fn_demo__sum_below_stmts := rfl

@[rs_code] def fns : List (String × FnDecl) := [("demo::sum_below", fn_demo__sum_below)]

/-- no constants, structs, enums, inputs, dictionary -/
def ctx : Ctx := { fns := fns, consts := [], constTypes := [], structs := [], enums := [], nowNs := 0 }
@[simp, rs_code] theorem ctx_fns : ctx.fns = fns := rfl
@[simp, rs_code] theorem ctx_consts : ctx.consts = [] := rfl
@[simp, rs_code] theorem ctx_enums : ctx.enums = [] := rfl
@[simp, rs_code] theorem ctx_ext : ctx.ext = Ext.none := rfl

/-- the model: 0 + 1 + .. + (n-1) -/
def sumBelow : Nat → Nat
  | 0 => 0
  | i + 1 => sumBelow i + i

theorem sumBelow_closed (n : Nat) : 2 * sumBelow n = n * (n - 1) := by
  induction n with
  | zero => rfl
  | succ i ih =>
    cases i with
    | zero => rfl
    | succ j =>
      simp only [sumBelow, Nat.add_sub_cancel] at ih ⊢
      nlinarith

theorem sumBelow_le (i : Nat) : sumBelow i ≤ i * i := by
  induction i with
  | zero => simp [sumBelow]
  | succ i ih => simp only [sumBelow]; nlinarith

/-- step 1: the state at the start of iteration `i` (innermost variable first) -/
def S (n i : Nat) : St :=
  { env := [("s", .int .u64 (sumBelow i)), ("i", .int .u32 i), ("n", .int .u32 n)], log := [], pos := 0 }

def fr : Frame := ⟨"demo", "", "u64"⟩

set_option maxRecDepth 8000 in
/-- steps 2–4: the loop, for every fuel ≥ iterations + 12 -/
theorem loop_eq (n : Nat) (hn : n < 4294967296) (c : Expr) (b : List Stmt)
    (hcb : findWhile fn_demo__sum_below_stmts = some (c, b)) :
    ∀ N, n + 11 + 1 ≤ N → evalWhile N ctx fr c b (S n 0) = .val .unit (S n n) := by
  simp [rs_eval] at hcb
  obtain ⟨rfl, rfl⟩ := hcb
  apply evalWhile_count (S n) 11 n
  · -- the condition holds while i < n
    intro i hi N hN
    obtain ⟨M, rfl⟩ := Nat.exists_eq_add_of_le' hN
    simp [rs_eval, S, fr, hi]
  · -- the body takes S i to S (i+1); its two additions do not overflow
    intro i hi N hN next
    obtain ⟨M, rfl⟩ := Nat.exists_eq_add_of_le' hN
    have h1 : (sumBelow i : Int) + i ≤ 18446744073709551615 := by
      have := sumBelow_le i
      have : i * i ≤ 4294967295 * 4294967295 := Nat.mul_le_mul (by omega) (by omega)
      omega
    have h2 : 1 + (i : Int) ≤ 4294967295 := by omega
    have h3 : (0 : Int) ≤ (sumBelow i : Int) + i := by omega
    have h4 : (0 : Int) ≤ 1 + (i : Int) := by omega
    -- `i as u64` does not wrap
    have h5 : (i : Int) % 18446744073709551616 = i := by omega
    have h6 : ((i + 1 : Nat) : Int) = 1 + (i : Int) := by omega
    simp [rs_eval, chkInt, S, fr, h1, h2, h3, h4, h5, h6, sumBelow]
  · -- and it fails at i = n
    intro N hN
    obtain ⟨M, rfl⟩ := Nat.exists_eq_add_of_le' hN
    simp [rs_eval, S, fr]

set_option maxRecDepth 8000 in
/-- step 5: the function, for ALL `n : u32`, given fuel `n + 30` or more (`F` counts the spare fuel) -/
theorem sum_below_eq (n : Nat) (hn : n < 4294967296) (F : Nat) (hF : n ≤ F) :
    runFuel (F + 30) ctx "demo::sum_below" .unit [.int .u32 n] = .ok (.int .u64 (sumBelow n)) .unit [] := by
  have hloop := loop_eq n hn _ _ rfl
  have h0 : ((0 : Nat) : Int) = 0 := rfl
  simp only [S, sumBelow, fr, h0] at hloop
  simp [rs_eval, rs_code]
  rw [hloop _ (by omega)]
  simp [rs_eval]

/-- ... in particular with the closed form -/
theorem sum_below_closed (n : Nat) (hn : n < 4294967296) :
    ∃ v : Nat, 2 * v = n * (n - 1) ∧
      runFuel (n + 30) ctx "demo::sum_below" .unit [.int .u32 n] = .ok (.int .u64 v) .unit [] :=
  ⟨sumBelow n, sumBelow_closed n, sum_below_eq n hn n (Nat.le_refl n)⟩

end ClockBound.Rs.LoopDemo
