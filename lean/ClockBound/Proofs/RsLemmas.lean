/-
  Bridging lemmas between the interpreter's dictionary and the model primitives.
-/
import ClockBound.Proofs.RsEval
import ClockBound.Proofs.F64
import ClockBound.Rs.Embed
namespace ClockBound.Rs
open ClockBound

/-- an integer-valued float literal below 2^53 denotes exactly that integer -/
theorem f64OfDecimal_nat (m : Nat) (h : m ≤ 9007199254740992) : f64OfDecimal m 0 = (m : ℚ) := by
  unfold f64OfDecimal
  have : F64.rne53 ((m : Int) : ℚ) = ((m : Int) : ℚ) := by
    apply F64.rne53_int
    rw [abs_of_nonneg (by positivity)]
    exact_mod_cast h
  simpa using this

attribute [rs_eval] f64OfDecimal_nat

example : f64OfDecimal 1000000000 0 = 1000000000 := by simp [rs_eval]
example : f64OfDecimal 2 0 = 2 := by simp [rs_eval]
example : ¬ (f64OfDecimal 8 0 = 0) := by simp [rs_eval]

/-- `f64 as u64` is never negative (`Duration::from_secs` takes a u64) -/
@[rs_eval] theorem castU64_nonneg (a : ℚ) : 0 ≤ F64.castU64 a := by
  unfold F64.castU64 F64.U64_MAX
  simp only
  split
  · norm_num
  · split
    · exact le_refl _
    · omega

/-- comparisons of an embedded `u16`/`u32` (a `Nat` in the model) with a literal, back in `Nat` -/
@[rs_eval] theorem natCast_eq_ofNat (a n : Nat) [n.AtLeastTwo] :
    ((a : Int) = (no_index (OfNat.ofNat n) : Int)) ↔ a = (OfNat.ofNat n : Nat) := by
  have : (OfNat.ofNat n : Int) = ((OfNat.ofNat n : Nat) : Int) := by simp
  rw [this]
  exact Int.ofNat_inj

end ClockBound.Rs
