/-
  The poller's loop (`chrony_poller::run_clock_error_bound_poller`) for every fuel, caller state and `impl
  ChronyOperations` value, on `callDecl` (so that the proof for the entry function `chrony_poller::run` rewrites
  with it).  Method: prefix by `simp`; `evalWhile_skip` over the `k` trips that do not end the loop, each in two
  stages (`stageA`: the poll half, by cases on what it observed; then the mailbox check, by cases on what
  `recv_timeout` returned, with the poll half symbolic); the last trip the same way.
-/
import ClockBound.Proofs.RsWorkersBase
namespace ClockBound.Rs.ThreadsProof
open ClockBound ClockBound.Rs ClockBound.Generated ClockBound.Rs.DictThreads ClockBound.Rs.EmbedThreads
open ClockBound.Rs.EmbedWorkers ClockBound.Threads

/-- the two methods of `impl ChronyOperations for ClockErrorBoundPoller`: operations of the environment for this
    group (the chrony query and the grace-period clock are group `Poller`'s: `CodeTiePoller`) -/
def abstractedP : List String :=
  ["ChronyOperations for ClockErrorBoundPoller::get_tracking",
   "ChronyOperations for ClockErrorBoundPoller::is_within_grace_period"]

def pollerFns : List (String × FnDecl) := Code.fns.filter fun p => !abstractedP.contains p.1

/-- the generated context with the dictionary `DictThreads.ext`, minus the two `ChronyOperations` methods of
    `ClockErrorBoundPoller` (with them in the table the core resolves `poller.get_tracking()` on a
    `ClockErrorBoundPoller` to the translated impl; here `poller` is any `impl ChronyOperations`) -/
def pollerCtx (nowNs : Int) (inp : Nat → Value) : Ctx :=
  { Code.ctxWith nowNs DictThreads.ext [] inp with fns := pollerFns }

@[rs_eval] theorem pollerCtx_fns (n i) : (pollerCtx n i).fns = pollerFns := rfl
@[rs_eval] theorem pollerCtx_consts (n i) : (pollerCtx n i).consts = Code.consts := rfl
@[rs_eval] theorem pollerCtx_constTypes (n i) : (pollerCtx n i).constTypes = Code.constTypes := rfl
@[rs_eval] theorem pollerCtx_structs (n i) : (pollerCtx n i).structs = Code.structs := rfl
@[rs_eval] theorem pollerCtx_enums (n i) : (pollerCtx n i).enums = Code.enums := rfl
@[rs_eval] theorem pollerCtx_nowNs (n i) : (pollerCtx n i).nowNs = n := rfl
@[rs_eval] theorem pollerCtx_enumDiscr (n i) : (pollerCtx n i).enumDiscr = Code.enumDiscr := rfl
@[rs_eval] theorem pollerCtx_sizes (n i) : (pollerCtx n i).sizes = [] := rfl
@[rs_eval] theorem pollerCtx_inp (n i) : (pollerCtx n i).inp = i := rfl
@[rs_eval] theorem pollerCtx_ext (n i) : (pollerCtx n i).ext = DictThreads.ext := rfl

@[rs_eval] theorem pollerFns_lookup (k : String) :
    pollerFns.lookup k = if abstractedP.contains k then none else Code.fns.lookup k :=
  lookup_filter_keys abstractedP Code.fns k

@[rs_eval] theorem pollerFns_cands_tracking :
    traitImplCands pollerFns "ClockErrorBoundPoller" "get_tracking" = [] := by
  simp [pollerFns, abstractedP, rs_code, rs_eval]

@[rs_eval] theorem pollerFns_cands_grace :
    traitImplCands pollerFns "ClockErrorBoundPoller" "is_within_grace_period" = [] := by
  simp [pollerFns, abstractedP, rs_code, rs_eval]

/-- how the loop function ends: it returns `()` to its caller (whose environment `env` comes back), or it panics -/
def loopResult (e : PEnd) (env : List (String × Value)) (log : List Value) (pos : Nat) : Res :=
  match e with
  | .abort _ => .val (.tuple [.unit, .unit]) ⟨env, log, pos⟩
  | .sendFailed _ => .panic

/-- the poll half, every variant: the facts `simp` needs about the inputs it reads -/
macro "poll_half" poll:ident phc:ident hp:ident hm:ident : tactic => `(tactic| (
  cases $poll:ident with
  | clockErr e =>
    simp only [Poll.inputs, inputsAt] at $hp:ident
    simp [rs_eval, rs_code, abstractedP, ($hp:ident).1, Poll.events, Poll.inputs, clockId, ctimespecValue]
  | data a t =>
    simp only [Poll.inputs, inputsAt] at $hp:ident
    obtain ⟨h1, h2, h3, _⟩ := $hp:ident
    simp only [Nat.add_assoc, Nat.reduceAdd] at h1 h2 h3
    rcases $phc:ident with _ | ⟨r, q⟩
    · simp [rs_eval, rs_code, abstractedP, h1, h2, h3, Poll.events, Poll.inputs, Poll.msg, clockId, ctimespecValue, phcValue, trackingValue,
        sendResult, Nat.add_assoc]
    · have hne : t.refid ≠ r := $hm:ident r q rfl
      have hne' : ¬ ((r : Int) = (t.refid : Int)) := fun h => hne (Int.ofNat_inj.mp h).symm
      simp [rs_eval, rs_code, abstractedP, h1, h2, h3, Poll.events, Poll.inputs, Poll.msg, clockId, ctimespecValue, phcValue, trackingValue,
        sendResult, Nat.add_assoc, hne']
  | noReply a g =>
    simp only [Poll.inputs, inputsAt] at $hp:ident
    obtain ⟨h1, h2, h3, h4, _⟩ := $hp:ident
    simp only [Nat.add_assoc, Nat.reduceAdd] at h1 h2 h3 h4
    cases g <;>
      simp [rs_eval, rs_code, abstractedP, h1, h2, h3, h4, Poll.events, Poll.inputs, Poll.msg, clockId, ctimespecValue, sendResult,
        Nat.add_assoc] at h4 ⊢ <;> simp [rs_eval, h4]))

/-- the poll half when the send to the writer fails: it panics -/
macro "poll_half_fail" poll:ident phc:ident hp:ident hm:ident hs:ident : tactic => `(tactic| (
  cases $poll:ident with
  | clockErr e => simp [Poll.sends] at $hs:ident
  | data a t =>
    simp only [Poll.inputs, inputsAt] at $hp:ident
    obtain ⟨h1, h2, h3, _⟩ := $hp:ident
    simp only [Nat.add_assoc, Nat.reduceAdd] at h1 h2 h3
    rcases $phc:ident with _ | ⟨r, q⟩
    · simp [rs_eval, rs_code, abstractedP, h1, h2, h3, Poll.msg, phcValue, trackingValue, ctimespecValue, sendResult, Nat.add_assoc]
    · have hne : t.refid ≠ r := $hm:ident r q rfl
      have hne' : ¬ ((r : Int) = (t.refid : Int)) := fun h => hne (Int.ofNat_inj.mp h).symm
      simp [rs_eval, rs_code, abstractedP, h1, h2, h3, Poll.msg, phcValue, trackingValue, ctimespecValue, sendResult, Nat.add_assoc, hne']
  | noReply a g =>
    simp only [Poll.inputs, inputsAt] at $hp:ident
    obtain ⟨h1, h2, h3, h4, _⟩ := $hp:ident
    simp only [Nat.add_assoc, Nat.reduceAdd] at h1 h2 h3 h4
    cases g <;> simp [rs_eval, rs_code, abstractedP, h1, h2, h3, h4, Poll.msg, ctimespecValue, sendResult, Nat.add_assoc] at h4 ⊢ <;>
      try simp [rs_eval, h4]))

set_option maxRecDepth 8000 in
set_option maxHeartbeats 8000000 in
theorem poller_loop_tie (ks : List Thread) (fs : List (String × Value)) (phc : Option (Nat × Value)) (d : Int)
    (k F : Nat) (it : Nat → PIter) (hcont : ∀ i, i < k → (it i).wait.continues = true)
    (hmiss : ∀ i, i < k → (it i).poll.phcMiss phc) (e : PEnd) (hmissE : e.poll.phcMiss phc)
    (hsend : ∀ p, e = .sendFailed p → p.sends = true)
    (nowNs : Int) (inp : Nat → Value) (env : List (String × Value)) (log : List Value) (pos : Nat)
    (hin : inputsAt inp pos (loopInputs k it e)) :
    callDecl (F + k + 100) (pollerCtx nowNs inp)
      Code.fn_chrony_poller__run_clock_error_bound_poller .unit
      [contextValue .poller ks, .struct "ClockErrorBoundPoller" fs, phcValue phc, .duration d] ⟨env, log, pos⟩
    = loopResult e env (log ++ loopEvents d k it e) (pos + (inputsBefore it k + e.inputs.length)) := by
  obtain ⟨hits, hend⟩ := inputsAt_chunks inp pos (fun i => (it i).inputs) (inputsBefore it) rfl (fun i => rfl) k
    e.inputs hin
  simp [rs_eval, rs_code, abstractedP, contextValue, dispatchValue, allChans]
  rw [Nat.add_right_comm F k]
  rw [evalWhile_skip (d := 60) (k := k) (P := inputsBefore it) (E := eventsBefore d it)]
  case hE => rfl
  case hP => rfl
  case hc =>
    intro i hi N hN
    obtain ⟨M, rfl⟩ := Nat.exists_eq_add_of_le' hN
    simp [rs_eval]
  case hb =>
    intro i hi N hN next
    obtain ⟨M, rfl⟩ := Nat.exists_eq_add_of_le' hN
    have hii := hits i hi
    have hm := hmiss i hi
    have hco := hcont i hi
    simp only [PIter.inputs, inputsAt_append, inputsAt, and_true] at hii
    obtain ⟨hp, hw⟩ := hii
    generalize hpoll : (it i).poll = poll at hp hw hm
    rw [stageA (n := M + 59) (v := .unit) (evs1 := poll.events true) (c1 := (poll.inputs true).length)]
    case hA => poll_half poll phc hp hm
    cases hwt : (it i).wait with
    | ok m =>
      have hna : m.isAbort = false := by simpa [hwt, RecvT.continues] using hco
      obtain ⟨name, args, hv, hne⟩ := value_nonAbort m hna
      simp only [hwt, RecvT.value, hv] at hw
      simp [rs_eval, rs_code, abstractedP, hw, hne]
      simp [eventsBefore, inputsBefore, PIter.events, PIter.inputs, chanValue, hpoll, hwt, RecvT.value, hv, Nat.add_assoc]
    | timeout =>
      simp only [hwt, RecvT.value] at hw
      simp [rs_eval, rs_code, abstractedP, hw]
      simp [eventsBefore, inputsBefore, PIter.events, PIter.inputs, chanValue, hpoll, hwt, RecvT.value, Nat.add_assoc]
    | disconnected =>
      simp only [hwt, RecvT.value] at hw
      simp [rs_eval, rs_code, abstractedP, hw]
      simp [eventsBefore, inputsBefore, PIter.events, PIter.inputs, chanValue, hpoll, hwt, RecvT.value, Nat.add_assoc]
  case a => omega
  rw [evalWhile_step]
  case hc => simp [rs_eval]
  cases e with
  | abort poll =>
    simp only [PEnd.inputs, inputsAt_append, inputsAt, and_true] at hend
    obtain ⟨hp, hw⟩ := hend
    have hm : poll.phcMiss phc := hmissE
    rw [stageA (v := .unit) (evs1 := poll.events true) (c1 := (poll.inputs true).length)]
    case hA => poll_half poll phc hp hm
    simp only [RecvT.value, RMsg.value] at hw
    simp [rs_eval, rs_code, abstractedP, hw]
    -- a flag-controlled `while` goes round once more and finds its condition false; a `loop` has left by `break`
    try rw [evalWhile_succ]
    simp [rs_eval, loopResult, loopEvents, PEnd.events, PEnd.inputs, RecvT.value, RMsg.value, chanValue, Nat.add_assoc]
  | sendFailed poll =>
    have hs : poll.sends = true := hsend poll rfl
    simp only [PEnd.inputs] at hend
    have hm : poll.phcMiss phc := hmissE
    rw [stageA_panic]
    case hA => poll_half_fail poll phc hend hm hs
    simp [rs_eval, loopResult]

end ClockBound.Rs.ThreadsProof
