/-
  `ShmWriter::new` on every prior state of the path: the callee lemmas instantiated on the answers
  `EmbedShm.newAnswers`, and the state-changing operations compared with `Crash.newOps`.
-/
import ClockBound.Proofs.RsWriterNew
import ClockBound.Proofs.RsUsable
import ClockBound.Proofs.RsUsableBad
import ClockBound.Proofs.RsUsableOk
namespace ClockBound.Rs.WriterNewProof
open ClockBound ClockBound.Rs ClockBound.Generated ClockBound.Rs.DictShm ClockBound.Rs.EmbedShm

theorem streamOf_skip (A B : List Value) (k : Nat) (hk : A.length = k) (i : Nat) :
    streamOf (A ++ B) (k + i) = streamOf B i := by
  subst hk
  simp [streamOf, List.getD_eq_getElem?_getD, List.getElem?_append_right]

theorem streamOf_left (A B : List Value) (i : Nat) (hi : i < A.length) : streamOf (A ++ B) i = streamOf A i := by
  simp [streamOf, List.getD_eq_getElem?_getD, List.getElem?_append_left hi]

/-- the usable files: 16 bytes or more, a header `is_valid` accepts, a declared size of 72 or more -/
theorem usable_file (bs : Bytes) :
    (Crash.fileAOf (.file bs)).usable = true ↔
      16 ≤ bs.length ∧ checkHeader (parseHeader bs) = .ok (parseHeader bs) ∧ 72 ≤ (parseHeader bs).segsize := by
  constructor
  · intro hu
    simp [Crash.fileAOf, Crash.FileA.usable] at hu
    obtain ⟨⟨⟨⟨⟨h16, hm0⟩, hm1⟩, hv⟩, hg⟩, h72⟩ := hu
    refine ⟨h16, ?_, h72⟩
    have hz : ¬ ((parseHeader bs).segsize < HEADER_SIZE) := by unfold HEADER_SIZE; omega
    unfold checkHeader
    simp [hm0, hm1, hv, hg, hz]
  · rintro ⟨h16, hc, h72⟩
    obtain ⟨-, hm, hv, hg, -⟩ := checkHeader_ok _ _ hc
    simp [Crash.fileAOf, Crash.FileA.usable, h16, hm.1, hm.2, hv, hg, h72]

/-- the events of `ShmReader::new` change nothing -/
theorem filter_openEvents2 (fd : Nat) (ret : Int) : (openEvents2 fd ret).filter isMutEv = [] := by
  simp [openEvents2, evSys, isMutEv]
theorem filter_openEvents (fd : Nat) (ret : Int) (h : Header) : (openEvents fd ret h).filter isMutEv = [] := by
  unfold openEvents
  rw [List.filter_append, filter_openEvents2]
  split
  · rfl
  · split <;> simp [evSys, isMutEv]

theorem streamOf_mid (A W M : List Value) (k : Nat) (hk : A.length = k) (i : Nat) (hi : i < W.length) :
    streamOf (A ++ (W ++ M)) (k + i) = W.getD i .unit := by
  rw [streamOf_skip A _ k hk, streamOf_left W M i hi]; rfl

theorem streamOf_after (A W M : List Value) (k : Nat) (hk : A.length = k) (j : Nat) :
    streamOf (A ++ (W ++ M)) (k + W.length + j) = streamOf M j := by
  rw [Nat.add_assoc, streamOf_skip A _ k hk, streamOf_skip W M _ rfl]

theorem readRet_full (bs : Bytes) (h : 16 ≤ bs.length) : readRet bs = 16 := by
  unfold readRet HEADER_SIZE; omega

/-- the mutating events of the three paths -/
theorem filter_wipeEvents (o : SL.Ord) (path parent : Value) (b : Bool) :
    (wipeEvents path parent b).filter isMutEv
    = ((if b then [Crash.Op.createDirAll] else []) ++
        [Crash.Op.create, Crash.Op.writeU32 .wipeMagic0 MAGIC0, Crash.Op.writeU32 .wipeMagic1 MAGIC1,
         Crash.Op.writeU32 .wipeSegsize SEGMENT_SIZE, Crash.Op.writeU16 .wipeVersion 0, Crash.Op.writeU16 .wipeGeneration 0,
         Crash.Op.writeAll (SEGMENT_SIZE - HEADER_SIZE), Crash.Op.syncAll]).map
        (opValue o path parent) := by
  cases b <;> simp [wipeEvents, evFs, isMutEv, opValue, okUnit, fileObj, MAGIC0, MAGIC1, SEGMENT_SIZE, HEADER_SIZE]

theorem filter_mapEvents (path : Value) (fd : Nat) : (mapEvents path fd).filter isMutEv = [] := by
  simp [mapEvents, evFs, isMutEv]

theorem filter_versionStore (ov : Value) : [versionStore ov].filter isMutEv = [versionStore ov] := by
  simp [versionStore, evStore, isMutEv]

/-- the unusable paths, from the outcome of `is_usable_segment` -/
theorem new_unusable_ops (st : FileState) (hu : (Crash.fileAOf st).usable = false) (parent : String) (fd : Nat)
    (A : List Value) (k : Nat) (hk : A.length = k) (hA : openUsed fd st = A) (e : Value) (evs : List Value)
    (hevs : evs.filter isMutEv = [])
    (husable : ∀ N env lg, callKnown (N + 120) (nctx (streamOf (newAnswers fd (parent != "") st)))
        Code.fn_ShmWriter__is_usable_segment [.ext "Path" [.str "shm", .str parent]] { env := env, log := lg, pos := 0 }
      = .val (.enumv "Err" [e]) { env := env, log := lg ++ evs, pos := k }) :
    ∃ o : SL.Ord,
    (run (nctx (streamOf (newAnswers fd (parent != "") st))) "ShmWriter::new" .unit [pathObj "shm" parent]).okWith isMutEv
    = some (writerValue SEGMENT_SIZE,
        (Crash.newOps (Crash.fileAOf st) (parent != "")).map (opValue o (pathObj "shm" parent) (pathObj parent ""))) := by
  have hN : newAnswers fd (parent != "") st
      = A ++ (wipeAnswers (parent != "") ++ [.enumv "Ok" [.int .i32 fd], .enumv "Ok" [.enumv "addr:segment" []]]) := by
    simp [newAnswers, hu, hA, DictShm.addr]
  rw [hN] at husable ⊢
  have := new_unusable _ parent (parent != "") rfl fd e evs k husable
    (fun i hi => streamOf_mid A _ _ k hk i hi)
    (by have := streamOf_after A (wipeAnswers (parent != "")) [.enumv "Ok" [.int .i32 fd], .enumv "Ok" [.enumv "addr:segment" []]] k hk 0
        simpa [streamOf] using this)
    (by have := streamOf_after A (wipeAnswers (parent != "")) [.enumv "Ok" [.int .i32 fd], .enumv "Ok" [.enumv "addr:segment" []]] k hk 1
        simpa [streamOf] using this)
  obtain ⟨hrun, hord⟩ := this
  obtain ⟨o, ho⟩ := Option.isSome_iff_exists.mp hord
  rw [ordValue_ordOfValue _ _ ho] at hrun
  refine ⟨o, ?_⟩
  simp only [pathObj]
  rw [hrun]
  simp only [Outcome.okWith, List.filter_append, hevs, filter_wipeEvents o, filter_mapEvents, filter_versionStore,
    List.nil_append, List.append_nil, Crash.newOps, hu, SEGMENT_SIZE]
  simp [versionStore, opValue, SEGMENT_SIZE, HEADER_SIZE]

/-- the usable paths -/
theorem new_usable_ops (bs : Bytes) (hu : (Crash.fileAOf (.file bs)).usable = true) (hh : (parseHeader bs).inRange)
    (parent : String) (fd : Nat) (hfd : fd ≤ 2147483647) :
    ∃ o : SL.Ord,
    (run (nctx (streamOf (newAnswers fd (parent != "") (.file bs)))) "ShmWriter::new" .unit [pathObj "shm" parent]).okWith isMutEv
    = some (writerValue SEGMENT_SIZE,
        (Crash.newOps (Crash.fileAOf (.file bs)) (parent != "")).map (opValue o (pathObj "shm" parent) (pathObj parent ""))) := by
  obtain ⟨h16, hc, h72⟩ := (usable_file bs).mp hu
  have hret := readRet_full bs h16
  have hlen : (Crash.fileAOf (.file bs)).len = bs.length := rfl
  have hA : openUsed fd (.file bs)
      = [.int .infer fd, .int .infer 16, headerValue (parseHeader bs), .enumv "addr:segment" []] := by
    have : ¬ bs.length < HEADER_SIZE := by unfold HEADER_SIZE; omega
    simp [openUsed, hret, this, hc, DictShm.addr]
  have h72' : ¬ (parseHeader bs).segsize < 72 := by omega
  by_cases hl : bs.length < SEGMENT_SIZE
  · have hN : newAnswers fd (parent != "") (.file bs)
        = [.int .infer fd, .int .infer 16, headerValue (parseHeader bs), .enumv "addr:segment" [],
           .enumv "Ok" [.ext "Metadata" [.int .u64 bs.length]], .enumv "Ok" [.ext "File" []], .enumv "Ok" [.tuple []],
           .enumv "Ok" [.int .i32 fd], .enumv "Ok" [.enumv "addr:segment" []]] := by
      simp [newAnswers, hu, hA, hlen, hl, DictShm.addr, fileObj, okUnit]
    obtain ⟨L, hL⟩ : ∃ L, L = newAnswers fd (parent != "") (.file bs) := ⟨_, rfl⟩
    rw [← hL]
    rw [hN] at hL
    have hus : ∀ N env lg, callKnown (N + 120) (nctx (streamOf L)) Code.fn_ShmWriter__is_usable_segment
          [.ext "Path" [.str "shm", .str parent]] { env := env, log := lg, pos := 0 }
        = .val (.enumv "Ok" [.tuple []]) { env := env, log := lg ++ openEvents fd 16 (parseHeader bs), pos := 4 } := by
      intro N env lg
      rw [callKnown, usable_call_ok _ parent fd hfd (parseHeader bs) hh hc N env lg 0 (by simp [streamOf, hL])
        (by simp [streamOf, hL]) (by simp [streamOf, hL]) (by simp [streamOf, hL])]
      simp [Res.bind, h72']
    have := new_usable_short _ parent fd bs.length (by unfold SEGMENT_SIZE at hl; exact hl) _ 4 hus (by simp [streamOf, hL])
      (by simp [streamOf, hL]) (by simp [streamOf, hL]) (by simp [streamOf, hL]) (by simp [streamOf, hL])
    obtain ⟨hrun, hord⟩ := this
    obtain ⟨o, ho⟩ := Option.isSome_iff_exists.mp hord
    rw [ordValue_ordOfValue _ _ ho] at hrun
    refine ⟨o, ?_⟩
    simp only [pathObj]
    rw [hrun]
    simp only [Outcome.okWith, List.filter_append, filter_openEvents, filter_mapEvents, filter_versionStore,
      List.nil_append, List.append_nil, Crash.newOps, hu, hlen, hl]
    simp [versionStore, opValue, SEGMENT_SIZE, evFs, isMutEv, okUnit]
  · have hN : newAnswers fd (parent != "") (.file bs)
        = [.int .infer fd, .int .infer 16, headerValue (parseHeader bs), .enumv "addr:segment" [],
           .enumv "Ok" [.ext "Metadata" [.int .u64 bs.length]],
           .enumv "Ok" [.int .i32 fd], .enumv "Ok" [.enumv "addr:segment" []]] := by
      simp [newAnswers, hu, hA, hlen, hl, DictShm.addr]
    obtain ⟨L, hL⟩ : ∃ L, L = newAnswers fd (parent != "") (.file bs) := ⟨_, rfl⟩
    rw [← hL]
    rw [hN] at hL
    have hus : ∀ N env lg, callKnown (N + 120) (nctx (streamOf L)) Code.fn_ShmWriter__is_usable_segment
          [.ext "Path" [.str "shm", .str parent]] { env := env, log := lg, pos := 0 }
        = .val (.enumv "Ok" [.tuple []]) { env := env, log := lg ++ openEvents fd 16 (parseHeader bs), pos := 4 } := by
      intro N env lg
      rw [callKnown, usable_call_ok _ parent fd hfd (parseHeader bs) hh hc N env lg 0 (by simp [streamOf, hL])
        (by simp [streamOf, hL]) (by simp [streamOf, hL]) (by simp [streamOf, hL])]
      simp [Res.bind, h72']
    have := new_usable_long _ parent fd bs.length (by unfold SEGMENT_SIZE at hl; omega) _ 4 hus (by simp [streamOf, hL])
      (by simp [streamOf, hL]) (by simp [streamOf, hL])
    obtain ⟨hrun, hord⟩ := this
    obtain ⟨o, ho⟩ := Option.isSome_iff_exists.mp hord
    rw [ordValue_ordOfValue _ _ ho] at hrun
    refine ⟨o, ?_⟩
    simp only [pathObj]
    rw [hrun]
    simp only [Outcome.okWith, List.filter_append, filter_openEvents, filter_mapEvents, filter_versionStore,
      List.nil_append, List.append_nil, Crash.newOps, hu, hlen, hl]
    simp [versionStore, opValue, SEGMENT_SIZE, evFs, isMutEv]

/-- `ShmWriter::new` on every prior state of the path (not a directory): the state-changing operations are
    `Crash.newOps`, the result is the writer over the mapping -/
theorem new_tie (st : FileState) (hdir : st ≠ .directory) (hst : ∀ bs, st = .file bs → (parseHeader bs).inRange)
    (parent : String) (fd : Nat) (hfd : fd ≤ 2147483647) :
    ∃ o : SL.Ord,
    (run (nctx (streamOf (newAnswers fd (parent != "") st))) "ShmWriter::new" .unit [pathObj "shm" parent]).okWith isMutEv
    = some (writerValue SEGMENT_SIZE,
        (Crash.newOps (Crash.fileAOf st) (parent != "")).map (opValue o (pathObj "shm" parent) (pathObj parent ""))) := by
  cases st with
  | directory => exact absurd rfl hdir
  | missing =>
    refine new_unusable_ops .missing (by simp [Crash.fileAOf, Crash.FileA.usable]) parent fd
      [.int .infer (-1), .int .infer ENOENT] 2 rfl (by simp [openUsed]) (shmErrValue (.sys ENOENT .open_))
      [evSys "open" [.ext "ptr:c_char" [.str "path"], .ext "libc" [.str "O_RDONLY"]] (.int .i32 (-1)),
       evSys "errno" [] (.int .i32 2)] ?_ ?_
    · simp [evSys, isMutEv]
    · intro N env lg
      rw [callKnown, usable_call_missing _ parent N env lg 0 (by simp [streamOf, newAnswers, openUsed])
        (by simp [streamOf, newAnswers, openUsed, ENOENT])]
      simp [Res.bind]
  | file bs =>
    have hh := hst bs rfl
    by_cases hu : (Crash.fileAOf (.file bs)).usable = true
    · exact new_usable_ops bs hu hh parent fd hfd
    · have hu' : (Crash.fileAOf (.file bs)).usable = false := by simpa using hu
      have hnot := mt (usable_file bs).mpr hu
      by_cases h16 : bs.length < 16
      · -- shorter than a header
        have hr0 : (0 : Int) ≤ readRet bs := by unfold readRet; omega
        have hr1 : readRet bs < 16 := by unfold readRet HEADER_SIZE; omega
        have hA : openUsed fd (.file bs) = [.int .infer fd, .int .infer (readRet bs)] := by
          simp [openUsed, HEADER_SIZE, h16]
        refine new_unusable_ops (.file bs) hu' parent fd _ 2 rfl hA (shmErrValue .notInit) (openEvents2 fd (readRet bs))
          (filter_openEvents2 fd (readRet bs)) ?_
        intro N env lg
        rw [callKnown, usable_call_short _ parent fd hfd (readRet bs) hr0 hr1 N env lg 0
          (by simp [streamOf, newAnswers, hA]) (by simp [streamOf, newAnswers, hA])]
        simp [Res.bind]
      · have h16' : 16 ≤ bs.length := by omega
        have hret := readRet_full bs h16'
        have hlt : ¬ bs.length < HEADER_SIZE := by unfold HEADER_SIZE; omega
        rcases hc : checkHeader (parseHeader bs) with e | h'
        · -- a header `is_valid` refuses
          have hA : openUsed fd (.file bs) = [.int .infer fd, .int .infer 16, headerValue (parseHeader bs)] := by
            simp [openUsed, hret, hlt, hc]
          refine new_unusable_ops (.file bs) hu' parent fd _ 3 rfl hA (shmErrValue e) (openEvents2 fd 16)
            (filter_openEvents2 fd 16) ?_
          intro N env lg
          rw [callKnown, usable_call_bad _ parent fd hfd (parseHeader bs) hh e hc N env lg 0
            (by simp [streamOf, newAnswers, hA]) (by simp [streamOf, newAnswers, hA]) (by simp [streamOf, newAnswers, hA])]
          simp [Res.bind]
        · -- a valid header that declares fewer than 72 bytes
          obtain ⟨rfl, -⟩ := checkHeader_ok _ _ hc
          have hsz : (parseHeader bs).segsize < 72 := by
            by_contra hge
            exact hnot ⟨h16', hc, by omega⟩
          have hA : openUsed fd (.file bs)
              = [.int .infer fd, .int .infer 16, headerValue (parseHeader bs), .enumv "addr:segment" []] := by
            simp [openUsed, hret, hlt, hc, DictShm.addr]
          refine new_unusable_ops (.file bs) hu' parent fd _ 4 rfl hA (shmErrValue .malformed)
            (openEvents fd 16 (parseHeader bs)) (filter_openEvents fd 16 _) ?_
          intro N env lg
          rw [callKnown, usable_call_ok _ parent fd hfd (parseHeader bs) hh hc N env lg 0
            (by simp [streamOf, newAnswers, hA]) (by simp [streamOf, newAnswers, hA]) (by simp [streamOf, newAnswers, hA])
            (by simp [streamOf, newAnswers, hA])]
          simp [Res.bind, hsz]

end ClockBound.Rs.WriterNewProof
