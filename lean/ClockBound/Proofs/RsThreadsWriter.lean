/-
  The writer's loop (`shm_writer::process_messages`) for every updater state, fuel and caller state, on `callDecl`,
  in the context `writerCtx`: the generated tables with `ShmWriter::new` and the two `ShmUpdater::process_*` methods
  taken OUT of the function table, so that they are abstract operations of the dictionary (tied elsewhere:
  `CodeTieUpdater`; the segment creation is group `Shm`'s).  Everything else is the regenerated code.
-/
import ClockBound.Proofs.RsWorkersBase
namespace ClockBound.Rs.ThreadsProof
open ClockBound ClockBound.Rs ClockBound.Generated ClockBound.Rs.DictThreads ClockBound.Rs.EmbedThreads
open ClockBound.Rs.EmbedWorkers ClockBound.Threads

/-- the functions the writer theorems treat as operations of the environment -/
def abstracted : List String :=
  ["ShmWriter::new", "ShmUpdater::process_clock_update", "ShmUpdater::process_missing_clock_update"]

def writerFns : List (String × FnDecl) := Code.fns.filter fun p => !abstracted.contains p.1

/-- the generated context with the dictionary `DictThreads.ext`, minus the abstracted functions -/
def writerCtx (nowNs : Int) (inp : Nat → Value) : Ctx :=
  { Code.ctxWith nowNs DictThreads.ext [] inp with fns := writerFns }

@[rs_eval] theorem writerCtx_fns (n i) : (writerCtx n i).fns = writerFns := rfl
@[rs_eval] theorem writerCtx_consts (n i) : (writerCtx n i).consts = Code.consts := rfl
@[rs_eval] theorem writerCtx_constTypes (n i) : (writerCtx n i).constTypes = Code.constTypes := rfl
@[rs_eval] theorem writerCtx_structs (n i) : (writerCtx n i).structs = Code.structs := rfl
@[rs_eval] theorem writerCtx_enums (n i) : (writerCtx n i).enums = Code.enums := rfl
@[rs_eval] theorem writerCtx_nowNs (n i) : (writerCtx n i).nowNs = n := rfl
@[rs_eval] theorem writerCtx_enumDiscr (n i) : (writerCtx n i).enumDiscr = Code.enumDiscr := rfl
@[rs_eval] theorem writerCtx_sizes (n i) : (writerCtx n i).sizes = [] := rfl
@[rs_eval] theorem writerCtx_inp (n i) : (writerCtx n i).inp = i := rfl
@[rs_eval] theorem writerCtx_ext (n i) : (writerCtx n i).ext = DictThreads.ext := rfl

/-- a function of the generated table is in the writer's table unless it is abstracted -/
@[rs_eval] theorem writerFns_lookup (k : String) :
    writerFns.lookup k = if abstracted.contains k then none else Code.fns.lookup k :=
  lookup_filter_keys abstracted Code.fns k

/-- ... and no impl block left in the writer's table provides the two abstracted methods (the core's trait-impl
    fallback of `methodDecl`, `traitImplCands`, searches the table by self type and method name) -/
@[rs_eval] theorem writerFns_cands_update :
    traitImplCands writerFns "ShmUpdater" "process_clock_update" = [] := by
  simp [writerFns, abstracted, rs_code, rs_eval]

@[rs_eval] theorem writerFns_cands_missing :
    traitImplCands writerFns "ShmUpdater" "process_missing_clock_update" = [] := by
  simp [writerFns, abstracted, rs_code, rs_eval]

/-- how the loop function ends: it returns `()` (Abort), or it panics (a handler panicked) -/
def wloopResult (e : WEnd) (env : List (String × Value)) (log : List Value) (pos : Nat) : Res :=
  match e with
  | .abort => .val (.tuple [.unit, .unit]) ⟨env, log, pos⟩
  | .handlerPanic _ => .panic

theorem value_notice (m : RMsg) (h : m.isNotice = true) :
    ∃ name c, m.value = .enumv name [c] ∧ (name = "Message::ThreadTerminate" ∨ name = "Message::ThreadPanic") := by
  cases m with
  | terminate c => exact ⟨_, _, rfl, Or.inl rfl⟩
  | panic c => exact ⟨_, _, rfl, Or.inr rfl⟩
  | data p => simp [RMsg.isNotice] at h
  | noData n => simp [RMsg.isNotice] at h
  | abort => simp [RMsg.isNotice] at h

set_option maxRecDepth 8000 in
set_option maxHeartbeats 8000000 in
theorem writer_loop_tie (ks : List Thread) (u : Updater) (k F : Nat) (ws : Nat → WStep)
    (hdone : ∀ i, i < k → (ws i).done = true) (hwf : ∀ i, i < k → (ws i).wellFormed = true)
    (e : WEnd) (he : ∀ s, e = .handlerPanic s → s.done = false)
    (nowNs : Int) (inp : Nat → Value) (env : List (String × Value)) (log : List Value) (pos : Nat)
    (hin : inputsAt inp pos (wloopInputs k ws e)) :
    callDecl (F + k + 100) (writerCtx nowNs inp) Code.fn_shm_writer__process_messages .unit
      [contextValue .writer ks, updaterValue u] ⟨env, log, pos⟩
    = wloopResult e env (log ++ wloopEvents k ws) (pos + (winputsBefore ws k + 1)) := by
  obtain ⟨hits, hend⟩ := inputsAt_chunks inp pos (fun i => (ws i).inputs) (winputsBefore ws) rfl (fun i => rfl) k
    e.inputs hin
  simp [rs_eval, rs_code, contextValue, dispatchValue, allChans, updaterValue]
  rw [Nat.add_right_comm F k]
  rw [evalWhile_skip (d := 60) (k := k) (P := winputsBefore ws) (E := weventsBefore ws)]
  case hE => rfl
  case hP => rfl
  case hc =>
    intro i hi N hN
    obtain ⟨M, rfl⟩ := Nat.exists_eq_add_of_le' hN
    simp [rs_eval]
  case hb =>
    intro i hi N hN next
    obtain ⟨M, rfl⟩ := Nat.exists_eq_add_of_le' hN
    have hii := hits i hi
    have hd := hdone i hi
    have hw := hwf i hi
    cases hs : ws i with
    | data t p a dn =>
      simp only [hs, WStep.done] at hd
      subst hd
      simp only [hs, WStep.inputs, WStep.recv, inputsAt, and_true] at hii
      obtain ⟨h1, h2⟩ := hii
      simp [rs_eval, rs_code, abstracted, h1, h2]
      simp [weventsBefore, winputsBefore, hs, WStep.events, WStep.inputs, WStep.recv, chanValue, Nat.add_assoc]
    | noData n dn =>
      simp only [hs, WStep.done] at hd
      subst hd
      simp only [hs, WStep.inputs, WStep.recv, inputsAt, and_true] at hii
      obtain ⟨h1, h2⟩ := hii
      cases n <;> simp only [NoData.name] at h1 <;>
        simp [rs_eval, rs_code, abstracted, h1, h2] <;>
        simp [weventsBefore, winputsBefore, hs, WStep.events, WStep.inputs, WStep.recv, NoData.name, NoData.grace,
          chanValue, Nat.add_assoc]
    | notice m =>
      simp only [hs, WStep.wellFormed] at hw
      obtain ⟨name, c, hv, hn⟩ := value_notice m hw
      simp only [hs, WStep.inputs, WStep.recv, hv, inputsAt, and_true] at hii
      rcases hn with hn | hn <;> subst hn <;>
        simp [rs_eval, rs_code, abstracted, hii] <;>
        simp [weventsBefore, winputsBefore, hs, WStep.events, WStep.inputs, WStep.recv, hv, chanValue, Nat.add_assoc]
    | disconnected =>
      simp only [hs, WStep.inputs, WStep.recv, inputsAt, and_true] at hii
      simp [rs_eval, rs_code, abstracted, hii]
      simp [weventsBefore, winputsBefore, hs, WStep.events, WStep.inputs, WStep.recv, chanValue, Nat.add_assoc]
  case a => omega
  rw [evalWhile_step]
  case hc => simp [rs_eval]
  cases e with
  | abort =>
    simp only [WEnd.inputs, Recv.value, RMsg.value, inputsAt, and_true] at hend
    simp [rs_eval, rs_code, abstracted, hend]
    -- a flag-controlled `while` goes round once more and finds its condition false; a `loop` has left by `break`
    try rw [evalWhile_succ]
    simp [rs_eval, wloopResult, wloopEvents, Recv.value, RMsg.value, chanValue, Nat.add_assoc]
  | handlerPanic s =>
    have hd := he s rfl
    simp only [WEnd.inputs] at hend
    cases s with
    | data t p a dn =>
      simp only [WStep.done] at hd
      subst hd
      simp only [WStep.inputs, WStep.recv, inputsAt, and_true] at hend
      obtain ⟨h1, h2⟩ := hend
      simp [rs_eval, rs_code, abstracted, h1, h2, wloopResult]
    | noData n dn =>
      simp only [WStep.done] at hd
      subst hd
      simp only [WStep.inputs, WStep.recv, inputsAt, and_true] at hend
      obtain ⟨h1, h2⟩ := hend
      cases n <;> simp only [NoData.name] at h1 <;> simp [rs_eval, rs_code, abstracted, h1, h2, wloopResult]
    | notice m => simp [WStep.done] at hd
    | disconnected => simp [WStep.done] at hd

end ClockBound.Rs.ThreadsProof
