/-
  Proofs of the translation tie for `ShmUpdater` (statements in `Properties/CodeTieUpdater.lean`).
  Same method as `Proofs/RsClient.lean`; the FSM state stays symbolic (`fsmStep` is a primitive of
  the interpreter), `has_measurement` is decided by the tree itself.
-/
import ClockBound.Proofs.RsLemmas
import ClockBound.Generated.Code
namespace ClockBound.Rs.UpdaterProof
open ClockBound ClockBound.Rs ClockBound.Generated

macro "updater_tie" : tactic => `(tactic| (
  simp (maxSteps := 400000) [rs_eval, chkInt, rs_code, trackingValue, updaterValue, ctimespecValue]
  generalize hM : Updater.step _ _ = M
  repeat' split
  all_goals (subst hM; try simp [Updater.step, extractBound, boundF, classify, leapClass, Updater.record, chk,
    inI64, I64_MIN, I64_MAX, updaterOutcome, updaterValue, recordValue, ctimespecValue, statusValue,
    statusName, *])
  -- comparisons may come in another normal form than the model's (`x < 3` for `x ≤ 2`): split what is left
  all_goals (try (split_ifs <;> first | rfl | omega | simp_all))))

set_option maxRecDepth 8000 in
set_option maxHeartbeats 4000000 in
theorem tie_data (u : Updater) (t : Tracking) (phc : Int) (asOf : TimeSpec) (now : Int) :
    run (Code.ctx now) "ShmUpdater::process_clock_update" (updaterValue u)
      [trackingValue t, .int .i64 phc, ctimespecValue asOf]
    = updaterOutcome (u.step (.data t phc asOf now)) := by
  obtain ⟨leap, refNs, offW, dispW, delayW, intervalW, refid⟩ := t
  obtain ⟨drift, fsm, bound, ⟨as, an⟩, res, hm⟩ := u
  obtain ⟨s, n⟩ := asOf
  updater_tie

set_option maxRecDepth 8000 in
set_option maxHeartbeats 4000000 in
theorem tie_missing (u : Updater) (g : Bool) (now : Int) :
    run (Code.ctx now) "ShmUpdater::process_missing_clock_update" (updaterValue u) [.bool g]
    = updaterOutcome (u.step (.missing g)) := by
  obtain ⟨drift, fsm, bound, ⟨as, an⟩, res, hm⟩ := u
  cases g <;> updater_tie

set_option maxRecDepth 8000 in
theorem tie_new (drift : Nat) (now : Int) :
    run (Code.ctx now) "ShmUpdater::new" .unit [.writer, .int .u32 drift]
    = .ok (updaterValue (Updater.new drift)) .unit [] := by
  simp [rs_eval, chkInt, rs_code, updaterValue, ctimespecValue, Updater.new]

end ClockBound.Rs.UpdaterProof
