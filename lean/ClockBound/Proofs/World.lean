/-
  Helper lemmas for the end-to-end model (C01, C12).
-/
import ClockBound.Model.World
import ClockBound.Proofs.Daemon
namespace ClockBound

end ClockBound
