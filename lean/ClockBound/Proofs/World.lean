/-
  Helper lemmas for the end-to-end model (C01, C12).
-/
import ClockBound.Model.World
import ClockBound.Proofs.Daemon
import ClockBound.Properties.C05
import ClockBound.Properties.C06
import ClockBound.Properties.C07
import ClockBound.Properties.C09
namespace ClockBound
open TimeSpec

/-! ### `TimeSpec.ofNs` -/

theorem ofNs_toNs (n : Int) : (TimeSpec.ofNs n).toNs = n := by
  unfold TimeSpec.ofNs TimeSpec.toNs NANOS; simp only []; omega

theorem ofNs_normalized (n : Int) : (TimeSpec.ofNs n).normalized := by
  unfold TimeSpec.ofNs TimeSpec.normalized NANOS; simp only []; omega

theorem ofNs_sec (n : Int) : (TimeSpec.ofNs n).sec = n / 1000000000 := rfl
theorem ofNs_nsec (n : Int) : (TimeSpec.ofNs n).nsec = n % 1000000000 := rfl

theorem ofNs_inRange {n : Int} (h0 : 0 ≤ n) (h1 : n < 2147483648000000000) :
    (TimeSpec.ofNs n).inRange = true := by
  unfold TimeSpec.inRange TimeSpec.ofNs NANOS
  simp only [decide_eq_true_eq]
  omega

/-! ### one daemon step -/

/-- the three shapes of a daemon step -/
theorem DaemonState.step_cases (w : World) (d : DaemonState) (e : WEvent) :
    (e = .restart ∧ d.step w e = { d with u := Updater.new w.rho }) ∨
    d.step w e = d ∨
    (∃ m u' r, e.msg w = some m ∧ d.u.step m = some (u', r) ∧
      d.step w e = { u := u', published := r :: d.published }) := by
  cases e with
  | restart => left; exact ⟨rfl, rfl⟩
  | poll ta tq tp reply phc g =>
    right
    cases hm : (WEvent.poll ta tq tp reply phc g).msg w with
    | none =>
      left
      show (match (WEvent.poll ta tq tp reply phc g).msg w with
        | none => d
        | some m => match d.u.step m with
          | none => d
          | some (u', r) => { u := u', published := r :: d.published }) = d
      rw [hm]
    | some m =>
      cases hs : d.u.step m with
      | none =>
        left
        show (match (WEvent.poll ta tq tp reply phc g).msg w with
          | none => d
          | some m => match d.u.step m with
            | none => d
            | some (u', r) => { u := u', published := r :: d.published }) = d
        rw [hm]; simp only [hs]
      | some p =>
        obtain ⟨u', r⟩ := p
        right
        refine ⟨m, u', r, rfl, hs, ?_⟩
        show (match (WEvent.poll ta tq tp reply phc g).msg w with
          | none => d
          | some m => match d.u.step m with
            | none => d
            | some (u', r) => { u := u', published := r :: d.published }) = _
        rw [hm]; simp only [hs]

/-- the measurement stored in an updater comes from a synchronised poll of the history -/
def MeasFrom (w : World) (all : List WEvent) (bound : Int) (asOf : TimeSpec) : Prop :=
  ∃ ta tq tp t phc g, WEvent.poll ta tq tp (some t) phc g ∈ all ∧
    classify t (w.Rc tp).floor = .synchronized ∧
    bound = boundF t + phc ∧ asOf = TimeSpec.ofNs (w.Mc ta).floor

/-- provenance invariant of the daemon state w.r.t. the whole history `all` -/
structure PInv (w : World) (all : List WEvent) (d : DaemonState) : Prop where
  drift : d.u.drift = w.rho
  meas : d.u.hasMeasurement = true → MeasFrom w all d.u.bound d.u.asOf
  pub : ∀ r ∈ d.published, r.status ≠ .unknown →
    MeasFrom w all r.bound r.asOf ∧ r.voidAfter = ⟨r.asOf.sec + 1000, 0⟩ ∧ r.drift = w.rho

theorem PInv.init (w : World) (all : List WEvent) : PInv w all { u := Updater.new w.rho } := by
  refine ⟨rfl, ?_, ?_⟩
  · intro h; cases h
  · intro r hr; cases hr

theorem PInv.step {w : World} {all : List WEvent} {d : DaemonState} (inv : PInv w all d)
    {e : WEvent} (he : e ∈ all) : PInv w all (d.step w e) := by
  rcases DaemonState.step_cases w d e with ⟨_, hs⟩ | hs | ⟨m, u', r, hm, hstep, hs⟩
  · rw [hs]
    refine ⟨rfl, ?_, inv.pub⟩
    intro h; cases h
  · rw [hs]; exact inv
  · rw [hs]
    obtain ⟨hu', hr⟩ := Updater.step_some hstep
    obtain ⟨_, fd, _, fsome, fnone⟩ := Updater.after_fields d.u (abstractMsg m)
    rw [← hu'] at fd fsome fnone
    have hmeas : u'.hasMeasurement = true → MeasFrom w all u'.bound u'.asOf := by
      intro hh
      cases hso : syncOf (abstractMsg m) with
      | none =>
        obtain ⟨e1, e2, e3⟩ := fnone hso
        rw [e1, e2]; rw [e3] at hh
        exact inv.meas hh
      | some ba =>
        obtain ⟨b, a⟩ := ba
        obtain ⟨e1, e2, _⟩ := fsome b a hso
        rw [e1, e2]
        -- the message is a synchronised report of this poll
        cases e with
        | restart => cases hm
        | poll ta tq tp reply phc g =>
          cases reply with
          | none =>
            simp only [WEvent.msg, Option.some.injEq] at hm
            subst hm
            simp [abstractMsg, syncOf] at hso
          | some t =>
            simp only [WEvent.msg, Option.some.injEq] at hm
            subst hm
            simp only [abstractMsg] at hso
            cases hc : classify t (w.Rc tp).floor <;> rw [hc] at hso <;>
              simp only [syncOf, Option.some.injEq, Prod.mk.injEq, reduceCtorEq] at hso
            obtain ⟨hb, ha⟩ := hso
            exact ⟨ta, tq, tp, t, phc, g, he, hc, hb.symm, ha.symm⟩
    refine ⟨by rw [fd]; exact inv.drift, hmeas, ?_⟩
    intro r' hr' hst
    rcases List.mem_cons.1 hr' with h | h
    · subst h
      rw [hr] at hst ⊢
      simp only [Updater.pub] at hst
      have hh : u'.hasMeasurement = true := by
        cases hx : u'.hasMeasurement with
        | true => rfl
        | false => rw [hx] at hst; exact absurd rfl hst
      exact ⟨hmeas hh, rfl, fd.trans inv.drift⟩
    · exact inv.pub r' h hst

theorem PInv.foldl {w : World} {all : List WEvent} (evs : List WEvent) (hsub : ∀ e ∈ evs, e ∈ all)
    {d : DaemonState} (inv : PInv w all d) : PInv w all (evs.foldl (DaemonState.step w) d) := by
  induction evs generalizing d with
  | nil => exact inv
  | cons e es ih =>
    rw [List.foldl_cons]
    exact ih (fun x hx => hsub x (List.mem_cons_of_mem _ hx)) (inv.step (hsub e List.mem_cons_self))

theorem PInv.run (w : World) (evs : List WEvent) : PInv w evs (DaemonState.run w evs) :=
  PInv.foldl evs (fun _ h => h) (PInv.init w evs)

/-! ### the arithmetic core of containment -/

theorem containment_core_aux (w : World) (hw : w.Good) (ta tq tr tm : ℚ)
    (h1 : ta ≤ tq) (h2 : tq ≤ tr) (h3 : tr ≤ tm)
    (E eB eG : ℚ) (bound growth : Int)
    (hvalid : absR (w.Rc tq - tq) ≤ E) (hbound : E ≤ (bound : ℚ) + eB)
    (hgrowth : (w.rho : ℚ) * (((w.Mc tm).floor - (w.Mc ta).floor : Int) : ℚ) / 1000000000 - 1 - eG
      ≤ (growth : ℚ)) :
    absR ((((w.Rc tr).floor : Int) : ℚ) - tr) <
      ((bound + growth : Int) : ℚ) + 2 + (w.rho : ℚ) / 1000000000 + eB + eG := by
  have hρ : (0 : ℚ) ≤ (w.rho : ℚ) := by positivity
  obtain ⟨d1, d2⟩ := hw.drift tq tr h2
  have m1 : w.Mc ta ≤ w.Mc tq := hw.mono _ _ h1
  have m2 : w.Mc tr ≤ w.Mc tm := hw.mono _ _ h3
  have fa := F64.floor_le' (w.Mc ta)
  have fm := F64.lt_floor_add_one' (w.Mc tm)
  have fr1 := F64.floor_le' (w.Rc tr)
  have fr2 := F64.lt_floor_add_one' (w.Rc tr)
  rw [absR_eq_abs, abs_le] at hvalid
  obtain ⟨v1, v2⟩ := hvalid
  -- the drift between the report and the client's reading, against the read ages
  have hage : w.Mc tr - w.Mc tq ≤ ((w.Mc tm).floor : ℚ) + 1 - ((w.Mc ta).floor : ℚ) := by linarith
  have hdr : (w.rho : ℚ) * (w.Mc tr - w.Mc tq) / 1000000000 ≤
      (w.rho : ℚ) * (((w.Mc tm).floor : ℚ) + 1 - ((w.Mc ta).floor : ℚ)) / 1000000000 :=
    div_le_div_of_nonneg_right (mul_le_mul_of_nonneg_left hage hρ) (by norm_num)
  have hsplit : (w.rho : ℚ) * (((w.Mc tm).floor : ℚ) + 1 - ((w.Mc ta).floor : ℚ)) / 1000000000 =
      (w.rho : ℚ) * (((w.Mc tm).floor - (w.Mc ta).floor : Int) : ℚ) / 1000000000 +
        (w.rho : ℚ) / 1000000000 := by
    push_cast; ring
  rw [hsplit] at hdr
  rw [absR_eq_abs, abs_lt]
  push_cast
  constructor <;> linarith

/-! ### end-to-end containment -/

/-- `computeBoundAt` looks at void-after only through the comparison with the monotonic reading -/
theorem computeBoundAt_void_congr (r : Record) (v : TimeSpec) (real mono : TimeSpec)
    (h : mono.lt v = mono.lt r.voidAfter) :
    computeBoundAt { r with voidAfter := v } real mono = computeBoundAt r real mono := by
  have hs : clientStatus { r with voidAfter := v } mono = clientStatus r mono := by
    unfold clientStatus; simp only [h]
  unfold computeBoundAt
  simp only [hs]

theorem lt_void_clip (m : TimeSpec) (s : Int) (hm : m.sec < 2147483648) :
    m.lt ⟨min s 2147483648, 0⟩ = m.lt ⟨s, 0⟩ := by
  by_cases hc : s ≤ 2147483648
  · rw [min_eq_left hc]
  · rw [min_eq_right (by omega)]
    unfold TimeSpec.lt
    simp only []
    rw [if_neg (by omega), if_neg (by omega)]
    simp only [decide_eq_decide]
    omega

theorem exactNs_nonneg {t : Tracking} (hs : 0 ≤ F64.chronyFloat t.dispW)
    (hd : 0 ≤ F64.chronyFloat t.delayW) : 0 ≤ C07.exactNs t := by
  unfold C07.exactNs
  have := absR_nonneg (F64.chronyFloat t.offW)
  apply mul_nonneg _ (by norm_num)
  linarith

theorem containment_aux (w : World) (hw : w.Good) (hrho : w.rho < 1000000000)
    (evs : List WEvent) (hev : ∀ e ∈ evs, e.ok w)
    (r : Record) (hr : r ∈ (DaemonState.run w evs).published)
    (tr tm : ℚ) (hrm : tr ≤ tm) (hafter : ∀ e ∈ evs, ∀ t, e.endTime = some t → t ≤ tr)
    (hR : 0 ≤ (w.Rc tr).floor ∧ (w.Rc tr).floor < 2147483648000000000)
    (hM : (w.Mc tm).floor < 2147483648000000000)
    (e l : TimeSpec) (st : Status)
    (hout : clientQuery w r tr tm = .ok e l st) (hst : st ≠ .unknown) :
    (e.toNs : ℚ) - sigma w < tr ∧ tr < (l.toNs : ℚ) + sigma w := by
  unfold clientQuery at hout
  -- the record is trusted, so it stems from a synchronised poll
  have hrs : r.status ≠ .unknown := fun h => hst (C09.client_sees_unknown r h _ _ e l st hout)
  obtain ⟨⟨ta, tq, tp, t, phc, g, hmem, hcls, hb, ha⟩, hv, hd⟩ := (PInv.run w evs).pub r hr hrs
  have hok := hev _ hmem
  simp only [WEvent.ok] at hok
  obtain ⟨h1, h2, hp0, hrest⟩ := hok
  obtain ⟨hvalid, happ, hlt, hA0⟩ := hrest hcls
  unfold reportValid at hvalid
  have h3 : tp ≤ tr := hafter _ hmem tp rfl
  have hAM : (w.Mc ta).floor ≤ (w.Mc tm).floor := Rat.floor_monotone (hw.mono _ _ (by linarith))
  generalize hAdef : (w.Mc ta).floor = A at *
  generalize hMdef : (w.Mc tm).floor = M at *
  generalize hRdef : (w.Rc tr).floor = Rr at *
  obtain ⟨hR0, hR1⟩ := hR
  -- the stored bound
  obtain ⟨hs, hdl, hE, _, _⟩ := applicable_spec happ
  obtain ⟨b0, bl, bu⟩ := boundF_bounds t hs hdl hE
  have hE0 := exactNs_nonneg hs hdl
  have hp0q : (0 : ℚ) ≤ (phc : ℚ) := by exact_mod_cast hp0
  have heps : (0 : ℚ) < C07.eps51 := by unfold C07.eps51; norm_num
  have heB : C07.exactNs t * C07.eps51 < 1 / 2048 := by
    have : C07.exactNs t * C07.eps51 ≤ 1000000000000 * C07.eps51 :=
      mul_le_mul_of_nonneg_right (by linarith) heps.le
    have e : (1000000000000 : ℚ) * C07.eps51 < 1 / 2048 := by unfold C07.eps51; norm_num
    linarith
  have hbq : (r.bound : ℚ) = (boundF t : ℚ) + (phc : ℚ) := by rw [hb]; push_cast; ring
  have hb0 : 0 ≤ r.bound := by rw [hb]; omega
  have hb1 : r.bound < 1152921504606846976 := by
    have : (r.bound : ℚ) < ((1152921504606846976 : Int) : ℚ) := by
      rw [hbq]; push_cast; linarith
    exact_mod_cast this
  -- a record with the same client behaviour whose void-after is in the client's range
  have hasec : r.asOf.sec = A / 1000000000 := by rw [ha]; rfl
  have hansec : r.asOf.nsec = A % 1000000000 := by rw [ha]; rfl
  have hatons : r.asOf.toNs = A := by rw [ha]; exact ofNs_toNs A
  let v' : TimeSpec := ⟨min (r.asOf.sec + 1000) 2147483648, 0⟩
  have hvlt : (TimeSpec.ofNs M).lt v' = (TimeSpec.ofNs M).lt r.voidAfter := by
    rw [hv]
    exact lt_void_clip _ _ (by rw [ofNs_sec]; omega)
  have hout' := hout
  rw [← computeBoundAt_void_congr r v' _ _ hvlt] at hout'
  have hx : (⟨{ r with voidAfter := v' }, TimeSpec.ofNs Rr, TimeSpec.ofNs M⟩ : ClientIn).meaningful
      = true := by
    simp only [ClientIn.meaningful, Bool.and_eq_true, decide_eq_true_eq]
    refine ⟨⟨⟨⟨?_, ?_⟩, ofNs_inRange hR0 hR1⟩, ofNs_inRange (by omega) hM⟩, hb0, hb1⟩
    · rw [ha]; exact ofNs_inRange hA0 (by omega)
    · unfold TimeSpec.inRange NANOS
      simp only [v', decide_eq_true_eq]
      omega
  obtain ⟨_, _, hste, he, hl, _, _, _⟩ := ok_closed _ hx e l st hout'
  simp only [ofNs_toNs] at he hl
  -- the age is the difference of the two monotonic readings, and below 1000 s
  have hage : (⟨{ r with voidAfter := v' }, TimeSpec.ofNs Rr, TimeSpec.ofNs M⟩ : ClientIn).age
      = M - A := by
    rw [age_eq_max]; simp only [ofNs_toNs, hatons]; omega
  rw [hage, hd] at he hl
  have hvns : v'.toNs ≤ A + 1000000000000 := by
    unfold TimeSpec.toNs NANOS
    simp only [v']
    omega
  have hMlt : M < A + 1000000000000 := by
    by_contra hc
    apply hst
    rw [hste]
    unfold C06.expected
    simp only [ofNs_toNs, hatons]
    cases r.status <;> rw [if_neg (by omega), if_neg (by omega)]
  -- the growth term
  obtain ⟨g1, _⟩ := C05.growth_bounds (M - A) w.rho (by omega) (by omega) hrho
  have hρ0 : (0 : ℚ) ≤ (w.rho : ℚ) := by positivity
  have hρ1 : (w.rho : ℚ) ≤ 1000000000 := by exact_mod_cast hrho.le
  have hage0 : (0 : ℚ) ≤ ((M - A : Int) : ℚ) := by exact_mod_cast (by omega : 0 ≤ M - A)
  have hage1 : ((M - A : Int) : ℚ) < 1000000000000 := by
    exact_mod_cast (by omega : M - A < 1000000000000)
  have hP0 : 0 ≤ (w.rho : ℚ) * ((M - A : Int) : ℚ) / 1000000000 := by positivity
  have hP1 : (w.rho : ℚ) * ((M - A : Int) : ℚ) / 1000000000 < 1000000000000 := by
    rw [div_lt_iff₀ (by norm_num)]
    calc (w.rho : ℚ) * ((M - A : Int) : ℚ) ≤ 1000000000 * ((M - A : Int) : ℚ) :=
          mul_le_mul_of_nonneg_right hρ1 hage0
      _ < 1000000000 * 1000000000000 := by linarith
      _ = _ := by ring
  have heps5 : (0 : ℚ) < C05.eps51 := by unfold C05.eps51; norm_num
  have heG : (w.rho : ℚ) * ((M - A : Int) : ℚ) / 1000000000 * C05.eps51 < 1 / 2048 := by
    have : (w.rho : ℚ) * ((M - A : Int) : ℚ) / 1000000000 * C05.eps51
        ≤ 1000000000000 * C05.eps51 := mul_le_mul_of_nonneg_right hP1.le heps5.le
    have e : (1000000000000 : ℚ) * C05.eps51 < 1 / 2048 := by unfold C05.eps51; norm_num
    linarith
  have hcore := containment_core_aux w hw ta tq tr tm h1 (le_trans h2 h3) hrm
    (C07.exactNs t + (phc : ℚ)) (C07.exactNs t * C07.eps51)
    ((w.rho : ℚ) * ((M - A : Int) : ℚ) / 1000000000 * C05.eps51) r.bound (growth (M - A) w.rho)
    hvalid (by rw [hbq]; linarith) (by rw [hAdef, hMdef]; linarith)
  rw [hRdef, absR_eq_abs, abs_lt] at hcore
  have he' : (e.toNs : ℚ) = (Rr : ℚ) - ((r.bound + growth (M - A) w.rho : Int) : ℚ) := by
    rw [he]; push_cast; ring
  have hl' : (l.toNs : ℚ) = (Rr : ℚ) + ((r.bound + growth (M - A) w.rho : Int) : ℚ) := by
    rw [hl]; push_cast; ring
  unfold sigma
  rw [he', hl']
  obtain ⟨c1, c2⟩ := hcore
  constructor <;> linarith

end ClockBound
