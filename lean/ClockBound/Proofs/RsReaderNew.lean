/-
  Proof of the translation tie for `ShmReader::new` (with `FdGuard::new`, `MmapGuard::new`, `ShmHeader::read`
  inlined): statement in `Properties/CodeTieHeader.lean`.  One file per class of path state
  (`RsReaderNewA/B/C.lean`), assembled here.
-/
import ClockBound.Proofs.RsReaderNewB
import ClockBound.Proofs.RsReaderNewC
namespace ClockBound.Rs.HeaderProof
open ClockBound ClockBound.Rs ClockBound.Generated ClockBound.Rs.DictShm ClockBound.Rs.EmbedShm

theorem reader_new_tie (lim : Option Nat) (st : FileState) (fd : Nat) (hfd : fd ≤ 2147483647)
    (hst : ∀ bs, st = .file bs → (parseHeader bs).inRange) :
    (run (hctx (streamOf (openAnswers lim fd st))) "ShmReader::new" .unit [cstrValue]).noLog
      = .ok (openValue (readerOpenLim lim st)) .unit [] := by
  cases st with
  | missing => exact reader_new_missing lim fd
  | directory => exact reader_new_directory lim fd hfd
  | file bs =>
    by_cases hm : mapFails lim (parseHeader bs).segsize = true
    · exact reader_new_file_fails lim bs fd hfd (hst bs rfl) hm
    · exact reader_new_file_maps lim bs fd hfd (hst bs rfl) (by simpa using hm)

end ClockBound.Rs.HeaderProof
