/-
  Helpers for `Properties/OnCodeWriterNew.lean`: the effect of the operations of `ShmWriter::new` on the BYTES of the
  segment file, and that applying `Crash.newOps` to the prior file gives the file `writerNew` (`Model/Header.lean`, the
  function C16's repair clause is about) describes.
-/
import ClockBound.Properties.CodeTieWriterNew
import ClockBound.Properties.C16
namespace ClockBound.OnCode
open ClockBound

/-- the content of the file at the path (`none`: no regular file) -/
def fileOf : FileState → Option Bytes
  | .file bs => some bs
  | _ => none

/-- the effect of one operation on the content of the file: `File::create` creates or truncates, the writes append
    (the file position is the end), `set_len(n)` grows a shorter file with zeros, the version store through the mapping
    patches bytes 12..13, `create_dir_all` and `sync_all` leave the content alone -/
def applyOp (f : Option Bytes) : Crash.Op → Option Bytes
  | .createDirAll => f
  | .create => some []
  | .writeU32 _ v => f.map (· ++ encU32 v)
  | .writeU16 _ v => f.map (· ++ encU16 v)
  | .writeAll n => f.map (· ++ List.replicate n 0)
  | .syncAll => f
  | .setLen n => f.map fun bs => bs ++ List.replicate (n - bs.length) 0
  | .storeVersion v => f.map fun bs => patch bs 12 (encU16 v)

/-- the prior opens iff its abstraction is usable -/
theorem usable_iff_open (bs : Bytes) :
    (Crash.fileAOf (.file bs)).usable = true ↔ ∃ h, readerOpen (.file bs) = .ok h := by
  constructor
  · intro hu
    simp [Crash.fileAOf, Crash.FileA.usable] at hu
    obtain ⟨⟨⟨⟨⟨h16, hm0⟩, hm1⟩, hv⟩, hg⟩, h72⟩ := hu
    exact ⟨parseHeader bs, (C16.open_ok_iff bs _).mpr ⟨h16, rfl, hm0, hm1, hv, hg, h72⟩⟩
  · rintro ⟨h, hok⟩
    obtain ⟨h16, rfl, hm0, hm1, hv, hg, h72⟩ := (C16.open_ok_iff bs h).mp hok
    simp [Crash.fileAOf, Crash.FileA.usable, h16, hm0, hm1, hv, hg, h72]

/-- applying the operations of `new` to the prior file gives exactly the file of `writerNew` -/
theorem newOps_bytes (st : FileState) (hd : st ≠ .directory) (hasParent : Bool) :
    ∃ bs' rc, writerNew st = .ok (.file bs', rc) ∧
      (Crash.newOps (Crash.fileAOf st) hasParent).foldl applyOp (fileOf st) = some bs' ∧
      (rc = true ↔ (Crash.fileAOf st).usable = false) := by
  have hwipe : ∀ f : Option Bytes,
      [Crash.Op.create, .writeU32 .wipeMagic0 MAGIC0, .writeU32 .wipeMagic1 MAGIC1, .writeU32 .wipeSegsize SEGMENT_SIZE,
       .writeU16 .wipeVersion 0, .writeU16 .wipeGeneration 0, .writeAll (SEGMENT_SIZE - HEADER_SIZE), .syncAll,
       .storeVersion 1].foldl applyOp f = some (patch wipeBytes 12 (encU16 1)) := by
    intro f
    have h0 : [Crash.Op.writeU32 .wipeMagic0 MAGIC0, .writeU32 .wipeMagic1 MAGIC1, .writeU32 .wipeSegsize SEGMENT_SIZE,
       .writeU16 .wipeVersion 0, .writeU16 .wipeGeneration 0, .writeAll (SEGMENT_SIZE - HEADER_SIZE), .syncAll,
       .storeVersion 1].foldl applyOp (some []) = some (patch wipeBytes 12 (encU16 1)) := by decide +kernel
    simpa [List.foldl_cons, applyOp] using h0
  cases st with
  | directory => exact absurd rfl hd
  | missing =>
    refine ⟨_, true, rfl, ?_, by simp [Crash.fileAOf, Crash.FileA.usable]⟩
    have hu : (Crash.fileAOf .missing).usable = false := rfl
    simp only [Crash.newOps, hu]
    cases hasParent <;> simp [List.foldl_append, applyOp, fileOf, hwipe]
  | file bs =>
    cases hu : (Crash.fileAOf (.file bs)).usable
    · have hno : ∀ h, readerOpen (.file bs) ≠ .ok h := by
        intro h hok
        have := (usable_iff_open bs).mpr ⟨h, hok⟩
        rw [hu] at this; cases this
      have hw : writerNew (.file bs) = .ok (.file (patch wipeBytes 12 (encU16 1)), true) := by
        unfold writerNew
        rcases hro : readerOpen (.file bs) with e | h
        · rfl
        · exact absurd hro (hno h)
      refine ⟨_, true, hw, ?_, by simp⟩
      simp only [Crash.newOps, hu]
      cases hasParent <;> simp [List.foldl_append, applyOp, fileOf, hwipe]
    · obtain ⟨h, hok⟩ := (usable_iff_open bs).mp hu
      have hw : writerNew (.file bs) = .ok (.file (patch (extendToSegment bs) 12 (encU16 1)), false) := by
        unfold writerNew; rw [hok]
      refine ⟨_, false, hw, ?_, by simp [hu]⟩
      have hlen : (Crash.fileAOf (.file bs)).len = bs.length := rfl
      simp only [Crash.newOps, hu, hlen, if_true]
      by_cases hl : bs.length < SEGMENT_SIZE
      · simp [hl, applyOp, fileOf, extendToSegment]
      · have : SEGMENT_SIZE - bs.length = 0 := by omega
        simp [hl, applyOp, fileOf, extendToSegment, this]

end ClockBound.OnCode
