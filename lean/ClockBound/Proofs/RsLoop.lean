/-
  Loops of the Rust-fragment interpreter: the equations that unfold one iteration, and the lemmas that
  turn a per-iteration fact into a fact about the whole loop with a SYMBOLIC number of iterations.

  Fuel discipline (see `Rs/Interp.lean`): `evalWhile (N+1)` evaluates the condition, the body and the rest
  of the loop with fuel `N`.  So if condition and body are evaluated correctly by every fuel `≥ d`
  (`d` = their nesting depth, a small constant), then `k` iterations followed by an exit need `k + d + 1`.
  A per-iteration fact is therefore stated for ALL fuels `N ≥ d`; it is proved by writing `N = M + d`
  (`obtain ⟨M, rfl⟩ := Nat.exists_eq_add_of_le' h`) and `simp [rs_eval]`: the equations of the interpreter
  match `M + d` against `_ + 1` for a literal `d`.  Worked example: `Proofs/RsLoopDemo.lean`.
-/
import ClockBound.Proofs.RsEval
namespace ClockBound.Rs

/-! ### one iteration (the members of the simp set `rs_loop`, by name) -/

theorem eval_whileE (n ctx fr c body st) :
    eval (n + 1) ctx fr (.whileE c body) st = evalWhile n ctx fr c body st := by
  simp only [eval]

/-- `loop { body }` is `while true { body }` -/
theorem eval_loopE (n ctx fr body st) :
    eval (n + 1) ctx fr (.loopE body) st = evalWhile n ctx fr (.lit (.bool true)) body st := by
  simp only [eval]

theorem eval_forE (n ctx fr pat it body st) :
    eval (n + 1) ctx fr (.forE pat it body) st
    = (eval n ctx fr it st).bind fun iv st =>
        orStuck "for: no rule to iterate over this value" (iterItems iv) fun items =>
          evalFor n ctx fr pat body items st := by
  simp only [eval]

theorem evalWhile_succ (n ctx fr c body st) :
    evalWhile (n + 1) ctx fr c body st
    = (eval n ctx fr c st).bind fun vc st' =>
        match vc with
        | .bool b =>
          if b = true then
            ((evalBlock n ctx fr body st').popTo st.env.length).loopNext fun st'' => evalWhile n ctx fr c body st''
          else .val .unit (st'.popTo st.env.length)
        | _ => .stuck "while on a non-bool" := by
  simp only [evalWhile]
  rfl

theorem evalFor_nil (n ctx fr pat body st) : evalFor (n + 1) ctx fr pat body [] st = .val .unit st := by
  simp only [evalFor]

theorem evalFor_cons (n ctx fr pat body v rest st) :
    evalFor (n + 1) ctx fr pat body (v :: rest) st
    = orStuck "for: pattern without a rule" (matchPat n fr.selfTy pat v) fun (_, bs) =>
        ((evalBlock n ctx fr body { st with env := bs ++ st.env }).popTo st.env.length).loopNext
          fun st' => evalFor n ctx fr pat body rest st' := by
  simp only [evalFor]

/-! ### overflow checks under a symbolic number of iterations

  `simp [rs_eval]` leaves `chkInt t v st` folded.  With the range facts as hypotheses this conditional
  rewrite discharges it (do NOT unfold `chkInt` in such a proof: rewriting inside the condition of its
  `if` makes the kernel compare `Decidable` instances by evaluating `Int.decLe` on terms like
  `4294967295 - (i + 1)`, which it does in unary). -/
theorem chkInt_ok (t : IntTy) (v : Int) (st : St) (h0 : t ≠ .infer) (hlo : t.lo ≤ v) (hhi : v ≤ t.hi) :
    chkInt t v st = .val (.int t v) st := by
  simp [chkInt, h0, hlo, hhi]

/-! ### the items of an integer range, one at a time -/

theorem intRange_nil (t : IntTy) (lo hi : Int) (h : hi ≤ lo) : intRange t lo hi = [] := by
  have : (hi - lo).toNat = 0 := by omega
  simp [intRange, this]

theorem intRange_cons (t : IntTy) (lo hi : Int) (h : lo < hi) :
    intRange t lo hi = .int t lo :: intRange t (lo + 1) hi := by
  unfold intRange
  have : (hi - lo).toNat = (hi - (lo + 1)).toNat + 1 := by omega
  rw [this, List.range_succ_eq_map, List.map_cons, List.map_map]
  congr 1
  · simp
  · apply List.map_congr_left
    intro k _
    simp only [Function.comp]
    congr 1
    push_cast
    omega

theorem intRange_length (t : IntTy) (lo hi : Int) : (intRange t lo hi).length = (hi - lo).toNat := by
  simp [intRange]

/-! ### `k` iterations of a `while`, then an exit

  `S i` is the state at the start of iteration `i`, `C i` the state the condition leaves (`C = S` unless
  the condition binds variables — `while let` — or has effects).  `hc`/`hb` are the per-iteration facts,
  `hx` describes what happens from `S k` on (the condition is false; or the body returns / breaks):
  it is a fact about ONE unfolding of the loop, provable by `simp [evalWhile_succ, rs_eval]`. -/
theorem evalWhile_iterate {ctx : Ctx} {fr : Frame} {c : Expr} {body : List Stmt}
    (S C : Nat → St) (d k : Nat) (R : Res)
    (hc : ∀ i, i < k → ∀ N, d ≤ N → eval N ctx fr c (S i) = .val (.bool true) (C i))
    (hb : ∀ i, i < k → ∀ N, d ≤ N → ∀ next : St → Res,
      ((evalBlock N ctx fr body (C i)).popTo (S i).env.length).loopNext next = next (S (i + 1)))
    (hx : ∀ N, d ≤ N → evalWhile (N + 1) ctx fr c body (S k) = R) :
    ∀ N, k + d + 1 ≤ N → evalWhile N ctx fr c body (S 0) = R := by
  induction k generalizing S C with
  | zero =>
    intro N hN
    obtain ⟨M, rfl⟩ : ∃ M, N = M + 1 := ⟨N - 1, by omega⟩
    exact hx M (by omega)
  | succ k ih =>
    intro N hN
    obtain ⟨M, rfl⟩ : ∃ M, N = M + 1 := ⟨N - 1, by omega⟩
    rw [evalWhile_succ, hc 0 (by omega) M (by omega)]
    simp only [Res.bind_val, if_true]
    rw [hb 0 (by omega) M (by omega)]
    exact ih (fun i => S (i + 1)) (fun i => C (i + 1))
      (fun i hi => hc (i + 1) (by omega))
      (fun i hi => hb (i + 1) (by omega))
      hx M (by omega)

/-- the common case: the condition has no effect and binds nothing, and the loop ends because the
    condition becomes false after `k` iterations; the loop evaluates to `()` in state `S k` -/
theorem evalWhile_count {ctx : Ctx} {fr : Frame} {c : Expr} {body : List Stmt}
    (S : Nat → St) (d k : Nat)
    (hc : ∀ i, i < k → ∀ N, d ≤ N → eval N ctx fr c (S i) = .val (.bool true) (S i))
    (hb : ∀ i, i < k → ∀ N, d ≤ N → ∀ next : St → Res,
      ((evalBlock N ctx fr body (S i)).popTo (S i).env.length).loopNext next = next (S (i + 1)))
    (hx : ∀ N, d ≤ N → eval N ctx fr c (S k) = .val (.bool false) (S k)) :
    ∀ N, k + d + 1 ≤ N → evalWhile N ctx fr c body (S 0) = .val .unit (S k) := by
  apply evalWhile_iterate S S d k _ hc hb
  intro N hN
  rw [evalWhile_succ, hx N hN]
  simp [Res.bind_val, St.popTo]

/-! ### a `for` over a list of items

  `S i` is the state before item `i`; the per-item fact covers the binding of the pattern and the body. -/
theorem evalFor_iterate {ctx : Ctx} {fr : Frame} {pat : Pat} {body : List Stmt}
    (items : List Value) (S : Nat → St) (d : Nat)
    (hb : ∀ i (h : i < items.length), ∀ N, d ≤ N → ∀ next : St → Res,
      (orStuck "for: pattern without a rule" (matchPat N fr.selfTy pat items[i]) fun (_, bs) =>
        ((evalBlock N ctx fr body { S i with env := bs ++ (S i).env }).popTo (S i).env.length).loopNext next)
      = next (S (i + 1))) :
    ∀ N, items.length + d + 1 ≤ N → evalFor N ctx fr pat body items (S 0) = .val .unit (S items.length) := by
  induction items generalizing S with
  | nil =>
    intro N hN
    obtain ⟨M, rfl⟩ : ∃ M, N = M + 1 := ⟨N - 1, by omega⟩
    simp [evalFor_nil]
  | cons v rest ih =>
    intro N hN
    obtain ⟨M, rfl⟩ : ∃ M, N = M + 1 := ⟨N - 1, by simp at hN; omega⟩
    rw [evalFor_cons]
    have h0 := hb 0 (by simp) M (by simp at hN; omega)
    simp only [List.getElem_cons_zero] at h0
    rw [h0]
    have := ih (fun i => S (i + 1))
      (fun i h N hN next => by
        have := hb (i + 1) (by simp; omega) N hN next
        simpa using this)
      M (by simp at hN; omega)
    simpa using this

end ClockBound.Rs
