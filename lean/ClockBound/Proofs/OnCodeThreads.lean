/-
  Helper lemmas for `Properties/OnCodeThreads.lean`: the whole event log of the interpreted main thread read as the
  model's program; the operation sequences the model's main thread accepts are exactly the prefixes of its programs.
-/
import ClockBound.Properties.CodeTieThreads
import ClockBound.Properties.CodeTieWorkers
namespace ClockBound.OnCodeProof
open ClockBound ClockBound.Rs ClockBound.Rs.EmbedThreads ClockBound.Rs.EmbedWorkers ClockBound.Threads
open ClockBound.ThreadsProg ClockBound.Rs.ThreadsProof ClockBound.CodeTieThreads

theorem abs_nonNotice (m : RMsg) (x : Threads.Msg) (h : m.isNotice = false) (hx : m.abs = some x) :
    x.isNotice = false := by
  cases m <;> simp [RMsg.isNotice, RMsg.abs] at h hx <;> subst hx <;> rfl

theorem abs_notice (m : RMsg) (x : Threads.Msg) (h : m.isNotice = true) (hx : m.abs = some x) :
    x.isNotice = true := by
  cases m with
  | terminate c => cases c <;> simp [RMsg.abs] at hx <;> subst hx <;> rfl
  | panic c => cases c <;> simp [RMsg.abs] at hx <;> subst hx <;> rfl
  | data p => simp [RMsg.isNotice] at h
  | noData n => simp [RMsg.isNotice] at h
  | abort => simp [RMsg.isNotice] at h

/-- the model messages main ignored: the abstractions of the `k` messages received before the notice -/
def ignoredOf (k : Nat) (pre : Nat → RMsg) : List Threads.Msg := (List.range k).filterMap fun j => (pre j).abs

theorem ignoredOf_nonNotice (k : Nat) (pre : Nat → RMsg) (hnot : ∀ i, i < k → (pre i).isNotice = false) :
    ∀ x ∈ ignoredOf k pre, x.isNotice = false := by
  intro x hx
  simp only [ignoredOf, List.mem_filterMap, List.mem_range] at hx
  obtain ⟨j, hj, hjx⟩ := hx
  exact abs_nonNotice (pre j) x (hnot j hj) hjx

/-- THE WHOLE LOG of the main thread (from its loop on), read as model operations, is the model's program -/
theorem mainEvs_abs (k : Nat) (pre : Nat → RMsg) (m : RMsg) (n : Threads.Msg) (hm : m.abs = some n)
    (ks : List Thread) (hks : isOrder ks = true) (ok1 ok2 okP okW : Bool) (nP nW : String) :
    (mainEvs k pre (.ok m) ks ok1 ok2 nP nW okP okW).filterMap MainEv.abs
    = mainProg (ignoredOf k pre) n (firstWorker ks) := by
  have hsplit : mainEvs k pre (.ok m) ks ok1 ok2 nP nW okP okW
      = (List.range k).map (fun j => MainEv.recv (.ok (pre j)))
        ++ mainEvs 0 (fun _ => m) (.ok m) ks ok1 ok2 nP nW okP okW := by
    simp [mainEvs, List.append_assoc]
  rw [hsplit, List.filterMap_append, main_ops_tail ks hks m n hm ok1 ok2 okP okW nP nW]
  simp [mainProg, ignoredOf, List.filterMap_map, List.map_filterMap, Function.comp_def, MainEv.abs]

/-! ### the model's main thread accepts exactly the prefixes of its programs -/

theorem mainNexts_append (pc : MainPc) (a b : List MainOp) :
    mainNexts pc (a ++ b) = (mainNexts pc a).bind fun pc' => mainNexts pc' b := by
  induction a generalizing pc with
  | nil => rfl
  | cons x xs ih =>
    simp only [List.cons_append, mainNexts]
    cases mainNext pc x with
    | none => rfl
    | some pc' => exact ih pc'

/-- the shape of an operation sequence that takes the model's main thread from `loop` to `pc` -/
def Shape (ops : List MainOp) : MainPc → Prop
  | .loop => ∃ ig : List Threads.Msg, (∀ x ∈ ig, x.isNotice = false) ∧ ops = ig.map .recv
  | .bcast0 => ∃ (ig : List Threads.Msg) (n : Threads.Msg), (∀ x ∈ ig, x.isNotice = false) ∧ n.isNotice = true ∧ ops = ig.map .recv ++ [.recv n]
  | .bcastP => ∃ (ig : List Threads.Msg) (n : Threads.Msg), (∀ x ∈ ig, x.isNotice = false) ∧ n.isNotice = true ∧
      ops = ig.map .recv ++ [.recv n, .abort .poller]
  | .bcastW => ∃ (ig : List Threads.Msg) (n : Threads.Msg), (∀ x ∈ ig, x.isNotice = false) ∧ n.isNotice = true ∧
      ops = ig.map .recv ++ [.recv n, .abort .writer]
  | .joinP => ∃ (ig : List Threads.Msg) (n : Threads.Msg) (f : Worker), (∀ x ∈ ig, x.isNotice = false) ∧ n.isNotice = true ∧
      ops = ig.map .recv ++ [.recv n, .abort f, .abort (other f)]
  | .joinW => ∃ (ig : List Threads.Msg) (n : Threads.Msg) (f : Worker), (∀ x ∈ ig, x.isNotice = false) ∧ n.isNotice = true ∧
      ops = ig.map .recv ++ [.recv n, .abort f, .abort (other f), .join .poller]
  | .returned => ∃ (ig : List Threads.Msg) (n : Threads.Msg) (f : Worker), (∀ x ∈ ig, x.isNotice = false) ∧ n.isNotice = true ∧ ops = mainProg ig n f

theorem shape_step (acc : List MainOp) (pc0 pc1 : MainPc) (op : MainOp) (sh : Shape acc pc0)
    (h1 : mainNext pc0 op = some pc1) : Shape (acc ++ [op]) pc1 := by
  cases pc0 <;> cases op <;> simp only [mainNext, reduceCtorEq] at h1
  -- loop, recv
  · rename_i m
    obtain ⟨ig, hig, rfl⟩ := sh
    by_cases hn : m.isNotice = true
    · simp only [hn, if_true, Option.some.injEq] at h1
      subst h1
      exact ⟨ig, m, hig, hn, rfl⟩
    · have hn' : m.isNotice = false := by simpa using hn
      simp only [hn', Bool.false_eq_true, if_false, Option.some.injEq] at h1
      subst h1
      refine ⟨ig ++ [m], ?_, by simp⟩
      intro x hx
      rcases List.mem_append.mp hx with hx | hx
      · exact hig x hx
      · simp at hx; subst hx; exact hn'
  -- bcast0, abort w
  · rename_i w
    obtain ⟨ig, n, hig, hn, rfl⟩ := sh
    cases w <;> simp only [Option.some.injEq] at h1 <;> subst h1 <;>
      exact ⟨ig, n, hig, hn, by simp⟩
  -- bcastP, abort w
  · rename_i w
    obtain ⟨ig, n, hig, hn, rfl⟩ := sh
    cases w <;> simp only [Option.some.injEq, reduceCtorEq] at h1
    subst h1
    exact ⟨ig, n, .poller, hig, hn, by simp [other]⟩
  -- bcastW, abort w
  · rename_i w
    obtain ⟨ig, n, hig, hn, rfl⟩ := sh
    cases w <;> simp only [Option.some.injEq, reduceCtorEq] at h1
    subst h1
    exact ⟨ig, n, .writer, hig, hn, by simp [other]⟩
  -- joinP, join w
  · rename_i w
    obtain ⟨ig, n, f, hig, hn, rfl⟩ := sh
    cases w <;> simp only [Option.some.injEq, reduceCtorEq] at h1
    subst h1
    exact ⟨ig, n, f, hig, hn, by simp⟩
  -- joinW, join w
  · rename_i w
    obtain ⟨ig, n, f, hig, hn, rfl⟩ := sh
    cases w <;> simp only [Option.some.injEq, reduceCtorEq] at h1
    subst h1
    exact ⟨ig, n, f, hig, hn, by simp [mainProg]⟩

theorem shape_from (ops acc : List MainOp) (pc0 pc : MainPc) (sh : Shape acc pc0)
    (h : mainNexts pc0 ops = some pc) : Shape (acc ++ ops) pc := by
  induction ops generalizing acc pc0 with
  | nil =>
    simp only [mainNexts, Option.some.injEq] at h
    subst h
    simpa using sh
  | cons op rest ih =>
    simp only [mainNexts] at h
    cases h1 : mainNext pc0 op with
    | none => simp [h1] at h
    | some pc1 =>
      simp only [h1] at h
      have := ih (acc ++ [op]) pc1 (shape_step acc pc0 pc1 op sh h1) h
      simpa using this

theorem shape_of_accepts (ops : List MainOp) (pc : MainPc) (h : mainNexts .loop ops = some pc) : Shape ops pc := by
  have := shape_from ops [] .loop pc ⟨[], by simp, rfl⟩ h
  simpa using this

/-- every accepted sequence is a prefix of a program (a notice from the poller's panic completes a sequence that
    has not received one yet) -/
theorem prefix_of_accepts (ops : List MainOp) (pc : MainPc) (h : mainNexts .loop ops = some pc) :
    ∃ ig n f, (∀ x ∈ ig, x.isNotice = false) ∧ n.isNotice = true ∧ ops <+: mainProg ig n f := by
  have sh := shape_of_accepts ops pc h
  cases pc with
  | loop =>
    obtain ⟨ig, hig, rfl⟩ := sh
    exact ⟨ig, .notice .poller .panic, .poller, hig, rfl, by simp [mainProg]⟩
  | bcast0 =>
    obtain ⟨ig, n, hig, hn, rfl⟩ := sh
    exact ⟨ig, n, .poller, hig, hn, by simp [mainProg, List.prefix_append_right_inj]⟩
  | bcastP =>
    obtain ⟨ig, n, hig, hn, rfl⟩ := sh
    exact ⟨ig, n, .poller, hig, hn, by simp [mainProg, List.prefix_append_right_inj]⟩
  | bcastW =>
    obtain ⟨ig, n, hig, hn, rfl⟩ := sh
    exact ⟨ig, n, .writer, hig, hn, by simp [mainProg, List.prefix_append_right_inj]⟩
  | joinP =>
    obtain ⟨ig, n, f, hig, hn, rfl⟩ := sh
    exact ⟨ig, n, f, hig, hn, by simp [mainProg, List.prefix_append_right_inj]⟩
  | joinW =>
    obtain ⟨ig, n, f, hig, hn, rfl⟩ := sh
    exact ⟨ig, n, f, hig, hn, by simp [mainProg, List.prefix_append_right_inj]⟩
  | returned =>
    obtain ⟨ig, n, f, hig, hn, rfl⟩ := sh
    exact ⟨ig, n, f, hig, hn, List.prefix_refl _⟩

/-- conversely a prefix of a program is accepted -/
theorem accepts_of_prefix (ops : List MainOp) (ig : List Threads.Msg) (n : Threads.Msg) (f : Worker)
    (hig : ∀ x ∈ ig, x.isNotice = false) (hn : n.isNotice = true) (hp : ops <+: mainProg ig n f) :
    ∃ pc, mainNexts .loop ops = some pc := by
  obtain ⟨rest, hr⟩ := hp
  have h := mainNexts_prog ig n f hig hn
  rw [← hr, mainNexts_append] at h
  cases h0 : mainNexts .loop ops with
  | none => simp [h0] at h
  | some pc => exact ⟨pc, rfl⟩

/-! ### what the main thread does along a schedule of the model -/

/-- the operation the main thread performs when the model takes action `a` in state `s` (`none`: not a step of main) -/
def mainOpOf (s : State) : Action → Option MainOp
  | .main =>
    match s.m with
    | .loop => s.qM.head?.map .recv
    | .bcastP => some (.abort .writer)
    | .bcastW => some (.abort .poller)
    | .joinP => some (.join .poller)
    | .joinW => some (.join .writer)
    | _ => none
  | .mainAbort w => if s.m = .bcast0 then some (.abort w) else none
  | _ => none

/-- main's operations along a schedule -/
def mainTrace : State → List Action → List MainOp
  | _, [] => []
  | s, a :: rest =>
    match step s a with
    | some s' => (mainOpOf s a).toList ++ mainTrace s' rest
    | none => []

theorem step_mainOp {s s' : State} {a : Action} (h : step s a = some s') :
    mainNexts s.m (mainOpOf s a).toList = some s'.m := by
  obtain ⟨m, p, w, qM, qP, qW, rxP, rxW⟩ := s
  cases a with
  | main =>
    cases m <;> simp only [step, stepMain, mainOpOf] at h ⊢
    · cases qM with
      | nil => simp at h
      | cons x rest =>
        simp only [Option.some.injEq] at h
        subst h
        simp [mainNexts, mainNext]
    · simp at h
    · simp only [Option.some.injEq] at h; subst h; simp [mainNexts, mainNext]
    · simp only [Option.some.injEq] at h; subst h; simp [mainNexts, mainNext]
    · split at h
      · simp only [Option.some.injEq] at h; subst h; simp [mainNexts, mainNext]
      · simp at h
    · split at h
      · simp only [Option.some.injEq] at h; subst h; simp [mainNexts, mainNext]
      · simp at h
    · simp at h
  | mainAbort x =>
    cases x <;> simp only [step, mainOpOf] at h ⊢ <;> split at h <;> simp only [Option.some.injEq, reduceCtorEq] at h
    all_goals (subst h; rename_i hm; have hm' : m = .bcast0 := hm; subst hm'; simp [mainNexts, mainNext])
  | poller =>
    have hm : s'.m = m := by
      simp only [step, stepPoller] at h
      cases p <;> simp only [] at h <;> (try split at h) <;> (try simp only [Option.some.injEq, reduceCtorEq] at h) <;>
        (try (subst h; rfl))
    simp [mainOpOf, mainNexts, hm]
  | pollerTimeout => simp only [step] at h; split at h <;> simp at h; subst h; simp [mainOpOf, mainNexts]
  | pollerClockFail => simp only [step] at h; split at h <;> simp at h; subst h; simp [mainOpOf, mainNexts]
  | pollerDie k => simp only [step] at h; split at h <;> simp at h; subst h; simp [mainOpOf, mainNexts]
  | writer =>
    have hm : s'.m = m := by
      simp only [step, stepWriter] at h
      cases w <;> simp only [] at h <;> (try split at h) <;> (try simp only [Option.some.injEq, reduceCtorEq] at h) <;>
        (try (subst h; rfl))
    simp [mainOpOf, mainNexts, hm]
  | writerDie k => simp only [step] at h; split at h <;> simp at h; subst h; simp [mainOpOf, mainNexts]

/-- along every schedule the operations of main are accepted by its control flow, and lead to its current pc -/
theorem run_mainTrace (s s' : State) (acts : List Action) (h : Threads.run s acts = some s') :
    mainNexts s.m (mainTrace s acts) = some s'.m := by
  induction acts generalizing s with
  | nil =>
    simp only [Threads.run, Option.some.injEq] at h
    subst h
    rfl
  | cons a rest ih =>
    simp only [Threads.run] at h
    cases hs : step s a with
    | none => simp [hs] at h
    | some s1 =>
      simp only [hs] at h
      simp only [mainTrace, hs, mainNexts_append, step_mainOp hs, Option.bind_some]
      exact ih s1 h

/-! ### every model message is the abstraction of a Rust message -/

def reprMsg : Threads.Msg → RMsg
  | .data => .noData .chrony
  | .abort => .abort
  | .notice .poller .terminate => .terminate .poller
  | .notice .poller .panic => .panic .poller
  | .notice .writer .terminate => .terminate .writer
  | .notice .writer .panic => .panic .writer

theorem reprMsg_abs (x : Threads.Msg) : (reprMsg x).abs = some x := by
  cases x with
  | data => rfl
  | abort => rfl
  | notice w k => cases w <;> cases k <;> rfl

theorem reprMsg_isNotice (x : Threads.Msg) : (reprMsg x).isNotice = x.isNotice := by
  cases x with
  | data => rfl
  | abort => rfl
  | notice w k => cases w <;> cases k <;> rfl

theorem range_map_getD {α : Type} (l : List α) (d : α) : (List.range l.length).map (fun j => l.getD j d) = l := by
  induction l with
  | nil => rfl
  | cons a l ih =>
    rw [List.length_cons, List.range_succ_eq_map, List.map_cons, List.map_map]
    simp only [List.getD_cons_zero, Function.comp_def, List.getD_cons_succ]
    rw [ih]

theorem getD_mem {α : Type} (l : List α) (d : α) (i : Nat) (h : i < l.length) : l.getD i d ∈ l := by
  induction l generalizing i with
  | nil => simp at h
  | cons a l ih =>
    cases i with
    | zero => simp
    | succ j =>
      simp only [List.length_cons, Nat.add_lt_add_iff_right] at h
      simp only [List.getD_cons_succ, List.mem_cons]
      exact Or.inr (ih j h)

theorem filterMap_some {α β : Type} (g : α → β) (l : List α) :
    l.filterMap (fun a => some (g a)) = l.map g := by
  induction l with
  | nil => rfl
  | cons a l ih => simp [List.filterMap_cons, ih]

theorem ignoredOf_repr (ig : List Threads.Msg) :
    ignoredOf ig.length (fun j => reprMsg (ig.getD j .data)) = ig := by
  simp only [ignoredOf, reprMsg_abs]
  rw [filterMap_some]
  exact range_map_getD ig .data

/-- a box whose first worker is `f` -/
def orderOf : Worker → List Thread
  | .poller => [.poller, .main, .writer]
  | .writer => [.writer, .main, .poller]

theorem orderOf_isOrder (f : Worker) : isOrder (orderOf f) = true := by cases f <;> decide
theorem orderOf_first (f : Worker) : firstWorker (orderOf f) = f := by cases f <;> rfl

end ClockBound.OnCodeProof
