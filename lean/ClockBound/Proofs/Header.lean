/-
  Helper lemmas for C16 / C17: little-endian encode/decode, in-place stores (`patch`) and reads
  (`slice`), header parsing before and after the writer's stores.
-/
import ClockBound.Model.OraclesH
namespace ClockBound

theorem length_encLE (n v : Nat) : (encLE n v).length = n := by
  induction n generalizing v with
  | zero => rfl
  | succ n ih => simp [encLE, ih]

theorem length_padBytes (pad : Bytes) : (padBytes pad).length = 4 := by
  simp [padBytes, ZERO_PAD]

theorem getElem?_slice (bs : Bytes) (off n i : Nat) :
    (slice bs off n)[i]? = if i < n then bs[off + i]? else none := by
  unfold slice
  rw [List.getElem?_take]
  split <;> simp [List.getElem?_drop]

theorem getElem?_patch (bs : Bytes) (off : Nat) (new : Bytes) (i : Nat) :
    (patch bs off new)[i]? =
      bs[i]?.map (fun b => if off ≤ i ∧ i < off + new.length then new.getD (i - off) 0 else b) := by
  unfold patch
  rw [List.getElem?_mapIdx]

theorem length_patch (bs : Bytes) (off : Nat) (new : Bytes) : (patch bs off new).length = bs.length := by
  unfold patch; rw [List.length_mapIdx]

theorem length_slice (bs : Bytes) (off n : Nat) (h : off + n ≤ bs.length) : (slice bs off n).length = n := by
  unfold slice; rw [List.length_take, List.length_drop]; omega

/-- a store does not disturb bytes outside its range -/
theorem slice_patch_disjoint (bs : Bytes) (off : Nat) (new : Bytes) (o n : Nat)
    (h : o + n ≤ off ∨ off + new.length ≤ o) : slice (patch bs off new) o n = slice bs o n := by
  apply List.ext_getElem?
  intro i
  rw [getElem?_slice, getElem?_slice, getElem?_patch]
  split
  · cases hb : bs[o + i]? with
    | none => rfl
    | some b =>
      simp only [Option.map_some]
      rw [if_neg (by omega)]
  · rfl

/-- a store that fits into the file reads back -/
theorem slice_patch_same (bs : Bytes) (off : Nat) (new : Bytes) (h : off + new.length ≤ bs.length) :
    slice (patch bs off new) off new.length = new := by
  apply List.ext_getElem?
  intro i
  rw [getElem?_slice, getElem?_patch]
  split
  · rename_i hi
    have hlt : off + i < bs.length := by omega
    rw [List.getElem?_eq_getElem hlt, Option.map_some, if_pos (by omega)]
    have : off + i - off = i := by omega
    rw [this, List.getElem?_eq_getElem hi, List.getD_eq_getElem?_getD, List.getElem?_eq_getElem hi]
    rfl
  · rename_i hi
    rw [List.getElem?_eq_none (by omega)]

/-- part of a store that fits into the file reads back -/
theorem slice_patch_inside (bs : Bytes) (off : Nat) (new : Bytes) (o n : Nat)
    (h : off + new.length ≤ bs.length) (ho : off ≤ o) (hn : o + n ≤ off + new.length) :
    slice (patch bs off new) o n = slice new (o - off) n := by
  apply List.ext_getElem?
  intro i
  rw [getElem?_slice, getElem?_slice, getElem?_patch]
  split
  · rename_i hi
    have hlt : o + i < bs.length := by omega
    rw [List.getElem?_eq_getElem hlt, Option.map_some, if_pos (by omega)]
    have h2 : o + i - off = o - off + i := by omega
    have h3 : o - off + i < new.length := by omega
    rw [h2, List.getElem?_eq_getElem h3, List.getD_eq_getElem?_getD, List.getElem?_eq_getElem h3]
    rfl
  · rfl

/-! ### integers -/

theorem decLE_encLE (n v : Nat) : decLE (encLE n v) = v % 256 ^ n := by
  induction n generalizing v with
  | zero => simp [encLE, decLE, Nat.mod_one]
  | succ n ih =>
    simp only [encLE, decLE, ih]
    rw [Nat.pow_succ, Nat.mul_comm (256 ^ n) 256, Nat.mod_mul]

theorem decLE_encU16 (v : Nat) (h : v < TWO16) : decLE (encU16 v) = v := by
  unfold encU16; rw [decLE_encLE]; unfold TWO16 at h; omega

theorem decLE_encU32 (v : Nat) (h : v < TWO32) : decLE (encU32 v) = v := by
  unfold encU32; rw [decLE_encLE]; unfold TWO32 at h; omega

theorem decI64_encI64 (x : Int) (h : i64InRange x) : decI64 (encI64 x) = x := by
  unfold i64InRange TWO63 at h
  unfold decI64 encI64
  simp only [decLE_encLE]
  unfold TWO63 TWO64
  have e : (256 : Nat) ^ 8 = 18446744073709551616 := by decide
  rw [e]
  have hnn : (0 : Int) ≤ x % ((18446744073709551616 : Nat) : Int) := Int.emod_nonneg _ (by decide)
  have hlt : x % ((18446744073709551616 : Nat) : Int) < 18446744073709551616 := Int.emod_lt_of_pos _ (by decide)
  have hm : (x % ((18446744073709551616 : Nat) : Int)).toNat % 18446744073709551616
      = (x % ((18446744073709551616 : Nat) : Int)).toNat := by
    apply Nat.mod_eq_of_lt; omega
  rw [hm]
  split <;> omega

/-! ### the record -/

theorem length_encodeRecordP (r : Record) (pad : Bytes) : (encodeRecordP r pad).length = 56 := by
  simp [encodeRecordP, encI64, encU32, length_encLE, length_padBytes]

theorem length_encodeHeader (h : Header) : (encodeHeader h).length = 16 := by
  simp [encodeHeader, encU16, encU32, length_encLE]

theorem length_encodeSegmentP (h : Header) (r : Record) (pad : Bytes) : (encodeSegmentP h r pad).length = 72 := by
  simp [encodeSegmentP, length_encodeHeader, length_encodeRecordP]

theorem ofCode_code (s : Status) : Status.ofCode s.code = some s := by cases s <;> rfl

theorem code_lt (s : Status) : s.code < TWO32 := by cases s <;> decide

theorem decodeRecord_encodeRecordP (r : Record) (pad : Bytes) (hr : r.inRange) :
    decodeRecord (encodeRecordP r pad) = some r := by
  obtain ⟨h1, h2, h3, h4, h5, h6, h7⟩ := hr
  unfold decodeRecord
  rw [if_neg (by rw [length_encodeRecordP]; decide)]
  have e0 : slice (encodeRecordP r pad) 0 8 = encI64 r.asOf.sec := rfl
  have e1 : slice (encodeRecordP r pad) 8 8 = encI64 r.asOf.nsec := rfl
  have e2 : slice (encodeRecordP r pad) 16 8 = encI64 r.voidAfter.sec := rfl
  have e3 : slice (encodeRecordP r pad) 24 8 = encI64 r.voidAfter.nsec := rfl
  have e4 : slice (encodeRecordP r pad) 32 8 = encI64 r.bound := rfl
  have e5 : slice (encodeRecordP r pad) 40 4 = encU32 r.drift := rfl
  have e6 : slice (encodeRecordP r pad) 44 4 = encU32 r.reserved := rfl
  have e7 : slice (encodeRecordP r pad) 48 4 = encU32 r.status.code := rfl
  rw [e0, e1, e2, e3, e4, e5, e6, e7, decLE_encU32 _ (code_lt _), ofCode_code]
  simp only [decI64_encI64 _ h1, decI64_encI64 _ h2, decI64_encI64 _ h3, decI64_encI64 _ h4,
    decI64_encI64 _ h5, decLE_encU32 _ h6, decLE_encU32 _ h7]

/-! ### the header -/

theorem parseHeader_encodeHeader_append (h : Header) (rest : Bytes) (hh : h.inRange) :
    parseHeader (encodeHeader h ++ rest) = h := by
  obtain ⟨h1, h2, h3, h4, h5⟩ := hh
  have e0 : slice (encodeHeader h ++ rest) 0 4 = encU32 h.magic0 := rfl
  have e1 : slice (encodeHeader h ++ rest) 4 4 = encU32 h.magic1 := rfl
  have e2 : slice (encodeHeader h ++ rest) 8 4 = encU32 h.segsize := rfl
  have e3 : slice (encodeHeader h ++ rest) 12 2 = encU16 h.version := rfl
  have e4 : slice (encodeHeader h ++ rest) 14 2 = encU16 h.generation := rfl
  unfold parseHeader
  rw [e0, e1, e2, e3, e4, decLE_encU32 _ h1, decLE_encU32 _ h2, decLE_encU32 _ h3, decLE_encU16 _ h4,
    decLE_encU16 _ h5]

theorem decodeSegment_encodeSegmentP (h : Header) (r : Record) (pad : Bytes) (hh : h.inRange) (hr : r.inRange) :
    decodeSegment (encodeSegmentP h r pad) = some (h, r) := by
  unfold decodeSegment
  rw [if_neg (by rw [length_encodeSegmentP]; decide)]
  have e : slice (encodeSegmentP h r pad) HEADER_SIZE RECORD_SIZE = encodeRecordP r pad := by
    unfold encodeSegmentP slice HEADER_SIZE RECORD_SIZE
    rw [List.drop_left' (length_encodeHeader h), List.take_of_length_le (by rw [length_encodeRecordP]; decide)]
  rw [e, decodeRecord_encodeRecordP r pad hr]
  unfold encodeSegmentP
  rw [parseHeader_encodeHeader_append h _ hh]
  rfl

/-! ### generation arithmetic of the first write -/

theorem genFinish_lt (g : Nat) : genFinish g < TWO16 := by
  unfold genFinish TWO16; simp only []; split <;> omega

theorem genFinish_ne_zero (g : Nat) : genFinish g ≠ 0 := by
  unfold genFinish; simp only []; split <;> omega

theorem genFinish_genStart_even (g : Nat) : genFinish (genStart g) % 2 = 0 := by
  unfold genFinish genStart; simp only []; split <;> split <;> omega

/-! ### the writer's stores -/

theorem padBytes_eq (pad : Bytes) : ∃ a b c d, padBytes pad = [a, b, c, d] := by
  have h := length_padBytes pad
  generalize padBytes pad = l at h
  match l, h with
  | [a, b, c, d], _ => exact ⟨a, b, c, d, rfl⟩

theorem length_writeRecord (bs : Bytes) (r : Record) (pad : Bytes) : (writeRecord bs r pad).length = bs.length := by
  unfold writeRecord; simp only [length_patch]

/-- header of a segment that was taken over (version store, then one `write`) -/
theorem parseHeader_takeover (bs : Bytes) (r : Record) (pad : Bytes) (hlen : 16 ≤ bs.length) :
    parseHeader (writeRecord (patch bs 12 (encU16 1)) r pad) =
      { parseHeader bs with version := 1,
                            generation := genFinish (genStart (parseHeader bs).generation) } := by
  have hg : (parseHeader (patch bs 12 (encU16 1))).generation = (parseHeader bs).generation := by
    unfold parseHeader; simp only []
    rw [slice_patch_disjoint _ _ _ _ _ (Or.inr (by decide))]
  unfold writeRecord
  rw [hg]
  generalize (parseHeader bs).generation = g
  simp only []
  have l0 := length_patch bs 12 (encU16 1)
  have l1 := length_patch (patch bs 12 (encU16 1)) 14 (encU16 (genStart g))
  have l2 := length_patch (patch (patch bs 12 (encU16 1)) 14 (encU16 (genStart g))) HEADER_SIZE (encodeRecordP r pad)
  have hv : slice (patch bs 12 (encU16 1)) 12 2 = encU16 1 :=
    slice_patch_same bs 12 (encU16 1) (by show 12 + 2 ≤ bs.length; omega)
  have hgf : slice (patch (patch (patch (patch bs 12 (encU16 1)) 14 (encU16 (genStart g))) HEADER_SIZE
      (encodeRecordP r pad)) 14 (encU16 (genFinish (genStart g)))) 14 2 = encU16 (genFinish (genStart g)) :=
    slice_patch_same _ 14 (encU16 (genFinish (genStart g))) (by show 14 + 2 ≤ _; omega)
  have lr : (encodeRecordP r pad).length = 56 := length_encodeRecordP r pad
  unfold parseHeader
  simp only [Header.mk.injEq]
  refine ⟨?_, ?_, ?_, ?_, ?_⟩
  · rw [slice_patch_disjoint _ _ _ _ _ (Or.inl (by decide)), slice_patch_disjoint _ _ _ _ _ (Or.inl (by decide)),
      slice_patch_disjoint _ _ _ _ _ (Or.inl (by decide)), slice_patch_disjoint _ _ _ _ _ (Or.inl (by decide))]
  · rw [slice_patch_disjoint _ _ _ _ _ (Or.inl (by decide)), slice_patch_disjoint _ _ _ _ _ (Or.inl (by decide)),
      slice_patch_disjoint _ _ _ _ _ (Or.inl (by decide)), slice_patch_disjoint _ _ _ _ _ (Or.inl (by decide))]
  · rw [slice_patch_disjoint _ _ _ _ _ (Or.inl (by decide)), slice_patch_disjoint _ _ _ _ _ (Or.inl (by decide)),
      slice_patch_disjoint _ _ _ _ _ (Or.inl (by decide)), slice_patch_disjoint _ _ _ _ _ (Or.inl (by decide))]
  · rw [slice_patch_disjoint _ _ _ _ _ (Or.inl (by decide)), slice_patch_disjoint _ _ _ _ _ (Or.inl (by decide)),
      slice_patch_disjoint _ _ _ _ _ (Or.inl (by decide)), hv]
    exact decLE_encU16 1 (by decide)
  · rw [hgf]
    exact decLE_encU16 _ (genFinish_lt _)

/-- the record area after one `write`, when it lies inside the file -/
theorem record_after_write (bs : Bytes) (r : Record) (pad : Bytes) (hlen : 72 ≤ bs.length) :
    slice (writeRecord bs r pad) HEADER_SIZE RECORD_SIZE = encodeRecordP r pad := by
  unfold writeRecord
  simp only []
  rw [slice_patch_disjoint _ _ _ _ _ (Or.inr (by show 14 + 2 ≤ 16; decide))]
  have lr : (encodeRecordP r pad).length = RECORD_SIZE := length_encodeRecordP r pad
  rw [← lr]
  apply slice_patch_same
  rw [length_patch, lr]
  exact hlen

theorem slice_append_slice (bs : Bytes) (o n m : Nat) :
    slice bs o n ++ slice bs (o + n) m = slice bs o (n + m) := by
  unfold slice
  rw [List.take_add, List.drop_drop]

theorem slice_all (bs : Bytes) : slice bs 0 bs.length = bs := by
  unfold slice; simp

theorem wipe_header : parseHeader wipeBytes = ⟨MAGIC0, MAGIC1, SEGMENT_SIZE, 0, 0⟩ := by decide

theorem length_wipeBytes : wipeBytes.length = 72 := by decide

/-- byte-level view of a take-over: the first twelve bytes are never stored to -/
theorem takeover_bytes (bs : Bytes) (r : Record) (pad : Bytes) (hlen : 16 ≤ bs.length) :
    slice (writeRecord (patch bs 12 (encU16 1)) r pad) 0 12 = slice bs 0 12 ∧
    slice (writeRecord (patch bs 12 (encU16 1)) r pad) 12 2 = encU16 1 ∧
    slice (writeRecord (patch bs 12 (encU16 1)) r pad) 14 2 =
      encU16 (genFinish (genStart (parseHeader bs).generation)) := by
  have hg : (parseHeader (patch bs 12 (encU16 1))).generation = (parseHeader bs).generation := by
    unfold parseHeader; simp only []
    rw [slice_patch_disjoint _ _ _ _ _ (Or.inr (by decide))]
  unfold writeRecord
  rw [hg]
  generalize (parseHeader bs).generation = g
  simp only []
  have l0 := length_patch bs 12 (encU16 1)
  have l1 := length_patch (patch bs 12 (encU16 1)) 14 (encU16 (genStart g))
  have l2 := length_patch (patch (patch bs 12 (encU16 1)) 14 (encU16 (genStart g))) HEADER_SIZE (encodeRecordP r pad)
  refine ⟨?_, ?_, ?_⟩
  · rw [slice_patch_disjoint _ _ _ _ _ (Or.inl (by decide)), slice_patch_disjoint _ _ _ _ _ (Or.inl (by decide)),
      slice_patch_disjoint _ _ _ _ _ (Or.inl (by decide)), slice_patch_disjoint _ _ _ _ _ (Or.inl (by decide))]
  · rw [slice_patch_disjoint _ _ _ _ _ (Or.inl (by decide)), slice_patch_disjoint _ _ _ _ _ (Or.inl (by decide)),
      slice_patch_disjoint _ _ _ _ _ (Or.inl (by decide))]
    exact slice_patch_same bs 12 (encU16 1) (by show 12 + 2 ≤ bs.length; omega)
  · exact slice_patch_same _ 14 (encU16 (genFinish (genStart g))) (by show 14 + 2 ≤ _; omega)

/-- the file the daemon re-creates, after the first publication -/
theorem recreated_bytes (r : Record) (pad : Bytes) :
    writeRecord (patch wipeBytes 12 (encU16 1)) r pad =
      encodeSegmentP ⟨MAGIC0, MAGIC1, SEGMENT_SIZE, 1, 2⟩ r pad := by
  have hl : (writeRecord (patch wipeBytes 12 (encU16 1)) r pad).length = 12 + 2 + 2 + 56 := by
    rw [length_writeRecord, length_patch, length_wipeBytes]
  obtain ⟨hA, hB, hC⟩ := takeover_bytes wipeBytes r pad (by rw [length_wipeBytes]; decide)
  have hrec := record_after_write (patch wipeBytes 12 (encU16 1)) r pad
    (by rw [length_patch, length_wipeBytes]; decide)
  rw [wipe_header] at hC
  generalize writeRecord (patch wipeBytes 12 (encU16 1)) r pad = W at *
  have hsplit : W = slice W 0 12 ++ slice W 12 2 ++ slice W 14 2 ++ slice W 16 56 := by
    rw [slice_append_slice W 0 12 2, slice_append_slice W 0 (12 + 2) 2, slice_append_slice W 0 (12 + 2 + 2) 56,
      ← hl, slice_all]
  rw [hsplit, hA, hB, hC]
  unfold HEADER_SIZE RECORD_SIZE at hrec
  rw [hrec]
  rfl

/-! ### `ShmHeader::read` / `ShmReader::new` by cases -/

/-- the three mutually exclusive situations `ShmHeader::read` distinguishes -/
def hdrNotInit (bs : Bytes) : Prop :=
  bs.length < 16 ∨ ¬ ((parseHeader bs).magic0 = MAGIC0 ∧ (parseHeader bs).magic1 = MAGIC1) ∨
    (parseHeader bs).version = 0 ∨ (parseHeader bs).generation = 0
def hdrGood (bs : Bytes) : Prop :=
  16 ≤ bs.length ∧ (parseHeader bs).magic0 = MAGIC0 ∧ (parseHeader bs).magic1 = MAGIC1 ∧
    (parseHeader bs).version ≠ 0 ∧ (parseHeader bs).generation ≠ 0

theorem hdr_cases (bs : Bytes) : hdrNotInit bs ∨ hdrGood bs := by
  unfold hdrNotInit hdrGood
  by_cases h1 : bs.length < 16
  · exact Or.inl (Or.inl h1)
  by_cases h2 : (parseHeader bs).magic0 = MAGIC0 ∧ (parseHeader bs).magic1 = MAGIC1
  · by_cases h3 : (parseHeader bs).version = 0
    · exact Or.inl (Or.inr (Or.inr (Or.inl h3)))
    by_cases h4 : (parseHeader bs).generation = 0
    · exact Or.inl (Or.inr (Or.inr (Or.inr h4)))
    exact Or.inr ⟨by omega, h2.1, h2.2, h3, h4⟩
  · exact Or.inl (Or.inr (Or.inl h2))

theorem hdr_excl (bs : Bytes) (a : hdrNotInit bs) (b : hdrGood bs) : False := by
  obtain ⟨b1, b2, b3, b4, b5⟩ := b
  rcases a with a | a | a | a
  · omega
  · exact a ⟨b2, b3⟩
  · exact b4 a
  · exact b5 a

theorem readHeader_notInit (bs : Bytes) (h : hdrNotInit bs) : readHeader bs = .error .notInit := by
  unfold readHeader HEADER_SIZE
  by_cases h1 : bs.length < 16
  · rw [if_pos h1]
  rw [if_neg h1]; simp only []
  by_cases h2 : (parseHeader bs).magic0 = MAGIC0 ∧ (parseHeader bs).magic1 = MAGIC1
  · rw [if_neg (not_not_intro h2)]
    by_cases h3 : (parseHeader bs).version = 0
    · rw [if_pos h3]
    rw [if_neg h3]
    by_cases h4 : (parseHeader bs).generation = 0
    · rw [if_pos h4]
    exfalso; rcases h with h | h | h | h <;> contradiction
  · rw [if_pos h2]

theorem readHeader_good (bs : Bytes) (h : hdrGood bs) :
    readHeader bs = if (parseHeader bs).segsize < 16 then .error .malformed else .ok (parseHeader bs) := by
  obtain ⟨b1, b2, b3, b4, b5⟩ := h
  unfold readHeader HEADER_SIZE
  rw [if_neg (by omega)]; simp only []
  rw [if_neg (not_not_intro ⟨b2, b3⟩), if_neg b4, if_neg b5]

theorem readerOpenLim_file (lim : Option Nat) (bs : Bytes) :
    readerOpenLim lim (.file bs) =
      match readHeader bs with
      | .error e => .error e
      | .ok h =>
        if (match lim with | some L => decide (L < h.segsize) | none => false) then .error (.sys ENOMEM .mmap)
        else if h.segsize < SEGMENT_SIZE then .error .malformed
        else .ok h := rfl

theorem readerOpen_notInit (bs : Bytes) (h : hdrNotInit bs) : readerOpen (.file bs) = .error .notInit := by
  unfold readerOpen; rw [readerOpenLim_file, readHeader_notInit bs h]

theorem readerOpen_good (bs : Bytes) (h : hdrGood bs) :
    readerOpen (.file bs) = if (parseHeader bs).segsize < 72 then .error .malformed else .ok (parseHeader bs) := by
  unfold readerOpen; rw [readerOpenLim_file, readHeader_good bs h]
  by_cases h5 : (parseHeader bs).segsize < 16
  · rw [if_pos h5, if_pos (by omega)]
  · rw [if_neg h5]; simp only [Bool.false_eq_true, if_false, SEGMENT_SIZE]; rfl

theorem readerOpenLim_good (L : Nat) (bs : Bytes) (h : hdrGood bs) (h16 : 16 ≤ (parseHeader bs).segsize) :
    readerOpenLim (some L) (.file bs) =
      if L < (parseHeader bs).segsize then .error (.sys ENOMEM .mmap)
      else if (parseHeader bs).segsize < 72 then .error .malformed else .ok (parseHeader bs) := by
  rw [readerOpenLim_file, readHeader_good bs h, if_neg (by omega)]
  simp only [decide_eq_true_eq, SEGMENT_SIZE]; rfl

theorem readerOpen_ok_iff (bs : Bytes) (h : Header) :
    readerOpen (.file bs) = .ok h ↔
      16 ≤ bs.length ∧ h = parseHeader bs ∧ h.magic0 = MAGIC0 ∧ h.magic1 = MAGIC1 ∧
      h.version ≠ 0 ∧ h.generation ≠ 0 ∧ 72 ≤ h.segsize := by
  constructor
  · intro hyp
    rcases hdr_cases bs with hn | hg
    · rw [readerOpen_notInit bs hn] at hyp; cases hyp
    · rw [readerOpen_good bs hg] at hyp
      split at hyp
      · cases hyp
      · injection hyp with hyp; subst hyp
        exact ⟨hg.1, rfl, hg.2.1, hg.2.2.1, hg.2.2.2.1, hg.2.2.2.2, by omega⟩
  · rintro ⟨hl, rfl, hm0, hm1, hv, hg, hs⟩
    rw [readerOpen_good bs ⟨hl, hm0, hm1, hv, hg⟩, if_neg (by omega)]

/-! ### growing a short usable file (`set_len(72)`) -/

theorem length_extendToSegment (bs : Bytes) : (extendToSegment bs).length = max bs.length 72 := by
  unfold extendToSegment SEGMENT_SIZE
  rw [List.length_append, List.length_replicate]; omega

theorem le_length_extendToSegment (bs : Bytes) : 72 ≤ (extendToSegment bs).length := by
  rw [length_extendToSegment]; omega

/-- a file of 72 bytes or more is not touched -/
theorem extendToSegment_of_le (bs : Bytes) (h : 72 ≤ bs.length) : extendToSegment bs = bs := by
  unfold extendToSegment SEGMENT_SIZE
  have : 72 - bs.length = 0 := by omega
  rw [this]; simp

theorem slice_append_left (a b : Bytes) (o n : Nat) (h : o + n ≤ a.length) :
    slice (a ++ b) o n = slice a o n := by
  apply List.ext_getElem?
  intro i
  rw [getElem?_slice, getElem?_slice]
  split
  · rw [List.getElem?_append_left (by omega)]
  · rfl

/-- the existing bytes stay: in particular the header is read as before -/
theorem slice_extendToSegment (bs : Bytes) (o n : Nat) (h : o + n ≤ bs.length) :
    slice (extendToSegment bs) o n = slice bs o n := slice_append_left _ _ o n h

theorem parseHeader_extendToSegment (bs : Bytes) (h : 16 ≤ bs.length) :
    parseHeader (extendToSegment bs) = parseHeader bs := by
  unfold parseHeader
  rw [slice_extendToSegment bs 0 4 (by omega), slice_extendToSegment bs 4 4 (by omega),
    slice_extendToSegment bs 8 4 (by omega), slice_extendToSegment bs 12 2 (by omega),
    slice_extendToSegment bs 14 2 (by omega)]

/-- header of a usable segment after start-up and one `write` -/
theorem parseHeader_takeover_ext (bs : Bytes) (r : Record) (pad : Bytes) (hlen : 16 ≤ bs.length) :
    parseHeader (writeRecord (patch (extendToSegment bs) 12 (encU16 1)) r pad) =
      { parseHeader bs with version := 1,
                            generation := genFinish (genStart (parseHeader bs).generation) } := by
  rw [parseHeader_takeover _ r pad (by have := le_length_extendToSegment bs; omega),
    parseHeader_extendToSegment bs hlen]

theorem length_takeover_ext (bs : Bytes) (r : Record) (pad : Bytes) :
    (writeRecord (patch (extendToSegment bs) 12 (encU16 1)) r pad).length = max bs.length 72 := by
  rw [length_writeRecord, length_patch, length_extendToSegment]

/-- the record area of a usable segment after start-up and one `write`: always inside the file -/
theorem record_after_takeover_ext (bs : Bytes) (r : Record) (pad : Bytes) :
    slice (writeRecord (patch (extendToSegment bs) 12 (encU16 1)) r pad) HEADER_SIZE RECORD_SIZE =
      encodeRecordP r pad :=
  record_after_write _ r pad (by rw [length_patch]; exact le_length_extendToSegment bs)

/-- a usable file of at most 72 bytes, after start-up and one `write`, byte for byte: its first twelve
    bytes, version 1, the advanced generation, the record (nothing of the zero fill, and nothing of
    what the file held from byte 16 on, survives) -/
theorem extended_bytes (bs : Bytes) (r : Record) (pad : Bytes) (hlen : 16 ≤ bs.length) (hshort : bs.length ≤ 72) :
    writeRecord (patch (extendToSegment bs) 12 (encU16 1)) r pad =
      slice bs 0 12 ++ encU16 1 ++ encU16 (genFinish (genStart (parseHeader bs).generation)) ++
        encodeRecordP r pad := by
  have hl : (writeRecord (patch (extendToSegment bs) 12 (encU16 1)) r pad).length = 12 + 2 + 2 + 56 := by
    rw [length_takeover_ext]; omega
  obtain ⟨hA, hB, hC⟩ := takeover_bytes (extendToSegment bs) r pad
    (by have := le_length_extendToSegment bs; omega)
  have hrec := record_after_takeover_ext bs r pad
  rw [parseHeader_extendToSegment bs hlen] at hC
  rw [slice_extendToSegment bs 0 12 (by omega)] at hA
  generalize writeRecord (patch (extendToSegment bs) 12 (encU16 1)) r pad = W at *
  have hsplit : W = slice W 0 12 ++ slice W 12 2 ++ slice W 14 2 ++ slice W 16 56 := by
    rw [slice_append_slice W 0 12 2, slice_append_slice W 0 (12 + 2) 2, slice_append_slice W 0 (12 + 2 + 2) 56,
      ← hl, slice_all]
  unfold HEADER_SIZE RECORD_SIZE at hrec
  rw [hsplit, hA, hB, hC, hrec]

theorem writerNew_usable (bs : Bytes) (h : Header) (hok : readerOpen (.file bs) = .ok h) :
    writerNew (.file bs) = .ok (.file (patch (extendToSegment bs) 12 (encU16 1)), false) := by
  unfold writerNew; rw [hok]

theorem slice_append_right (a b : Bytes) (o n : Nat) (ha : a.length = o) (hb : b.length ≤ n) :
    slice (a ++ b) o n = b := by
  subst ha
  unfold slice
  rw [List.drop_left, List.take_of_length_le hb]

/-- the four padding bytes as they are observed in a 72-byte image -/
theorem pad_of_image (hd : Bytes) (v g : Nat) (r : Record) (pad : Bytes) (h12 : hd.length = 12) :
    slice (hd ++ encU16 v ++ encU16 g ++ encodeRecordP r pad) 68 4 = padBytes pad := by
  unfold encodeRecordP
  simp only [← List.append_assoc]
  apply slice_append_right _ _ 68 4
  · simp only [List.length_append, h12, encU16, encU32, encI64, length_encLE]
  · rw [length_padBytes]; decide

theorem encodeRecordP_padBytes (r : Record) (pad : Bytes) : encodeRecordP r (padBytes pad) = encodeRecordP r pad := by
  unfold encodeRecordP
  have : padBytes (padBytes pad) = padBytes pad := by
    obtain ⟨a, b, c, d, e⟩ := padBytes_eq pad
    rw [e]; rfl
  rw [this]

theorem startAndPublish_usable (bs : Bytes) (h : Header) (r : Record) (pad : Bytes)
    (hok : readerOpen (.file bs) = .ok h) :
    startAndPublish (.file bs) r pad =
      .ok (.file (writeRecord (patch (extendToSegment bs) 12 (encU16 1)) r pad), false) := by
  unfold startAndPublish; rw [writerNew_usable bs h hok]; rfl

theorem writerNew_unusable (st : FileState) (hd : st ≠ .directory) (hno : ∀ h, readerOpen st ≠ .ok h) :
    writerNew st = .ok (.file (patch wipeBytes 12 (encU16 1)), true) := by
  unfold writerNew
  cases hr : readerOpen st with
  | ok h => exact absurd hr (hno h)
  | error e =>
    cases st with
    | directory => exact absurd rfl hd
    | missing => rfl
    | file bs => rfl

/-! ### the document-driven decoder -/

theorem slice_slice (bs : Bytes) (o n o' n' : Nat) (h : o' + n' ≤ n) :
    slice (slice bs o n) o' n' = slice bs (o + o') n' := by
  apply List.ext_getElem?
  intro i
  rw [getElem?_slice, getElem?_slice, getElem?_slice]
  split
  · rw [if_pos (by omega), Nat.add_assoc]
  · rfl

namespace C17

theorem decElem_i64 (x : Int) (h : i64InRange x) : decElem (encI64 x) true = x := by
  have := decI64_encI64 x h
  unfold decI64 at this
  unfold decElem
  have hl : (encI64 x).length = 8 := by unfold encI64; exact length_encLE 8 _
  rw [hl]
  simp only [if_true]
  exact this

theorem decElem_u (bs : Bytes) : decElem bs false = (decLE bs : Int) := rfl

theorem decElem_status (s : Status) : decElem (encU32 s.code) true = (s.code : Int) := by
  cases s <;> decide

end C17

end ClockBound
