/- chrony poller iteration: a Tracking reply, no PHC or another reference (see `Proofs/RsPoller.lean`) -/
import ClockBound.Proofs.RsPoller
namespace ClockBound.Rs.PollerProof
open ClockBound ClockBound.Rs ClockBound.Generated ClockBound.Rs.DictPoller ClockBound.Rs.NowProof

set_option maxRecDepth 8000 in
set_option maxHeartbeats 4000000 in
theorem iter_tracking_nophc (e : IterEnv) (s : PollerState) (coarse : TimeSpec) (t : Tracking) (tReply tGrace : Int)
    (file : PhcFile) : IterStmt e s coarse (.tracking t) tReply tGrace none file := by
  iter_start
  obtain ⟨h0, h1, h2, h3, h4⟩ := hin
  poll_tie
  poll_finish

set_option maxRecDepth 8000 in
set_option maxHeartbeats 4000000 in
theorem iter_tracking_otherref (e : IterEnv) (s : PollerState) (coarse : TimeSpec) (t : Tracking) (tReply tGrace : Int)
    (r : Nat) (hr : r ≠ t.refid) (file : PhcFile) : IterStmt e s coarse (.tracking t) tReply tGrace (some r) file := by
  iter_start
  obtain ⟨h0, h1, h2, h3, h4⟩ := hin
  poll_tie
  poll_finish

end ClockBound.Rs.PollerProof
