/-
  `ShmWriter::is_usable_segment(path)` from an arbitrary state, on a file of 16 bytes or more whose header
  `is_valid` refuses: no mapping is attempted.
-/
import ClockBound.Proofs.RsWriterNewBase
namespace ClockBound.Rs.WriterNewProof
open ClockBound ClockBound.Rs ClockBound.Generated ClockBound.Rs.DictShm ClockBound.Rs.EmbedShm

set_option maxRecDepth 8000 in
set_option maxHeartbeats 8000000 in
theorem usable_call_bad (inp : Nat → Value) (parent : String) (fd : Nat) (hfd : fd ≤ 2147483647)
    (h : Header) (hh : h.inRange) (e : ShmErr) (hc : checkHeader h = .error e)
    (N : Nat) (env : List (String × Value)) (lg : List Value) (p : Nat)
    (h0 : inp p = .int .infer fd) (h1 : inp (p + 1) = .int .infer 16) (h2 : inp (p + 2) = headerValue h) :
    callDecl (N + 120) (nctx inp) Code.fn_ShmWriter__is_usable_segment .unit [.ext "Path" [.str "shm", .str parent]]
      { env := env, log := lg, pos := p }
    = .val (.tuple [.enumv "Err" [shmErrValue e], .unit])
        { env := env, log := lg ++ openEvents2 fd 16, pos := p + 3 } := by
  obtain ⟨_, _, hs, _, _⟩ := hh
  have hfd' : (fd : Int) ≤ 2147483647 := by omega
  have hfd0 : ¬ ((fd : Int) < 0) := by omega
  have hs' : ((h.segsize : Nat) : Int) % 18446744073709551616 = h.segsize := by unfold TWO32 at hs; omega
  simp (config := { maxSteps := 8000000 }) [rs_eval, rs_code, Nat.add_assoc, h0, h1, h2, hfd', hfd0, hs',
    EmbedShm.sizes, headerValue, chkInt, HEADER_SIZE, RECORD_SIZE, openEvents2, evSys]
  -- whatever shape the decision tree has (nested `if`s, `&&`, `||`, early returns): decide it with the reason
  -- `checkHeader` refuses the header for
  rcases checkHeader_error h e hc with ⟨hm, rfl⟩ | ⟨⟨hm0, hm1⟩, hv, rfl⟩ | ⟨⟨hm0, hm1⟩, hv, hg, rfl⟩ |
    ⟨⟨hm0, hm1⟩, hv, hg, hz, rfl⟩
  · unfold MAGIC0 MAGIC1 at hm
    by_cases hm0 : h.magic0 = 1095588430 <;> simp_all [shmErrValue]
  · unfold MAGIC0 at hm0; unfold MAGIC1 at hm1
    simp_all [shmErrValue]
  · unfold MAGIC0 at hm0; unfold MAGIC1 at hm1
    simp_all [shmErrValue]
  · unfold MAGIC0 at hm0; unfold MAGIC1 at hm1; unfold HEADER_SIZE at hz
    have hz2 : ¬ (16 ≤ h.segsize) := by omega
    simp_all [shmErrValue]

end ClockBound.Rs.WriterNewProof
