/-
  `ShmWriter::is_usable_segment(path)` from an arbitrary state, on a file of 16 bytes or more whose header
  `is_valid` refuses: no mapping is attempted.
-/
import ClockBound.Proofs.RsWriterNewBase
namespace ClockBound.Rs.WriterNewProof
open ClockBound ClockBound.Rs ClockBound.Generated ClockBound.Rs.DictShm ClockBound.Rs.EmbedShm

set_option maxRecDepth 8000 in
set_option maxHeartbeats 8000000 in
theorem usable_call_bad (inp : Nat → Value) (parent : String) (fd : Nat) (hfd : fd ≤ 2147483647)
    (h : Header) (hh : h.inRange) (e : ShmErr) (hc : checkHeader h = .error e)
    (N : Nat) (env : List (String × Value)) (lg : List Value) (p : Nat)
    (h0 : inp p = .int .infer fd) (h1 : inp (p + 1) = .int .infer 16) (h2 : inp (p + 2) = headerValue h) :
    callDecl (N + 120) (nctx inp) Code.fn_ShmWriter__is_usable_segment .unit [.ext "Path" [.str "shm", .str parent]]
      { env := env, log := lg, pos := p }
    = .val (.tuple [.enumv "Err" [shmErrValue e], .unit])
        { env := env, log := lg ++ openEvents2 fd 16, pos := p + 3 } := by
  obtain ⟨_, _, hs, _, _⟩ := hh
  have hfd' : (fd : Int) ≤ 2147483647 := by omega
  have hfd0 : ¬ ((fd : Int) < 0) := by omega
  have hs' : ((h.segsize : Nat) : Int) % 18446744073709551616 = h.segsize := by unfold TWO32 at hs; omega
  simp (config := { maxSteps := 8000000 }) [rs_eval, rs_code, Nat.add_assoc, h0, h1, h2, hfd', hfd0, hs',
    EmbedShm.sizes, headerValue, chkInt, HEADER_SIZE, RECORD_SIZE, openEvents2, evSys]
  rcases checkHeader_error h e hc with ⟨hm, rfl⟩ | ⟨hm, hv, rfl⟩ | ⟨hm, hv, hg, rfl⟩ | ⟨hm, hv, hg, hz, rfl⟩
  · have hm' : ¬ h.magic0 = 1095588430 ∨ ¬ h.magic1 = 1128399360 := by
      unfold MAGIC0 MAGIC1 at hm; by_cases h.magic0 = 1095588430 <;> simp_all
    simp [hm', shmErrValue]
  · have hm' : ¬ (¬ h.magic0 = 1095588430 ∨ ¬ h.magic1 = 1128399360) := by unfold MAGIC0 MAGIC1 at hm; simp [hm.1, hm.2]
    simp [hm', hv, shmErrValue]
  · have hm' : ¬ (¬ h.magic0 = 1095588430 ∨ ¬ h.magic1 = 1128399360) := by unfold MAGIC0 MAGIC1 at hm; simp [hm.1, hm.2]
    simp [hm', hv, hg, shmErrValue]
  · have hm' : ¬ (¬ h.magic0 = 1095588430 ∨ ¬ h.magic1 = 1128399360) := by unfold MAGIC0 MAGIC1 at hm; simp [hm.1, hm.2]
    unfold HEADER_SIZE at hz
    simp [hm', hv, hg, hz, shmErrValue]

end ClockBound.Rs.WriterNewProof
