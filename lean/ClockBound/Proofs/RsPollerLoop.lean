/-
  The chrony poller: the failing-send iteration (all cases), and the whole loop by induction on the list of
  iterations (statements in `Properties/CodeTiePoller.lean`).
-/
import ClockBound.Proofs.RsPollerAll
import ClockBound.Proofs.RsPollerE
import ClockBound.Proofs.RsPollerF
import ClockBound.Rs.EmbedPollerLoop
namespace ClockBound.Rs.PollerProof
open ClockBound ClockBound.Rs ClockBound.Generated ClockBound.Rs.DictPoller ClockBound.Rs.NowProof

theorem send_fails (e : IterEnv) (s : PollerState) (coarse : TimeSpec) (reply : ReplyKind) (tReply tGrace : Int)
    (refid : Option Nat) (file : PhcFile) : IterSendFails e s coarse reply tReply tGrace refid file := by
  cases reply with
  | none => exact sf_none _ _ _ _ _ _ _
  | other => exact sf_other _ _ _ _ _ _ _
  | tracking t =>
    cases refid with
    | none => exact sf_tracking_nophc _ _ _ _ _ _ _
    | some r =>
      by_cases hr : r = t.refid
      · subst hr
        cases file with
        | ok v =>
          cases hv : inI64 v
          · exact sf_phc_range _ _ _ _ _ hv _ _
          · exact sf_phc_ok _ _ _ _ _ hv _ _
        | unreadable =>
          cases he : e.atOpen
          · exact sf_phc_unreadable_read _ he _ _ _ _ _
          · exact sf_phc_unreadable_open _ he _ _ _ _ _
        | unparsable => exact sf_phc_garbage _ _ _ _ _ _
      · exact sf_tracking_otherref _ _ _ _ _ hr _ _ _

theorem inputsAt_append (inp : Nat → Value) : ∀ (a : List Value) (p : Nat) (b : List Value),
    inputsAt inp p (a ++ b) ↔ inputsAt inp p a ∧ inputsAt inp (p + a.length) b := by
  intro a
  induction a with
  | nil => intro p b; simp [inputsAt]
  | cons v a ih =>
    intro p b
    simp only [List.cons_append, inputsAt, ih, List.length_cons]
    have : p + 1 + a.length = p + (a.length + 1) := by omega
    rw [this]
    exact and_assoc.symm

theorem pollerArgs_congr (e e0 : IterEnv) (h1 : e.path = e0.path) (h2 : e.sleepNs = e0.sleepNs) (s : PollerState)
    (r : Option Nat) : pollerArgs e s r = pollerArgs e0 s r := by
  simp [pollerArgs, h1, h2]

/-- a loop that ended: `()`, this log, this many inputs consumed, no `self` -/
def LoopDone (r : Res) (l : List Value) (p : Nat) : Prop :=
  ∃ st : St, r = .val .unit st ∧ st.log = l ∧ st.pos = p ∧ envGet st.env "self" = none

/-- what the whole loop does: the model's `pollRun` -/
def LoopIs (r : Res) (log : List Value) (pos n : Nat) : Option (PollerState × List Value) → Prop
  | none => r = .panic
  | some (_, l) => LoopDone r (log ++ l) (pos + n)

section
variable (nowNs : Int) (inp : Nat → Value) (refid : Option Nat) (pre : List Stmt) (c : Expr) (body : List Stmt)
  (hfl : findLoop Code.fn_chrony_poller__run_clock_error_bound_poller_stmts = some (pre, c, body))
  (e0 : IterEnv)
include hfl

/-- one turn, in the run's environment `e0` -/
theorem turn (x : IterIn) (hx : x.ok e0) (s : PollerState) (log : List Value) (pos : Nat)
    (hin : inputsAt inp pos ((x.trace refid s).map (pollEvInput x.env))) (K : Nat) (hK : 60 ≤ K) :
    turnIs (ctxP nowNs [] inp) frP c body K
      (evalWhile (K + 2) (ctxP nowNs [] inp) frP c body (topP nowNs inp pre e0 s refid log pos))
      (if (x.it.step refid s).2 = .panic then .panic
       else if x.env.isAbort = true then
         .done (log ++ (x.trace refid s).map (pollEvValue x.env)) (pos + (x.trace refid s).length)
       else .next (topP nowNs inp pre e0 (x.it.step refid s).1 refid
          (log ++ (x.trace refid s).map (pollEvValue x.env)) (pos + (x.trace refid s).length))) := by
  obtain ⟨h1, h2, h3, h4⟩ := hx
  have := iteration x.env s x.it.asOf x.it.reply x.it.tReply x.it.tGrace refid x.it.file nowNs inp log pos pre c body
    hfl h3 h4 hin K hK
  simp only [topP, pollerArgs_congr x.env e0 h1 h2] at this
  exact this

theorem loop (last : IterIn) (hlast : last.ok e0) (habort : last.env.isAbort = true) :
    ∀ (xs : List IterIn) (_hxs : ∀ x ∈ xs, x.ok e0 ∧ x.env.isAbort = false) (s : PollerState) (log : List Value)
      (pos : Nat) (_hin : inputsAt inp pos (pollRunInputs refid s (xs ++ [last]))) (N : Nat)
      (_hN : xs.length + 62 ≤ N),
      LoopIs (evalWhile N (ctxP nowNs [] inp) frP c body (topP nowNs inp pre e0 s refid log pos)) log pos
        (pollRunInputs refid s (xs ++ [last])).length (pollRun refid s (xs ++ [last])) := by
  intro xs
  induction xs with
  | nil =>
    intro _ s log pos hin N hN
    obtain ⟨K, rfl⟩ : ∃ K, N = K + 2 := ⟨N - 2, by simp at hN; omega⟩
    simp only [List.nil_append, pollRunInputs, inputsAt_append] at hin
    have T := turn nowNs inp refid pre c body hfl e0 last hlast s log pos hin.1 K (by simp at hN; omega)
    simp only [List.nil_append, pollRun, pollRunInputs]
    by_cases hp : (last.it.step refid s).2 = .panic
    · simp only [hp, if_true, turnIs_panic] at T
      simp [hp, LoopIs, T]
    · simp only [hp, if_false, habort, if_true, turnIs_done] at T
      simp only [hp, if_false, Option.map_some, LoopIs, LoopDone, List.append_nil, List.length_append,
        List.length_map, List.length_nil, Nat.add_zero]
      exact T
  | cons x xs ih =>
    intro hxs s log pos hin N hN
    obtain ⟨K, rfl⟩ : ∃ K, N = K + 2 := ⟨N - 2, by simp at hN; omega⟩
    have hx := hxs x (List.mem_cons_self ..)
    have hxs' : ∀ y ∈ xs, y.ok e0 ∧ y.env.isAbort = false := fun y hy => hxs y (List.mem_cons_of_mem _ hy)
    simp only [List.cons_append, pollRunInputs, inputsAt_append] at hin
    have T := turn nowNs inp refid pre c body hfl e0 x hx.1 s log pos hin.1 K (by simp at hN; omega)
    simp only [List.cons_append, pollRun, pollRunInputs]
    by_cases hp : (x.it.step refid s).2 = .panic
    · simp only [hp, if_true, turnIs_panic] at T
      simp [hp, LoopIs, T]
    · simp only [hp, if_false, hx.2, Bool.false_eq_true, turnIs_next] at T hin
      rw [List.length_map] at hin
      have IH := ih hxs' (x.it.step refid s).1 (log ++ (x.trace refid s).map (pollEvValue x.env))
        (pos + (x.trace refid s).length) hin.2 (K + 1) (by simp at hN; omega)
      rw [T]
      simp only [hp, if_false]
      cases hr : pollRun refid (x.it.step refid s).1 (xs ++ [last]) with
      | none => rw [hr] at IH; simpa [LoopIs] using IH
      | some p =>
        obtain ⟨s', l⟩ := p
        rw [hr] at IH
        simp only [LoopIs, Option.map_some, List.length_append, List.length_map] at IH ⊢
        rw [List.append_assoc] at IH
        rw [Nat.add_assoc] at IH
        exact IH

/-- a run whose last iteration's `send` fails: the thread panics -/
theorem loop_fail (bad : IterIn) (hb1 : bad.env.path = e0.path) (hb2 : bad.env.sleepNs = e0.sleepNs)
    (hb3 : bad.env.other ≠ "ReplyBody::Tracking") (v : Value) (hb4 : bad.env.sendRes = .enumv "Err" [v]) :
    ∀ (xs : List IterIn) (_hxs : ∀ x ∈ xs, x.ok e0 ∧ x.env.isAbort = false) (s : PollerState) (log : List Value)
      (pos : Nat) (_hin : inputsAt inp pos (pollRunInputs refid s (xs ++ [bad]))) (N : Nat)
      (_hN : xs.length + 62 ≤ N),
      evalWhile N (ctxP nowNs [] inp) frP c body (topP nowNs inp pre e0 s refid log pos) = .panic := by
  intro xs
  induction xs with
  | nil =>
    intro _ s log pos hin N hN
    obtain ⟨K, rfl⟩ : ∃ K, N = K + 2 := ⟨N - 2, by simp at hN; omega⟩
    simp only [List.nil_append, pollRunInputs, inputsAt_append] at hin
    have := send_fails bad.env s bad.it.asOf bad.it.reply bad.it.tReply bad.it.tGrace refid bad.it.file v nowNs inp log
      pos pre c body hfl hb3 hb4 hin.1 K (by simp at hN; omega)
    simp only [topP, pollerArgs_congr bad.env e0 hb1 hb2] at this
    exact this
  | cons x xs ih =>
    intro hxs s log pos hin N hN
    obtain ⟨K, rfl⟩ : ∃ K, N = K + 2 := ⟨N - 2, by simp at hN; omega⟩
    have hx := hxs x (List.mem_cons_self ..)
    have hxs' : ∀ y ∈ xs, y.ok e0 ∧ y.env.isAbort = false := fun y hy => hxs y (List.mem_cons_of_mem _ hy)
    simp only [List.cons_append, pollRunInputs, inputsAt_append] at hin
    have T := turn nowNs inp refid pre c body hfl e0 x hx.1 s log pos hin.1 K (by simp at hN; omega)
    by_cases hp : (x.it.step refid s).2 = .panic
    · simp only [hp, if_true, turnIs_panic] at T
      exact T
    · simp only [hp, if_false, hx.2, Bool.false_eq_true, turnIs_next] at T hin
      rw [List.length_map] at hin
      rw [T]
      exact ih hxs' (x.it.step refid s).1 (log ++ (x.trace refid s).map (pollEvValue x.env))
        (pos + (x.trace refid s).length) hin.2 (K + 1) (by simp at hN; omega)
end

/-- the outcome of a function that returns `()` after its loop -/
def outOf (log : List Value) : Option (PollerState × List Value) → Outcome
  | none => .panic
  | some (_, l) => .ok .unit .unit (log ++ l)

/-- from the loop to the function: the result of the function whose loop evaluates to `W` -/
theorem outcome_of_loop (W : Res) (log : List Value) (pos n : Nat) (o : Option (PollerState × List Value))
    (h : LoopIs W log pos n o) (G : Res → Outcome)
    (hpanic : G .panic = .panic)
    (hval : ∀ st : St, envGet st.env "self" = none → G (.val .unit st) = .ok .unit .unit st.log) :
    G W = outOf log o := by
  cases o with
  | none => simp only [LoopIs] at h; rw [h, hpanic]; rfl
  | some p =>
    obtain ⟨s', l⟩ := p
    obtain ⟨st, rfl, h1, -, h3⟩ := h
    rw [hval st h3, h1]; rfl

set_option hygiene false in
/-- from the loop lemma `L` (normalised with the same simp set as the goal) to the function: name the loop's result,
    split the model's run -/
macro "finish_run" : tactic => `(tactic| (
  generalize hW : evalWhile _ _ _ _ _ _ = W
  -- the fuel the loop is entered with depends on how many statements precede it: take the instance of `L` that fits
  first
    | (have h := L (J + 3) (by omega); rw [hW] at h)
    | (have h := L (J + 4) (by omega); rw [hW] at h)
    | (have h := L (J + 5) (by omega); rw [hW] at h)
    | (have h := L (J + 6) (by omega); rw [hW] at h)
    | (have h := L (J + 7) (by omega); rw [hW] at h)
    | (have h := L (J + 8) (by omega); rw [hW] at h)
    | (have h := L (J + 9) (by omega); rw [hW] at h)
    | (have h := L (J + 10) (by omega); rw [hW] at h)
    | (have h := L (J + 11) (by omega); rw [hW] at h)
    | (have h := L (J + 12) (by omega); rw [hW] at h)
    | (have h := L (J + 13) (by omega); rw [hW] at h)
    | (have h := L (J + 14) (by omega); rw [hW] at h)
  generalize hR : pollRun _ _ (xs ++ [last]) = R at h ⊢
  cases R with
  | none => simp only [LoopIs] at h; subst h; simp [rs_eval]
  | some p =>
    obtain ⟨s', l⟩ := p
    obtain ⟨st, rfl, h1, h2, h3⟩ := h
    simp [rs_eval, h1, h3]))

set_option maxRecDepth 8000 in
/-- `run_clock_error_bound_poller` on a run that ends with `Ok(ThreadAbort)` -/
theorem poller_run (nowNs : Int) (inp : Nat → Value) (refid : Option Nat) (e0 : IterEnv) (last : IterIn)
    (hlast : last.ok e0) (habort : last.env.isAbort = true) (xs : List IterIn)
    (hxs : ∀ x ∈ xs, x.ok e0 ∧ x.env.isAbort = false) (s : PollerState)
    (hin : inputsAt inp 0 (pollRunInputs refid s (xs ++ [last]))) (F : Nat) (hF : xs.length + 75 ≤ F) :
    runFuel F (ctxP nowNs [] inp) "chrony_poller::run_clock_error_bound_poller" .unit
      [contextValue "ChannelId::ClockErrorBoundPoller", pollerValue s, optPhcValue e0.path refid, .duration e0.sleepNs]
    = match pollRun refid s (xs ++ [last]) with
      | none => .panic
      | some (_, l) => .ok .unit .unit l := by
  obtain ⟨J, rfl⟩ : ∃ J, F = J + 10 := ⟨F - 10, by omega⟩
  obtain ⟨pre, c, body, hfl⟩ : ∃ pre c body,
      findLoop Code.fn_chrony_poller__run_clock_error_bound_poller_stmts = some (pre, c, body) := by
    simp [rs_eval, rs_code]
  have L := fun N hN => loop nowNs inp refid pre c body hfl e0 last hlast habort xs hxs s [] 0 hin N hN
  simp [rs_eval, rs_code] at hfl
  obtain ⟨rfl, rfl, rfl⟩ := hfl
  simp only [ctxP, topP, linuxUses_eq] at L ⊢
  cases refid <;>
  · simp [rs_eval, rs_code, pollerArgs, contextValue, pollerValue, optPhcValue] at L
    simp [rs_eval, rs_code, contextValue, pollerValue, optPhcValue]
    finish_run

set_option maxRecDepth 8000 in
/-- `run_clock_error_bound_poller` on a run whose last iteration's `send` fails -/
theorem poller_run_fail (nowNs : Int) (inp : Nat → Value) (refid : Option Nat) (e0 : IterEnv) (bad : IterIn)
    (hb1 : bad.env.path = e0.path) (hb2 : bad.env.sleepNs = e0.sleepNs)
    (hb3 : bad.env.other ≠ "ReplyBody::Tracking") (v : Value) (hb4 : bad.env.sendRes = .enumv "Err" [v])
    (xs : List IterIn) (hxs : ∀ x ∈ xs, x.ok e0 ∧ x.env.isAbort = false) (s : PollerState)
    (hin : inputsAt inp 0 (pollRunInputs refid s (xs ++ [bad]))) (F : Nat) (hF : xs.length + 75 ≤ F) :
    runFuel F (ctxP nowNs [] inp) "chrony_poller::run_clock_error_bound_poller" .unit
      [contextValue "ChannelId::ClockErrorBoundPoller", pollerValue s, optPhcValue e0.path refid, .duration e0.sleepNs]
    = .panic := by
  obtain ⟨J, rfl⟩ : ∃ J, F = J + 10 := ⟨F - 10, by omega⟩
  obtain ⟨pre, c, body, hfl⟩ : ∃ pre c body,
      findLoop Code.fn_chrony_poller__run_clock_error_bound_poller_stmts = some (pre, c, body) := by
    simp [rs_eval, rs_code]
  have L := fun N hN => loop_fail nowNs inp refid pre c body hfl e0 bad hb1 hb2 hb3 v hb4 xs hxs s [] 0 hin N hN
  simp [rs_eval, rs_code] at hfl
  obtain ⟨rfl, rfl, rfl⟩ := hfl
  simp only [ctxP, topP, linuxUses_eq] at L ⊢
  cases refid <;>
  · simp [rs_eval, rs_code, pollerArgs, contextValue, pollerValue, optPhcValue] at L
    simp [rs_eval, rs_code, contextValue, pollerValue, optPhcValue]
    generalize hW : evalWhile _ _ _ _ _ _ = W
    first
      | (have h := L (J + 3) (by omega); rw [hW] at h)
      | (have h := L (J + 4) (by omega); rw [hW] at h)
      | (have h := L (J + 5) (by omega); rw [hW] at h)
      | (have h := L (J + 6) (by omega); rw [hW] at h)
      | (have h := L (J + 7) (by omega); rw [hW] at h)
      | (have h := L (J + 8) (by omega); rw [hW] at h)
      | (have h := L (J + 9) (by omega); rw [hW] at h)
      | (have h := L (J + 10) (by omega); rw [hW] at h)
    subst h
    simp [rs_eval]

set_option maxRecDepth 8000 in
/-- the thread's entry point `run`: `ClockErrorBoundPoller::default()` (one `Instant::now()`), a sleep time of
    1000 ms, then the loop -/
theorem entry_run (nowNs : Int) (inp : Nat → Value) (refid : Option Nat) (e0 : IterEnv)
    (hsleep : e0.sleepNs = 1000000000) (last : IterIn)
    (hlast : last.ok e0) (habort : last.env.isAbort = true) (xs : List IterIn)
    (hxs : ∀ x ∈ xs, x.ok e0 ∧ x.env.isAbort = false) (tStart : Int) (ht : instantLo ≤ tStart - GRACE_NS)
    (h0 : inp 0 = instant tStart)
    (hin : inputsAt inp 1 (pollRunInputs refid (Poller.init tStart) (xs ++ [last]))) (F : Nat)
    (hF : xs.length + 85 ≤ F) :
    runFuel F (ctxP nowNs [] inp) "chrony_poller::run" .unit
      [contextValue "ChannelId::ClockErrorBoundPoller", optPhcValue e0.path refid]
    = match pollRun refid (Poller.init tStart) (xs ++ [last]) with
      | none => .panic
      | some (_, l) => .ok .unit .unit (evInstantNow (instant tStart) :: l) := by
  obtain ⟨J, rfl⟩ : ∃ J, F = J + 20 := ⟨F - 20, by omega⟩
  obtain ⟨pre, c, body, hfl⟩ : ∃ pre c body,
      findLoop Code.fn_chrony_poller__run_clock_error_bound_poller_stmts = some (pre, c, body) := by
    simp [rs_eval, rs_code]
  have L := fun N hN => loop nowNs inp refid pre c body hfl e0 last hlast habort xs hxs (Poller.init tStart)
    [evInstantNow (instant tStart)] 1 hin N hN
  simp [rs_eval, rs_code] at hfl
  obtain ⟨rfl, rfl, rfl⟩ := hfl
  simp only [ctxP, topP, linuxUses_eq] at L ⊢
  simp [instantLo, GRACE_NS] at ht
  cases refid <;>
  · simp [rs_eval, rs_code, pollerArgs, contextValue, pollerValue, optPhcValue, Poller.init, GRACE_NS, hsleep] at L
    simp [rs_eval, rs_code, contextValue, pollerValue, optPhcValue, Poller.init, GRACE_NS, h0, ht]
    finish_run

end ClockBound.Rs.PollerProof
