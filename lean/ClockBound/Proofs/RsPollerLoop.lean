/-
  The chrony poller: the failing-send iteration (all cases), and the whole loop by induction on the list of
  iterations (statements in `Properties/CodeTiePoller.lean`).
-/
import ClockBound.Proofs.RsPollerAll
import ClockBound.Proofs.RsPollerE
import ClockBound.Proofs.RsPollerF
import ClockBound.Rs.EmbedPollerLoop
namespace ClockBound.Rs.PollerProof
open ClockBound ClockBound.Rs ClockBound.Generated ClockBound.Rs.DictPoller ClockBound.Rs.NowProof

theorem send_fails (e : IterEnv) (s : PollerState) (coarse : TimeSpec) (reply : ReplyKind) (tReply tGrace : Int)
    (refid : Option Nat) (file : PhcFile) : IterSendFails e s coarse reply tReply tGrace refid file := by
  cases reply with
  | none => exact sf_none _ _ _ _ _ _ _
  | other => exact sf_other _ _ _ _ _ _ _
  | tracking t =>
    cases refid with
    | none => exact sf_tracking_nophc _ _ _ _ _ _ _
    | some r =>
      by_cases hr : r = t.refid
      · subst hr
        cases file with
        | ok v =>
          cases hv : inI64 v
          · exact sf_phc_range _ _ _ _ _ hv _ _
          · exact sf_phc_ok _ _ _ _ _ hv _ _
        | unreadable =>
          cases he : e.atOpen
          · exact sf_phc_unreadable_read _ he _ _ _ _ _
          · exact sf_phc_unreadable_open _ he _ _ _ _ _
        | unparsable => exact sf_phc_garbage _ _ _ _ _ _
      · exact sf_tracking_otherref _ _ _ _ _ hr _ _ _

theorem inputsAt_append (inp : Nat → Value) : ∀ (a : List Value) (p : Nat) (b : List Value),
    inputsAt inp p (a ++ b) ↔ inputsAt inp p a ∧ inputsAt inp (p + a.length) b := by
  intro a
  induction a with
  | nil => intro p b; simp [inputsAt]
  | cons v a ih =>
    intro p b
    simp only [List.cons_append, inputsAt, ih, List.length_cons]
    have : p + 1 + a.length = p + (a.length + 1) := by omega
    rw [this]
    exact and_assoc.symm

theorem pollerLoopSt_congr (e e0 : IterEnv) (h1 : e.path = e0.path) (h2 : e.sleepNs = e0.sleepNs) (k : Bool)
    (s : PollerState) (r : Option Nat) (l : List Value) (p : Nat) :
    pollerLoopSt e k s r l p = pollerLoopSt e0 k s r l p := by
  simp [pollerLoopSt, h1, h2]

theorem pollerLoopSt_len (e : IterEnv) (k : Bool) (s : PollerState) (r : Option Nat) (l : List Value) (p : Nat) :
    (pollerLoopSt e k s r l p).env.length = 5 := rfl

section
variable (nowNs : Int) (inp : Nat → Value) (refid : Option Nat) (body : List Stmt)
  (hfw : findWhile Code.fn_chrony_poller__run_clock_error_bound_poller_stmts = some (.path ["keep_running"], body))
  (e0 : IterEnv)
include hfw

theorem hcond (K : Nat) (hK : 1 ≤ K) (k : Bool) (s : PollerState) (log : List Value) (pos : Nat) :
    eval K (ctxP nowNs [] inp) frP (.path ["keep_running"]) (pollerLoopSt e0 k s refid log pos)
    = .val (.bool k) (pollerLoopSt e0 k s refid log pos) := by
  obtain ⟨J, rfl⟩ : ∃ J, K = J + 1 := ⟨K - 1, by omega⟩
  simp [rs_eval, pollerLoopSt]

/-- the loop ends when `keep_running` is false -/
theorem loop_end (K : Nat) (hK : 2 ≤ K) (s : PollerState) (log : List Value) (pos : Nat) :
    evalWhile K (ctxP nowNs [] inp) frP (.path ["keep_running"]) body (pollerLoopSt e0 false s refid log pos)
    = .val .unit (pollerLoopSt e0 false s refid log pos) := by
  obtain ⟨J, rfl⟩ : ∃ J, K = J + 1 := ⟨K - 1, by omega⟩
  rw [evalWhile_succ, hcond nowNs inp refid body hfw e0 J (by omega)]
  simp [St.popTo, pollerLoopSt, Res.bind_val]

/-- one turn of the loop -/
theorem loop_step (x : IterIn) (hx : x.ok e0) (s : PollerState) (log : List Value) (pos : Nat)
    (hin : inputsAt inp pos ((x.trace refid s).map (pollEvInput x.env))) (K : Nat) (hK : 60 ≤ K) :
    evalWhile (K + 1) (ctxP nowNs [] inp) frP (.path ["keep_running"]) body (pollerLoopSt e0 true s refid log pos)
    = if (x.it.step refid s).2 = .panic then .panic
      else evalWhile K (ctxP nowNs [] inp) frP (.path ["keep_running"]) body
        (pollerLoopSt e0 (!x.env.isAbort) (x.it.step refid s).1 refid
          (log ++ (x.trace refid s).map (pollEvValue x.env)) (pos + (x.trace refid s).length)) := by
  obtain ⟨h1, h2, h3, h4⟩ := hx
  rw [evalWhile_succ, hcond nowNs inp refid body hfw e0 K (by omega)]
  simp only [Res.bind_val, if_true]
  rw [pollerLoopSt_len, ← pollerLoopSt_congr x.env e0 h1 h2,
    iteration x.env s x.it.asOf x.it.reply x.it.tReply x.it.tGrace refid x.it.file nowNs inp log pos _ body hfw h3 h4
      hin K hK]
  simp only [pollerLoopSt_congr x.env e0 h1 h2]
  rfl

theorem loop (last : IterIn) (hlast : last.ok e0) (habort : last.env.isAbort = true) :
    ∀ (xs : List IterIn) (_hxs : ∀ x ∈ xs, x.ok e0 ∧ x.env.isAbort = false) (s : PollerState) (log : List Value)
      (pos : Nat) (_hin : inputsAt inp pos (pollRunInputs refid s (xs ++ [last]))) (N : Nat)
      (_hN : xs.length + 63 ≤ N),
      evalWhile N (ctxP nowNs [] inp) frP (.path ["keep_running"]) body (pollerLoopSt e0 true s refid log pos)
      = match pollRun refid s (xs ++ [last]) with
        | none => .panic
        | some (s', l) =>
          .val .unit (pollerLoopSt e0 false s' refid (log ++ l)
            (pos + (pollRunInputs refid s (xs ++ [last])).length)) := by
  intro xs
  induction xs with
  | nil =>
    intro _ s log pos hin N hN
    obtain ⟨K, rfl⟩ : ∃ K, N = K + 1 := ⟨N - 1, by simp at hN; omega⟩
    simp only [List.nil_append, pollRunInputs, inputsAt_append] at hin
    rw [loop_step nowNs inp refid body hfw e0 last hlast s log pos hin.1 K (by simp at hN; omega)]
    simp only [List.nil_append, pollRun, pollRunInputs]
    by_cases hp : (last.it.step refid s).2 = .panic
    · simp [hp]
    · simp only [hp, if_false, habort, Bool.not_true]
      rw [loop_end nowNs inp refid body hfw e0 K (by simp at hN; omega)]
      simp
  | cons x xs ih =>
    intro hxs s log pos hin N hN
    obtain ⟨K, rfl⟩ : ∃ K, N = K + 1 := ⟨N - 1, by simp at hN; omega⟩
    have hx := hxs x (List.mem_cons_self ..)
    have hxs' : ∀ y ∈ xs, y.ok e0 ∧ y.env.isAbort = false := fun y hy => hxs y (List.mem_cons_of_mem _ hy)
    simp only [List.cons_append, pollRunInputs, inputsAt_append] at hin
    rw [loop_step nowNs inp refid body hfw e0 x hx.1 s log pos hin.1 K (by simp at hN; omega)]
    simp only [List.cons_append, pollRun, pollRunInputs]
    by_cases hp : (x.it.step refid s).2 = .panic
    · simp [hp]
    · simp only [hp, if_false, hx.2, Bool.not_false] at hin ⊢
      rw [List.length_map] at hin
      rw [ih hxs' _ _ _ hin.2 K (by simp at hN; omega)]
      cases pollRun refid (x.it.step refid s).1 (xs ++ [last]) with
      | none => rfl
      | some p =>
        obtain ⟨s', l⟩ := p
        simp only [Option.map_some, List.append_assoc, List.length_append, List.length_map]
        congr 2
        omega

/-- a run whose last iteration's `send` fails: the thread panics -/
theorem loop_fail (bad : IterIn) (hb1 : bad.env.path = e0.path) (hb2 : bad.env.sleepNs = e0.sleepNs)
    (hb3 : bad.env.other ≠ "ReplyBody::Tracking") (v : Value) (hb4 : bad.env.sendRes = .enumv "Err" [v]) :
    ∀ (xs : List IterIn) (_hxs : ∀ x ∈ xs, x.ok e0 ∧ x.env.isAbort = false) (s : PollerState) (log : List Value)
      (pos : Nat) (_hin : inputsAt inp pos (pollRunInputs refid s (xs ++ [bad]))) (N : Nat)
      (_hN : xs.length + 63 ≤ N),
      evalWhile N (ctxP nowNs [] inp) frP (.path ["keep_running"]) body (pollerLoopSt e0 true s refid log pos)
      = .panic := by
  intro xs
  induction xs with
  | nil =>
    intro _ s log pos hin N hN
    obtain ⟨K, rfl⟩ : ∃ K, N = K + 1 := ⟨N - 1, by simp at hN; omega⟩
    simp only [List.nil_append, pollRunInputs, inputsAt_append] at hin
    rw [evalWhile_succ, hcond nowNs inp refid body hfw e0 K (by simp at hN; omega)]
    simp only [Res.bind_val, if_true]
    rw [pollerLoopSt_len, ← pollerLoopSt_congr bad.env e0 hb1 hb2,
      send_fails bad.env s bad.it.asOf bad.it.reply bad.it.tReply bad.it.tGrace refid bad.it.file v nowNs inp log pos _
        body hfw hb3 hb4 hin.1 K (by simp at hN; omega)]
  | cons x xs ih =>
    intro hxs s log pos hin N hN
    obtain ⟨K, rfl⟩ : ∃ K, N = K + 1 := ⟨N - 1, by simp at hN; omega⟩
    have hx := hxs x (List.mem_cons_self ..)
    have hxs' : ∀ y ∈ xs, y.ok e0 ∧ y.env.isAbort = false := fun y hy => hxs y (List.mem_cons_of_mem _ hy)
    simp only [List.cons_append, pollRunInputs, inputsAt_append] at hin
    rw [loop_step nowNs inp refid body hfw e0 x hx.1 s log pos hin.1 K (by simp at hN; omega)]
    by_cases hp : (x.it.step refid s).2 = .panic
    · simp [hp]
    · simp only [hp, if_false, hx.2, Bool.not_false] at hin ⊢
      rw [List.length_map] at hin
      exact ih hxs' _ _ _ hin.2 K (by simp at hN; omega)
end

set_option maxRecDepth 8000 in
/-- `run_clock_error_bound_poller` on a run that ends with `Ok(ThreadAbort)` -/
theorem poller_run (nowNs : Int) (inp : Nat → Value) (refid : Option Nat) (e0 : IterEnv) (last : IterIn)
    (hlast : last.ok e0) (habort : last.env.isAbort = true) (xs : List IterIn)
    (hxs : ∀ x ∈ xs, x.ok e0 ∧ x.env.isAbort = false) (s : PollerState)
    (hin : inputsAt inp 0 (pollRunInputs refid s (xs ++ [last]))) (F : Nat) (hF : xs.length + 75 ≤ F) :
    runFuel F (ctxP nowNs [] inp) "chrony_poller::run_clock_error_bound_poller" .unit
      [contextValue "ChannelId::ClockErrorBoundPoller", pollerValue s, optPhcValue e0.path refid, .duration e0.sleepNs]
    = match pollRun refid s (xs ++ [last]) with
      | none => .panic
      | some (_, l) => .ok .unit .unit l := by
  obtain ⟨J, rfl⟩ : ∃ J, F = J + 10 := ⟨F - 10, by omega⟩
  obtain ⟨c, body, hfw⟩ : ∃ c body,
      findWhile Code.fn_chrony_poller__run_clock_error_bound_poller_stmts = some (c, body) := by
    simp [rs_eval, rs_code]
  have hfw0 := hfw
  simp [rs_eval, rs_code] at hfw
  obtain ⟨rfl, rfl⟩ := hfw
  have L := fun N hN => loop nowNs inp refid _ hfw0 e0 last hlast habort xs hxs s [] 0 hin N hN
  simp only [ctxP, linuxUses_eq] at L ⊢
  cases refid <;>
  · simp [rs_eval, pollerLoopSt, contextValue, pollerValue, optPhcValue] at L
    simp [rs_eval, rs_code, contextValue, pollerValue, optPhcValue]
    rw [L (J + 6) (by omega)]
    cases pollRun _ s (xs ++ [last]) with
    | none => simp [rs_eval]
    | some p =>
      obtain ⟨s', l⟩ := p
      simp [rs_eval]

set_option maxRecDepth 8000 in
/-- `run_clock_error_bound_poller` on a run whose last iteration's `send` fails -/
theorem poller_run_fail (nowNs : Int) (inp : Nat → Value) (refid : Option Nat) (e0 : IterEnv) (bad : IterIn)
    (hb1 : bad.env.path = e0.path) (hb2 : bad.env.sleepNs = e0.sleepNs)
    (hb3 : bad.env.other ≠ "ReplyBody::Tracking") (v : Value) (hb4 : bad.env.sendRes = .enumv "Err" [v])
    (xs : List IterIn) (hxs : ∀ x ∈ xs, x.ok e0 ∧ x.env.isAbort = false) (s : PollerState)
    (hin : inputsAt inp 0 (pollRunInputs refid s (xs ++ [bad]))) (F : Nat) (hF : xs.length + 75 ≤ F) :
    runFuel F (ctxP nowNs [] inp) "chrony_poller::run_clock_error_bound_poller" .unit
      [contextValue "ChannelId::ClockErrorBoundPoller", pollerValue s, optPhcValue e0.path refid, .duration e0.sleepNs]
    = .panic := by
  obtain ⟨J, rfl⟩ : ∃ J, F = J + 10 := ⟨F - 10, by omega⟩
  obtain ⟨c, body, hfw⟩ : ∃ c body,
      findWhile Code.fn_chrony_poller__run_clock_error_bound_poller_stmts = some (c, body) := by
    simp [rs_eval, rs_code]
  have hfw0 := hfw
  simp [rs_eval, rs_code] at hfw
  obtain ⟨rfl, rfl⟩ := hfw
  have L := fun N hN => loop_fail nowNs inp refid _ hfw0 e0 bad hb1 hb2 hb3 v hb4 xs hxs s [] 0 hin N hN
  simp only [ctxP, linuxUses_eq] at L ⊢
  cases refid <;>
  · simp [rs_eval, pollerLoopSt, contextValue, pollerValue, optPhcValue] at L
    simp [rs_eval, rs_code, contextValue, pollerValue, optPhcValue]
    rw [L (J + 6) (by omega)]
    simp [rs_eval]

set_option maxRecDepth 8000 in
/-- the thread's entry point `run`: `ClockErrorBoundPoller::default()` (one `Instant::now()`), a sleep time of
    1000 ms, then the loop -/
theorem entry_run (nowNs : Int) (inp : Nat → Value) (refid : Option Nat) (e0 : IterEnv)
    (hsleep : e0.sleepNs = 1000000000) (last : IterIn)
    (hlast : last.ok e0) (habort : last.env.isAbort = true) (xs : List IterIn)
    (hxs : ∀ x ∈ xs, x.ok e0 ∧ x.env.isAbort = false) (tStart : Int) (ht : instantLo ≤ tStart - GRACE_NS)
    (h0 : inp 0 = instant tStart)
    (hin : inputsAt inp 1 (pollRunInputs refid (Poller.init tStart) (xs ++ [last]))) (F : Nat)
    (hF : xs.length + 85 ≤ F) :
    runFuel F (ctxP nowNs [] inp) "chrony_poller::run" .unit
      [contextValue "ChannelId::ClockErrorBoundPoller", optPhcValue e0.path refid]
    = match pollRun refid (Poller.init tStart) (xs ++ [last]) with
      | none => .panic
      | some (_, l) => .ok .unit .unit (evInstantNow (instant tStart) :: l) := by
  obtain ⟨J, rfl⟩ : ∃ J, F = J + 20 := ⟨F - 20, by omega⟩
  obtain ⟨c, body, hfw⟩ : ∃ c body,
      findWhile Code.fn_chrony_poller__run_clock_error_bound_poller_stmts = some (c, body) := by
    simp [rs_eval, rs_code]
  have hfw0 := hfw
  simp [rs_eval, rs_code] at hfw
  obtain ⟨rfl, rfl⟩ := hfw
  have L := fun N hN => loop nowNs inp refid _ hfw0 e0 last hlast habort xs hxs (Poller.init tStart)
    [evInstantNow (instant tStart)] 1 hin N hN
  simp only [ctxP, linuxUses_eq] at L ⊢
  simp [instantLo, GRACE_NS] at ht
  cases refid <;>
  · simp [rs_eval, pollerLoopSt, contextValue, pollerValue, optPhcValue, Poller.init, GRACE_NS, hsleep] at L
    simp [rs_eval, rs_code, contextValue, pollerValue, optPhcValue, Poller.init, GRACE_NS, h0, ht]
    rw [L (J + 10) (by omega)]
    generalize pollRun _ _ (xs ++ [last]) = R
    cases R with
    | none => simp [rs_eval]
    | some p =>
      obtain ⟨s', l⟩ := p
      simp [rs_eval]

end ClockBound.Rs.PollerProof
