import ClockBound.Proofs.RsThreadsDrop0
namespace ClockBound.Rs.ThreadsProof
open ClockBound.Threads
set_option maxRecDepth 8000 in
set_option maxHeartbeats 4000000 in
theorem drop_tie_poller : DropStmt .poller := by
  unfold DropStmt
  drop_tie_tac
end ClockBound.Rs.ThreadsProof
