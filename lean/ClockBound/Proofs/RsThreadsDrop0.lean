/-
  `Drop for Context::drop`: the definitions and the proof script shared by the three per-id files
  (`RsThreadsDropP/W/M.lean`, one evaluation set per channel id, built in parallel).
-/
import ClockBound.Proofs.RsThreadsBase
namespace ClockBound.Rs.ThreadsProof
open ClockBound ClockBound.Rs ClockBound.Generated ClockBound.Rs.DictThreads ClockBound.Rs.EmbedThreads
open ClockBound.Threads

/-- the notice a dying thread with id `c` sends: `ThreadPanic(c)` if it is unwinding, else `ThreadTerminate(c)` -/
def noticeOf (c : Thread) (panicking : Bool) : RMsg := if panicking = true then .panic c else .terminate c

/-- what `drop_eq` says, for one id -/
def DropStmt (c : Thread) : Prop :=
  ∀ (ks : List Thread) (p ok : Bool) (nowNs : Int) (inp : Nat → Value),
    inp 0 = .bool p → inp 1 = sendResult ok (noticeOf c p).value →
    run (Code.ctxWith nowNs DictThreads.ext [] inp) "Drop for Context::drop" (contextValue c ks) []
    = .ok .unit (contextValue c ks)
        [evPanicking (.bool p),
         evSend (chanValue .main) (noticeOf c p).value (sendResult ok (noticeOf c p).value)]

macro "drop_tie_tac" : tactic => `(tactic| (
  intro ks p ok nowNs inp h0 h1
  cases p <;> cases ok <;>
    simp only [noticeOf, sendResult, RMsg.value, Bool.false_eq_true, if_false, if_true] at h1 ⊢ <;>
    simp [rs_eval, rs_code, contextValue, dispatchValue, allChans, h0, h1]))

end ClockBound.Rs.ThreadsProof
