/-
  `ShmReader::snapshot`, the retry loop in a `for _ in 0..MAX { .. }` form (seeded/harmless-2).  Every lemma
  is about the loop that `findFor` finds in the generated body; at HEAD (the `while` form,
  `Proofs/RsSnapWhile.lean`) there is none and the lemmas hold vacuously.
-/
import ClockBound.Proofs.RsSeqlock
namespace ClockBound.Rs.SeqlockProof
open ClockBound ClockBound.Rs ClockBound.Generated ClockBound.Rs.DictShm ClockBound.Rs.EmbedShm

/-- the loop state of the `for` form: the generic layout (`LSg`, read off the probe run); there is no counter -/
def LSf (v : Nat) : MkSt := fun _ g1 cg cache lg pos => LSg .infer v 0 g1 cg cache lg pos

theorem goodMk_LSf (v : Nat) (p : Pat) (it : Expr) (b : List Stmt)
    (hcb : findFor Code.fn_ShmReader__snapshot_stmts = some (p, it, b)) : GoodMk (LSf v) := by
  first
  | (exfalso; simp [findFor] at hcb; done)
  | (intro k g1 cg cache lg pos; simp [LSf, LSg, probeEnv, probeSt, loopPrefix, probeInp, relabel, sfr, rs_eval, rs_code, rawInp, readerValue, wordsValue, envGet])

set_option maxRecDepth 8000 in
set_option maxHeartbeats 2000000 in
/-- one item of the `for`: bind the pattern, run the body -/
theorem iter_for (inp : Nat → Nat) (nowNs : Int) (sizes : List (String × Nat)) (p : Pat) (it : Expr) (b : List Stmt)
    (hcb : findFor Code.fn_ShmReader__snapshot_stmts = some (p, it, b))
    (t : IntTy) (i : Int) (k g1 v cg : Nat) (cache : List Nat) (lg : List Value) (pos : Nat)
    (hpos : AttemptPos pos) (N : Nat) (hN : 30 ≤ N) (next : St → Res) (st : St) (hst : st = LSf v k g1 cg cache lg pos) :
    (orStuck "for: pattern without a rule" (matchPat N sfr.selfTy p (.int t i)) fun (_, bs) =>
      ((evalBlock N (sctx nowNs sizes inp) sfr b { st with env := bs ++ st.env }).popTo st.env.length).loopNext next)
    = if g1 = typedInp inp (pos + SL.N) then
        .ret (.enumv "Ok" [wordsValue (SL.attemptCells (typedInp inp) pos)])
          (LSf v k g1 g1 (SL.attemptCells (typedInp inp) pos)
            (lg ++ (SL.attemptAccs snapAnn (typedInp inp) pos).map accValue) (pos + SL.N + 1))
      else
        next (LSf v k (if typedInp inp (pos + SL.N) % 2 = 0 then typedInp inp (pos + SL.N) else g1) cg cache
          (lg ++ (SL.attemptAccs snapAnn (typedInp inp) pos).map accValue) (pos + SL.N + 1)) := by
  first
  | (exfalso; simp [findFor] at hcb; done)
  | (simp [findFor] at hcb
     obtain ⟨rfl, rfl, rfl⟩ := hcb
     subst hst
     obtain ⟨M, rfl⟩ := Nat.exists_eq_add_of_le' hN
     eval_bodyLog hbl
     simp [rs_eval, rs_code, LSf, LSg, probeEnv, probeSt, loopPrefix, probeInp, relabel, sfr, rawInp, readerValue, wordsValue,
       readWords_attempt inp hpos, typedInp_gen2 inp hpos, wordLoads_attempt, SL.attemptAccs, accValue, locValue, locTy,
       ordValue, snapAnn, hbl, evOrd, isFenceEv, lastOf, ordOfValue, evLoad, evFence]
     split_ifs <;> simp_all <;> omega)

/-- the `for` over `lo .. lo + k` (a budget of `k` attempts), for every fuel ≥ `k + 31` -/
theorem loop_eq_for (inp : Nat → Nat) (nowNs : Int) (sizes : List (String × Nat)) (p : Pat) (it : Expr) (b : List Stmt)
    (hcb : findFor Code.fn_ShmReader__snapshot_stmts = some (p, it, b)) (v cg : Nat) (cache : List Nat) :
    ∀ k (t : IntTy) (lo : Int) pos, AttemptPos pos → ∀ g1 lg N, k + 31 ≤ N →
      evalFor N (sctx nowNs sizes inp) sfr p b (intRange t lo (lo + (k : Nat))) (LSf v 0 g1 cg cache lg pos)
      = loopOutG (typedInp inp) cg cache (LSf v) (LSf v) k pos g1 lg := by
  intro k
  induction k with
  | zero =>
    intro t lo pos _ g1 lg N hN
    obtain ⟨M, rfl⟩ : ∃ M, N = M + 1 := ⟨N - 1, by omega⟩
    rw [intRange_nil _ _ _ (by omega), evalFor_nil]
    simp [loopOutG, LSf]
  | succ k ih =>
    intro t lo pos hpos g1 lg N hN
    obtain ⟨M, rfl⟩ : ∃ M, N = M + 1 := ⟨N - 1, by omega⟩
    rw [intRange_cons _ _ _ (by omega), evalFor_cons,
      iter_for inp nowNs sizes p it b hcb t lo 0 g1 v cg cache lg pos hpos M (by omega) _ _ rfl]
    rw [loopOutG]
    have e : lo + ((k + 1 : Nat) : Int) = (lo + 1) + ((k : Nat) : Int) := by omega
    split
    · rfl
    · rw [e]
      exact ih t (lo + 1) _ hpos.next _ _ M (by omega)

end ClockBound.Rs.SeqlockProof
