/-
  Common ground of the worker-loop proofs (`RsThreadsPoller.lean`, `RsThreadsWriter.lean`): input-stream facts,
  the two-statement loop body evaluated in two stages, message shapes.
-/
import ClockBound.Proofs.RsThreadsBase
import ClockBound.Rs.EmbedWorkers
namespace ClockBound.Rs.ThreadsProof
open ClockBound ClockBound.Rs ClockBound.Generated ClockBound.Rs.DictThreads ClockBound.Rs.EmbedThreads
open ClockBound.Rs.EmbedWorkers ClockBound.Threads

theorem inputsAt_append (inp : Nat → Value) (p : Nat) (a b : List Value) :
    inputsAt inp p (a ++ b) ↔ inputsAt inp p a ∧ inputsAt inp (p + a.length) b := by
  induction a generalizing p with
  | nil => simp [inputsAt]
  | cons v l ih =>
    simp only [List.cons_append, inputsAt, ih, List.length_cons]
    have : p + 1 + l.length = p + (l.length + 1) := by omega
    rw [this, and_assoc]

/-- a prefix of the input stream made of `k` chunks: chunk `i` starts after the lengths of the chunks before it -/
theorem inputsAt_chunks (inp : Nat → Value) (p : Nat) (f : Nat → List Value) (before : Nat → Nat)
    (h0 : before 0 = 0) (hs : ∀ i, before (i + 1) = before i + (f i).length) (k : Nat) (rest : List Value)
    (h : inputsAt inp p ((List.range k).flatMap f ++ rest)) :
    (∀ i, i < k → inputsAt inp (p + before i) (f i)) ∧ inputsAt inp (p + before k) rest := by
  induction k generalizing rest with
  | zero => simpa [h0] using h
  | succ k ih =>
    rw [List.range_succ, List.flatMap_append, List.append_assoc] at h
    have := ih _ h
    obtain ⟨h1, h2⟩ := this
    simp only [List.flatMap_cons, List.flatMap_nil, List.append_nil] at h2
    rw [inputsAt_append] at h2
    refine ⟨fun i hi => ?_, ?_⟩
    · by_cases hik : i < k
      · exact h1 i hik
      · have : i = k := by omega
        subst this
        exact h2.1
    · rw [hs, ← Nat.add_assoc]
      exact h2.2

/-- a block `{ e1; rest.. }` in two stages: once `e1` is known to append `evs1` and to consume `c1` inputs in the same
    environment, what is left is the rest of the block from there (`st` is found by `rw` in the goal, so the
    stage-one fact is stated relative to whatever state the evaluation has reached: no variable names) -/
theorem stageA {ctx : Ctx} {fr : Frame} {e1 : Expr} {semi : Bool} {r : Stmt} {rs : List Stmt}
    (n : Nat) (st : St) (v : Value) (evs1 : List Value) (c1 : Nat)
    (hA : eval n ctx fr e1 st = .val v ⟨st.env, st.log ++ evs1, st.pos + c1⟩) :
    evalBlock (n + 1) ctx fr (.expr e1 semi :: r :: rs) st
      = evalBlock n ctx fr (r :: rs) ⟨st.env, st.log ++ evs1, st.pos + c1⟩ := by
  simp only [evalBlock, hA, Res.bind_val]

/-- ... and when `e1` panics, the block panics -/
theorem stageA_panic {ctx : Ctx} {fr : Frame} {e1 : Expr} {semi : Bool} {r : Stmt} {rs : List Stmt}
    (n : Nat) (st : St) (hA : eval n ctx fr e1 st = .panic) :
    evalBlock (n + 1) ctx fr (.expr e1 semi :: r :: rs) st = .panic := by
  simp only [evalBlock, hA, Res.bind_panic]

/-- one unfolding of a `while` whose condition is known to hold (and to leave the state alone) -/
theorem evalWhile_step {ctx : Ctx} {fr : Frame} {c : Expr} {body : List Stmt} (n : Nat) (st : St)
    (hc : eval n ctx fr c st = .val (.bool true) st) :
    evalWhile (n + 1) ctx fr c body st
      = ((evalBlock n ctx fr body st).popTo st.env.length).loopNext fun st'' => evalWhile n ctx fr c body st'' := by
  rw [evalWhile_succ, hc]
  simp only [Res.bind_val, if_true]

/-- looking a key up in a function table from which the keys `bad` were removed -/
theorem lookup_filter_keys (bad : List String) (l : List (String × FnDecl)) (k : String) :
    (l.filter fun p => !bad.contains p.1).lookup k = if bad.contains k then none else l.lookup k := by
  induction l with
  | nil => simp [List.lookup]
  | cons a rest ih =>
    obtain ⟨ak, ad⟩ := a
    simp only [List.filter_cons]
    by_cases hb : bad.contains ak = true
    · simp only [hb, Bool.not_true, Bool.false_eq_true, if_false, ih]
      by_cases hk : k = ak
      · subst hk; simp_all
      · simp_all [List.lookup]
        have hk' : (k == ak) = false := by simpa using hk
        simp [hk']
    · have hb' : bad.contains ak = false := by simpa using hb
      simp only [hb', Bool.not_false, if_true, List.lookup]
      by_cases hk : k = ak
      · subst hk; simp_all
      · simp_all
        have hk' : (k == ak) = false := by simpa using hk
        simp [hk']

/-- a message that is not `ThreadAbort` is another variant of `Message` -/
theorem value_nonAbort (m : RMsg) (h : m.isAbort = false) :
    ∃ name args, m.value = .enumv name args ∧ name ≠ "Message::ThreadAbort" := by
  cases m with
  | data p => exact ⟨_, _, rfl, by decide⟩
  | noData n => cases n <;> exact ⟨_, _, rfl, by decide⟩
  | terminate c => exact ⟨_, _, rfl, by decide⟩
  | panic c => exact ⟨_, _, rfl, by decide⟩
  | abort => simp [RMsg.isAbort] at h

@[rs_eval] theorem ascribe_trackingValue (ty : String) (t : Tracking) :
    ascribe ty (trackingValue t) = some (trackingValue t) := rfl

end ClockBound.Rs.ThreadsProof
