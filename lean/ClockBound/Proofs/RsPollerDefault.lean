/-
  `Default for ClockErrorBoundPoller::default` and `is_within_grace_period` (statements in
  `Properties/CodeTiePoller.lean`).
-/
import ClockBound.Proofs.RsNow
namespace ClockBound.Rs.PollerProof
open ClockBound ClockBound.Rs ClockBound.Generated ClockBound.Rs.DictPoller ClockBound.Rs.NowProof

set_option maxRecDepth 8000 in
theorem default_tie (tStart nowNs : Int) (inp : Nat → Value) (h0 : inp 0 = instant tStart) :
    run (ctxP nowNs [] inp) "Default for ClockErrorBoundPoller::default" .unit []
    = if instantLo ≤ tStart - GRACE_NS then
        .ok (pollerValue (Poller.init tStart)) .unit [evInstantNow (instant tStart)]
      else .panic := by
  simp only [ctxP, linuxUses_eq]
  simp [rs_eval, rs_code, pollerValue, Poller.init, GRACE_NS, h0]
  split_ifs <;> simp_all [rs_eval]

set_option maxRecDepth 8000 in
theorem grace_tie (s : PollerState) (tGrace nowNs : Int) (inp : Nat → Value) (h0 : inp 0 = instant tGrace) :
    run (ctxP nowNs [] inp) "ChronyOperations for ClockErrorBoundPoller::is_within_grace_period" (pollerValue s) []
    = .ok (.bool (s.withinGrace tGrace)) (pollerValue s) [evInstantNow (instant tGrace)] := by
  simp only [ctxP, linuxUses_eq]
  simp [rs_eval, rs_code, pollerValue, PollerState.withinGrace, Poller.elapsed, GRACE_NS, h0]

end ClockBound.Rs.PollerProof
