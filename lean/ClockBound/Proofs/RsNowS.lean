/-
  `ClockErrorBound::now`, status `synchronized` (split from `Proofs/RsNow.lean` so that the three decision trees
  are checked in parallel).
-/
import ClockBound.Proofs.RsNow
namespace ClockBound.Rs.NowProof
open ClockBound ClockBound.Rs ClockBound.Generated ClockBound.Rs.DictPoller

set_option maxRecDepth 8000 in
set_option maxHeartbeats 2000000 in
theorem now_synchronized (as an vs vn bound : Int) (drift res : Nat) (rs rn ms mn nowNs : Int)
    (sizes : List (String × Nat)) (inp : Nat → Value)
    (h0 : inp 0 = okTimespec ⟨rs, rn⟩) (h1 : inp 1 = okTimespec ⟨ms, mn⟩) :
    run (ctxP nowNs sizes inp) "ClockErrorBound::now"
      (recordValue ⟨⟨as, an⟩, ⟨vs, vn⟩, bound, drift, res, .synchronized⟩) []
    = (clientOutcome ⟨⟨as, an⟩, ⟨vs, vn⟩, bound, drift, res, .synchronized⟩
        (computeBoundAt ⟨⟨as, an⟩, ⟨vs, vn⟩, bound, drift, res, .synchronized⟩ ⟨rs, rn⟩ ⟨ms, mn⟩)).after
        [evClockRead (clockId 0) (okTimespec ⟨rs, rn⟩), evClockRead (clockId 6) (okTimespec ⟨ms, mn⟩)] := by
  now_tie

end ClockBound.Rs.NowProof
