/-
  Helper lemmas about the daemon model shared by C07–C11, C19 (and C01).
-/
import ClockBound.Model.OraclesD
import ClockBound.Proofs.Client
namespace ClockBound

/-! ### generation protocol (C11) -/

/-- the invariant of `C11.history_invariant`, as a predicate on states; it is inductive -/
def GInv (s : GState) : Prop :=
  s.g < 65536 ∧
  (s.mid = true → s.g % 2 = 1) ∧
  (s.stale = true → s.g % 2 = 1 ∧ s.mid = false) ∧
  (s.mid = false → s.stale = false → s.finishes > 0 → s.g % 2 = 0 ∧ s.g ≠ 0) ∧
  (s.stores > 0 → s.g ≠ 0)

theorem genStart_spec (g : Nat) (h : g < 65536) :
    genStart g < 65536 ∧ genStart g % 2 = 1 ∧ genStart g ≠ 0 := by
  unfold genStart; split <;> omega

theorem genFinish_spec (g : Nat) (_h : g < 65536) (ho : g % 2 = 1) :
    genFinish g < 65536 ∧ genFinish g % 2 = 0 ∧ genFinish g ≠ 0 := by
  unfold genFinish; simp only []; split <;> omega

theorem GInv.step {s : GState} (h : GInv s) (e : GEv) : GInv (s.step e) := by
  obtain ⟨h1, h2, h3, h4, h5⟩ := h
  cases e
  · -- start
    cases hm : s.mid
    · obtain ⟨a, b, c⟩ := genStart_spec s.g h1
      simp only [GState.step, hm, Bool.false_eq_true, if_false]
      exact ⟨a, fun _ => b, (fun hh => by cases hh), (fun hh => by cases hh), fun _ => c⟩
    · simp only [GState.step, hm, if_true]
      exact ⟨h1, h2, h3, h4, h5⟩
  · -- finish
    cases hm : s.mid
    · simp only [GState.step, hm, Bool.false_eq_true, if_false]
      exact ⟨h1, h2, h3, h4, h5⟩
    · obtain ⟨a, b, c⟩ := genFinish_spec s.g h1 (h2 hm)
      simp only [GState.step, hm, if_true]
      exact ⟨a, (fun hh => by cases hh), (fun hh => by cases hh), fun _ _ _ => ⟨b, c⟩, fun _ => c⟩
  · -- crash
    cases hm : s.mid
    · simp only [GState.step, hm, Bool.false_eq_true, if_false]
      exact ⟨h1, h2, h3, h4, h5⟩
    · simp only [GState.step, hm, if_true]
      exact ⟨h1, (fun hh => by cases hh), fun _ => ⟨h2 hm, rfl⟩, (fun _ hh => by cases hh), h5⟩

theorem GInv.foldl {s : GState} (h : GInv s) (evs : List GEv) : GInv (evs.foldl GState.step s) := by
  induction evs generalizing s with
  | nil => exact h
  | cons e es ih => exact ih (h.step e)

theorem GInv.run (g0 : Nat) (h0 : g0 < 65536) (evs : List GEv) : GInv (GState.run g0 evs) := by
  apply GInv.foldl
  refine ⟨h0, ?_, ?_, ?_, ?_⟩ <;> simp

/-! ### derived `BEq` instances are reflexive -/

theorem TimeSpec.beq_self (a : TimeSpec) : (a == a) = true := by
  cases a; simp [BEq.beq, instBEqTimeSpec.beq]

theorem Status.beq_self (a : Status) : (a == a) = true := by cases a <;> rfl

theorem ChronyStatus.beq_self (a : ChronyStatus) : (a == a) = true := by cases a <;> rfl

/-! ### the updater, one message at a time -/

theorem fsmStep_eq (s : Status) (c : ChronyStatus) : fsmStep s c = statusOfChrony c := by
  cases s <;> cases c <;> rfl

/-- the updater state after an outcome (no overflow checks) -/
def Updater.after (u : Updater) : PollOutcome → Updater
  | .report b cs a =>
    if cs = .synchronized then
      { u with fsm := fsmStep u.fsm cs, bound := b, asOf := a, hasMeasurement := true }
    else { u with fsm := fsmStep u.fsm cs }
  | .silence g => { u with fsm := fsmStep u.fsm (if g then .freeRunning else .unknown) }

/-- the record an updater publishes when `as_of + 1000 s` does not overflow -/
def Updater.pub (u : Updater) : Record :=
  { asOf := u.asOf, voidAfter := ⟨u.asOf.sec + 1000, 0⟩, bound := u.bound, drift := u.drift,
    reserved := u.reserved, status := if u.hasMeasurement then u.fsm else .unknown }

theorem Updater.record_some {u : Updater} {r : Record} (h : u.record = some r) : r = u.pub := by
  have e : u.record = (chk (u.asOf.sec + 1000)).bind fun v =>
      some { asOf := u.asOf, voidAfter := ⟨v, 0⟩, bound := u.bound, drift := u.drift,
             reserved := u.reserved, status := if u.hasMeasurement then u.fsm else .unknown } := rfl
  rw [e] at h
  cases hc : chk (u.asOf.sec + 1000) with
  | none => rw [hc] at h; cases h
  | some v =>
    rw [hc, Option.bind_some] at h
    obtain ⟨hv, _, _⟩ := TimeSpec.chk_eq_some hc
    subst hv
    exact (Option.some.inj h).symm

theorem Updater.record_ok {u : Updater} (h : inI64 (u.asOf.sec + 1000) = true) :
    u.record = some u.pub := by
  unfold Updater.record chk
  rw [if_pos h]; rfl

/-- a step that does not panic moves to `after` of the abstract outcome and publishes its record -/
theorem Updater.step_data_eq (u : Updater) (t : Tracking) (phc : Int) (a : TimeSpec) (now : Int) :
    u.step (.data t phc a now) = (chk (boundF t + phc)).bind fun b =>
        (u.after (.report b (classify t now) a)).record.bind fun r =>
          some (u.after (.report b (classify t now) a), r) := rfl

theorem Updater.step_missing_eq (u : Updater) (g : Bool) :
    u.step (.missing g) = (u.after (.silence g)).record.bind fun r =>
          some (u.after (.silence g), r) := rfl

theorem Updater.step_some {u u' : Updater} {m : Msg} {r : Record} (h : u.step m = some (u', r)) :
    u' = u.after (abstractMsg m) ∧ r = u'.pub := by
  cases m with
  | data t phc a now =>
    rw [Updater.step_data_eq] at h
    cases hc : chk (boundF t + phc) with
    | none => rw [hc] at h; cases h
    | some b =>
      rw [hc, Option.bind_some] at h
      obtain ⟨hb, _, _⟩ := TimeSpec.chk_eq_some hc
      subst hb
      rw [Option.bind_eq_some_iff] at h
      obtain ⟨r', hr', he⟩ := h
      simp only [Option.some.injEq, Prod.mk.injEq] at he
      obtain ⟨e1, e2⟩ := he
      subst e2
      have := Updater.record_some hr'
      rw [e1] at this
      exact ⟨e1.symm, this⟩
  | missing g =>
    rw [Updater.step_missing_eq] at h
    rw [Option.bind_eq_some_iff] at h
    obtain ⟨r', hr', he⟩ := h
    simp only [Option.some.injEq, Prod.mk.injEq] at he
    obtain ⟨e1, e2⟩ := he
    subst e2
    have := Updater.record_some hr'
    rw [e1] at this
    exact ⟨e1.symm, this⟩

theorem Updater.step_ok {u : Updater} {m : Msg} (hm : m.ok = true)
    (hr : inI64 ((u.after (abstractMsg m)).asOf.sec + 1000) = true) :
    u.step m = some (u.after (abstractMsg m), (u.after (abstractMsg m)).pub) := by
  have hrec := Updater.record_ok hr
  cases m with
  | data t phc a now =>
    simp only [Msg.ok, Bool.and_eq_true] at hm
    have hc : chk (boundF t + phc) = some (boundF t + phc) := by unfold chk; rw [if_pos hm.1]
    have e : u.step (.data t phc a now) = (chk (boundF t + phc)).bind fun b =>
        (u.after (.report b (classify t now) a)).record.bind fun r =>
          some (u.after (.report b (classify t now) a), r) := rfl
    rw [e, hc, Option.bind_some]
    simp only [abstractMsg] at hrec ⊢
    rw [hrec, Option.bind_some]
  | missing g =>
    have e : u.step (.missing g) = (u.after (.silence g)).record.bind fun r =>
          some (u.after (.silence g), r) := rfl
    simp only [abstractMsg] at hrec ⊢
    rw [e, hrec, Option.bind_some]

theorem Updater.after_drift (u : Updater) (o : PollOutcome) :
    (u.after o).drift = u.drift ∧ (u.after o).reserved = u.reserved := by
  cases o with
  | report b cs a => simp only [Updater.after]; split <;> exact ⟨rfl, rfl⟩
  | silence g => exact ⟨rfl, rfl⟩

/-- every record of a run carries the updater's drift and a void-after 1000 s past its as-of -/
theorem Updater.run_drift_void (u : Updater) (msgs : List Msg) :
    ∀ r ∈ Updater.run u msgs, r.drift = u.drift ∧ r.voidAfter = ⟨r.asOf.sec + 1000, 0⟩ := by
  induction msgs generalizing u with
  | nil => intro r hr; cases hr
  | cons m ms ih =>
    intro r hr
    unfold Updater.run at hr
    cases hs : u.step m with
    | none => rw [hs] at hr; cases hr
    | some p =>
      obtain ⟨u', r0⟩ := p
      rw [hs] at hr
      obtain ⟨e1, e2⟩ := Updater.step_some hs
      have hd : u'.drift = u.drift := by rw [e1]; exact (Updater.after_drift u _).1
      rcases List.mem_cons.mp hr with h | h
      · subst h; rw [e2]; exact ⟨hd, rfl⟩
      · have := ih u' r h
        rw [hd] at this; exact this

/-! ### chrony floats in binary64 (C07, C10) -/

/-- a chrony float times a power of two is a double -/
theorem rne53_chronyFloat_mul_pow (w : Nat) (k : Int) :
    F64.rne53 (F64.chronyFloat w * (2:ℚ)^k) = F64.chronyFloat w * (2:ℚ)^k := by
  obtain ⟨m, e, hm, _, _, hc⟩ := F64.chronyFloat_repr w
  have : F64.chronyFloat w * (2:ℚ)^k = (m:ℚ) * (2:ℚ)^(e + k) := by
    rw [hc, zpow_add₀ (by norm_num), mul_assoc]
  rw [this]
  apply F64.rne53_exact
  calc |m| ≤ 2^24 := hm
    _ ≤ 2^53 := by norm_num

theorem chronyFloat_mul8 (w : Nat) : F64.mul (F64.chronyFloat w) 8 = F64.chronyFloat w * 8 := by
  have := rne53_chronyFloat_mul_pow w 3
  norm_num at this
  exact this

theorem chronyFloat_div2 (w : Nat) : F64.div (F64.chronyFloat w) 2 = F64.chronyFloat w / 2 := by
  have := rne53_chronyFloat_mul_pow w (-1)
  have e : F64.chronyFloat w * (2:ℚ)^(-1:ℤ) = F64.chronyFloat w / 2 := by
    rw [zpow_neg, zpow_one, div_eq_mul_inv]
  rw [e] at this
  exact this

/-- `as u64` is the floor, clamped -/
theorem castU64_eq (x : ℚ) :
    F64.castU64 x = if x.floor < 0 then 0 else if x.floor > 18446744073709551615 then 18446744073709551615 else x.floor := by
  unfold F64.castU64 F64.trunc F64.U64_MAX
  simp only []
  by_cases hx : x ≥ 0
  · rw [if_pos hx]
    have : 0 ≤ x.floor := by rw [Rat.le_floor_iff]; exact_mod_cast hx
    split_ifs <;> omega
  · rw [if_neg hx]
    have hx' : x < 0 := not_le.mp hx
    have h1 : x.ceil ≤ 0 := by rw [Rat.ceil_le_iff]; exact_mod_cast hx'.le
    have h2 : x.floor < 0 := by rw [Rat.floor_lt_iff]; exact_mod_cast hx'
    split_ifs <;> omega

theorem timeout_eq (t : Tracking) :
    F64.castU64 (F64.mul (F64.chronyFloat t.intervalW) 8) = C10.thresholdSecs t := by
  rw [chronyFloat_mul8, castU64_eq]; rfl

theorem leapClass_cases (leap : Nat) :
    (leap ≤ 2 ∧ leapClass leap = .synchronized) ∨ (leap = 3 ∧ leapClass leap = .freeRunning) ∨
    (leap ≥ 4 ∧ leapClass leap = .unknown) := by
  unfold leapClass
  by_cases h1 : leap ≤ 2
  · left; exact ⟨h1, by rw [if_pos h1]⟩
  · by_cases h2 : leap = 3
    · right; left; exact ⟨h2, by rw [if_neg h1, if_pos h2]⟩
    · right; right; exact ⟨by omega, by rw [if_neg h1, if_neg h2]⟩

/-! ### the bound pipeline (C07) -/

theorem absR_eq_abs (x : ℚ) : absR x = |x| := by
  unfold absR
  split_ifs with h
  · rw [abs_of_neg h]
  · rw [abs_of_nonneg (not_lt.mp h)]

theorem absR_neg (x : ℚ) : absR (-x) = absR x := by
  rw [absR_eq_abs, absR_eq_abs, abs_neg]

theorem absR_nonneg (x : ℚ) : 0 ≤ absR x := by
  rw [absR_eq_abs]; exact abs_nonneg x

/-- `boundF` with the sign test written as `absR` -/
theorem boundF_def (t : Tracking) :
    boundF t = F64.castI64 (F64.ceil (F64.mul (F64.add (F64.add (F64.div (F64.chronyFloat t.delayW) 2)
      (F64.chronyFloat t.dispW)) (absR (F64.chronyFloat t.offW))) 1000000000)) := rfl

/-- `boundF` as three roundings, a ceiling and a cast (the halving is exact) -/
theorem boundF_eq (t : Tracking) :
    boundF t = F64.castI64 (((F64.rne53 (F64.rne53 (F64.rne53 (F64.chronyFloat t.delayW / 2 +
      F64.chronyFloat t.dispW) + absR (F64.chronyFloat t.offW)) * 1000000000)).ceil : Int) : ℚ) := by
  rw [boundF_def, chronyFloat_div2]; rfl

/-- three roundings of non-negative data: `((x ⊕ o) ⊗ k)` against `(x + o)·k` -/
theorem three_roundings {x o k : ℚ} (hx : 0 ≤ x) (ho : 0 ≤ o) (hk : 0 ≤ k) :
    let E := (x + o) * k
    let c := F64.rne53 (F64.rne53 (F64.rne53 x + o) * k)
    0 ≤ c ∧ E * (1 - C07.eps51) ≤ c ∧ c ≤ E * (1 + C07.eps51) := by
  intro E c
  obtain ⟨l1, u1⟩ := rne53_bounds_nonneg hx
  have h1 : 0 ≤ F64.rne53 x := F64.rne53_nonneg hx
  have hs : 0 ≤ F64.rne53 x + o := by positivity
  obtain ⟨l2, u2⟩ := rne53_bounds_nonneg hs
  have h2 : 0 ≤ F64.rne53 (F64.rne53 x + o) := F64.rne53_nonneg hs
  have hp : 0 ≤ F64.rne53 (F64.rne53 x + o) * k := by positivity
  obtain ⟨l3, u3⟩ := rne53_bounds_nonneg hp
  have h3 : 0 ≤ c := F64.rne53_nonneg hp
  set a := F64.rne53 x with ha
  set b := F64.rne53 (a + o) with hb
  set u : ℚ := 1 / 2 ^ 53 with hu
  have hu0 : 0 ≤ 1 - u := by rw [hu]; norm_num
  have hu1 : 0 ≤ 1 + u := by rw [hu]; norm_num
  have hu' : 0 ≤ u := by rw [hu]; norm_num
  have hE : 0 ≤ E := by positivity
  have U2 : b ≤ (x + o) * ((1 + u) * (1 + u)) := by
    calc b ≤ (a + o) * (1 + u) := u2
      _ ≤ (x * (1 + u) + o * (1 + u)) * (1 + u) := by
          apply mul_le_mul_of_nonneg_right _ hu1
          have : o ≤ o * (1 + u) := by nlinarith
          linarith
      _ = _ := by ring
  have U3 : c ≤ E * ((1 + u) * (1 + u) * (1 + u)) := by
    calc c ≤ b * k * (1 + u) := u3
      _ ≤ ((x + o) * ((1 + u) * (1 + u))) * k * (1 + u) := by
          apply mul_le_mul_of_nonneg_right _ hu1
          exact mul_le_mul_of_nonneg_right U2 hk
      _ = _ := by ring
  have L2 : (x + o) * ((1 - u) * (1 - u)) ≤ b := by
    calc _ = (x * (1 - u) + o * (1 - u)) * (1 - u) := by ring
      _ ≤ (a + o) * (1 - u) := by
          apply mul_le_mul_of_nonneg_right _ hu0
          have : o * (1 - u) ≤ o := by nlinarith
          linarith
      _ ≤ b := l2
  have L3 : E * ((1 - u) * (1 - u) * (1 - u)) ≤ c := by
    calc _ = ((x + o) * ((1 - u) * (1 - u))) * k * (1 - u) := by ring
      _ ≤ b * k * (1 - u) := by
          apply mul_le_mul_of_nonneg_right _ hu0
          exact mul_le_mul_of_nonneg_right L2 hk
      _ ≤ c := l3
  have e1 : (1 + u) * (1 + u) * (1 + u) ≤ 1 + C07.eps51 := by
    rw [hu]; unfold C07.eps51; norm_num
  have e2 : 1 - C07.eps51 ≤ (1 - u) * (1 - u) * (1 - u) := by
    rw [hu]; unfold C07.eps51; norm_num
  refine ⟨h3, ?_, ?_⟩
  · exact le_trans (mul_le_mul_of_nonneg_left e2 hE) L3
  · exact le_trans U3 (mul_le_mul_of_nonneg_left e1 hE)

theorem applicable_spec {t : Tracking} {phc : Int} (h : C07.applicable t phc = true) :
    0 ≤ F64.chronyFloat t.dispW ∧ 0 ≤ F64.chronyFloat t.delayW ∧
    C07.exactNs t < 4611686018427387904 ∧ 0 ≤ phc ∧ phc < 4611686018427387904 := by
  simp only [C07.applicable, Bool.and_eq_true, decide_eq_true_eq] at h
  obtain ⟨⟨⟨h1, h2⟩, h3⟩, h4, h5⟩ := h
  exact ⟨h1, h2, h3, h4, h5⟩

theorem castI64_intCast {n : Int} (h0 : 0 ≤ n) (h1 : n < 9223372036854775808) :
    F64.castI64 (n : ℚ) = n := by
  rw [F64.castI64_eq_floor (by exact_mod_cast h0) (by exact_mod_cast h1)]
  exact Rat.floor_intCast n

/-- C07 for the chrony part of the bound -/
theorem boundF_bounds (t : Tracking) (hs : 0 ≤ F64.chronyFloat t.dispW)
    (hd : 0 ≤ F64.chronyFloat t.delayW) (hE : C07.exactNs t < 4611686018427387904) :
    0 ≤ boundF t ∧ C07.exactNs t * (1 - C07.eps51) ≤ (boundF t : ℚ) ∧
    (boundF t : ℚ) < C07.exactNs t * (1 + C07.eps51) + 1 := by
  have hx : 0 ≤ F64.chronyFloat t.delayW / 2 + F64.chronyFloat t.dispW := by positivity
  obtain ⟨c0, cl, cu⟩ := three_roundings hx (absR_nonneg (F64.chronyFloat t.offW))
    (by norm_num : (0:ℚ) ≤ 1000000000)
  have eE : (F64.chronyFloat t.delayW / 2 + F64.chronyFloat t.dispW +
      absR (F64.chronyFloat t.offW)) * 1000000000 = C07.exactNs t := by
    unfold C07.exactNs; ring
  simp only [eE] at cl cu
  rw [boundF_eq]
  set c : ℚ := F64.rne53 (F64.rne53 (F64.rne53 (F64.chronyFloat t.delayW / 2 +
      F64.chronyFloat t.dispW) + absR (F64.chronyFloat t.offW)) * 1000000000) with hc
  have hceil1 : c ≤ (c.ceil : ℚ) := Rat.le_ceil
  have hceil2 : (c.ceil : ℚ) < c + 1 := Rat.ceil_lt
  have hn0 : 0 ≤ c.ceil := by
    have : (0:ℚ) ≤ (c.ceil : ℚ) := le_trans c0 hceil1
    exact_mod_cast this
  have hlt : (c.ceil : ℚ) < 9223372036854775808 := by
    have e1 : C07.exactNs t * (1 + C07.eps51) ≤ 4611686018427387904 * (1 + C07.eps51) :=
      mul_le_mul_of_nonneg_right hE.le (by unfold C07.eps51; norm_num)
    have e2 : (4611686018427387904 : ℚ) * (1 + C07.eps51) + 1 < 9223372036854775808 := by
      unfold C07.eps51; norm_num
    linarith
  have hn1 : c.ceil < 9223372036854775808 := by exact_mod_cast hlt
  rw [castI64_intCast hn0 hn1]
  refine ⟨hn0, ?_, ?_⟩ <;> linarith

/-! ### histories of poll outcomes (C08, C09) -/

/-- bound and as-of carried by a synchronised report -/
def syncOf : PollOutcome → Option (Int × TimeSpec)
  | .report b .synchronized a => some (b, a)
  | _ => none

theorem lastSync_cons (o : PollOutcome) (rest : List PollOutcome) :
    lastSync (o :: rest) = match lastSync rest with
      | some x => some x
      | none => syncOf o := by
  cases o with
  | report b cs a => cases cs <;> rfl
  | silence g => rfl

/-- the LAST synchronised report wins -/
theorem lastSync_concat (h : List PollOutcome) (o : PollOutcome) :
    lastSync (h ++ [o]) = match syncOf o with
      | some x => some x
      | none => lastSync h := by
  induction h with
  | nil =>
    rw [List.nil_append, lastSync_cons]
    cases syncOf o <;> rfl
  | cons x h ih =>
    rw [List.cons_append, lastSync_cons, ih]
    cases syncOf o with
    | some y => rfl
    | none => rw [lastSync_cons]

theorem lastSync_eq_none_iff (l : List PollOutcome) :
    lastSync l = none ↔ ∀ o ∈ l, syncOf o = none := by
  induction l with
  | nil => simp [lastSync]
  | cons x l ih =>
    rw [lastSync_cons, List.forall_mem_cons, ← ih]
    cases lastSync l with
    | some y => simp
    | none => simp

theorem Updater.after_fields (u : Updater) (o : PollOutcome) :
    (u.after o).fsm = statusOfChrony o.cls ∧ (u.after o).drift = u.drift ∧
    (u.after o).reserved = u.reserved ∧
    (∀ b a, syncOf o = some (b, a) →
      (u.after o).bound = b ∧ (u.after o).asOf = a ∧ (u.after o).hasMeasurement = true) ∧
    (syncOf o = none →
      (u.after o).bound = u.bound ∧ (u.after o).asOf = u.asOf ∧
      (u.after o).hasMeasurement = u.hasMeasurement) := by
  cases o with
  | report b cs a =>
    cases cs <;>
      simp [Updater.after, syncOf, fsmStep_eq, PollOutcome.cls]
  | silence g =>
    simp [Updater.after, syncOf, fsmStep_eq, PollOutcome.cls]

theorem ok_sync {m : Msg} (hm : m.ok = true) {b : Int} {a : TimeSpec}
    (hs : syncOf (abstractMsg m) = some (b, a)) : inI64 (a.sec + 1000) = true := by
  cases m with
  | data t phc a' now =>
    simp only [Msg.ok, Bool.and_eq_true] at hm
    simp only [abstractMsg] at hs
    generalize classify t now = cs at hs
    cases cs <;> simp only [syncOf, Option.some.injEq, Prod.mk.injEq, reduceCtorEq] at hs
    obtain ⟨_, rfl⟩ := hs
    exact hm.2
  | missing g => simp [abstractMsg, syncOf] at hs

/-! ### C09: no trust without a measurement -/

/-- what the updater remembers about the outcomes `h` it has processed -/
def UInv9 (u : Updater) (h : List PollOutcome) : Prop :=
  u.hasMeasurement = (lastSync h).isSome ∧
  ∀ b a, lastSync h = some (b, a) → u.bound = b ∧ u.asOf = a

theorem UInv9.new (drift : Nat) : UInv9 (Updater.new drift) [] := by
  refine ⟨rfl, ?_⟩
  intro b a hh; cases hh

theorem UInv9.after {u : Updater} {h : List PollOutcome} (inv : UInv9 u h) (o : PollOutcome) :
    UInv9 (u.after o) (h ++ [o]) := by
  obtain ⟨_, _, _, hsome, hnone⟩ := Updater.after_fields u o
  obtain ⟨i1, i2⟩ := inv
  unfold UInv9
  rw [lastSync_concat]
  cases hs : syncOf o with
  | some x =>
    obtain ⟨b, a⟩ := x
    obtain ⟨e1, e2, e3⟩ := hsome b a hs
    refine ⟨e3, ?_⟩
    intro b' a' hh
    simp only [Option.some.injEq, Prod.mk.injEq] at hh
    obtain ⟨rfl, rfl⟩ := hh
    exact ⟨e1, e2⟩
  | none =>
    obtain ⟨e1, e2, e3⟩ := hnone hs
    refine ⟨by rw [e3]; exact i1, ?_⟩
    intro b a hh
    rw [e1, e2]; exact i2 b a hh

theorem UInv9.holdsAt {u : Updater} {h : List PollOutcome} (inv : UInv9 u h) :
    C09.HoldsAt h u.pub = true := by
  obtain ⟨i1, i2⟩ := inv
  unfold C09.HoldsAt
  cases hs : lastSync h with
  | none =>
    rw [hs] at i1
    simp only [Updater.pub, i1, Option.isSome_none, Bool.false_eq_true, if_false]
    rfl
  | some x =>
    obtain ⟨b, a⟩ := x
    obtain ⟨e1, e2⟩ := i2 b a hs
    simp only [Updater.pub, e1, e2, Bool.or_eq_true, Bool.and_eq_true]
    right
    exact ⟨by simp, TimeSpec.beq_self a⟩

theorem run_C09 (u : Updater) (h : List PollOutcome) (msgs : List Msg) (inv : UInv9 u h) :
    ∀ k r, (Updater.run u msgs)[k]? = some r →
      C09.HoldsAt (h ++ (msgs.map abstractMsg).take (k + 1)) r = true := by
  induction msgs generalizing u h with
  | nil => intro k r hr; simp [Updater.run] at hr
  | cons m ms ih =>
    intro k r hr
    unfold Updater.run at hr
    cases hs : u.step m with
    | none => rw [hs] at hr; simp at hr
    | some p =>
      obtain ⟨u', r0⟩ := p
      rw [hs] at hr
      obtain ⟨e1, e2⟩ := Updater.step_some hs
      have inv' : UInv9 u' (h ++ [abstractMsg m]) := by rw [e1]; exact inv.after _
      cases k with
      | zero =>
        simp only [List.getElem?_cons_zero, Option.some.injEq] at hr
        subst hr
        rw [e2]
        simpa using inv'.holdsAt
      | succ k =>
        simp only [List.getElem?_cons_succ] at hr
        have := ih u' (h ++ [abstractMsg m]) inv' k r hr
        simpa [List.take_succ_cons] using this

theorem C09_holds (drift : Nat) (msgs : List Msg) :
    C09.Holds (msgs.map abstractMsg) (Updater.run (Updater.new drift) msgs) = true := by
  unfold C09.Holds
  rw [List.all_eq_true]
  intro k _
  cases hr : (Updater.run (Updater.new drift) msgs)[k]? with
  | none => rfl
  | some r =>
    have := run_C09 (Updater.new drift) [] msgs (UInv9.new drift) k r hr
    simpa using this

theorem run_unknown (u : Updater) (msgs : List Msg) (hu : u.hasMeasurement = false)
    (hn : ∀ m ∈ msgs, syncOf (abstractMsg m) = none) :
    ∀ r ∈ Updater.run u msgs, r.status = .unknown := by
  induction msgs generalizing u with
  | nil => intro r hr; cases hr
  | cons m ms ih =>
    intro r hr
    unfold Updater.run at hr
    cases hs : u.step m with
    | none => rw [hs] at hr; cases hr
    | some p =>
      obtain ⟨u', r0⟩ := p
      rw [hs] at hr
      obtain ⟨e1, e2⟩ := Updater.step_some hs
      obtain ⟨_, _, _, _, hnone⟩ := Updater.after_fields u (abstractMsg m)
      have hm' : u'.hasMeasurement = false := by
        rw [e1, (hnone (hn m List.mem_cons_self)).2.2]; exact hu
      rcases List.mem_cons.mp hr with h | h
      · subst h; rw [e2]; simp [Updater.pub, hm']
      · exact ih u' hm' (fun m' hm => hn m' (List.mem_cons_of_mem _ hm)) r h

/-- the status of an `ok` outcome is the one `clientStatus` computes -/
theorem computeBoundAt_ok_status {r : Record} {real mono e l : TimeSpec} {st : Status}
    (h : computeBoundAt r real mono = .ok e l st) : clientStatus r mono = some st := by
  unfold computeBoundAt at h
  split at h
  · cases h
  · split at h
    · cases h
    · next st' hst =>
      rw [hst]
      split at h
      · cases h
      · simp only [] at h
        split at h
        · cases h
        · cases h
        · repeat' split at h
          all_goals first | (cases h; rfl) | cases h

/-! ### C08: the published record is `spec` of the history -/

def UInv (drift : Nat) (u : Updater) (h : List PollOutcome) : Prop :=
  u.drift = drift ∧ u.reserved = 0 ∧ u.hasMeasurement = (lastSync h).isSome ∧
  (u.bound, u.asOf) = (lastSync h).getD (0, ⟨0, 0⟩) ∧
  u.fsm = statusOfChrony ((h.getLast?.map PollOutcome.cls).getD .unknown) ∧
  inI64 (u.asOf.sec + 1000) = true

theorem UInv.new (drift : Nat) : UInv drift (Updater.new drift) [] :=
  ⟨rfl, rfl, rfl, rfl, rfl, by show inI64 ((0:Int) + 1000) = true; decide⟩

theorem UInv.pub {drift : Nat} {u : Updater} {h : List PollOutcome} (inv : UInv drift u h) :
    u.pub = C08.spec drift h := by
  obtain ⟨i1, i2, i3, i4, i5, _⟩ := inv
  unfold C08.spec Updater.pub
  simp only []
  rw [← i4, ← i3, ← i5, i1, i2]

theorem UInv.after {drift : Nat} {u : Updater} {h : List PollOutcome} (inv : UInv drift u h)
    {m : Msg} (hm : m.ok = true) : UInv drift (u.after (abstractMsg m)) (h ++ [abstractMsg m]) := by
  obtain ⟨f1, f2, f3, hsome, hnone⟩ := Updater.after_fields u (abstractMsg m)
  obtain ⟨i1, i2, i3, i4, i5, i6⟩ := inv
  unfold UInv
  rw [lastSync_concat, List.getLast?_concat]
  refine ⟨by rw [f2, i1], by rw [f3, i2], ?_, ?_, by rw [f1]; rfl, ?_⟩
  · cases hs : syncOf (abstractMsg m) with
    | some x =>
      obtain ⟨b, a⟩ := x
      rw [(hsome b a hs).2.2]; rfl
    | none => rw [(hnone hs).2.2]; exact i3
  · cases hs : syncOf (abstractMsg m) with
    | some x =>
      obtain ⟨b, a⟩ := x
      rw [(hsome b a hs).1, (hsome b a hs).2.1]; rfl
    | none => rw [(hnone hs).1, (hnone hs).2.1]; exact i4
  · cases hs : syncOf (abstractMsg m) with
    | some x =>
      obtain ⟨b, a⟩ := x
      rw [(hsome b a hs).2.1]; exact ok_sync hm hs
    | none => rw [(hnone hs).2.1]; exact i6

theorem run_C08 (drift : Nat) (u : Updater) (h : List PollOutcome) (msgs : List Msg)
    (inv : UInv drift u h) (hok : ∀ m ∈ msgs, m.ok = true) :
    Updater.run u msgs = (List.range msgs.length).map
      (fun k => C08.spec drift (h ++ (msgs.map abstractMsg).take (k + 1))) := by
  induction msgs generalizing u h with
  | nil => rfl
  | cons m ms ih =>
    have hm : m.ok = true := hok m List.mem_cons_self
    have inv' := inv.after hm
    have hs := Updater.step_ok hm inv'.2.2.2.2.2
    unfold Updater.run
    rw [hs]
    simp only []
    rw [ih _ _ inv' (fun m' hm' => hok m' (List.mem_cons_of_mem _ hm')), inv'.pub]
    rw [List.length_cons, List.range_succ_eq_map, List.map_cons, List.map_map]
    congr 1
    · apply List.map_congr_left
      intro k _
      simp [List.take_succ_cons]

theorem C08.specs_eq_run (drift : Nat) (msgs : List Msg) (hok : ∀ m ∈ msgs, m.ok = true) :
    Updater.run (Updater.new drift) msgs = C08.specs drift (msgs.map abstractMsg) := by
  rw [run_C08 drift _ [] msgs (UInv.new drift) hok]
  unfold C08.specs
  simp

theorem C08.agrees_self (seen : Bool) (r : Record) : C08.agrees seen r r = true := by
  unfold C08.agrees
  simp [TimeSpec.beq_self, Status.beq_self]

theorem C08.holds_specs (drift : Nat) (h : List PollOutcome) :
    C08.Holds drift h (C08.specs drift h) = true := by
  unfold C08.Holds C08.specs
  rw [Bool.and_eq_true]
  refine ⟨by simp, ?_⟩
  rw [List.all_eq_true]
  intro k hk
  rw [List.mem_range] at hk
  have : ((List.range h.length).map (fun k => C08.spec drift (h.take (k + 1))))[k]? =
      some (C08.spec drift (h.take (k + 1))) := by
    rw [List.getElem?_map, List.getElem?_range hk]; rfl
  rw [this]
  exact C08.agrees_self _ _

end ClockBound
