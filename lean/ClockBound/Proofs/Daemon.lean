/-
  Helper lemmas about the daemon model shared by C07–C11, C19 (and C01).
-/
import ClockBound.Model.OraclesD
import ClockBound.Proofs.Client
namespace ClockBound

end ClockBound
