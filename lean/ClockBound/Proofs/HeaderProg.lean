import ClockBound.Model.HeaderProg
import ClockBound.Proofs.Header
import Mathlib.Tactic.SplitIfs
namespace ClockBound.Proofs
open ClockBound

theorem readHeader_eq_prog (bs : Bytes) : readHeader bs = readProg (readRet bs) 0 (parseHeader bs) := by
  unfold readHeader readProg readRet checkHeader HEADER_SIZE
  simp only
  split_ifs <;> first | rfl | (exfalso; omega)

theorem readerOpenLim_eq_prog (lim : Option Nat) (bs : Bytes) :
    readerOpenLim lim (.file bs)
    = match readProg (readRet bs) 0 (parseHeader bs) with
      | .error e => .error e
      | .ok h => mapProg (mapFails lim h.segsize) ENOMEM h := by
  rw [← readHeader_eq_prog]
  unfold readerOpenLim mapProg mapFails SEGMENT_SIZE HEADER_SIZE RECORD_SIZE
  rcases hr : readHeader bs with e | h
  · simp [hr]
  · cases lim <;> simp [hr]

end ClockBound.Proofs
