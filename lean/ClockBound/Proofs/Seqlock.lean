/-
  Helper lemmas for the seqlock model (C02, C03, C04, C18).
-/
import ClockBound.Model.SeqlockSys
namespace ClockBound.SL
open ClockBound

/-! ### basics: `Loc`, list indexing -/

theorem loc_beq_iff (x y : Loc) : (x == y) = true ↔ x = y := by
  cases x <;> cases y <;> simp [BEq.beq, instBEqLoc.beq]

instance : LawfulBEq Loc where
  eq_of_beq h := (loc_beq_iff _ _).1 h
  rfl := (loc_beq_iff _ _).2 rfl

theorem getElem?_snoc_cases {log : Log} {x m : Msg} {i : Nat} (h : (log ++ [x])[i]? = some m) :
    (i < log.length ∧ log[i]? = some m) ∨ (i = log.length ∧ m = x) := by
  by_cases hi : i < log.length
  · left; rw [List.getElem?_append_left hi] at h; exact ⟨hi, h⟩
  · right
    have hi' : log.length ≤ i := Nat.le_of_not_lt hi
    rw [List.getElem?_append_right hi'] at h
    have : i - log.length = 0 := by
      by_cases h0 : i - log.length = 0
      · exact h0
      · have : [x][i - log.length]? = none := by
          apply List.getElem?_eq_none; simp; omega
        rw [this] at h; cases h
    rw [this] at h
    simp at h
    exact ⟨by omega, h.symm⟩

theorem getElem?_append_some {log l : Log} {i : Nat} {m : Msg} (h : log[i]? = some m) :
    (log ++ l)[i]? = some m := by
  have hi : i < log.length := by
    by_cases hi : i < log.length
    · exact hi
    · rw [List.getElem?_eq_none (Nat.le_of_not_lt hi)] at h; cases h
  rw [List.getElem?_append_left hi]; exact h

theorem getElem?_snoc_length (log : Log) (x : Msg) : (log ++ [x])[log.length]? = some x := by
  simp

theorem lt_length_of_getElem? {log : Log} {i : Nat} {m : Msg} (h : log[i]? = some m) : i < log.length := by
  by_cases hi : i < log.length
  · exact hi
  · rw [List.getElem?_eq_none (Nat.le_of_not_lt hi)] at h; cases h

/-! ### `lastBefore` -/

/-- the message at index `j` (if any) is at location `x` -/
def isLoc (log : Log) (x : Loc) (j : Nat) : Bool := (log[j]?.map (·.loc == x)).getD false

theorem isLoc_iff {log : Log} {x : Loc} {j : Nat} :
    isLoc log x j = true ↔ ∃ m, log[j]? = some m ∧ m.loc = x := by
  unfold isLoc
  cases h : log[j]? <;> simp

theorem isLoc_append {log l : Log} {x : Loc} {j : Nat} (h : j < log.length) :
    isLoc (log ++ l) x j = isLoc log x j := by
  unfold isLoc; rw [List.getElem?_append_left h]

theorem isLoc_of_ge {log : Log} {x : Loc} {j : Nat} (h : log.length ≤ j) : isLoc log x j = false := by
  unfold isLoc; rw [List.getElem?_eq_none h]; rfl

theorem lastBefore_zero (log : Log) (x : Loc) : lastBefore log x 0 = none := by
  simp [lastBefore]

theorem lastBefore_succ (log : Log) (x : Loc) (n : Nat) :
    lastBefore log x (n + 1) = if isLoc log x n then some n else lastBefore log x n := by
  by_cases hn : n < log.length
  · have h1 : min (n + 1) log.length = n + 1 := by omega
    have h2 : min n log.length = n := by omega
    unfold lastBefore
    simp only [h1, h2, List.range_succ, List.filter_append]
    by_cases hl : isLoc log x n = true
    · have : (log[n]?.map (·.loc == x)).getD false = true := hl
      simp [this, hl]
    · have hl' : isLoc log x n = false := by simpa using hl
      have : (log[n]?.map (·.loc == x)).getD false = false := hl'
      simp [this, hl']
  · have h1 : min (n + 1) log.length = log.length := by omega
    have h2 : min n log.length = log.length := by omega
    rw [isLoc_of_ge (Nat.le_of_not_lt hn)]
    unfold lastBefore
    simp only [h1, h2]
    simp

/-- `j` is the largest index `< n` holding a message at `x` -/
def LastAt (log : Log) (x : Loc) (n j : Nat) : Prop :=
  j < n ∧ (∃ m, log[j]? = some m ∧ m.loc = x) ∧
    ∀ k m, j < k → k < n → log[k]? = some m → m.loc ≠ x

theorem lastBefore_eq_none_iff {log : Log} {x : Loc} {n : Nat} :
    lastBefore log x n = none ↔ ∀ k m, k < n → log[k]? = some m → m.loc ≠ x := by
  induction n with
  | zero => simp [lastBefore_zero]
  | succ n ih =>
    rw [lastBefore_succ]
    by_cases hl : isLoc log x n = true
    · simp only [hl, if_true]
      obtain ⟨m, hm, hx⟩ := isLoc_iff.1 hl
      constructor
      · intro h; cases h
      · intro h; exact absurd hx (h n m (Nat.lt_succ_self n) hm)
    · simp only [hl]
      rw [if_neg (by simp), ih]
      constructor
      · intro h k m hk hm
        by_cases hkn : k = n
        · subst hkn; intro hx; exact hl (isLoc_iff.2 ⟨m, hm, hx⟩)
        · exact h k m (by omega) hm
      · intro h k m hk hm; exact h k m (by omega) hm

theorem lastBefore_eq_some_iff {log : Log} {x : Loc} {n j : Nat} :
    lastBefore log x n = some j ↔ LastAt log x n j := by
  induction n with
  | zero => simp [lastBefore_zero, LastAt]
  | succ n ih =>
    rw [lastBefore_succ]
    by_cases hl : isLoc log x n = true
    · simp only [hl, if_true]
      obtain ⟨m, hm, hx⟩ := isLoc_iff.1 hl
      constructor
      · intro h
        have : n = j := by injection h
        subst this
        exact ⟨Nat.lt_succ_self _, ⟨m, hm, hx⟩, fun k m' h1 h2 => by omega⟩
      · rintro ⟨h1, _, h3⟩
        by_cases hjn : j = n
        · rw [hjn]
        · exact absurd hx (h3 n m (by omega) (Nat.lt_succ_self n) hm)
    · rw [if_neg hl, ih]
      constructor
      · rintro ⟨h1, h2, h3⟩
        refine ⟨by omega, h2, fun k m hk1 hk2 hm => ?_⟩
        by_cases hkn : k = n
        · subst hkn; intro hx; exact hl (isLoc_iff.2 ⟨m, hm, hx⟩)
        · exact h3 k m hk1 (by omega) hm
      · rintro ⟨h1, h2, h3⟩
        have hjn : j ≠ n := by
          rintro rfl; exact hl (isLoc_iff.2 h2)
        exact ⟨by omega, h2, fun k m hk1 hk2 hm => h3 k m hk1 (by omega) hm⟩

theorem lastBefore_append {log l : Log} {x : Loc} {n : Nat} (h : n ≤ log.length) :
    lastBefore (log ++ l) x n = lastBefore log x n := by
  induction n with
  | zero => simp [lastBefore_zero]
  | succ n ih =>
    rw [lastBefore_succ, lastBefore_succ, isLoc_append (by omega), ih (by omega)]

theorem lastBefore_exists {log : Log} {x : Loc} {n k : Nat} {m : Msg}
    (hk : k < n) (hm : log[k]? = some m) (hx : m.loc = x) :
    ∃ j, lastBefore log x n = some j ∧ k ≤ j := by
  cases h : lastBefore log x n with
  | none => exact absurd hx (lastBefore_eq_none_iff.1 h k m hk hm)
  | some j =>
    refine ⟨j, rfl, ?_⟩
    obtain ⟨_, _, h3⟩ := lastBefore_eq_some_iff.1 h
    by_cases hjk : k ≤ j
    · exact hjk
    · exact absurd hx (h3 k m (by omega) hk hm)

theorem LastAt_le {log : Log} {x : Loc} {n j k : Nat} {m : Msg} (h : LastAt log x n j)
    (hk : k < n) (hm : log[k]? = some m) (hx : m.loc = x) : k ≤ j := by
  by_cases hjk : k ≤ j
  · exact hjk
  · exact absurd hx (h.2.2 k m (by omega) hk hm)

/-! ### counting even generation messages -/

def isEG (log : Log) (k : Nat) : Bool := (log[k]?.map isEvenGen).getD false

theorem isEG_iff {log : Log} {k : Nat} :
    isEG log k = true ↔ ∃ m, log[k]? = some m ∧ m.loc = .gen ∧ m.val % 2 = 0 := by
  unfold isEG isEvenGen
  cases h : log[k]? <;> simp

theorem isEG_append {log l : Log} {k : Nat} (h : k < log.length) : isEG (log ++ l) k = isEG log k := by
  unfold isEG; rw [List.getElem?_append_left h]

theorem eGB_def (log : Log) (i j : Nat) :
    evenGenBetween log i j = ((List.range (j + 1)).filter (fun k => decide (i < k) && isEG log k)).length := rfl

theorem eGB_succ (log : Log) (i j : Nat) :
    evenGenBetween log i (j + 1) =
      evenGenBetween log i j + (if i < j + 1 ∧ isEG log (j + 1) = true then 1 else 0) := by
  rw [eGB_def, eGB_def, List.range_succ, List.filter_append, List.length_append]
  congr 1
  by_cases h : i < j + 1 ∧ isEG log (j + 1) = true
  · simp [h.1, h.2]
  · rw [if_neg h]
    have : (decide (i < j + 1) && isEG log (j + 1)) = false := by
      by_cases h1 : i < j + 1
      · have : isEG log (j + 1) = false := by
          cases h2 : isEG log (j + 1) with
          | false => rfl
          | true => exact absurd ⟨h1, h2⟩ h
        simp [this]
      · simp [h1]
    simp [this]

theorem eGB_of_le (log : Log) {i j : Nat} (h : j ≤ i) : evenGenBetween log i j = 0 := by
  rw [eGB_def]
  simp only [List.length_eq_zero_iff, List.filter_eq_nil_iff, List.mem_range]
  intro k hk
  have : ¬ i < k := by omega
  simp [this]

theorem eGB_add (log : Log) {i j k : Nat} (hij : i ≤ j) (hjk : j ≤ k) :
    evenGenBetween log i k = evenGenBetween log i j + evenGenBetween log j k := by
  induction k with
  | zero =>
    have : j = 0 := by omega
    subst this
    rw [eGB_of_le log (Nat.le_refl 0)]; rfl
  | succ k ih =>
    by_cases hjk' : j = k + 1
    · subst hjk'; rw [eGB_of_le log (Nat.le_refl _)]; rfl
    · have hjk'' : j ≤ k := by omega
      rw [eGB_succ, eGB_succ log j, ih hjk'']
      have h1 : i < k + 1 := by omega
      have h2 : j < k + 1 := by omega
      simp only [h1, h2, true_and]
      omega

theorem eGB_append {log l : Log} {i j : Nat} (h : j < log.length) :
    evenGenBetween (log ++ l) i j = evenGenBetween log i j := by
  induction j with
  | zero => rw [eGB_of_le _ (Nat.zero_le _), eGB_of_le _ (Nat.zero_le _)]
  | succ j ih => rw [eGB_succ, eGB_succ, ih (by omega), isEG_append h]

/-- no even generation message in `(j, k]` -/
theorem eGB_skip (log : Log) {i j k : Nat} (hjk : j ≤ k)
    (h : ∀ t, j < t → t ≤ k → isEG log t = false) :
    evenGenBetween log i k = evenGenBetween log i j := by
  induction k with
  | zero =>
    have : j = 0 := by omega
    subst this; rfl
  | succ k ih =>
    by_cases hjk' : j = k + 1
    · subst hjk'; rfl
    · rw [eGB_succ, ih (by omega) (fun t h1 h2 => h t h1 (by omega)), h (k + 1) (by omega) (Nat.le_refl _)]
      simp

def cntTo (log : Log) (n : Nat) : Nat := ((List.range n).filter (fun k => isEG log k)).length

theorem isEG_cons_succ (a : Msg) (log : Log) (k : Nat) : isEG (a :: log) (k + 1) = isEG log k := by
  unfold isEG; simp

theorem cntTo_cons (a : Msg) (log : Log) (n : Nat) :
    cntTo (a :: log) (n + 1) = (if isEvenGen a then 1 else 0) + cntTo log n := by
  unfold cntTo
  rw [List.range_succ_eq_map, List.filter_cons]
  have h0 : isEG (a :: log) 0 = isEvenGen a := by unfold isEG; simp
  have hm : (List.map Nat.succ (List.range n)).filter (fun k => isEG (a :: log) k) =
      List.map Nat.succ ((List.range n).filter (fun k => isEG log k)) := by
    rw [List.filter_map]
    congr 1
  rw [h0, hm]
  by_cases h : isEvenGen a = true
  · simp [h]; omega
  · simp [h]

theorem cntTo_length (log : Log) : cntTo log log.length = completedUpdates log := by
  induction log with
  | nil => rfl
  | cons a log ih =>
    rw [List.length_cons, cntTo_cons, ih]
    unfold completedUpdates
    rw [List.filter_cons]
    by_cases h : isEvenGen a = true
    · simp [h]; omega
    · simp [h]

theorem cntTo_succ (log : Log) (n : Nat) :
    cntTo log (n + 1) = cntTo log n + (if isEG log n = true then 1 else 0) := by
  unfold cntTo
  rw [List.range_succ, List.filter_append, List.length_append]
  congr 1
  by_cases h : isEG log n = true
  · simp [h]
  · simp [h]

theorem cntTo_mono (log : Log) {m n : Nat} (h : m ≤ n) : cntTo log m ≤ cntTo log n := by
  induction n with
  | zero => have : m = 0 := by omega
            subst this; exact Nat.le_refl _
  | succ n ih =>
    by_cases hm : m = n + 1
    · subst hm; exact Nat.le_refl _
    · rw [cntTo_succ]; have := ih (by omega); omega

theorem cntTo_ge_length (log : Log) {n : Nat} (h : log.length ≤ n) : cntTo log n = cntTo log log.length := by
  induction n with
  | zero => have : log.length = 0 := by omega
            rw [this]
  | succ n ih =>
    by_cases hn : log.length = n + 1
    · rw [hn]
    · rw [cntTo_succ, ih (by omega)]
      have : isEG log n = false := by
        unfold isEG; rw [List.getElem?_eq_none (by omega)]; rfl
      simp [this]

theorem eGB_le_cntTo (log : Log) (i j : Nat) : evenGenBetween log i j ≤ cntTo log (j + 1) := by
  induction j with
  | zero =>
    rw [eGB_of_le log (Nat.zero_le _)]; exact Nat.zero_le _
  | succ j ih =>
    rw [eGB_succ, cntTo_succ]
    by_cases h : isEG log (j + 1) = true
    · simp only [h, and_true, if_true]
      split <;> omega
    · simp only [h]
      simp
      exact ih

theorem eGB_le_completed (log : Log) (i j : Nat) : evenGenBetween log i j ≤ completedUpdates log := by
  rw [← cntTo_length]
  by_cases h : j + 1 ≤ log.length
  · exact Nat.le_trans (eGB_le_cntTo log i j) (cntTo_mono log h)
  · rw [← cntTo_ge_length log (n := j + 1) (by omega)]
    exact eGB_le_cntTo log i j

theorem completedUpdates_append (log l : Log) : completedUpdates log ≤ completedUpdates (log ++ l) := by
  unfold completedUpdates
  rw [List.filter_append, List.length_append]
  omega

/-! ### views, `admissible`, `load` -/

theorem cohOf_setCoh_same (v : View) (x : Loc) (j : Nat) : (v.setCoh x j).cohOf x = j := by
  simp [View.cohOf, View.setCoh]

theorem cohOf_setCoh_ne (v : View) {x y : Loc} (j : Nat) (h : y ≠ x) : (v.setCoh x j).cohOf y = v.cohOf y := by
  have hxy : (x == y) = false := by
    cases hb : (x == y) with
    | false => rfl
    | true => exact absurd ((loc_beq_iff _ _).1 hb).symm h
  have hf : (fun (a : Loc × Nat) => decide ((a.1 != x) = true ∧ (a.1 == y) = true)) = (fun a => a.1 == y) := by
    funext a
    cases hb : (a.1 == y) with
    | false => simp
    | true =>
      have : a.1 = y := (loc_beq_iff _ _).1 hb
      have hne : (a.1 != x) = true := by simp [this, h]
      simp [hne]
  simp only [View.cohOf, View.setCoh, List.find?_cons, hxy, List.find?_filter]
  rw [hf]

/-- the view after a load that read message `j` carrying `c` -/
def loadView (v : View) (x : Loc) (ord : Ord) (j c : Nat) : View :=
  if ord.isAcq then { cur := max v.cur c, acq := max v.acq c, coh := (v.setCoh x j).coh }
  else { cur := v.cur, acq := max v.acq c, coh := (v.setCoh x j).coh }

theorem loadView_cohOf_same (v : View) (x : Loc) (ord : Ord) (j c : Nat) :
    (loadView v x ord j c).cohOf x = j := by
  have := cohOf_setCoh_same v x j
  unfold loadView; split <;> exact this

theorem loadView_cohOf_ne (v : View) {x y : Loc} (ord : Ord) (j c : Nat) (h : y ≠ x) :
    (loadView v x ord j c).cohOf y = v.cohOf y := by
  have := cohOf_setCoh_ne v j h
  unfold loadView; split <;> exact this

theorem loadView_acq (v : View) (x : Loc) (ord : Ord) (j c : Nat) :
    (loadView v x ord j c).acq = max v.acq c := by
  unfold loadView; split <;> rfl

theorem loadView_cur_acq (v : View) (x : Loc) (ord : Ord) (j c : Nat) (h : ord.isAcq = true) :
    (loadView v x ord j c).cur = max v.cur c := by
  unfold loadView; rw [if_pos h]

theorem loadView_cur_ge (v : View) (x : Loc) (ord : Ord) (j c : Nat) :
    v.cur ≤ (loadView v x ord j c).cur := by
  unfold loadView; split
  · exact Nat.le_max_left _ _
  · exact Nat.le_refl _

theorem loadView_cur_le (v : View) (x : Loc) (ord : Ord) (j c n : Nat) (h1 : v.cur ≤ n) (h2 : c ≤ n) :
    (loadView v x ord j c).cur ≤ n := by
  unfold loadView; split
  · exact Nat.max_le.2 ⟨h1, h2⟩
  · exact h1

theorem mem_admissible {log : Log} {v : View} {x : Loc} {j : Nat} :
    j ∈ admissible log v x ↔
      j < log.length ∧ v.cohOf x ≤ j ∧ (lastBefore log x v.cur).getD 0 ≤ j ∧ isLoc log x j = true := by
  unfold admissible
  simp only [List.mem_filter, List.mem_range, Bool.and_eq_true, decide_eq_true_eq, Nat.max_le]
  unfold isLoc
  constructor
  · rintro ⟨h1, ⟨h2, h3⟩, h4⟩; exact ⟨h1, h2, h3, h4⟩
  · rintro ⟨h1, h2, h3, h4⟩; exact ⟨h1, ⟨h2, h3⟩, h4⟩

theorem load_spec (log : Log) (v : View) (x : Loc) (ord : Ord) (pick : Nat)
    (hne : admissible log v x ≠ []) :
    ∃ j m, j ∈ admissible log v x ∧ log[j]? = some m ∧
      load log v x ord pick = (m.val, j, loadView v x ord j m.carried) := by
  have hlen : 0 < (admissible log v x).length := List.length_pos_iff.2 hne
  have hidx : min pick ((admissible log v x).length - 1) < (admissible log v x).reverse.length := by
    rw [List.length_reverse]; omega
  obtain ⟨j, hj⟩ : ∃ j, (admissible log v x).reverse[min pick ((admissible log v x).length - 1)]? = some j :=
    ⟨_, List.getElem?_eq_getElem hidx⟩
  have hmem : j ∈ admissible log v x := by
    have := List.mem_of_getElem? hj
    exact List.mem_reverse.1 this
  have hlt : j < log.length := (mem_admissible.1 hmem).1
  refine ⟨j, log[j], hmem, List.getElem?_eq_getElem hlt, ?_⟩
  unfold load
  simp only [hj, List.getElem?_eq_getElem hlt, Option.getD_some]
  unfold loadView
  split <;> rfl

/-! ### the initial block -/

theorem initBlock_length (ver gen : Nat) (cells0 : List Nat) :
    (initBlock ver gen cells0).length = cells0.length + 2 := by
  simp [initBlock]

theorem list7 {cells0 : List Nat} (hc : cells0.length = N) :
    ∃ a b c d e f g, cells0 = [a, b, c, d, e, f, g] := by
  match cells0, hc with
  | [a, b, c, d, e, f, g], _ => exact ⟨a, b, c, d, e, f, g, rfl⟩

theorem initBlock_eq (ver gen a b c d e f g : Nat) :
    initBlock ver gen [a, b, c, d, e, f, g] =
      [⟨.cell 0, a, 9⟩, ⟨.cell 1, b, 9⟩, ⟨.cell 2, c, 9⟩, ⟨.cell 3, d, 9⟩, ⟨.cell 4, e, 9⟩,
       ⟨.cell 5, f, 9⟩, ⟨.cell 6, g, 9⟩, ⟨.version, ver, 9⟩, ⟨.gen, gen, 9⟩] := by
  rfl

theorem initBlock_facts (ver gen : Nat) {cells0 : List Nat} (hc : cells0.length = N) :
    (∀ c, c < N → ∃ m, (initBlock ver gen cells0)[c]? = some m ∧ m.loc = .cell c) ∧
    (∀ (i : Nat) (m : Msg), (initBlock ver gen cells0)[i]? = some m → m.carried = N + 2) ∧
    (∀ (i : Nat) (m : Msg), (initBlock ver gen cells0)[i]? = some m → m.loc = .gen → i = N + 1 ∧ m.val = gen) ∧
    (∃ m, (initBlock ver gen cells0)[N + 1]? = some m ∧ m.loc = .gen ∧ m.val = gen) ∧
    (∀ (i : Nat) (m : Msg) (c : Nat), (initBlock ver gen cells0)[i]? = some m → m.loc = .cell c → i = c ∧ c < N) ∧
    pubCells (initBlock ver gen cells0) (N + 1) = cells0 := by
  obtain ⟨a, b, c, d, e, f, g, rfl⟩ := list7 hc
  rw [initBlock_eq]
  refine ⟨?_, ?_, ?_, ?_, ?_, ?_⟩
  · intro c hc
    have : c < 7 := hc
    rcases c with _|_|_|_|_|_|_|c <;> first | omega | simp
  · intro i m h
    rcases i with _|_|_|_|_|_|_|_|_|i <;> simp at h <;> subst h <;> rfl
  · intro i m h hl
    rcases i with _|_|_|_|_|_|_|_|_|i <;> simp at h <;> subst h <;> simp [N] at hl ⊢
  · simp [N]
  · intro i m c h hl
    rcases i with _|_|_|_|_|_|_|_|_|i <;> simp at h <;> subst h <;> simp [N] at hl ⊢ <;> omega
  · simp [pubCells, N, List.range_succ, lastBefore_succ, lastBefore_zero, isLoc]

/-! ### prefix stability of `pubCells` -/

theorem pubCells_append {log l : Log} {i : Nat} (h : i ≤ log.length) :
    pubCells (log ++ l) i = pubCells log i := by
  unfold pubCells
  apply List.map_congr_left
  intro c _
  rw [lastBefore_append h]
  cases hl : lastBefore log (.cell c) i with
  | none => rfl
  | some j =>
    have hj : j < log.length := by
      have := (lastBefore_eq_some_iff.1 hl).1; omega
    simp only [List.getElem?_append_left hj]

/-! ### newest messages -/

/-- `ℓ` is the newest generation message and holds `v` -/
def LastGen (log : Log) (ℓ v : Nat) : Prop :=
  (∃ m, log[ℓ]? = some m ∧ m.loc = .gen ∧ m.val = v) ∧
    ∀ k m, ℓ < k → log[k]? = some m → m.loc ≠ .gen

/-- the newest message at cell `c` holds `v` -/
def LastCell (log : Log) (c v : Nat) : Prop :=
  ∃ (j : Nat) (m : Msg), log[j]? = some m ∧ m.loc = .cell c ∧ m.val = v ∧
    ∀ (k : Nat) (mk : Msg), j < k → log[k]? = some mk → mk.loc ≠ .cell c

theorem LastGen.snoc_ne {log : Log} {ℓ v : Nat} (h : LastGen log ℓ v) {x : Msg} (hx : x.loc ≠ .gen) :
    LastGen (log ++ [x]) ℓ v := by
  obtain ⟨⟨m, hm, hl, hv⟩, h2⟩ := h
  refine ⟨⟨m, getElem?_append_some hm, hl, hv⟩, fun k mk hk hmk => ?_⟩
  rcases getElem?_snoc_cases hmk with ⟨_, h'⟩ | ⟨_, rfl⟩
  · exact h2 k mk hk h'
  · exact hx

theorem LastGen.snoc_gen (log : Log) {x : Msg} (hx : x.loc = .gen) :
    LastGen (log ++ [x]) log.length x.val := by
  refine ⟨⟨x, getElem?_snoc_length log x, hx, rfl⟩, fun k mk hk hmk => ?_⟩
  have := lt_length_of_getElem? hmk
  rw [List.length_append, List.length_singleton] at this
  omega

theorem LastCell.snoc_ne {log : Log} {c v : Nat} (h : LastCell log c v) {x : Msg} (hx : x.loc ≠ .cell c) :
    LastCell (log ++ [x]) c v := by
  obtain ⟨j, m, hm, hl, hv, h2⟩ := h
  refine ⟨j, m, getElem?_append_some hm, hl, hv, fun k mk hk hmk => ?_⟩
  rcases getElem?_snoc_cases hmk with ⟨_, h'⟩ | ⟨_, rfl⟩
  · exact h2 k mk hk h'
  · exact hx

theorem LastCell.snoc_cell (log : Log) {x : Msg} {c : Nat} (hx : x.loc = .cell c) :
    LastCell (log ++ [x]) c x.val := by
  refine ⟨log.length, x, getElem?_snoc_length log x, hx, rfl, fun k mk hk hmk => ?_⟩
  have := lt_length_of_getElem? hmk
  rw [List.length_append, List.length_singleton] at this
  omega

theorem LastGen.lastBefore {log : Log} {ℓ v : Nat} (h : LastGen log ℓ v) :
    lastBefore log .gen log.length = some ℓ := by
  obtain ⟨⟨m, hm, hl, _⟩, h2⟩ := h
  exact lastBefore_eq_some_iff.2 ⟨lt_length_of_getElem? hm, ⟨m, hm, hl⟩, fun k mk hk _ hmk => h2 k mk hk hmk⟩

theorem LastGen.latest {log : Log} {ℓ v : Nat} (h : LastGen log ℓ v) : latest log .gen = v := by
  unfold SL.latest
  rw [h.lastBefore]
  obtain ⟨⟨m, hm, _, hv⟩, _⟩ := h
  simp [hm, hv]

theorem LastCell.lastBefore {log : Log} {c v : Nat} (h : LastCell log c v) :
    ∃ j m, lastBefore log (.cell c) log.length = some j ∧ log[j]? = some m ∧ m.val = v := by
  obtain ⟨j, m, hm, hl, hv, h2⟩ := h
  exact ⟨j, m, lastBefore_eq_some_iff.2 ⟨lt_length_of_getElem? hm, ⟨m, hm, hl⟩,
    fun k mk hk _ hmk => h2 k mk hk hmk⟩, hm, hv⟩

/-! ### the log invariant -/

/-- potential of a generation value: constant along even→odd and odd→same-odd edges, +1 (mod 32767)
    along odd→even edges -/
def phi (v : Nat) : Nat := (v / 2 + 32766) % 32767

theorem phi_lt (v : Nat) : phi v < 32767 := Nat.mod_lt _ (by decide)

structure LogInv (a : Ann) (ver gen : Nat) (cells0 : List Nat) (log : Log) (written : List (List Nat)) : Prop where
  pre : ∀ (i : Nat) (m : Msg), (initBlock ver gen cells0)[i]? = some m → log[i]? = some m
  carLe : ∀ (i : Nat) (m : Msg), log[i]? = some m → m.carried ≤ log.length
  genLt : ∀ (i : Nat) (m : Msg), log[i]? = some m → m.loc = .gen → m.val < 65536
  genNz : ∀ (i : Nat) (m : Msg), log[i]? = some m → m.loc = .gen → N + 1 < i → m.val ≠ 0
  genCar : a.adequate = true → ∀ (i : Nat) (m : Msg), log[i]? = some m → m.loc = .gen →
      m.val % 2 = 0 → i + 1 ≤ m.carried
  pot : ∀ (i : Nat) (m : Msg), log[i]? = some m → m.loc = .gen →
      phi m.val = (phi gen + evenGenBetween log (N + 1) i) % 32767
  cellOdd : ∀ (j : Nat) (m : Msg) (c : Nat), N + 2 ≤ j → log[j]? = some m → m.loc = .cell c →
      ∃ (o : Nat) (mo : Msg), o < j ∧ log[o]? = some mo ∧ mo.loc = .gen ∧ mo.val % 2 = 1 ∧
        (a.adequate = true → o < m.carried) ∧
        ∀ (k : Nat) (mk : Msg), o < k → k < j → log[k]? = some mk → mk.loc ≠ .gen
  pub : ∀ (e : Nat) (m : Msg), log[e]? = some m → m.loc = .gen → m.val % 2 = 0 → m.val ≠ 0 →
      pubCells log e = cells0 ∨ pubCells log e ∈ written
  lastGen : ∃ ℓ v, LastGen log ℓ v

theorem LogInv.init (a : Ann) (ver gen : Nat) {cells0 : List Nat} (hc : cells0.length = N) (hg : gen < 65536) :
    LogInv a ver gen cells0 (initBlock ver gen cells0) [] := by
  obtain ⟨f1, f2, f3, f4, f5, f6⟩ := initBlock_facts ver gen hc
  have hlen : (initBlock ver gen cells0).length = N + 2 := by rw [initBlock_length, hc]
  refine ⟨fun _ _ h => h, ?_, ?_, ?_, ?_, ?_, ?_, ?_, ?_⟩
  · intro i m hm; rw [f2 i m hm, hlen]; exact Nat.le_refl _
  · intro i m hm hl; rw [(f3 i m hm hl).2]; exact hg
  · intro i m hm hl hi; have := (f3 i m hm hl).1; omega
  · intro _ i m hm hl _; rw [f2 i m hm, (f3 i m hm hl).1]; exact Nat.le_refl _
  · intro i m hm hl
    obtain ⟨rfl, hv⟩ := f3 i m hm hl
    rw [eGB_of_le _ (Nat.le_refl _), hv, Nat.add_zero, Nat.mod_eq_of_lt (phi_lt gen)]
  · intro j m c hj hm _
    have := lt_length_of_getElem? hm; omega
  · intro e m hm hl _ _
    left; rw [(f3 e m hm hl).1]; exact f6
  · obtain ⟨m, hm, hl, hv⟩ := f4
    refine ⟨N + 1, gen, ⟨m, hm, hl, hv⟩, fun k mk hk hmk => ?_⟩
    have := lt_length_of_getElem? hmk; omega

theorem LogInv.len {a : Ann} {ver gen : Nat} {cells0 : List Nat} {log : Log} {written : List (List Nat)}
    (h : LogInv a ver gen cells0 log written) (hc : cells0.length = N) : N + 2 ≤ log.length := by
  obtain ⟨_, _, _, ⟨m, hm, _, _⟩, _, _⟩ := initBlock_facts ver gen hc
  have := lt_length_of_getElem? (h.pre _ _ hm); omega

theorem LogInv.mono_written {a : Ann} {ver gen : Nat} {cells0 : List Nat} {log : Log}
    {written written' : List (List Nat)} (h : LogInv a ver gen cells0 log written)
    (hw : ∀ r, r ∈ written → r ∈ written') : LogInv a ver gen cells0 log written' :=
  { h with pub := fun e m hm hl he hz => (h.pub e m hm hl he hz).imp id (hw _) }

theorem LogInv.snoc {a : Ann} {ver gen : Nat} {cells0 : List Nat} {log : Log} {written : List (List Nat)}
    (h : LogInv a ver gen cells0 log written) (hc : cells0.length = N) (x : Msg)
    (hcar : x.carried ≤ log.length + 1)
    (hgen : x.loc = .gen → ∀ ℓ v, LastGen log ℓ v →
        x.val < 65536 ∧ x.val ≠ 0 ∧ (a.adequate = true → x.val % 2 = 0 → log.length + 1 ≤ x.carried) ∧
        phi x.val = (phi v + if x.val % 2 = 0 then 1 else 0) % 32767 ∧
        (x.val % 2 = 0 → pubCells log log.length ∈ written))
    (hcell : ∀ c, x.loc = .cell c →
        ∃ ℓ v, LastGen log ℓ v ∧ v % 2 = 1 ∧ (a.adequate = true → ℓ < x.carried)) :
    LogInv a ver gen cells0 (log ++ [x]) written := by
  have hlen := h.len hc
  obtain ⟨ℓ, v, hLG⟩ := h.lastGen
  have hℓ : ℓ < log.length := by
    obtain ⟨⟨m, hm, _, _⟩, _⟩ := hLG; exact lt_length_of_getElem? hm
  refine ⟨?_, ?_, ?_, ?_, ?_, ?_, ?_, ?_, ?_⟩
  · intro i m hm; exact getElem?_append_some (h.pre i m hm)
  · intro i m hm
    rw [List.length_append, List.length_singleton]
    rcases getElem?_snoc_cases hm with ⟨_, h'⟩ | ⟨_, rfl⟩
    · have := h.carLe i m h'; omega
    · exact hcar
  · intro i m hm hl
    rcases getElem?_snoc_cases hm with ⟨_, h'⟩ | ⟨_, rfl⟩
    · exact h.genLt i m h' hl
    · exact (hgen hl ℓ v hLG).1
  · intro i m hm hl hi
    rcases getElem?_snoc_cases hm with ⟨_, h'⟩ | ⟨_, rfl⟩
    · exact h.genNz i m h' hl hi
    · exact (hgen hl ℓ v hLG).2.1
  · intro ha i m hm hl he
    rcases getElem?_snoc_cases hm with ⟨_, h'⟩ | ⟨hi, rfl⟩
    · exact h.genCar ha i m h' hl he
    · rw [hi]; exact (hgen hl ℓ v hLG).2.2.1 ha he
  · intro i m hm hl
    rcases getElem?_snoc_cases hm with ⟨hi, h'⟩ | ⟨hi, rfl⟩
    · rw [eGB_append hi]; exact h.pot i m h' hl
    · obtain ⟨mℓ, hmℓ, hlℓ, hvℓ⟩ := hLG.1
      have hpℓ := h.pot ℓ mℓ hmℓ hlℓ
      rw [hvℓ] at hpℓ
      have hpx := (hgen hl ℓ v hLG).2.2.2.1
      obtain ⟨n', hn'⟩ : ∃ n', log.length = n' + 1 := ⟨log.length - 1, by omega⟩
      have hskip : evenGenBetween log (N + 1) n' = evenGenBetween log (N + 1) ℓ := by
        apply eGB_skip log (by omega)
        intro t ht1 ht2
        cases hb : isEG log t with
        | false => rfl
        | true =>
          obtain ⟨mt, hmt, hlt, _⟩ := isEG_iff.1 hb
          exact absurd hlt (hLG.2 t mt ht1 hmt)
      have hEG : (isEG (log ++ [m]) (n' + 1) = true) ↔ m.val % 2 = 0 := by
        rw [isEG_iff, ← hn']
        constructor
        · rintro ⟨m', hm', _, he⟩
          rw [getElem?_snoc_length] at hm'
          cases hm'; exact he
        · intro he; exact ⟨m, getElem?_snoc_length log m, hl, he⟩
      rw [hi, hn', eGB_succ, eGB_append (by omega), hskip]
      by_cases he : m.val % 2 = 0
      · rw [if_pos he] at hpx
        rw [if_pos ⟨by omega, hEG.2 he⟩]
        omega
      · rw [if_neg he] at hpx
        rw [if_neg (fun hh => he (hEG.1 hh.2))]
        omega
  · intro j m c hj hm hl
    rcases getElem?_snoc_cases hm with ⟨hjl, h'⟩ | ⟨hjl, rfl⟩
    · obtain ⟨o, mo, h1, h2, h3, h4, h5, h6⟩ := h.cellOdd j m c hj h' hl
      refine ⟨o, mo, h1, getElem?_append_some h2, h3, h4, h5, fun k mk hk1 hk2 hmk => ?_⟩
      rcases getElem?_snoc_cases hmk with ⟨_, hk'⟩ | ⟨hk', _⟩
      · exact h6 k mk hk1 hk2 hk'
      · omega
    · obtain ⟨ℓ', v', hLG', hodd, hcar'⟩ := hcell c hl
      obtain ⟨⟨mo, hmo, hlo, hvo⟩, hlast⟩ := hLG'
      refine ⟨ℓ', mo, by have := lt_length_of_getElem? hmo; omega, getElem?_append_some hmo, hlo,
        by rw [hvo]; exact hodd, hcar', fun k mk hk1 hk2 hmk => ?_⟩
      rcases getElem?_snoc_cases hmk with ⟨_, hk'⟩ | ⟨hk', _⟩
      · exact hlast k mk hk1 hk'
      · omega
  · intro e m hm hl he hz
    rcases getElem?_snoc_cases hm with ⟨hi, h'⟩ | ⟨hi, rfl⟩
    · rw [pubCells_append (by omega)]; exact h.pub e m h' hl he hz
    · right; rw [hi, pubCells_append (Nat.le_refl _)]
      exact (hgen hl ℓ v hLG).2.2.2.2 he
  · by_cases hx : x.loc = .gen
    · exact ⟨log.length, x.val, LastGen.snoc_gen log hx⟩
    · exact ⟨ℓ, v, hLG.snoc_ne hx⟩

/-! ### the writer invariant -/

theorem Ann.adequate_iff (a : Ann) : a.adequate = true ↔
    a.wStore2.isRel = true ∧ (∃ o, a.wFence = some o ∧ o.isRel = true) ∧ a.rGen1.isAcq = true ∧
      a.rGen2.isAcq = true ∧ (∃ o, a.rFence = some o ∧ o.isAcq = true) := by
  unfold Ann.adequate
  cases a.wFence <;> cases a.rFence <;> simp [and_assoc]

theorem LastGen.unique {log : Log} {ℓ v ℓ' v' : Nat} (h : LastGen log ℓ v) (h' : LastGen log ℓ' v') :
    ℓ = ℓ' ∧ v = v' := by
  obtain ⟨⟨m, hm, hl, hv⟩, h2⟩ := h
  obtain ⟨⟨m', hm', hl', hv'⟩, h2'⟩ := h'
  have : ℓ = ℓ' := by
    by_cases h1 : ℓ < ℓ'
    · exact absurd hl' (h2 ℓ' m' h1 hm')
    · by_cases h3 : ℓ' < ℓ
      · exact absurd hl (h2' ℓ m h3 hm)
      · omega
  subst this
  rw [hm] at hm'; cases hm'
  exact ⟨rfl, hv.symm.trans hv'⟩

def WPcInv (a : Ann) (log : Log) (w : Writer) (written : List (List Nat)) : Prop :=
  match w.pc with
  | .idle => True
  | .newVersion => True
  | .loadGen rec => rec ∈ written ∧ rec.length = N
  | .store1 rec g => rec ∈ written ∧ rec.length = N ∧ ∃ ℓ v, LastGen log ℓ v ∧ g = genStart v
  | .fence rec g => rec ∈ written ∧ rec.length = N ∧ g % 2 = 1 ∧ ∃ ℓ, LastGen log ℓ g
  | .copy rec g todo => rec ∈ written ∧ rec.length = N ∧ g % 2 = 1 ∧ ∃ ℓ, LastGen log ℓ g ∧
      (a.adequate = true → ℓ < w.relFence) ∧ ∀ c, c < N → c ∉ todo → LastCell log c (rec[c]?.getD 0)
  | .store2 rec g => rec ∈ written ∧ rec.length = N ∧ g % 2 = 1 ∧ ∃ ℓ, LastGen log ℓ g ∧
      ∀ c, c < N → LastCell log c (rec[c]?.getD 0)

/-- what one writer access must preserve -/
def WStepGoal (a : Ann) (ver gen : Nat) (cells0 : List Nat) (written : List (List Nat))
    (out : Log × Writer × String) : Prop :=
  LogInv a ver gen cells0 out.1 written ∧ WPcInv a out.1 out.2.1 written ∧ out.2.1.relFence ≤ out.1.length

section wstep
variable {a : Ann} {ver gen : Nat} {cells0 : List Nat} {log : Log} {written : List (List Nat)}

theorem wStep_newVersion (hL : LogInv a ver gen cells0 log written) (hc : cells0.length = N)
    (rel : Nat) (hrel : rel ≤ log.length) (pick : Nat) :
    WStepGoal a ver gen cells0 written (wStep a log ⟨.newVersion, rel⟩ pick) := by
  simp only [wStep, storeMsg, WStepGoal]
  refine ⟨?_, trivial, ?_⟩
  · apply hL.snoc hc
    · show (if a.wVersion.isRel = true then log.length + 1 else rel) ≤ log.length + 1
      split <;> omega
    · intro h; cases h
    · intro c h; cases h
  · rw [List.length_append]; show rel ≤ _; omega

theorem wStep_loadGen (hL : LogInv a ver gen cells0 log written)
    (rel : Nat) (hrel : rel ≤ log.length) (rec : List Nat)
    (hP : WPcInv a log ⟨.loadGen rec, rel⟩ written) (pick : Nat) :
    WStepGoal a ver gen cells0 written (wStep a log ⟨.loadGen rec, rel⟩ pick) := by
  simp only [wStep, WStepGoal]
  obtain ⟨h1, h2⟩ := hP
  obtain ⟨ℓ, v, hLG⟩ := hL.lastGen
  exact ⟨hL, ⟨h1, h2, ℓ, v, hLG, by rw [hLG.latest]⟩, hrel⟩

theorem genStart_facts {v : Nat} (hv : v < 65536) :
    genStart v < 65536 ∧ genStart v ≠ 0 ∧ genStart v % 2 = 1 ∧ phi (genStart v) = phi v := by
  unfold genStart phi
  split <;> omega

theorem genFinish_facts {g : Nat} (hg : g < 65536) (ho : g % 2 = 1) :
    genFinish g < 65536 ∧ genFinish g ≠ 0 ∧ genFinish g % 2 = 0 ∧ phi (genFinish g) = (phi g + 1) % 32767 := by
  unfold genFinish phi
  simp only
  split <;> omega

theorem LastGen.lt {log : Log} {ℓ v : Nat} (h : LastGen log ℓ v) : ℓ < log.length := by
  obtain ⟨⟨m, hm, _, _⟩, _⟩ := h; exact lt_length_of_getElem? hm

theorem LogInv.lastGen_lt {log : Log} {ℓ v : Nat} (hL : LogInv a ver gen cells0 log written)
    (h : LastGen log ℓ v) : v < 65536 := by
  obtain ⟨⟨m, hm, hl, hv⟩, _⟩ := h
  rw [← hv]; exact hL.genLt ℓ m hm hl

theorem wStep_store1 (hL : LogInv a ver gen cells0 log written) (hc : cells0.length = N)
    (rel : Nat) (hrel : rel ≤ log.length) (rec : List Nat) (g : Nat)
    (hP : WPcInv a log ⟨.store1 rec g, rel⟩ written) (pick : Nat) :
    WStepGoal a ver gen cells0 written (wStep a log ⟨.store1 rec g, rel⟩ pick) := by
  simp only [wStep, storeMsg, WStepGoal]
  obtain ⟨h1, h2, ℓ, v, hLG, rfl⟩ := hP
  have hv := hL.lastGen_lt hLG
  obtain ⟨f1, f2, f3, f4⟩ := genStart_facts hv
  refine ⟨?_, ?_, ?_⟩
  · apply hL.snoc hc
    · show (if a.wStore1.isRel = true then log.length + 1 else rel) ≤ log.length + 1
      split <;> omega
    · intro _ ℓ' v' hLG'
      obtain ⟨_, rfl⟩ := hLG.unique hLG'
      refine ⟨f1, f2, ?_, ?_, ?_⟩
      · intro _ he; exact absurd he (by show ¬ (genStart v % 2 = 0); omega)
      · show phi (genStart v) = (phi v + if genStart v % 2 = 0 then 1 else 0) % 32767
        rw [if_neg (by omega), f4, Nat.add_zero, Nat.mod_eq_of_lt (phi_lt v)]
      · intro he; exact absurd he (by show ¬ (genStart v % 2 = 0); omega)
    · intro c h; cases h
  · cases hf : a.wFence with
    | some o =>
      exact ⟨h1, h2, f3, log.length, LastGen.snoc_gen log rfl⟩
    | none =>
      refine ⟨h1, h2, f3, log.length, LastGen.snoc_gen log rfl, ?_, ?_⟩
      · intro ha
        obtain ⟨_, ⟨o, ho, _⟩, _⟩ := (Ann.adequate_iff a).1 ha
        rw [hf] at ho; cases ho
      · intro c hc' hn
        exact absurd (List.mem_range.2 (by omega)) hn
  · rw [List.length_append]; show rel ≤ _; omega

theorem wStep_fence (hL : LogInv a ver gen cells0 log written)
    (rel : Nat) (hrel : rel ≤ log.length) (rec : List Nat) (g : Nat)
    (hP : WPcInv a log ⟨.fence rec g, rel⟩ written) (pick : Nat) :
    WStepGoal a ver gen cells0 written (wStep a log ⟨.fence rec g, rel⟩ pick) := by
  simp only [wStep, WStepGoal]
  obtain ⟨h1, h2, h3, ℓ, hLG⟩ := hP
  refine ⟨hL, ⟨h1, h2, h3, ℓ, hLG, ?_, ?_⟩, ?_⟩
  · intro ha
    obtain ⟨_, ⟨o, ho, hr⟩, _⟩ := (Ann.adequate_iff a).1 ha
    show ℓ < (if (a.wFence.getD .relaxed).isRel = true then log.length else rel)
    rw [ho]; simp only [Option.getD_some, hr, if_true]
    exact hLG.lt
  · intro c hc' hn
    exact absurd (List.mem_range.2 (by omega)) hn
  · show (if (a.wFence.getD .relaxed).isRel = true then log.length else rel) ≤ log.length
    split <;> omega

end wstep

theorem rec_eq_map {rec : List Nat} (hlen : rec.length = N) :
    rec = (List.range N).map (fun c => rec[c]?.getD 0) := by
  obtain ⟨a, b, c, d, e, f, g, rfl⟩ := list7 hlen
  rfl

theorem pubCells_eq_of_LastCell {log : Log} {rec : List Nat} (hlen : rec.length = N)
    (h : ∀ c, c < N → LastCell log c (rec[c]?.getD 0)) : pubCells log log.length = rec := by
  conv => rhs; rw [rec_eq_map hlen]
  unfold pubCells
  apply List.map_congr_left
  intro c hc
  obtain ⟨j, m, hlb, hm, hv⟩ := (h c (List.mem_range.1 hc)).lastBefore
  simp [hlb, hm, hv]

section wstep2
variable {a : Ann} {ver gen : Nat} {cells0 : List Nat} {log : Log} {written : List (List Nat)}

theorem getElem?_min_none {todo : List Nat} {pick : Nat}
    (h : todo[min pick (todo.length - 1)]? = none) : todo = [] := by
  have := List.getElem?_eq_none_iff.1 h
  apply List.eq_nil_of_length_eq_zero
  omega

theorem wStep_copy (hL : LogInv a ver gen cells0 log written) (hc : cells0.length = N)
    (rel : Nat) (hrel : rel ≤ log.length) (rec : List Nat) (g : Nat) (todo : List Nat)
    (hP : WPcInv a log ⟨.copy rec g todo, rel⟩ written) (pick : Nat) :
    WStepGoal a ver gen cells0 written (wStep a log ⟨.copy rec g todo, rel⟩ pick) := by
  obtain ⟨h1, h2, h3, ℓ, hLG, hfen, hcells⟩ := hP
  unfold wStep
  simp only
  split
  · next hpick =>
    have htodo := getElem?_min_none hpick
    exact ⟨hL, ⟨h1, h2, h3, ℓ, hLG, fun c hc' => hcells c hc' (by rw [htodo]; simp)⟩, hrel⟩
  · next c hpick =>
    have hx : storeMsg log rel (.cell c) (rec[c]?.getD 0) .relaxed =
        log ++ [⟨.cell c, rec[c]?.getD 0, rel⟩] := rfl
    rw [hx]
    have hL' : LogInv a ver gen cells0 (log ++ [⟨.cell c, rec[c]?.getD 0, rel⟩]) written := by
      apply hL.snoc hc
      · show rel ≤ log.length + 1; omega
      · intro h; cases h
      · intro c' _
        exact ⟨ℓ, g, hLG, h3, hfen⟩
    have hnew : ∀ c', c' < N → c' ∉ todo.filter (· != c) →
        LastCell (log ++ [⟨.cell c, rec[c]?.getD 0, rel⟩]) c' (rec[c']?.getD 0) := by
      intro c' hc' hn
      by_cases hcc : c' = c
      · subst hcc
        exact LastCell.snoc_cell log (x := ⟨.cell c', rec[c']?.getD 0, rel⟩) rfl
      · have : c' ∉ todo := by
          intro hmem
          apply hn
          rw [List.mem_filter]
          exact ⟨hmem, by simp [hcc]⟩
        apply (hcells c' hc' this).snoc_ne
        intro h; cases h; exact hcc rfl
    have hLG' : LastGen (log ++ [⟨.cell c, rec[c]?.getD 0, rel⟩]) ℓ g :=
      hLG.snoc_ne (by intro h; cases h)
    refine ⟨hL', ?_, ?_⟩
    · by_cases hr : (todo.filter (· != c)).isEmpty = true
      · simp only [hr, if_true]
        refine ⟨h1, h2, h3, ℓ, hLG', fun c' hc' => hnew c' hc' ?_⟩
        rw [List.isEmpty_iff.1 hr]; simp
      · simp only [hr]
        exact ⟨h1, h2, h3, ℓ, hLG', hfen, hnew⟩
    · rw [List.length_append]; show rel ≤ _; omega

theorem wStep_store2 (hL : LogInv a ver gen cells0 log written) (hc : cells0.length = N)
    (rel : Nat) (hrel : rel ≤ log.length) (rec : List Nat) (g : Nat)
    (hP : WPcInv a log ⟨.store2 rec g, rel⟩ written) (pick : Nat) :
    WStepGoal a ver gen cells0 written (wStep a log ⟨.store2 rec g, rel⟩ pick) := by
  simp only [wStep, storeMsg, WStepGoal]
  obtain ⟨h1, h2, h3, ℓ, hLG, hcells⟩ := hP
  have hg := hL.lastGen_lt hLG
  obtain ⟨f1, f2, f3, f4⟩ := genFinish_facts hg h3
  refine ⟨?_, trivial, ?_⟩
  · apply hL.snoc hc
    · show (if a.wStore2.isRel = true then log.length + 1 else rel) ≤ log.length + 1
      split <;> omega
    · intro _ ℓ' v' hLG'
      obtain ⟨_, rfl⟩ := hLG.unique hLG'
      refine ⟨f1, f2, ?_, ?_, ?_⟩
      · intro ha _
        obtain ⟨hr, _⟩ := (Ann.adequate_iff a).1 ha
        show log.length + 1 ≤ (if a.wStore2.isRel = true then log.length + 1 else rel)
        rw [if_pos hr]; exact Nat.le_refl _
      · show phi (genFinish g) = (phi g + if genFinish g % 2 = 0 then 1 else 0) % 32767
        rw [if_pos f3, f4]
      · intro _
        rw [pubCells_eq_of_LastCell h2 hcells]; exact h1
    · intro c h; cases h
  · rw [List.length_append]; show rel ≤ _; omega

theorem wStep_inv (hL : LogInv a ver gen cells0 log written) (hc : cells0.length = N)
    (w : Writer) (hrel : w.relFence ≤ log.length) (hP : WPcInv a log w written) (pick : Nat) :
    WStepGoal a ver gen cells0 written (wStep a log w pick) := by
  obtain ⟨pc, rel⟩ := w
  cases pc with
  | idle => exact ⟨hL, trivial, hrel⟩
  | newVersion => exact wStep_newVersion hL hc rel hrel pick
  | loadGen rec => exact wStep_loadGen hL rel hrel rec hP pick
  | store1 rec g => exact wStep_store1 hL hc rel hrel rec g hP pick
  | fence rec g => exact wStep_fence hL rel hrel rec g hP pick
  | copy rec g todo => exact wStep_copy hL hc rel hrel rec g todo hP pick
  | store2 rec g => exact wStep_store2 hL hc rel hrel rec g hP pick

end wstep2

/-! ### the reader invariant -/

structure ViewInv (log : Log) (v : View) : Prop where
  cur : v.cur ≤ log.length
  acq : v.acq ≤ log.length
  coh : ∀ x, v.cohOf x = 0 ∨ ∃ m, log[v.cohOf x]? = some m ∧ m.loc = x

theorem ViewInv.empty (log : Log) : ViewInv log {} :=
  ⟨Nat.zero_le _, Nat.zero_le _, fun _ => Or.inl rfl⟩

theorem ViewInv.append {log : Log} {v : View} (h : ViewInv log v) (l : Log) : ViewInv (log ++ l) v := by
  refine ⟨?_, ?_, fun x => ?_⟩
  · rw [List.length_append]; exact Nat.le_trans h.cur (Nat.le_add_right _ _)
  · rw [List.length_append]; exact Nat.le_trans h.acq (Nat.le_add_right _ _)
  · rcases h.coh x with h0 | ⟨m, hm, hl⟩
    · exact Or.inl h0
    · exact Or.inr ⟨m, getElem?_append_some hm, hl⟩

theorem ViewInv.viewOk {log : Log} {v : View} (h : ViewInv log v) : ViewOk log v := by
  refine ⟨h.cur, h.acq, fun x j hj => ?_⟩
  have hL := lastBefore_eq_some_iff.1 hj
  rcases h.coh x with h0 | ⟨m, hm, hl⟩
  · omega
  · exact LastAt_le hL (lt_length_of_getElem? hm) hm hl

theorem admissible_ne_nil {log : Log} {v : View} {x : Loc} (hV : ViewInv log v)
    {k : Nat} {m : Msg} (hm : log[k]? = some m) (hx : m.loc = x) : admissible log v x ≠ [] := by
  obtain ⟨jl, hjl, _⟩ := lastBefore_exists (lt_length_of_getElem? hm) hm hx
  have hL := lastBefore_eq_some_iff.1 hjl
  have hmem : jl ∈ admissible log v x := by
    rw [mem_admissible]
    refine ⟨hL.1, ?_, ?_, isLoc_iff.2 hL.2.1⟩
    · exact hV.viewOk.2.2 x jl hjl
    · cases hc : lastBefore log x v.cur with
      | none => exact Nat.zero_le _
      | some j' =>
        have hL' := lastBefore_eq_some_iff.1 hc
        obtain ⟨m', hm', hl'⟩ := hL'.2.1
        exact LastAt_le hL (lt_length_of_getElem? hm') hm' hl'
  intro h; rw [h] at hmem; cases hmem

theorem load_of_nil {log : Log} {v : View} {x : Loc} (ord : Ord) (pick : Nat)
    (h : admissible log v x = []) : load log v x ord pick = (0, 0, v) := by
  unfold load; simp [h]

theorem loadView_inv {log : Log} {v : View} {x : Loc} (hV : ViewInv log v) (ord : Ord) {j : Nat} {m : Msg}
    (hm : log[j]? = some m) (hx : m.loc = x) (hcar : m.carried ≤ log.length) :
    ViewInv log (loadView v x ord j m.carried) := by
  refine ⟨loadView_cur_le _ _ _ _ _ _ hV.cur hcar, ?_, fun y => ?_⟩
  · rw [loadView_acq]; exact Nat.max_le.2 ⟨hV.acq, hcar⟩
  · by_cases hy : y = x
    · subst hy; rw [loadView_cohOf_same]; exact Or.inr ⟨m, hm, hx⟩
    · rw [loadView_cohOf_ne _ _ _ _ hy]; exact hV.coh y

/-- facts about any load, whether or not a message was available -/
theorem load_view {log : Log} {v : View} (hV : ViewInv log v)
    (hcar : ∀ (i : Nat) (m : Msg), log[i]? = some m → m.carried ≤ log.length)
    (x : Loc) (ord : Ord) (pick : Nat) :
    ViewInv log (load log v x ord pick).2.2 ∧
      (∀ y, v.cohOf y ≤ (load log v x ord pick).2.2.cohOf y) := by
  by_cases hne : admissible log v x = []
  · rw [load_of_nil ord pick hne]; exact ⟨hV, fun _ => Nat.le_refl _⟩
  · obtain ⟨j, m, hj, hm, heq⟩ := load_spec log v x ord pick hne
    rw [heq]
    obtain ⟨_, h2, _, h4⟩ := mem_admissible.1 hj
    obtain ⟨m', hm', hl'⟩ := isLoc_iff.1 h4
    rw [hm] at hm'; cases hm'
    refine ⟨loadView_inv hV ord hm hl' (hcar j m hm), fun y => ?_⟩
    by_cases hy : y = x
    · subst hy; show _ ≤ (loadView v y ord j m.carried).cohOf y
      rw [loadView_cohOf_same]; exact h2
    · show _ ≤ (loadView v x ord j m.carried).cohOf y
      rw [loadView_cohOf_ne _ _ _ _ hy]; exact Nat.le_refl _

def AttemptInv (log : Log) (v : View) (g1Idx acceptedIdx g1 : Nat) : Prop :=
  (∃ m, log[g1Idx]? = some m ∧ m.loc = .gen ∧ m.val = g1) ∧ g1 % 2 = 0 ∧ g1 ≠ 0 ∧
  g1Idx + 1 ≤ v.cur ∧ acceptedIdx ≤ g1Idx ∧ g1Idx ≤ v.cohOf .gen

def CellRead (log : Log) (g1Idx bound : Nat) (got : List (Nat × Nat)) (c : Nat) : Prop :=
  ∃ (j : Nat) (m : Msg), log[j]? = some m ∧ m.loc = .cell c ∧
    ((got.find? (fun p => p.1 == c)).map (·.2)).getD 0 = m.val ∧ m.carried ≤ bound ∧
    ∀ (k : Nat) (mk : Msg), j < k → k < g1Idx + 1 → log[k]? = some mk → mk.loc ≠ .cell c

def RPcInv (log : Log) (v : View) (g1Idx acceptedIdx : Nat) : RPc → Prop
  | .idle | .version | .gen1 => True
  | .copy g1 _ todo got => AttemptInv log v g1Idx acceptedIdx g1 ∧ (∀ c ∈ todo, c < N) ∧
      ∀ c, c < N → c ∉ todo → CellRead log g1Idx v.acq got c
  | .fence g1 _ got => AttemptInv log v g1Idx acceptedIdx g1 ∧ ∀ c, c < N → CellRead log g1Idx v.acq got c
  | .gen2 g1 _ got => AttemptInv log v g1Idx acceptedIdx g1 ∧ ∀ c, c < N → CellRead log g1Idx v.cur got c

structure RInv (log : Log) (r : Reader) : Prop where
  view : ViewInv log r.view
  accCoh : r.acceptedIdx ≤ r.view.cohOf .gen
  pc : RPcInv log r.view r.g1Idx r.acceptedIdx r.pc

theorem adm_no_later {log : Log} {v : View} {x : Loc} {j : Nat} (hj : j ∈ admissible log v x) :
    ∀ (k : Nat) (mk : Msg), j < k → k < v.cur → log[k]? = some mk → mk.loc ≠ x := by
  intro k mk hjk hk hmk hx
  obtain ⟨j', hj', hkj'⟩ := lastBefore_exists hk hmk hx
  have := (mem_admissible.1 hj).2.2.1
  rw [hj'] at this
  simp only [Option.getD_some] at this
  omega

theorem load_spec' {log : Log} {v : View} {x : Loc} (hV : ViewInv log v) {k0 : Nat} {m0 : Msg}
    (hm0 : log[k0]? = some m0) (hx0 : m0.loc = x) (ord : Ord) (pick : Nat) :
    ∃ (j : Nat) (m : Msg), log[j]? = some m ∧ m.loc = x ∧ v.cohOf x ≤ j ∧
      (∀ (k : Nat) (mk : Msg), j < k → k < v.cur → log[k]? = some mk → mk.loc ≠ x) ∧
      load log v x ord pick = (m.val, j, loadView v x ord j m.carried) := by
  obtain ⟨j, m, hj, hm, heq⟩ := load_spec log v x ord pick (admissible_ne_nil hV hm0 hx0)
  obtain ⟨_, h2, _, h4⟩ := mem_admissible.1 hj
  obtain ⟨m', hm', hl'⟩ := isLoc_iff.1 h4
  rw [hm] at hm'; cases hm'
  exact ⟨j, m, hm, hl', h2, adm_no_later hj, heq⟩

theorem loadView_relaxed (v : View) (x : Loc) (j c : Nat) :
    loadView v x .relaxed j c = ⟨v.cur, max v.acq c, (v.setCoh x j).coh⟩ := rfl

theorem fenceAcq_of_acq (v : View) {o : Ord} (h : o.isAcq = true) :
    fenceAcq v o = ⟨max v.cur v.acq, v.acq, v.coh⟩ := by
  unfold fenceAcq; rw [if_pos h]

theorem CellRead.mono {log : Log} {gi b b' : Nat} {got : List (Nat × Nat)} {c : Nat}
    (h : CellRead log gi b got c) (hb : b ≤ b') : CellRead log gi b' got c := by
  obtain ⟨j, m, h1, h2, h3, h4, h5⟩ := h
  exact ⟨j, m, h1, h2, h3, Nat.le_trans h4 hb, h5⟩

section rstep
variable {a : Ann} {ver gen : Nat} {cells0 : List Nat} {log : Log} {written : List (List Nat)}

theorem LogInv.gen_idx_ge (hL : LogInv a ver gen cells0 log written) (hc : cells0.length = N)
    {i : Nat} {m : Msg} (hm : log[i]? = some m) (hl : m.loc = .gen) : N + 1 ≤ i := by
  by_cases hi : N + 1 ≤ i
  · exact hi
  · obtain ⟨_, _, f3, _, _, _⟩ := initBlock_facts ver gen hc
    have hlen : (initBlock ver gen cells0).length = N + 2 := by rw [initBlock_length, hc]
    have hi' : i < (initBlock ver gen cells0).length := by omega
    have h1 := hL.pre i _ (List.getElem?_eq_getElem hi')
    rw [hm] at h1; cases h1
    have := (f3 i _ (List.getElem?_eq_getElem hi') hl).1
    omega

theorem LogInv.cell_exists (hL : LogInv a ver gen cells0 log written) (hc : cells0.length = N)
    {c : Nat} (hcN : c < N) : ∃ m, log[c]? = some m ∧ m.loc = .cell c := by
  obtain ⟨f1, _⟩ := initBlock_facts ver gen hc
  obtain ⟨m, hm, hl⟩ := f1 c hcN
  exact ⟨m, hL.pre c m hm, hl⟩

theorem rStep_version (hL : LogInv a ver gen cells0 log written)
    (view : View) (cg : Nat) (cache : List Nat) (gi ai : Nat)
    (hR : RInv log ⟨.version, view, cg, cache, gi, ai⟩) (pc pm : Nat) :
    RInv log (rStep a log ⟨.version, view, cg, cache, gi, ai⟩ pc pm).1 := by
  simp only [rStep]
  obtain ⟨hV, hacc, _⟩ := hR
  have hlv := load_view hV hL.carLe .version a.rVersion pm
  split
  · exact ⟨hlv.1, Nat.le_trans hacc (hlv.2 .gen), trivial⟩
  · exact ⟨hlv.1, Nat.le_trans hacc (hlv.2 .gen), trivial⟩

theorem rStep_gen1 (hL : LogInv a ver gen cells0 log written) (ha : a.adequate = true)
    (view : View) (cg : Nat) (cache : List Nat) (gi ai : Nat)
    (hR : RInv log ⟨.gen1, view, cg, cache, gi, ai⟩) (pc pm : Nat) :
    RInv log (rStep a log ⟨.gen1, view, cg, cache, gi, ai⟩ pc pm).1 := by
  simp only [rStep]
  obtain ⟨hV, hacc, _⟩ := hR
  dsimp only at hV hacc
  have hlv := load_view hV hL.carLe .gen a.rGen1 pm
  split
  · exact ⟨hlv.1, Nat.le_trans hacc (hlv.2 .gen), trivial⟩
  · next hcond =>
    obtain ⟨ℓ, v, ⟨mℓ, hmℓ, hlℓ, _⟩, _⟩ := hL.lastGen
    obtain ⟨j, m, hm, hl, hcoh, _, heq⟩ := load_spec' hV hmℓ hlℓ a.rGen1 pm
    simp only [heq] at hcond hlv ⊢
    obtain ⟨_, _, hacq, _⟩ := (Ann.adequate_iff a).1 ha
    have hacc' : ai ≤ view.cohOf .gen := hacc
    have hcar : j + 1 ≤ m.carried := hL.genCar ha j m hm hl (by omega)
    refine ⟨hlv.1, ?_, ?_⟩
    · show ai ≤ (loadView view .gen a.rGen1 j m.carried).cohOf .gen
      rw [loadView_cohOf_same]; omega
    · refine ⟨⟨⟨m, hm, hl, rfl⟩, by omega, by omega, ?_, by show ai ≤ j; omega, ?_⟩, ?_, ?_⟩
      · show j + 1 ≤ (loadView view .gen a.rGen1 j m.carried).cur
        rw [loadView_cur_acq _ _ _ _ _ hacq]; omega
      · show j ≤ (loadView view .gen a.rGen1 j m.carried).cohOf .gen
        rw [loadView_cohOf_same]; exact Nat.le_refl _
      · intro c hc'; exact List.mem_range.1 hc'
      · intro c hc' hn; exact absurd (List.mem_range.2 hc') hn

theorem afterCopy_adequate (ha : a.adequate = true) (g1 retries : Nat) (got : List (Nat × Nat)) :
    afterCopy a g1 retries got = .fence g1 retries got := by
  obtain ⟨_, _, _, _, o, ho, _⟩ := (Ann.adequate_iff a).1 ha
  unfold afterCopy; rw [ho]

theorem rStep_copy (hL : LogInv a ver gen cells0 log written) (hc : cells0.length = N) (ha : a.adequate = true)
    (view : View) (cg : Nat) (cache : List Nat) (gi ai : Nat) (g1 retries : Nat) (todo : List Nat)
    (got : List (Nat × Nat))
    (hR : RInv log ⟨.copy g1 retries todo got, view, cg, cache, gi, ai⟩) (pc pm : Nat) :
    RInv log (rStep a log ⟨.copy g1 retries todo got, view, cg, cache, gi, ai⟩ pc pm).1 := by
  simp only [rStep]
  obtain ⟨hV, hacc, hA, htodo, hcells⟩ := hR
  dsimp only at hV hacc hA htodo hcells
  split
  · next hpick =>
    have hnil := getElem?_min_none hpick
    simp only [afterCopy_adequate ha]
    exact ⟨hV, hacc, hA, fun c hc' => hcells c hc' (by rw [hnil]; simp)⟩
  · next c hpick =>
    have hcmem : c ∈ todo := List.mem_of_getElem? hpick
    have hcN : c < N := htodo c hcmem
    obtain ⟨m0, hm0, hl0⟩ := hL.cell_exists hc hcN
    obtain ⟨j, m, hm, hl, hcoh, hadm, heq⟩ := load_spec' hV hm0 hl0 .relaxed pm
    have hlv := load_view hV hL.carLe (.cell c) .relaxed pm
    simp only [heq] at hlv ⊢
    rw [loadView_relaxed] at hlv ⊢
    have hcohg : (View.mk view.cur (max view.acq m.carried) (view.setCoh (.cell c) j).coh).cohOf .gen
        = view.cohOf .gen := cohOf_setCoh_ne view j (by intro h; cases h)
    obtain ⟨hA1, hA2, hA3, hA4, hA5, hA6⟩ := hA
    have hA' : AttemptInv log (View.mk view.cur (max view.acq m.carried) (view.setCoh (.cell c) j).coh) gi ai g1 :=
      ⟨hA1, hA2, hA3, hA4, hA5, by rw [hcohg]; exact hA6⟩
    have hnew : ∀ c', c' < N → c' ∉ todo.filter (· != c) →
        CellRead log gi (max view.acq m.carried) ((c, m.val) :: got) c' := by
      intro c' hc' hn
      by_cases hcc : c' = c
      · subst hcc
        refine ⟨j, m, hm, hl, by simp, Nat.le_max_right _ _, fun k mk hk1 hk2 hmk => ?_⟩
        exact hadm k mk hk1 (by omega) hmk
      · have hnt : c' ∉ todo := by
          intro hmem; apply hn; rw [List.mem_filter]; exact ⟨hmem, by simp [hcc]⟩
        obtain ⟨j', m', h1, h2, h3, h4, h5⟩ := hcells c' hc' hnt
        refine ⟨j', m', h1, h2, ?_, Nat.le_trans h4 (Nat.le_max_left _ _), h5⟩
        have : (c == c') = false := by simp; exact fun h => hcc h.symm
        rw [List.find?_cons]; simp only [this]; exact h3
    refine ⟨hlv.1, ?_, ?_⟩
    · show ai ≤ _; rw [hcohg]; exact hacc
    · by_cases hr : (todo.filter (· != c)).isEmpty = true
      · simp only [hr, if_true, afterCopy_adequate ha]
        refine ⟨hA', fun c' hc' => hnew c' hc' ?_⟩
        rw [List.isEmpty_iff.1 hr]; simp
      · simp only [hr]
        refine ⟨hA', fun c' hc' => htodo c' (List.mem_filter.1 hc').1, hnew⟩

theorem rStep_fence (ha : a.adequate = true)
    (view : View) (cg : Nat) (cache : List Nat) (gi ai : Nat) (g1 retries : Nat)
    (got : List (Nat × Nat))
    (hR : RInv log ⟨.fence g1 retries got, view, cg, cache, gi, ai⟩) (pc pm : Nat) :
    RInv log (rStep a log ⟨.fence g1 retries got, view, cg, cache, gi, ai⟩ pc pm).1 := by
  simp only [rStep]
  obtain ⟨hV, hacc, ⟨hA1, hA2, hA3, hA4, hA5, hA6⟩, hcells⟩ := hR
  dsimp only at hV hacc hA1 hA4 hA5 hA6 hcells
  obtain ⟨_, _, _, _, o, ho, hoa⟩ := (Ann.adequate_iff a).1 ha
  simp only [ho, Option.getD_some, fenceAcq_of_acq view hoa]
  refine ⟨⟨Nat.max_le.2 ⟨hV.cur, hV.acq⟩, hV.acq, hV.coh⟩, hacc, ⟨hA1, hA2, hA3, ?_, hA5, hA6⟩, ?_⟩
  · show gi + 1 ≤ max view.cur view.acq
    have : gi + 1 ≤ view.cur := hA4
    omega
  · intro c hc'
    exact (hcells c hc').mono (Nat.le_max_right _ _)

theorem rStep_gen2 (hL : LogInv a ver gen cells0 log written) (hc : cells0.length = N) (ha : a.adequate = true)
    (view : View) (cg : Nat) (cache : List Nat) (gi ai : Nat) (g1 retries : Nat)
    (got : List (Nat × Nat))
    (hR : RInv log ⟨.gen2 g1 retries got, view, cg, cache, gi, ai⟩) (pc pm : Nat) :
    RInv log (rStep a log ⟨.gen2 g1 retries got, view, cg, cache, gi, ai⟩ pc pm).1 := by
  simp only [rStep]
  obtain ⟨hV, hacc, ⟨⟨mg, hmg, hlg, hvg⟩, hA2, hA3, hA4, hA5, hA6⟩, hcells⟩ := hR
  dsimp only at hV hacc hmg hA4 hA5 hA6 hcells
  have hlv := load_view hV hL.carLe .gen a.rGen2 pm
  obtain ⟨j, m, hm, hl, hcoh, _, heq⟩ := load_spec' hV hmg hlg a.rGen2 pm
  simp only [heq] at hlv ⊢
  obtain ⟨_, _, _, hacq, _⟩ := (Ann.adequate_iff a).1 ha
  have hacc' : ai ≤ view.cohOf .gen := hacc
  have hA4' : gi + 1 ≤ view.cur := hA4
  have hA6' : gi ≤ view.cohOf .gen := hA6
  have hcoh' : (loadView view .gen a.rGen2 j m.carried).cohOf .gen = j := loadView_cohOf_same _ _ _ _ _
  have hcur' : (loadView view .gen a.rGen2 j m.carried).cur = max view.cur m.carried :=
    loadView_cur_acq _ _ _ _ _ hacq
  split
  · exact ⟨hlv.1, by show gi ≤ _; rw [hcoh']; omega, trivial⟩
  · next hne =>
    split
    · exact ⟨hlv.1, by show ai ≤ _; rw [hcoh']; omega, trivial⟩
    · refine ⟨hlv.1, by show ai ≤ _; rw [hcoh']; omega, ?_, ?_, ?_⟩
      · by_cases he : m.val % 2 = 0
        · simp only [he, if_true]
          have hjgi : j ≠ gi := by
            rintro rfl
            rw [hmg] at hm; cases hm
            exact hne hvg.symm
          have hgi := hL.gen_idx_ge hc hmg hlg
          have hnz : m.val ≠ 0 := hL.genNz j m hm hl (by omega)
          have hcar : j + 1 ≤ m.carried := hL.genCar ha j m hm hl he
          refine ⟨⟨m, hm, hl, rfl⟩, he, hnz, ?_, by omega, ?_⟩
          · rw [hcur']; omega
          · rw [hcoh']; exact Nat.le_refl _
        · simp only [he, if_false]
          refine ⟨⟨mg, hmg, hlg, hvg⟩, hA2, hA3, ?_, hA5, ?_⟩
          · rw [hcur']; omega
          · rw [hcoh']; omega
      · intro c hc'; exact List.mem_range.1 hc'
      · intro c hc' hn; exact absurd (List.mem_range.2 hc') hn

theorem rStep_inv (hL : LogInv a ver gen cells0 log written) (hc : cells0.length = N) (ha : a.adequate = true)
    (r : Reader) (hR : RInv log r) (pc pm : Nat) : RInv log (rStep a log r pc pm).1 := by
  obtain ⟨rpc, view, cg, cache, gi, ai⟩ := r
  cases rpc with
  | idle => exact hR
  | version => exact rStep_version hL view cg cache gi ai hR pc pm
  | gen1 => exact rStep_gen1 hL ha view cg cache gi ai hR pc pm
  | copy g1 retries todo got => exact rStep_copy hL hc ha view cg cache gi ai g1 retries todo got hR pc pm
  | fence g1 retries got => exact rStep_fence ha view cg cache gi ai g1 retries got hR pc pm
  | gen2 g1 retries got => exact rStep_gen2 hL hc ha view cg cache gi ai g1 retries got hR pc pm

end rstep

/-! ### stability of the reader invariant when the log grows -/

theorem CellRead.append {log : Log} {gi b : Nat} {got : List (Nat × Nat)} {c : Nat}
    (h : CellRead log gi b got c) (hgi : gi < log.length) (l : Log) : CellRead (log ++ l) gi b got c := by
  obtain ⟨j, m, h1, h2, h3, h4, h5⟩ := h
  refine ⟨j, m, getElem?_append_some h1, h2, h3, h4, fun k mk hk1 hk2 hmk => ?_⟩
  rw [List.getElem?_append_left (by omega)] at hmk
  exact h5 k mk hk1 hk2 hmk

theorem AttemptInv.append {log : Log} {v : View} {gi ai g1 : Nat} (h : AttemptInv log v gi ai g1) (l : Log) :
    AttemptInv (log ++ l) v gi ai g1 := by
  obtain ⟨⟨m, hm, hl, hv⟩, h2⟩ := h
  exact ⟨⟨m, getElem?_append_some hm, hl, hv⟩, h2⟩

theorem AttemptInv.lt {log : Log} {v : View} {gi ai g1 : Nat} (h : AttemptInv log v gi ai g1) :
    gi < log.length := by
  obtain ⟨⟨m, hm, _, _⟩, _⟩ := h; exact lt_length_of_getElem? hm

theorem RInv.append {log : Log} {r : Reader} (h : RInv log r) (l : Log) : RInv (log ++ l) r := by
  obtain ⟨rpc, view, cg, cache, gi, ai⟩ := r
  obtain ⟨hV, hacc, hP⟩ := h
  refine ⟨hV.append l, hacc, ?_⟩
  dsimp only at hP ⊢
  cases rpc with
  | idle => trivial
  | version => trivial
  | gen1 => trivial
  | copy g1 retries todo got =>
    obtain ⟨hA, h1, h2⟩ := hP
    exact ⟨hA.append l, h1, fun c hc hn => (h2 c hc hn).append hA.lt l⟩
  | fence g1 retries got =>
    obtain ⟨hA, h2⟩ := hP
    exact ⟨hA.append l, fun c hc => (h2 c hc).append hA.lt l⟩
  | gen2 g1 retries got =>
    obtain ⟨hA, h2⟩ := hP
    exact ⟨hA.append l, fun c hc => (h2 c hc).append hA.lt l⟩

theorem wStep_log (a : Ann) (log : Log) (w : Writer) (pick : Nat) :
    ∃ l, (wStep a log w pick).1 = log ++ l := by
  obtain ⟨pc, rel⟩ := w
  cases pc with
  | idle => exact ⟨[], by simp [wStep]⟩
  | newVersion => exact ⟨_, rfl⟩
  | loadGen rec => exact ⟨[], by simp [wStep]⟩
  | store1 rec g => exact ⟨_, rfl⟩
  | fence rec g => exact ⟨[], by simp [wStep]⟩
  | copy rec g todo =>
    unfold wStep
    simp only
    split
    · exact ⟨[], by simp⟩
    · exact ⟨_, rfl⟩
  | store2 rec g => exact ⟨_, rfl⟩

/-! ### the global invariant -/

structure Inv (a : Ann) (ver gen : Nat) (cells0 : List Nat) (s : Sys) : Prop where
  log : LogInv a ver gen cells0 s.log s.written
  wpc : WPcInv a s.log s.w s.written
  rel : s.w.relFence ≤ s.log.length
  rd : a.adequate = true → RInv s.log s.r

theorem RInv.empty (log : Log) : RInv log {} := ⟨ViewInv.empty log, Nat.zero_le _, trivial⟩

theorem Inv.init (a : Ann) (ver gen : Nat) {cells0 : List Nat} (hc : cells0.length = N) (hg : gen < 65536) :
    Inv a ver gen cells0 (Sys.init ver gen cells0) :=
  ⟨LogInv.init a ver gen hc hg, trivial, Nat.zero_le _, fun _ => RInv.empty _⟩

theorem Inv.step {a : Ann} {ver gen : Nat} {cells0 : List Nat} (hc : cells0.length = N) {s t : Sys}
    (h : Inv a ver gen cells0 s) (hst : Step a s t) : Inv a ver gen cells0 t := by
  cases hst with
  | wNew hidle => exact ⟨h.log, trivial, Nat.zero_le _, h.rd⟩
  | wWrite rec hidle hl =>
    exact ⟨h.log.mono_written (fun r hr => List.mem_cons_of_mem _ hr), ⟨List.mem_cons_self, hl⟩, h.rel, h.rd⟩
  | wStep pick hne =>
    obtain ⟨h1, h2, h3⟩ := wStep_inv h.log hc s.w h.rel h.wpc pick
    obtain ⟨l, hl⟩ := wStep_log a s.log s.w pick
    refine ⟨h1, h2, h3, fun ha => ?_⟩
    show RInv (wStep a s.log s.w pick).1 s.r
    rw [hl]; exact (h.rd ha).append l
  | wKill => exact ⟨h.log, trivial, Nat.zero_le _, h.rd⟩
  | rOpen hidle => exact ⟨h.log, h.wpc, h.rel, fun _ => RInv.empty _⟩
  | rCall hidle =>
    refine ⟨h.log, h.wpc, h.rel, fun ha => ?_⟩
    obtain ⟨hV, hacc, _⟩ := h.rd ha
    exact ⟨hV, hacc, trivial⟩
  | rStep pc pm hne =>
    exact ⟨h.log, h.wpc, h.rel, fun ha => rStep_inv h.log hc ha s.r (h.rd ha) pc pm⟩

theorem reachable_inv {a : Ann} {ver gen : Nat} {cells0 : List Nat} (hc : cells0.length = N) (hg : gen < 65536)
    {s : Sys} (hr : Reachable a (Sys.init ver gen cells0) s) : Inv a ver gen cells0 s := by
  induction hr with
  | refl => exact Inv.init a ver gen hc hg
  | step _ hst ih => exact ih.step hc hst

/-! ### the potential argument -/

section pot
variable {a : Ann} {ver gen : Nat} {cells0 : List Nat} {log : Log} {written : List (List Nat)}

theorem LogInv.gen_pair (hL : LogInv a ver gen cells0 log written) (hc : cells0.length = N)
    {i j : Nat} {mi mj : Msg} (hi : log[i]? = some mi) (hj : log[j]? = some mj) (hij : i ≤ j)
    (hgi : mi.loc = .gen) (hgj : mj.loc = .gen) :
    phi mj.val = (phi mi.val + evenGenBetween log i j) % 32767 := by
  have h1 := hL.pot i mi hi hgi
  have h2 := hL.pot j mj hj hgj
  have h3 := eGB_add log (hL.gen_idx_ge hc hi hgi) hij
  have := phi_lt gen
  omega

theorem LogInv.equal_even_gen (hL : LogInv a ver gen cells0 log written) (hc : cells0.length = N)
    {i j : Nat} {mi mj : Msg} (hi : log[i]? = some mi) (hj : log[j]? = some mj) (hij : i ≤ j)
    (hgi : mi.loc = .gen) (hgj : mj.loc = .gen) (hev : mi.val % 2 = 0) (heq : mi.val = mj.val)
    (hfew : evenGenBetween log i j < 32767) : i = j := by
  by_cases hlt : i < j
  · exfalso
    have hp := hL.gen_pair hc hi hj hij hgi hgj
    obtain ⟨j', rfl⟩ : ∃ j', j = j' + 1 := ⟨j - 1, by omega⟩
    have hEG : isEG log (j' + 1) = true := isEG_iff.2 ⟨mj, hj, hgj, by omega⟩
    rw [eGB_succ, if_pos ⟨hlt, hEG⟩] at hp hfew
    rw [heq] at hp
    have := phi_lt mj.val
    omega
  · omega

/-- the reader's acceptance argument -/
theorem accept_core (hL : LogInv a ver gen cells0 log written) (hc : cells0.length = N) (ha : a.adequate = true)
    {r : Reader} (hR : RInv log r) {g1 retries : Nat} {got : List (Nat × Nat)}
    (hpc : r.pc = .gen2 g1 retries got) (pm : Nat)
    (hacc : (load log r.view .gen a.rGen2 pm).1 = g1)
    (hnowrap : evenGenBetween log r.g1Idx (load log r.view .gen a.rGen2 pm).2.1 < 32767) :
    assemble got = pubCells log r.g1Idx ∧
      ∃ m, log[r.g1Idx]? = some m ∧ m.loc = .gen ∧ m.val = g1 ∧ g1 % 2 = 0 ∧ g1 ≠ 0 := by
  have hP := hR.pc
  rw [hpc] at hP
  obtain ⟨⟨⟨mg, hmg, hlg, hvg⟩, hA2, hA3, hA4, hA5, hA6⟩, hcells⟩ := hP
  obtain ⟨j2, m2, hm2, hl2, hcoh2, hadm2, heq⟩ := load_spec' hR.view hmg hlg a.rGen2 pm
  rw [heq] at hacc hnowrap
  simp only at hacc hnowrap
  have hgi := hL.gen_idx_ge hc hmg hlg
  -- the re-check cannot have read a later message
  have hno : ¬ r.g1Idx < j2 := by
    intro hlt
    have := hL.equal_even_gen hc hmg hm2 (by omega) hlg hl2 (by omega) (by omega) hnowrap
    omega
  refine ⟨?_, mg, hmg, hlg, hvg, hA2, hA3⟩
  unfold assemble pubCells
  apply List.map_congr_left
  intro c hcm
  have hcN := List.mem_range.1 hcm
  obtain ⟨j, m, hm, hl, hfind, hcar, hlast⟩ := hcells c hcN
  have hjne : j ≠ r.g1Idx := by
    rintro rfl
    rw [hmg] at hm; cases hm
    rw [hlg] at hl; cases hl
  have hjlt : j < r.g1Idx := by
    by_cases hjlt : j < r.g1Idx
    · exact hjlt
    · exfalso
      have hjgt : r.g1Idx < j := by omega
      obtain ⟨o, mo, ho1, ho2, ho3, ho4, ho5, ho6⟩ := hL.cellOdd j m c (by omega) hm hl
      have ho5' := ho5 ha
      -- g1Idx lies at or before o
      have h1 : r.g1Idx ≤ o := by
        by_cases h1 : r.g1Idx ≤ o
        · exact h1
        · exact absurd hlg (ho6 r.g1Idx mg (by omega) hjgt hmg)
      have h2 : r.g1Idx ≠ o := by
        rintro rfl
        rw [hmg] at ho2; cases ho2
        omega
      -- o is visible to the re-check
      have h3 : o ≤ j2 := by
        by_cases h3 : o ≤ j2
        · exact h3
        · exact absurd ho3 (hadm2 o mo (by omega) (by omega) ho2)
      omega
  have hlb : lastBefore log (.cell c) r.g1Idx = some j :=
    lastBefore_eq_some_iff.2 ⟨hjlt, ⟨m, hm, hl⟩, fun k mk hk1 hk2 hmk => hlast k mk hk1 (by omega) hmk⟩
  rw [hlb]
  simp only [hm, Option.map_some, Option.getD_some]
  exact hfind

end pot

/-! ### what is returned and cached -/

def GoodRec (cells0 : List Nat) (written : List (List Nat)) (c : List Nat) : Prop :=
  c = zerosN ∨ c = cells0 ∨ c ∈ written

def CacheRel (log : Log) (r : Reader) : Prop :=
  (r.cacheGen = 0 ∧ r.cache = zerosN) ∨
  (r.cache = pubCells log r.acceptedIdx ∧
    ∃ m, log[r.acceptedIdx]? = some m ∧ m.loc = .gen ∧ m.val = r.cacheGen)

structure CInv (cells0 : List Nat) (s : Sys) : Prop where
  ret : ∀ c ∈ s.returned, GoodRec cells0 s.written c
  cache : GoodRec cells0 s.written s.r.cache
  rel : CacheRel s.log s.r

/-- no 16-bit wrap between the two generation reads of an attempt accepted in state `s` -/
def NoWrapAt (a : Ann) (s : Sys) : Prop :=
  ∀ g1 retries got pm, s.r.pc = .gen2 g1 retries got →
    (load s.log s.r.view .gen a.rGen2 pm).1 = g1 →
    evenGenBetween s.log s.r.g1Idx (load s.log s.r.view .gen a.rGen2 pm).2.1 < 32767

theorem GoodRec.mono {cells0 : List Nat} {w w' : List (List Nat)} {c : List Nat}
    (h : GoodRec cells0 w c) (hw : ∀ r, r ∈ w → r ∈ w') : GoodRec cells0 w' c :=
  h.imp id (fun h => h.imp id (hw _))

theorem CacheRel.append {log : Log} {r : Reader} (h : CacheRel log r) (l : Log) : CacheRel (log ++ l) r := by
  rcases h with h | ⟨h1, m, hm, h2⟩
  · exact Or.inl h
  · refine Or.inr ⟨?_, m, getElem?_append_some hm, h2⟩
    rw [pubCells_append (Nat.le_of_lt (lt_length_of_getElem? hm))]; exact h1

/-- the effect of a reader access on the cache, the ghost index and the call result -/
theorem rStep_cache_cases (a : Ann) (log : Log) (r : Reader) (pc pm : Nat) :
    ((rStep a log r pc pm).1.cache = r.cache ∧ (rStep a log r pc pm).1.cacheGen = r.cacheGen ∧
      (rStep a log r pc pm).1.acceptedIdx = r.acceptedIdx ∧
      (returnedBy (rStep a log r pc pm).2.1 = none ∨ returnedBy (rStep a log r pc pm).2.1 = some r.cache)) ∨
    (∃ g1 retries got, r.pc = .gen2 g1 retries got ∧ (load log r.view .gen a.rGen2 pm).1 = g1 ∧
      (rStep a log r pc pm).1.cache = assemble got ∧ (rStep a log r pc pm).1.cacheGen = g1 ∧
      (rStep a log r pc pm).1.acceptedIdx = r.g1Idx ∧
      returnedBy (rStep a log r pc pm).2.1 = some (assemble got)) := by
  obtain ⟨rpc, view, cg, cache, gi, ai⟩ := r
  cases rpc with
  | idle => left; simp [rStep, returnedBy]
  | version =>
    left; simp only [rStep]
    split <;> simp [returnedBy]
  | gen1 =>
    left; simp only [rStep]
    split <;> simp [returnedBy]
  | copy g1 retries todo got =>
    left; simp only [rStep]
    split <;> simp [returnedBy]
  | fence g1 retries got => left; simp [rStep, returnedBy]
  | gen2 g1 retries got =>
    by_cases hacc : g1 = (load log view .gen a.rGen2 pm).1
    · right
      refine ⟨g1, retries, got, rfl, hacc.symm, ?_⟩
      simp only [rStep]
      rw [if_pos hacc]
      simp [returnedBy]
    · left
      simp only [rStep]
      rw [if_neg hacc]
      split <;> simp [returnedBy]

theorem step_log_append {a : Ann} {s t : Sys} (hst : Step a s t) : ∃ l, t.log = s.log ++ l := by
  cases hst with
  | wNew hidle => exact ⟨[], by simp⟩
  | wWrite rec hidle hl => exact ⟨[], by simp⟩
  | wStep pick hne => exact wStep_log a s.log s.w pick
  | wKill => exact ⟨[], by simp⟩
  | rOpen hidle => exact ⟨[], by simp⟩
  | rCall hidle => exact ⟨[], by simp⟩
  | rStep pc pm hne => exact ⟨[], by simp⟩

theorem CInv.init (ver gen : Nat) (cells0 : List Nat) : CInv cells0 (Sys.init ver gen cells0) :=
  ⟨fun c hc => (by cases hc), Or.inl rfl, Or.inl ⟨rfl, rfl⟩⟩

theorem CInv.step {a : Ann} {ver gen : Nat} {cells0 : List Nat} (hc : cells0.length = N)
    (ha : a.adequate = true) {s t : Sys} (hI : Inv a ver gen cells0 s) (h : CInv cells0 s)
    (hnw : NoWrapAt a s) (hst : Step a s t) : CInv cells0 t := by
  cases hst with
  | wNew hidle => exact ⟨h.ret, h.cache, h.rel⟩
  | wWrite rec hidle hl =>
    have hw : ∀ r, r ∈ s.written → r ∈ rec :: s.written := fun r hr => List.mem_cons_of_mem _ hr
    exact ⟨fun c hc => (h.ret c hc).mono hw, h.cache.mono hw, h.rel⟩
  | wStep pick hne =>
    obtain ⟨l, hl⟩ := wStep_log a s.log s.w pick
    refine ⟨h.ret, h.cache, ?_⟩
    show CacheRel (wStep a s.log s.w pick).1 s.r
    rw [hl]; exact h.rel.append l
  | wKill => exact ⟨h.ret, h.cache, h.rel⟩
  | rOpen hidle => exact ⟨h.ret, Or.inl rfl, Or.inl ⟨rfl, rfl⟩⟩
  | rCall hidle => exact ⟨h.ret, h.cache, h.rel⟩
  | rStep pc pm hne =>
    rcases rStep_cache_cases a s.log s.r pc pm with ⟨h1, h2, h3, h4⟩ | ⟨g1, retries, got, hpc, hacc, h1, h2, h3, h4⟩
    · refine ⟨?_, ?_, ?_⟩
      · show ∀ c ∈ (match returnedBy (rStep a s.log s.r pc pm).2.1 with
            | some c => c :: s.returned
            | none => s.returned), GoodRec cells0 s.written c
        rcases h4 with h4 | h4 <;> rw [h4] <;> simp only
        · exact h.ret
        · intro c hc'
          rcases List.mem_cons.1 hc' with rfl | hc'
          · exact h.cache
          · exact h.ret c hc'
      · show GoodRec cells0 s.written (rStep a s.log s.r pc pm).1.cache
        rw [h1]; exact h.cache
      · show CacheRel s.log (rStep a s.log s.r pc pm).1
        unfold CacheRel
        rw [h1, h2, h3]; exact h.rel
    · obtain ⟨hass, m, hm, hlg, hv, hev, hnz⟩ :=
        accept_core hI.log hc ha (hI.rd ha) hpc pm hacc (hnw g1 retries got pm hpc hacc)
      have hgood : GoodRec cells0 s.written (assemble got) := by
        rw [hass]
        right
        exact hI.log.pub s.r.g1Idx m hm hlg (by rw [hv]; exact hev) (by rw [hv]; exact hnz)
      refine ⟨?_, ?_, ?_⟩
      · show ∀ c ∈ (match returnedBy (rStep a s.log s.r pc pm).2.1 with
            | some c => c :: s.returned
            | none => s.returned), GoodRec cells0 s.written c
        rw [h4]; simp only
        intro c hc'
        rcases List.mem_cons.1 hc' with rfl | hc'
        · exact hgood
        · exact h.ret c hc'
      · show GoodRec cells0 s.written (rStep a s.log s.r pc pm).1.cache
        rw [h1]; exact hgood
      · show CacheRel s.log (rStep a s.log s.r pc pm).1
        unfold CacheRel
        rw [h1, h2, h3]
        exact Or.inr ⟨hass, m, hm, hlg, hv⟩

theorem reachable_cinv_general {a : Ann} {ver gen : Nat} {cells0 : List Nat} (hc : cells0.length = N)
    (hg : gen < 65536) (ha : a.adequate = true)
    (hnw : ∀ t, Reachable a (Sys.init ver gen cells0) t → NoWrapAt a t)
    {s : Sys} (hr : Reachable a (Sys.init ver gen cells0) s) : CInv cells0 s := by
  induction hr with
  | refl => exact CInv.init ver gen cells0
  | step hr' hst ih => exact ih.step hc ha (reachable_inv hc hg hr') (hnw _ hr') hst

theorem noWrapAt_of_few (a : Ann) {s : Sys} (h : completedUpdates s.log < 32767) : NoWrapAt a s :=
  fun _ _ _ _ _ _ => Nat.lt_of_le_of_lt (eGB_le_completed _ _ _) h

theorem reachable_cinv_few {a : Ann} {ver gen : Nat} {cells0 : List Nat} (hc : cells0.length = N)
    (hg : gen < 65536) (ha : a.adequate = true)
    {s : Sys} (hr : Reachable a (Sys.init ver gen cells0) s) (hfew : completedUpdates s.log < 32767) :
    CInv cells0 s := by
  induction hr with
  | refl => exact CInv.init ver gen cells0
  | step hr' hst ih =>
    obtain ⟨l, hl⟩ := step_log_append hst
    rename_i s' t'
    have hle := completedUpdates_append s'.log l
    rw [← hl] at hle
    have hfew' := Nat.lt_of_le_of_lt hle hfew
    exact (ih hfew').step hc ha (reachable_inv hc hg hr') (noWrapAt_of_few a hfew') hst

/-- a reader access never moves the accepted index backwards -/
theorem rStep_acceptedIdx_mono {a : Ann} {log : Log} {r : Reader} (hR : RInv log r) (pc pm : Nat) :
    r.acceptedIdx ≤ (rStep a log r pc pm).1.acceptedIdx := by
  rcases rStep_cache_cases a log r pc pm with ⟨_, _, h3, _⟩ | ⟨g1, retries, got, hpc, _, _, _, h3, _⟩
  · rw [h3]; exact Nat.le_refl _
  · rw [h3]
    have hP := hR.pc
    rw [hpc] at hP
    exact hP.1.2.2.2.2.1

end ClockBound.SL
