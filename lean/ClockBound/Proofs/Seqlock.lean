/-
  Helper lemmas for the seqlock model (C02, C03, C04, C18).
-/
import ClockBound.Model.SeqlockSys
namespace ClockBound.SL

end ClockBound.SL
