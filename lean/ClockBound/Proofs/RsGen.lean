/-
  Proof of the translation tie for the generation protocol of `ShmWriter::write` (statement in
  `Properties/CodeTieGen.lean`).  Method: `simp [rs_eval, rs_code, <dictionary>]` normalises the
  interpreter on the generated AST into one test (`gen & 1 == 0`) and one `if gen == 0`; the two
  parities of `g` are then arithmetic.
-/
import ClockBound.Proofs.RsLemmas
import ClockBound.Generated.Code
import ClockBound.Rs.DictDemo
namespace ClockBound.Rs.GenProof
open ClockBound ClockBound.Rs ClockBound.Generated ClockBound.Rs.DictDemo

attribute [rs_eval] DictDemo.ext DictDemo.path DictDemo.deref DictDemo.method DictDemo.call
  DictDemo.ptr DictDemo.atomicRef DictDemo.ordering DictDemo.writerValue bitInt

/-- the model's `genStart`, over the integers -/
theorem genStart_int (g : Nat) :
    ((genStart g : Nat) : Int) = if (g : Int) % 2 = 0 then ((g : Int) + 1) % 65536 else (g : Int) := by
  unfold genStart
  split <;> split <;> omega

/-- the model's `genFinish`, over the integers -/
theorem genFinish_int (s : Nat) :
    ((genFinish s : Nat) : Int) = if ((s : Int) + 1) % 65536 = 0 then 2 else ((s : Int) + 1) % 65536 := by
  unfold genFinish
  simp only
  split <;> split <;> omega

set_option maxRecDepth 8000 in
set_option maxHeartbeats 1000000 in
theorem tie (g : Nat) (r : Record) (segsize : Nat) (nowNs : Int) (sizes : List (String × Nat))
    (inp : Nat → Value) (h0 : inp 0 = .int .u16 g) :
    run (Code.ctxWith nowNs DictDemo.ext sizes inp) "ShmWrite for ShmWriter::write" (writerValue segsize)
      [recordValue r]
    = .ok .unit (writerValue segsize)
        [evLoad "generation" (ordering "Acquire") (.int .u16 g),
         evStore "generation" (.int .u16 (genStart g)) (ordering "Release"),
         evFence (ordering "Release"),
         evDataWrite "ceb" (recordValue r),
         evStore "generation" (.int .u16 (genFinish (genStart g))) (ordering "Release")] := by
  simp [rs_eval, rs_code, h0, recordValue]
  rw [genFinish_int, genStart_int]
  have e1 : ((g : Int) + 1 + 1) % 65536 = (((g : Int) + 1) % 65536 + 1) % 65536 := by omega
  split_ifs <;> first | rfl | omega | simp_all

end ClockBound.Rs.GenProof
