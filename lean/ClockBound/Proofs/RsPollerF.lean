/- chrony poller iteration with a failing `send` (part 3: unreadable sysfs file), and with a failing clock read -/
import ClockBound.Proofs.RsPollerD
namespace ClockBound.Rs.PollerProof
open ClockBound ClockBound.Rs ClockBound.Generated ClockBound.Rs.DictPoller ClockBound.Rs.NowProof

set_option maxRecDepth 8000 in
set_option maxHeartbeats 4000000 in
theorem sf_phc_unreadable_open (e : IterEnv) (he : e.atOpen = true) (s : PollerState) (coarse : TimeSpec) (t : Tracking) (tReply tGrace : Int)
    : IterSendFails e s coarse (.tracking t) tReply tGrace (some t.refid) .unreadable := by
  fail_start
  obtain ⟨h0, h1, h2, h3, h4, h5, h6⟩ := hin
  fail_tie

set_option maxRecDepth 8000 in
set_option maxHeartbeats 4000000 in
theorem sf_phc_unreadable_read (e : IterEnv) (he : e.atOpen = false) (s : PollerState) (coarse : TimeSpec) (t : Tracking) (tReply tGrace : Int)
    : IterSendFails e s coarse (.tracking t) tReply tGrace (some t.refid) .unreadable := by
  fail_start
  obtain ⟨h0, h1, h2, h3, h4, h5, h6⟩ := hin
  fail_tie

set_option maxRecDepth 8000 in
set_option maxHeartbeats 4000000 in
/-- `clock_gettime_safe(CLOCK_MONOTONIC)` returns `Err(x)`: the error is logged (`error!`), chronyd is not asked,
    NOTHING is sent, the poller state is unchanged; the thread waits on its mailbox as usual -/
theorem clock_fails (e : IterEnv) (s : PollerState) (refid : Option Nat) (x : Value) (nowNs : Int) (inp : Nat → Value)
    (log : List Value) (pos : Nat) (pre : List Stmt) (c : Expr) (body : List Stmt)
    (hfl : findLoop Code.fn_chrony_poller__run_clock_error_bound_poller_stmts = some (pre, c, body))
    (hin : inputsAt inp pos [.enumv "Err" [x], e.recvRes]) (K : Nat) (hK : 60 ≤ K) :
    turnIs (ctxP nowNs [] inp) frP c body K
      (evalWhile (K + 2) (ctxP nowNs [] inp) frP c body (topP nowNs inp pre e s refid log pos))
      (if e.isAbort = true then
         .done (log ++ [evClockRead (clockId 6) (.enumv "Err" [x]), evWait (.duration e.sleepNs)]) (pos + 2)
       else .next (topP nowNs inp pre e s refid
         (log ++ [evClockRead (clockId 6) (.enumv "Err" [x]), evWait (.duration e.sleepNs)]) (pos + 2))) := by
  cases refid <;>
  · obtain ⟨M, rfl⟩ : ∃ M, K = M + 60 := ⟨K - 60, by omega⟩
    simp [rs_eval, rs_code] at hfl
    obtain ⟨rfl, rfl, rfl⟩ := hfl
    simp only [ctxP, topP, linuxUses_eq]
    simp [inputsAt] at hin
    obtain ⟨h0, h1⟩ := hin
    rw [evalWhile_true (h := by
      simp [rs_eval, rs_code, pollerArgs, pollerValue, contextValue, optPhcValue])]
    poll_tie
    poll_finish

end ClockBound.Rs.PollerProof
