/-
  `ShmWriter::is_usable_segment(path)` from an arbitrary state, on a file of 16 bytes or more with a valid
  header: the segment is mapped, then the size check of `ShmReader::new` decides.
-/
import ClockBound.Proofs.RsWriterNewBase
namespace ClockBound.Rs.WriterNewProof
open ClockBound ClockBound.Rs ClockBound.Generated ClockBound.Rs.DictShm ClockBound.Rs.EmbedShm

set_option maxRecDepth 8000 in
set_option maxHeartbeats 8000000 in
theorem usable_call_ok (inp : Nat → Value) (parent : String) (fd : Nat) (hfd : fd ≤ 2147483647)
    (h : Header) (hh : h.inRange) (hc : checkHeader h = .ok h)
    (N : Nat) (env : List (String × Value)) (lg : List Value) (p : Nat)
    (h0 : inp p = .int .infer fd) (h1 : inp (p + 1) = .int .infer 16) (h2 : inp (p + 2) = headerValue h)
    (h3 : inp (p + 3) = .enumv "addr:segment" []) :
    callDecl (N + 120) (nctx inp) Code.fn_ShmWriter__is_usable_segment .unit [.ext "Path" [.str "shm", .str parent]]
      { env := env, log := lg, pos := p }
    = .val (.tuple [if h.segsize < 72 then .enumv "Err" [shmErrValue .malformed] else .enumv "Ok" [.tuple []], .unit])
        { env := env, log := lg ++ openEvents fd 16 h, pos := p + 4 } := by
  obtain ⟨_, _, hs, _, _⟩ := hh
  obtain ⟨-, hm, hv, hg, hz⟩ := checkHeader_ok h h hc
  have hfd' : (fd : Int) ≤ 2147483647 := by omega
  have hfd0 : ¬ ((fd : Int) < 0) := by omega
  have hs' : ((h.segsize : Nat) : Int) % 18446744073709551616 = h.segsize := by unfold TWO32 at hs; omega
  have hsz : ((h.segsize : Nat) : Int) ≤ 18446744073709551615 := by unfold TWO32 at hs; omega
  have hm0 : h.magic0 = 1095588430 := hm.1
  have hm1 : h.magic1 = 1128399360 := hm.2
  have hz' : ¬ (h.segsize < 16) := by unfold HEADER_SIZE at hz; omega
  have hz2 : 16 ≤ h.segsize := by omega
  have hv' : 0 < h.version := by omega
  have hg' : 0 < h.generation := by omega
  simp (config := { maxSteps := 8000000 }) [rs_eval, rs_code, Nat.add_assoc, h0, h1, h2, h3, hfd', hfd0, hs', hsz,
    hm0, hm1, hv, hg, hz', hz2, hv', hg', EmbedShm.sizes, headerValue, chkInt, HEADER_SIZE, RECORD_SIZE, openEvents, openEvents2, evSys, hc,
    DictShm.addr]
  split_ifs <;> first | (simp [shmErrValue]; done) | (exfalso; omega) | (simp_all [shmErrValue]; done)

end ClockBound.Rs.WriterNewProof
