/- chrony poller iteration: a Tracking reply whose reference is the PHC, sysfs file unreadable (see `Proofs/RsPoller.lean`) -/
import ClockBound.Proofs.RsPoller
namespace ClockBound.Rs.PollerProof
open ClockBound ClockBound.Rs ClockBound.Generated ClockBound.Rs.DictPoller ClockBound.Rs.NowProof

set_option maxRecDepth 8000 in
set_option maxHeartbeats 4000000 in
theorem iter_phc_unreadable_open (e : IterEnv) (he : e.atOpen = true) (s : PollerState) (coarse : TimeSpec) (t : Tracking)
    (tReply tGrace : Int) : IterStmt e s coarse (.tracking t) tReply tGrace (some t.refid) .unreadable := by
  iter_start
  obtain ⟨h0, h1, h2, h3, h4, h5, h6⟩ := hin
  poll_tie
  poll_finish

set_option maxRecDepth 8000 in
set_option maxHeartbeats 4000000 in
theorem iter_phc_unreadable_read (e : IterEnv) (he : e.atOpen = false) (s : PollerState) (coarse : TimeSpec) (t : Tracking)
    (tReply tGrace : Int) : IterStmt e s coarse (.tracking t) tReply tGrace (some t.refid) .unreadable := by
  iter_start
  obtain ⟨h0, h1, h2, h3, h4, h5, h6⟩ := hin
  poll_tie
  poll_finish

end ClockBound.Rs.PollerProof
