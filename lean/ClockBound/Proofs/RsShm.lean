/-
  Lemmas shared by the proofs of the theorem group `Shm` (`Proofs/RsSeqlock.lean`, `RsHeader.lean`,
  `RsWriterNew.lean`): the dictionary `Rs/DictShm.lean` in the simp set `rs_eval`, and the cases of
  `litFallback` with a fallback type that `Proofs/RsEval.lean` does not list.  Not trusted.
-/
import ClockBound.Proofs.RsLemmas
import ClockBound.Proofs.RsLoop
import ClockBound.Generated.Code
import ClockBound.Rs.EmbedShm
namespace ClockBound.Rs
open ClockBound ClockBound.Rs ClockBound.Rs.DictShm

attribute [rs_eval] DictShm.ext DictShm.path DictShm.deref DictShm.method DictShm.call
  DictShm.ptrA16 DictShm.refA16 DictShm.ptrCeb DictShm.ordering DictShm.asU16 DictShm.asU64 bitInt

/-- an operand of a known integer type is not retyped -/
@[rs_eval] theorem litFallback_int_l (fb : Option IntTy) (t : IntTy) (x : Int) (b : Value) (h : t ≠ .infer) :
    litFallback fb (.int t x) b = (.int t x, b) := by
  unfold litFallback; split <;> simp_all
@[rs_eval] theorem litFallback_int_r (fb : Option IntTy) (a : Value) (t : IntTy) (y : Int) (h : t ≠ .infer) :
    litFallback fb a (.int t y) = (a, .int t y) := by
  unfold litFallback; split <;> simp_all

end ClockBound.Rs
