/-
  Lemmas shared by the proofs of the theorem group `Shm` (`Proofs/RsSeqlock.lean`, `RsHeader.lean`,
  `RsWriterNew.lean`): the dictionary `Rs/DictShm.lean` in the simp set `rs_eval`, and the cases of
  `litFallback` with a fallback type that `Proofs/RsEval.lean` does not list.  Not trusted.
-/
import ClockBound.Proofs.RsLemmas
import ClockBound.Proofs.RsLoop
import ClockBound.Generated.Code
import ClockBound.Rs.EmbedShm
open Lean Meta Elab Command in
/-- generate the equation lemmas of the given functions HERE, in a module every proof file of the group imports
    (two sibling modules that each generated `f.eq_1` on demand could not be imported together) -/
elab "rs_realize_eqns " ids:ident+ : command => do
  for id in ids do
    let declName ← liftCoreM <| realizeGlobalConstNoOverloadWithInfo id
    let _ ← liftTermElabM <| getEqnsFor? declName

namespace ClockBound.Rs
open ClockBound ClockBound.Rs ClockBound.Rs.DictShm

rs_realize_eqns DictShm.evLoad DictShm.evStore DictShm.evFence DictShm.cellLoc DictShm.wordLoads DictShm.wordStores
  DictShm.readWords DictShm.evSys DictShm.evFs DictShm.errnoValue
  EmbedShm.wordsValue EmbedShm.ordValue EmbedShm.ordOfValue EmbedShm.locValue EmbedShm.locTy EmbedShm.accValue EmbedShm.rawInp
  EmbedShm.writerValue EmbedShm.readerValue EmbedShm.resultValue EmbedShm.loadCard EmbedShm.typedInp
  EmbedShm.readerOutcome EmbedShm.headerValue EmbedShm.sizes EmbedShm.shmErrValue EmbedShm.validValue
  EmbedShm.readValue EmbedShm.streamOf EmbedShm.cstrValue EmbedShm.freshReaderValue EmbedShm.openValue
  EmbedShm.openAnswers EmbedShm.okUnit EmbedShm.opValue EmbedShm.isMutEv EmbedShm.openUsed EmbedShm.wipeAnswers
  EmbedShm.newAnswers Outcome.noLog Outcome.okWith

attribute [rs_eval] DictShm.path DictShm.deref DictShm.method DictShm.call DictShm.methodA DictShm.callA
  DictShm.methodB DictShm.methodC DictShm.callC DictShm.pathC DictShm.pathAll DictShm.derefAll DictShm.derefC
  DictShm.macroC DictShm.refMutD DictShm.letPtrD DictShm.methodD DictShm.callD DictShm.pathD DictShm.fsCall DictShm.asResult DictShm.pathObj
  DictShm.fileObj DictShm.syscallErr DictShm.fieldOfC DictShm.atomicVal DictShm.addr DictShm.addrPlus DictShm.libcConst DictShm.asInt
  DictShm.ptrA16 DictShm.refA16 DictShm.ptrCeb DictShm.ordering DictShm.asU16 DictShm.asU64 bitInt

/-! the dictionary stays folded (`DictShm.ext`); its fields -/
@[rs_eval] theorem ext_call : DictShm.ext.call = DictShm.call := rfl
@[rs_eval] theorem ext_method : DictShm.ext.method = DictShm.method := rfl
@[rs_eval] theorem ext_path : DictShm.ext.path = DictShm.pathAll := rfl
@[rs_eval] theorem ext_deref : DictShm.ext.deref = DictShm.derefAll := rfl
@[rs_eval] theorem ext_litFallback : DictShm.ext.litFallback = some .i32 := rfl
@[rs_eval] theorem ext_errFrom : DictShm.ext.errFrom = Ext.none.errFrom := rfl
@[rs_eval] theorem ext_macroCall : DictShm.ext.macroCall = DictShm.macroC := rfl
@[rs_eval] theorem ext_fieldOf : DictShm.ext.fieldOf = DictShm.fieldOfC := rfl
@[rs_eval] theorem ext_cast : DictShm.ext.cast = Ext.none.cast := rfl
@[rs_eval] theorem ext_refMut : DictShm.ext.refMut = DictShm.refMutD := rfl
@[rs_eval] theorem ext_letPtr : DictShm.ext.letPtr = DictShm.letPtrD := rfl

/-- an operand of a known integer type is not retyped -/
@[rs_eval] theorem litFallback_int_l (fb : Option IntTy) (t : IntTy) (x : Int) (b : Value) (h : t ≠ .infer) :
    litFallback fb (.int t x) b = (.int t x, b) := by
  unfold litFallback; split <;> simp_all
@[rs_eval] theorem litFallback_int_r (fb : Option IntTy) (a : Value) (t : IntTy) (y : Int) (h : t ≠ .infer) :
    litFallback fb a (.int t y) = (a, .int t y) := by
  unfold litFallback; split <;> simp_all

/-- operands that are not integers are not retyped -/
@[rs_eval] theorem litFallback_list_l (fb : Option IntTy) (l : List Value) (b : Value) :
    litFallback fb (.list l) b = (.list l, b) := by unfold litFallback; split <;> simp_all
@[rs_eval] theorem litFallback_enumv_l (fb : Option IntTy) (p : String) (l : List Value) (b : Value) :
    litFallback fb (.enumv p l) b = (.enumv p l, b) := by unfold litFallback; split <;> simp_all
@[rs_eval] theorem litFallback_ext_l (fb : Option IntTy) (p : String) (l : List Value) (b : Value) :
    litFallback fb (.ext p l) b = (.ext p l, b) := by unfold litFallback; split <;> simp_all
@[rs_eval] theorem litFallback_bool_l (fb : Option IntTy) (x : Bool) (b : Value) :
    litFallback fb (.bool x) b = (.bool x, b) := by unfold litFallback; split <;> simp_all

/-- setting the lowest bit: the next odd number unless the number is odd already (`gen | 0x0001`) -/
theorem lor_one (g : Nat) : g ||| 1 = if g % 2 = 0 then g + 1 else g := by
  have h1 : (g ||| 1) / 2 = g / 2 := by rw [Nat.or_div_two]; simp
  have h2 : (g ||| 1) % 2 = 1 := by rw [Nat.or_mod_two_eq_one]; simp
  split <;> omega

/-- clearing all bits but the lowest (`gen & 0x0001`) -/
theorem land_one (g : Nat) : g &&& 1 = g % 2 := Nat.and_one_is_mod g

end ClockBound.Rs
