/-
  Proofs of the translation tie for the two client libraries (statements in
  `Properties/CodeTieErrors.lean`).  Method: case split on the model value (error variant, `Result`s the
  environment returns), then `simp [rs_eval, rs_code, <dictionary>, <embeddings>]` normalises the interpreter
  on the generated AST to a closed outcome.

  `clientFns` / `ctxE` below are part of the STATEMENTS.
-/
import ClockBound.Proofs.RsLemmas
import ClockBound.Generated.Code
import ClockBound.Rs.EmbedErrors
namespace ClockBound.Rs.ErrorsProof
open ClockBound ClockBound.Rs ClockBound.Generated ClockBound.Rs.DictErrors ClockBound.Rs.EmbedErrors

/-- the regenerated functions of the two client crates (clock-bound-client/src/lib.rs is the module
    `client_lib`, clock-bound-ffi/src/lib.rs the module `ffi_lib`): every function of `Code.fns` that was
    translated from one of these two files, whatever its name -/
def clientFns : List (String × FnDecl) :=
  Code.fns.filter fun kv => kv.2.module == "client_lib" || kv.2.module == "ffi_lib"

/-- the context of this group: all generated tables, the dictionary `DictErrors.ext`, the input stream
    `inp`, and the function table restricted to the two client crates — so that the calls into
    clock-bound-shm (`ShmReader::new`, `ShmReader::snapshot`, `ClockErrorBound::now`) are calls to the
    ENVIRONMENT (dictionary: one input, one event each) instead of being interpreted -/
def ctxE (inp : Nat → Value) : Ctx := { Code.ctxWith 0 DictErrors.ext [] inp with fns := clientFns }

rs_register_eqns DictErrors.call DictErrors.method DictErrors.deref DictErrors.mkErrno DictErrors.errFrom

attribute [rs_eval] DictErrors.ext
  DictErrors.nullPtr DictErrors.cptr DictErrors.cstr DictErrors.cstring DictErrors.outPtr DictErrors.heapPtr
  DictErrors.boxValue DictErrors.readerValue DictErrors.intoValue DictErrors.defaultValue DictErrors.errnoValue
  DictErrors.evOpen DictErrors.evSnapshot DictErrors.evNow DictErrors.evWrite DictErrors.evDrop

@[rs_eval] theorem ctxE_fns (inp) : (ctxE inp).fns = clientFns := rfl
@[rs_eval] theorem ctxE_consts (inp) : (ctxE inp).consts = Code.consts := rfl
@[rs_eval] theorem ctxE_constTypes (inp) : (ctxE inp).constTypes = Code.constTypes := rfl
@[rs_eval] theorem ctxE_structs (inp) : (ctxE inp).structs = Code.structs := rfl
@[rs_eval] theorem ctxE_enums (inp) : (ctxE inp).enums = Code.enums := rfl
@[rs_eval] theorem ctxE_enumDiscr (inp) : (ctxE inp).enumDiscr = Code.enumDiscr := rfl
@[rs_eval] theorem ctxE_sizes (inp) : (ctxE inp).sizes = [] := rfl
@[rs_eval] theorem ctxE_inp (inp) : (ctxE inp).inp = inp := rfl
@[rs_eval] theorem ctxE_ext (inp) : (ctxE inp).ext = DictErrors.ext := rfl
@[rs_eval] theorem ctxE_nowNs (inp) : (ctxE inp).nowNs = 0 := rfl

/-- `ClockStatus` values with a symbolic status: the two facts the method dispatch needs -/
theorem userTypeName_status (s : Status) : userTypeName (.enumv (statusName s) []) = some "ClockStatus" := by
  cases s <;> simp [rs_eval]

theorem primMethod_status_into (ctx : Ctx) (s : Status) (st : St) :
    primMethod ctx (.enumv (statusName s) []) "into" [] st = none := by
  cases s <;> simp [rs_eval]

end ClockBound.Rs.ErrorsProof
