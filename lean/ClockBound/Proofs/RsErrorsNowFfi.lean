/-
  Proofs of the translation tie for the two client libraries, part: `clockbound_now` (statements in
  `Properties/CodeTieErrors.lean`).  Method: case split on the model values, then
  `simp [rs_eval, rs_code, <embeddings>]` normalises the interpreter on the generated AST.
-/
import ClockBound.Proofs.RsErrors
set_option linter.unusedSimpArgs false
namespace ClockBound.Rs.ErrorsProof
open ClockBound ClockBound.Rs ClockBound.Generated ClockBound.Rs.DictErrors ClockBound.Rs.EmbedErrors

set_option maxRecDepth 8000 in
set_option maxHeartbeats 4000000 in
theorem ffi_now_snap_err (inp : Nat → Value) (h err : Value) (e : ShmErrorV) (bound : Except ShmErrorV Bound)
    (h0 : inp 0 = snapResValue (.error e)) :
    run (ctxE inp) "ffi_lib::clockbound_now" .unit [heapPtr (ctxValue err h), outPtr "output"]
    = ffiNowOutcome (nowCalls h (.error e) bound) (clientNow (.error e) bound) := by
  cases e <;> simp [rs_eval, rs_code, clientFns, h0, shmErrorValue, clientErrValue, ffiErrValue, ShmErrorV.toClient, clientKindValue, ffiKindValue, ffiKindName, snapResValue, boundResValue, openResValue, resultValue, clientValue, ctxValue, boundValue, recordValue, ctimespecValue, nowCalls, clientNow, clientOpen, firstErr, rustNowOutcome, rustNowValue, ffiNowOutcome, ffiNowValue, ffiStatusValue, ffiStatusName, userTypeName_status, primMethod_status_into]

set_option maxRecDepth 8000 in
set_option maxHeartbeats 4000000 in
theorem ffi_now_bound_err (inp : Nat → Value) (h err : Value) (r : Record) (e : ShmErrorV)
    (h0 : inp 0 = snapResValue (.ok r)) (h1 : inp 1 = boundResValue (.error e)) :
    run (ctxE inp) "ffi_lib::clockbound_now" .unit [heapPtr (ctxValue err h), outPtr "output"]
    = ffiNowOutcome (nowCalls h (.ok r) (.error e)) (clientNow (.ok r) (.error e)) := by
  cases e <;> simp [rs_eval, rs_code, clientFns, h0, h1, shmErrorValue, clientErrValue, ffiErrValue, ShmErrorV.toClient, clientKindValue, ffiKindValue, ffiKindName, snapResValue, boundResValue, openResValue, resultValue, clientValue, ctxValue, boundValue, recordValue, ctimespecValue, nowCalls, clientNow, clientOpen, firstErr, rustNowOutcome, rustNowValue, ffiNowOutcome, ffiNowValue, ffiStatusValue, ffiStatusName, userTypeName_status, primMethod_status_into]

set_option maxRecDepth 8000 in
set_option maxHeartbeats 4000000 in
theorem ffi_now_ok (inp : Nat → Value) (h err : Value) (r : Record) (b : Bound)
    (h0 : inp 0 = snapResValue (.ok r)) (h1 : inp 1 = boundResValue (.ok b)) :
    run (ctxE inp) "ffi_lib::clockbound_now" .unit [heapPtr (ctxValue err h), outPtr "output"]
    = ffiNowOutcome (nowCalls h (.ok r) (.ok b)) (clientNow (.ok r) (.ok b)) := by
  obtain ⟨e, l, s⟩ := b
  cases s <;> simp [rs_eval, rs_code, clientFns, h0, h1, shmErrorValue, clientErrValue, ffiErrValue, ShmErrorV.toClient, clientKindValue, ffiKindValue, ffiKindName, snapResValue, boundResValue, openResValue, resultValue, clientValue, ctxValue, boundValue, recordValue, ctimespecValue, nowCalls, clientNow, clientOpen, firstErr, rustNowOutcome, rustNowValue, ffiNowOutcome, ffiNowValue, ffiStatusValue, ffiStatusName, userTypeName_status, primMethod_status_into, statusName]

theorem ffi_now (inp : Nat → Value) (h err : Value) (snap : Except ShmErrorV Record) (bound : Except ShmErrorV Bound)
    (h0 : inp 0 = snapResValue snap) (h1 : inp 1 = boundResValue bound) :
    run (ctxE inp) "ffi_lib::clockbound_now" .unit [heapPtr (ctxValue err h), outPtr "output"]
    = ffiNowOutcome (nowCalls h snap bound) (clientNow snap bound) := by
  cases snap with
  | error e => exact ffi_now_snap_err inp h err e bound h0
  | ok r =>
    cases bound with
    | error e => exact ffi_now_bound_err inp h err r e h0 h1
    | ok b => exact ffi_now_ok inp h err r b h0 h1

end ClockBound.Rs.ErrorsProof
