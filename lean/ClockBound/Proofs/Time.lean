/-
  Helper lemmas: the nix `TimeSpec` mirror collapses to exact nanosecond arithmetic on normalised
  inputs in range.
-/
import ClockBound.Model.Time
namespace ClockBound
namespace TimeSpec

theorem chk_some {x : Int} (h1 : I64_MIN ≤ x) (h2 : x ≤ I64_MAX) : chk x = some x := by
  simp [chk, inI64, h1, h2]

theorem chk_eq_some {x y : Int} (h : chk x = some y) : y = x ∧ I64_MIN ≤ x ∧ x ≤ I64_MAX := by
  unfold chk inI64 at h
  split at h
  · rename_i hc
    simp at hc
    simp at h
    exact ⟨h.symm, hc.1, hc.2⟩
  · simp at h

theorem lt_iff {a b : TimeSpec} (ha : a.normalized) (hb : b.normalized) :
    a.lt b = true ↔ a.toNs < b.toNs := by
  unfold lt toNs normalized NANOS at *
  split
  · rename_i h; simp; omega
  · rename_i h; simp; omega

theorem le_iff {a b : TimeSpec} (ha : a.normalized) (hb : b.normalized) :
    a.le b = true ↔ a.toNs ≤ b.toNs := by
  unfold le toNs normalized NANOS at *
  split
  · rename_i h; simp; omega
  · rename_i h; simp; omega

/-- seconds range in which `num_nanoseconds` cannot overflow -/
def secOk (t : TimeSpec) : Prop := -9000000000 ≤ t.sec ∧ t.sec ≤ 9000000000

theorem numNanoseconds_eq {t : TimeSpec} (hn : t.normalized) (hs : t.secOk) :
    t.numNanoseconds = some t.toNs := by
  unfold numNanoseconds numSeconds nanosModSec toNs
  unfold normalized NANOS at hn
  unfold secOk at hs
  by_cases hc : t.sec < 0 ∧ t.nsec > 0
  · simp only [hc, and_self, if_true]
    rw [chk_some (by unfold I64_MIN NANOS; omega) (by unfold I64_MAX NANOS; omega)]
    rw [chk_some (by unfold I64_MIN NANOS; omega) (by unfold I64_MAX NANOS; omega)]
    simp only [Option.bind_eq_bind, Option.bind_some]
    rw [chk_some (by unfold I64_MIN NANOS; omega) (by unfold I64_MAX NANOS; omega)]
    congr 1; unfold NANOS; omega
  · simp only [hc, if_false]
    rw [chk_some (by unfold I64_MIN NANOS; omega) (by unfold I64_MAX NANOS; omega)]
    simp only [Option.bind_eq_bind, Option.bind_some]
    rw [chk_some (by unfold I64_MIN NANOS; omega) (by unfold I64_MAX NANOS; omega)]

theorem nanoseconds_spec {n : Int} (h1 : -9223372035000000000 ≤ n) (h2 : n ≤ 9223372035999999999) :
    ∃ t, nanoseconds n = some t ∧ t.toNs = n ∧ t.normalized ∧ t.sec = n / 1000000000 := by
  refine ⟨⟨n / NANOS, n % NANOS⟩, ?_, ?_, ?_, ?_⟩
  · unfold nanoseconds TS_MAX_SECONDS NANOS
    have : -9223372035 ≤ n / 1000000000 ∧ n / 1000000000 ≤ 9223372035 := by omega
    simp [this]
  · unfold toNs NANOS; simp only; omega
  · unfold normalized NANOS; simp only; omega
  · unfold NANOS; rfl

theorem nanoseconds_none_iff {n : Int} :
    nanoseconds n = none ↔ ¬ (-9223372035000000000 ≤ n ∧ n ≤ 9223372035999999999) := by
  unfold nanoseconds TS_MAX_SECONDS NANOS
  simp only []
  by_cases hc : -9223372035 ≤ n / 1000000000 ∧ n / 1000000000 ≤ 9223372035
  · rw [if_pos hc]
    constructor
    · intro h; simp at h
    · intro h; omega
  · rw [if_neg hc]
    constructor
    · intro _; omega
    · intro _; rfl

/-- `num_nanoseconds` is exact whenever the value itself fits an `i64` (normalised input). -/
theorem numNanoseconds_of_toNs {t : TimeSpec} (hn : t.normalized)
    (h1 : I64_MIN ≤ t.toNs) (h2 : t.toNs ≤ I64_MAX) : t.numNanoseconds = some t.toNs := by
  unfold numNanoseconds numSeconds nanosModSec
  unfold toNs I64_MIN NANOS at h1
  unfold toNs I64_MAX NANOS at h2
  unfold toNs
  unfold normalized NANOS at hn
  by_cases hc : t.sec < 0 ∧ t.nsec > 0
  · simp only [hc, and_self, if_true]
    rw [chk_some (by unfold I64_MIN NANOS; omega) (by unfold I64_MAX NANOS; omega)]
    rw [chk_some (by unfold I64_MIN NANOS; omega) (by unfold I64_MAX NANOS; omega)]
    simp only [Option.bind_eq_bind, Option.bind_some]
    rw [chk_some (by unfold I64_MIN NANOS; omega) (by unfold I64_MAX NANOS; omega)]
    congr 1; unfold NANOS; omega
  · simp only [hc, if_false]
    rw [chk_some (by unfold I64_MIN NANOS; omega) (by unfold I64_MAX NANOS; omega)]
    simp only [Option.bind_eq_bind, Option.bind_some]
    rw [chk_some (by unfold I64_MIN NANOS; omega) (by unfold I64_MAX NANOS; omega)]

/-- `a + b` is exact when both operands fit an `i64` and the sum is inside nix's range. -/
theorem add_spec {a b : TimeSpec} (ha : a.normalized) (hb : b.normalized)
    (ha1 : I64_MIN ≤ a.toNs) (ha2 : a.toNs ≤ I64_MAX)
    (hb1 : I64_MIN ≤ b.toNs) (hb2 : b.toNs ≤ I64_MAX)
    (h1 : -9223372035000000000 ≤ a.toNs + b.toNs) (h2 : a.toNs + b.toNs ≤ 9223372035999999999) :
    ∃ t, a.add b = some t ∧ t.toNs = a.toNs + b.toNs ∧ t.normalized := by
  unfold add
  rw [numNanoseconds_of_toNs ha ha1 ha2, numNanoseconds_of_toNs hb hb1 hb2]
  simp only [Option.bind_eq_bind, Option.bind_some]
  rw [chk_some (by unfold I64_MIN; omega) (by unfold I64_MAX; omega)]
  simp only [Option.bind_some]
  obtain ⟨t, ht, hns, hnorm, _⟩ := nanoseconds_spec h1 h2
  exact ⟨t, ht, hns, hnorm⟩

/-- `a - b` is exact when both operands fit an `i64` and the difference is inside nix's range. -/
theorem sub_spec {a b : TimeSpec} (ha : a.normalized) (hb : b.normalized)
    (ha1 : I64_MIN ≤ a.toNs) (ha2 : a.toNs ≤ I64_MAX)
    (hb1 : I64_MIN ≤ b.toNs) (hb2 : b.toNs ≤ I64_MAX)
    (h1 : -9223372035000000000 ≤ a.toNs - b.toNs) (h2 : a.toNs - b.toNs ≤ 9223372035999999999) :
    ∃ t, a.sub b = some t ∧ t.toNs = a.toNs - b.toNs ∧ t.normalized := by
  unfold sub
  rw [numNanoseconds_of_toNs ha ha1 ha2, numNanoseconds_of_toNs hb hb1 hb2]
  simp only [Option.bind_eq_bind, Option.bind_some]
  rw [chk_some (by unfold I64_MIN; omega) (by unfold I64_MAX; omega)]
  simp only [Option.bind_some]
  obtain ⟨t, ht, hns, hnorm, _⟩ := nanoseconds_spec h1 h2
  exact ⟨t, ht, hns, hnorm⟩

end TimeSpec
end ClockBound
