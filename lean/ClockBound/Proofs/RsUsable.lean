/-
  `ShmWriter::is_usable_segment(path)` (with `ShmReader::new`, `FdGuard::new`, `MmapGuard::new`, `ShmHeader::read`,
  `is_valid` inlined) called from an arbitrary interpreter state: on a missing path, and on a regular file.
-/
import ClockBound.Proofs.RsWriterNewBase
namespace ClockBound.Rs.WriterNewProof
open ClockBound ClockBound.Rs ClockBound.Generated ClockBound.Rs.DictShm ClockBound.Rs.EmbedShm

set_option maxRecDepth 8000 in
set_option maxHeartbeats 8000000 in
theorem usable_call_missing (inp : Nat → Value) (parent : String) (N : Nat) (env : List (String × Value))
    (lg : List Value) (p : Nat)
    (h0 : inp p = .int .infer (-1)) (h1 : inp (p + 1) = .int .infer 2) :
    callDecl (N + 120) (nctx inp) Code.fn_ShmWriter__is_usable_segment .unit [.ext "Path" [.str "shm", .str parent]]
      { env := env, log := lg, pos := p }
    = .val (.tuple [.enumv "Err" [shmErrValue (.sys ENOENT .open_)], .unit])
        { env := env,
          log := lg ++ [evSys "open" [.ext "ptr:c_char" [.str "path"], .ext "libc" [.str "O_RDONLY"]] (.int .i32 (-1)),
                        evSys "errno" [] (.int .i32 2)],
          pos := p + 2 } := by
  simp (config := { maxSteps := 8000000 }) [rs_eval, rs_code, Nat.add_assoc, h0, h1, shmErrValue, Origin.text, ENOENT,
    errnoValue]

set_option maxRecDepth 8000 in
set_option maxHeartbeats 8000000 in
/-- a file shorter than a header: `read` returns fewer than 16 bytes -/
theorem usable_call_short (inp : Nat → Value) (parent : String) (fd : Nat) (hfd : fd ≤ 2147483647)
    (ret : Int) (hr0 : 0 ≤ ret) (hr1 : ret < 16)
    (N : Nat) (env : List (String × Value)) (lg : List Value) (p : Nat)
    (h0 : inp p = .int .infer fd) (h1 : inp (p + 1) = .int .infer ret) :
    callDecl (N + 120) (nctx inp) Code.fn_ShmWriter__is_usable_segment .unit [.ext "Path" [.str "shm", .str parent]]
      { env := env, log := lg, pos := p }
    = .val (.tuple [.enumv "Err" [shmErrValue .notInit], .unit])
        { env := env, log := lg ++ openEvents2 fd ret, pos := p + 2 } := by
  have hfd' : (fd : Int) ≤ 2147483647 := by omega
  have hfd0 : ¬ ((fd : Int) < 0) := by omega
  have hrn : ¬ (ret < 0) := by omega
  have hw : ret % 18446744073709551616 = ret := by omega
  have hlo : (-9223372036854775808 : Int) ≤ ret := by omega
  have hhi : ret ≤ (9223372036854775807 : Int) := by omega
  simp (config := { maxSteps := 8000000 }) [rs_eval, rs_code, Nat.add_assoc, h0, h1, hfd', hfd0, hrn, hw, hlo, hhi, hr1,
    EmbedShm.sizes, HEADER_SIZE, shmErrValue, openEvents2, evSys]


end ClockBound.Rs.WriterNewProof
