/-
  C15 — proofs about the thread-web model (ClockBound/Model/Threads.lean): reachability invariants,
  the progress measure `mu`, productive threads, rounds.
-/
import ClockBound.Model.Threads
set_option linter.unusedSimpArgs false
set_option linter.unusedVariables false
namespace ClockBound.Threads

/-- states reachable from the initial state by arbitrary schedules (faults included) -/
inductive Reachable : State → Prop
  | init : Reachable init
  | step {s s' : State} {a : Action} : Reachable s → step s a = some s' → Reachable s'

/-- main has already sent Abort to the poller's / writer's channel -/
def MainPc.sentP : MainPc → Bool
  | .bcastP | .joinP | .joinW | .returned => true
  | _ => false
def MainPc.sentW : MainPc → Bool
  | .bcastW | .joinP | .joinW | .returned => true
  | _ => false
/-- the worker's Drop has already sent its notice to main -/
def PollerPc.noticed : PollerPc → Bool
  | .dropping | .done => true
  | _ => false
def WriterPc.noticed : WriterPc → Bool
  | .dropping | .done => true
  | _ => false

/-- the inductive invariant of all reachable states:
    * only main's Abort ever reaches the poller's mailbox;
    * a receiver flag is down exactly when the worker is `done`;
    * a worker past its Drop has its notice in main's queue unless main already left its loop;
    * once main has sent Abort to a worker, the Abort is in that worker's queue or the worker has ended;
    * main joins the writer only after the poller is done, returns only after both are -/
structure Inv (s : State) : Prop where
  qP_abort : ∀ x ∈ s.qP, x = Msg.abort
  rxP_iff : s.rxP = false ↔ s.p = .done
  rxW_iff : s.rxW = false ↔ s.w = .done
  noticeP : s.p.noticed = true → (∃ k, Msg.notice .poller k ∈ s.qM) ∨ s.m ≠ .loop
  noticeW : s.w.noticed = true → (∃ k, Msg.notice .writer k ∈ s.qM) ∨ s.m ≠ .loop
  abortP : s.m.sentP = true → Msg.abort ∈ s.qP ∨ s.p.ended = true
  abortW : s.m.sentW = true → Msg.abort ∈ s.qW ∨ s.w.ended = true
  joinedP : s.m = .joinW ∨ s.m = .returned → s.p = .done
  joinedW : s.m = .returned → s.w = .done

theorem inv_init : Inv init := by
  constructor <;> simp [init, PollerPc.noticed, WriterPc.noticed, MainPc.sentP, MainPc.sentW]


macro "inv_close" : tactic => `(tactic| (constructor <;> simp only [] <;> (try assumption) <;>
  simp_all [Msg.isNotice, MainPc.sentP, MainPc.sentW, PollerPc.noticed, WriterPc.noticed,
    PollerPc.ended, WriterPc.ended, PollerPc.alive, WriterPc.alive, sendTo, MainPc.rxAlive] <;> grind))

theorem inv_main {s s' : State} (h : Inv s) (hs : stepMain s = some s') : Inv s' := by
  obtain ⟨m, p, w, qM, qP, qW, rxP, rxW⟩ := s
  obtain ⟨h1, h2, h3, h4, h5, h6, h7, h8, h9⟩ := h
  unfold stepMain at hs
  cases m <;> simp only [] at hs
  case loop =>
    cases qM with
    | nil => simp at hs
    | cons x rest =>
      simp only [Option.some.injEq] at hs
      subst hs
      cases x <;> inv_close
  case bcast0 => simp at hs
  case bcastP =>
    simp only [Option.some.injEq] at hs
    subst hs
    cases rxW <;> inv_close
  case bcastW =>
    simp only [Option.some.injEq] at hs
    subst hs
    cases rxP <;> inv_close
  case joinP =>
    split at hs
    · simp only [Option.some.injEq] at hs
      subst hs
      inv_close
    · simp at hs
  case joinW =>
    split at hs
    · simp only [Option.some.injEq] at hs
      subst hs
      inv_close
    · simp at hs
  case returned => simp at hs


theorem inv_poller {s s' : State} (h : Inv s) (hs : stepPoller s = some s') : Inv s' := by
  obtain ⟨m, p, w, qM, qP, qW, rxP, rxW⟩ := s
  obtain ⟨h1, h2, h3, h4, h5, h6, h7, h8, h9⟩ := h
  unfold stepPoller at hs
  cases p <;> simp only [] at hs
  case start => simp only [Option.some.injEq] at hs; subst hs; inv_close
  case top => simp only [Option.some.injEq] at hs; subst hs; inv_close
  case query => simp only [Option.some.injEq] at hs; subst hs; inv_close
  case send =>
    cases rxW <;> simp only [if_true, if_false, Bool.false_eq_true, Option.some.injEq] at hs <;> subst hs <;> inv_close
  case wait =>
    cases qP with
    | nil => simp at hs
    | cons x rest =>
      simp only [Option.some.injEq] at hs
      subst hs
      cases x <;> inv_close
  case exiting k =>
    simp only [Option.some.injEq] at hs; subst hs
    cases m <;> inv_close
  case dropping => simp only [Option.some.injEq] at hs; subst hs; inv_close
  case done => simp at hs

theorem inv_writer {s s' : State} (h : Inv s) (hs : stepWriter s = some s') : Inv s' := by
  obtain ⟨m, p, w, qM, qP, qW, rxP, rxW⟩ := s
  obtain ⟨h1, h2, h3, h4, h5, h6, h7, h8, h9⟩ := h
  unfold stepWriter at hs
  cases w <;> simp only [] at hs
  case start => simp only [Option.some.injEq] at hs; subst hs; inv_close
  case opened => simp only [Option.some.injEq] at hs; subst hs; inv_close
  case recv =>
    cases qW with
    | nil => simp at hs
    | cons x rest =>
      simp only [Option.some.injEq] at hs
      subst hs
      cases x <;> inv_close
  case exiting k =>
    simp only [Option.some.injEq] at hs; subst hs
    cases m <;> inv_close
  case dropping => simp only [Option.some.injEq] at hs; subst hs; inv_close
  case done => simp at hs

theorem inv_step {s s' : State} {a : Action} (h : Inv s) (hs : step s a = some s') : Inv s' := by
  cases a with
  | main => exact inv_main h hs
  | poller => exact inv_poller h hs
  | writer => exact inv_writer h hs
  | mainAbort x =>
    obtain ⟨m, p, w, qM, qP, qW, rxP, rxW⟩ := s
    obtain ⟨h1, h2, h3, h4, h5, h6, h7, h8, h9⟩ := h
    cases x <;> simp only [step] at hs <;> split at hs <;> simp only [Option.some.injEq, reduceCtorEq] at hs
    · subst hs; cases rxP <;> inv_close
    · subst hs; cases rxW <;> inv_close
  | pollerTimeout =>
    obtain ⟨m, p, w, qM, qP, qW, rxP, rxW⟩ := s
    obtain ⟨h1, h2, h3, h4, h5, h6, h7, h8, h9⟩ := h
    simp only [step] at hs; split at hs <;> simp only [Option.some.injEq, reduceCtorEq] at hs
    subst hs; inv_close
  | pollerClockFail =>
    obtain ⟨m, p, w, qM, qP, qW, rxP, rxW⟩ := s
    obtain ⟨h1, h2, h3, h4, h5, h6, h7, h8, h9⟩ := h
    simp only [step] at hs; split at hs <;> simp only [Option.some.injEq, reduceCtorEq] at hs
    subst hs; inv_close
  | pollerDie k =>
    obtain ⟨m, p, w, qM, qP, qW, rxP, rxW⟩ := s
    obtain ⟨h1, h2, h3, h4, h5, h6, h7, h8, h9⟩ := h
    simp only [step] at hs; split at hs <;> simp only [Option.some.injEq, reduceCtorEq] at hs
    subst hs; cases p <;> inv_close
  | writerDie k =>
    obtain ⟨m, p, w, qM, qP, qW, rxP, rxW⟩ := s
    obtain ⟨h1, h2, h3, h4, h5, h6, h7, h8, h9⟩ := h
    simp only [step] at hs; split at hs <;> simp only [Option.some.injEq, reduceCtorEq] at hs
    subst hs; cases w <;> inv_close

theorem reachable_inv {s : State} (h : Reachable s) : Inv s := by
  induction h with
  | init => exact inv_init
  | step _ hs ih => exact inv_step ih hs


/-! ### measure

`mu = rankM + rankP + rankW`. Main's rank counts its remaining phases (weight 2 per Abort it still has
to send, because each Abort lengthens a queue) plus the length of its queue while it is still
receiving; a worker's rank counts its remaining steps to `done` (3 for `exiting` because the notice
lengthens main's queue); a live writer additionally has to read its whole queue; a live poller that
has no Abort queued yet is given the constant 10: it may go round its loop any number of times, and
what ends this is main's progress, not its own. -/
def rankM (s : State) : Nat :=
  match s.m with
  | .returned => 0 | .joinW => 1 | .joinP => 2 | .bcastP => 4 | .bcastW => 4 | .bcast0 => 6
  | .loop => 8 + s.qM.length

def rankP (s : State) : Nat :=
  match s.p with
  | .done => 0 | .dropping => 1 | .exiting _ => 3
  | .wait => if Msg.abort ∈ s.qP then 4 else 10
  | .send => if Msg.abort ∈ s.qP then 6 else 10
  | .query => if Msg.abort ∈ s.qP then 7 else 10
  | .top => if Msg.abort ∈ s.qP then 8 else 10
  | .start => if Msg.abort ∈ s.qP then 9 else 10

def rankW (s : State) : Nat :=
  match s.w with
  | .done => 0 | .dropping => 1 | .exiting _ => 3
  | .recv => 4 + s.qW.length | .opened => 5 + s.qW.length | .start => 6 + s.qW.length

def mu (s : State) : Nat := rankM s + rankP s + rankW s

/-- some worker has left its loop for good (pc `exiting`, `dropping` or `done`) -/
def Ended (s : State) : Prop := s.p.ended = true ∨ s.w.ended = true

macro "rank_close" : tactic => `(tactic| (simp_all [mu, rankM, rankP, rankW, Ended, Msg.isNotice, MainPc.sentP, MainPc.sentW, PollerPc.noticed, WriterPc.noticed,
    PollerPc.ended, WriterPc.ended, PollerPc.alive, WriterPc.alive, sendTo, MainPc.rxAlive] <;> grind))

theorem mu_main {s s' : State} (h : Inv s) (hs : stepMain s = some s') : mu s' < mu s := by
  obtain ⟨m, p, w, qM, qP, qW, rxP, rxW⟩ := s
  obtain ⟨h1, h2, h3, h4, h5, h6, h7, h8, h9⟩ := h
  unfold stepMain at hs
  cases m <;> simp only [] at hs
  case loop =>
    cases qM with
    | nil => simp at hs
    | cons x rest =>
      simp only [Option.some.injEq] at hs
      subst hs
      cases x <;> rank_close
  case bcast0 => simp at hs
  case bcastP =>
    simp only [Option.some.injEq] at hs
    subst hs
    cases rxW <;> cases w <;> rank_close
  case bcastW =>
    simp only [Option.some.injEq] at hs
    subst hs
    cases rxP <;> cases p <;> rank_close
  case joinP =>
    split at hs
    · simp only [Option.some.injEq] at hs
      subst hs
      rank_close
    · simp at hs
  case joinW =>
    split at hs
    · simp only [Option.some.injEq] at hs
      subst hs
      rank_close
    · simp at hs
  case returned => simp at hs


/-- the poller is productive: it is dropping its Context, or Abort is waiting in its mailbox -/
def prodP (s : State) : Bool :=
  match s.p with
  | .done => false
  | .exiting _ | .dropping => true
  | _ => decide (Msg.abort ∈ s.qP)

/-- the poller's ordinary step: never increases, strictly decreases when productive -/
theorem mu_poller {s s' : State} (h : Inv s) (he : Ended s) (hs : stepPoller s = some s') :
    mu s' ≤ mu s ∧ (prodP s = true → mu s' < mu s) := by
  obtain ⟨m, p, w, qM, qP, qW, rxP, rxW⟩ := s
  obtain ⟨h1, h2, h3, h4, h5, h6, h7, h8, h9⟩ := h
  unfold stepPoller at hs
  cases p <;> simp only [] at hs
  case start => simp only [Option.some.injEq] at hs; subst hs; simp only [prodP]; rank_close
  case top => simp only [Option.some.injEq] at hs; subst hs; simp only [prodP]; rank_close
  case query => simp only [Option.some.injEq] at hs; subst hs; simp only [prodP]; rank_close
  case send =>
    cases rxW <;> simp only [if_true, if_false, Bool.false_eq_true, Option.some.injEq] at hs <;> subst hs <;> simp only [prodP] <;> cases w <;> rank_close
  case wait =>
    cases qP with
    | nil => simp at hs
    | cons x rest =>
      simp only [Option.some.injEq] at hs
      subst hs
      simp only [prodP]
      cases x <;> rank_close
  case exiting k =>
    simp only [Option.some.injEq] at hs; subst hs
    simp only [prodP]
    cases m <;> rank_close
  case dropping => simp only [Option.some.injEq] at hs; subst hs; simp only [prodP]; rank_close
  case done => simp at hs


def enabledMain (s : State) : Bool :=
  match s.m with
  | .loop => !s.qM.isEmpty
  | .bcast0 | .bcastP | .bcastW => true
  | .joinP => decide (s.p = .done)
  | .joinW => decide (s.w = .done)
  | .returned => false

def enabledWriter (s : State) : Bool :=
  match s.w with
  | .start | .opened | .exiting _ | .dropping => true
  | .recv => !s.qW.isEmpty
  | .done => false

/-- a *productive* thread: it has an enabled ordinary step and every step it can take strictly decreases
    `mu`. Main and the writer are productive whenever they are enabled; the poller only once its
    exit is under way (Abort queued, or already dropping). -/
def productive (s : State) : Thread → Bool
  | .main => enabledMain s
  | .poller => prodP s
  | .writer => enabledWriter s

theorem mu_writer {s s' : State} (h : Inv s) (hs : stepWriter s = some s') : mu s' < mu s := by
  obtain ⟨m, p, w, qM, qP, qW, rxP, rxW⟩ := s
  obtain ⟨h1, h2, h3, h4, h5, h6, h7, h8, h9⟩ := h
  unfold stepWriter at hs
  cases w <;> simp only [] at hs
  case start => simp only [Option.some.injEq] at hs; subst hs; rank_close
  case opened => simp only [Option.some.injEq] at hs; subst hs; rank_close
  case recv =>
    cases qW with
    | nil => simp at hs
    | cons x rest =>
      simp only [Option.some.injEq] at hs
      subst hs
      cases x <;> rank_close
  case exiting k =>
    simp only [Option.some.injEq] at hs; subst hs
    cases m <;> rank_close
  case dropping => simp only [Option.some.injEq] at hs; subst hs; rank_close
  case done => simp at hs

/-- every step from a state in which a worker has ended: the measure does not increase, and it
    strictly decreases if the moving thread is productive -/
theorem mu_step {s s' : State} {a : Action} (h : Inv s) (he : Ended s) (hs : step s a = some s') :
    mu s' ≤ mu s ∧ (productive s a.thread = true → mu s' < mu s) := by
  cases a with
  | main => have := mu_main h hs; exact ⟨Nat.le_of_lt this, fun _ => this⟩
  | poller => exact mu_poller h he hs
  | writer => have := mu_writer h hs; exact ⟨Nat.le_of_lt this, fun _ => this⟩
  | mainAbort x =>
    obtain ⟨m, p, w, qM, qP, qW, rxP, rxW⟩ := s
    obtain ⟨h1, h2, h3, h4, h5, h6, h7, h8, h9⟩ := h
    cases x <;> simp only [step] at hs <;> split at hs <;> simp only [Option.some.injEq, reduceCtorEq] at hs
    · subst hs; cases rxP <;> cases p <;> rank_close
    · subst hs; cases rxW <;> cases w <;> rank_close
  | pollerTimeout =>
    obtain ⟨m, p, w, qM, qP, qW, rxP, rxW⟩ := s
    obtain ⟨h1, h2, h3, h4, h5, h6, h7, h8, h9⟩ := h
    simp only [step] at hs; split at hs <;> simp only [Option.some.injEq, reduceCtorEq] at hs
    subst hs; simp only [Action.thread, productive, prodP]; rank_close
  | pollerClockFail =>
    obtain ⟨m, p, w, qM, qP, qW, rxP, rxW⟩ := s
    obtain ⟨h1, h2, h3, h4, h5, h6, h7, h8, h9⟩ := h
    simp only [step] at hs; split at hs <;> simp only [Option.some.injEq, reduceCtorEq] at hs
    subst hs; simp only [Action.thread, productive, prodP]; rank_close
  | pollerDie k =>
    obtain ⟨m, p, w, qM, qP, qW, rxP, rxW⟩ := s
    obtain ⟨h1, h2, h3, h4, h5, h6, h7, h8, h9⟩ := h
    simp only [step] at hs; split at hs <;> simp only [Option.some.injEq, reduceCtorEq] at hs
    subst hs; cases p <;> rank_close
  | writerDie k =>
    obtain ⟨m, p, w, qM, qP, qW, rxP, rxW⟩ := s
    obtain ⟨h1, h2, h3, h4, h5, h6, h7, h8, h9⟩ := h
    simp only [step] at hs; split at hs <;> simp only [Option.some.injEq, reduceCtorEq] at hs
    subst hs; cases w <;> rank_close


/-- thread `t` has an enabled ordinary (non-fault) step -/
def Enabled (s : State) (t : Thread) : Prop :=
  ∃ a, a.thread = t ∧ a.isDie = false ∧ (step s a).isSome = true

macro "pp_close" : tactic => `(tactic| (simp_all [productive, prodP, enabledMain, enabledWriter, Ended, Msg.isNotice,
    PollerPc.ended, WriterPc.ended, PollerPc.alive, WriterPc.alive, sendTo, MainPc.rxAlive, Action.thread] <;> grind))

theorem productive_enabled {s : State} {t : Thread} (h : productive s t = true) : Enabled s t := by
  obtain ⟨m, p, w, qM, qP, qW, rxP, rxW⟩ := s
  cases t
  case main =>
    cases m
    case bcast0 => exact ⟨.mainAbort .poller, rfl, rfl, by simp [step]⟩
    case loop =>
      cases qM with
      | nil => simp [productive, enabledMain] at h
      | cons x rest => exact ⟨.main, rfl, rfl, by simp [step, stepMain]⟩
    all_goals (refine ⟨.main, ?_⟩; simp_all [productive, enabledMain, step, stepMain, Action.thread, Action.isDie])
  case poller =>
    cases p
    case wait =>
      cases qP with
      | nil => simp [productive, prodP] at h
      | cons x rest => exact ⟨.poller, rfl, rfl, by simp [step, stepPoller]⟩
    case send =>
      refine ⟨.poller, ?_⟩; cases rxW <;> simp [step, stepPoller, Action.thread, Action.isDie]
    all_goals (refine ⟨.poller, ?_⟩; simp_all [productive, prodP, step, stepPoller, Action.thread, Action.isDie])
  case writer =>
    cases w
    case recv =>
      cases qW with
      | nil => simp [productive, enabledWriter] at h
      | cons x rest => exact ⟨.writer, rfl, rfl, by simp [step, stepWriter]⟩
    all_goals (refine ⟨.writer, ?_⟩; simp_all [productive, enabledWriter, step, stepWriter, Action.thread, Action.isDie])

theorem exists_productive {s : State} (h : Inv s) (he : Ended s) (hm : s.m ≠ .returned) :
    ∃ t, productive s t = true := by
  obtain ⟨m, p, w, qM, qP, qW, rxP, rxW⟩ := s
  obtain ⟨h1, h2, h3, h4, h5, h6, h7, h8, h9⟩ := h
  cases m
  case returned => simp at hm
  case bcast0 => exact ⟨.main, rfl⟩
  case bcastP => exact ⟨.main, rfl⟩
  case bcastW => exact ⟨.main, rfl⟩
  case loop =>
    cases qM with
    | cons x rest => exact ⟨.main, rfl⟩
    | nil =>
      cases p <;> cases w <;>
        simp_all [Ended, PollerPc.ended, WriterPc.ended, PollerPc.alive, WriterPc.alive, PollerPc.noticed, WriterPc.noticed]
      all_goals first
        | exact ⟨.poller, rfl⟩
        | exact ⟨.writer, rfl⟩
  case joinP =>
    cases p
    case done => exact ⟨.main, by simp [productive, enabledMain]⟩
    all_goals (refine ⟨.poller, ?_⟩; simp_all [productive, prodP, MainPc.sentP, PollerPc.ended, PollerPc.alive])
  case joinW =>
    cases w
    case done => exact ⟨.main, by simp [productive, enabledMain]⟩
    case recv =>
      refine ⟨.writer, ?_⟩
      cases qW <;> simp_all [productive, enabledWriter, MainPc.sentW, WriterPc.ended, WriterPc.alive]
    all_goals (refine ⟨.writer, ?_⟩; simp_all [productive, enabledWriter])


macro "step_cases" hs:ident : tactic => `(tactic| (
  simp only [step, stepMain, stepPoller, stepWriter] at $hs:ident
  repeat' split at $hs:ident
  all_goals simp only [Option.some.injEq, reduceCtorEq] at $hs:ident
  all_goals subst $hs:ident))

/-- a productive thread stays productive while the other threads move -/
theorem productive_persist {s s' : State} {a : Action} {t : Thread} (hp : productive s t = true)
    (hs : step s a = some s') (hne : a.thread ≠ t) : productive s' t = true := by
  obtain ⟨m, p, w, qM, qP, qW, rxP, rxW⟩ := s
  cases a <;> cases t <;> simp only [Action.thread, ne_eq, not_true_eq_false, reduceCtorEq, not_false_eq_true] at hne
  all_goals cases rxP <;> cases rxW
  all_goals step_cases hs
  all_goals simp_all [productive, prodP, enabledMain, enabledWriter, sendTo, MainPc.rxAlive, List.isEmpty_iff]
  all_goals first
    | (cases p <;> simp_all [List.isEmpty_iff, PollerPc.alive, WriterPc.alive]; done)
    | (cases w <;> simp_all [List.isEmpty_iff, PollerPc.alive, WriterPc.alive]; done)
    | (cases ‹MainPc› <;> simp_all [List.isEmpty_iff, PollerPc.alive, WriterPc.alive]; done)


theorem ended_step {s s' : State} {a : Action} (he : Ended s) (hs : step s a = some s') : Ended s' := by
  obtain ⟨m, p, w, qM, qP, qW, rxP, rxW⟩ := s
  cases a
  all_goals step_cases hs
  all_goals simp_all [Ended, PollerPc.ended, WriterPc.ended, PollerPc.alive, WriterPc.alive]

theorem returned_step {s s' : State} {a : Action} (hm : s.m = .returned) (hs : step s a = some s') :
    s'.m = .returned := by
  obtain ⟨m, p, w, qM, qP, qW, rxP, rxW⟩ := s
  cases a
  all_goals step_cases hs
  all_goals simp_all

theorem run_cons {s s' : State} {a : Action} {rest : List Action} (h : run s (a :: rest) = some s') :
    ∃ s1, step s a = some s1 ∧ run s1 rest = some s' := by
  simp only [run] at h
  cases hs : step s a with
  | none => simp [hs] at h
  | some s1 => exact ⟨s1, rfl, by simpa [hs] using h⟩

theorem run_reachable {s s' : State} {acts : List Action} (h : Reachable s) (hr : run s acts = some s') :
    Reachable s' := by
  induction acts generalizing s with
  | nil => simp [run] at hr; exact hr ▸ h
  | cons a rest ih =>
    obtain ⟨s1, h1, h2⟩ := run_cons hr
    exact ih (Reachable.step h h1) h2

theorem run_inv {s s' : State} {acts : List Action} (h : Inv s) (hr : run s acts = some s') : Inv s' := by
  induction acts generalizing s with
  | nil => simp [run] at hr; exact hr ▸ h
  | cons a rest ih =>
    obtain ⟨s1, h1, h2⟩ := run_cons hr
    exact ih (inv_step h h1) h2

theorem run_ended {s s' : State} {acts : List Action} (h : Ended s) (hr : run s acts = some s') : Ended s' := by
  induction acts generalizing s with
  | nil => simp [run] at hr; exact hr ▸ h
  | cons a rest ih =>
    obtain ⟨s1, h1, h2⟩ := run_cons hr
    exact ih (ended_step h h1) h2

theorem run_returned {s s' : State} {acts : List Action} (h : s.m = .returned) (hr : run s acts = some s') :
    s'.m = .returned := by
  induction acts generalizing s with
  | nil => simp [run] at hr; exact hr ▸ h
  | cons a rest ih =>
    obtain ⟨s1, h1, h2⟩ := run_cons hr
    exact ih (returned_step h h1) h2

theorem run_mu_le {s s' : State} {acts : List Action} (h : Inv s) (he : Ended s) (hr : run s acts = some s') :
    mu s' ≤ mu s := by
  induction acts generalizing s with
  | nil => simp [run] at hr; subst hr; exact Nat.le_refl _
  | cons a rest ih =>
    obtain ⟨s1, h1, h2⟩ := run_cons hr
    exact Nat.le_trans (ih (inv_step h h1) (ended_step he h1) h2) (mu_step h he h1).1

/-- along the schedule `acts` from `s`, thread `t` takes a step, or is at some point (possibly at the
    very end) not enabled: `t` is not continuously enabled without being scheduled -/
def Served (t : Thread) : State → List Action → Prop
  | s, [] => ¬ Enabled s t
  | s, a :: rest => ¬ Enabled s t ∨ a.thread = t ∨ ∃ s', step s a = some s' ∧ Served t s' rest

/-- a round: a finite schedule segment that serves every thread -/
def Round (s : State) (acts : List Action) (s' : State) : Prop :=
  run s acts = some s' ∧ ∀ t, Served t s acts

theorem served_decreases {t : Thread} : ∀ (acts : List Action) (s s' : State), Inv s → Ended s →
    productive s t = true → run s acts = some s' → Served t s acts → mu s' < mu s := by
  intro acts
  induction acts with
  | nil =>
    intro s s' _ _ hp _ hsv
    exact absurd (productive_enabled hp) hsv
  | cons a rest ih =>
    intro s s' h he hp hr hsv
    obtain ⟨s1, h1, h2⟩ := run_cons hr
    have hle := run_mu_le (inv_step h h1) (ended_step he h1) h2
    by_cases hat : a.thread = t
    · have := (mu_step h he h1).2 (hat ▸ hp)
      omega
    · rcases hsv with hsv | hsv | ⟨s2, hs2, hsv⟩
      · exact absurd (productive_enabled hp) hsv
      · exact absurd hsv hat
      · rw [h1] at hs2
        cases hs2
        have := ih s1 s' (inv_step h h1) (ended_step he h1) (productive_persist hp h1 hat) h2 hsv
        have := (mu_step h he h1).1
        omega

theorem round_decreases {s s' : State} {acts : List Action} (h : Inv s) (he : Ended s)
    (hm : s.m ≠ .returned) (hr : Round s acts s') : mu s' < mu s := by
  obtain ⟨t, ht⟩ := exists_productive h he hm
  exact served_decreases acts s s' h he ht hr.1 (hr.2 t)

/-- `n` consecutive rounds -/
inductive Rounds : Nat → State → State → Prop
  | nil (s : State) : Rounds 0 s s
  | cons {n : Nat} {s s1 s2 : State} {acts : List Action} : Round s acts s1 → Rounds n s1 s2 → Rounds (n + 1) s s2

theorem mu_zero {s : State} (h : mu s = 0) : s.m = .returned := by
  obtain ⟨m, p, w, qM, qP, qW, rxP, rxW⟩ := s
  cases m <;> simp_all [mu, rankM] <;> omega

theorem rounds_returned {n : Nat} {s s' : State} (hr : Rounds n s s') : s.m = .returned → s'.m = .returned := by
  induction hr with
  | nil s => exact id
  | cons hround _ ih => intro hm; exact ih (run_returned hm hround.1)

theorem rounds_exit {n : Nat} {s s' : State} (hr : Rounds n s s') : Inv s → Ended s → mu s ≤ n →
    s'.m = .returned := by
  induction hr with
  | nil s => intro _ _ hn; exact mu_zero (by omega)
  | @cons n s s1 s2 acts hround hrest ih =>
    intro h he hn
    by_cases hm : s.m = .returned
    · exact rounds_returned hrest (run_returned hm hround.1)
    · have := round_decreases h he hm hround
      exact ih (run_inv h hround.1) (run_ended he hround.1) (by omega)


/-! ### executable `enabled`, explicit bound, simple rounds -/


theorem enabled_iff {s : State} {t : Thread} : enabled s t = true ↔ Enabled s t := by
  unfold enabled Enabled
  simp only [List.any_eq_true, Bool.and_eq_true, Bool.not_eq_true', beq_iff_eq]
  constructor
  · rintro ⟨a, _, ⟨h1, h2⟩, h3⟩; exact ⟨a, h1, h2, h3⟩
  · rintro ⟨a, h1, h2, h3⟩
    refine ⟨a, ?_, ⟨h1, h2⟩, h3⟩
    cases a <;> simp [allActions]
    all_goals (rename_i x; cases x <;> simp)

theorem mu_le_bound (s : State) : mu s ≤ 24 + s.qM.length + s.qW.length := by
  obtain ⟨m, p, w, qM, qP, qW, rxP, rxW⟩ := s
  simp only [mu, rankM, rankP, rankW]
  cases m <;> cases p <;> cases w <;> simp only [] <;> (repeat' split) <;> omega

/-- the simple reading of a round: every thread that has an enabled step at the START of the segment
    takes at least one step in it -/
def Round₀ (s : State) (acts : List Action) (s' : State) : Prop :=
  run s acts = some s' ∧ ∀ t, Enabled s t → ∃ a ∈ acts, a.thread = t

theorem served_of_scheduled {t : Thread} : ∀ (acts : List Action) (s s' : State), run s acts = some s' →
    (Enabled s t → ∃ a ∈ acts, a.thread = t) → Served t s acts := by
  intro acts
  induction acts with
  | nil => intro s s' _ h he; obtain ⟨a, ha, _⟩ := h he; cases ha
  | cons a rest ih =>
    intro s s' hr h
    obtain ⟨s1, h1, h2⟩ := run_cons hr
    by_cases he : Enabled s t
    · by_cases hat : a.thread = t
      · exact Or.inr (Or.inl hat)
      · refine Or.inr (Or.inr ⟨s1, h1, ih s1 s' h2 ?_⟩)
        intro _
        obtain ⟨a', ha', hta'⟩ := h he
        rcases List.mem_cons.1 ha' with rfl | hmem
        · exact absurd hta' hat
        · exact ⟨a', hmem, hta'⟩
    · exact Or.inl he

theorem round_of_round₀ {s s' : State} {acts : List Action} (h : Round₀ s acts s') : Round s acts s' :=
  ⟨h.1, fun t => served_of_scheduled acts s s' h.1 (h.2 t)⟩


/-! ### soundness of the log acceptor -/


/-- every configuration of the list is a reachable model state -/
def AllR (l : List Cfg) : Prop := ∀ c ∈ l, Reachable c.s

theorem allR_nil : AllR [] := by intro c h; cases h

theorem allR_append {a b : List Cfg} (ha : AllR a) (hb : AllR b) : AllR (a ++ b) := by
  intro c h
  rcases List.mem_append.1 h with h | h
  · exact ha c h
  · exact hb c h

theorem allR_filterMap_step {c : Cfg} (hc : Reachable c.s) (acts : List Action) (f : State → Cfg)
    (hf : ∀ s', (f s').s = s') :
    AllR (acts.filterMap fun a => (step c.s a).map f) := by
  intro c' h
  obtain ⟨a, _, ha⟩ := List.mem_filterMap.1 h
  cases hs : step c.s a with
  | none => simp [hs] at ha
  | some s' =>
    simp [hs] at ha
    subst ha
    rw [hf]
    exact Reachable.step hc hs

theorem allR_hiddenSucc {c : Cfg} (hc : Reachable c.s) : AllR (hiddenSucc c) := by
  unfold hiddenSucc
  simp only []
  exact allR_append (allR_append
    (allR_filterMap_step hc _ (fun s' => { c with s := s' }) (fun _ => rfl))
    (allR_filterMap_step hc _ (fun s' => { c with s := s', hP := false }) (fun _ => rfl)))
    (allR_filterMap_step hc _ (fun s' => { c with s := s', hW := false }) (fun _ => rfl))

theorem allR_flatMap_hidden {l : List Cfg} (h : AllR l) : AllR (l.flatMap hiddenSucc) := by
  intro c hc
  obtain ⟨c0, h0, h1⟩ := List.mem_flatMap.1 hc
  exact allR_hiddenSucc (h c0 h0) c h1

theorem allR_insertNew : ∀ (xs acc : List Cfg), AllR acc → AllR xs →
    AllR (insertNew acc xs).1 ∧ AllR (insertNew acc xs).2 := by
  intro xs
  induction xs with
  | nil => intro acc ha _; exact ⟨ha, allR_nil⟩
  | cons x rest ih =>
    intro acc ha hx
    have hrest : AllR rest := fun c h => hx c (List.mem_cons_of_mem _ h)
    have hxr : Reachable x.s := hx x (List.mem_cons_self ..)
    unfold insertNew
    split
    · exact ih acc ha hrest
    · have := ih (acc ++ [x]) (allR_append ha (by intro c h; simp at h; subst h; exact hxr)) hrest
      refine ⟨this.1, ?_⟩
      intro c h
      rcases List.mem_cons.1 h with rfl | h
      · exact hxr
      · exact this.2 c h

theorem allR_closure : ∀ (fuel : Nat) (seen frontier : List Cfg), AllR seen → AllR frontier →
    AllR (closure fuel seen frontier) := by
  intro fuel
  induction fuel with
  | zero => intro seen frontier hs _; simpa [closure] using hs
  | succ n ih =>
    intro seen frontier hs hf
    cases frontier with
    | nil => simpa [closure] using hs
    | cons x rest =>
      simp only [closure]
      have := allR_insertNew _ seen hs (allR_flatMap_hidden hf)
      exact ih _ _ this.1 this.2

theorem allR_close {cs : List Cfg} (h : AllR cs) : AllR (close cs) := by
  unfold close
  have := allR_insertNew cs [] allR_nil h
  exact allR_closure _ _ _ this.1 this.2

theorem reachable_map_step {c c' : Cfg} {a : Action} {f : State → Cfg} (hf : ∀ s', (f s').s = s')
    (hc : Reachable c.s) (h : (step c.s a).map f = some c') : Reachable c'.s := by
  cases hs : step c.s a with
  | none => simp [hs] at h
  | some s' =>
    simp [hs] at h
    subst h
    rw [hf]
    exact Reachable.step hc hs

theorem reachable_applyEvent {e : Event} {c c' : Cfg} (hc : Reachable c.s) (h : applyEvent e c = some c') :
    Reachable c'.s := by
  unfold applyEvent at h
  cases e <;> simp only [] at h <;> split at h
  case visitP.isTrue => simp only [Option.some.injEq] at h; subst h; exact hc
  case visitW.isTrue => simp only [Option.some.injEq] at h; subst h; exact hc
  case faultP.isTrue => exact reachable_map_step (fun _ => rfl) hc h
  case faultW.isTrue => exact reachable_map_step (fun _ => rfl) hc h
  case crashP.isTrue => exact reachable_map_step (fun _ => rfl) hc h
  case crashW.isTrue => exact reachable_map_step (fun _ => rfl) hc h
  case returned.isTrue => exact reachable_map_step (fun _ => rfl) hc h
  all_goals cases h

theorem allR_replayFrom : ∀ (log : List Event) (cs : List Cfg) (i : Nat) (out : List Cfg), AllR cs →
    replayFrom cs i log = .ok out → AllR out := by
  intro log
  induction log with
  | nil =>
    intro cs i out h hr
    simp only [replayFrom, Except.ok.injEq] at hr
    subst hr
    exact allR_close h
  | cons e rest ih =>
    intro cs i out h hr
    simp only [replayFrom] at hr
    split at hr
    · cases hr
    · rename_i cs' hne
      refine ih _ (i + 1) out ?_ hr
      intro c' hc'
      obtain ⟨c, hc, hap⟩ := List.mem_filterMap.1 hc'
      exact reachable_applyEvent (allR_close h c hc) hap

/-- soundness of the acceptor: every configuration compatible with an accepted log is a reachable
    state of the model -/
theorem replay_reachable {log : List Event} {cs : List Cfg} (h : replay log = .ok cs) : AllR cs :=
  allR_replayFrom log _ 0 cs (by intro c hc; simp at hc; subst hc; exact Reachable.init) h


/-- `n` consecutive rounds in the simple reading -/
inductive Rounds₀ : Nat → State → State → Prop
  | nil (s : State) : Rounds₀ 0 s s
  | cons {n : Nat} {s s1 s2 : State} {acts : List Action} : Round₀ s acts s1 → Rounds₀ n s1 s2 → Rounds₀ (n + 1) s s2

theorem rounds_of_rounds₀ {n : Nat} {s s' : State} (h : Rounds₀ n s s') : Rounds n s s' := by
  induction h with
  | nil s => exact Rounds.nil s
  | cons hr _ ih => exact Rounds.cons (round_of_round₀ hr) ih

theorem rounds_reachable {n : Nat} {s s' : State} (h : Rounds n s s') : Reachable s → Reachable s' := by
  induction h with
  | nil s => exact id
  | cons hr _ ih => intro h; exact ih (run_reachable h hr.1)

end ClockBound.Threads
