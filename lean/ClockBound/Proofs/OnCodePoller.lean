/-
  Bridging lemmas for `Properties/OnCodePoller.lean`: from the event log of the interpreted poller loop to the
  objects the oracles of C12 (daemon half) and C13 speak about — the messages sent, the observation codes of the
  harness (`PollAction.obs`), the per-iteration chunks of the log.
-/
import ClockBound.Properties.CodeTiePoller
import ClockBound.Properties.C12d
import ClockBound.Properties.C13
namespace ClockBound.OnCode
open ClockBound ClockBound.Rs ClockBound.Generated ClockBound.Rs.DictPoller

/-- the message of a `send` event -/
def sentMsg : Value → Option Value
  | .ext "send" [_, m] => some m
  | _ => none

/-- the messages sent, in order, according to an event log -/
def sentOf (l : List Value) : List Value := l.filterMap sentMsg

/-- what the harness observes of an event (`PollAction.obs` of `Model/Poller.lean`): the clock id of a
    `clock_gettime` (6 = MONOTONIC_COARSE), 1 for an `Instant::now()` (CLOCK_MONOTONIC), −1 the query, −2 the send,
    −3 the wait; the sysfs read is not observed -/
def obsOf : Value → Option Int
  | .ext "clock_gettime_safe" [.int _ id, _] => some id
  | .ext "blocking_query_uds" _ => some (-1)
  | .ext "Instant::now" _ => some 1
  | .ext "send" _ => some (-2)
  | .ext "recv_timeout" _ => some (-3)
  | _ => none

/-- the observation log of a list of events -/
def obsLogOf (l : List Value) : List Int := l.filterMap obsOf

def isWait : Value → Bool
  | .ext "recv_timeout" _ => true
  | _ => false

/-- an event log cut after every wait on the mailbox: one chunk per loop iteration -/
def chunksOf : List Value → List (List Value)
  | [] => []
  | v :: rest =>
    if isWait v then [v] :: chunksOf rest
    else match chunksOf rest with
      | [] => [[v]]
      | c :: cs => (v :: c) :: cs

/-- the message of a `send` event of the model's trace -/
def sendOfEv : PollEv → Option PollMsg
  | .send m => some m
  | _ => none

theorem sentMsg_ev (e : IterEnv) (ev : PollEv) :
    sentMsg (pollEvValue e ev) = (sendOfEv ev).map pollMsgValue := by
  cases ev <;> rfl

theorem obsOf_ev (e : IterEnv) (ev : PollEv) : obsOf (pollEvValue e ev) = ev.action.obs := by
  cases ev <;> rfl

theorem isWait_wait (e : IterEnv) : isWait (pollEvValue e .wait) = true := rfl

theorem isWait_of_ne (e : IterEnv) (ev : PollEv) (h : ev ≠ .wait) : isWait (pollEvValue e ev) = false := by
  cases ev <;> first | rfl | exact absurd rfl h

theorem sentOf_trace (e : IterEnv) (tr : List PollEv) :
    sentOf (tr.map (pollEvValue e))
    = (tr.filterMap sendOfEv).map pollMsgValue := by
  induction tr with
  | nil => rfl
  | cons ev tr ih =>
    simp only [sentOf, List.map_cons, List.filterMap_cons, sentMsg_ev] at ih ⊢
    cases ev <;> simp_all [sendOfEv]

/-- the messages sent in the trace are exactly the message of `pollStep` (none if it panics); as
    `C12d.trace_send_is_step_msg`, for the named projection `sendOfEv` -/
theorem trace_sendOf (s : PollerState) (coarse : TimeSpec) (reply : ReplyKind)
    (tReply tGrace : Int) (phc : Option PhcCfg) :
    (pollTrace s coarse reply tReply tGrace phc).filterMap sendOfEv
      = if (pollStep s coarse reply tReply tGrace phc).2 = .panic then []
        else [(pollStep s coarse reply tReply tGrace phc).2] := by
  unfold pollTrace pollStep
  cases reply with
  | none => simp only [List.filterMap, sendOfEv]; cases s.withinGrace tGrace <;> simp
  | other => simp only [List.filterMap, sendOfEv]; cases s.withinGrace tGrace <;> simp
  | tracking t =>
    cases phc with
    | none => simp [List.filterMap, sendOfEv]
    | some cfg =>
      by_cases hm : cfg.refid = t.refid
      · cases hr : cfg.file.read with
        | none => simp [hm, hr, List.filterMap, sendOfEv]
        | some o =>
          cases o with
          | none =>
            simp only [hm, hr, if_true, List.filterMap, sendOfEv]
            cases PollerState.withinGrace ⟨tReply⟩ tGrace <;> simp
          | some v => simp [hm, hr, List.filterMap, sendOfEv]
      · simp [hm, List.filterMap, sendOfEv]

theorem obsLogOf_trace (e : IterEnv) (tr : List PollEv) :
    obsLogOf (tr.map (pollEvValue e)) = obsLog (tr.map PollEv.action) := by
  induction tr with
  | nil => rfl
  | cons ev tr ih =>
    simp only [obsLogOf, obsLog, List.map_cons, List.filterMap_cons, obsOf_ev] at ih ⊢
    cases h : ev.action.obs <;> simp [ih]

/-- the events of one iteration: its messages and its observation log -/
theorem iter_sent (e : IterEnv) (refid : Option Nat) (s : PollerState) (x : IterIn) :
    sentOf ((x.trace refid s).map (pollEvValue e))
    = if (x.it.step refid s).2 = .panic then [] else [pollMsgValue (x.it.step refid s).2] := by
  rw [sentOf_trace]
  unfold IterIn.trace PollIter.step
  rw [trace_sendOf]
  split <;> rfl

theorem iter_obs (e : IterEnv) (refid : Option Nat) (s : PollerState) (x : IterIn) :
    obsLogOf ((x.trace refid s).map (pollEvValue e)) = obsLog (x.it.actions refid) := by
  rw [obsLogOf_trace]
  unfold IterIn.trace PollIter.actions
  rw [C12d.trace_actions]

theorem sentOf_append (a b : List Value) : sentOf (a ++ b) = sentOf a ++ sentOf b := by
  simp [sentOf, List.filterMap_append]

/-- a run that does not panic: the messages in its log are the model's `Poller.runFrom`, none is `panic` -/
theorem pollRun_sent (refid : Option Nat) : ∀ (xs : List IterIn) (s s' : PollerState) (l : List Value),
    pollRun refid s xs = some (s', l) →
    sentOf l = (Poller.runFrom refid s (xs.map IterIn.it)).map pollMsgValue ∧
    PollMsg.panic ∉ Poller.runFrom refid s (xs.map IterIn.it) := by
  intro xs
  induction xs with
  | nil =>
    intro s s' l h
    simp [pollRun] at h
    obtain ⟨-, rfl⟩ := h
    simp [sentOf, Poller.runFrom]
  | cons x xs ih =>
    intro s s' l h
    simp only [pollRun] at h
    by_cases hp : (x.it.step refid s).2 = .panic
    · simp [hp] at h
    · simp only [hp, if_false] at h
      cases hr : pollRun refid (x.it.step refid s).1 xs with
      | none => rw [hr] at h; simp at h
      | some p =>
        obtain ⟨s2, l2⟩ := p
        rw [hr] at h
        simp at h
        obtain ⟨-, rfl⟩ := h
        obtain ⟨ih1, ih2⟩ := ih _ _ _ hr
        simp only [List.map_cons, Poller.runFrom, hp, if_false, sentOf_append, iter_sent, ih1]
        refine ⟨rfl, ?_⟩
        simp only [List.mem_cons, not_or]
        exact ⟨fun h => hp h.symm, ih2⟩

theorem logsFrom_length_of_no_panic (refid : Option Nat) : ∀ (its : List PollIter) (s : PollerState),
    PollMsg.panic ∉ Poller.runFrom refid s its → (Poller.logsFrom refid s its).length = its.length := by
  intro its
  induction its with
  | nil => intro _ _; rfl
  | cons it rest ih =>
    intro s h
    simp only [Poller.runFrom] at h
    by_cases hp : (it.step refid s).2 = .panic
    · simp [hp] at h
    · simp only [hp, if_false, List.mem_cons, not_or] at h
      simp only [Poller.logsFrom, hp, if_false, List.length_cons, ih _ h.2]

/-! ### chunks -/

theorem chunksOf_append_wait (pre : List Value) (w : Value) (rest : List Value)
    (hpre : ∀ v ∈ pre, isWait v = false) (hw : isWait w = true) :
    chunksOf (pre ++ w :: rest) = (pre ++ [w]) :: chunksOf rest := by
  induction pre with
  | nil => simp [chunksOf, hw]
  | cons v pre ih =>
    have hv := hpre v (List.mem_cons_self ..)
    have := ih (fun u hu => hpre u (List.mem_cons_of_mem _ hu))
    simp only [List.cons_append, chunksOf, hv, Bool.false_eq_true, if_false, this]

/-- an iteration that does not panic ends with its (only) wait -/
theorem trace_ends_with_wait (s : PollerState) (coarse : TimeSpec) (reply : ReplyKind) (tReply tGrace : Int)
    (phc : Option PhcCfg) (hp : (pollStep s coarse reply tReply tGrace phc).2 ≠ .panic) :
    ∃ pre, pollTrace s coarse reply tReply tGrace phc = pre ++ [.wait] ∧ ∀ ev ∈ pre, ev ≠ PollEv.wait := by
  unfold pollTrace
  unfold pollStep at hp
  cases reply with
  | none => exact ⟨[_, _, _, _], rfl, by simp⟩
  | other => exact ⟨[_, _, _, _], rfl, by simp⟩
  | tracking t =>
    cases phc with
    | none => exact ⟨[.readMonoCoarse coarse, .query (.tracking t), .readMono tReply, .send (.data t 0 coarse)], rfl, by simp⟩
    | some cfg =>
      by_cases hm : cfg.refid = t.refid
      · cases hr : cfg.file.read with
        | none => simp [hm, hr] at hp
        | some o =>
          cases o with
          | none =>
            refine ⟨[.readMonoCoarse coarse, .query (.tracking t), .readMono tReply, .readPhc cfg.file, .readMono tGrace,
              .send (if PollerState.withinGrace ⟨tReply⟩ tGrace then .phcGrace else .phcFail)], ?_, by simp⟩
            simp [hm, hr]
          | some v =>
            refine ⟨[.readMonoCoarse coarse, .query (.tracking t), .readMono tReply, .readPhc cfg.file,
              .send (.data t v coarse)], ?_, by simp⟩
            simp [hm, hr]
      · refine ⟨[.readMonoCoarse coarse, .query (.tracking t), .readMono tReply, .send (.data t 0 coarse)], ?_, by simp⟩
        simp [hm]

theorem iter_chunk (e : IterEnv) (refid : Option Nat) (s : PollerState) (x : IterIn)
    (hp : (x.it.step refid s).2 ≠ .panic) (rest : List Value) :
    chunksOf ((x.trace refid s).map (pollEvValue e) ++ rest)
    = (x.trace refid s).map (pollEvValue e) :: chunksOf rest := by
  obtain ⟨pre, htr, hpre⟩ := trace_ends_with_wait s x.it.asOf x.it.reply x.it.tReply x.it.tGrace (x.it.phc refid) hp
  unfold IterIn.trace
  rw [htr, List.map_append, List.append_assoc]
  simp only [List.map_cons, List.map_nil, List.cons_append, List.nil_append]
  have hpre' : ∀ v ∈ pre.map (pollEvValue e), isWait v = false := by
    intro v hv
    obtain ⟨ev, hev, rfl⟩ := List.mem_map.1 hv
    exact isWait_of_ne _ ev (hpre ev hev)
  rw [chunksOf_append_wait _ _ _ hpre' (isWait_wait _)]

/-- a run that does not panic: cut after every wait, its log is one chunk per iteration, whose observation
    logs are the model's `Poller.logsFrom` -/
theorem pollRun_chunks (refid : Option Nat) : ∀ (xs : List IterIn) (s s' : PollerState) (l : List Value),
    pollRun refid s xs = some (s', l) →
    (chunksOf l).map obsLogOf = Poller.logsFrom refid s (xs.map IterIn.it) := by
  intro xs
  induction xs with
  | nil =>
    intro s s' l h
    simp [pollRun] at h
    obtain ⟨-, rfl⟩ := h
    rfl
  | cons x xs ih =>
    intro s s' l h
    simp only [pollRun] at h
    by_cases hp : (x.it.step refid s).2 = .panic
    · simp [hp] at h
    · simp only [hp, if_false] at h
      cases hr : pollRun refid (x.it.step refid s).1 xs with
      | none => rw [hr] at h; simp at h
      | some p =>
        obtain ⟨s2, l2⟩ := p
        rw [hr] at h
        simp at h
        obtain ⟨-, rfl⟩ := h
        rw [iter_chunk x.env refid s x hp]
        simp only [List.map_cons, Poller.logsFrom, hp, if_false, iter_obs, ih _ _ _ hr]

end ClockBound.OnCode
