/-
  Proof of the translation tie for the `--max-drift-rate` conversion (statement in
  `Properties/CodeTieDrift.lean`).
-/
import ClockBound.Proofs.RsLemmas
import ClockBound.Generated.Code
namespace ClockBound.Rs.DriftProof
open ClockBound ClockBound.Rs ClockBound.Generated

set_option maxRecDepth 8000 in
theorem tie (rate : Option Nat) (now : Int) :
    (findLet "max_drift_ppb" Code.fn_main__main.body).map
      (fun e => evalIn (Code.ctx now) "main" "" e [("args", cliValue rate)])
    = some (driftRes ⟨[("args", cliValue rate)], []⟩ (driftPpb rate)) := by
  cases rate with
  | none => simp [rs_eval, chkInt, rs_code, cliValue, driftPpb, driftRes]
  | some r =>
    simp [rs_eval, chkInt, rs_code, cliValue, driftPpb]
    by_cases h : r * 1000 < 4294967296
    · have h' : (r : Int) * 1000 ≤ 4294967295 := by omega
      simp [h, h', driftRes]
    · have h' : ¬ (r : Int) * 1000 ≤ 4294967295 := by omega
      simp [h, h', driftRes]

end ClockBound.Rs.DriftProof
