/-
  Proof of the translation tie for `ClockErrorBound::compute_bound_at` (statement in
  `Properties/CodeTieClient.lean`).

  Method (no reference to positions inside the AST):
  1. `simp [rs_eval, rs_code]` normalises the interpreter on the generated AST into a decision tree
     over the program's own tests;
  2. the model side is abstracted, the tree is split completely (`repeat' split`);
  3. on every leaf, the hypotheses collected on the path decide every test of the model, which is
     evaluated by `simp` and agrees with the leaf.
-/
import ClockBound.Proofs.RsLemmas
import ClockBound.Generated.Code
namespace ClockBound.Rs.ClientProof
open ClockBound ClockBound.Rs ClockBound.Generated

/-- one status at a time (the status decides which arm of the `match` runs) -/
macro "client_tie" : tactic => `(tactic| (
  simp (maxSteps := 400000) [rs_eval, chkInt, rs_code, recordValue, ctimespecValue, statusValue]
  generalize hM : computeBoundAt _ _ _ = M
  simp only [orPanicO]
  repeat' split
  all_goals (subst hM; simp [computeBoundAt, clientStatus, growth, chk, inI64, GRACE, BLUR, I64_MIN,
    I64_MAX, clientOutcome, recordValue, ctimespecValue, statusValue, statusName, *])))

set_option maxRecDepth 8000 in
set_option maxHeartbeats 2000000 in
theorem tie_unknown (as an vs vn bound : Int) (drift res : Nat) (rs rn ms mn now : Int) :
    run (Code.ctx now) "ClockErrorBound::compute_bound_at"
      (recordValue ⟨⟨as, an⟩, ⟨vs, vn⟩, bound, drift, res, .unknown⟩)
      [ctimespecValue ⟨rs, rn⟩, ctimespecValue ⟨ms, mn⟩]
    = clientOutcome ⟨⟨as, an⟩, ⟨vs, vn⟩, bound, drift, res, .unknown⟩
        (computeBoundAt ⟨⟨as, an⟩, ⟨vs, vn⟩, bound, drift, res, .unknown⟩ ⟨rs, rn⟩ ⟨ms, mn⟩) := by
  client_tie

set_option maxRecDepth 8000 in
set_option maxHeartbeats 2000000 in
theorem tie_synchronized (as an vs vn bound : Int) (drift res : Nat) (rs rn ms mn now : Int) :
    run (Code.ctx now) "ClockErrorBound::compute_bound_at"
      (recordValue ⟨⟨as, an⟩, ⟨vs, vn⟩, bound, drift, res, .synchronized⟩)
      [ctimespecValue ⟨rs, rn⟩, ctimespecValue ⟨ms, mn⟩]
    = clientOutcome ⟨⟨as, an⟩, ⟨vs, vn⟩, bound, drift, res, .synchronized⟩
        (computeBoundAt ⟨⟨as, an⟩, ⟨vs, vn⟩, bound, drift, res, .synchronized⟩ ⟨rs, rn⟩ ⟨ms, mn⟩) := by
  client_tie

set_option maxRecDepth 8000 in
set_option maxHeartbeats 2000000 in
theorem tie_freeRunning (as an vs vn bound : Int) (drift res : Nat) (rs rn ms mn now : Int) :
    run (Code.ctx now) "ClockErrorBound::compute_bound_at"
      (recordValue ⟨⟨as, an⟩, ⟨vs, vn⟩, bound, drift, res, .freeRunning⟩)
      [ctimespecValue ⟨rs, rn⟩, ctimespecValue ⟨ms, mn⟩]
    = clientOutcome ⟨⟨as, an⟩, ⟨vs, vn⟩, bound, drift, res, .freeRunning⟩
        (computeBoundAt ⟨⟨as, an⟩, ⟨vs, vn⟩, bound, drift, res, .freeRunning⟩ ⟨rs, rn⟩ ⟨ms, mn⟩) := by
  client_tie

end ClockBound.Rs.ClientProof
