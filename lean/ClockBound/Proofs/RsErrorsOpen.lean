/-
  Proofs of the translation tie for the two client libraries, part: `new_with_path`, `new`, `clockbound_open` (statements in
  `Properties/CodeTieErrors.lean`).  Method: case split on the model values, then
  `simp [rs_eval, rs_code, <embeddings>]` normalises the interpreter on the generated AST.
-/
import ClockBound.Proofs.RsErrors
set_option linter.unusedSimpArgs false
namespace ClockBound.Rs.ErrorsProof
open ClockBound ClockBound.Rs ClockBound.Generated ClockBound.Rs.DictErrors ClockBound.Rs.EmbedErrors

set_option maxRecDepth 8000 in
set_option maxHeartbeats 4000000 in
theorem rust_open_err (inp : Nat → Value) (path : String) (e : ShmErrorV)
    (hs : path.contains (Char.ofNat 0) = false) (h0 : inp 0 = openResValue (.error e)) :
    run (ctxE inp) "ClockBoundClient::new_with_path" .unit [.str path] = rustOpenOutcome path (.error e) := by
  cases e <;> simp [rs_eval, rs_code, clientFns, hs, h0, shmErrorValue, clientErrValue, ffiErrValue, ShmErrorV.toClient, clientKindValue, ffiKindValue, ffiKindName, openResValue, resultValue, clientValue, ctxValue, clientOpen, rustOpenOutcome, ffiOpenOutcome, errArg]

set_option maxRecDepth 8000 in
set_option maxHeartbeats 4000000 in
theorem rust_open_ok (inp : Nat → Value) (path : String) (h : Value)
    (hs : path.contains (Char.ofNat 0) = false) (h0 : inp 0 = openResValue (.ok h)) :
    run (ctxE inp) "ClockBoundClient::new_with_path" .unit [.str path] = rustOpenOutcome path (.ok h) := by
  simp [rs_eval, rs_code, clientFns, hs, h0, shmErrorValue, clientErrValue, ffiErrValue, ShmErrorV.toClient, clientKindValue, ffiKindValue, ffiKindName, openResValue, resultValue, clientValue, ctxValue, clientOpen, rustOpenOutcome, ffiOpenOutcome, errArg]

theorem rust_open (inp : Nat → Value) (path : String) (res : Except ShmErrorV Value)
    (hs : path.contains (Char.ofNat 0) = false) (h0 : inp 0 = openResValue res) :
    run (ctxE inp) "ClockBoundClient::new_with_path" .unit [.str path] = rustOpenOutcome path res := by
  cases res with
  | error e => exact rust_open_err inp path e hs h0
  | ok h => exact rust_open_ok inp path h hs h0

set_option maxRecDepth 8000 in
set_option maxHeartbeats 4000000 in
theorem rust_open_nul (inp : Nat → Value) (path : String) (hs : path.contains (Char.ofNat 0) = true) :
    run (ctxE inp) "ClockBoundClient::new_with_path" .unit [.str path] = .panic := by
  simp [rs_eval, rs_code, clientFns, hs]

set_option maxRecDepth 8000 in
set_option maxHeartbeats 4000000 in
theorem ffi_open_err (inp : Nat → Value) (path : Value) (errNull : Bool) (e : ShmErrorV)
    (h0 : inp 0 = openResValue (.error e)) :
    run (ctxE inp) "ffi_lib::clockbound_open" .unit [cptr path, errArg errNull]
    = ffiOpenOutcome path errNull (.error e) := by
  cases errNull <;> cases e <;> simp [rs_eval, rs_code, clientFns, h0, shmErrorValue, clientErrValue, ffiErrValue, ShmErrorV.toClient, clientKindValue, ffiKindValue, ffiKindName, openResValue, resultValue, clientValue, ctxValue, clientOpen, rustOpenOutcome, ffiOpenOutcome, errArg]

set_option maxRecDepth 8000 in
set_option maxHeartbeats 4000000 in
theorem ffi_open_ok (inp : Nat → Value) (path : Value) (errNull : Bool) (h : Value)
    (h0 : inp 0 = openResValue (.ok h)) :
    run (ctxE inp) "ffi_lib::clockbound_open" .unit [cptr path, errArg errNull]
    = ffiOpenOutcome path errNull (.ok h) := by
  cases errNull <;> simp [rs_eval, rs_code, clientFns, h0, shmErrorValue, clientErrValue, ffiErrValue, ShmErrorV.toClient, clientKindValue, ffiKindValue, ffiKindName, openResValue, resultValue, clientValue, ctxValue, clientOpen, rustOpenOutcome, ffiOpenOutcome, errArg]

theorem ffi_open (inp : Nat → Value) (path : Value) (errNull : Bool) (res : Except ShmErrorV Value)
    (h0 : inp 0 = openResValue res) :
    run (ctxE inp) "ffi_lib::clockbound_open" .unit [cptr path, errArg errNull]
    = ffiOpenOutcome path errNull res := by
  cases res with
  | error e => exact ffi_open_err inp path errNull e h0
  | ok h => exact ffi_open_ok inp path errNull h h0

set_option maxRecDepth 8000 in
set_option maxHeartbeats 4000000 in
theorem ffi_open_null_path (inp : Nat → Value) (errNull : Bool) :
    (run (ctxE inp) "ffi_lib::clockbound_open" .unit [nullPtr, errArg errNull]).isStuck = true := by
  cases errNull <;> simp [rs_eval, rs_code, clientFns, Outcome.isStuck, errArg]

end ClockBound.Rs.ErrorsProof
