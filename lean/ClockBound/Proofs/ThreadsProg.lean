/-
  Proofs for `Properties/ThreadsProg.lean`: the per-thread closed forms of `Model/ThreadsProg.lean` against the
  step functions of `Model/Threads.lean`.
-/
import ClockBound.Model.ThreadsProg
namespace ClockBound.ThreadsProg
open ClockBound.Threads

theorem mainDo_next {s s' : State} {op : MainOp} (h : mainDo s op = some s') :
    mainNext s.m op = some s'.m := by
  obtain ⟨m, p, w, qM, qP, qW, rxP, rxW⟩ := s
  cases op with
  | recv x =>
    simp only [mainDo] at h
    split at h
    · rename_i hc
      obtain ⟨hm, hq⟩ := hc
      subst hm
      cases qM with
      | nil => simp at hq
      | cons y rest =>
        simp only [List.head?_cons, Option.some.injEq] at hq
        subst hq
        simp only [stepMain, Option.some.injEq] at h
        subst h
        simp [mainNext]
    · simp at h
  | abort x =>
    cases x <;> cases m <;> simp [mainDo, step, stepMain] at h <;> subst h <;> simp [mainNext]
  | join x =>
    cases x <;> cases m <;> simp [mainDo, stepMain] at h <;> obtain ⟨_, h⟩ := h <;> subst h <;> simp [mainNext]

theorem mainNexts_prog (ignored : List Msg) (notice : Msg) (first : Worker)
    (hi : ∀ x ∈ ignored, x.isNotice = false) (hn : notice.isNotice = true) :
    mainNexts .loop (mainProg ignored notice first) = some .returned := by
  induction ignored with
  | nil => cases first <;> simp [mainProg, mainNexts, mainNext, hn, other]
  | cons x rest ih =>
    have hx := hi x (by simp)
    have := ih (fun y hy => hi y (by simp [hy]))
    simp only [mainProg, List.map_cons, List.cons_append, mainNexts, mainNext, hx] at this ⊢
    simpa using this

theorem mainRun_prog (s : State) (ignored rest : List Msg) (notice : Msg) (first : Worker)
    (hm : s.m = .loop) (hq : s.qM = ignored ++ notice :: rest)
    (hi : ∀ x ∈ ignored, x.isNotice = false) (hn : notice.isNotice = true)
    (hp : s.p = .done) (hw : s.w = .done) :
    mainRun s (mainProg ignored notice first)
    = some { s with m := .returned, qM := [], qP := sendTo s.rxP s.qP .abort, qW := sendTo s.rxW s.qW .abort } := by
  obtain ⟨m, p, w, qM, qP, qW, rxP, rxW⟩ := s
  dsimp only at hm hq hp hw
  subst hm hq hp hw
  induction ignored with
  | nil =>
    cases first <;> simp [mainProg, mainRun, mainDo, stepMain, step, hn, other]
  | cons x xs ih =>
    have hx := hi x (by simp)
    have := ih (fun y hy => hi y (by simp [hy]))
    simp only [mainProg, List.map_cons, List.cons_append, mainRun, mainDo, stepMain, hx] at this ⊢
    simpa using this

theorem pollerDo_next {s s' : State} {op : PollerOp} (h : pollerDo s op = some s') :
    pollerNext s.p op = some s'.p := by
  obtain ⟨m, p, w, qM, qP, qW, rxP, rxW⟩ := s
  cases op with
  | init => cases p <;> simp [pollerDo, stepPoller] at h <;> subst h <;> simp [pollerNext]
  | clock ok =>
    cases ok <;> cases p <;> simp [pollerDo, stepPoller, step] at h <;> subst h <;> simp [pollerNext]
  | query => cases p <;> simp [pollerDo, stepPoller] at h <;> subst h <;> simp [pollerNext]
  | send ok =>
    cases ok <;> cases p <;> simp [pollerDo, stepPoller] at h <;> obtain ⟨h1, h⟩ := h <;> subst h1 <;>
      simp at h <;> subst h <;> simp [pollerNext]
  | wait x =>
    cases x with
    | none => cases p <;> simp [pollerDo, step] at h <;> obtain ⟨_, h⟩ := h <;> subst h <;> simp [pollerNext]
    | some y =>
      cases p <;> simp [pollerDo] at h
      obtain ⟨hq, h⟩ := h
      cases qP with
      | nil => simp at hq
      | cons z rest =>
        simp only [List.head?_cons, Option.some.injEq] at hq
        subst hq
        simp only [stepPoller, Option.some.injEq] at h
        subst h
        simp [pollerNext]

theorem pollerNexts_append (pc : PollerPc) (a b : List PollerOp) :
    pollerNexts pc (a ++ b) = (pollerNexts pc a).bind fun pc' => pollerNexts pc' b := by
  induction a generalizing pc with
  | nil => rfl
  | cons x xs ih =>
    simp only [List.cons_append, pollerNexts]
    cases pollerNext pc x with
    | none => rfl
    | some pc' => exact ih pc'

theorem pollerNexts_iter (it : PollerIter) (h : it.wait ≠ some .abort) :
    pollerNexts .top it.ops = some .top := by
  obtain ⟨c, w⟩ := it
  cases c <;> cases w <;> simp_all [PollerIter.ops, pollerNexts, pollerNext]

theorem pollerNexts_prog (its : List PollerIter) (e : PollerEnd) (h : ∀ it ∈ its, it.wait ≠ some .abort) :
    pollerNexts .start (pollerProg its e) = some (.exiting e.kind) := by
  simp only [pollerProg, pollerNexts, pollerNext]
  induction its with
  | nil =>
    cases e with
    | abort c => cases c <;> simp [PollerEnd.ops, PollerEnd.kind, pollerNexts, pollerNext]
    | sendFailed => simp [PollerEnd.ops, PollerEnd.kind, pollerNexts, pollerNext]
  | cons it rest ih =>
    simp only [List.flatMap_cons, List.append_assoc]
    rw [pollerNexts_append, pollerNexts_iter it (h it (by simp))]
    exact ih (fun x hx => h x (by simp [hx]))

theorem writerDo_next {s s' : State} {op : WriterOp} (h : writerDo s op = some s') :
    writerNext s.w op = some s'.w := by
  obtain ⟨m, p, w, qM, qP, qW, rxP, rxW⟩ := s
  cases op with
  | open_ ok =>
    cases ok <;> cases w <;> simp [writerDo, stepWriter, step, WriterPc.alive] at h <;> subst h <;> simp [writerNext]
  | init => cases w <;> simp [writerDo, stepWriter] at h <;> subst h <;> simp [writerNext]
  | recv x =>
    cases w <;> simp [writerDo] at h
    obtain ⟨hq, h⟩ := h
    cases qW with
    | nil => simp at hq
    | cons z rest =>
      simp only [List.head?_cons, Option.some.injEq] at hq
      subst hq
      simp only [stepWriter, Option.some.injEq] at h
      subst h
      simp [writerNext]
  | handlerPanic =>
    cases w <;> simp [writerDo, step, WriterPc.alive] at h <;> subst h <;> simp [writerNext]

theorem writerNexts_recvs (handled : List Msg) (rest : List WriterOp) (h : ∀ x ∈ handled, x ≠ .abort) :
    writerNexts .recv (handled.map .recv ++ rest) = writerNexts .recv rest := by
  induction handled with
  | nil => rfl
  | cons x xs ih =>
    have hx := h x (by simp)
    simp only [List.map_cons, List.cons_append, writerNexts, writerNext, hx, if_false]
    exact ih (fun y hy => h y (by simp [hy]))

theorem writerNexts_prog (handled : List Msg) (e : WriterEnd) (h : ∀ x ∈ handled, x ≠ .abort)
    (he : ∀ m, e = .handlerPanic m → m ≠ .abort) :
    writerNexts .start (writerProg handled e) = some (.exiting e.kind) := by
  cases e with
  | openFailed => simp [writerProg, writerNexts, writerNext, WriterEnd.kind]
  | abort =>
    simp only [writerProg, List.cons_append, List.nil_append, writerNexts, writerNext]
    rw [writerNexts_recvs handled _ h]
    simp [writerNexts, writerNext, WriterEnd.kind]
  | handlerPanic m =>
    have hm := he m rfl
    simp only [writerProg, List.cons_append, List.nil_append, writerNexts, writerNext]
    rw [writerNexts_recvs handled _ h]
    simp [writerNexts, writerNext, WriterEnd.kind, hm]

end ClockBound.ThreadsProg
