/-
  Proof of `CodeTieThreads.main_eq` (`thread_manager::run`).  Method: `simp [rs_eval, rs_code]` evaluates the
  function up to its `loop`; `evalWhile_skip` disposes of the `k` ignored messages (one evaluation of the loop body
  on a message whose variant is only known not to be a notice); the loop is unfolded once more on the message that
  stops it (three shapes: `Ok(ThreadTerminate(_))`, `Ok(ThreadPanic(_))`, `Err(_)`), where the call of
  `broadcast_abort` is rewritten by `bcast_eq` (all six iteration orders) instead of being evaluated; the joins follow.
-/
import ClockBound.Proofs.RsThreadsBcast
namespace ClockBound.Rs.ThreadsProof
open ClockBound ClockBound.Rs ClockBound.Generated ClockBound.Rs.DictThreads ClockBound.Rs.EmbedThreads
open ClockBound.Threads

/-- `bcast_eq` for every fuel ≥ 40 (the form `simp` can use: the side condition is arithmetic) -/
theorem bcast_eq' (ks : List Thread) (hks : isOrder ks = true) (ok1 ok2 : Bool) (nowNs : Int) (inp : Nat → Value)
    (pos : Nat) (h1 : inp pos = sendResult ok1 RMsg.abort.value) (h2 : inp (pos + 1) = sendResult ok2 RMsg.abort.value)
    (env : List (String × Value)) (log : List Value) (N : Nat) (hN : 40 ≤ N) :
    callDecl N (Code.ctxWith nowNs DictThreads.ext [] inp) Code.fn_thread_manager__broadcast_abort .unit
      [dispatchValue ks] ⟨env, log, pos⟩
    = .val (.tuple [.unit, .unit]) ⟨env, log ++ (bcastEvs ks ok1 ok2).map MainEv.value, pos + 2⟩ := by
  obtain ⟨M, rfl⟩ := Nat.exists_eq_add_of_le' hN
  exact bcast_eq ks hks ok1 ok2 nowNs inp env log pos M h1 h2

/-- the call of `broadcast_abort`, under a name `simp` does not unfold: `simp` normalises inside continuations
    before they are applied, so it would evaluate the callee on symbolic arguments; `bcastCall_wrap` (used as a
    pre-rewrite) hides the call until its arguments are values and `bcast_eq'` applies -/
def bcastCall (N : Nat) (ctx : Ctx) (s : Value) (a : List Value) (st : St) : Res :=
  callDecl N ctx Code.fn_thread_manager__broadcast_abort s a st

theorem bcastCall_wrap (N : Nat) (ctx : Ctx) (s : Value) (a : List Value) (st : St) :
    callDecl N ctx Code.fn_thread_manager__broadcast_abort s a st = bcastCall N ctx s a st := rfl

/-- what `run` does before its loop: the channel web, and per worker its mailbox and its thread -/
def startEvents (ks : List Thread) (phc : Option (Nat × Value)) (drift : Nat) (nP nW : String) : List Value :=
  [evChannelWeb (.list (allChans.map chanValue)) (.tuple [mailboxValue, dispatchValue ks]),
   evGetMailbox (chanValue .poller) (.enumv "Some" [rxValue (chanValue .poller)]),
   evSpawn (thunkValue "chrony_poller::run" [contextValue .poller ks, phcValue phc]) (handleValue nP),
   evGetMailbox (chanValue .writer) (.enumv "Some" [rxValue (chanValue .writer)]),
   evSpawn (thunkValue "shm_writer::run" [contextValue .writer ks, .int .u32 drift]) (handleValue nW),
   evGetMailbox (chanValue .main) (.enumv "Some" [rxValue (chanValue .main)])]

/-- main's events from the loop on -/
def mainEvs (k : Nat) (pre : Nat → RMsg) (stop : Recv) (ks : List Thread) (ok1 ok2 : Bool) (nP nW : String)
    (okP okW : Bool) : List MainEv :=
  (List.range k).map (fun j => MainEv.recv (.ok (pre j))) ++ [MainEv.recv stop] ++ bcastEvs ks ok1 ok2 ++
    [MainEv.join .poller (handleValue nP) (joinResult okP), MainEv.join .writer (handleValue nW) (joinResult okW)]

set_option maxRecDepth 8000 in
set_option maxHeartbeats 8000000 in
theorem main_tie (ks : List Thread) (hks : isOrder ks = true) (drift : Nat) (phc : Option (Nat × Value))
    (nP nW : String) (k F : Nat) (pre : Nat → RMsg) (hnot : ∀ i, i < k → (pre i).isNotice = false)
    (stop : Recv) (hstops : stop.stops = true) (ok1 ok2 okP okW : Bool) (nowNs : Int) (inp : Nat → Value)
    (h0 : inp 0 = .tuple [mailboxValue, dispatchValue ks])
    (h1 : inp 1 = .enumv "Some" [rxValue (chanValue .poller)])
    (h2 : inp 2 = handleValue nP)
    (h3 : inp 3 = .enumv "Some" [rxValue (chanValue .writer)])
    (h4 : inp 4 = handleValue nW)
    (h5 : inp 5 = .enumv "Some" [rxValue (chanValue .main)])
    (hpre : ∀ i, i < k → inp (6 + i) = (Recv.ok (pre i)).value)
    (hstop : inp (6 + k) = stop.value)
    (hs1 : inp (6 + k + 1) = sendResult ok1 RMsg.abort.value)
    (hs2 : inp (6 + k + 2) = sendResult ok2 RMsg.abort.value)
    (hj1 : inp (6 + k + 3) = joinResult okP)
    (hj2 : inp (6 + k + 4) = joinResult okW) :
    runFuel (F + k + 200) (Code.ctxWith nowNs DictThreads.ext [] inp) "thread_manager::run" .unit
      [.int .u32 drift, phcValue phc]
    = .ok .unit .unit (startEvents ks phc drift nP nW ++
        (mainEvs k pre stop ks ok1 ok2 nP nW okP okW).map MainEv.value) := by
  simp [rs_eval, rs_code, dispatchValue, allChans, handleValue, h0, h1, h2, h3, h4, h5, ↓bcastCall_wrap]
  rw [Nat.add_right_comm F k]
  rw [evalWhile_skip (d := 30) (k := k) (P := fun i => i)
    (E := fun i => (List.range i).map fun j => evRecv (Value.enumv "ChannelId::MainThread" []) (Recv.ok (pre j)).value)]
  case hE => rfl
  case hP => rfl
  case hc =>
    intro i hi N hN
    obtain ⟨M, rfl⟩ := Nat.exists_eq_add_of_le' hN
    simp [rs_eval]
  case hb =>
    intro i hi N hN next
    obtain ⟨M, rfl⟩ := Nat.exists_eq_add_of_le' hN
    have hin := hpre i hi
    obtain ⟨name, args, hv, hne1, hne2⟩ := value_nonNotice (pre i) (hnot i hi)
    simp only [Recv.value, hv] at hin
    simp [rs_eval, rs_code, hin, hne1, hne2, List.range_succ]
    simp [Recv.value, hv, Nat.add_assoc]
  case a => omega
  have hs2' : inp (6 + k + 1 + 1) = sendResult ok2 RMsg.abort.value := hs2
  have hj1' : inp (6 + k + 1 + 2) = joinResult okP := hj1
  have hj2' : inp (6 + k + 1 + 2 + 1) = joinResult okW := hj2
  have hb := bcast_eq' ks hks ok1 ok2 nowNs inp (6 + k + 1) hs1 hs2'
  simp only [dispatchValue, allChans, hashMapValue, chanValue, txValue, List.map, bcastCall_wrap] at hb
  rw [evalWhile_succ]
  rcases stop with m | _
  · cases m <;> simp [Recv.stops, RMsg.isNotice] at hstops
    · simp only [Recv.value, RMsg.value] at hstop
      simp [rs_eval, rs_code, evalFor_cons, evalFor_nil, hstop, ↓bcastCall_wrap, hb, hj1', hj2']
      simp [startEvents, mainEvs, MainEv.value, Recv.value, RMsg.value, thunkValue, contextValue, dispatchValue,
        allChans, handleValue, rs_eval, List.map_append]
    · simp only [Recv.value, RMsg.value] at hstop
      simp [rs_eval, rs_code, evalFor_cons, evalFor_nil, hstop, ↓bcastCall_wrap, hb, hj1', hj2']
      simp [startEvents, mainEvs, MainEv.value, Recv.value, RMsg.value, thunkValue, contextValue, dispatchValue,
        allChans, handleValue, rs_eval, List.map_append]
  · simp only [Recv.value] at hstop
    simp [rs_eval, rs_code, evalFor_cons, evalFor_nil, hstop, ↓bcastCall_wrap, hb, hj1', hj2']
    simp [startEvents, mainEvs, MainEv.value, Recv.value, RMsg.value, thunkValue, contextValue, dispatchValue,
      allChans, handleValue, rs_eval, List.map_append]

end ClockBound.Rs.ThreadsProof
