/-
  Proofs of the translation tie for the two client libraries, part: the error conversions (statements in
  `Properties/CodeTieErrors.lean`).  Method: case split on the model values, then
  `simp [rs_eval, rs_code, <embeddings>]` normalises the interpreter on the generated AST.
-/
import ClockBound.Proofs.RsErrors
set_option linter.unusedSimpArgs false
namespace ClockBound.Rs.ErrorsProof
open ClockBound ClockBound.Rs ClockBound.Generated ClockBound.Rs.DictErrors ClockBound.Rs.EmbedErrors

set_option maxRecDepth 8000 in
set_option maxHeartbeats 4000000 in
theorem client_from (inp : Nat → Value) (e : ShmErrorV) :
    run (ctxE inp) "From<ShmError> for ClockBoundError::from" .unit [shmErrorValue e]
    = .ok (clientErrValue e.toClient) .unit [] := by
  cases e <;> simp [rs_eval, rs_code, clientFns, shmErrorValue, clientErrValue, ffiErrValue, ShmErrorV.toClient, clientKindValue, ffiKindValue, ffiKindName, snapResValue, boundResValue, openResValue, resultValue, clientValue, ctxValue, boundValue, recordValue, ctimespecValue, nowCalls, clientNow, clientOpen, firstErr, rustNowOutcome, rustNowValue, ffiNowOutcome, ffiNowValue, ffiStatusValue, ffiStatusName, userTypeName_status, primMethod_status_into]

set_option maxRecDepth 8000 in
set_option maxHeartbeats 4000000 in
theorem ffi_from (inp : Nat → Value) (e : ShmErrorV) :
    run (ctxE inp) "From<ShmError> for clockbound_err::from" .unit [shmErrorValue e]
    = .ok (ffiErrValue e.toClient) .unit [] := by
  cases e <;> simp [rs_eval, rs_code, clientFns, shmErrorValue, clientErrValue, ffiErrValue, ShmErrorV.toClient, clientKindValue, ffiKindValue, ffiKindName, snapResValue, boundResValue, openResValue, resultValue, clientValue, ctxValue, boundValue, recordValue, ctimespecValue, nowCalls, clientNow, clientOpen, firstErr, rustNowOutcome, rustNowValue, ffiNowOutcome, ffiNowValue, ffiStatusValue, ffiStatusName, userTypeName_status, primMethod_status_into]

end ClockBound.Rs.ErrorsProof
