/-
  `ShmWriter::wipe(path, 72)` and `ShmWriter::mmap_segment_at(path, 72)`, `ShmWriter::segment_size()`: calls from
  an arbitrary interpreter state, every operation succeeding.
-/
import ClockBound.Proofs.RsWriterNewBase
namespace ClockBound.Rs.WriterNewProof
open ClockBound ClockBound.Rs ClockBound.Generated ClockBound.Rs.DictShm ClockBound.Rs.EmbedShm

set_option maxRecDepth 8000 in
set_option maxHeartbeats 8000000 in
/-- `wipe` on a bare file name (parent `""`: no `create_dir_all`) -/
theorem wipe_call_bare (inp : Nat → Value) (N : Nat) (env : List (String × Value)) (lg : List Value) (p : Nat)
    (h0 : inp p = .enumv "Ok" [.ext "File" []]) (h1 : inp (p + 1) = .enumv "Ok" [.tuple []])
    (h2 : inp (p + 2) = .enumv "Ok" [.tuple []]) (h3 : inp (p + 3) = .enumv "Ok" [.tuple []])
    (h4 : inp (p + 4) = .enumv "Ok" [.tuple []]) (h5 : inp (p + 5) = .enumv "Ok" [.tuple []])
    (h6 : inp (p + 6) = .enumv "Ok" [.tuple []]) (h7 : inp (p + 7) = .enumv "Ok" [.int .u64 72])
    (h8 : inp (p + 8) = .enumv "Ok" [.tuple []]) :
    callDecl (N + 60) (nctx inp) Code.fn_ShmWriter__wipe .unit [.ext "Path" [.str "shm", .str ""], .int .usize 72]
      { env := env, log := lg, pos := p }
    = .val (.tuple [.enumv "Ok" [.tuple []], .unit])
        { env := env, log := lg ++ wipeEvents (.ext "Path" [.str "shm", .str ""]) (.ext "Path" [.str "", .str ""]) false,
          pos := p + 9 } := by
  simp (config := { maxSteps := 8000000 }) [rs_eval, rs_code, okUnit, EmbedShm.sizes, chkInt, HEADER_SIZE, RECORD_SIZE,
    Nat.add_assoc, h0, h1, h2, h3, h4, h5, h6, h7, h8, wipeEvents, evFs, callDeclRef]

set_option maxRecDepth 8000 in
set_option maxHeartbeats 8000000 in
/-- `wipe` on a path with a parent directory: `create_dir_all(parent)` first -/
theorem wipe_call_dir (inp : Nat → Value) (parent : String) (hp : parent ≠ "") (N : Nat) (env : List (String × Value))
    (lg : List Value) (p : Nat)
    (hd : inp p = .enumv "Ok" [.tuple []])
    (h0 : inp (p + 1) = .enumv "Ok" [.ext "File" []]) (h1 : inp (p + 2) = .enumv "Ok" [.tuple []])
    (h2 : inp (p + 3) = .enumv "Ok" [.tuple []]) (h3 : inp (p + 4) = .enumv "Ok" [.tuple []])
    (h4 : inp (p + 5) = .enumv "Ok" [.tuple []]) (h5 : inp (p + 6) = .enumv "Ok" [.tuple []])
    (h6 : inp (p + 7) = .enumv "Ok" [.tuple []]) (h7 : inp (p + 8) = .enumv "Ok" [.int .u64 72])
    (h8 : inp (p + 9) = .enumv "Ok" [.tuple []]) :
    callDecl (N + 60) (nctx inp) Code.fn_ShmWriter__wipe .unit [.ext "Path" [.str "shm", .str parent], .int .usize 72]
      { env := env, log := lg, pos := p }
    = .val (.tuple [.enumv "Ok" [.tuple []], .unit])
        { env := env, log := lg ++ wipeEvents (.ext "Path" [.str "shm", .str parent]) (.ext "Path" [.str parent, .str ""]) true,
          pos := p + 10 } := by
  simp (config := { maxSteps := 8000000 }) [rs_eval, rs_code, okUnit, EmbedShm.sizes, chkInt, HEADER_SIZE, RECORD_SIZE,
    Nat.add_assoc, hd, h0, h1, h2, h3, h4, h5, h6, h7, h8, wipeEvents, evFs, hp, callDeclRef]

/-- `wipe`, with or without a parent directory, the answers given as the list `wipeAnswers` -/
theorem wipe_call (inp : Nat → Value) (parent : String) (hasParent : Bool) (hp : hasParent = (parent != ""))
    (N : Nat) (env : List (String × Value)) (lg : List Value) (p : Nat)
    (hw : ∀ i, i < (wipeAnswers hasParent).length → inp (p + i) = (wipeAnswers hasParent).getD i .unit) :
    callDecl (N + 60) (nctx inp) Code.fn_ShmWriter__wipe .unit [.ext "Path" [.str "shm", .str parent], .int .usize 72]
      { env := env, log := lg, pos := p }
    = .val (.tuple [.enumv "Ok" [.tuple []], .unit])
        { env := env,
          log := lg ++ wipeEvents (.ext "Path" [.str "shm", .str parent]) (.ext "Path" [.str parent, .str ""]) hasParent,
          pos := p + (wipeAnswers hasParent).length } := by
  cases hasParent with
  | false =>
    have hpe : parent = "" := by simpa using hp.symm
    subst hpe
    have g : ∀ i, i < 9 → inp (p + i) = (wipeAnswers false).getD i .unit := fun i hi => hw i (by simpa [wipeAnswers] using hi)
    have := wipe_call_bare inp N env lg p (by simpa [wipeAnswers, fileObj] using g 0 (by omega))
      (by simpa [wipeAnswers, okUnit] using g 1 (by omega)) (by simpa [wipeAnswers, okUnit] using g 2 (by omega))
      (by simpa [wipeAnswers, okUnit] using g 3 (by omega)) (by simpa [wipeAnswers, okUnit] using g 4 (by omega))
      (by simpa [wipeAnswers, okUnit] using g 5 (by omega)) (by simpa [wipeAnswers, okUnit] using g 6 (by omega))
      (by simpa [wipeAnswers, SEGMENT_SIZE] using g 7 (by omega)) (by simpa [wipeAnswers, okUnit] using g 8 (by omega))
    simpa [wipeAnswers] using this
  | true =>
    have hpe : parent ≠ "" := by simpa using hp.symm
    have g : ∀ i, i < 10 → inp (p + i) = (wipeAnswers true).getD i .unit := fun i hi => hw i (by simpa [wipeAnswers] using hi)
    have := wipe_call_dir inp parent hpe N env lg p (by simpa [wipeAnswers, okUnit] using g 0 (by omega))
      (by simpa [wipeAnswers, fileObj] using g 1 (by omega))
      (by simpa [wipeAnswers, okUnit] using g 2 (by omega)) (by simpa [wipeAnswers, okUnit] using g 3 (by omega))
      (by simpa [wipeAnswers, okUnit] using g 4 (by omega)) (by simpa [wipeAnswers, okUnit] using g 5 (by omega))
      (by simpa [wipeAnswers, okUnit] using g 6 (by omega)) (by simpa [wipeAnswers, okUnit] using g 7 (by omega))
      (by simpa [wipeAnswers, SEGMENT_SIZE] using g 8 (by omega)) (by simpa [wipeAnswers, okUnit] using g 9 (by omega))
    simpa [wipeAnswers] using this

set_option maxRecDepth 8000 in
set_option maxHeartbeats 8000000 in
/-- `mmap_segment_at(path, 72)`: `nix::fcntl::open` and `mmap` succeed -/
theorem mmap_call (inp : Nat → Value) (parent : String) (fd : Nat) (N : Nat) (env : List (String × Value))
    (lg : List Value) (p : Nat)
    (h0 : inp p = .enumv "Ok" [.int .i32 fd]) (h1 : inp (p + 1) = .enumv "Ok" [.enumv "addr:segment" []]) :
    callDecl (N + 60) (nctx inp) Code.fn_ShmWriter__mmap_segment_at .unit
      [.ext "Path" [.str "shm", .str parent], .int .usize 72] { env := env, log := lg, pos := p }
    = .val (.tuple [.enumv "Ok" [.enumv "addr:segment" []], .unit])
        { env := env, log := lg ++ mapEvents (.ext "Path" [.str "shm", .str parent]) fd, pos := p + 2 } := by
  simp (config := { maxSteps := 8000000 }) [rs_eval, rs_code, Nat.add_assoc, h0, h1, mapEvents, evFs]

set_option maxRecDepth 8000 in
/-- `segment_size()` = 72, no effect -/
theorem segment_size_call (inp : Nat → Value) (N : Nat) (st : St) :
    callDecl (N + 60) (nctx inp) Code.fn_ShmWriter__segment_size .unit [] st
    = .val (.tuple [.int .usize 72, .unit]) st := by
  simp [rs_eval, rs_code, EmbedShm.sizes, chkInt, HEADER_SIZE, RECORD_SIZE]

end ClockBound.Rs.WriterNewProof
