/-
  The writer's entry function `shm_writer::run` in `writerCtx`: `ShmWriter::new` (abstract: `Ok(writer)` or `Err(e)`,
  the latter panics), `ShmUpdater::new` (the regenerated code), then `process_messages`, whose call is rewritten with
  `writer_loop_tie`.
-/
import ClockBound.Proofs.RsThreadsWriter
namespace ClockBound.Rs.ThreadsProof
open ClockBound ClockBound.Rs ClockBound.Generated ClockBound.Rs.DictThreads ClockBound.Rs.EmbedThreads
open ClockBound.Rs.EmbedWorkers ClockBound.Threads

def wloopCall (N : Nat) (ctx : Ctx) (s : Value) (a : List Value) (st : St) : Res :=
  callDecl N ctx Code.fn_shm_writer__process_messages s a st

theorem wloopCall_wrap (N : Nat) (ctx : Ctx) (s : Value) (a : List Value) (st : St) :
    callDecl N ctx Code.fn_shm_writer__process_messages s a st = wloopCall N ctx s a st := rfl

theorem ascribe_contextValue' (ty : String) (c : Thread) (ks : List Thread) :
    ascribe ty (contextValue c ks) = some (contextValue c ks) := rfl

theorem writer_loop_tie' (ks : List Thread) (u : Updater) (k : Nat) (ws : Nat → WStep)
    (hdone : ∀ i, i < k → (ws i).done = true) (hwf : ∀ i, i < k → (ws i).wellFormed = true)
    (e : WEnd) (he : ∀ s, e = .handlerPanic s → s.done = false)
    (nowNs : Int) (inp : Nat → Value) (env : List (String × Value)) (log : List Value) (pos : Nat)
    (hin : inputsAt inp pos (wloopInputs k ws e)) (N : Nat) (hN : k + 100 ≤ N) :
    wloopCall N (writerCtx nowNs inp) .unit [contextValue .writer ks, updaterValue u] ⟨env, log, pos⟩
    = wloopResult e env (log ++ wloopEvents k ws) (pos + (winputsBefore ws k + 1)) := by
  obtain ⟨F, rfl⟩ : ∃ F, N = F + k + 100 := ⟨N - k - 100, by omega⟩
  exact writer_loop_tie ks u k F ws hdone hwf e he nowNs inp env log pos hin

/-- the segment path handed to `ShmWriter::new` -/
def shmPathValue : Value := .ext "Path" [.str "/var/run/clockbound/shm"]

def writerOutcome (e : WEnd) (log : List Value) : Rs.Outcome :=
  match e with
  | .abort => .ok .unit .unit log
  | .handlerPanic _ => .panic

set_option maxRecDepth 8000 in
set_option maxHeartbeats 4000000 in
theorem writer_run_tie (ks : List Thread) (drift : Nat) (k F : Nat) (ws : Nat → WStep)
    (hdone : ∀ i, i < k → (ws i).done = true) (hwf : ∀ i, i < k → (ws i).wellFormed = true)
    (e : WEnd) (he : ∀ s, e = .handlerPanic s → s.done = false) (nowNs : Int) (inp : Nat → Value)
    (hin : inputsAt inp 0 (.enumv "Ok" [.writer] :: wloopInputs k ws e)) :
    runFuel (F + k + 200) (writerCtx nowNs inp) "shm_writer::run" .unit [contextValue .writer ks, .int .u32 drift]
    = writerOutcome e (evOp "ShmWriter::new" [shmPathValue] (.enumv "Ok" [.writer]) :: wloopEvents k ws) := by
  have h0 : inp 0 = .enumv "Ok" [.writer] := hin.1
  have hl : inputsAt inp 1 (wloopInputs k ws e) := hin.2
  have hloop := fun env log N hN =>
    writer_loop_tie' ks (Updater.new drift) k ws hdone hwf e he nowNs inp env log 1 hl N hN
  have e0 : ((0 : Nat) : Int) = 0 := rfl
  simp only [updaterValue, Updater.new, ctimespecValue, e0] at hloop
  simp [rs_eval, rs_code, abstracted, ascribe_contextValue', h0, ↓wloopCall_wrap]
  rw [hloop _ _ _ (by omega)]
  cases e <;> simp [rs_eval, wloopResult, writerOutcome, shmPathValue]

/-- `ShmWriter::new` fails: the thread panics ("Failed to create SHM writer") before it looks at its mailbox -/
theorem writer_run_open_failed (ks : List Thread) (drift : Nat) (F : Nat) (err : Value) (nowNs : Int)
    (inp : Nat → Value) (h0 : inp 0 = .enumv "Err" [err]) :
    runFuel (F + 200) (writerCtx nowNs inp) "shm_writer::run" .unit [contextValue .writer ks, .int .u32 drift]
    = .panic := by
  simp [rs_eval, rs_code, abstracted, ascribe_contextValue', h0]

end ClockBound.Rs.ThreadsProof
