import ClockBound.Model.WriterNewProg
import Mathlib.Tactic.SplitIfs
namespace ClockBound.Proofs
open ClockBound ClockBound.Crash

theorem script_split (f : FileA) : script f = newScript f ++ writeScript := by
  simp [script, newScript, writeScript]

theorem filter_hdrLoads (n : Nat) : (List.replicate n Ev.hdrLoad).filter Ev.isOp = [] := by
  induction n with
  | zero => rfl
  | succ n ih => simp [List.replicate_succ, Ev.isOp, ih]

theorem newOps_script (f : FileA) (hasParent : Bool) :
    (newOps f hasParent).filterMap Op.ev = (newScript f).filter Ev.isOp := by
  unfold newScript newOps
  simp only [List.filter_append, filter_hdrLoads]
  cases hu : f.usable <;> cases hasParent <;> simp [Ev.isOp, Op.ev] <;>
    first | rfl | (split_ifs <;> rfl) | (split_ifs <;> simp [Op.ev, Ev.isOp, List.filter, List.filterMap])

end ClockBound.Proofs
