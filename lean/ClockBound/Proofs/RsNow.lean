/-
  Proofs of the translation tie for `ClockErrorBound::now` (statements in `Properties/CodeTieNow.lean`).
  `now` = two dictionary calls (`clock_gettime_safe`), two `?`, and `compute_bound_at`, which the
  interpreter inlines from the same table: the decision tree is the one of `Proofs/RsClient.lean` below the
  two reads, and the same tactic closes it.
-/
import ClockBound.Proofs.RsLemmas
import ClockBound.Generated.Code
import ClockBound.Rs.EmbedPoller
namespace ClockBound.Rs.NowProof
open ClockBound ClockBound.Rs ClockBound.Generated ClockBound.Rs.DictPoller

attribute [rs_eval] DictPoller.ext DictPoller.instant
  DictPoller.pathBuf DictPoller.dispatchBox DictPoller.receiver DictPoller.clockId DictPoller.okUnit
  DictPoller.instantLo
rs_register_eqns DictPoller.typedMessage DictPoller.path DictPoller.call DictPoller.method
-- the by-reference call rule of the core (`Rs/Interp.lean`, [poller]): only this group's proofs unfold it
rs_register_eqns callDeclRef

/-- the `use`d constants on Linux, from the regenerated table: REALTIME = 0, MONOTONIC = 6 (COARSE) -/
theorem linuxUses_eq :
    linuxUses Code.consts = [("CLOCK_REALTIME", clockId 0), ("CLOCK_MONOTONIC", clockId 6)] := by
  simp [linuxUses, constValue, rs_eval, rs_code]

/-- the context of the group: generated tables + the dictionary with the Linux `use` imports -/
abbrev ctxP (nowNs : Int) (sizes : List (String × Nat)) (inp : Nat → Value) : Ctx :=
  Code.ctxWith nowNs (DictPoller.ext (linuxUses Code.consts)) sizes inp

/-- an `Err` of the first read is returned, after that one read -/
theorem now_err_real (r : Record) (e : Value) (nowNs : Int) (sizes : List (String × Nat)) (inp : Nat → Value)
    (h0 : inp 0 = .enumv "Err" [e]) :
    run (ctxP nowNs sizes inp) "ClockErrorBound::now" (recordValue r) []
    = .ok (.enumv "Err" [e]) (recordValue r) [evClockRead (clockId 0) (.enumv "Err" [e])] := by
  simp only [ctxP, linuxUses_eq]
  simp [rs_eval, rs_code, recordValue, h0]

theorem now_err_mono (r : Record) (real : TimeSpec) (e : Value) (nowNs : Int) (sizes : List (String × Nat))
    (inp : Nat → Value) (h0 : inp 0 = okTimespec real) (h1 : inp 1 = .enumv "Err" [e]) :
    run (ctxP nowNs sizes inp) "ClockErrorBound::now" (recordValue r) []
    = .ok (.enumv "Err" [e]) (recordValue r)
        [evClockRead (clockId 0) (okTimespec real), evClockRead (clockId 6) (.enumv "Err" [e])] := by
  simp only [ctxP, linuxUses_eq]
  simp [rs_eval, rs_code, recordValue, okTimespec, ctimespecValue, h0, h1]

macro "now_tie" : tactic => `(tactic| (
  simp only [ctxP, linuxUses_eq]
  simp (maxSteps := 400000) [rs_eval, chkInt, rs_code, recordValue, ctimespecValue, statusValue,
    okTimespec, *]
  generalize hM : computeBoundAt _ _ _ = M
  simp only [orPanicO]
  repeat' split
  all_goals (subst hM; simp [computeBoundAt, clientStatus, growth, chk, inI64, GRACE, BLUR, I64_MIN,
    I64_MAX, clientOutcome, Outcome.after, recordValue, ctimespecValue, statusValue, statusName, *])))

set_option maxRecDepth 8000 in
set_option maxHeartbeats 2000000 in
theorem now_unknown (as an vs vn bound : Int) (drift res : Nat) (rs rn ms mn nowNs : Int)
    (sizes : List (String × Nat)) (inp : Nat → Value)
    (h0 : inp 0 = okTimespec ⟨rs, rn⟩) (h1 : inp 1 = okTimespec ⟨ms, mn⟩) :
    run (ctxP nowNs sizes inp) "ClockErrorBound::now"
      (recordValue ⟨⟨as, an⟩, ⟨vs, vn⟩, bound, drift, res, .unknown⟩) []
    = (clientOutcome ⟨⟨as, an⟩, ⟨vs, vn⟩, bound, drift, res, .unknown⟩
        (computeBoundAt ⟨⟨as, an⟩, ⟨vs, vn⟩, bound, drift, res, .unknown⟩ ⟨rs, rn⟩ ⟨ms, mn⟩)).after
        [evClockRead (clockId 0) (okTimespec ⟨rs, rn⟩), evClockRead (clockId 6) (okTimespec ⟨ms, mn⟩)] := by
  now_tie

end ClockBound.Rs.NowProof
