/-
  Bridging lemmas for `Properties/OnCodePipeline.lean`: the messages the poller sends, seen as the messages the
  writer thread receives.
-/
import ClockBound.Proofs.OnCodePoller
import ClockBound.Properties.OnCodeDispatch
namespace ClockBound.OnCode
open ClockBound ClockBound.Rs ClockBound.Generated ClockBound.Rs.DictPoller

/-- a message the poller sent, as a message in the writer's mailbox (`panic` is not a message) -/
def toW : PollMsg → Option WMsg
  | .data t p a => some (.data t p a)
  | .nrGrace => some .nrGrace
  | .nr => some .nr
  | .phcGrace => some .phcGrace
  | .phcFail => some .phcFail
  | .panic => none

/-- `Ok(m)`: what `recv()` returns for a message `m` that is in the mailbox -/
def okOf (m : Value) : Value := .enumv "Ok" [m]

theorem toW_recvd (m : PollMsg) (w : WMsg) (h : toW m = some w) : w.recvd = okOf (pollMsgValue m) := by
  cases m <;> simp [toW] at h <;> subst h <;> rfl

theorem toW_toMsg (nowNs : Int) (m : PollMsg) (w : WMsg) (h : toW m = some w) :
    w.toMsg nowNs = m.toWriter nowNs := by
  cases m <;> simp [toW] at h <;> subst h <;> rfl

theorem toW_wf (m : PollMsg) (w : WMsg) (h : toW m = some w) : w.wf = true := by
  cases m <;> simp [toW] at h <;> subst h <;> rfl

theorem toW_some (m : PollMsg) (h : m ≠ .panic) : ∃ w, toW m = some w := by
  cases m <;> first | exact ⟨_, rfl⟩ | exact absurd rfl h

theorem filterMap_toW (nowNs : Int) : ∀ (msgs : List PollMsg), PollMsg.panic ∉ msgs →
    (msgs.filterMap toW).map WMsg.recvd = (msgs.map pollMsgValue).map okOf ∧
    (msgs.filterMap toW).filterMap (WMsg.toMsg nowNs) = msgs.filterMap (PollMsg.toWriter nowNs) ∧
    (∀ w ∈ msgs.filterMap toW, w.wf = true) ∧ (msgs.filterMap toW).length = msgs.length := by
  intro msgs
  induction msgs with
  | nil => intro _; simp
  | cons m msgs ih =>
    intro h
    simp only [List.mem_cons, not_or] at h
    obtain ⟨w, hw⟩ := toW_some m (fun e => h.1 e.symm)
    obtain ⟨i1, i2, i3, i4⟩ := ih h.2
    refine ⟨?_, ?_, ?_, ?_⟩
    · simp only [List.filterMap_cons, hw, List.map_cons, i1, toW_recvd m w hw]
    · simp only [List.filterMap_cons, hw, toW_toMsg nowNs m w hw, i2]
    · intro w' hw'
      simp only [List.filterMap_cons, hw, List.mem_cons] at hw'
      rcases hw' with rfl | hw'
      · exact toW_wf m _ hw
      · exact i3 w' hw'
    · simp only [List.filterMap_cons, hw, List.length_cons, i4]

theorem toWriter_length (nowNs : Int) : ∀ (msgs : List PollMsg), PollMsg.panic ∉ msgs →
    (msgs.filterMap (PollMsg.toWriter nowNs)).length = msgs.length := by
  intro msgs
  induction msgs with
  | nil => intro _; rfl
  | cons m msgs ih =>
    intro h
    simp only [List.mem_cons, not_or] at h
    cases m <;> first
      | exact absurd rfl h.1
      | simp [List.filterMap_cons, PollMsg.toWriter, ih h.2]

/-- no `i64` overflow in the writer thread while it handles what this iteration makes the poller send:
    `as_of.tv_sec + 1000`, and `bound + phc` for the PHC term the poller can attach (0, or the sysfs value) -/
def noOverflow (x : IterIn) : Prop :=
  ∀ t, x.it.reply = .tracking t →
    inI64 (x.it.asOf.sec + 1000) = true ∧ ∀ v, (v = 0 ∨ x.it.file = .ok v) → inI64 (boundF t + v) = true

theorem step_data_inv (s : PollerState) (asOf : TimeSpec) (reply : ReplyKind) (tReply tGrace : Int)
    (refid : Option Nat) (file : PhcFile) (t : Tracking) (p : Int) (a : TimeSpec)
    (h : (pollStep s asOf reply tReply tGrace (refid.map fun r => ⟨r, file⟩)).2 = .data t p a) :
    reply = .tracking t ∧ a = asOf ∧ (p = 0 ∨ file = .ok p) := by
  unfold pollStep at h
  cases reply with
  | none => by_cases hg : s.withinGrace tGrace = true <;> simp [hg] at h
  | other => by_cases hg : s.withinGrace tGrace = true <;> simp [hg] at h
  | tracking t' =>
    cases refid with
    | none =>
      simp only [Option.map_none, PollMsg.data.injEq] at h
      obtain ⟨rfl, rfl, rfl⟩ := h
      exact ⟨rfl, rfl, Or.inl rfl⟩
    | some r =>
      simp only [Option.map_some] at h
      by_cases hm : r = t'.refid
      · simp only [hm, if_true] at h
        cases file with
        | ok v =>
          by_cases hv : inI64 v = true
          · simp only [PhcFile.read, hv, if_true, PollMsg.data.injEq] at h
            obtain ⟨rfl, rfl, rfl⟩ := h
            exact ⟨rfl, rfl, Or.inr rfl⟩
          · simp [PhcFile.read, hv] at h
        | unreadable =>
          by_cases hg : PollerState.withinGrace ⟨tReply⟩ tGrace = true <;> simp [PhcFile.read, hg] at h
        | unparsable => simp [PhcFile.read] at h
      · simp only [hm, if_false, PollMsg.data.injEq] at h
        obtain ⟨rfl, rfl, rfl⟩ := h
        exact ⟨rfl, rfl, Or.inl rfl⟩

theorem runFrom_mem (refid : Option Nat) : ∀ (its : List PollIter) (s : PollerState) (m : PollMsg),
    m ∈ Poller.runFrom refid s its → ∃ it ∈ its, ∃ s', m = (it.step refid s').2 := by
  intro its
  induction its with
  | nil => intro s m h; simp [Poller.runFrom] at h
  | cons it rest ih =>
    intro s m h
    simp only [Poller.runFrom] at h
    by_cases hp : (it.step refid s).2 = .panic
    · simp only [hp, if_true, List.mem_singleton] at h
      exact ⟨it, List.mem_cons_self .., s, by rw [h, hp]⟩
    · simp only [hp, if_false, List.mem_cons] at h
      rcases h with rfl | h
      · exact ⟨it, List.mem_cons_self .., s, rfl⟩
      · obtain ⟨it', hit', s', hm⟩ := ih _ m h
        exact ⟨it', List.mem_cons_of_mem _ hit', s', hm⟩

/-- under `noOverflow` every message of a run is one the updater handles without overflow -/
theorem run_msgs_ok (nowNs : Int) (refid : Option Nat) (xs : List IterIn) (s : PollerState)
    (hnov : ∀ x ∈ xs, noOverflow x) :
    ∀ w ∈ (Poller.runFrom refid s (xs.map IterIn.it)).filterMap (PollMsg.toWriter nowNs), w.ok = true := by
  intro w hw
  obtain ⟨m, hm, hmw⟩ := List.mem_filterMap.1 hw
  obtain ⟨it, hit, s', rfl⟩ := runFrom_mem refid _ s m hm
  obtain ⟨x, hx, rfl⟩ := List.mem_map.1 hit
  cases hstep : (x.it.step refid s').2 with
  | data t p a =>
    rw [hstep] at hmw
    simp only [PollMsg.toWriter, Option.some.injEq] at hmw
    subst hmw
    obtain ⟨hr, ha, hp⟩ := step_data_inv s' x.it.asOf x.it.reply x.it.tReply x.it.tGrace refid x.it.file t p a hstep
    obtain ⟨h1, h2⟩ := hnov x hx t hr
    subst ha
    simp only [Msg.ok, Bool.and_eq_true]
    exact ⟨h2 p hp, h1⟩
  | nrGrace => rw [hstep] at hmw; simp [PollMsg.toWriter] at hmw; subst hmw; rfl
  | nr => rw [hstep] at hmw; simp [PollMsg.toWriter] at hmw; subst hmw; rfl
  | phcGrace => rw [hstep] at hmw; simp [PollMsg.toWriter] at hmw; subst hmw; rfl
  | phcFail => rw [hstep] at hmw; simp [PollMsg.toWriter] at hmw; subst hmw; rfl
  | panic => rw [hstep] at hmw; simp [PollMsg.toWriter] at hmw

end ClockBound.OnCode
