/-
  `ShmReader::snapshot` is `SL.readerProg` (statement in `Properties/CodeTieSeqlock.lean`): the function up
  to its retry loop, the loop in whichever form the generated body has it (`while` with a counter,
  `Proofs/RsSnapWhile.lean`; `for` over a range, `Proofs/RsSnapFor.lean`), and the rest.
-/
import ClockBound.Proofs.RsSnapWhile
import ClockBound.Proofs.RsSnapFor
namespace ClockBound.Rs.SeqlockProof
open ClockBound ClockBound.Rs ClockBound.Generated ClockBound.Rs.DictShm ClockBound.Rs.EmbedShm

set_option hygiene false in
/-- the rest of the proof once the loop has been rewritten to `loopOutG ..` (`hspec` = `loopOutG_spec` for the
    layout at hand): split on what the MODEL's loop returns, finish the function, compare the decision trees -/
local macro "snap_tail " hspec:term : tactic => `(tactic| (
  eval_preLog hpl
  generalize hL : loopOutG _ _ _ _ _ _ _ _ _ = r
  have hs := $hspec _ _ _ _ hL
  clear hL
  simp only [SL.readerProg, readerOutcome]
  rcases hrl : SL.readerLoop snapAnn (typedInp inp) SL.RETRIES 2 (typedInp inp 1) with ⟨accs, _ | ⟨g', cells⟩⟩
  · rw [hrl] at hs
    obtain ⟨st', rfl, h2, h3⟩ := hs
    simp [rs_eval, h2, h3, resultValue, readerValue, wordsValue]
    split_ifs <;> simp_all [accValue, locValue, locTy, ordValue, ordering, snapAnn, hpl, evOrd, ordOfValue, evLoad] <;> omega
  · rw [hrl] at hs
    obtain ⟨st', rfl, h2, h3⟩ := hs
    simp [rs_eval, h2, h3, resultValue, readerValue, wordsValue]
    split_ifs <;> simp_all [accValue, locValue, locTy, ordValue, ordering, snapAnn, hpl, evOrd, ordOfValue, evLoad] <;> omega))

set_option maxRecDepth 8000 in
set_option maxHeartbeats 4000000 in
/-- `ShmReader::snapshot` is `SL.readerProg`, for every stream of load results, every cache, every fuel
    ≥ RETRIES + 200 -/
theorem snapshot_tie (inp : Nat → Nat) (cg : Nat) (cache : List Nat) (nowNs : Int) (sizes : List (String × Nat))
    (F : Nat) (hF : SL.RETRIES ≤ F) :
    runFuel (F + 200) (sctx nowNs sizes inp) "ShmReader::snapshot" (readerValue cg cache) []
    = readerOutcome (SL.readerProg snapAnn (typedInp inp) cg cache) := by
  -- the source literal `1_000_000` is the model's RETRIES (the only place where RETRIES is unfolded)
  have hR : ((SL.RETRIES : Nat) : Int) = 1000000 := rfl
  have hR2 : SL.RETRIES ≤ 2147483647 := by decide
  first
  | -- the `while` form
    (have hloop := loop_eq inp nowNs sizes _ _ rfl (typedInp inp 0) cg cache SL.RETRIES hR2 .infer (Or.inl rfl)
        2 ⟨0, rfl⟩ (typedInp inp 1)
     have hgood := loopOutG_spec (typedInp inp) cg cache (LS .i32 (typedInp inp 0)) (goodMk_LS _ _ _ _ rfl)
        SL.RETRIES (LS .infer (typedInp inp 0)) (goodMk_LS _ _ _ _ rfl)
     simp [LS, LSg, probeEnv, probeSt, loopPrefix, probeInp, relabel, rawInp, sfr, hR, readerValue, wordsValue, rs_eval, rs_code] at hloop
     -- the function up to the loop: version load, generation load, the three early returns
     simp [rs_eval, rs_code, readerValue, wordsValue, rawInp, typedInp_0, typedInp_1]
     rw [hloop _ _ (by omega)]
     clear hloop hR hR2 hF
     snap_tail hgood)
  | -- the `for` form
    (have hloop := fun t => loop_eq_for inp nowNs sizes _ _ _ rfl (typedInp inp 0) cg cache SL.RETRIES t 0
        2 ⟨0, rfl⟩ (typedInp inp 1)
     have hgood := loopOutG_spec (typedInp inp) cg cache (LSf (typedInp inp 0)) (goodMk_LSf _ _ _ _ rfl)
        SL.RETRIES (LSf (typedInp inp 0)) (goodMk_LSf _ _ _ _ rfl)
     simp [LSf, LSg, probeEnv, probeSt, loopPrefix, probeInp, relabel, rawInp, sfr, hR, Int.zero_add, readerValue, wordsValue, rs_eval, rs_code] at hloop
     simp [rs_eval, rs_code, readerValue, wordsValue, rawInp, typedInp_0, typedInp_1]
     rw [hloop _ _ _ (by omega)]
     clear hloop hR hR2 hF
     snap_tail hgood)

/-- the writer program only reads the writer fields of the annotation -/
theorem writerProg_snapAnn (g : Nat) (cells : List Nat) : SL.writerProg snapAnn g cells = SL.writerProg writeAnn g cells := by
  simp [SL.writerProg, snapAnn]

set_option maxRecDepth 8000 in
set_option maxHeartbeats 2000000 in
/-- the annotation found in the source is one the seqlock properties (C02, C03) are proved for -/
theorem snapAnn_adequate : snapAnn.adequate = true := by
  eval_bodyLog hbl
  eval_preLog hpl
  have hw := writeAnn_rel
  simp [SL.Ann.adequate, snapAnn, hbl, hpl, evOrd, isFenceEv, lastOf, ordOfValue, evLoad, evFence, SL.Ord.isAcq] at hw ⊢
  simpa using hw

end ClockBound.Rs.SeqlockProof
