/-
  Helper lemmas about the reader machine alone (C18, catch-up half of C03).
-/
import ClockBound.Model.SeqlockSys
namespace ClockBound.SL

end ClockBound.SL
