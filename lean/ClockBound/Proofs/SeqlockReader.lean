/-
  Helper lemmas about the reader machine alone (C18, catch-up half of C03).
-/
import ClockBound.Model.SeqlockSys
namespace ClockBound.SLR
open ClockBound ClockBound.SL

/-! ### C18: the measure argument

`rmu`/`RWF` are literal copies of `C18.mu`/`C18.WF` (which live in the property file that imports
this one); the property file identifies them by `rfl`. -/

def rmu : RPc → Nat
  | .idle => 0
  | .version => 2 + RETRIES * (N + 2)
  | .gen1 => 1 + RETRIES * (N + 2)
  | .copy _ retries todo _ => (retries - 1) * (N + 2) + todo.length + 2
  | .fence _ retries _ => (retries - 1) * (N + 2) + 2
  | .gen2 _ retries _ => (retries - 1) * (N + 2) + 1

def RWF : RPc → Prop
  | .copy _ retries todo _ => 0 < retries ∧ 0 < todo.length ∧ todo.length ≤ N ∧ retries ≤ RETRIES
  | .fence _ retries _ => 0 < retries ∧ retries ≤ RETRIES
  | .gen2 _ retries _ => 0 < retries ∧ retries ≤ RETRIES
  | _ => True

theorem filter_ne_length_lt (todo : List Nat) (c : Nat) (h : c ∈ todo) :
    (todo.filter (· != c)).length < todo.length := by
  apply List.length_filter_lt_length_iff_exists.mpr
  exact ⟨c, h, by simp⟩

theorem afterCopy_cases (a : Ann) (g k : Nat) (got : List (Nat × Nat)) :
    afterCopy a g k got = .fence g k got ∨ afterCopy a g k got = .gen2 g k got := by
  unfold afterCopy; split <;> simp

theorem rStep_decreases (a : Ann) (log : Log) (r : Reader) (pc pm : Nat) (h : r.pc ≠ .idle)
    (hwf : RWF r.pc) :
    RWF (rStep a log r pc pm).1.pc ∧
    (((rStep a log r pc pm).2.1.isSome ∧ (rStep a log r pc pm).1.pc = .idle) ∨
     ((rStep a log r pc pm).2.1 = none ∧ (rStep a log r pc pm).1.pc ≠ .idle ∧
       rmu (rStep a log r pc pm).1.pc < rmu r.pc)) := by
  obtain ⟨rpc, view, cg, cache, gi, ai⟩ := r
  cases rpc with
  | idle => exact absurd rfl h
  | version =>
    simp only [rStep]
    split <;> simp [RWF, rmu]
  | gen1 =>
    simp only [rStep]
    split
    · simp [RWF, rmu]
    · simp [RWF, rmu, RETRIES, N]
  | copy g1 k todo got =>
    simp only [RWF] at hwf
    obtain ⟨hk, hl, hn, hr⟩ := hwf
    simp only [rStep]
    have hidx : min pc (todo.length - 1) < todo.length := by omega
    rw [List.getElem?_eq_getElem hidx]
    simp only []
    have hc := filter_ne_length_lt todo _ (List.getElem_mem hidx)
    generalize todo[min pc (todo.length - 1)] = c at hc ⊢
    generalize hgot : (c, (load log view (Loc.cell c) Ord.relaxed pm).1) :: got = got'
    split
    · rcases afterCopy_cases a g1 k got' with e | e <;> rw [e] <;> simp [RWF, rmu, hk, hr] <;> omega
    · rename_i hne
      have : 0 < (todo.filter (· != c)).length := by
        rcases hh : todo.filter (· != c) with _ | ⟨x, xs⟩
        · simp [hh] at hne
        · simp
      refine ⟨⟨hk, this, by omega, hr⟩, Or.inr ⟨trivial, by simp, ?_⟩⟩
      simp only [rmu]
      omega
  | fence g1 k got =>
    simp only [rStep]
    simp only [RWF] at hwf
    simp [RWF, rmu, hwf]
  | gen2 g1 k got =>
    simp only [RWF] at hwf
    obtain ⟨hk, hr⟩ := hwf
    simp only [rStep]
    split
    · simp [RWF]
    · split
      · simp [RWF]
      · rename_i hk1
        simp [RWF, rmu, N]
        omega

theorem rmu_pos (p : RPc) (h : p ≠ .idle) (hwf : RWF p) : 0 < rmu p := by
  cases p <;> simp [rmu] at * <;> omega

/-- one step of the bounded-run fold of C18 -/
def rStepF (a : Ann) (logs : Nat → Log) (picks : Nat → Nat × Nat)
    (st : Reader × Option RResult) (k : Nat) : Reader × Option RResult :=
  if st.2.isSome then st else
  let out := rStep a (logs k) st.1 (picks k).1 (picks k).2
  (out.1, out.2.1)

theorem fold_bounded (a : Ann) (logs : Nat → Log) (picks : Nat → Nat × Nat) (ks : List Nat) :
    ∀ (st : Reader × Option RResult),
      (st.2.isSome ∨ (st.1.pc ≠ .idle ∧ RWF st.1.pc ∧ rmu st.1.pc ≤ ks.length)) →
      (ks.foldl (rStepF a logs picks) st).2.isSome := by
  induction ks with
  | nil =>
    intro st h
    rcases h with h | ⟨h1, h2, h3⟩
    · simpa using h
    · have := rmu_pos _ h1 h2
      simp at h3; omega
  | cons k ks ih =>
    intro st h
    rw [List.foldl_cons]
    apply ih
    by_cases hs : st.2.isSome
    · left; simp [rStepF, hs]
    · rcases h with h | ⟨h1, h2, h3⟩
      · exact absurd h hs
      · simp only [rStepF, hs]
        have := rStep_decreases a (logs k) st.1 (picks k).1 (picks k).2 h1 h2
        rcases this with ⟨hw, ⟨hsome, _⟩ | ⟨_, hni, hlt⟩⟩
        · left; simpa using hsome
        · right
          refine ⟨by simpa using hni, by simpa using hw, ?_⟩
          simp only [List.length_cons] at h3
          simp
          omega

theorem call_bounded (a : Ann) (logs : Nat → Log) (picks : Nat → Nat × Nat) (r : Reader) :
    ((List.range stepBound).foldl (fun (st : Reader × Option RResult) k =>
          if st.2.isSome then st else
          let out := rStep a (logs k) st.1 (picks k).1 (picks k).2
          (out.1, out.2.1)) (r.call, none)).2.isSome := by
  apply fold_bounded a logs picks (List.range stepBound) (r.call, none)
  right
  refine ⟨by simp [Reader.call], by simp [Reader.call, RWF], ?_⟩
  simp [Reader.call, rmu, stepBound]

/-! ### the memory: newest message, admissible loads -/

instance : LawfulBEq Loc where
  rfl := by intro a; cases a <;> simp [BEq.beq, instBEqLoc.beq] 
  eq_of_beq := by
    intro a b h
    cases a <;> cases b <;> simp_all [BEq.beq, instBEqLoc.beq]

theorem getLast?_filter_range_some (P : Nat → Bool) (m j : Nat) :
    ((List.range m).filter P).getLast? = some j ↔
      j < m ∧ P j = true ∧ ∀ k, j < k → k < m → P k = false := by
  induction m with
  | zero => simp
  | succ m ih =>
    rw [List.range_succ, List.filter_append]
    by_cases hm : P m = true
    · have : List.filter P [m] = [m] := by simp [hm]
      rw [this, List.getLast?_concat]
      constructor
      · intro h
        have : m = j := by simpa using h
        subst this
        exact ⟨by omega, hm, fun k h1 h2 => by omega⟩
      · rintro ⟨h1, h2, h3⟩
        by_cases hj : j = m
        · rw [hj]
        · have := h3 m (by omega) (by omega)
          simp [hm] at this
    · have : List.filter P [m] = [] := by simp [hm]
      rw [this, List.append_nil, ih]
      have hm' : P m = false := by simpa using hm
      constructor
      · rintro ⟨h1, h2, h3⟩
        refine ⟨by omega, h2, fun k hk1 hk2 => ?_⟩
        by_cases hk : k = m
        · rw [hk]; exact hm'
        · exact h3 k hk1 (by omega)
      · rintro ⟨h1, h2, h3⟩
        have : j ≠ m := by intro e; rw [e] at h2; simp [hm'] at h2
        exact ⟨by omega, h2, fun k hk1 hk2 => h3 k hk1 (by omega)⟩

theorem getLast?_filter_range_none (P : Nat → Bool) (m : Nat) :
    ((List.range m).filter P).getLast? = none ↔ ∀ k, k < m → P k = false := by
  simp


/-- message `j` of the log is at location `x` -/
def atLoc (log : Log) (x : Loc) (j : Nat) : Bool := (log[j]?.map (·.loc == x)).getD false

theorem atLoc_lt {log : Log} {x : Loc} {j : Nat} (h : atLoc log x j = true) : j < log.length := by
  unfold atLoc at h
  by_cases hj : j < log.length
  · exact hj
  · simp [List.getElem?_eq_none (Nat.le_of_not_lt hj)] at h

theorem lastBefore_eq (log : Log) (x : Loc) (n : Nat) :
    lastBefore log x n = ((List.range (min n log.length)).filter (atLoc log x)).getLast? := rfl

theorem lastBefore_some {log : Log} {x : Loc} {n j : Nat} :
    lastBefore log x n = some j ↔
      j < min n log.length ∧ atLoc log x j = true ∧
        ∀ k, j < k → k < min n log.length → atLoc log x k = false := by
  rw [lastBefore_eq, getLast?_filter_range_some]

theorem lastBefore_none {log : Log} {x : Loc} {n : Nat} :
    lastBefore log x n = none ↔ ∀ k, k < min n log.length → atLoc log x k = false := by
  rw [lastBefore_eq, getLast?_filter_range_none]

/-- any message at `x` is at or before the newest one -/
theorem le_of_lastBefore {log : Log} {x : Loc} {j i : Nat}
    (h : lastBefore log x log.length = some j) (hi : atLoc log x i = true) : i ≤ j := by
  obtain ⟨h1, h2, h3⟩ := lastBefore_some.mp h
  by_cases hij : i ≤ j
  · exact hij
  · have := h3 i (by omega) (by have := atLoc_lt hi; omega)
    rw [this] at hi; cases hi

theorem lastBefore_isSome_of_atLoc {log : Log} {x : Loc} {i : Nat} (hi : atLoc log x i = true) :
    ∃ j, lastBefore log x log.length = some j := by
  cases h : lastBefore log x log.length with
  | some j => exact ⟨j, rfl⟩
  | none =>
    have := lastBefore_none.mp h i (by have := atLoc_lt hi; omega)
    rw [this] at hi; cases hi

/-- the coherence part of `ViewOk` — all the fresh-read lemmas need -/
def CohOk (log : Log) (v : View) : Prop :=
  ∀ x j, lastBefore log x log.length = some j → v.cohOf x ≤ j

theorem admissible_eq (log : Log) (v : View) (x : Loc) :
    admissible log v x = (List.range log.length).filter
      (fun j => decide (max (v.cohOf x) ((lastBefore log x v.cur).getD 0) ≤ j) && atLoc log x j) := rfl

theorem mem_admissible {log : Log} {v : View} {x : Loc} {j : Nat} (h : j ∈ admissible log v x) :
    atLoc log x j = true := by
  rw [admissible_eq] at h
  simp at h
  exact h.2.2

theorem admissible_last {log : Log} {v : View} {x : Loc} {j : Nat} (hv : CohOk log v)
    (h : lastBefore log x log.length = some j) : (admissible log v x).getLast? = some j := by
  rw [admissible_eq, getLast?_filter_range_some]
  obtain ⟨h1, h2, h3⟩ := lastBefore_some.mp h
  rw [Nat.min_self] at h1 h3
  refine ⟨h1, ?_, fun k hk1 hk2 => by simp [h3 k hk1 hk2]⟩
  have hc := hv x j h
  have hl : (lastBefore log x v.cur).getD 0 ≤ j := by
    cases hh : lastBefore log x v.cur with
    | none => simp
    | some i =>
      simp only [Option.getD_some]
      exact le_of_lastBefore h (lastBefore_some.mp hh).2.1
  simp [h2]
  omega

theorem admissible_nil {log : Log} {v : View} {x : Loc}
    (h : lastBefore log x log.length = none) : admissible log v x = [] := by
  rw [admissible_eq, List.filter_eq_nil_iff]
  intro k hk
  have := lastBefore_none.mp h k (by simpa using hk)
  simp [this]

theorem latest_some {log : Log} {x : Loc} {j : Nat} (h : lastBefore log x log.length = some j) :
    latest log x = (log[j]?.getD default).val := by
  unfold latest
  rw [h]
  have := (lastBefore_some.mp h).1
  have hj : j < log.length := by omega
  simp [List.getElem?_eq_getElem hj]

theorem latest_none {log : Log} {x : Loc} (h : lastBefore log x log.length = none) :
    latest log x = 0 := by
  unfold latest; rw [h]


theorem cohOf_congr {v w : View} (h : v.coh = w.coh) (x : Loc) : v.cohOf x = w.cohOf x := by
  unfold View.cohOf; rw [h]

theorem find?_filter_ne (l : List (Loc × Nat)) (x y : Loc) (h : x ≠ y) :
    (l.filter (fun p => p.1 != x)).find? (fun p => p.1 == y) = l.find? (fun p => p.1 == y) := by
  induction l with
  | nil => rfl
  | cons p l ih =>
    by_cases hp : p.1 = x
    · have h1 : (p.1 != x) = false := by simp [hp]
      have h2 : (p.1 == y) = false := by simp [hp, h]
      rw [List.filter_cons, h1, List.find?_cons, h2]
      simpa using ih
    · have h1 : (p.1 != x) = true := by simp [hp]
      rw [List.filter_cons, h1]
      simp only [if_true, List.find?_cons]
      rw [ih]

theorem cohOf_setCoh (v : View) (x y : Loc) (j : Nat) :
    (v.setCoh x j).cohOf y = if x = y then j else v.cohOf y := by
  unfold View.setCoh View.cohOf
  by_cases h : x = y
  · simp [h]
  · have : (x == y) = false := by simp [h]
    simp only [List.find?_cons, this, h, if_false]
    rw [find?_filter_ne _ _ _ h]

/-- shape of a load result: nothing read, or some message `j` at `x` -/
theorem load_spec (log : Log) (v : View) (x : Loc) (ord : Ord) (pick : Nat) :
    load log v x ord pick = (0, 0, v) ∨
    ∃ j, j ∈ admissible log v x ∧
      (load log v x ord pick).1 = (log[j]?.getD default).val ∧
      (load log v x ord pick).2.1 = j ∧
      (load log v x ord pick).2.2.coh = (v.setCoh x j).coh ∧
      (load log v x ord pick).2.2.acq = max v.acq (log[j]?.getD default).carried ∧
      ((load log v x ord pick).2.2.cur = v.cur ∨
       (load log v x ord pick).2.2.cur = max v.cur (log[j]?.getD default).carried) := by
  unfold load
  dsimp only
  cases h : (admissible log v x).reverse[min pick ((admissible log v x).length - 1)]? with
  | none => left; rfl
  | some j =>
    right
    refine ⟨j, ?_, rfl, rfl, ?_, ?_, ?_⟩
    · have := List.mem_of_getElem? h
      simpa using this
    · dsimp only; split <;> rfl
    · dsimp only; split <;> rfl
    · dsimp only
      split
      · right; rfl
      · left; rfl

theorem load_cohOk {log : Log} {v : View} (x : Loc) (ord : Ord) (pick : Nat) (hv : CohOk log v) :
    CohOk log (load log v x ord pick).2.2 := by
  rcases load_spec log v x ord pick with h | ⟨j, hj, _, _, hc, _, _⟩
  · rw [h]; exact hv
  · intro y i hy
    rw [cohOf_congr hc, cohOf_setCoh]
    split
    · rename_i hxy
      subst hxy
      exact le_of_lastBefore hy (mem_admissible hj)
    · exact hv y i hy

/-- a fresh read (pick 0) under a coherent view returns the newest value at the location -/
theorem load_fresh {log : Log} {v : View} (x : Loc) (ord : Ord) (hv : CohOk log v) :
    (load log v x ord 0).1 = latest log x := by
  cases h : lastBefore log x log.length with
  | none =>
    rw [latest_none h]
    unfold load
    simp [admissible_nil h]
  | some j =>
    rw [latest_some h]
    have hl := admissible_last (v := v) hv h
    unfold load
    dsimp only
    have : (admissible log v x).reverse[min 0 ((admissible log v x).length - 1)]? = some j := by
      rw [Nat.zero_min, ← List.head?_eq_getElem?, List.head?_reverse, hl]
    rw [this]

/-! ### C03 (ii): a call with fresh reads on a quiescent log -/

/-- reader step with fresh reads, keeping only what the `freshCall` fold keeps -/
def rStep2 (a : Ann) (log : Log) (r : Reader) : Reader × Option RResult :=
  ((rStep a log r 0 0).1, (rStep a log r 0 0).2.1)

theorem fresh_version (a : Ann) (log : Log) (r : Reader) (hpc : r.pc = .version)
    (hc : CohOk log r.view) (hv : latest log .version ≠ 0) :
    ∃ r', rStep2 a log r = (r', none) ∧ r'.pc = .gen1 ∧ CohOk log r'.view ∧
      r'.cacheGen = r.cacheGen ∧ r'.cache = r.cache := by
  unfold rStep2 rStep
  rw [hpc]
  dsimp only
  rw [if_neg (by rw [load_fresh _ _ hc]; exact hv)]
  exact ⟨_, rfl, rfl, load_cohOk _ _ _ hc, rfl, rfl⟩

theorem fresh_gen1_go (a : Ann) (log : Log) (r : Reader) (hpc : r.pc = .gen1)
    (hc : CohOk log r.view) (hg : latest log .gen ≠ 0) (he : latest log .gen % 2 = 0)
    (hne : r.cacheGen ≠ latest log .gen) :
    ∃ r', rStep2 a log r = (r', none) ∧ r'.pc = .copy (latest log .gen) RETRIES (List.range N) [] ∧
      CohOk log r'.view := by
  unfold rStep2 rStep
  rw [hpc]
  dsimp only
  rw [if_neg (by rw [load_fresh _ _ hc]; omega)]
  exact ⟨_, rfl, by rw [load_fresh _ _ hc], load_cohOk _ _ _ hc⟩

theorem fresh_gen1_cache (a : Ann) (log : Log) (r : Reader) (hpc : r.pc = .gen1)
    (hc : CohOk log r.view) (heq : r.cacheGen = latest log .gen) :
    (rStep2 a log r).2 = some (.ok r.cache) := by
  unfold rStep2 rStep
  rw [hpc]
  dsimp only
  rw [if_pos (by rw [load_fresh _ _ hc]; exact Or.inr (Or.inl heq.symm))]

theorem fresh_copy (a : Ann) (log : Log) (r : Reader) (g k c : Nat) (rest : List Nat)
    (got : List (Nat × Nat)) (hpc : r.pc = .copy g k (c :: rest) got) (hnm : c ∉ rest)
    (hc : CohOk log r.view) :
    ∃ r', rStep2 a log r = (r', none) ∧
      r'.pc = (if rest.isEmpty then afterCopy a g k ((c, latest log (.cell c)) :: got)
               else .copy g k rest ((c, latest log (.cell c)) :: got)) ∧
      CohOk log r'.view := by
  unfold rStep2 rStep
  rw [hpc]
  have h0 : (c :: rest)[min 0 ((c :: rest).length - 1)]? = some c := by simp
  have hf : (c :: rest).filter (· != c) = rest := by
    rw [List.filter_cons]
    simp only [bne_self_eq_false, Bool.false_eq_true, if_false]
    rw [List.filter_eq_self]
    intro x hx
    have : x ≠ c := by intro e; exact hnm (e ▸ hx)
    simp [this]
  dsimp only
  rw [h0]
  dsimp only
  rw [hf, load_fresh _ _ hc]
  exact ⟨_, rfl, rfl, load_cohOk _ _ _ hc⟩

theorem fresh_fence (a : Ann) (log : Log) (r : Reader) (g k : Nat) (got : List (Nat × Nat))
    (hpc : r.pc = .fence g k got) (hc : CohOk log r.view) :
    ∃ r', rStep2 a log r = (r', none) ∧ r'.pc = .gen2 g k got ∧ CohOk log r'.view := by
  unfold rStep2 rStep
  rw [hpc]
  refine ⟨_, rfl, rfl, ?_⟩
  intro x j hx
  have : (fenceAcq r.view (a.rFence.getD .relaxed)).coh = r.view.coh := by
    unfold fenceAcq; split <;> rfl
  dsimp only
  rw [cohOf_congr this]
  exact hc x j hx

theorem fresh_gen2 (a : Ann) (log : Log) (r : Reader) (k : Nat) (got : List (Nat × Nat))
    (hpc : r.pc = .gen2 (latest log .gen) k got) (hc : CohOk log r.view) :
    (rStep2 a log r).2 = some (.ok (assemble got)) := by
  unfold rStep2 rStep
  rw [hpc]
  dsimp only
  rw [if_pos (by rw [load_fresh _ _ hc])]


/-- the fold of `C03.freshCall`, over any list of (ignored) indices -/
def freshFold (a : Ann) (log : Log) (st : Reader × Option RResult) (ks : List Nat) :
    Reader × Option RResult :=
  ks.foldl (fun (st : Reader × Option RResult) _ =>
    if st.2.isSome then st else
    let out := rStep a log st.1 0 0
    (out.1, out.2.1)) st

theorem freshFold_some (a : Ann) (log : Log) (r : Reader) (x : RResult) (ks : List Nat) :
    freshFold a log (r, some x) ks = (r, some x) := by
  induction ks with
  | nil => rfl
  | cons k ks ih => unfold freshFold at *; rw [List.foldl_cons]; simpa using ih

theorem freshFold_step (a : Ann) (log : Log) (r : Reader) (k : Nat) (ks : List Nat) :
    freshFold a log (r, none) (k :: ks) = freshFold a log (rStep2 a log r) ks := by
  unfold freshFold rStep2
  rw [List.foldl_cons]
  simp

theorem freshFold_done (a : Ann) (log : Log) (r : Reader) (x : RResult) (k : Nat) (ks : List Nat)
    (h : (rStep2 a log r).2 = some x) : (freshFold a log (r, none) (k :: ks)).2 = some x := by
  rw [freshFold_step]
  have : rStep2 a log r = ((rStep2 a log r).1, some x) := by rw [← h]
  rw [this, freshFold_some]

theorem assemble_seven (v0 v1 v2 v3 v4 v5 v6 : Nat) :
    assemble [(6, v6), (5, v5), (4, v4), (3, v3), (2, v2), (1, v1), (0, v0)] =
      [v0, v1, v2, v3, v4, v5, v6] := by
  simp [assemble, N, List.range, List.range.loop, List.find?]

theorem fresh_catches_up (a : Ann) (log : Log) (r : Reader)
    (hv : latest log .version ≠ 0) (hg : latest log .gen ≠ 0) (he : latest log .gen % 2 = 0)
    (hne : r.cacheGen ≠ latest log .gen) (hview : CohOk log r.view) :
    (freshFold a log (r.call, none) (List.range (N + 4))).2 =
      some (.ok ((List.range N).map (fun c => latest log (.cell c)))) := by
  have hr : List.range (N + 4) = [0, 1, 2, 3, 4, 5, 6, 7, 8, 9, 10] := by decide
  have hN : List.range N = [0, 1, 2, 3, 4, 5, 6] := by decide
  rw [hr]
  obtain ⟨r1, e1, p1, c1, g1, _⟩ := fresh_version a log r.call rfl hview hv
  rw [freshFold_step, e1]
  obtain ⟨r2, e2, p2, c2⟩ := fresh_gen1_go a log r1 p1 c1 hg he (by rw [g1]; exact hne)
  rw [freshFold_step, e2]
  rw [hN] at p2 ⊢
  obtain ⟨r3, e3, p3, c3⟩ := fresh_copy a log r2 _ _ _ _ _ p2 (by decide) c2
  rw [freshFold_step, e3]
  simp only [List.isEmpty_cons, Bool.false_eq_true, if_false] at p3
  obtain ⟨r4, e4, p4, c4⟩ := fresh_copy a log r3 _ _ _ _ _ p3 (by decide) c3
  rw [freshFold_step, e4]
  simp only [List.isEmpty_cons, Bool.false_eq_true, if_false] at p4
  obtain ⟨r5, e5, p5, c5⟩ := fresh_copy a log r4 _ _ _ _ _ p4 (by decide) c4
  rw [freshFold_step, e5]
  simp only [List.isEmpty_cons, Bool.false_eq_true, if_false] at p5
  obtain ⟨r6, e6, p6, c6⟩ := fresh_copy a log r5 _ _ _ _ _ p5 (by decide) c5
  rw [freshFold_step, e6]
  simp only [List.isEmpty_cons, Bool.false_eq_true, if_false] at p6
  obtain ⟨r7, e7, p7, c7⟩ := fresh_copy a log r6 _ _ _ _ _ p6 (by decide) c6
  rw [freshFold_step, e7]
  simp only [List.isEmpty_cons, Bool.false_eq_true, if_false] at p7
  obtain ⟨r8, e8, p8, c8⟩ := fresh_copy a log r7 _ _ _ _ _ p7 (by decide) c7
  rw [freshFold_step, e8]
  simp only [List.isEmpty_cons, Bool.false_eq_true, if_false] at p8
  obtain ⟨r9, e9, p9, c9⟩ := fresh_copy a log r8 _ _ _ _ _ p8 (by decide) c8
  rw [freshFold_step, e9]
  simp only [List.isEmpty_nil, if_true] at p9
  simp only [List.map_cons, List.map_nil]
  rw [← assemble_seven]
  unfold afterCopy at p9
  cases hf : a.rFence with
  | none =>
    rw [hf] at p9
    exact freshFold_done a log r9 _ _ _ (fresh_gen2 a log r9 _ _ p9 c9)
  | some o =>
    rw [hf] at p9
    obtain ⟨r10, e10, p10, c10⟩ := fresh_fence a log r9 _ _ _ p9 c9
    rw [freshFold_step, e10]
    exact freshFold_done a log r10 _ _ _ (fresh_gen2 a log r10 _ _ p10 c10)

theorem fresh_same_generation (a : Ann) (log : Log) (r : Reader)
    (hv : latest log .version ≠ 0) (heq : r.cacheGen = latest log .gen) (hview : CohOk log r.view) :
    (freshFold a log (r.call, none) (List.range 2)).2 = some (.ok r.cache) := by
  have hr : List.range 2 = [0, 1] := by decide
  rw [hr]
  obtain ⟨r1, e1, p1, c1, g1, k1⟩ := fresh_version a log r.call rfl hview hv
  rw [freshFold_step, e1]
  have : r.cache = r1.cache := by rw [k1]; rfl
  rw [this]
  exact freshFold_done a log r1 _ _ _ (fresh_gen1_cache a log r1 p1 c1 (by rw [g1]; exact heq))

/-! ### C03: reachable views are consistent with the log -/

theorem atLoc_append_lt (log : Log) (m : SL.Msg) (x : Loc) (k : Nat) (hk : k < log.length) :
    atLoc (log ++ [m]) x k = atLoc log x k := by
  unfold atLoc
  rw [List.getElem?_append_left hk]

theorem atLoc_append_last (log : Log) (m : SL.Msg) (x : Loc) :
    atLoc (log ++ [m]) x log.length = (m.loc == x) := by
  unfold atLoc
  simp

/-- the newest message at `y` after one more message was appended -/
theorem lastBefore_append (log : Log) (m : SL.Msg) (y : Loc) :
    lastBefore (log ++ [m]) y (log ++ [m]).length =
      if m.loc = y then some log.length else lastBefore log y log.length := by
  have hlen : (log ++ [m]).length = log.length + 1 := by simp
  split
  · rename_i h
    rw [lastBefore_some, hlen, Nat.min_self]
    refine ⟨by omega, by rw [atLoc_append_last]; simp [h], fun k h1 h2 => by omega⟩
  · rename_i h
    have hlast : atLoc (log ++ [m]) y log.length = false := by rw [atLoc_append_last]; simp [h]
    cases hh : lastBefore log y log.length with
    | none =>
      rw [lastBefore_none] at hh ⊢
      rw [hlen, Nat.min_self]
      rw [Nat.min_self] at hh
      intro k hk
      by_cases hkl : k < log.length
      · rw [atLoc_append_lt _ _ _ _ hkl]; exact hh k hkl
      · have : k = log.length := by omega
        rw [this]; exact hlast
    | some j =>
      rw [lastBefore_some] at hh ⊢
      rw [hlen, Nat.min_self]
      rw [Nat.min_self] at hh
      obtain ⟨h1, h2, h3⟩ := hh
      refine ⟨by omega, by rw [atLoc_append_lt _ _ _ _ h1]; exact h2, fun k hk1 hk2 => ?_⟩
      by_cases hkl : k < log.length
      · rw [atLoc_append_lt _ _ _ _ hkl]; exact h3 k hk1 hkl
      · have : k = log.length := by omega
        rw [this]; exact hlast

/-- the inductive strengthening of `ViewOk` -/
structure SysInv (s : Sys) : Prop where
  view : ViewOk s.log s.r.view
  cohLen : ∀ x, s.r.view.cohOf x ≤ s.log.length
  carried : ∀ m ∈ s.log, m.carried ≤ s.log.length
  relFence : s.w.relFence ≤ s.log.length

theorem viewOk_append {log : Log} {v : View} (m : SL.Msg) (h : ViewOk log v)
    (hl : ∀ x, v.cohOf x ≤ log.length) : ViewOk (log ++ [m]) v := by
  obtain ⟨h1, h2, h3⟩ := h
  have hlen : (log ++ [m]).length = log.length + 1 := by simp
  refine ⟨by omega, by omega, ?_⟩
  intro x j hx
  rw [lastBefore_append] at hx
  split at hx
  · have : log.length = j := by simpa using hx
    rw [← this]; exact hl x
  · exact h3 x j hx


theorem wStep_spec (a : Ann) (log : Log) (w : Writer) (pick : Nat) :
    ((wStep a log w pick).1 = log ∧
      ((wStep a log w pick).2.1.relFence = w.relFence ∨
       (wStep a log w pick).2.1.relFence = log.length)) ∨
    (∃ x val ord, (wStep a log w pick).1 = storeMsg log w.relFence x val ord ∧
      (wStep a log w pick).2.1.relFence = w.relFence) := by
  obtain ⟨pc, rf⟩ := w
  cases pc with
  | idle => left; exact ⟨rfl, Or.inl rfl⟩
  | newVersion => right; exact ⟨_, _, _, rfl, rfl⟩
  | loadGen rec => left; exact ⟨rfl, Or.inl rfl⟩
  | store1 rec g => right; exact ⟨_, _, _, rfl, rfl⟩
  | fence rec g =>
    left
    refine ⟨rfl, ?_⟩
    simp only [wStep]
    split
    · right; rfl
    · left; rfl
  | copy rec g todo =>
    simp only [wStep]
    split
    · left; exact ⟨rfl, Or.inl rfl⟩
    · right; exact ⟨_, _, _, rfl, rfl⟩
  | store2 rec g => right; exact ⟨_, _, _, rfl, rfl⟩

theorem rStep_view (a : Ann) (log : Log) (r : Reader) (pc pm : Nat) :
    (rStep a log r pc pm).1.view = r.view ∨
    (∃ x ord, (rStep a log r pc pm).1.view = (load log r.view x ord pm).2.2) ∨
    (∃ o, (rStep a log r pc pm).1.view = fenceAcq r.view o) := by
  obtain ⟨rpc, view, cg, cache, gi, ai⟩ := r
  cases rpc with
  | idle => left; rfl
  | version =>
    right; left
    refine ⟨.version, a.rVersion, ?_⟩
    simp only [rStep]
    split <;> rfl
  | gen1 =>
    right; left
    refine ⟨.gen, a.rGen1, ?_⟩
    simp only [rStep]
    split <;> rfl
  | copy g1 k todo got =>
    simp only [rStep]
    split
    · left; rfl
    · rename_i c _
      right; left
      exact ⟨.cell c, .relaxed, rfl⟩
  | fence g1 k got => right; right; exact ⟨_, rfl⟩
  | gen2 g1 k got =>
    right; left
    refine ⟨.gen, a.rGen2, ?_⟩
    simp only [rStep]
    split
    · rfl
    · split <;> rfl

theorem load_viewOk {log : Log} {v : View} (x : Loc) (ord : Ord) (pick : Nat)
    (h : ViewOk log v) (hl : ∀ y, v.cohOf y ≤ log.length)
    (hcar : ∀ m ∈ log, m.carried ≤ log.length) :
    ViewOk log (load log v x ord pick).2.2 ∧
      ∀ y, (load log v x ord pick).2.2.cohOf y ≤ log.length := by
  have hcoh := load_cohOk x ord pick h.2.2
  rcases load_spec log v x ord pick with e | ⟨j, hj, _, _, hc, hacq, hcur⟩
  · rw [e]; exact ⟨h, hl⟩
  · have hjl := atLoc_lt (mem_admissible hj)
    have hm : (log[j]?.getD default).carried ≤ log.length := by
      rw [List.getElem?_eq_getElem hjl]
      exact hcar _ (List.getElem_mem hjl)
    obtain ⟨h1, h2, _⟩ := h
    refine ⟨⟨?_, ?_, hcoh⟩, ?_⟩
    · rcases hcur with e | e <;> rw [e] <;> omega
    · rw [hacq]; omega
    · intro y
      rw [cohOf_congr hc, cohOf_setCoh]
      split
      · omega
      · exact hl y

theorem fenceAcq_viewOk {log : Log} {v : View} (o : Ord) (h : ViewOk log v) :
    ViewOk log (fenceAcq v o) ∧ ∀ y, (fenceAcq v o).cohOf y = v.cohOf y := by
  obtain ⟨h1, h2, h3⟩ := h
  unfold fenceAcq
  split
  · exact ⟨⟨by dsimp only; omega, h2, h3⟩, fun y => rfl⟩
  · exact ⟨⟨h1, h2, h3⟩, fun y => rfl⟩

theorem sysInv_init (ver gen : Nat) (cells : List Nat) : SysInv (Sys.init ver gen cells) := by
  have hlen : (initBlock ver gen cells).length = cells.length + 2 := by simp [initBlock]
  refine ⟨⟨Nat.zero_le _, Nat.zero_le _, fun x j _ => Nat.zero_le _⟩, fun x => Nat.zero_le _, ?_,
    Nat.zero_le _⟩
  intro m hm
  show m.carried ≤ (initBlock ver gen cells).length
  rw [hlen]
  have hm' : m ∈ initBlock ver gen cells := hm
  unfold initBlock at hm'
  simp only [List.mem_append, List.mem_map, List.mem_cons, List.not_mem_nil, or_false] at hm'
  rcases hm' with ⟨p, _, rfl⟩ | rfl | rfl <;> exact Nat.le_refl _

theorem sysInv_storeMsg {s : Sys} (h : SysInv s) (rf : Nat) (hrf : rf ≤ s.log.length)
    (x : Loc) (val : Nat) (ord : Ord) (w : Writer) (hw : w.relFence ≤ s.log.length + 1) :
    SysInv { s with log := storeMsg s.log rf x val ord, w := w } := by
  have hlen : (storeMsg s.log rf x val ord).length = s.log.length + 1 := by simp [storeMsg]
  refine ⟨viewOk_append _ h.view h.cohLen, fun y => ?_, ?_, ?_⟩
  · show s.r.view.cohOf y ≤ (storeMsg s.log rf x val ord).length
    have := h.cohLen y; omega
  · intro m hm
    show m.carried ≤ (storeMsg s.log rf x val ord).length
    rw [hlen]
    have hm' : m ∈ s.log ++ [_] := hm
    rw [List.mem_append, List.mem_singleton] at hm'
    rcases hm' with hm' | rfl
    · have := h.carried m hm'; omega
    · dsimp only; split <;> omega
  · show w.relFence ≤ (storeMsg s.log rf x val ord).length
    omega

theorem sysInv_step {a : Ann} {s t : Sys} (h : SysInv s) (hst : Step a s t) : SysInv t := by
  cases hst with
  | wNew _ => exact ⟨h.view, h.cohLen, h.carried, Nat.zero_le _⟩
  | wWrite rec _ _ => exact ⟨h.view, h.cohLen, h.carried, h.relFence⟩
  | wStep pick _ =>
    rcases wStep_spec a s.log s.w pick with ⟨e1, e2⟩ | ⟨x, val, ord, e1, e2⟩
    · rw [e1]
      refine ⟨h.view, h.cohLen, h.carried, ?_⟩
      show (wStep a s.log s.w pick).2.1.relFence ≤ s.log.length
      rcases e2 with e | e <;> rw [e]
      · exact h.relFence
      · exact Nat.le_refl _
    · rw [e1]
      exact sysInv_storeMsg h _ h.relFence _ _ _ _ (by rw [e2]; have := h.relFence; omega)
  | wKill => exact ⟨h.view, h.cohLen, h.carried, Nat.zero_le _⟩
  | rOpen _ =>
    exact ⟨⟨Nat.zero_le _, Nat.zero_le _, fun x j _ => Nat.zero_le _⟩, fun x => Nat.zero_le _,
      h.carried, h.relFence⟩
  | rCall _ => exact ⟨h.view, h.cohLen, h.carried, h.relFence⟩
  | rStep pc pm _ =>
    refine ⟨?_, ?_, h.carried, h.relFence⟩
    · show ViewOk s.log (rStep a s.log s.r pc pm).1.view
      rcases rStep_view a s.log s.r pc pm with e | ⟨x, ord, e⟩ | ⟨o, e⟩ <;> rw [e]
      · exact h.view
      · exact (load_viewOk x ord pm h.view h.cohLen h.carried).1
      · exact (fenceAcq_viewOk o h.view).1
    · show ∀ x, (rStep a s.log s.r pc pm).1.view.cohOf x ≤ s.log.length
      rcases rStep_view a s.log s.r pc pm with e | ⟨x, ord, e⟩ | ⟨o, e⟩ <;> rw [e]
      · exact h.cohLen
      · exact (load_viewOk x ord pm h.view h.cohLen h.carried).2
      · intro y; rw [(fenceAcq_viewOk o h.view).2]; exact h.cohLen y

theorem sysInv_reachable {a : Ann} {s0 s : Sys} (h0 : SysInv s0) (hr : Reachable a s0 s) :
    SysInv s := by
  induction hr with
  | refl => exact h0
  | step _ hst ih => exact sysInv_step ih hst

end ClockBound.SLR
