/-
  Proofs of the translation tie for the chrony poller (statements in `Properties/CodeTiePoller.lean`):
  one iteration of the loop body of `run_clock_error_bound_poller`, for every fuel `N ≥ 60` (so that the
  loop lemmas of `Proofs/RsLoop.lean` apply).  Method: split the MODEL's inputs (reply kind, PHC
  configured / matching, state of the sysfs file), turn the hypothesis on the input stream into one
  equation per input consumed, and let `simp [rs_eval, rs_code]` run the interpreter; what remains are the
  tests on the `recv_timeout` result and the grace-period comparison, which both sides make alike.
  The cases are spread over `RsPoller.lean`, `RsPollerA/B/C.lean` (checked in parallel), `RsPollerAll.lean`
  puts them together.
-/
import ClockBound.Proofs.RsNow
import ClockBound.Proofs.RsTurn
import ClockBound.Rs.EmbedTurn
namespace ClockBound.Rs.PollerProof
open ClockBound ClockBound.Rs ClockBound.Generated ClockBound.Rs.DictPoller ClockBound.Rs.NowProof

/-- the frame of `run_clock_error_bound_poller` -/
abbrev frP : Frame := ⟨"chrony_poller", "", "()"⟩

/-- the PHC configuration an iteration sees -/
abbrev phcOf (refid : Option Nat) (file : PhcFile) : Option PhcCfg := refid.map fun r => ⟨r, file⟩

/-- the state at the top of the loop of `run_clock_error_bound_poller` with poller state `s` -/
abbrev topP (nowNs : Int) (inp : Nat → Value) (pre : List Stmt) (e : IterEnv) (s : PollerState) (refid : Option Nat)
    (log : List Value) (pos : Nat) : St :=
  topSt (ctxP nowNs [] inp) Code.fn_chrony_poller__run_clock_error_bound_poller (pollerArgs e s refid) pre log pos

/-- ONE TURN of the loop of `run_clock_error_bound_poller` (however it is written: `findLoop`) from its top state
    with poller state `s`: the thread panics where the model's message is `panic`; else, the events of `pollTrace`
    appended to the log and as many inputs consumed, the loop is over if `recv_timeout` returned `Ok(ThreadAbort)`
    and otherwise goes on from the top state with the model's new poller state -/
def IterStmt (e : IterEnv) (s : PollerState) (coarse : TimeSpec) (reply : ReplyKind) (tReply tGrace : Int)
    (refid : Option Nat) (file : PhcFile) : Prop :=
  ∀ (nowNs : Int) (inp : Nat → Value) (log : List Value) (pos : Nat) (pre : List Stmt) (c : Expr) (body : List Stmt)
    (_hfl : findLoop Code.fn_chrony_poller__run_clock_error_bound_poller_stmts = some (pre, c, body))
    (_hother : e.other ≠ "ReplyBody::Tracking") (_hsend : e.sendRes = okUnit)
    (_hin : inputsAt inp pos ((pollTrace s coarse reply tReply tGrace (phcOf refid file)).map (pollEvInput e)))
    (K : Nat) (_hK : 60 ≤ K),
    turnIs (ctxP nowNs [] inp) frP c body K
      (evalWhile (K + 2) (ctxP nowNs [] inp) frP c body (topP nowNs inp pre e s refid log pos))
      (if (pollStep s coarse reply tReply tGrace (phcOf refid file)).2 = .panic then .panic
       else if e.isAbort = true then
         .done (log ++ (pollTrace s coarse reply tReply tGrace (phcOf refid file)).map (pollEvValue e))
           (pos + (pollTrace s coarse reply tReply tGrace (phcOf refid file)).length)
       else .next (topP nowNs inp pre e (pollStep s coarse reply tReply tGrace (phcOf refid file)).1 refid
          (log ++ (pollTrace s coarse reply tReply tGrace (phcOf refid file)).map (pollEvValue e))
          (pos + (pollTrace s coarse reply tReply tGrace (phcOf refid file)).length)))

-- the embeddings that the evaluation of a turn unfolds
macro "poll_simp" : tactic => `(tactic| (
  simp (maxSteps := 400000) [rs_eval, rs_code, pollerArgs, pollerValue, contextValue, okTimespec, ctimespecValue,
    optPhcValue, trackingValue, IterEnv.recvRes, IterEnv.isAbort, pollStep, pollTrace, pollEvValue, pollMsgValue,
    replyValue, phcFileValue, PollerState.withinGrace, Poller.elapsed, GRACE_NS, PhcFile.read, Nat.add_assoc,
    turnIs_ite, turnIs_panic, turnIs_done, turnIs_next, *]))

set_option hygiene false in
macro "iter_start" : tactic => `(tactic| (
  intro nowNs inp log pos pre c body hfl hother hsend hin K hK
  obtain ⟨M, rfl⟩ : ∃ M, K = M + 60 := ⟨K - 60, by omega⟩
  simp [rs_eval, rs_code] at hfl
  obtain ⟨rfl, rfl, rfl⟩ := hfl
  simp only [ctxP, topP, linuxUses_eq]
  simp [pollTrace, inputsAt, pollEvInput, replyValue, phcFileValue, PhcFile.read, *] at hin
  -- the condition of the loop holds at its top (the flag is set / `loop`): one run of the body
  rw [evalWhile_true (h := by
    simp [rs_eval, rs_code, pollerArgs, pollerValue, contextValue, optPhcValue])]))

macro "poll_tie" : tactic => `(tactic| poll_simp)

-- the tests that remain: the `recv_timeout` result, the grace comparison; when the loop is over because a flag was
-- cleared, one more evaluation of its condition
set_option hygiene false in
macro "poll_finish" : tactic => `(tactic| (
  cases hrecvOk : e.recvOk <;> simp [rs_eval, hrecvOk] <;> split_ifs <;>
    first
    | (simp_all [rs_eval]; done)
    | (rw [evalWhile_false (h := by simp [rs_eval])]; simp_all [rs_eval, St.popTo]; done)))

set_option maxRecDepth 8000 in
set_option maxHeartbeats 4000000 in
theorem iter_none (e : IterEnv) (s : PollerState) (coarse : TimeSpec) (tReply tGrace : Int)
    (refid : Option Nat) (file : PhcFile) : IterStmt e s coarse .none tReply tGrace refid file := by
  -- `refid` is split although this path never looks at `phc_info`: if the code passes `phc_info` to a helper
  -- function (seeded refactoring harmless-8) the interpreter must see the constructor of its value
  cases refid <;>
  · iter_start
    obtain ⟨h0, h1, h2, h3, h4⟩ := hin
    poll_tie
    poll_finish

end ClockBound.Rs.PollerProof
