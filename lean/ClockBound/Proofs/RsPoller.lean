/-
  Proofs of the translation tie for the chrony poller (statements in `Properties/CodeTiePoller.lean`):
  one iteration of the loop body of `run_clock_error_bound_poller`, for every fuel `N ≥ 60` (so that the
  loop lemmas of `Proofs/RsLoop.lean` apply).  Method: split the MODEL's inputs (reply kind, PHC
  configured / matching, state of the sysfs file), turn the hypothesis on the input stream into one
  equation per input consumed, and let `simp [rs_eval, rs_code]` run the interpreter; what remains are the
  tests on the `recv_timeout` result and the grace-period comparison, which both sides make alike.
  The cases are spread over `RsPoller.lean`, `RsPollerA/B/C.lean` (checked in parallel), `RsPollerAll.lean`
  puts them together.
-/
import ClockBound.Proofs.RsNow
import ClockBound.Proofs.RsLoop
namespace ClockBound.Rs.PollerProof
open ClockBound ClockBound.Rs ClockBound.Generated ClockBound.Rs.DictPoller ClockBound.Rs.NowProof

/-- the frame of `run_clock_error_bound_poller` -/
abbrev frP : Frame := ⟨"chrony_poller", "", "()"⟩

/-- the PHC configuration an iteration sees -/
abbrev phcOf (refid : Option Nat) (file : PhcFile) : Option PhcCfg := refid.map fun r => ⟨r, file⟩

/-- one iteration of the loop body from the loop state with poller state `s`: whatever the loop does next
    (`next`), it does it from the loop state with the model's new poller state, the events of `pollTrace`
    appended to the log and as many inputs consumed; `keep_running` is false iff `recv_timeout` returned
    `Ok(ThreadAbort)`; where the model's message is `panic` the thread panics -/
def IterStmt (e : IterEnv) (s : PollerState) (coarse : TimeSpec) (reply : ReplyKind) (tReply tGrace : Int)
    (refid : Option Nat) (file : PhcFile) : Prop :=
  ∀ (nowNs : Int) (inp : Nat → Value) (log : List Value) (pos : Nat) (c : Expr) (body : List Stmt)
    (_hfw : findWhile Code.fn_chrony_poller__run_clock_error_bound_poller_stmts = some (c, body))
    (_hother : e.other ≠ "ReplyBody::Tracking") (_hsend : e.sendRes = okUnit)
    (_hin : inputsAt inp pos ((pollTrace s coarse reply tReply tGrace (phcOf refid file)).map (pollEvInput e)))
    (N : Nat) (_hN : 60 ≤ N) (next : St → Res),
    ((evalBlock N (ctxP nowNs [] inp) frP body (pollerLoopSt e true s refid log pos)).popTo 5).loopNext next
    = if (pollStep s coarse reply tReply tGrace (phcOf refid file)).2 = .panic then .panic
      else next (pollerLoopSt e (!e.isAbort) (pollStep s coarse reply tReply tGrace (phcOf refid file)).1 refid
        (log ++ (pollTrace s coarse reply tReply tGrace (phcOf refid file)).map (pollEvValue e))
        (pos + (pollTrace s coarse reply tReply tGrace (phcOf refid file)).length))

set_option hygiene false in
macro "iter_start" : tactic => `(tactic| (
  intro nowNs inp log pos c body hfw hother hsend hin N hN next
  obtain ⟨M, rfl⟩ : ∃ M, N = M + 60 := ⟨N - 60, by omega⟩
  simp [rs_eval, rs_code] at hfw
  obtain ⟨rfl, rfl⟩ := hfw
  simp only [ctxP, linuxUses_eq]
  simp [pollTrace, inputsAt, pollEvInput, replyValue, phcFileValue, PhcFile.read, *] at hin))

macro "poll_tie" : tactic => `(tactic| (
  simp (maxSteps := 400000) [rs_eval, rs_code, pollerLoopSt, pollerValue, contextValue, okTimespec, ctimespecValue,
    optPhcValue, trackingValue, IterEnv.recvRes, IterEnv.isAbort, pollStep, pollTrace, pollEvValue, pollMsgValue,
    replyValue, phcFileValue, PollerState.withinGrace, Poller.elapsed, GRACE_NS, PhcFile.read, Nat.add_assoc, *]))

-- the tests that remain: the `recv_timeout` result, the grace comparison
set_option hygiene false in
macro "poll_finish" : tactic => `(tactic| (
  cases hrecvOk : e.recvOk <;> simp [rs_eval, hrecvOk] <;> split_ifs <;> simp_all [rs_eval]))

set_option maxRecDepth 8000 in
set_option maxHeartbeats 4000000 in
theorem iter_none (e : IterEnv) (s : PollerState) (coarse : TimeSpec) (tReply tGrace : Int)
    (refid : Option Nat) (file : PhcFile) : IterStmt e s coarse .none tReply tGrace refid file := by
  -- `refid` is split although this path never looks at `phc_info`: if the code passes `phc_info` to a helper
  -- function (seeded refactoring harmless-8) the interpreter must see the constructor of its value
  cases refid <;>
  · iter_start
    obtain ⟨h0, h1, h2, h3, h4⟩ := hin
    poll_tie
    poll_finish

end ClockBound.Rs.PollerProof
