/-
  `ShmReader::snapshot`, the retry loop in its `while retries > 0 { .. retries -= 1; }` form (the form of the
  source at HEAD).  Every lemma is about the loop that `findWhile` finds in the generated body; if the body
  has no `while` (the `for` form, `Proofs/RsSnapFor.lean`) the lemmas hold vacuously.
-/
import ClockBound.Proofs.RsSeqlock
namespace ClockBound.Rs.SeqlockProof
open ClockBound ClockBound.Rs ClockBound.Generated ClockBound.Rs.DictShm ClockBound.Rs.EmbedShm

/-- the loop state of the `while` form: the generic layout (`LSg`, read off the probe run) -/
abbrev LS (t : IntTy) (v : Nat) : MkSt := LSg t v

/-- what `simp` needs to evaluate the layout -/
theorem goodMk_LS (t : IntTy) (v : Nat) (c : Expr) (b : List Stmt)
    (hcb : findWhile Code.fn_ShmReader__snapshot_stmts = some (c, b)) : GoodMk (LS t v) := by
  first
  | (exfalso; simp [rs_eval] at hcb; done)
  | (intro k g1 cg cache lg pos; simp [LSg, probeEnv, probeSt, loopPrefix, probeInp, relabel, sfr, rs_eval, rs_code, rawInp, readerValue, wordsValue, envGet])

set_option maxRecDepth 8000 in
/-- the loop condition `retries > 0` on a positive budget -/
theorem cond_succ (inp : Nat → Nat) (nowNs : Int) (sizes : List (String × Nat)) (c : Expr) (b : List Stmt)
    (hcb : findWhile Code.fn_ShmReader__snapshot_stmts = some (c, b))
    (t : IntTy) (ht : t = .infer ∨ t = .i32) (k g1 v cg : Nat) (cache : List Nat) (lg : List Value) (pos : Nat)
    (N : Nat) (hN : 30 ≤ N) :
    eval N (sctx nowNs sizes inp) sfr c (LS t v (k + 1) g1 cg cache lg pos)
    = .val (.bool true) (LS t v (k + 1) g1 cg cache lg pos) := by
  first
  | (exfalso; simp [rs_eval] at hcb; done)
  | (simp [rs_eval] at hcb
     obtain ⟨rfl, rfl⟩ := hcb
     obtain ⟨M, rfl⟩ := Nat.exists_eq_add_of_le' hN
     have h : (0 : Int) < (k : Int) + 1 := by omega
     rcases ht with rfl | rfl <;> simp [rs_eval, rs_code, LSg, probeEnv, probeSt, loopPrefix, probeInp, relabel, rawInp, readerValue, wordsValue, sfr, h])

set_option maxRecDepth 8000 in
/-- … and on an exhausted one -/
theorem cond_zero (inp : Nat → Nat) (nowNs : Int) (sizes : List (String × Nat)) (c : Expr) (b : List Stmt)
    (hcb : findWhile Code.fn_ShmReader__snapshot_stmts = some (c, b))
    (t : IntTy) (ht : t = .infer ∨ t = .i32) (g1 v cg : Nat) (cache : List Nat) (lg : List Value) (pos : Nat)
    (N : Nat) (hN : 30 ≤ N) :
    eval N (sctx nowNs sizes inp) sfr c (LS t v 0 g1 cg cache lg pos)
    = .val (.bool false) (LS t v 0 g1 cg cache lg pos) := by
  first
  | (exfalso; simp [rs_eval] at hcb; done)
  | (simp [rs_eval] at hcb
     obtain ⟨rfl, rfl⟩ := hcb
     obtain ⟨M, rfl⟩ := Nat.exists_eq_add_of_le' hN
     rcases ht with rfl | rfl <;> simp [rs_eval, rs_code, LSg, probeEnv, probeSt, loopPrefix, probeInp, relabel, rawInp, readerValue, wordsValue, sfr])

set_option maxRecDepth 8000 in
set_option maxHeartbeats 2000000 in
/-- one run of the loop body: the volatile copy, the fence, the re-check; then either the snapshot is
    accepted (`return Ok(..)` with the cache updated) or the loop goes on with one retry less and, if the
    generation seen is even, with that generation as the one to confirm -/
theorem iter_eq (inp : Nat → Nat) (nowNs : Int) (sizes : List (String × Nat)) (c : Expr) (b : List Stmt)
    (hcb : findWhile Code.fn_ShmReader__snapshot_stmts = some (c, b))
    (t : IntTy) (ht : t = .infer ∨ t = .i32) (k g1 v cg : Nat) (cache : List Nat) (lg : List Value) (pos : Nat)
    (hk : k + 1 ≤ 2147483647) (hpos : AttemptPos pos) (N : Nat) (hN : 30 ≤ N) (next : St → Res) :
    ((evalBlock N (sctx nowNs sizes inp) sfr b (LS t v (k + 1) g1 cg cache lg pos)).popTo
        (LS t v (k + 1) g1 cg cache lg pos).env.length).loopNext next
    = if g1 = typedInp inp (pos + SL.N) then
        .ret (.enumv "Ok" [wordsValue (SL.attemptCells (typedInp inp) pos)])
          (LS t v (k + 1) g1 g1 (SL.attemptCells (typedInp inp) pos)
            (lg ++ (SL.attemptAccs snapAnn (typedInp inp) pos).map accValue) (pos + SL.N + 1))
      else
        next (LS .i32 v k (if typedInp inp (pos + SL.N) % 2 = 0 then typedInp inp (pos + SL.N) else g1) cg cache
          (lg ++ (SL.attemptAccs snapAnn (typedInp inp) pos).map accValue) (pos + SL.N + 1)) := by
  first
  | (exfalso; simp [rs_eval] at hcb; done)
  | (simp [rs_eval] at hcb
     obtain ⟨rfl, rfl⟩ := hcb
     obtain ⟨M, rfl⟩ := Nat.exists_eq_add_of_le' hN
     have hlo : IntTy.lo .i32 ≤ (k : Int) := by show (-2147483648 : Int) ≤ k; omega
     have hhi : (k : Int) ≤ IntTy.hi .i32 := by show (k : Int) ≤ 2147483647; omega
     have hchk : ∀ st, chkInt .i32 (k : Int) st = .val (.int .i32 k) st :=
       fun st => chkInt_ok .i32 k st (by decide) hlo hhi
     eval_bodyLog hbl
     rcases ht with rfl | rfl <;>
     · simp [rs_eval, rs_code, LSg, probeEnv, probeSt, loopPrefix, probeInp, relabel, sfr, rawInp, readerValue, wordsValue,
         readWords_attempt inp hpos, typedInp_gen2 inp hpos, wordLoads_attempt, hchk, SL.attemptAccs, accValue, locValue,
         locTy, ordValue, snapAnn, hbl, evOrd, isFenceEv, lastOf, ordOfValue, evLoad, evFence]
       split_ifs <;> simp_all <;> omega)

/-- the loop of `ShmReader::snapshot` with a budget of `k` retries, for every fuel ≥ `k + 31` -/
theorem loop_eq (inp : Nat → Nat) (nowNs : Int) (sizes : List (String × Nat)) (c : Expr) (b : List Stmt)
    (hcb : findWhile Code.fn_ShmReader__snapshot_stmts = some (c, b)) (v cg : Nat) (cache : List Nat) :
    ∀ k, k ≤ 2147483647 → ∀ t, (t = .infer ∨ t = .i32) → ∀ pos, AttemptPos pos → ∀ g1 lg N, k + 31 ≤ N →
      evalWhile N (sctx nowNs sizes inp) sfr c b (LS t v k g1 cg cache lg pos)
      = loopOutG (typedInp inp) cg cache (LS .i32 v) (LS t v) k pos g1 lg := by
  intro k
  induction k with
  | zero =>
    intro _ t ht pos _ g1 lg N hN
    obtain ⟨M, rfl⟩ : ∃ M, N = M + 1 := ⟨N - 1, by omega⟩
    rw [evalWhile_succ, cond_zero inp nowNs sizes c b hcb t ht g1 v cg cache lg pos M (by omega)]
    simp [loopOutG, LSg, St.popTo, Res.bind_val]
  | succ k ih =>
    intro hk t ht pos hpos g1 lg N hN
    obtain ⟨M, rfl⟩ : ∃ M, N = M + 1 := ⟨N - 1, by omega⟩
    rw [evalWhile_succ, cond_succ inp nowNs sizes c b hcb t ht k g1 v cg cache lg pos M (by omega)]
    simp only [Res.bind_val, if_true]
    rw [iter_eq inp nowNs sizes c b hcb t ht k g1 v cg cache lg pos hk hpos M (by omega)]
    rw [loopOutG]
    split
    · rfl
    · exact ih (by omega) .i32 (Or.inr rfl) _ hpos.next _ _ M (by omega)

end ClockBound.Rs.SeqlockProof
