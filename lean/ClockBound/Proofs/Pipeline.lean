/-
  Proofs for `Properties/C01Pipeline.lean`.
-/
import ClockBound.Model.Pipeline
import ClockBound.Proofs.Header
import ClockBound.Proofs.Daemon
import ClockBound.Properties.C02
namespace ClockBound.Pipeline.Proofs
open ClockBound ClockBound.SL ClockBound.Pipeline

theorem toI64_ofI64 (x : Int) (h : i64InRange x) : toI64 (ofI64 x) = x := by
  unfold toI64 ofI64
  unfold i64InRange at h
  simp only [TWO63, TWO64] at *
  omega

theorem cells_roundtrip (r : Record) (pad : Nat) (hr : r.inRange) (_hp : pad < TWO32) :
    recordOfCells (cellsOf r pad) = some r := by
  obtain ⟨h1, h2, h3, h4, h5, h6, h7⟩ := hr
  have hc := code_lt r.status
  unfold cellsOf recordOfCells
  have e1 : (r.status.code + TWO32 * pad) % TWO32 = r.status.code := by
    simp only [TWO32] at *; omega
  have e2 : (r.drift + TWO32 * r.reserved) % TWO32 = r.drift := by
    simp only [TWO32] at *; omega
  have e3 : (r.drift + TWO32 * r.reserved) / TWO32 % TWO32 = r.reserved := by
    simp only [TWO32] at *; omega
  simp only [e1, e2, e3, ofCode_code, Option.map_some, toI64_ofI64 _ h1, toI64_ofI64 _ h2,
    toI64_ofI64 _ h3, toI64_ofI64 _ h4, toI64_ofI64 _ h5]

theorem decLE_append (a b : Bytes) : decLE (a ++ b) = decLE a + 256 ^ a.length * decLE b := by
  induction a with
  | nil => simp [decLE]
  | cons x xs ih =>
    simp only [List.cons_append, decLE, ih, List.length_cons, Nat.pow_succ]
    rw [Nat.mul_add, Nat.mul_comm (256 ^ xs.length) 256, Nat.mul_assoc]
    omega

theorem cell_at (pre a post : Bytes) (off : Nat) (hpre : pre.length = off) (ha : a.length = 8) :
    slice (pre ++ (a ++ post)) off 8 = a := by
  subst hpre
  unfold slice
  simp [← ha]

theorem decLE_encI64 (x : Int) : decLE (encI64 x) = ofI64 x := by
  unfold encI64 ofI64
  rw [decLE_encLE]
  have : (x % (TWO64 : Int)).toNat < 256 ^ 8 := by
    simp only [TWO64]; omega
  exact Nat.mod_eq_of_lt this

theorem len_encI64 (x : Int) : (encI64 x).length = 8 := by simp [encI64, length_encLE]
theorem len_encU32 (x : Nat) : (encU32 x).length = 4 := by simp [encU32, length_encLE]

theorem cellsOf_bytes (r : Record) (pad : Nat) (hr : r.inRange) (hp : pad < TWO32) :
    cellsOf r pad = cellsOfBytes (encodeRecordP r (padOf pad)) := by
  obtain ⟨h1, h2, h3, h4, h5, h6, h7⟩ := hr
  have hc := code_lt r.status
  have hpad : padBytes (padOf pad) = encLE 4 pad := by
    unfold padBytes padOf
    simp [encLE, ZERO_PAD]
  unfold cellsOfBytes encodeRecordP
  rw [hpad]
  simp only [N, List.range, List.range.loop, List.map]
  generalize hA : encI64 r.asOf.sec = A
  generalize hB : encI64 r.asOf.nsec = B
  generalize hC : encI64 r.voidAfter.sec = C
  generalize hD : encI64 r.voidAfter.nsec = D
  generalize hE : encI64 r.bound = E
  generalize hF : encU32 r.drift ++ encU32 r.reserved = F
  generalize hG : encU32 r.status.code ++ encLE 4 pad = G
  have lA : A.length = 8 := by rw [← hA]; exact len_encI64 _
  have lB : B.length = 8 := by rw [← hB]; exact len_encI64 _
  have lC : C.length = 8 := by rw [← hC]; exact len_encI64 _
  have lD : D.length = 8 := by rw [← hD]; exact len_encI64 _
  have lE : E.length = 8 := by rw [← hE]; exact len_encI64 _
  have lF : F.length = 8 := by rw [← hF]; simp [len_encU32]
  have lG : G.length = 8 := by rw [← hG]; simp [len_encU32, length_encLE]
  have hall : A ++ B ++ C ++ D ++ E ++ encU32 r.drift ++ encU32 r.reserved ++ encU32 r.status.code ++ encLE 4 pad
      = A ++ (B ++ (C ++ (D ++ (E ++ (F ++ G))))) := by
    rw [← hF, ← hG]; simp [List.append_assoc]
  rw [hall]
  have c0 := cell_at [] A (B ++ (C ++ (D ++ (E ++ (F ++ G))))) 0 rfl lA
  have c1 := cell_at A B (C ++ (D ++ (E ++ (F ++ G)))) 8 lA lB
  have c2 := cell_at (A ++ B) C (D ++ (E ++ (F ++ G))) 16 (by simp [lA, lB]) lC
  have c3 := cell_at (A ++ B ++ C) D (E ++ (F ++ G)) 24 (by simp [lA, lB, lC]) lD
  have c4 := cell_at (A ++ B ++ C ++ D) E (F ++ G) 32 (by simp [lA, lB, lC, lD]) lE
  have c5 := cell_at (A ++ B ++ C ++ D ++ E) F (G ++ []) 40 (by simp [lA, lB, lC, lD, lE]) lF
  have c6 := cell_at (A ++ B ++ C ++ D ++ E ++ F) G [] 48 (by simp [lA, lB, lC, lD, lE, lF]) lG
  simp only [List.append_assoc, List.nil_append, List.append_nil] at c0 c1 c2 c3 c4 c5 c6
  simp only [Nat.mul_zero, Nat.mul_one, Nat.reduceMul, c0, c1, c2, c3, c4, c5, c6]
  subst hA hB hC hD hE hF hG
  simp only [cellsOf, decLE_encI64, decLE_append, encU32, decLE_encLE]
  have e1 : r.drift % 256 ^ 4 = r.drift := Nat.mod_eq_of_lt (by simp only [TWO32] at h6; omega)
  have e2 : r.reserved % 256 ^ 4 = r.reserved := Nat.mod_eq_of_lt (by simp only [TWO32] at h7; omega)
  have e3 : r.status.code % 256 ^ 4 = r.status.code := Nat.mod_eq_of_lt (by simp only [TWO32] at hc; omega)
  have e4 : pad % 256 ^ 4 = pad := Nat.mod_eq_of_lt (by simp only [TWO32] at hp; omega)
  simp only [e1, e2, e3, e4, length_encLE, TWO32]
  norm_num

theorem empty_record_untrusted (real mono e l : TimeSpec) (st : Status)
    (h : computeBoundAt Record.empty real mono = .ok e l st) : st = .unknown := by
  have := computeBoundAt_ok_status h
  simp [clientStatus, Record.empty] at this
  exact this.symm

theorem snapshot_is_published (a : Ann) (ha : a.adequate = true)
    (ver gen : Nat) (cells0 : List Nat) (hc : cells0.length = N) (hg : gen < 65536)
    (s : Sys) (hreach : Reachable a (Sys.init ver gen cells0) s)
    (hnowrap : ∀ t, Reachable a (Sys.init ver gen cells0) t → ∀ g1 retries got pm,
        t.r.pc = .gen2 g1 retries got → (load t.log t.r.view .gen a.rGen2 pm).1 = g1 →
        evenGenBetween t.log t.r.g1Idx (load t.log t.r.view .gen a.rGen2 pm).2.1 < 32767)
    (pub : List Record)
    (hwr : ∀ c ∈ s.written, ∃ r ∈ pub, ∃ pad, pad < TWO32 ∧ r.inRange ∧ c = cellsOf r pad)
    (hini : cells0 = zerosN ∨ ∃ r ∈ pub, ∃ pad, pad < TWO32 ∧ r.inRange ∧ cells0 = cellsOf r pad) :
    ∀ c ∈ s.returned, ∃ r, recordOfCells c = some r ∧ (r = Record.empty ∨ r ∈ pub) := by
  intro c hcr
  have hz : recordOfCells zerosN = some Record.empty := by decide
  rcases C02.no_mixture_general a ha ver gen cells0 hc hg s hreach hnowrap c hcr with h | h | h
  · exact ⟨_, h ▸ hz, Or.inl rfl⟩
  · rcases hini with h0 | ⟨r, hr, pad, hp, hin, h0⟩
    · exact ⟨_, (h.trans h0) ▸ hz, Or.inl rfl⟩
    · exact ⟨r, (h.trans h0) ▸ cells_roundtrip r pad hin hp, Or.inr hr⟩
  · obtain ⟨r, hr, pad, hp, hin, h0⟩ := hwr c h
    exact ⟨r, h0 ▸ cells_roundtrip r pad hin hp, Or.inr hr⟩

end ClockBound.Pipeline.Proofs
