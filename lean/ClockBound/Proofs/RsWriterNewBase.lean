/-
  `ShmWriter::new`: common definitions of the proof (statement in `Properties/CodeTieWriterNew.lean`).  The
  proof is compositional: one lemma per callee (`wipe`, `is_usable_segment` with `ShmReader::new` inlined,
  `mmap_segment_at`, `segment_size`) about `callDecl` from an ARBITRARY interpreter state (any log, any position
  in the input stream, any fuel ≥ the callee's depth), then `Proofs/RsWriterNew.lean` runs `new` itself with
  these lemmas as rewrite rules, so that no callee is evaluated twice.
-/
import ClockBound.Proofs.RsShm
import ClockBound.Proofs.HeaderProg
import ClockBound.Proofs.WriterNewProg
import Mathlib.Tactic.Tauto
namespace ClockBound.Rs.WriterNewProof
open ClockBound ClockBound.Rs ClockBound.Generated ClockBound.Rs.DictShm ClockBound.Rs.EmbedShm

/-- the context: generated tables, the dictionary, the sizes of the two `repr(C)` structs -/
abbrev nctx (inp : Nat → Value) : Ctx := Code.ctxWith 0 DictShm.ext EmbedShm.sizes inp

/-- the events of a successful `wipe` (`hasParent`: `create_dir_all` comes first) -/
def wipeEvents (path parent : Value) (hasParent : Bool) : List Value :=
  (if hasParent then [evFs "create_dir_all" [parent] okUnit] else []) ++
  [evFs "create" [path] (.enumv "Ok" [fileObj]),
   evFs "write_u32" [.int .u32 1095588430] okUnit, evFs "write_u32" [.int .u32 1128399360] okUnit,
   evFs "write_u32" [.int .u32 72] okUnit, evFs "write_u16" [.int .u16 0] okUnit, evFs "write_u16" [.int .u16 0] okUnit,
   evFs "write_all" [.int .usize 56] okUnit, evFs "stream_position" [] (.enumv "Ok" [.int .u64 72]),
   evFs "sync_all" [] okUnit]

/-- the events of `mmap_segment_at` -/
def mapEvents (path : Value) (fd : Nat) : List Value :=
  [evFs "open" [path, .ext "nix" [.str "O_RDWR"], .ext "Mode" [.int .infer 420]] (.enumv "Ok" [.int .i32 fd]),
   evFs "mmap" [.int .usize 72, .int .i32 fd] (.enumv "Ok" [addr "segment"])]

/-- the decision of `ShmReader::new` on a regular file: what `read` returned, the header in the buffer -/
def openDecision (ret : Int) (h : Header) : Except ShmErr Header :=
  match readProg ret 0 h with
  | .error e => .error e
  | .ok h => mapProg false 0 h

/-- how many answers `ShmReader::new` consumes on a regular file -/
def openCount (ret : Int) (h : Header) : Nat :=
  if ret < 16 then 2 else match checkHeader h with | .ok _ => 4 | .error _ => 3

/-- the events of `open` and `read` -/
def openEvents2 (fd : Nat) (ret : Int) : List Value :=
  [evSys "open" [.ext "ptr:c_char" [.str "path"], .ext "libc" [.str "O_RDONLY"]] (.int .i32 fd),
   evSys "read" [.int .i32 fd, .ext "ptr:buf" [], .int .usize 16] (.int .isize ret)]

/-- the events of `ShmReader::new` on a regular file (none of them changes anything) -/
def openEvents (fd : Nat) (ret : Int) (h : Header) : List Value :=
  openEvents2 fd ret ++
  (if ret < 16 then [] else match checkHeader h with
    | .ok _ => [evSys "mmap" [.ext "null" [], .int .usize h.segsize, .ext "libc" [.str "PROT_READ"],
        .ext "libc" [.str "MAP_SHARED"], .int .i32 fd, .int .infer 0] (addr "segment")]
    | .error _ => [])

/-- why `checkHeader` refuses a header -/
theorem checkHeader_error (h : Header) (e : ShmErr) (hc : checkHeader h = .error e) :
    (¬ (h.magic0 = MAGIC0 ∧ h.magic1 = MAGIC1) ∧ e = .notInit) ∨
    ((h.magic0 = MAGIC0 ∧ h.magic1 = MAGIC1) ∧ h.version = 0 ∧ e = .notInit) ∨
    ((h.magic0 = MAGIC0 ∧ h.magic1 = MAGIC1) ∧ h.version ≠ 0 ∧ h.generation = 0 ∧ e = .notInit) ∨
    ((h.magic0 = MAGIC0 ∧ h.magic1 = MAGIC1) ∧ h.version ≠ 0 ∧ h.generation ≠ 0 ∧ h.segsize < HEADER_SIZE ∧ e = .malformed) := by
  unfold checkHeader at hc
  split at hc
  · left; exact ⟨by assumption, by injection hc with hc; exact hc.symm⟩
  · split at hc
    · right; left; exact ⟨by tauto, by assumption, by injection hc with hc; exact hc.symm⟩
    · split at hc
      · right; right; left; exact ⟨by tauto, by assumption, by assumption, by injection hc with hc; exact hc.symm⟩
      · split at hc
        · right; right; right; exact ⟨by tauto, by assumption, by assumption, by assumption, by injection hc with hc; exact hc.symm⟩
        · cases hc

/-- … and what it means that it accepts one -/
theorem checkHeader_ok (h h' : Header) (hc : checkHeader h = .ok h') :
    h' = h ∧ (h.magic0 = MAGIC0 ∧ h.magic1 = MAGIC1) ∧ h.version ≠ 0 ∧ h.generation ≠ 0 ∧ HEADER_SIZE ≤ h.segsize := by
  unfold checkHeader at hc
  split at hc
  · cases hc
  · split at hc
    · cases hc
    · split at hc
      · cases hc
      · split at hc
        · cases hc
        · injection hc with hc
          exact ⟨hc.symm, by tauto, by assumption, by assumption, by omega⟩

/-- the last event of a log -/
def lastEv : List Value → Value
  | [] => .unit
  | [x] => x
  | _ :: y :: r => lastEv (y :: r)

theorem lastEv_append_cons (a : List Value) (x : Value) (b : List Value) : lastEv (a ++ x :: b) = lastEv (x :: b) := by
  induction a with
  | nil => rfl
  | cons y a ih =>
    cases a with
    | nil => simp [lastEv]
    | cons z a => simpa [lastEv] using ih

theorem lastEv_append_append (a b : List Value) (x : Value) (c : List Value) :
    lastEv (a ++ (b ++ x :: c)) = lastEv (x :: c) := by
  rw [← List.append_assoc, lastEv_append_cons]

/-- the memory ordering (as a Rust value) of a store event -/
def storeOrd : Value → Value
  | .ext "store" [_, _, o] => o
  | _ => .unit

/-- the ordering the LAST event of a run names, if it is a store: for `ShmWriter::new` the version store — "the
    ordering the source names", read off by evaluation -/
def lastOrdV : Outcome → Value
  | .ok _ _ l => storeOrd (lastEv l)
  | _ => .unit

theorem ordValue_ordOfValue (v : Value) (o : SL.Ord) (h : ordOfValue v = some o) : v = ordValue o := by
  unfold ordOfValue at h
  split at h <;> first | (injection h with h; subst h; rfl) | cases h

/-- `Result<(), ShmError>` of `is_usable_segment` -/
def usableValue : Except ShmErr Header → Value
  | .ok _ => okUnit
  | .error e => .enumv "Err" [shmErrValue e]

rs_realize_eqns lastEv storeOrd lastOrdV wipeEvents mapEvents openDecision openCount openEvents2 openEvents usableValue

end ClockBound.Rs.WriterNewProof
