/-
  Proofs for `Properties/SeqlockProg.lean`.
-/
import ClockBound.Model.SeqlockProg
import ClockBound.Model.SeqlockSys
namespace ClockBound.SeqlockProg.Proofs
open ClockBound ClockBound.SL

theorem rStep_eq_G (a : Ann) (log : Log) (r : Reader) (pickCell pickMsg : Nat) :
    (rStep a log r pickCell pickMsg).1 = (rStepG a r pickCell (rAnswer a log r pickCell pickMsg)).1 ∧
    (rStep a log r pickCell pickMsg).2.1 = (rStepG a r pickCell (rAnswer a log r pickCell pickMsg)).2.1 := by
  sorry

theorem rStepG_control (a : Ann) (r : Reader) (pickCell v j j' : Nat) (vw vw' : View) :
    (rStepG a r pickCell (v, j, vw)).1.pc = (rStepG a r pickCell (v, j', vw')).1.pc ∧
    (rStepG a r pickCell (v, j, vw)).1.cacheGen = (rStepG a r pickCell (v, j', vw')).1.cacheGen ∧
    (rStepG a r pickCell (v, j, vw)).1.cache = (rStepG a r pickCell (v, j', vw')).1.cache ∧
    (rStepG a r pickCell (v, j, vw)).2 = (rStepG a r pickCell (v, j', vw')).2 := by
  sorry

theorem readerRunG_eq_prog (a : Ann) (inp : Nat → Nat) (r : Reader) (fuel : Nat) (hf : stepBound ≤ fuel) :
    let out := readerRunG a inp fuel r.call 0 []
    let p := readerProg a inp r.cacheGen r.cache
    out.2.1 = some p.2.1 ∧ out.2.2 = p.1 ∧ out.1.cacheGen = p.2.2.1 ∧ out.1.cache = p.2.2.2 ∧ out.1.pc = .idle := by
  sorry

theorem writerRun_eq_prog (a : Ann) (log : Log) (w : Writer) (rec : List Nat) (hl : rec.length = N) :
    let n := 3 + N + (if a.wFence.isSome then 1 else 0)
    let out := writerRun a n log { w with pc := .loadGen rec }
    out.2.pc = .idle ∧
    ∃ msgs, out.1 = log ++ msgs ∧
      msgs.map (fun m => (m.loc, m.val)) = storesOf (writerProg a (latest log .gen) rec) := by
  sorry

end ClockBound.SeqlockProg.Proofs
