/-
  Proofs for `Properties/SeqlockProg.lean`.

  * `rStep_eq_G`, `rStepG_control`: case analysis on the program counter;
  * `readerRunG_eq_prog`: one attempt of the retry loop is a concrete unrolling of `N + 1` (+1 with a fence)
    steps (`attempt_some` / `attempt_none`, uniformly `attempt`); `loop` inducts on the retry budget with the
    fuel, position, generation, accumulator and ghost fields generalised; `prefix_steps` are the two loads
    before the loop. `RETRIES` is never unfolded: it is replaced by `k + 1` once, at the end;
  * `writerRun_eq_prog`: `rec` has seven elements, the 10 / 11 steps are unrolled (`writer_none` / `writer_some`).
-/
import ClockBound.Model.SeqlockProg
import ClockBound.Model.SeqlockSys
namespace ClockBound.SeqlockProg.Proofs
open ClockBound ClockBound.SL

theorem rStep_eq_G (a : Ann) (log : Log) (r : Reader) (pickCell pickMsg : Nat) :
    (rStep a log r pickCell pickMsg).1 = (rStepG a r pickCell (rAnswer a log r pickCell pickMsg)).1 ∧
    (rStep a log r pickCell pickMsg).2.1 = (rStepG a r pickCell (rAnswer a log r pickCell pickMsg)).2.1 := by
  unfold rStep rStepG rAnswer rNext
  cases h : r.pc with
  | copy g1 k todo got =>
    simp only []
    cases h2 : todo[min pickCell (todo.length - 1)]? <;> simp
  | idle => simp
  | version => simp only []; split <;> simp
  | gen1 => simp only []; split <;> simp
  | fence => simp
  | gen2 => simp only []; split <;> (try split) <;> simp

theorem rStepG_control (a : Ann) (r : Reader) (pickCell v j j' : Nat) (vw vw' : View) :
    (rStepG a r pickCell (v, j, vw)).1.pc = (rStepG a r pickCell (v, j', vw')).1.pc ∧
    (rStepG a r pickCell (v, j, vw)).1.cacheGen = (rStepG a r pickCell (v, j', vw')).1.cacheGen ∧
    (rStepG a r pickCell (v, j, vw)).1.cache = (rStepG a r pickCell (v, j', vw')).1.cache ∧
    (rStepG a r pickCell (v, j, vw)).2 = (rStepG a r pickCell (v, j', vw')).2 := by
  unfold rStepG
  cases h : r.pc with
  | copy g1 k todo got =>
    simp only []
    cases h2 : todo[min pickCell (todo.length - 1)]? <;> simp
  | idle => simp
  | version => simp only []; split <;> simp
  | gen1 => simp only []; split <;> simp
  | fence => simp
  | gen2 => simp only []; split <;> (try split) <;> simp

/-! ### the reader call -/

theorem range_7 : List.range 7 = [0, 1, 2, 3, 4, 5, 6] := by decide

theorem attempt_some (a : Ann) (o : Ord) (h : a.rFence = some o) (inp : Nat → Nat) (f pos : Nat) (acc : List Acc)
    (view : View) (cg : Nat) (cache : List Nat) (gi ai g1 k : Nat) :
    readerRunG a inp (f + 9) ⟨.copy g1 k (List.range N) [], view, cg, cache, gi, ai⟩ pos acc =
    if g1 = inp (pos + N) then
      (⟨.idle, fenceAcq view o, g1, attemptCells inp pos, gi, gi⟩, some (.ok (attemptCells inp pos)),
        acc ++ attemptAccs a inp pos)
    else if k ≤ 1 then
      (⟨.idle, fenceAcq view o, cg, cache, gi, ai⟩, some .errNotInit, acc ++ attemptAccs a inp pos)
    else
      readerRunG a inp f
        ⟨.copy (if inp (pos + N) % 2 = 0 then inp (pos + N) else g1) (k - 1) (List.range N) [], fenceAcq view o,
          cg, cache, if inp (pos + N) % 2 = 0 then 0 else gi, ai⟩ (pos + N + 1) (acc ++ attemptAccs a inp pos) := by
  unfold N
  by_cases hg : g1 = inp (pos + 7)
  · simp [readerRunG, rStepG, rNext, afterCopy, h, attemptAccs, attemptCells, assemble, range_7, N, Nat.add_assoc, hg]
  · by_cases hk : k ≤ 1
    · simp [readerRunG, rStepG, rNext, afterCopy, h, attemptAccs, range_7, N, Nat.add_assoc, hg, hk]
    · simp [readerRunG, rStepG, rNext, afterCopy, h, attemptAccs, range_7, N, Nat.add_assoc, hg, hk]

theorem attempt_none (a : Ann) (h : a.rFence = none) (inp : Nat → Nat) (f pos : Nat) (acc : List Acc)
    (view : View) (cg : Nat) (cache : List Nat) (gi ai g1 k : Nat) :
    readerRunG a inp (f + 8) ⟨.copy g1 k (List.range N) [], view, cg, cache, gi, ai⟩ pos acc =
    if g1 = inp (pos + N) then
      (⟨.idle, view, g1, attemptCells inp pos, gi, gi⟩, some (.ok (attemptCells inp pos)),
        acc ++ attemptAccs a inp pos)
    else if k ≤ 1 then
      (⟨.idle, view, cg, cache, gi, ai⟩, some .errNotInit, acc ++ attemptAccs a inp pos)
    else
      readerRunG a inp f
        ⟨.copy (if inp (pos + N) % 2 = 0 then inp (pos + N) else g1) (k - 1) (List.range N) [], view,
          cg, cache, if inp (pos + N) % 2 = 0 then 0 else gi, ai⟩ (pos + N + 1) (acc ++ attemptAccs a inp pos) := by
  unfold N
  by_cases hg : g1 = inp (pos + 7)
  · simp [readerRunG, rStepG, rNext, afterCopy, h, attemptAccs, attemptCells, assemble, range_7, N, Nat.add_assoc, hg]
  · by_cases hk : k ≤ 1
    · simp [readerRunG, rStepG, rNext, afterCopy, h, attemptAccs, range_7, N, Nat.add_assoc, hg, hk]
    · simp [readerRunG, rStepG, rNext, afterCopy, h, attemptAccs, range_7, N, Nat.add_assoc, hg, hk]

/-- one attempt, uniformly in the fence: it takes at most `N + 2` steps -/
theorem attempt (a : Ann) (inp : Nat → Nat) (fuel pos : Nat) (hfu : N + 2 ≤ fuel) (acc : List Acc)
    (view : View) (cg : Nat) (cache : List Nat) (gi ai g1 k : Nat) :
    ∃ (vw : View) (f : Nat), fuel ≤ f + (N + 2) ∧
    readerRunG a inp fuel ⟨.copy g1 k (List.range N) [], view, cg, cache, gi, ai⟩ pos acc =
    if g1 = inp (pos + N) then
      (⟨.idle, vw, g1, attemptCells inp pos, gi, gi⟩, some (.ok (attemptCells inp pos)),
        acc ++ attemptAccs a inp pos)
    else if k ≤ 1 then
      (⟨.idle, vw, cg, cache, gi, ai⟩, some .errNotInit, acc ++ attemptAccs a inp pos)
    else
      readerRunG a inp f
        ⟨.copy (if inp (pos + N) % 2 = 0 then inp (pos + N) else g1) (k - 1) (List.range N) [], vw,
          cg, cache, if inp (pos + N) % 2 = 0 then 0 else gi, ai⟩ (pos + N + 1) (acc ++ attemptAccs a inp pos) := by
  have hN : N = 7 := rfl
  cases h : a.rFence with
  | none =>
    obtain ⟨f, rfl⟩ : ∃ f, fuel = f + 8 := ⟨fuel - 8, by omega⟩
    exact ⟨view, f, by omega, attempt_none a h inp f pos acc view cg cache gi ai g1 k⟩
  | some o =>
    obtain ⟨f, rfl⟩ : ∃ f, fuel = f + 9 := ⟨fuel - 9, by omega⟩
    exact ⟨fenceAcq view o, f, by omega, attempt_some a o h inp f pos acc view cg cache gi ai g1 k⟩

/-- the retry loop of the machine is `readerLoop` -/
theorem loop (a : Ann) (inp : Nat → Nat) (k : Nat) :
    ∀ (fuel pos g1 : Nat) (acc : List Acc) (view : View) (cg : Nat) (cache : List Nat) (gi ai : Nat),
    (N + 2) * (k + 1) ≤ fuel →
    ∃ (vw : View) (gi' ai' : Nat),
    readerRunG a inp fuel ⟨.copy g1 (k + 1) (List.range N) [], view, cg, cache, gi, ai⟩ pos acc =
      match readerLoop a inp (k + 1) pos g1 with
      | (accs, some (g, cells)) => (⟨.idle, vw, g, cells, gi', ai'⟩, some (.ok cells), acc ++ accs)
      | (accs, none) => (⟨.idle, vw, cg, cache, gi', ai'⟩, some .errNotInit, acc ++ accs) := by
  induction k with
  | zero =>
    intro fuel pos g1 acc view cg cache gi ai hfu
    obtain ⟨vw, f, _, he⟩ := attempt a inp fuel pos (by omega) acc view cg cache gi ai g1 1
    rw [he]
    simp only [readerLoop]
    by_cases hg : g1 = inp (pos + N)
    · simp only [hg, if_true]; exact ⟨vw, gi, gi, rfl⟩
    · simp only [hg, if_false, Nat.le_refl, if_true, List.append_nil]; exact ⟨vw, gi, ai, rfl⟩
  | succ k ih =>
    intro fuel pos g1 acc view cg cache gi ai hfu
    obtain ⟨vw, f, hf, he⟩ := attempt a inp fuel pos (by rw [Nat.mul_add] at hfu; omega) acc view cg cache gi ai g1 (k + 1 + 1)
    rw [he]
    rw [readerLoop]
    by_cases hg : g1 = inp (pos + N)
    · simp only [hg, if_true]; exact ⟨vw, gi, gi, rfl⟩
    · have hk : ¬ (k + 1 + 1 ≤ 1) := by omega
      simp only [hg, if_false, hk, Nat.add_sub_cancel]
      obtain ⟨vw2, gi2, ai2, h2⟩ := ih f (pos + N + 1) (if inp (pos + N) % 2 = 0 then inp (pos + N) else g1)
        (acc ++ attemptAccs a inp pos) vw cg cache (if inp (pos + N) % 2 = 0 then 0 else gi) ai
        (by rw [Nat.mul_add] at hfu; omega)
      rw [h2]
      refine ⟨vw2, gi2, ai2, ?_⟩
      rcases readerLoop a inp (k + 1) (pos + N + 1) (if inp (pos + N) % 2 = 0 then inp (pos + N) else g1) with ⟨accs, _ | ⟨g, cells⟩⟩ <;>
        simp [List.append_assoc]

theorem prefix_steps (a : Ann) (inp : Nat → Nat) (f : Nat) (pc : RPc) (view : View) (cg : Nat) (cache : List Nat)
    (gi ai : Nat) :
    readerRunG a inp (f + 2) (Reader.call ⟨pc, view, cg, cache, gi, ai⟩) 0 [] =
    if inp 0 = 0 then (⟨.idle, view, cg, cache, gi, ai⟩, some (.ok cache), [Acc.load .version a.rVersion (inp 0)])
    else if inp 1 = 0 ∨ inp 1 = cg ∨ inp 1 % 2 = 1 then
      (⟨.idle, view, cg, cache, gi, ai⟩, some (.ok cache),
        [Acc.load .version a.rVersion (inp 0), Acc.load .gen a.rGen1 (inp 1)])
    else
      readerRunG a inp f ⟨.copy (inp 1) RETRIES (List.range N) [], view, cg, cache, 0, ai⟩ 2
        [Acc.load .version a.rVersion (inp 0), Acc.load .gen a.rGen1 (inp 1)] := by
  by_cases hv : inp 0 = 0
  · simp [readerRunG, rStepG, Reader.call, hv]
  · by_cases hg : inp 1 = 0 ∨ inp 1 = cg ∨ inp 1 % 2 = 1
    · simp [readerRunG, rStepG, rNext, Reader.call, hv, hg]
    · simp [readerRunG, rStepG, rNext, Reader.call, hv, hg]

theorem readerRunG_eq_prog (a : Ann) (inp : Nat → Nat) (r : Reader) (fuel : Nat) (hf : stepBound ≤ fuel) :
    let out := readerRunG a inp fuel r.call 0 []
    let p := readerProg a inp r.cacheGen r.cache
    out.2.1 = some p.2.1 ∧ out.2.2 = p.1 ∧ out.1.cacheGen = p.2.2.1 ∧ out.1.cache = p.2.2.2 ∧ out.1.pc = .idle := by
  obtain ⟨k, hk⟩ : ∃ k, RETRIES = k + 1 := ⟨999999, rfl⟩
  unfold stepBound at hf
  obtain ⟨f, rfl⟩ : ∃ f, fuel = f + 2 := ⟨fuel - 2, by omega⟩
  obtain ⟨pc, view, cg, cache, gi, ai⟩ := r
  simp only [prefix_steps, readerProg]
  rw [hk] at hf ⊢
  by_cases hv : inp 0 = 0
  · simp [hv]
  · by_cases hg : inp 1 = 0 ∨ inp 1 = cg ∨ inp 1 % 2 = 1
    · simp [hv, hg]
    · obtain ⟨vw, gi', ai', hl⟩ := loop a inp k f 2 (inp 1)
        [Acc.load .version a.rVersion (inp 0), Acc.load .gen a.rGen1 (inp 1)] view cg cache 0 ai
        (by rw [Nat.mul_comm]; omega)
      simp only [hv, hg, if_false]
      rw [hl]
      rcases readerLoop a inp (k + 1) 2 (inp 1) with ⟨accs, _ | ⟨g, cells⟩⟩ <;> simp

/-! ### the writer -/

theorem writer_none (a : Ann) (h : a.wFence = none) (log : Log) (pc : WPc) (rf : Nat) (r0 r1 r2 r3 r4 r5 r6 : Nat) :
    let rc := [r0, r1, r2, r3, r4, r5, r6]
    let out := writerRun a 10 log { ({ pc := pc, relFence := rf } : Writer) with pc := .loadGen rc }
    out.2.pc = .idle ∧
    ∃ msgs, out.1 = log ++ msgs ∧
      msgs.map (fun m => (m.loc, m.val)) = storesOf (writerProg a (latest log .gen) rc) := by
  simp [writerRun, wStep, storeMsg, h, range_7, writerProg, storesOf]

theorem writer_some (a : Ann) (o : Ord) (h : a.wFence = some o) (log : Log) (pc : WPc) (rf : Nat) (r0 r1 r2 r3 r4 r5 r6 : Nat) :
    let rc := [r0, r1, r2, r3, r4, r5, r6]
    let out := writerRun a 11 log { ({ pc := pc, relFence := rf } : Writer) with pc := .loadGen rc }
    out.2.pc = .idle ∧
    ∃ msgs, out.1 = log ++ msgs ∧
      msgs.map (fun m => (m.loc, m.val)) = storesOf (writerProg a (latest log .gen) rc) := by
  simp [writerRun, wStep, storeMsg, h, range_7, writerProg, storesOf]

theorem list_len7 (l : List Nat) (hl : l.length = N) : ∃ r0 r1 r2 r3 r4 r5 r6, l = [r0, r1, r2, r3, r4, r5, r6] := by
  match l, hl with
  | [r0, r1, r2, r3, r4, r5, r6], _ => exact ⟨r0, r1, r2, r3, r4, r5, r6, rfl⟩

theorem writerRun_eq_prog (a : Ann) (log : Log) (w : Writer) (rec : List Nat) (hl : rec.length = N) :
    let n := 3 + N + (if a.wFence.isSome then 1 else 0)
    let out := writerRun a n log { w with pc := .loadGen rec }
    out.2.pc = .idle ∧
    ∃ msgs, out.1 = log ++ msgs ∧
      msgs.map (fun m => (m.loc, m.val)) = storesOf (writerProg a (latest log .gen) rec) := by
  obtain ⟨pc, rf⟩ := w
  obtain ⟨r0, r1, r2, r3, r4, r5, r6, rfl⟩ := list_len7 _ hl
  cases h : a.wFence with
  | none => simpa [h, N] using writer_none a h log pc rf r0 r1 r2 r3 r4 r5 r6
  | some o => simpa [h, N] using writer_some a o h log pc rf r0 r1 r2 r3 r4 r5 r6

end ClockBound.SeqlockProg.Proofs
