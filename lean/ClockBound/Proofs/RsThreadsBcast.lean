/-
  `thread_manager::broadcast_abort` on the dispatch box of the web, for each of the six iteration orders: the two
  sends, in that order, whatever they return.  Stated on `callDecl` for every fuel ≥ 40 and every caller state, so
  that the proof of `main_eq` uses it as a rewrite rule instead of evaluating the function once per order.
-/
import ClockBound.Proofs.RsThreadsBase
namespace ClockBound.Rs.ThreadsProof
open ClockBound ClockBound.Rs ClockBound.Generated ClockBound.Rs.DictThreads ClockBound.Rs.EmbedThreads
open ClockBound.Threads

/-- the Abort sends of a broadcast over a box that iterates in order `ks`: every channel but main's, in that
    order; the i-th send returns `oks[i]` -/
def bcastEvs (ks : List Thread) (ok1 ok2 : Bool) : List MainEv :=
  List.zipWith MainEv.abort (ks.filter (· != .main)) [ok1, ok2]

set_option maxRecDepth 8000 in
set_option maxHeartbeats 4000000 in
theorem bcast_eq (ks : List Thread) (hks : isOrder ks = true) (ok1 ok2 : Bool) (nowNs : Int) (inp : Nat → Value)
    (env : List (String × Value)) (log : List Value) (pos : Nat) (M : Nat)
    (h1 : inp pos = sendResult ok1 RMsg.abort.value) (h2 : inp (pos + 1) = sendResult ok2 RMsg.abort.value) :
    callDecl (M + 40) (Code.ctxWith nowNs DictThreads.ext [] inp) Code.fn_thread_manager__broadcast_abort .unit
      [dispatchValue ks] ⟨env, log, pos⟩
    = .val (.tuple [.unit, .unit]) ⟨env, log ++ (bcastEvs ks ok1 ok2).map MainEv.value, pos + 2⟩ := by
  rcases isOrder_cases hks with h | h | h | h | h | h <;> subst h <;>
    simp [rs_eval, rs_code, dispatchValue, allChans, RMsg.value, h1, h2, bcastEvs, MainEv.value]

end ClockBound.Rs.ThreadsProof
