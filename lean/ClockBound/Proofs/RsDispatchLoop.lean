/-
  `process_messages`: the whole loop, by induction on the list of messages (statement in
  `Properties/CodeTieDispatch.lean`).
-/
import ClockBound.Proofs.RsDispatchData
namespace ClockBound.Rs.DispatchProof
open ClockBound ClockBound.Rs ClockBound.Generated ClockBound.Rs.DictPoller ClockBound.Rs.NowProof

theorem disp_iter (nowNs : Int) (u : Updater) (m : WMsg) (hwf : m.wf = true) : DispStmt nowNs u m := by
  cases m with
  | data t phc asOf => exact disp_data nowNs u t phc asOf
  | nrGrace => exact disp_nrGrace nowNs u
  | phcGrace => exact disp_phcGrace nowNs u
  | nr => exact disp_nr nowNs u
  | phcFail => exact disp_phcFail nowNs u
  | ignored v args => exact disp_ignored nowNs u v args (by simpa [WMsg.wf] using hwf)

/-- a loop that ended: `()`, this log, this many inputs consumed, no `self` -/
def LoopDone (r : Res) (l : List Value) (p : Nat) : Prop :=
  ∃ st : St, r = .val .unit st ∧ st.log = l ∧ st.pos = p ∧ envGet st.env "self" = none

/-- what the whole loop does: the model's `writerRun`, then the abort -/
def LoopIs (r : Res) (log : List Value) (pos n : Nat) : Option (Updater × List Value) → Prop
  | none => r = .panic
  | some (_, l) => LoopDone r (log ++ l ++ [evRecv recvAbort]) (pos + n + 1)

/-- the loop from its top state: the model's `writerRun` over the messages, then the abort -/
theorem loop (nowNs : Int) (inp : Nat → Value) (pre : List Stmt) (c : Expr) (body : List Stmt)
    (hfl : findLoop Code.fn_shm_writer__process_messages_stmts = some (pre, c, body)) :
    ∀ (ms : List WMsg) (_hwf : ∀ m ∈ ms, m.wf = true) (u : Updater) (log : List Value) (pos : Nat)
      (_hin : inputsAt inp pos (ms.map WMsg.recvd ++ [recvAbort])) (N : Nat) (_hN : ms.length + 102 ≤ N),
      LoopIs (evalWhile N (ctxP nowNs [] inp) frW c body (topW nowNs inp pre u log pos)) log pos ms.length
        (writerRun nowNs u ms) := by
  intro ms
  induction ms with
  | nil =>
    intro _ u log pos hin N hN
    obtain ⟨K, rfl⟩ : ∃ K, N = K + 2 := ⟨N - 2, by simp at hN; omega⟩
    simp only [List.map_nil, List.nil_append, inputsAt] at hin
    have T := disp_abort nowNs u inp log pos pre c body hfl hin.1 K (by simp at hN; omega)
    simp only [turnIs_done] at T
    simpa [writerRun, LoopIs, LoopDone] using T
  | cons m ms ih =>
    intro hwf u log pos hin N hN
    obtain ⟨K, rfl⟩ : ∃ K, N = K + 2 := ⟨N - 2, by simp at hN; omega⟩
    simp only [List.map_cons, List.cons_append, inputsAt] at hin
    obtain ⟨h0, hrest⟩ := hin
    have hwf' : ∀ m' ∈ ms, m'.wf = true := fun m' hm' => hwf m' (List.mem_cons_of_mem _ hm')
    have T := disp_iter nowNs u m (hwf m (List.mem_cons_self ..)) inp log pos pre c body hfl h0 K
      (by simp at hN; omega)
    simp only [writerRun]
    cases hm : m.toMsg nowNs with
    | none =>
      rw [hm] at T
      simp only [turnIs_next] at T
      rw [T]
      have IH := ih hwf' u (log ++ [evRecv m.recvd]) (pos + 1) hrest (K + 1) (by simp at hN; omega)
      cases hw : writerRun nowNs u ms with
      | none => rw [hw] at IH; simpa [LoopIs] using IH
      | some p =>
        obtain ⟨u', l⟩ := p
        rw [hw] at IH
        simp only [LoopIs, Option.map_some, List.length_cons, List.append_assoc, List.cons_append,
          List.nil_append] at IH ⊢
        have e : pos + 1 + ms.length + 1 = pos + (ms.length + 1) + 1 := by omega
        rw [e] at IH
        exact IH
    | some msg =>
      rw [hm] at T
      simp only [] at T ⊢
      cases hs : u.step msg with
      | none =>
        rw [hs] at T
        simp only [stepSpec, turnIs_panic] at T
        simp [LoopIs, T]
      | some q =>
        obtain ⟨u1, r⟩ := q
        rw [hs] at T
        simp only [stepSpec, turnIs_next] at T
        simp only []
        rw [T]
        have IH := ih hwf' u1 (log ++ [evRecv m.recvd, recordValue r]) (pos + 1) hrest (K + 1) (by simp at hN; omega)
        cases hw : writerRun nowNs u1 ms with
        | none => rw [hw] at IH; simpa [LoopIs] using IH
        | some p =>
          obtain ⟨u', l⟩ := p
          rw [hw] at IH
          simp only [LoopIs, Option.map_some, List.length_cons, List.append_assoc, List.cons_append,
            List.nil_append] at IH ⊢
          have e : pos + 1 + ms.length + 1 = pos + (ms.length + 1) + 1 := by omega
          rw [e] at IH
          exact IH

set_option maxRecDepth 8000 in
theorem process_messages_run (nowNs : Int) (inp : Nat → Value) (ms : List WMsg) (hwf : ∀ m ∈ ms, m.wf = true)
    (u : Updater) (hin : inputsAt inp 0 (ms.map WMsg.recvd ++ [recvAbort])) (F : Nat) (hF : ms.length + 110 ≤ F) :
    runFuel F (ctxP nowNs [] inp) "shm_writer::process_messages" .unit
      [contextValue "ChannelId::ShmWriter", updaterValue u]
    = match writerRun nowNs u ms with
      | none => .panic
      | some (_, l) => .ok .unit .unit (l ++ [evRecv recvAbort]) := by
  obtain ⟨J, rfl⟩ : ∃ J, F = J + 8 := ⟨F - 8, by omega⟩
  obtain ⟨pre, c, body, hfl⟩ : ∃ pre c body,
      findLoop Code.fn_shm_writer__process_messages_stmts = some (pre, c, body) := by
    simp [rs_eval, rs_code]
  have L := fun N hN => loop nowNs inp pre c body hfl ms hwf u [] 0 hin N hN
  simp [rs_eval, rs_code] at hfl
  obtain ⟨rfl, rfl, rfl⟩ := hfl
  simp only [ctxP, topW, linuxUses_eq] at L ⊢
  simp [rs_eval, rs_code, writerArgs, contextValue, updaterValue, ctimespecValue] at L
  simp [rs_eval, rs_code, contextValue, updaterValue, ctimespecValue]
  generalize hW : evalWhile _ _ _ _ _ _ = W
  first
    | (have h := L (J + 1) (by omega); rw [hW] at h)
    | (have h := L (J + 2) (by omega); rw [hW] at h)
    | (have h := L (J + 3) (by omega); rw [hW] at h)
    | (have h := L (J + 4) (by omega); rw [hW] at h)
    | (have h := L (J + 5) (by omega); rw [hW] at h)
    | (have h := L (J + 6) (by omega); rw [hW] at h)
    | (have h := L (J + 7) (by omega); rw [hW] at h)
    | (have h := L (J + 8) (by omega); rw [hW] at h)
  generalize hR : writerRun _ _ ms = R at h ⊢
  cases R with
  | none => simp only [LoopIs] at h; subst h; simp [rs_eval]
  | some p =>
    obtain ⟨u', l⟩ := p
    obtain ⟨st, rfl, h1, h2, h3⟩ := h
    simp [rs_eval, h1, h3]

/-- the records in the model's log are `Updater.run` over the messages the updater acts on -/
theorem writerRun_records (nowNs : Int) : ∀ (ms : List WMsg) (u u' : Updater) (l : List Value),
    writerRun nowNs u ms = some (u', l) →
    l.filter isRecordValue = (Updater.run u (ms.filterMap (WMsg.toMsg nowNs))).map recordValue := by
  intro ms
  induction ms with
  | nil =>
    intro u u' l h
    simp [writerRun] at h
    obtain ⟨-, rfl⟩ := h
    simp [Updater.run]
  | cons m ms ih =>
    intro u u' l h
    simp only [writerRun] at h
    cases hm : m.toMsg nowNs with
    | none =>
      rw [hm] at h
      simp only [] at h
      cases hw : writerRun nowNs u ms with
      | none => rw [hw] at h; simp at h
      | some p =>
        obtain ⟨u2, l2⟩ := p
        rw [hw] at h
        simp at h
        obtain ⟨-, rfl⟩ := h
        simp [hm, isRecordValue, evRecv, ih u u2 l2 hw]
    | some msg =>
      rw [hm] at h
      simp only [] at h
      cases hs : u.step msg with
      | none => rw [hs] at h; simp at h
      | some q =>
        obtain ⟨u1, r⟩ := q
        rw [hs] at h
        simp only [] at h
        cases hw : writerRun nowNs u1 ms with
        | none => rw [hw] at h; simp at h
        | some p =>
          obtain ⟨u2, l2⟩ := p
          rw [hw] at h
          simp at h
          obtain ⟨-, rfl⟩ := h
          simp [hm, Updater.run, hs, isRecordValue, evRecv, recordValue, ih u1 u2 l2 hw]

end ClockBound.Rs.DispatchProof
