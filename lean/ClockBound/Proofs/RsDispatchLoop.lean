/-
  `process_messages`: the whole loop, by induction on the list of messages (statement in
  `Properties/CodeTieDispatch.lean`).
-/
import ClockBound.Proofs.RsDispatchData
namespace ClockBound.Rs.DispatchProof
open ClockBound ClockBound.Rs ClockBound.Generated ClockBound.Rs.DictPoller ClockBound.Rs.NowProof

theorem disp_iter (nowNs : Int) (u : Updater) (m : WMsg) (hwf : m.wf = true) : DispStmt nowNs u m := by
  cases m with
  | data t phc asOf => exact disp_data nowNs u t phc asOf
  | nrGrace => exact disp_nrGrace nowNs u
  | phcGrace => exact disp_phcGrace nowNs u
  | nr => exact disp_nr nowNs u
  | phcFail => exact disp_phcFail nowNs u
  | ignored v args => exact disp_ignored nowNs u v args (by simpa [WMsg.wf] using hwf)

theorem writerLoopSt_len (k : Bool) (u : Updater) (l : List Value) (p : Nat) :
    (writerLoopSt k u l p).env.length = 3 := rfl

/-- the loop from the loop state: the model's `writerRun` over the messages, then the abort -/
theorem loop (nowNs : Int) (inp : Nat → Value) (c : Expr) (body : List Stmt)
    (hfw : findWhile Code.fn_shm_writer__process_messages_stmts = some (c, body)) :
    ∀ (ms : List WMsg) (_hwf : ∀ m ∈ ms, m.wf = true) (u : Updater) (log : List Value) (pos : Nat)
      (_hin : inputsAt inp pos (ms.map WMsg.recvd ++ [recvAbort])) (N : Nat) (_hN : ms.length + 102 ≤ N),
      evalWhile N (ctxP nowNs [] inp) frW c body (writerLoopSt true u log pos)
      = match writerRun nowNs u ms with
        | none => .panic
        | some (u', l) =>
          .val .unit (writerLoopSt false u' (log ++ l ++ [evRecv recvAbort]) (pos + ms.length + 1)) := by
  have hfw0 := hfw
  simp [rs_eval, rs_code] at hfw
  obtain ⟨hc, -⟩ := hfw
  subst hc
  have hcond : ∀ (K : Nat) (_ : 1 ≤ K) (k : Bool) (u : Updater) (log : List Value) (pos : Nat),
      eval K (ctxP nowNs [] inp) frW (.path ["keep_running"]) (writerLoopSt k u log pos)
      = .val (.bool k) (writerLoopSt k u log pos) := by
    intro K hK k u log pos
    obtain ⟨J, rfl⟩ : ∃ J, K = J + 1 := ⟨K - 1, by omega⟩
    simp [rs_eval, writerLoopSt]
  intro ms
  induction ms with
  | nil =>
    intro _ u log pos hin N hN
    obtain ⟨K, rfl⟩ : ∃ K, N = K + 2 := ⟨N - 2, by simp at hN; omega⟩
    simp only [List.map_nil, List.nil_append, inputsAt] at hin
    rw [evalWhile_succ, hcond _ (by simp at hN; omega)]
    simp only [Res.bind_val, if_true]
    rw [writerLoopSt_len, disp_abort nowNs u inp log pos _ body hfw0 hin.1 (K + 1) (by simp at hN; omega)]
    rw [evalWhile_succ, hcond _ (by simp at hN; omega)]
    simp [writerRun, St.popTo, writerLoopSt, Res.bind_val]
  | cons m ms ih =>
    intro hwf u log pos hin N hN
    obtain ⟨K, rfl⟩ : ∃ K, N = K + 1 := ⟨N - 1, by simp at hN; omega⟩
    simp only [List.map_cons, List.cons_append, inputsAt] at hin
    obtain ⟨h0, hrest⟩ := hin
    have hwf' : ∀ m' ∈ ms, m'.wf = true := fun m' hm' => hwf m' (List.mem_cons_of_mem _ hm')
    rw [evalWhile_succ, hcond _ (by simp at hN; omega)]
    simp only [Res.bind_val, if_true]
    rw [writerLoopSt_len, disp_iter nowNs u m (hwf m (List.mem_cons_self ..)) inp log pos _ body hfw0 h0 K
      (by simp at hN; omega)]
    simp only [writerRun]
    cases hm : m.toMsg nowNs with
    | none =>
      simp only []
      rw [ih hwf' u _ _ hrest K (by simp at hN; omega)]
      cases writerRun nowNs u ms with
      | none => rfl
      | some p =>
        obtain ⟨u', l⟩ := p
        simp only [Option.map_some, List.length_cons, List.append_assoc, List.cons_append, List.nil_append]
        congr 2
        omega
    | some msg =>
      simp only []
      cases hs : u.step msg with
      | none => rfl
      | some q =>
        obtain ⟨u1, r⟩ := q
        simp only [stepRes]
        rw [ih hwf' u1 _ _ hrest K (by simp at hN; omega)]
        cases writerRun nowNs u1 ms with
        | none => rfl
        | some p =>
          obtain ⟨u', l⟩ := p
          simp only [Option.map_some, List.length_cons, List.append_assoc, List.cons_append, List.nil_append]
          congr 2
          omega

set_option maxRecDepth 8000 in
theorem process_messages_run (nowNs : Int) (inp : Nat → Value) (ms : List WMsg) (hwf : ∀ m ∈ ms, m.wf = true)
    (u : Updater) (hin : inputsAt inp 0 (ms.map WMsg.recvd ++ [recvAbort])) (F : Nat) (hF : ms.length + 110 ≤ F) :
    runFuel F (ctxP nowNs [] inp) "shm_writer::process_messages" .unit
      [contextValue "ChannelId::ShmWriter", updaterValue u]
    = match writerRun nowNs u ms with
      | none => .panic
      | some (_, l) => .ok .unit .unit (l ++ [evRecv recvAbort]) := by
  obtain ⟨J, rfl⟩ : ∃ J, F = J + 10 := ⟨F - 10, by omega⟩
  obtain ⟨c, body, hfw⟩ : ∃ c body, findWhile Code.fn_shm_writer__process_messages_stmts = some (c, body) := by
    simp [rs_eval, rs_code]
  have L := fun N hN => loop nowNs inp c body hfw ms hwf u [] 0 hin N hN
  simp [rs_eval, rs_code] at hfw
  obtain ⟨rfl, rfl⟩ := hfw
  simp only [ctxP, linuxUses_eq] at L ⊢
  simp [rs_eval, writerLoopSt, contextValue, updaterValue, ctimespecValue] at L
  simp [rs_eval, rs_code, contextValue, updaterValue, ctimespecValue]
  rw [L (J + 6) (by omega)]
  cases writerRun nowNs u ms with
  | none => simp [rs_eval]
  | some p =>
    obtain ⟨u', l⟩ := p
    simp [rs_eval]

/-- the records in the model's log are `Updater.run` over the messages the updater acts on -/
theorem writerRun_records (nowNs : Int) : ∀ (ms : List WMsg) (u u' : Updater) (l : List Value),
    writerRun nowNs u ms = some (u', l) →
    l.filter isRecordValue = (Updater.run u (ms.filterMap (WMsg.toMsg nowNs))).map recordValue := by
  intro ms
  induction ms with
  | nil =>
    intro u u' l h
    simp [writerRun] at h
    obtain ⟨-, rfl⟩ := h
    simp [Updater.run]
  | cons m ms ih =>
    intro u u' l h
    simp only [writerRun] at h
    cases hm : m.toMsg nowNs with
    | none =>
      rw [hm] at h
      simp only [] at h
      cases hw : writerRun nowNs u ms with
      | none => rw [hw] at h; simp at h
      | some p =>
        obtain ⟨u2, l2⟩ := p
        rw [hw] at h
        simp at h
        obtain ⟨-, rfl⟩ := h
        simp [hm, isRecordValue, evRecv, ih u u2 l2 hw]
    | some msg =>
      rw [hm] at h
      simp only [] at h
      cases hs : u.step msg with
      | none => rw [hs] at h; simp at h
      | some q =>
        obtain ⟨u1, r⟩ := q
        rw [hs] at h
        simp only [] at h
        cases hw : writerRun nowNs u1 ms with
        | none => rw [hw] at h; simp at h
        | some p =>
          obtain ⟨u2, l2⟩ := p
          rw [hw] at h
          simp at h
          obtain ⟨-, rfl⟩ := h
          simp [hm, Updater.run, hs, isRecordValue, evRecv, recordValue, ih u1 u2 l2 hw]

end ClockBound.Rs.DispatchProof
