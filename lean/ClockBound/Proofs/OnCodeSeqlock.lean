/-
  Helpers for `Properties/OnCodeSeqlock.lean`: decoding the logged events back into generation stores, the length
  of the accesses of the reader machine, histories of `write` calls as runs of `GState`.
-/
import ClockBound.Properties.CodeTieSeqlock
import ClockBound.Properties.C11
import ClockBound.Properties.C18
namespace ClockBound.OnCode
open ClockBound ClockBound.Rs ClockBound.Rs.DictShm ClockBound.Rs.EmbedShm

/-- the value a logged event stores to the generation field, if it is such a store -/
def genStoreOf : Value → Option Nat
  | .ext "store" [.str "generation", .int .u16 v, _] => some v.toNat
  | _ => none

/-- the generation stores among logged events, in order -/
def genStores (l : List Value) : List Nat := l.filterMap genStoreOf

/-- the events an outcome logged (`[]` unless it returned) -/
def eventsOf : Rs.Outcome → List Value
  | .ok _ _ l => l
  | _ => []

theorem genStores_writerProg (a : SL.Ann) (g : Nat) (cells : List Nat) :
    genStores ((SL.writerProg a g cells).map accValue) = [genStart g, genFinish (genStart g)] := by
  have hcell : ∀ l : List Nat, List.filterMap genStoreOf
      (l.map fun c => accValue (SL.Acc.store (.cell c) .relaxed (cells[c]?.getD 0))) = [] := by
    intro l
    induction l with
    | nil => rfl
    | cons c l ih => simp [List.filterMap_cons, genStoreOf, accValue, locValue, evStore, cellLoc, ih]
  unfold genStores SL.writerProg
  cases a.wFence <;>
    simp [List.filterMap_append, List.filterMap_cons, genStoreOf, accValue, locValue, locTy, evStore, evLoad, evFence,
      List.map_map, Function.comp_def, hcell]

/-- every step of the reader machine adds at most one access -/
theorem readerRunG_length (a : SL.Ann) (inp : Nat → Nat) :
    ∀ fuel r pos acc, (SL.readerRunG a inp fuel r pos acc).2.2.length ≤ acc.length + fuel := by
  intro fuel
  induction fuel with
  | zero => intro r pos acc; simp [SL.readerRunG]
  | succ n ih =>
    intro r pos acc
    rw [SL.readerRunG]
    have hl : (acc ++ (SL.rStepG a r 0 (inp pos, 0, r.view)).2.2.toList).length ≤ acc.length + 1 := by
      cases (SL.rStepG a r 0 (inp pos, 0, r.view)).2.2 <;> simp
    split
    · show (acc ++ (SL.rStepG a r 0 (inp pos, 0, r.view)).2.2.toList).length ≤ acc.length + (n + 1)
      omega
    · have := ih (SL.rStepG a r 0 (inp pos, 0, r.view)).1
        (if (SL.rNext a r 0).isSome = true then pos + 1 else pos)
        (acc ++ (SL.rStepG a r 0 (inp pos, 0, r.view)).2.2.toList)
      omega

/-- a history of `write` calls: `true` = the call completed, `false` = the writer died between its two stores -/
def callEvents : List Bool → List GEv
  | [] => []
  | true :: rest => .start :: .finish :: callEvents rest
  | false :: rest => .start :: .crash :: callEvents rest

theorem run_calls (calls : List Bool) : ∀ s : GState, s.mid = false →
    ((callEvents calls).foldl GState.step s).mid = false ∧
    ((callEvents calls).foldl GState.step s).g
      = calls.foldl (fun g c => if c then genFinish (genStart g) else genStart g) s.g := by
  induction calls with
  | nil => intro s hs; exact ⟨hs, rfl⟩
  | cons c rest ih =>
    intro s hs
    cases c
    · simp only [callEvents, List.foldl_cons]
      have := ih ((s.step .start).step .crash) (by simp [GState.step, hs])
      simpa [GState.step, hs] using this
    · simp only [callEvents, List.foldl_cons]
      have := ih ((s.step .start).step .finish) (by simp [GState.step, hs])
      simpa [GState.step, hs] using this

end ClockBound.OnCode
