/- chrony poller iteration with a failing `send`, part 2: the PHC is the reference -/
import ClockBound.Proofs.RsPollerD
namespace ClockBound.Rs.PollerProof
open ClockBound ClockBound.Rs ClockBound.Generated ClockBound.Rs.DictPoller ClockBound.Rs.NowProof

set_option maxRecDepth 8000 in
set_option maxHeartbeats 4000000 in
theorem sf_phc_ok (e : IterEnv) (s : PollerState) (coarse : TimeSpec) (t : Tracking) (v : Int) (hv : inI64 v = true) (tReply tGrace : Int)
    : IterSendFails e s coarse (.tracking t) tReply tGrace (some t.refid) (.ok v) := by
  have hv' : -9223372036854775808 ≤ v ∧ v ≤ 9223372036854775807 := by
    by_contra h
    simp [inI64, I64_MIN, I64_MAX, h] at hv
  obtain ⟨hv1, hv2⟩ := hv'
  fail_start
  obtain ⟨h0, h1, h2, h3, h4, h5⟩ := hin
  fail_tie

set_option maxRecDepth 8000 in
set_option maxHeartbeats 4000000 in
theorem sf_phc_range (e : IterEnv) (s : PollerState) (coarse : TimeSpec) (t : Tracking) (v : Int) (hv : inI64 v = false) (tReply tGrace : Int)
    : IterSendFails e s coarse (.tracking t) tReply tGrace (some t.refid) (.ok v) := by
  have hv' : ¬ (-9223372036854775808 ≤ v ∧ v ≤ 9223372036854775807) := by
    intro h
    simp [inI64, I64_MIN, I64_MAX, h] at hv
  fail_start
  obtain ⟨h0, h1, h2, h3⟩ := hin
  fail_tie

set_option maxRecDepth 8000 in
set_option maxHeartbeats 4000000 in
theorem sf_phc_garbage (e : IterEnv) (s : PollerState) (coarse : TimeSpec) (t : Tracking) (tReply tGrace : Int)
    : IterSendFails e s coarse (.tracking t) tReply tGrace (some t.refid) .unparsable := by
  fail_start
  obtain ⟨h0, h1, h2, h3⟩ := hin
  fail_tie

end ClockBound.Rs.PollerProof
