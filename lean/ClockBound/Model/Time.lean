/-
  Mirror of nix 0.26.4 `sys::time::TimeSpec` as used by clock-bound-shm, with i64 arithmetic made
  explicit: every operation that would panic in a dev-profile build (overflow checks on, nix's own
  assertion in `TimeSpec::nanoseconds`) yields `none`.
-/
namespace ClockBound

def I64_MAX : Int := 9223372036854775807
def I64_MIN : Int := -9223372036854775808
def NANOS : Int := 1000000000

def inI64 (x : Int) : Bool := decide (I64_MIN ≤ x ∧ x ≤ I64_MAX)

/-- checked i64 result: `none` = arithmetic overflow panic -/
def chk (x : Int) : Option Int := if inI64 x then some x else none

structure TimeSpec where
  sec : Int
  nsec : Int
deriving Repr, BEq, DecidableEq, Inhabited

namespace TimeSpec

/-- nix `TS_MAX_SECONDS = i64::MAX / 10^9 - 1` -/
def TS_MAX_SECONDS : Int := 9223372035

/-- nix `Ord for TimeSpec`: lexicographic on (tv_sec, tv_nsec), *assuming* normalisation. -/
def lt (a b : TimeSpec) : Bool :=
  if a.sec = b.sec then decide (a.nsec < b.nsec) else decide (a.sec < b.sec)
def le (a b : TimeSpec) : Bool :=
  if a.sec = b.sec then decide (a.nsec ≤ b.nsec) else decide (a.sec < b.sec)

/-- nix `num_seconds` -/
def numSeconds (t : TimeSpec) : Int :=
  if t.sec < 0 ∧ t.nsec > 0 then t.sec + 1 else t.sec

/-- nix `nanos_mod_sec` (i64 subtraction, checked) -/
def nanosModSec (t : TimeSpec) : Option Int :=
  if t.sec < 0 ∧ t.nsec > 0 then chk (t.nsec - NANOS) else some t.nsec

/-- nix `num_nanoseconds`: `num_seconds()*10^9 + nanos_mod_sec()` with i64 overflow checks -/
def numNanoseconds (t : TimeSpec) : Option Int := do
  let secs ← chk (t.numSeconds * NANOS)
  let ns ← t.nanosModSec
  chk (secs + ns)

/-- nix `TimeSpec::nanoseconds`: floor div/mod + range assertion -/
def nanoseconds (n : Int) : Option TimeSpec :=
  let secs := n / NANOS      -- Int `/` and `%` are floor division for positive divisor
  let nanos := n % NANOS
  if -TS_MAX_SECONDS ≤ secs ∧ secs ≤ TS_MAX_SECONDS then some ⟨secs, nanos⟩ else none

/-- nix `Add` -/
def add (a b : TimeSpec) : Option TimeSpec := do
  let x ← a.numNanoseconds
  let y ← b.numNanoseconds
  let s ← chk (x + y)
  nanoseconds s

/-- nix `Sub` -/
def sub (a b : TimeSpec) : Option TimeSpec := do
  let x ← a.numNanoseconds
  let y ← b.numNanoseconds
  let s ← chk (x - y)
  nanoseconds s

/-- exact value in ns of a normalised timespec -/
def toNs (t : TimeSpec) : Int := t.sec * NANOS + t.nsec

def normalized (t : TimeSpec) : Prop := 0 ≤ t.nsec ∧ t.nsec < NANOS

instance : Decidable (normalized t) := by unfold normalized; infer_instance

end TimeSpec
end ClockBound
