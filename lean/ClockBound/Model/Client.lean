/-
  Model of clock-bound-shm/src/lib.rs: `ClockErrorBound::compute_bound_at`, line by line.
-/
import ClockBound.Model.Time
import ClockBound.Model.F64
namespace ClockBound

inductive Status | unknown | synchronized | freeRunning
deriving Repr, BEq, DecidableEq, Inhabited

def Status.code : Status → Nat
  | .unknown => 0 | .synchronized => 1 | .freeRunning => 2

def Status.ofCode : Nat → Option Status
  | 0 => some .unknown | 1 => some .synchronized | 2 => some .freeRunning | _ => none

/-- the 56-byte `ClockErrorBound` record of the shared-memory segment -/
structure Record where
  asOf : TimeSpec
  voidAfter : TimeSpec
  bound : Int          -- i64 bound_nsec
  drift : Nat          -- u32 max_drift_ppb
  reserved : Nat       -- u32
  status : Status
deriving Repr, BEq, DecidableEq, Inhabited

def Record.empty : Record := ⟨⟨0,0⟩, ⟨0,0⟩, 0, 0, 0, .unknown⟩

inductive Outcome
  | ok (earliest latest : TimeSpec) (status : Status)
  | malformed
  | causality
  | panic
deriving Repr, BEq, DecidableEq, Inhabited

def GRACE : TimeSpec := ⟨5, 0⟩
def BLUR : TimeSpec := ⟨0, 1000⟩

/-- the status the client reports (lib.rs lines 214-235); `none` = panic in `as_of + 5 s` -/
def clientStatus (r : Record) (mono : TimeSpec) : Option Status :=
  match r.status with
  | .unknown => some .unknown
  | s =>
    match r.asOf.add GRACE with
    | none => none
    | some lim =>
      if mono.lt lim then some s
      else if mono.lt r.voidAfter then some .freeRunning
      else some .unknown

/-- `(duration_sec * max_drift_ppb as f64) as i64` with `duration_sec = ns as f64 / 1e9` -/
def growth (durNs : Int) (drift : Nat) : Int :=
  F64.castI64 (F64.mul (F64.div (F64.ofInt durNs) 1000000000) (F64.ofInt drift))

def optOut (o : Option Outcome) : Outcome := o.getD .panic

/-- `compute_bound_at(real, mono)` -/
def computeBoundAt (r : Record) (real mono : TimeSpec) : Outcome :=
  if r.drift ≥ 1000000000 then .malformed else
  match clientStatus r mono with
  | none => .panic
  | some st =>
  match r.asOf.sub BLUR with
  | none => .panic
  | some blur =>
    let dur : Option (Option TimeSpec) :=            -- outer none = causality, inner none = panic
      if r.asOf.le mono then some (mono.sub r.asOf)
      else if blur.lt mono then some (some ⟨0, 0⟩)
      else none
    match dur with
    | none => .causality
    | some none => .panic
    | some (some d) =>
      match d.numNanoseconds with
      | none => .panic
      | some dn =>
        match chk (r.bound + growth dn r.drift) with
        | none => .panic
        | some ub =>
          match TimeSpec.nanoseconds ub with
          | none => .panic
          | some ubts =>
            match real.sub ubts, real.add ubts with
            | some e, some l => .ok e l st
            | _, _ => .panic

end ClockBound
