/-
  Bit-exact model of the IEEE-754 binary64 operations that aws/clock-bound uses, on `Rat`.

  Every finite double is a rational number, so a double is represented by its value and every
  operation is "compute exactly, then round to nearest, ties to even, to 53 significant bits".
  The exponent range is NOT modelled (no overflow to infinity, no subnormals): all theorems that
  use these definitions carry range hypotheses under which neither can occur, and the
  correspondence check compares results bit for bit with the hardware on every run.

  Import-free on purpose (core Lean only) so that the driver can be linked as a `lean_exe`.
-/
namespace ClockBound.F64

/-- `2^e` as a rational, for any integer exponent. -/
def pow2 (e : Int) : Rat :=
  if e ≥ 0 then ((2 ^ e.toNat : Nat) : Rat) else 1 / ((2 ^ (-e).toNat : Nat) : Rat)

/-- `⌊log₂ x⌋` for `x > 0` (0 for non-positive input; never used there). -/
def ilog2 (x : Rat) : Int :=
  let a : Int := x.num.natAbs.log2
  let b : Int := x.den.log2
  if pow2 (a - b) ≤ x then a - b else a - b - 1

/-- Round to the nearest integer, ties to even. -/
def roundHalfEven (y : Rat) : Int :=
  let f := y.floor
  let r := y - f
  if r < 1/2 then f else if r > 1/2 then f + 1 else (if f % 2 = 0 then f else f + 1)

/-- Round a positive rational to 53 significant bits (nearest, ties to even). -/
def rnePos (x : Rat) : Rat :=
  let ulp := pow2 (ilog2 x - 52)
  (roundHalfEven (x / ulp) : Rat) * ulp

/-- Round any rational to the nearest double (unbounded exponent). -/
def rne53 (x : Rat) : Rat :=
  if x = 0 then 0 else if x > 0 then rnePos x else - rnePos (-x)

/-- `i as f64` for an integer (i64 or u32 in the code). -/
def ofInt (i : Int) : Rat := rne53 i

def mul (a b : Rat) : Rat := rne53 (a * b)
def div (a b : Rat) : Rat := rne53 (a / b)
def add (a b : Rat) : Rat := rne53 (a + b)

/-- `f64::ceil` – exact on doubles (the result of ceil of a double is a double). -/
def ceil (a : Rat) : Rat := (a.ceil : Int)

/-- Truncation toward zero. -/
def trunc (a : Rat) : Int := if a ≥ 0 then a.floor else a.ceil

def I64_MAX : Int := 9223372036854775807
def I64_MIN : Int := -9223372036854775808
def U64_MAX : Int := 18446744073709551615

/-- Rust `f64 as i64`: truncating, saturating. (NaN cannot occur: no operation here produces one.) -/
def castI64 (a : Rat) : Int :=
  let t := trunc a
  if t > I64_MAX then I64_MAX else if t < I64_MIN then I64_MIN else t

/-- Rust `f64 as u64`: truncating, saturating, negative to 0. -/
def castU64 (a : Rat) : Int :=
  let t := trunc a
  if t > U64_MAX then U64_MAX else if t < 0 then 0 else t

/-- chrony's 32-bit float wire format: 7-bit signed exponent, 25-bit signed coefficient;
    value `coef * 2^(exp-25)`, exact in binary64 (mirrors chrony-candm 0.1.1 `From<ChronyFloat>`). -/
def chronyFloat (w : Nat) : Rat :=
  let x := w % 4294967296
  let e0 : Int := x / 33554432
  let e1 : Int := if e0 ≥ 64 then e0 - 128 else e0
  let exp := e1 - 25
  let c0 : Int := x % 33554432
  let coef : Int := if c0 ≥ 16777216 then c0 - 33554432 else c0
  (coef : Rat) * pow2 exp

/-- Bit pattern of a (model) double, for comparison with `f64::to_bits`; only called on values
    that are exactly representable normal doubles. sign(1) | biased exponent(11) | fraction(52). -/
def toBits (x : Rat) : Nat :=
  if x = 0 then 0 else
    let s : Nat := if x < 0 then 1 else 0
    let a := if x < 0 then -x else x
    let e := ilog2 a
    let m := (a / pow2 (e - 52)).floor.toNat   -- in [2^52, 2^53)
    s * 2^63 + (e + 1023).toNat * 2^52 + (m - 2^52)

end ClockBound.F64
