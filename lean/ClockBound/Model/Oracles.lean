/-
  Decidable statements of the properties, evaluated (a) by the theorems in `Properties/` on the
  model's own output, for all inputs, and (b) by the `cbmodel` driver on the *implementation's*
  output for every case the harness runs.  Import-free.
-/
import ClockBound.Model.Client
namespace ClockBound

def TimeSpec.inRange (t : TimeSpec) : Bool :=
  decide (0 ≤ t.nsec ∧ t.nsec < NANOS ∧ -2147483648 ≤ t.sec ∧ t.sec ≤ 2147483648)

def TimeSpec.normB (t : TimeSpec) : Bool := decide (0 ≤ t.nsec ∧ t.nsec < NANOS)

structure ClientIn where
  r : Record
  real : TimeSpec
  mono : TimeSpec
deriving Repr

/-- "physically meaningful range" of C05/C06/C14: timestamps within ±68 years (2^31 s), normalised;
    bound in [0, 2^60) -/
def ClientIn.meaningful (x : ClientIn) : Bool :=
  x.r.asOf.inRange && x.r.voidAfter.inRange && x.real.inRange && x.mono.inRange &&
  decide (0 ≤ x.r.bound ∧ x.r.bound < 1152921504606846976)

/-- age of the record in ns as the client computes it (0 inside the blur window) -/
def ClientIn.age (x : ClientIn) : Int :=
  let d := x.mono.toNs - x.r.asOf.toNs
  if d ≥ 0 then d else 0

namespace C14
/-- outcome class demanded by C14 -/
def Holds (x : ClientIn) (out : Outcome) : Bool :=
  if !x.meaningful then true else
  if x.r.drift ≥ 1000000000 then out == .malformed
  else if x.mono.toNs ≤ x.r.asOf.toNs - 1000 then out == .causality
  else match out with
    | .ok e l _ =>
      -- inside the blur window the age is treated as zero: half-width = stored bound exactly
      if x.mono.toNs < x.r.asOf.toNs then
        decide (l.toNs - x.real.toNs = x.r.bound ∧ x.real.toNs - e.toNs = x.r.bound)
      else true
    | _ => false
end C14

namespace C06
/-- the status C06 allows, as a function of stored status and age thresholds -/
def expected (x : ClientIn) : Status :=
  match x.r.status with
  | .unknown => .unknown
  | s => if x.mono.toNs < x.r.asOf.toNs + 5000000000 then s
         else if x.mono.toNs < x.r.voidAfter.toNs then .freeRunning else .unknown

/-- hypothesis of C06's quantifier: void-after at least 5 s after as-of -/
def applicable (x : ClientIn) : Bool :=
  x.meaningful && decide (x.r.asOf.toNs + 5000000000 ≤ x.r.voidAfter.toNs)

def Holds (x : ClientIn) (out : Outcome) : Bool :=
  if !applicable x then true else
  match out with
  | .ok _ _ st => st == expected x
  | _ => true
end C06

namespace C05
def applicable (x : ClientIn) : Bool := x.meaningful && decide (x.r.drift < 1000000000)

/-- exact product drift·age/10^9 -/
def exactGrowth (x : ClientIn) : Rat := (x.r.drift : Rat) * (x.age : Rat) / 1000000000

def eps51 : Rat := 1 / 2251799813685248   -- 2^-51

/-- symmetric, ordered, half-width = bound + growth with
    P(1-2^-51) - 1 < growth ≤ P(1+2^-51), P the exact product -/
def Holds (x : ClientIn) (out : Outcome) : Bool :=
  if !applicable x then true else
  match out with
  | .ok e l _ =>
    let up := l.toNs - x.real.toNs
    let dn := x.real.toNs - e.toNs
    let g : Rat := ((up - x.r.bound : Int) : Rat)
    let P := exactGrowth x
    decide (up = dn) && decide (0 ≤ up) && e.normB && l.normB &&
    decide (P * (1 - eps51) - 1 < g) && decide (g ≤ P * (1 + eps51))
  | _ => true

/-- half-width of an ok outcome -/
def halfWidth (real : TimeSpec) : Outcome → Option Int
  | .ok _ l _ => some (l.toNs - real.toNs)
  | _ => none

/-- monotonicity clause: same record and realtime reading, two monotonic readings -/
def HoldsMono (x : ClientIn) (mono2 : TimeSpec) (out1 out2 : Outcome) : Bool :=
  if !(applicable x && mono2.inRange && decide (x.mono.toNs ≤ mono2.toNs)) then true else
  match halfWidth x.real out1, halfWidth x.real out2 with
  | some w1, some w2 => decide (w1 ≤ w2)
  | _, _ => true
end C05

end ClockBound
