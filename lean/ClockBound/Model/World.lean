/-
  End-to-end model (C01, C12): true time, two ideal clocks, and the whole pipeline
  chrony report → daemon (extract, updater) → published record → client interval,
  across synchronisation losses, chronyd outages and daemon restarts.

  True time `τ` is a rational number of nanoseconds. A clock *reading* is the floor of the ideal
  clock (the kernel truncates to ns). Import-free (`Rat` is core Lean).
-/
import ClockBound.Model.OraclesD
namespace ClockBound

def TimeSpec.ofNs (n : Int) : TimeSpec := ⟨n / 1000000000, n % 1000000000⟩

structure World where
  Rc : Rat → Rat          -- CLOCK_REALTIME as a function of true time (ns)
  Mc : Rat → Rat          -- CLOCK_MONOTONIC(_COARSE) as a function of true time (ns)
  rho : Nat               -- configured max drift rate, ppb

/-- hypotheses of C01 on the clocks -/
structure World.Good (w : World) : Prop where
  mono : ∀ t1 t2, t1 ≤ t2 → w.Mc t1 ≤ w.Mc t2
  /-- the oscillator drifts no faster than the configured rate, measured on the monotonic clock -/
  drift : ∀ t1 t2, t1 ≤ t2 →
    (w.Rc t2 - t2) - (w.Rc t1 - t1) ≤ (w.rho : Rat) * (w.Mc t2 - w.Mc t1) / 1000000000 ∧
    (w.Rc t1 - t1) - (w.Rc t2 - t2) ≤ (w.rho : Rat) * (w.Mc t2 - w.Mc t1) / 1000000000

/-- what happens, in true-time order -/
inductive WEvent
  /-- one poll: monotonic as-of read at `ta`, chrony answers at `tq` (`none` = no usable answer, with
      the grace flag the poller computed), the writer thread handles the message at `tp` -/
  | poll (ta tq tp : Rat) (reply : Option Tracking) (phc : Int) (grace : Bool)
  /-- the daemon is restarted (fresh updater; the segment is taken over in place) -/
  | restart
deriving Inhabited

/-- the message the writer thread receives for a poll event -/
def WEvent.msg (w : World) : WEvent → Option Msg
  | .poll ta _ tp (some t) phc _ => some (.data t phc (TimeSpec.ofNs (w.Mc ta).floor) (w.Rc tp).floor)
  | .poll _ _ _ none _ g => some (.missing g)
  | .restart => none

/-- chronyd's report is valid: the realtime clock's error at the instant of the answer is within
    |offset| + dispersion + delay/2 (+ the PHC's own error bound) -/
def reportValid (w : World) (tq : Rat) (t : Tracking) (phc : Int) : Prop :=
  absR (w.Rc tq - tq) ≤ C07.exactNs t + (phc : Rat)

/-- hypotheses on one event: true-time order, a valid report whenever it is counted as a
    measurement, values in the meaningful range -/
def WEvent.ok (w : World) : WEvent → Prop
  | .poll ta tq tp (some t) phc _ =>
      ta ≤ tq ∧ tq ≤ tp ∧ 0 ≤ phc ∧
      (classify t (w.Rc tp).floor = .synchronized →
        reportValid w tq t phc ∧ C07.applicable t phc = true ∧
        C07.exactNs t + (phc : Rat) < 1000000000000 ∧ 0 ≤ (w.Mc ta).floor)
  | .poll ta tq tp none _ _ => ta ≤ tq ∧ tq ≤ tp
  | .restart => True

/-- latest true time mentioned by an event -/
def WEvent.endTime : WEvent → Option Rat
  | .poll _ _ tp _ _ _ => some tp
  | .restart => none

structure DaemonState where
  u : Updater
  published : List Record := []        -- everything ever written to the segment, newest first
deriving Inhabited

/-- the daemon processes one event (a panic leaves the state unchanged: the daemon would die and be
    restarted, which is a later `restart` event) -/
def DaemonState.step (w : World) (d : DaemonState) (e : WEvent) : DaemonState :=
  match e with
  | .restart => { d with u := Updater.new w.rho }
  | ev =>
    match ev.msg w with
    | none => d
    | some m =>
      match d.u.step m with
      | none => d
      | some (u', r) => { u := u', published := r :: d.published }

def DaemonState.run (w : World) (evs : List WEvent) : DaemonState :=
  evs.foldl (DaemonState.step w) { u := Updater.new w.rho }

/-- a client query: realtime read at `tr`, monotonic read at `tm`, over a record `r` -/
def clientQuery (w : World) (r : Record) (tr tm : Rat) : Outcome :=
  computeBoundAt r (TimeSpec.ofNs (w.Rc tr).floor) (TimeSpec.ofNs (w.Mc tm).floor)

/-- slack of the containment statement: 1 ns each for the truncated realtime reading and the truncated
    growth, ρ·1 ns for the truncated monotonic readings, and 2^-10 ns for all double-precision effects
    while bound and growth stay below 2^40 ns -/
def sigma (w : World) : Rat := 2 + (w.rho : Rat) / 1000000000 + 1 / 1024

namespace C01
/-- containment as evaluated on an observed client result: a trusted status ⇒ true time inside
    [earliest − σ, latest + σ] -/
def Holds (w : World) (tr : Rat) (out : Outcome) : Bool :=
  match out with
  | .ok e l st =>
    if st == .unknown then true
    else decide ((e.toNs : Rat) - sigma w < tr) && decide (tr < (l.toNs : Rat) + sigma w)
  | _ => true
end C01

/-! ### C12: the order of the clock reads -/

inductive ReadAction | monoCoarse | realtime | query
deriving Repr, BEq, DecidableEq, Inhabited

/-- the client reads REALTIME first, then the monotonic clock (`ClockErrorBound::now`) -/
def clientReads : List ReadAction := [.realtime, .monoCoarse]
/-- the poller reads the monotonic clock, then asks chronyd -/
def pollerReads : List ReadAction := [.monoCoarse, .query]

end ClockBound
