/-
  `session` lines: one segment, a long-lived Rust client and a long-lived C context, a sequence of
  operations (see harness/src/session.rs).  The memory is sequential here (no concurrency inside a session),
  so the model is the file-level one: a reader's `snapshot()` returns its cache unless version ≠ 0,
  generation ≠ 0, even, and different from the cached generation (`ShmReader::snapshot` on quiescent
  memory = `SL.readerProg` with a stable generation; `C03.fresh_catches_up`), a publication moves the
  generation by `genFinish ∘ genStart` (C11) and replaces the record.  Each query is then `computeBoundAt`
  on the cached record, and reads the clocks in the order REALTIME (0), MONOTONIC_COARSE (6).
  Import-free.
-/
import ClockBound.Model.Oracles
import ClockBound.Model.OraclesH
import ClockBound.Model.DriverHeader
namespace ClockBound.DriverS
open ClockBound

structure Seg where
  version : Nat := 1
  gen : Nat := 0
  cur : Record := Record.empty
deriving Inhabited

/-- what a client carries from call to call -/
structure Cl where
  cacheGen : Nat := 0
  cache : Record := Record.empty
  /-- the inode the client has mapped: 0 = the writer's, k > 0 = the k-th replacement put at the path (op `x`) -/
  ino : Nat := 0
deriving Inhabited

def Cl.snap (c : Cl) (s : Seg) : Cl :=
  if s.version = 0 ∨ s.gen = 0 ∨ s.gen = c.cacheGen ∨ s.gen % 2 = 1 then c else { c with cacheGen := s.gen, cache := s.cur }

/-- `ShmReader::new` on the session's file (magic and size are always right here) -/
def Seg.openable (s : Seg) : Bool := s.version != 0 && s.gen != 0

structure St where
  /-- the inode the writer has mapped (and every client attached before a replacement) -/
  seg : Seg := {}
  /-- the replacement inodes put at the path so far (op `x`), oldest first; later opens and pokes get the last one -/
  alts : List Seg := []
  rust : Option Cl := none
  c : Option Cl := none
  /-- answers so far, newest first -/
  out : List String := []
  /-- (inputs, model outcome) of every query, newest first -/
  queries : List (ClientIn × Outcome) := []

def ints (toks : List String) : Option (List Int) := toks.mapM String.toInt?

def nowText (o : Outcome) : String := DriverH.nowAnsText (.out o)

def queryStep (st : St) (tag : String) (isC : Bool) (args : List String) : Option St := do
  match ← ints args with
  | [rs, rn, ms, mn] =>
    let cl := if isC then st.c else st.rust
    match cl with
    | none => some { st with out := s!"{tag} closed" :: st.out }
    | some c =>
      let c' := c.snap (if c.ino = 0 then st.seg else st.alts.getD (c.ino - 1) st.seg)
      let x : ClientIn := ⟨c'.cache, ⟨rs, rn⟩, ⟨ms, mn⟩⟩
      let o := computeBoundAt x.r x.real x.mono
      let st' := if isC then { st with c := some c' } else { st with rust := some c' }
      some { st' with out := s!"{tag} 0 6 : {nowText o}" :: st.out, queries := (x, o) :: st.queries }
  | _ => none

/-- `<u16> <7 record ints>`: the generation word and the record of the file at the path are replaced (no answer token) -/
def pubStep (st : St) (args : List String) : Option St := do
  match ← ints args with
  | [g, as, an, vs, vn, b, dr, stt] =>
    let r : Record := ⟨⟨as, an⟩, ⟨vs, vn⟩, b, dr.toNat, 0, DriverH.statusOfInt stt⟩
    match st.alts.getLast? with
    | some a => some { st with alts := st.alts.dropLast ++ [{ a with gen := g.toNat % 65536, cur := r }] }
    | none => some { st with seg := { st.seg with gen := g.toNat % 65536, cur := r } }
  | _ => none

def opStep (st : St) (op : List String) : Option St :=
  match op with
  | "w" :: args => do
    match ← ints args with
    | [as, an, vs, vn, b, dr, stt] =>
      let r : Record := ⟨⟨as, an⟩, ⟨vs, vn⟩, b, dr.toNat, 0, DriverH.statusOfInt stt⟩
      some { st with seg := { st.seg with gen := genFinish (genStart st.seg.gen), cur := r }, out := "w" :: st.out }
    | _ => none
  -- an orderly restart of the daemon (writer dropped, `ShmWriter::new` on the same path): a usable segment is taken over as it
  -- is; an unusable one (version or generation 0) is re-initialised in place.  Not combined with `x` in one session.
  | ["r"] =>
    if !st.alts.isEmpty then none
    else if st.seg.openable then some { st with out := s!"r {st.seg.gen}" :: st.out }
    else some { st with seg := { version := 1, gen := 0, cur := Record.empty }, out := "r 0" :: st.out }
  | ["g", v] => v.toNat?.map fun n =>
    match st.alts.getLast? with
    | some a => { st with alts := st.alts.dropLast ++ [{ a with gen := n % 65536 }], out := "p" :: st.out }
    | none => { st with seg := { st.seg with gen := n % 65536 }, out := "p" :: st.out }
  | ["v", v] => v.toNat?.map fun n =>
    match st.alts.getLast? with
    | some a => { st with alts := st.alts.dropLast ++ [{ a with version := n % 65536 }], out := "p" :: st.out }
    | none => { st with seg := { st.seg with version := n % 65536 }, out := "p" :: st.out }
  | "x" :: args => do
    match ← ints args with
    | [g, as, an, vs, vn, b, dr, stt] =>
      let r : Record := ⟨⟨as, an⟩, ⟨vs, vn⟩, b, dr.toNat, 0, DriverH.statusOfInt stt⟩
      some { st with alts := st.alts ++ [{ version := 1, gen := g.toNat % 65536, cur := r }], out := "p" :: st.out }
    | _ => none
  | ["o"] =>
    let s := st.alts.getLast?.getD st.seg
    if s.openable then some { st with rust := some { ino := st.alts.length }, out := "o ok" :: st.out }
    else some { st with rust := none, out := "o err notinit 0 -" :: st.out }
  | ["co"] =>
    let s := st.alts.getLast?.getD st.seg
    if s.openable then some { st with c := some { ino := st.alts.length }, out := "co ok" :: st.out }
    else some { st with c := none, out := "co err notinit 0 -" :: st.out }
  -- the daemon publishes at the call's first clock read: the snapshot was taken before it, so the answer is the one of `q`;
  -- afterwards the file at the path carries the given generation and record
  | "qw" :: a :: b :: c :: d :: rest => do
    let st' ← queryStep st "q" false [a, b, c, d]
    pubStep st' rest
  | "cqw" :: a :: b :: c :: d :: rest => do
    let st' ← queryStep st "cq" true [a, b, c, d]
    pubStep st' rest
  | "q" :: args => queryStep st "q" false args
  | "cq" :: args => queryStep st "cq" true args
  -- the same call N times: nothing changes in between, so N identical answers (`snapshot` is idempotent on a
  -- quiescent segment, `computeBoundAt` is a function)
  | "qn" :: _ :: args => (queryStep st "q" false args).map fun s => { s with out := "rep same" :: s.out }
  | "cqn" :: _ :: args => (queryStep st "cq" true args).map fun s => { s with out := "rep same" :: s.out }
  | _ => none

def run (ops : List (List String)) : Option St := ops.foldlM opStep {}

/-- the answers of the implementation to the queries, in order: (clock-read log, outcome text tokens) -/
def implQueries (impl : List (List String)) : List (List String × List String) :=
  impl.filterMap fun g =>
    match g with
    | tag :: rest =>
      if tag == "q" || tag == "cq" then
        match rest.splitOn ":" with
        | [log, ans] => some (log, ans)
        | _ => if rest == ["closed"] then none else some ([], rest)
      else none
    | [] => none

def parseOut (toks : List String) : Option Outcome :=
  match DriverH.parseNowAns toks with
  | some (.out o) => some o
  | _ => none

def line (args impl : List String) : String :=
  let ops := (DriverH.splitSemi args).filter (· ≠ [])
  match run ops with
  | none => "bad-op | |"
  | some st =>
    let model := String.intercalate " ; " st.out.reverse
    let qs := st.queries.reverse
    let iq := implQueries (DriverH.splitSemi impl)
    let nOpen := (st.out.filter fun s => !(s.endsWith "closed") && (s.startsWith "q " || s.startsWith "cq ")).length
    if iq.length ≠ nOpen then s!"{model} | oracle:unparsed | session"
    else
      let pairs := qs.zip iq
      let outs : List (ClientIn × Option Outcome) := pairs.map fun (xo, la) => (xo.1, parseOut la.2)
      if outs.any (fun p => p.2.isNone) then
        -- an answer that is not a result of now() at all (e.g. an error kind the client does not have)
        s!"{model} | C05:FAILS C06:FAILS C14:FAILS C12:FAILS C17:FAILS C03:FAILS C01:FAILS C04:FAILS C11:FAILS oracle:unparsed | session"
      else
        let os : List (ClientIn × Outcome) := outs.filterMap fun p => p.2.map fun o => (p.1, o)
        let v05 := DriverH.verdict "C05" (os.any fun p => C05.applicable p.1) (os.all fun p => !C05.applicable p.1 || C05.Holds p.1 p.2)
        let v06 := DriverH.verdict "C06" (os.any fun p => C06.applicable p.1) (os.all fun p => !C06.applicable p.1 || C06.Holds p.1 p.2)
        let v14 := DriverH.verdict "C14" (os.any fun p => p.1.meaningful) (os.all fun p => !p.1.meaningful || C14.Holds p.1 p.2)
        let v12 := DriverH.verdict "C12" (!pairs.isEmpty) (pairs.all fun p => p.2.1 == ["0", "6"])
        -- C17: the C context and the Rust client are one function of (segment history, call history): each answer
        -- is the model's
        let v17 := DriverH.verdict "C17" (!pairs.isEmpty) (pairs.all fun p => p.2.2 == (nowText p.1.2).splitOn " ")
        -- C03: every call is answered from the record the cache semantics prescribes (never an older one, the
        -- latest complete one when nothing is in flight), and repeating a call changes nothing
        let repsOk := (DriverH.splitSemi impl).all fun g => g.head? != some "rep" || g == ["rep", "same"]
        let v03 := DriverH.verdict "C03" (!pairs.isEmpty) (repsOk && pairs.all fun p => p.2.2 == (nowText p.1.2).splitOn " ")
        -- C01 (and C12): a record published after the clock was read is not applied to that reading
        let hasQw := ops.any (fun o => o.head? == some "qw" || o.head? == some "cqw")
        let v01 := DriverH.verdict "C01" hasQw (pairs.all fun p => p.2.2 == (nowText p.1.2).splitOn " ")
        -- C04 / C11: an orderly restart takes a usable segment over as it is: the generation word goes on from where it was (never back
        -- to 0), and every client — attached before or opened after — is answered as if nothing had happened
        let hasR := ops.any (fun o => o.head? == some "r")
        let rOk := (DriverH.splitSemi impl).filter (fun g => g.head? == some "r") == (st.out.reverse.filter (fun s => s.startsWith "r ")).map (fun s => s.splitOn " ")
        let v04 := DriverH.verdict "C04" hasR (rOk && pairs.all fun p => p.2.2 == (nowText p.1.2).splitOn " ")
        let v11 := DriverH.verdict "C11" hasR rOk
        let multi := (if qs.length ≥ 4 then ["multiCall"] else []) ++ (if hasQw then ["pubDuringCall"] else [])
        let aged := if os.any (fun p => decide (p.1.mono.toNs - p.1.r.asOf.toNs > (5000000000 : Int)) && (p.1.r.status != .unknown)) then ["aged"] else []
        let bad := if os.any (fun p => decide (p.1.r.drift ≥ 1000000000)) then ["badDrift"] else []
        let blur := if os.any (fun p => decide (p.1.mono.toNs < p.1.r.asOf.toNs)) then ["nearBlur"] else []
        let odd := (if ops.any (fun o => o.head? == some "g") then ["poked"] else []) ++
          (if ops.any (fun o => o.head? == some "x") then ["replaced"] else []) ++
          (if ops.any (fun o => o.head? == some "r") then ["restarted"] else []) ++
          (if ops.any (fun o => o.head? == some "qn" || o.head? == some "cqn") then ["repeated"] else [])
        let growth := if os.any (fun p => decide (p.1.mono.toNs > p.1.r.asOf.toNs ∧ p.1.r.drift > 0 ∧ p.1.r.drift < 1000000000 ∧ C05.exactGrowth p.1 ≥ 1)) then ["growth"] else []
        s!"{model} | {v05} {v06} {v14} {v12} {v17} {v03} {v01} {v04} {v11} | {String.intercalate "," (["session"] ++ multi ++ aged ++ bad ++ blur ++ odd ++ growth)}"

end ClockBound.DriverS
