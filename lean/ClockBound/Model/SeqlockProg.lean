/-
  The writer and reader *programs* of the seqlock with the memory abstracted away.

  `Model/Seqlock.lean` defines the machines `wStep` / `rStep` over the release/acquire log.  Their control
  flow depends on the memory only through the VALUE each load returns.  This file makes that explicit:

  * `Acc`        one shared access, structurally (location, ordering, value);
  * `rStepG`     `rStep` with the result of the load (if the step is a load) passed in as an argument
                 (`Properties/SeqlockProg.lean`: `rStep_eq_G`, it IS `rStep` once the argument is `load ..`);
  * `readerRunG` a whole `snapshot()` call of that machine against a stream of load results;
  * `readerProg` the same call in closed form (structural recursion on the retry budget), the shape the
                 Rust source has: version check, first generation, early returns, `while retries > 0 { copy;
                 fence; re-check; accept / adopt an even generation; retries -= 1 }`;
  * `writerProg` one `write(rec)` in closed form; `writerRun` the 11 steps of `wStep` it summarises.

  The translation tie (`Properties/CodeTieSeqlock.lean`) proves that interpreting the AST regenerated from
  reader.rs / writer.rs equals `readerProg` / `writerProg` for ALL load results; the theorems of
  `Properties/SeqlockProg.lean` connect those closed forms to the machines all C02/C03/C04/C11/C18
  theorems are about.  Import-free.
-/
import ClockBound.Model.Seqlock
namespace ClockBound.SL
open ClockBound

/-- one shared-memory access -/
inductive Acc
  | load (x : Loc) (o : Ord) (v : Nat)
  | store (x : Loc) (o : Ord) (v : Nat)
  | fence (o : Ord)
deriving Repr, BEq, DecidableEq, Inhabited

/-- location and ordering of the reader's next access when that access is a load -/
def rNext (a : Ann) (r : Reader) (pickCell : Nat) : Option (Loc × Ord) :=
  match r.pc with
  | .version => some (.version, a.rVersion)
  | .gen1 => some (.gen, a.rGen1)
  | .copy _ _ todo _ => (todo[min pickCell (todo.length - 1)]?).map fun c => (Loc.cell c, Ord.relaxed)
  | .gen2 _ _ _ => some (.gen, a.rGen2)
  | _ => none

/-- `rStep` with the memory abstracted: `ans = (value, index of the message, new view)` is what the load
    returned, if the step is a load (ignored otherwise). Same cases, same order, as `rStep`. -/
def rStepG (a : Ann) (r : Reader) (pickCell : Nat) (ans : Nat × Nat × View) : Reader × Option RResult × Option Acc :=
  match r.pc with
  | .idle => (r, none, none)
  | .version =>
    let (v, _, vw) := ans
    let ev := Acc.load .version a.rVersion v
    if v = 0 then ({ r with pc := .idle, view := vw }, some (.ok r.cache), some ev)
    else ({ r with pc := .gen1, view := vw }, none, some ev)
  | .gen1 =>
    let (g, j, vw) := ans
    let ev := Acc.load .gen a.rGen1 g
    if g = 0 ∨ g = r.cacheGen ∨ g % 2 = 1 then ({ r with pc := .idle, view := vw }, some (.ok r.cache), some ev)
    else ({ r with pc := .copy g RETRIES (List.range N) [], view := vw, g1Idx := j }, none, some ev)
  | .copy g1 retries todo got =>
    match todo[min pickCell (todo.length - 1)]? with
    | none => ({ r with pc := afterCopy a g1 retries got }, none, none)
    | some c =>
      let (v, _, vw) := ans
      let rest := todo.filter (· != c)
      let got' := (c, v) :: got
      ({ r with pc := if rest.isEmpty then afterCopy a g1 retries got' else .copy g1 retries rest got', view := vw },
       none, some (Acc.load (.cell c) .relaxed v))
  | .fence g1 retries got =>
    let o := a.rFence.getD .relaxed
    ({ r with pc := .gen2 g1 retries got, view := fenceAcq r.view o }, none, some (Acc.fence o))
  | .gen2 g1 retries got =>
    let (g2, j2, vw) := ans
    let ev := Acc.load .gen a.rGen2 g2
    if g1 = g2 then
      let cells := assemble got
      ({ r with pc := .idle, view := vw, cacheGen := g1, cache := cells, acceptedIdx := r.g1Idx }, some (.ok cells), some ev)
    else
      let g1' := if g2 % 2 = 0 then g2 else g1
      let i' := if g2 % 2 = 0 then j2 else r.g1Idx
      if retries ≤ 1 then ({ r with pc := .idle, view := vw }, some .errNotInit, some ev)
      else ({ r with pc := .copy g1' (retries - 1) (List.range N) [], view := vw, g1Idx := i' }, none, some ev)

/-- the answer of the memory to the reader's next access (a dummy when it is not a load) -/
def rAnswer (a : Ann) (log : Log) (r : Reader) (pickCell pickMsg : Nat) : Nat × Nat × View :=
  match rNext a r pickCell with
  | some (x, o) => load log r.view x o pickMsg
  | none => (0, 0, r.view)

/-- A whole call against a stream of load results: the k-th load of the call returns `inp k`
    (cells are copied in index order; the ghost fields get dummy values). Returns the final reader, the
    call's result (`none`: out of fuel) and the accesses performed. -/
def readerRunG (a : Ann) (inp : Nat → Nat) : Nat → Reader → Nat → List Acc → Reader × Option RResult × List Acc
  | 0, r, _, acc => (r, none, acc)
  | fuel + 1, r, pos, acc =>
    let out := rStepG a r 0 (inp pos, 0, r.view)
    let pos' := if (rNext a r 0).isSome then pos + 1 else pos
    let acc' := acc ++ out.2.2.toList
    match out.2.1 with
    | some res => (out.1, some res, acc')
    | none => readerRunG a inp fuel out.1 pos' acc'

/-- the cells one copy of the record returns: loads number `pos .. pos+N-1` -/
def attemptCells (inp : Nat → Nat) (pos : Nat) : List Nat := (List.range N).map fun c => inp (pos + c)

/-- the accesses of one attempt: the copy, the fence, the re-check -/
def attemptAccs (a : Ann) (inp : Nat → Nat) (pos : Nat) : List Acc :=
  ((List.range N).map fun c => Acc.load (.cell c) .relaxed (inp (pos + c))) ++
  (match a.rFence with | some o => [Acc.fence o] | none => []) ++
  [Acc.load .gen a.rGen2 (inp (pos + N))]

/-- the retry loop in closed form: `some (g, cells)` = accepted under generation `g`; `none` = budget used up -/
def readerLoop (a : Ann) (inp : Nat → Nat) : Nat → Nat → Nat → List Acc × Option (Nat × List Nat)
  | 0, _, _ => ([], none)
  | k + 1, pos, g1 =>
    let g2 := inp (pos + N)
    if g1 = g2 then (attemptAccs a inp pos, some (g1, attemptCells inp pos))
    else
      let r := readerLoop a inp k (pos + N + 1) (if g2 % 2 = 0 then g2 else g1)
      (attemptAccs a inp pos ++ r.1, r.2)

/-- one `snapshot()` call in closed form: accesses, result, new cached generation, new cached record -/
def readerProg (a : Ann) (inp : Nat → Nat) (cacheGen : Nat) (cache : List Nat) : List Acc × RResult × Nat × List Nat :=
  let v := inp 0
  if v = 0 then ([Acc.load .version a.rVersion v], .ok cache, cacheGen, cache)
  else
    let g := inp 1
    let pre := [Acc.load .version a.rVersion v, Acc.load .gen a.rGen1 g]
    if g = 0 ∨ g = cacheGen ∨ g % 2 = 1 then (pre, .ok cache, cacheGen, cache)
    else
      match readerLoop a inp RETRIES 2 g with
      | (accs, some (g', cells)) => (pre ++ accs, .ok cells, g', cells)
      | (accs, none) => (pre ++ accs, .errNotInit, cacheGen, cache)

/-! ### the writer -/

/-- one `write(rec)` in closed form, `g` being the value the generation load returns -/
def writerProg (a : Ann) (g : Nat) (rec : List Nat) : List Acc :=
  [Acc.load .gen a.wLoad g, Acc.store .gen a.wStore1 (genStart g)] ++
  (match a.wFence with | some o => [Acc.fence o] | none => []) ++
  ((List.range rec.length).map fun c => Acc.store (.cell c) .relaxed (rec[c]?.getD 0)) ++
  [Acc.store .gen a.wStore2 (genFinish (genStart g))]

/-- `n` steps of the writer machine, copying the cells in index order -/
def writerRun (a : Ann) : Nat → Log → Writer → Log × Writer
  | 0, log, w => (log, w)
  | n + 1, log, w => let out := wStep a log w 0; writerRun a n out.1 out.2.1

/-- the (location, value) pairs of the stores among some accesses -/
def storesOf : List Acc → List (Loc × Nat)
  | [] => []
  | .store x _ v :: rest => (x, v) :: storesOf rest
  | _ :: rest => storesOf rest

end ClockBound.SL
