/-
  C15 — operational model of the daemon's thread web (import-free, executable).

  Source modelled: clock-bound-d/src/thread_manager.rs (`run`, `Context`, `Drop for Context`,
  `broadcast_abort`), channels.rs (`new_channel_web`, `DispatchBox::send`), the poller loop
  chrony_poller.rs `run` / `run_clock_error_bound_poller`, the writer loop shm_writer.rs `run` /
  `process_messages`.

  * three threads: main, poller, writer; three unbounded FIFO mpsc channels, one per thread.
    Every `Context` owns the receiver of its own channel and a clone of the DispatchBox with
    senders to all three channels, so a thread never sees its own channel disconnected;
    `send` to a channel fails iff its receiver was dropped (flags `rxP`, `rxW`; main's receiver
    lives until `run` returns).
  * a worker that leaves its entry function — by `return` or by unwinding — drops its Context:
    first `Drop::drop` sends ThreadPanic(id) / ThreadTerminate(id) to main (pc `exiting k`), then the
    fields are dropped, among them the receiver (pc `dropping`; queued messages are discarded),
    then the thread is finished and can be joined (pc `done`).
  * a worker can die at every program point (`pollerDie k`, `writerDie k`; k = panic | terminate):
    this is what C15 quantifies over. The two deaths the code itself contains are instances:
    `panic!("Broken channel to ShmWriter")` (poller step at `send` with `rxW = false`) and
    `panic!("Failed to create SHM writer")` (= `writerDie panic` at `start`).
  * blocking receives are enabled only when the queue is non-empty; the poller's `recv_timeout`
    is additionally enabled as `pollerTimeout` when its queue is empty.
  * main: `loop { recv }`; a notice ⇒ `broadcast_abort` (two sends in HashMap iteration order, i.e.
    in either order: `mainAbort w` chooses the first) then joins poller, writer (the order of
    `thread_handlers`), then returns. Other messages are ignored.
  Not modelled: `Err(Disconnected)` on a thread's own mailbox (impossible, see above), `spawn`
  failing, a second panic while unwinding (process abort), real time.
-/
namespace ClockBound.Threads

inductive Worker | poller | writer
deriving DecidableEq, Repr

inductive Thread | main | poller | writer
deriving DecidableEq, Repr

/-- how a worker ended: unwinding from a panic, or returning from its entry function -/
inductive Kind | panic | terminate
deriving DecidableEq, Repr

/-- message kinds. `data` stands for ClockErrorBoundData and the four "no data" messages (all are
    handled by the writer by publishing and going on); `notice w k` is ThreadPanic(w) /
    ThreadTerminate(w). -/
inductive Msg
  | data
  | abort
  | notice (w : Worker) (k : Kind)
deriving DecidableEq, Repr

def Msg.isNotice : Msg → Bool
  | .notice _ _ => true
  | _ => false

/-- main: `loop` = blocked in / about to call `mbox.recv()`; `bcast0` = inside `broadcast_abort`,
    nothing sent yet; `bcastP` / `bcastW` = Abort already sent to the poller / writer channel;
    `joinP`, `joinW` = joining the poller / writer handle; `returned` = `run` has returned. -/
inductive MainPc | loop | bcast0 | bcastP | bcastW | joinP | joinW | returned
deriving DecidableEq, Repr

/-- poller: the five live points are the hook points poller:start/top/query/send/wait -/
inductive PollerPc | start | top | query | send | wait | exiting (k : Kind) | dropping | done
deriving DecidableEq, Repr

/-- writer: the three live points are the hook points writer:start/opened/recv -/
inductive WriterPc | start | opened | recv | exiting (k : Kind) | dropping | done
deriving DecidableEq, Repr

def PollerPc.alive : PollerPc → Bool
  | .start | .top | .query | .send | .wait => true
  | _ => false

def WriterPc.alive : WriterPc → Bool
  | .start | .opened | .recv => true
  | _ => false

/-- the worker has left its loop for good (its Context is being / has been dropped) -/
def PollerPc.ended (p : PollerPc) : Bool := !p.alive
def WriterPc.ended (w : WriterPc) : Bool := !w.alive

/-- main's receiver exists until `run` returns -/
def MainPc.rxAlive : MainPc → Bool
  | .returned => false
  | _ => true

structure State where
  m : MainPc
  p : PollerPc
  w : WriterPc
  /-- contents of the three channels, oldest first -/
  qM : List Msg
  qP : List Msg
  qW : List Msg
  /-- the worker's receiver has not been dropped yet -/
  rxP : Bool
  rxW : Bool
deriving DecidableEq, Repr

def init : State := ⟨.loop, .start, .start, [], [], [], true, true⟩

/-- `Sender::send`: appends if the receiver exists, otherwise fails (all callers but the poller's
    data send ignore the failure) -/
def sendTo (alive : Bool) (q : List Msg) (x : Msg) : List Msg := if alive then q ++ [x] else q

inductive Action
  /-- main's next step: receive / second Abort of the broadcast / join / return -/
  | main
  /-- first send of `broadcast_abort` (HashMap iteration order is arbitrary) -/
  | mainAbort (w : Worker)
  /-- the poller's next ordinary step -/
  | poller
  /-- `recv_timeout` expires on an empty mailbox -/
  | pollerTimeout
  /-- `clock_gettime_safe` fails: the iteration skips query and send -/
  | pollerClockFail
  /-- the poller dies here (panic / return from its entry function) -/
  | pollerDie (k : Kind)
  /-- the writer's next ordinary step -/
  | writer
  /-- the writer dies here -/
  | writerDie (k : Kind)
deriving DecidableEq, Repr

def Action.thread : Action → Thread
  | .main | .mainAbort _ => .main
  | .poller | .pollerTimeout | .pollerClockFail | .pollerDie _ => .poller
  | .writer | .writerDie _ => .writer

def Action.isDie : Action → Bool
  | .pollerDie _ | .writerDie _ => true
  | _ => false

def allActions : List Action :=
  [.main, .mainAbort .poller, .mainAbort .writer, .poller, .pollerTimeout, .pollerClockFail,
   .pollerDie .panic, .pollerDie .terminate, .writer, .writerDie .panic, .writerDie .terminate]

def stepMain (s : State) : Option State :=
  match s.m with
  | .loop =>
    match s.qM with
    | [] => none                                         -- blocked in recv()
    | x :: rest => some { s with m := if x.isNotice then .bcast0 else .loop, qM := rest }
  | .bcast0 => none                                      -- `mainAbort w`
  | .bcastP => some { s with m := .joinP, qW := sendTo s.rxW s.qW .abort }
  | .bcastW => some { s with m := .joinP, qP := sendTo s.rxP s.qP .abort }
  | .joinP => if s.p = .done then some { s with m := .joinW } else none
  | .joinW => if s.w = .done then some { s with m := .returned, qM := [] } else none
  | .returned => none

def stepPoller (s : State) : Option State :=
  match s.p with
  | .start => some { s with p := .top }                  -- ClockErrorBoundPoller::default()
  | .top => some { s with p := .query }                  -- clock read ok
  | .query => some { s with p := .send }                 -- get_tracking (reply, error or time-out)
  | .send =>                                             -- dbox.send(ShmWriter, message)
    if s.rxW then some { s with p := .wait, qW := s.qW ++ [.data] }
    else some { s with p := .exiting .panic }            -- panic!("Broken channel to ShmWriter")
  | .wait =>                                             -- mbox.recv_timeout(1 s), message case
    match s.qP with
    | [] => none
    | x :: rest => some { s with p := if x = .abort then .exiting .terminate else .top, qP := rest }
  | .exiting k =>                                        -- Drop for Context: notice to main
    some { s with p := .dropping, qM := sendTo s.m.rxAlive s.qM (.notice .poller k) }
  | .dropping => some { s with p := .done, rxP := false, qP := [] }   -- receiver dropped
  | .done => none

def stepWriter (s : State) : Option State :=
  match s.w with
  | .start => some { s with w := .opened }               -- ShmWriter::new succeeded
  | .opened => some { s with w := .recv }                -- ShmUpdater::new
  | .recv =>                                             -- mbox.recv()
    match s.qW with
    | [] => none
    | x :: rest => some { s with w := if x = .abort then .exiting .terminate else .recv, qW := rest }
  | .exiting k =>
    some { s with w := .dropping, qM := sendTo s.m.rxAlive s.qM (.notice .writer k) }
  | .dropping => some { s with w := .done, rxW := false, qW := [] }
  | .done => none

def step (s : State) : Action → Option State
  | .main => stepMain s
  | .mainAbort .poller =>
    if s.m = .bcast0 then some { s with m := .bcastP, qP := sendTo s.rxP s.qP .abort } else none
  | .mainAbort .writer =>
    if s.m = .bcast0 then some { s with m := .bcastW, qW := sendTo s.rxW s.qW .abort } else none
  | .poller => stepPoller s
  | .pollerTimeout => if s.p = .wait ∧ s.qP = [] then some { s with p := .top } else none
  | .pollerClockFail => if s.p = .top then some { s with p := .wait } else none
  | .pollerDie k => if s.p.alive then some { s with p := .exiting k } else none
  | .writer => stepWriter s
  | .writerDie k => if s.w.alive then some { s with w := .exiting k } else none

/-- run a schedule -/
def run (s : State) : List Action → Option State
  | [] => some s
  | a :: rest => match step s a with
    | some s' => run s' rest
    | none => none

/-- thread `t` has an enabled ordinary (non-fault) step -/
def enabled (s : State) (t : Thread) : Bool :=
  allActions.any fun a => a.thread == t && !a.isDie && (step s a).isSome

/-! ### replay of an observed event log (trace inclusion)

The harness observes, in one global order: every visit of a hook point by a worker (`visit`),
the fault it injects at a hook point (`fault`: the worker panics / returns right there), a panic
raised by the daemon's own code on a worker thread (`crash`, seen by the panic hook), and the return
of `thread_manager::run` (`returned`). Everything else (channel operations, main's progress, the
Context drops) is hidden. `replay` keeps the set of model configurations compatible with the log
so far, closed under hidden steps. A hook at point `p` is passed after the step that led to `p`
and before the step that leaves `p`: `hP` / `hW` record "the hook of the current point was passed",
and a hidden step out of a live point requires it.
-/

inductive Event
  | visitP (pc : PollerPc)
  | visitW (pc : WriterPc)
  | faultP (pc : PollerPc) (k : Kind)
  | faultW (pc : WriterPc) (k : Kind)
  | crashP
  | crashW
  | returned
deriving DecidableEq, Repr

structure Cfg where
  s : State
  hP : Bool
  hW : Bool
deriving DecidableEq, Repr

def Cfg.init : Cfg := ⟨Threads.init, false, false⟩

/-- hidden successors of a configuration: ordinary steps only (every death is observed), not the
    poller's own panic (observed as `crashP`), not main's return (observed as `returned`) -/
def hiddenSucc (c : Cfg) : List Cfg :=
  let s := c.s
  let mainActs : List Action := if s.m = .joinW then [] else [.main, .mainAbort .poller, .mainAbort .writer]
  let pActs : List Action :=
    if s.p.alive && !c.hP then []
    else if s.p = .send ∧ s.rxW = false then []
    else [.poller, .pollerTimeout, .pollerClockFail]
  let wActs : List Action := if s.w.alive && !c.hW then [] else [.writer]
  (mainActs.filterMap fun a => (step s a).map fun s' => { c with s := s' }) ++
  (pActs.filterMap fun a => (step s a).map fun s' => { c with s := s', hP := false }) ++
  (wActs.filterMap fun a => (step s a).map fun s' => { c with s := s', hW := false })

/-- add the not yet seen elements of `xs` to `acc`; returns (extended set, newly added ones) -/
def insertNew (acc : List Cfg) : List Cfg → List Cfg × List Cfg
  | [] => (acc, [])
  | x :: xs =>
    if acc.contains x then insertNew acc xs
    else let r := insertNew (acc ++ [x]) xs; (r.1, x :: r.2)

/-- closure under hidden steps (worklist; hidden runs are short because every worker step out of
    a live point needs a fresh hook visit) -/
def closure : Nat → List Cfg → List Cfg → List Cfg
  | 0, seen, _ => seen
  | _, seen, [] => seen
  | fuel + 1, seen, frontier =>
    let (seen', fresh) := insertNew seen (frontier.flatMap hiddenSucc)
    closure fuel seen' fresh

def close (cs : List Cfg) : List Cfg :=
  let (seen, fresh) := insertNew [] cs
  closure 64 seen fresh

def applyEvent (e : Event) (c : Cfg) : Option Cfg :=
  match e with
  | .visitP pc => if c.s.p = pc ∧ pc.alive ∧ c.hP = false then some { c with hP := true } else none
  | .visitW pc => if c.s.w = pc ∧ pc.alive ∧ c.hW = false then some { c with hW := true } else none
  | .faultP pc k =>
    if c.s.p = pc ∧ c.hP = false then (step c.s (.pollerDie k)).map fun s' => { c with s := s', hP := false } else none
  | .faultW pc k =>
    if c.s.w = pc ∧ c.hW = false then (step c.s (.writerDie k)).map fun s' => { c with s := s', hW := false } else none
  | .crashP => if c.hP then (step c.s (.pollerDie .panic)).map fun s' => { c with s := s', hP := false } else none
  | .crashW => if c.hW then (step c.s (.writerDie .panic)).map fun s' => { c with s := s', hW := false } else none
  | .returned => if c.s.m = .joinW then (step c.s .main).map fun s' => { c with s := s' } else none

/-- configurations compatible with the log (before closing under trailing hidden steps);
    `none`: the model cannot take the `i`-th event (0-based) -/
def replayFrom : List Cfg → Nat → List Event → Except Nat (List Cfg)
  | cs, _, [] => .ok (close cs)
  | cs, i, e :: rest =>
    match (close cs).filterMap (applyEvent e) with
    | [] => .error i
    | cs' => replayFrom cs' (i + 1) rest

def replay (log : List Event) : Except Nat (List Cfg) := replayFrom [Cfg.init] 0 log

def accepts (log : List Event) : Bool :=
  match replay log with
  | .ok _ => true
  | .error _ => false

/-- after the log, in every compatible configuration `run` has returned and both workers are done -/
def finalDone (log : List Event) : Bool :=
  match replay log with
  | .ok cs => !cs.isEmpty && cs.all fun c => c.s.m = .returned ∧ c.s.p = .done ∧ c.s.w = .done
  | .error _ => false

/-- number of messages the (still live) writer has certainly not read yet after the first `n`
    events: the minimum over the compatible configurations (0 if the writer has ended in one) -/
def backlogAfter (log : List Event) (n : Nat) : Nat :=
  match replay (log.take n) with
  | .ok (c :: cs) =>
    let len := fun (c : Cfg) => if c.s.w.alive then c.s.qW.length else 0
    cs.foldl (fun m c => min m (len c)) (len c)
  | _ => 0

end ClockBound.Threads

namespace ClockBound.C15
open ClockBound.Threads

/-- time from the first death to the return of `run`: `fast` < 3000 ms -/
inductive Bucket | fast | slow | never
deriving DecidableEq, Repr

/-- what the harness reports of one run of the real `thread_manager::run` -/
structure Obs where
  returned : Bool
  bucket : Bucket
  log : List Event
deriving Repr

/-- the log contains a death (injected or the code's own) -/
def hasDeath (log : List Event) : Bool :=
  log.any fun e => match e with
    | .faultP _ _ | .faultW _ _ | .crashP | .crashW => true
    | _ => false

def applicable (o : Obs) : Bool := hasDeath o.log

/-- C15 on one observed run: `run` returned, within the limit, the observed events are a trace of
    the model, and at the end both workers are finished (nothing of the pipeline lingers) -/
def Holds (o : Obs) : Bool :=
  o.returned && decide (o.bucket = .fast) && accepts o.log && finalDone o.log

end ClockBound.C15
