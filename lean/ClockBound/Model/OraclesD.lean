/-
  Decidable statements of the daemon-side properties C07, C08, C09, C10, C11, C19 (import-free).
-/
import ClockBound.Model.Daemon
import ClockBound.Model.Oracles
namespace ClockBound

def absR (x : Rat) : Rat := if x < 0 then -x else x

namespace C07
/-- the exact sum (|offset| + dispersion + delay/2) in nanoseconds -/
def exactNs (t : Tracking) : Rat :=
  (absR (F64.chronyFloat t.offW) + F64.chronyFloat t.dispW + F64.chronyFloat t.delayW / 2) * 1000000000

/-- meaningful range: non-negative delay and dispersion, sum below 2^62 ns, PHC bound in [0, 2^62) -/
def applicable (t : Tracking) (phc : Int) : Bool :=
  decide (0 ≤ F64.chronyFloat t.dispW) && decide (0 ≤ F64.chronyFloat t.delayW) &&
  decide (exactNs t < 4611686018427387904) && decide (0 ≤ phc ∧ phc < 4611686018427387904)

def eps51 : Rat := 1 / 2251799813685248

/-- bound ≥ 0, E(1-2^-51) + phc ≤ bound < E(1+2^-51) + phc + 1 -/
def Holds (t : Tracking) (phc : Int) (bound : Int) : Bool :=
  if !applicable t phc then true else
  let E := exactNs t
  decide (0 ≤ bound) && decide (E * (1 - eps51) + phc ≤ (bound : Rat)) &&
  decide ((bound : Rat) < E * (1 + eps51) + phc + 1)

/-- the strict real-number reading `E + phc ≤ bound` (false of any f64 implementation: known finding K2) -/
def HoldsStrict (t : Tracking) (phc : Int) (bound : Int) : Bool :=
  if !applicable t phc then true else decide (exactNs t + phc ≤ (bound : Rat))
end C07

namespace C10
/-- eight update intervals, in whole seconds as the code compares them (saturating, negative ⇒ 0) -/
def thresholdSecs (t : Tracking) : Int :=
  let x := (F64.chronyFloat t.intervalW * 8).floor     -- exact: ×8 is exact in binary64
  if x < 0 then 0 else if x > 18446744073709551615 then 18446744073709551615 else x

def expected (t : Tracking) (nowNs : Int) : ChronyStatus :=
  if nowNs < t.refNs then .unknown
  else if t.leap ≥ 4 then .unknown
  else if t.leap = 3 then .freeRunning
  else if nowNs - t.refNs > thresholdSecs t * 1000000000 then .freeRunning
  else .synchronized

def Holds (t : Tracking) (nowNs : Int) (st : ChronyStatus) : Bool := st == expected t nowNs
end C10

/-- abstract poll outcome as the writer thread sees it: a report with its derived bound (PHC
    included), class and as-of; or a silence / PHC failure within or beyond the grace period -/
inductive PollOutcome
  | report (bound : Int) (cs : ChronyStatus) (asOf : TimeSpec)
  | silence (withinGrace : Bool)
deriving Repr, BEq, DecidableEq, Inhabited

def PollOutcome.cls : PollOutcome → ChronyStatus
  | .report _ cs _ => cs
  | .silence g => if g then .freeRunning else .unknown

def statusOfChrony : ChronyStatus → Status
  | .unknown => .unknown | .synchronized => .synchronized | .freeRunning => .freeRunning

/-- bound and as-of of the most recent synchronised report in a history -/
def lastSync : List PollOutcome → Option (Int × TimeSpec)
  | [] => none
  | o :: rest =>
    match lastSync rest with
    | some x => some x
    | none => match o with
      | .report b .synchronized a => some (b, a)
      | _ => none

/-- what the writer thread's message means as a poll outcome (bound and class as the model derives them) -/
def abstractMsg : Msg → PollOutcome
  | .data t phc a now => .report (boundF t + phc) (classify t now) a
  | .missing g => .silence g

/-- no i64 overflow while handling this message (`bound += phc`, `as_of.tv_sec + 1000`) -/
def Msg.ok : Msg → Bool
  | .data t phc a _ => inI64 (boundF t + phc) && inI64 (a.sec + 1000)
  | .missing _ => true

namespace C08
/-- the record C08 demands after a non-empty history `h` (latest outcome last) -/
def spec (drift : Nat) (h : List PollOutcome) : Record :=
  let ba := (lastSync h).getD (0, ⟨0, 0⟩)
  { asOf := ba.2, voidAfter := ⟨ba.2.sec + 1000, 0⟩, bound := ba.1, drift := drift, reserved := 0,
    status := if (lastSync h).isSome then statusOfChrony ((h.getLast?.map PollOutcome.cls).getD .unknown)
              else .unknown }

def specs (drift : Nat) (h : List PollOutcome) : List Record :=
  (List.range h.length).map (fun k => spec drift (h.take (k + 1)))

/-- agreement of one published record with the spec; before a first synchronised report C08
    does not constrain the status (that is C09's subject) -/
def agrees (seen : Bool) (r s : Record) : Bool :=
  r.asOf == s.asOf && r.voidAfter == s.voidAfter && r.bound == s.bound && r.drift == s.drift &&
  (!seen || r.status == s.status)

/-- one publication per outcome, each agreeing with the spec of its prefix -/
def Holds (drift : Nat) (h : List PollOutcome) (recs : List Record) : Bool :=
  recs.length == h.length &&
  (List.range h.length).all (fun k => match recs[k]? with
    | some r => agrees (lastSync (h.take (k + 1))).isSome r (spec drift (h.take (k + 1)))
    | none => false)
end C08

namespace C09
/-- no trust without a measurement: a non-Unknown status only with bound/as-of of a synchronised report -/
def HoldsAt (h : List PollOutcome) (r : Record) : Bool :=
  match lastSync h with
  | none => r.status == .unknown
  | some (b, a) => r.status == .unknown || (r.bound == b && r.asOf == a)

def Holds (h : List PollOutcome) (recs : List Record) : Bool :=
  (List.range recs.length).all (fun k => match recs[k]? with
    | some r => HoldsAt (h.take (k + 1)) r
    | none => true)
end C09

namespace C11
/-- the generation protocol from a start value `g`: in-flight value and final value -/
def Holds (g inflight final : Nat) : Bool :=
  decide (inflight % 2 = 1) && decide (final % 2 = 0) && decide (final ≠ 0) && decide (final ≠ g) &&
  decide (final < 65536) && decide (inflight < 65536) &&
  (if g % 2 = 0 then decide (inflight = g + 1) else decide (inflight = g)) &&
  (if inflight = 65535 then decide (final = 2) else decide (final = inflight + 1))
end C11

namespace C19
/-- published exactly 1000·ppm (1 ppm when omitted), or refused; never a wrapped value -/
def Holds (arg : Option Nat) (published : Option Nat) : Bool :=
  match arg, published with
  | none, some p => p == 1000
  | some r, some p => p == 1000 * r
  | some r, none => decide (1000 * r ≥ 4294967296)
  | none, none => false
end C19

end ClockBound
