/-
  The header checks of clock-bound-shm in the shape the Rust source has (closed forms over the PARSED
  header and the results of the system calls), next to `Model/Header.lean`'s functions over file bytes.
  `Properties/HeaderProg.lean` proves they are the same decisions.  The translation tie
  (`Properties/CodeTieHeader.lean`) targets these.  Import-free apart from Model files.
-/
import ClockBound.Model.Header
namespace ClockBound

/-- `ShmHeader::is_valid` on the header fields: magic → version → generation → declared size -/
def checkHeader (h : Header) : Except ShmErr Header :=
  if ¬ (h.magic0 = MAGIC0 ∧ h.magic1 = MAGIC1) then .error .notInit
  else if h.version = 0 then .error .notInit
  else if h.generation = 0 then .error .notInit
  else if h.segsize < HEADER_SIZE then .error .malformed
  else .ok h

/-- `ShmHeader::read`: `ret` = what `read(2)` returned, `errno` = errno if it failed, `h` = the header in
    the buffer if it was filled -/
def readProg (ret : Int) (errno : Nat) (h : Header) : Except ShmErr Header :=
  if ret < 0 then .error (.sys errno .read)
  else if ret < (HEADER_SIZE : Int) then .error .notInit
  else checkHeader h

/-- `MmapGuard::new` + the size check of `ShmReader::new` on a valid header: `mapFails` = `mmap` returned
    `MAP_FAILED` (with `errno`) -/
def mapProg (mapFails : Bool) (errno : Nat) (h : Header) : Except ShmErr Header :=
  if mapFails then .error (.sys errno .mmap)
  else if h.segsize < HEADER_SIZE + RECORD_SIZE then .error .malformed
  else .ok h

/-- what `read(2)` of 16 bytes returns on a regular file with content `bs` -/
def readRet (bs : Bytes) : Int := min HEADER_SIZE bs.length

/-- does `mmap` of `n` bytes fail under the limit `lim` -/
def mapFails (lim : Option Nat) (n : Nat) : Bool :=
  match lim with
  | some L => decide (L < n)
  | none => false

end ClockBound
