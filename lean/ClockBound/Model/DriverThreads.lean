/-
  Line-protocol driver for C15 (import-free apart from the model):

    thr <fault point> <k> <panic|return> <none|ok> [lag=<point>:<ms>] => returned <0|1> <fast|slow|never> ; <event tokens>

  event tokens: vP:<pt> vW:<pt> (hook visit)  fP:<pt>:<kind> fW:<pt>:<kind> (injected fault)
                xP xW (a panic of the daemon's own code on that worker)  r (`run` returned)
  output: `returned 1 fast ; accepted|rejected@i|unparsed | C15:holds/FAILS/na | tags`
  The model's answer is what the theorems predict for every run with a death (returned, promptly)
  plus whether the observed log is a trace of the model.
-/
import ClockBound.Model.Threads
namespace ClockBound.DriverT
open ClockBound.Threads

def pollerPc? : String → Option PollerPc
  | "start" => some .start | "top" => some .top | "query" => some .query
  | "send" => some .send | "wait" => some .wait | _ => none

def writerPc? : String → Option WriterPc
  | "start" => some .start | "opened" => some .opened | "recv" => some .recv | _ => none

def kind? : String → Option Kind
  | "panic" => some .panic | "return" => some .terminate | _ => none

def event? (tok : String) : Option Event :=
  match tok.splitOn ":" with
  | ["r"] => some .returned
  | ["xP"] => some .crashP
  | ["xW"] => some .crashW
  | ["vP", pt] => (pollerPc? pt).map .visitP
  | ["vW", pt] => (writerPc? pt).map .visitW
  | ["fP", pt, k] => do some (.faultP (← pollerPc? pt) (← kind? k))
  | ["fW", pt, k] => do some (.faultW (← writerPc? pt) (← kind? k))
  | _ => none

def bucket? : String → Option C15.Bucket
  | "fast" => some .fast | "slow" => some .slow | "never" => some .never | _ => none

def parseObs (impl : List String) : Option C15.Obs :=
  match impl with
  | "returned" :: r :: b :: rest => do
    let ret ← (match r with | "1" => some true | "0" => some false | _ => none)
    let bk ← bucket? b
    let toks := match rest with | ";" :: t => t | t => t
    let log ← toks.mapM event?
    some ⟨ret, bk, log⟩
  | _ => none

def isDeath : Event → Bool
  | .faultP _ _ | .faultW _ _ | .crashP | .crashW => true
  | _ => false

def deathOfPoller : Event → Bool
  | .faultP _ _ | .crashP => true
  | _ => false

def deathOfWriter : Event → Bool
  | .faultW _ _ | .crashW => true
  | _ => false

def firstDeathIdx (log : List Event) : Option Nat :=
  let rec go : List Event → Nat → Option Nat
    | [], _ => none
    | e :: rest, i => if isDeath e then some i else go rest (i + 1)
  go log 0

def tagsOf (args : List String) (o : C15.Obs) : List String :=
  let pt := match args with
    | p :: _ => [("pt=" ++ p.replace ":" ".")]
    | _ => []
  let k := match args with | _ :: k :: _ => ["k" ++ k] | _ => []
  let kd := match args with | _ :: _ :: kd :: _ => [kd] | _ => []
  let ch := match args with | _ :: _ :: _ :: c :: _ => ["chrony-" ++ c] | _ => []
  let lag := (if args.any (·.startsWith "lag=") then ["lag"] else []) ++
    (args.filter (·.startsWith "env=")).map (fun t => t.replace "=" "-")
  let death := if C15.hasDeath o.log then ["death"] else ["nodeath"]
  let both := if o.log.any deathOfPoller && o.log.any deathOfWriter then ["bothDied"] else []
  let crashP := if o.log.contains .crashP then ["brokenChannelPanic"] else []
  let crashW := if o.log.contains .crashW then ["shmNewPanic"] else []
  let backlog := match firstDeathIdx o.log with
    | some i =>
      let b := backlogAfter o.log (i + 1)     -- right after the first death
      (if b ≥ 1 then ["backlog"] else []) ++ (if b ≥ 2 then ["backlog2"] else [])
    | none => []
  let after := match firstDeathIdx o.log with
    | some i => if (o.log.drop (i + 1)).any (fun e => match e with | .visitP _ | .visitW _ => true | _ => false)
                then ["survivorRan"] else []
    | none => []
  pt ++ k ++ kd ++ ch ++ lag ++ death ++ both ++ crashP ++ crashW ++ backlog ++ after

def line (kind : String) (args impl : List String) : Option String :=
  if kind != "thr" then none else
  some <|
    match parseObs impl with
    | none => "returned 1 fast ; unparsed | C15:FAILS oracle:unparsed | "
    | some o =>
      let acc := match replay o.log with
        | .ok _ => "accepted"
        | .error i => s!"rejected@{i}"
      let v := if !C15.applicable o then "C15:na" else if C15.Holds o then "C15:holds" else "C15:FAILS"
      let tags := tagsOf args o ++ [if accepts o.log then "accepted" else "rejected"]
      s!"returned 1 fast ; {acc} | {v} | {String.intercalate "," tags}"

end ClockBound.DriverT
