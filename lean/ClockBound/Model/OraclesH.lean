/-
  Decidable statements of C16 and C17 (evaluated by the theorems in `Properties/` on the model, and by
  `cbmodel` on the implementation's answers), and the interpretation of the GENERATED descriptions
  (docs/PROTOCOL.md, clockbound.h, the Rust `#[repr(C)]` items).  Import-free.
-/
import ClockBound.Model.Header
import ClockBound.Generated.Protocol
import ClockBound.Generated.CHeader
import ClockBound.Generated.RustFfi
namespace ClockBound

/-! ## C16 -/
namespace C16

/-- the four conditions of the property, on the decoded header fields -/
def magicOk (bs : Bytes) : Bool :=
  decide ((parseHeader bs).magic0 = MAGIC0 ∧ (parseHeader bs).magic1 = MAGIC1)

def validBytes (bs : Bytes) : Bool :=
  decide (HEADER_SIZE ≤ bs.length) && magicOk bs && decide ((parseHeader bs).version ≠ 0) &&
  decide ((parseHeader bs).generation ≠ 0) && decide (SEGMENT_SIZE ≤ (parseHeader bs).segsize)

/-- result of opening: success or the error reported -/
inductive Res (ε : Type)
  | ok
  | err (e : ε)
deriving Repr, BEq, DecidableEq, Inhabited

def Res.map (f : ε → δ) : Res ε → Res δ
  | .ok => .ok | .err e => .err (f e)
def Res.isOk : Res ε → Bool
  | .ok => true | .err _ => false
def Res.ofExcept : Except ε α → Res ε
  | .ok _ => .ok | .error e => .err e

/-- the documented outcome of opening, by kind of path and first failing condition -/
def specOpen : FileState → Res ShmErr
  | .missing => .err (.sys ENOENT .open_)
  | .directory => .err (.sys EISDIR .read)
  | .file bs =>
    if validBytes bs then .ok
    else if bs.length < HEADER_SIZE ∨ !magicOk bs ∨ (parseHeader bs).version = 0 ∨ (parseHeader bs).generation = 0
      then .err .notInit
    else .err .malformed

def specValid (st : FileState) : Bool := (specOpen st).isOk

/-- a header the readers accept on a file that ends before byte 72: the daemon takes such a file
    over in place after growing it to 72 bytes with zeros (classification, used for tags and for the
    byte-exact clause of `HoldsSeg`) -/
def truncatedValid : FileState → Bool
  | .file bs => validBytes bs && decide (bs.length < SEGMENT_SIZE)
  | _ => false

/-- result of one way of opening: `none` = crash / panic / anything outside the documented kinds -/
abbrev OpenRes (ε : Type) := Option (Res ε)

def HoldsOpen (st : FileState) (shm : OpenRes ShmErr) (client c : OpenRes ClientErr) : Bool :=
  decide (shm = some (specOpen st)) &&
  decide (client = some ((specOpen st).map ShmErr.toClient)) &&
  decide (c = some ((specOpen st).map ShmErr.toClient))

/-- observable result of daemon start-up + first publication + a fresh reader -/
inductive SegAns
  | panic
  | ioErr (errno : Nat)
  | done (recreated inodeSame : Bool) (bytes : Bytes) (rd : Snap)
deriving Repr, BEq, DecidableEq, Inhabited

def priorLen : FileState → Nat
  | .file bs => bs.length | _ => 0
def priorSegsize : FileState → Nat
  | .file bs => (parseHeader bs).segsize | _ => 0

def priorGeneration : FileState → Nat
  | .file bs => (parseHeader bs).generation | _ => 0
/-- the first twelve bytes (magic number, declared size): never stored to on a take-over -/
def priorHead : FileState → Bytes
  | .file bs => slice bs 0 12 | _ => []

/-- the repair clause is evaluated for every prior state but a directory (start-up is refused with
    EISDIR) -/
def segApplicable (st : FileState) : Bool := decide (st ≠ .directory)

/-- start-up + first publication + a fresh reader: the reader reads back the record; the file was
    re-created exactly when the prior state does not open, and is then the documented 72-byte image;
    otherwise it was taken over in place: declared size unchanged, length unchanged but for a file that
    ended before byte 72, which is now exactly 72 bytes long — its first twelve bytes (magic number,
    declared size), version 1, the generation advanced by one publication, the record with its padding:
    the same shape as a taken-over 72-byte file, and it is still the same inode (grown, not replaced). -/
def HoldsSeg (st : FileState) (r : Record) : SegAns → Bool
  | .panic => false
  | .ioErr _ => false
  | .done rc ino bs rd =>
    let pad := slice bs 68 4
    decide (rd = .record r) &&
    decide (rc = !specValid st) &&
    (if rc then decide (bs = encodeSegmentP ⟨MAGIC0, MAGIC1, SEGMENT_SIZE, 1, 2⟩ r pad ∧ bs.length = SEGMENT_SIZE)
     else decide (bs.length = max (priorLen st) SEGMENT_SIZE ∧ (parseHeader bs).segsize = priorSegsize st) &&
          (!truncatedValid st || ino &&
            decide (bs = priorHead st ++ encU16 1 ++ encU16 (genFinish (genStart (priorGeneration st))) ++
                         encodeRecordP r pad)))

/-- the model's own answer to a `seg` request -/
def modelSeg (st : FileState) (r : Record) (pad : Bytes) : SegAns :=
  match startAndPublish st r pad with
  | .error e => .ioErr e
  | .ok (.file bs, rc) => .done rc (match st with | .file _ => true | _ => false) bs (snapshotOfFile (.file bs))
  | .ok (_, _) => .panic      -- unreachable: start-up always leaves a regular file

end C16

/-! ## C17: reading the generated descriptions -/
namespace C17
open Generated

/-- the model's own layout table, in the document's vocabulary: (name, offset, width in bytes);
    tied to `encodeSegment` by the `field_*` theorems of Properties/C17.lean -/
def modelLayout : List (String × Nat × Nat) :=
  [("Magic Number", 0, 8), ("Segment Size", 8, 4), ("Version", 12, 2), ("Generation", 14, 2),
   ("As-Of Timestamp", 16, 16), ("Void-After Timestamp", 32, 16), ("Bound", 48, 8),
   ("Max Drift", 56, 4), ("Reserved", 60, 4), ("Clock Status", 64, 4), ("Padding", 68, 4)]

/-- element structure of each described field in the model: (signed, width in bytes) -/
def modelTypes : List (String × List (Bool × Nat)) :=
  [("Magic Number", [(false, 4), (false, 4)]), ("Segment Size", [(false, 4)]), ("Version", [(false, 2)]),
   ("Generation", [(false, 2)]), ("As-Of Timestamp", [(true, 8), (true, 8)]),
   ("Void-After Timestamp", [(true, 8), (true, 8)]), ("Bound", [(true, 8)]), ("Max Drift", [(false, 4)]),
   ("Reserved", [(false, 4)]), ("Clock Status", [(true, 4)])]

/-- offsets from the bit diagram: boxes are laid out consecutively; `none` if a box is not a whole
    number of bytes -/
def layoutOfDiagram : Nat → List (String × Nat) → Option (List (String × Nat × Nat))
  | _, [] => some []
  | off, (n, bits) :: rest =>
    if bits % 8 = 0 then (layoutOfDiagram (off + bits / 8) rest).map (fun l => (n, off, bits / 8) :: l)
    else none

def docLayout : Option (List (String × Nat × Nat)) := layoutOfDiagram 0 Protocol.diagram

def docTotal : Nat := (Protocol.diagram.map (·.2)).foldl (· + ·) 0 / 8

/-- the type annotations the document uses; anything else is not understood (`none`) -/
def tyElems : String → Option (List (Bool × Nat))
  | "u64" => some [(false, 8)]
  | "u32" => some [(false, 4)]
  | "u16" => some [(false, 2)]
  | "i64" => some [(true, 8)]
  | "i32" => some [(true, 4)]
  | "i64, i64" => some [(true, 8), (true, 8)]
  | "u32, u32" => some [(false, 4), (false, 4)]
  | "[u32; 2]" => some [(false, 4), (false, 4)]
  | "2 x u32" => some [(false, 4), (false, 4)]
  | _ => none

def elemsWidth (l : List (Bool × Nat)) : Nat := (l.map (·.2)).foldl (· + ·) 0

/-- every described field but the magic number: annotation = model element structure, and its
    width = the width of its diagram box; the magic number: total width 8 -/
def docTypesAgree : Bool :=
  Protocol.described.all fun (n, ann) =>
    match tyElems ann, modelLayout.lookup n with
    | some el, some (_, w) =>
      decide (elemsWidth el = w) &&
      (if n = "Magic Number" then true else modelTypes.lookup n == some el)
    | _, _ => false

/-- bytes of the magic number as the document spells them, per literal form: two-digit literals are
    bytes in file order, eight-digit literals native-endian (= little-endian) 32-bit words in order,
    a sixteen-digit literal a native-endian 64-bit word -/
def docMagicBytesOf (digits : Nat) : List Nat → Bytes
  | [] => []
  | v :: vs => encLE (digits / 2) v ++ docMagicBytesOf digits vs

def litsOf (digits : Nat) : List Nat := (Protocol.magicLiterals.filter (·.1 == digits)).map (·.2)

def modelMagicBytes : Bytes := encU32 MAGIC0 ++ encU32 MAGIC1

/-- every literal form that occurs in the magic number's description must spell the bytes the code
    writes (on a little-endian host), and at least one form must occur -/
def magicDocAgrees : Bool :=
  let forms := [2, 8, 16].filter (fun d => !(litsOf d).isEmpty)
  !forms.isEmpty &&
  forms.all (fun d => docMagicBytesOf d (litsOf d) == modelMagicBytes) &&
  Protocol.magicLiterals.all (fun p => p.1 == 2 || p.1 == 8 || p.1 == 16)

/-- the same literals read on a big-endian host (for the record: the current wording is right there) -/
def magicDocAgreesBigEndian : Bool :=
  let forms := [2, 8, 16].filter (fun d => !(litsOf d).isEmpty)
  !forms.isEmpty &&
  forms.all (fun d => ((litsOf d).map (fun v => (encLE (d / 2) v).reverse)).flatten
                        == (encU32 MAGIC0).reverse ++ (encU32 MAGIC1).reverse)

/-- magic bytes a reader of the document would expect at offset 0 (two-digit form first) -/
def docMagicBytes : Bytes :=
  if !(litsOf 2).isEmpty then docMagicBytesOf 2 (litsOf 2)
  else if !(litsOf 8).isEmpty then docMagicBytesOf 8 (litsOf 8)
  else docMagicBytesOf 16 (litsOf 16)

/-! ### a decoder driven by the document alone -/

def decElem (bs : Bytes) (signed : Bool) : Int :=
  if signed then
    let u := decLE bs
    let half := 256 ^ bs.length / 2
    if u < half then (u : Int) else (u : Int) - ((256 ^ bs.length : Nat) : Int)
  else (decLE bs : Int)

def decElems (bs : Bytes) : Nat → List (Bool × Nat) → List Int
  | _, [] => []
  | off, (s, w) :: rest => decElem (slice bs off w) s :: decElems bs (off + w) rest

/-- how the document says the fields other than the magic number are to be read: (name, offset from
    the diagram, element types from the annotation); `none` if the document cannot be interpreted -/
def docPlan : Option (List (String × Nat × List (Bool × Nat))) :=
  match docLayout with
  | none => none
  | some lay =>
    (Protocol.described.filter (fun f => f.1 != "Magic Number")).mapM fun (n, ann) =>
      match tyElems ann, lay.lookup n with
      | some el, some (off, _) => some (n, off, el)
      | _, _ => none

/-- field values of a segment image according to the document alone; `none` if the document cannot
    be interpreted or the image is shorter than the diagram -/
def docDecode (bs : Bytes) : Option (List (String × List Int)) :=
  if bs.length < docTotal then none else
  docPlan.map fun plan => plan.map fun (n, off, el) => (n, decElems bs off el)

/-- the published record in the document's vocabulary -/
def recordFields (r : Record) : List (String × List Int) :=
  [("As-Of Timestamp", [r.asOf.sec, r.asOf.nsec]), ("Void-After Timestamp", [r.voidAfter.sec, r.voidAfter.nsec]),
   ("Bound", [r.bound]), ("Max Drift", [(r.drift : Int)]), ("Reserved", [(r.reserved : Int)]),
   ("Clock Status", [(r.status.code : Int)])]

/-- a reader built from the document alone finds the published record, layout version 1, an even
    non-zero generation and a declared size of at least 72 that is the file's size when the daemon
    created it (the magic number is `HoldsMagic`'s business) -/
def HoldsSeg (bytes : Bytes) (r : Record) (recreated : Bool) : Bool :=
  match docDecode bytes with
  | none => false
  | some fs =>
    (recordFields r).all (fun (n, v) => fs.lookup n == some v) &&
    fs.lookup "Version" == some [1] &&
    (match fs.lookup "Generation" with | some [g] => decide (g ≠ 0 ∧ g % 2 = 0) | _ => false) &&
    (match fs.lookup "Segment Size" with
     | some [s] => decide (72 ≤ s) && (!recreated || decide (s = bytes.length ∧ s = docTotal))
     | _ => false)

def HoldsMagic (bytes : Bytes) : Bool := magicDocAgrees && decide (slice bytes 0 8 = docMagicBytes)

/-! ### the C ABI -/

inductive AbiTy | u16 | i32 | u32 | i64 | enum32 | ptr | timespec | arrU32x2
deriving Repr, BEq, DecidableEq, Inhabited

/-- x86-64 / aarch64 System V (LP64) -/
def AbiTy.size : AbiTy → Nat
  | .u16 => 2 | .i32 => 4 | .u32 => 4 | .i64 => 8 | .enum32 => 4 | .ptr => 8 | .timespec => 16 | .arrU32x2 => 8
def AbiTy.align : AbiTy → Nat
  | .u16 => 2 | .i32 => 4 | .u32 => 4 | .i64 => 8 | .enum32 => 4 | .ptr => 8 | .timespec => 8 | .arrU32x2 => 4

/-- C types that occur in clockbound.h (token-normalised); anything else is not understood -/
def cAbi : String → Option AbiTy
  | "int" => some .i32
  | "const char *" => some .ptr
  | "char const *" => some .ptr
  | "struct timespec" => some .timespec
  | "clockbound_err_kind" => some .enum32
  | "clockbound_clock_status" => some .enum32
  | "clockbound_ctx *" => some .ptr
  | "clockbound_err *" => some .ptr
  | "clockbound_err const *" => some .ptr
  | "const clockbound_err *" => some .ptr
  | "clockbound_now_result *" => some .ptr
  | _ => none

/-- Rust types that occur in the `#[repr(C)]` items and `extern "C"` signatures -/
def rustAbi : String → Option AbiTy
  | "i32" => some .i32
  | "u32" => some .u32
  | "i64" => some .i64
  | "*const c_char" => some .ptr
  | "libc::timespec" => some .timespec
  | "clockbound_err_kind" => some .enum32
  | "clockbound_clock_status" => some .enum32
  | "ClockStatus" => some .enum32
  | "*mut clockbound_ctx" => some .ptr
  | "*mut clockbound_err" => some .ptr
  | "*const clockbound_err" => some .ptr
  | "*mut clockbound_now_result" => some .ptr
  | "[u32; 2]" => some .arrU32x2
  | "atomic::AtomicU32" => some .u32
  | "atomic::AtomicU16" => some .u16
  | _ => none

def roundUp (x a : Nat) : Nat := (x + a - 1) / a * a

/-- `repr(C)` layout: (offset, size) of each member, then total size and alignment -/
def reprCGo : Nat → Nat → List AbiTy → List (Nat × Nat) × Nat × Nat
  | off, al, [] => ([], roundUp off al, al)
  | off, al, t :: ts =>
    let o := roundUp off t.align
    let (l, sz, a) := reprCGo (o + t.size) (max al t.align) ts
    ((o, t.size) :: l, sz, a)

def reprC (minAlign : Nat) (ts : List AbiTy) : List (Nat × Nat) × Nat × Nat := reprCGo 0 minAlign ts

def structTys (abi : String → Option AbiTy) (structs : List (String × List (String × String))) (name : String) :
    Option (List AbiTy) :=
  match structs.lookup name with
  | none => none
  | some fs => fs.mapM (fun f => abi f.2)

def enumValues (enums : List (String × List (String × Nat))) (name : String) : Option (List Nat) :=
  (enums.lookup name).map (·.map (·.2))

/-- what a C compiler must report for clockbound.h if it lays the types out as the Rust side does:
    `[sizeof(clockbound_err), (offset, size)…]`, the same for `clockbound_now_result`, the enumerator
    values of both enums -/
def expectedAbi : Option (List Nat × List Nat × List Nat × List Nat) :=
  match structTys rustAbi RustFfi.structs "clockbound_err", structTys rustAbi RustFfi.structs "clockbound_now_result",
        enumValues RustFfi.enums "clockbound_err_kind", enumValues RustFfi.enums "clockbound_clock_status" with
  | some e, some n, some ks, some ss =>
    let flat (t : List (Nat × Nat) × Nat × Nat) : List Nat := t.2.1 :: (t.1.map (fun p => [p.1, p.2])).flatten
    some (flat (reprC 1 e), flat (reprC 1 n), ks, ss)
  | _, _, _, _ => none

def HoldsAbi (impl : List Nat × List Nat × List Nat × List Nat) : Bool := decide (expectedAbi = some impl)

/-- the C and the Rust client answered the same (a Rust panic is an abort inside `extern "C"`) -/
inductive NowAns
  | out (o : Outcome)                 -- ok / malformed / causality / panic (Rust) — `Outcome` of Model/Client
  | sysErr (errno : Nat) (detail : String)
  | notInit
  | openErr (e : ClientErr)
  | crash (signal : Nat)              -- the C process died
deriving Repr, BEq, DecidableEq, Inhabited

def HoldsSandwich (rust c : NowAns) : Bool :=
  match rust, c with
  | .out .panic, .crash 6 => true
  | .out .panic, _ => false
  | _, .crash _ => false
  | a, b => decide (a = b)

/-- same error kind, errno and detail from both client libraries on open -/
def HoldsOpen (client c : C16.OpenRes ClientErr) : Bool := client.isSome && decide (client = c)

end C17
end ClockBound
