/-
  Model of clock-bound-d: `extract_bound_from_tracking`, `ChronyClockStatus::from(u16)`,
  the clock-status FSM, `ShmUpdater`, the poller iteration, the generation protocol of
  `ShmWriter::write`, and the `--max-drift-rate` conversion of `main`.
-/
import ClockBound.Model.Client
namespace ClockBound

inductive ChronyStatus | unknown | synchronized | freeRunning
deriving Repr, BEq, DecidableEq, Inhabited

def ChronyStatus.code : ChronyStatus → Nat
  | .unknown => 0 | .synchronized => 1 | .freeRunning => 2

/-- `impl From<u16> for ChronyClockStatus` (leap status) -/
def leapClass (leap : Nat) : ChronyStatus :=
  if leap ≤ 2 then .synchronized else if leap = 3 then .freeRunning else .unknown

/-- the fields of a chrony Tracking reply that the daemon looks at; floats as 32-bit wire words -/
structure Tracking where
  leap : Nat            -- u16
  refNs : Int           -- ref_time, ns since the epoch
  offW : Nat            -- current_correction
  dispW : Nat           -- root_dispersion
  delayW : Nat          -- root_delay
  intervalW : Nat       -- last_update_interval
  refid : Nat := 0
deriving Repr, BEq, DecidableEq, Inhabited

/-- the f64 pipeline of `extract_bound_from_tracking`:
    `((root_delay / 2. + root_dispersion + |current_correction|) * 1e9).ceil() as i64` -/
def boundF (t : Tracking) : Int :=
  let delay := F64.chronyFloat t.delayW
  let disp := F64.chronyFloat t.dispW
  let off := F64.chronyFloat t.offW
  let offAbs := if off < 0 then -off else off
  F64.castI64 (F64.ceil (F64.mul (F64.add (F64.add (F64.div delay 2) disp) offAbs) 1000000000))

/-- status part of `extract_bound_from_tracking`; `nowNs` = CLOCK_REALTIME at the call -/
def classify (t : Tracking) (nowNs : Int) : ChronyStatus :=
  if t.refNs > nowNs then .unknown            -- `ref_time.elapsed()` is `Err`
  else
    let timeoutSecs := F64.castU64 (F64.mul (F64.chronyFloat t.intervalW) 8)
    match leapClass t.leap with
    | .synchronized =>
      if nowNs - t.refNs > timeoutSecs * 1000000000 then .freeRunning else .synchronized
    | s => s

def extractBound (t : Tracking) (nowNs : Int) : Int × ChronyStatus := (boundF t, classify t nowNs)

/-- the FSM of clock_state_fsm.rs as its 3×3 table (state × input → state) -/
def fsmStep : Status → ChronyStatus → Status
  | .unknown, .unknown => .unknown
  | .unknown, .synchronized => .synchronized
  | .unknown, .freeRunning => .freeRunning
  | .synchronized, .unknown => .unknown
  | .synchronized, .synchronized => .synchronized
  | .synchronized, .freeRunning => .freeRunning
  | .freeRunning, .unknown => .unknown
  | .freeRunning, .synchronized => .synchronized
  | .freeRunning, .freeRunning => .freeRunning

/-- `ShmUpdater` -/
structure Updater where
  drift : Nat
  fsm : Status := .unknown
  bound : Int := 0
  asOf : TimeSpec := ⟨0, 0⟩
  reserved : Nat := 0
  /-- a synchronised measurement has been stored (repair of C09: the status is published as
      Unknown until this is set) -/
  hasMeasurement : Bool := false
deriving Repr, BEq, DecidableEq, Inhabited

def Updater.new (drift : Nat) : Updater := { drift := drift }

/-- messages the writer thread acts on -/
inductive Msg
  | data (t : Tracking) (phc : Int) (asOf : TimeSpec) (nowNs : Int)
  | missing (withinGrace : Bool)
deriving Repr, BEq, DecidableEq, Inhabited

/-- `write_clock_error_bound`: the record that is published; `none` = overflow panic -/
def Updater.record (u : Updater) : Option Record := do
  let vsec ← chk (u.asOf.sec + 1000)
  some { asOf := u.asOf, voidAfter := ⟨vsec, 0⟩, bound := u.bound, drift := u.drift,
         reserved := u.reserved,
         status := if u.hasMeasurement then u.fsm else .unknown }

/-- one message: new updater state and the record published (`none` = panic) -/
def Updater.step (u : Updater) : Msg → Option (Updater × Record)
  | .data t phc asOf nowNs => do
    let (b0, cs) := extractBound t nowNs
    let b ← chk (b0 + phc)
    let u1 := { u with fsm := fsmStep u.fsm cs }
    let u2 := if cs = .synchronized then { u1 with bound := b, asOf := asOf, hasMeasurement := true } else u1
    let r ← u2.record
    some (u2, r)
  | .missing g => do
    let cs : ChronyStatus := if g then .freeRunning else .unknown
    let u1 := { u with fsm := fsmStep u.fsm cs }
    let r ← u1.record
    some (u1, r)

/-- run a whole history, collecting the published records (stops at a panic) -/
def Updater.run (u : Updater) : List Msg → List Record
  | [] => []
  | m :: ms => match u.step m with
    | none => []
    | some (u', r) => r :: Updater.run u' ms

/-! ### generation protocol of `ShmWriter::write` (C11) -/

/-- value stored before the record copy -/
def genStart (g : Nat) : Nat := if g % 2 = 0 then (g + 1) % 65536 else g
/-- value stored after the record copy, from the in-flight value -/
def genFinish (g : Nat) : Nat := let n := (g + 1) % 65536; if n = 0 then 2 else n

/-- history of the generation field: `start` = first store of an update, `finish` = second store,
    `crash` = the writer process dies (a restarted writer carries on from whatever is in the file) -/
inductive GEv | start | finish | crash
deriving Repr, BEq, DecidableEq, Inhabited

structure GState where
  g : Nat                  -- generation value in the segment
  mid : Bool := false      -- an update is in flight (between the two stores)
  stale : Bool := false    -- the last update was interrupted by a crash and none completed since
  stores : Nat := 0        -- ghost: number of generation stores so far
  finishes : Nat := 0      -- ghost: number of completed updates so far
deriving Repr, BEq, DecidableEq, Inhabited

def GState.step (s : GState) : GEv → GState
  | .start => if s.mid then s else { s with g := genStart s.g, mid := true, stale := false, stores := s.stores + 1 }
  | .finish => if s.mid then { s with g := genFinish s.g, mid := false, stale := false, stores := s.stores + 1, finishes := s.finishes + 1 } else s
  | .crash => if s.mid then { s with mid := false, stale := true } else s

def GState.run (g0 : Nat) (evs : List GEv) : GState := evs.foldl GState.step { g := g0 }

/-! ### `--max-drift-rate` (C19) -/

/-- `main`: ppm → ppb; `none` = refused at start-up -/
def driftPpb : Option Nat → Option Nat
  | none => some 1000
  | some r => if r * 1000 < 4294967296 then some (r * 1000) else none

end ClockBound
