/-
  Model of clock-bound-d/src/chrony_poller.rs: `ClockErrorBoundPoller` (`Default`, `get_tracking`,
  `is_within_grace_period`), one iteration of `run_clock_error_bound_poller` (message selection
  and the order of its clock reads / query / sysfs read / send / wait), whole runs, and the
  decidable oracles of C13 and of the daemon half of C12.  Import-free apart from Model files.

  Time: `Instant` values are CLOCK_MONOTONIC readings in ns (`Int`); the as-of stamp is the raw
  `timespec` returned by `clock_gettime_safe(CLOCK_MONOTONIC)` (= CLOCK_MONOTONIC_COARSE on Linux).
-/
import ClockBound.Model.Daemon
namespace ClockBound

/-- `CHRONY_RESTART_GRACE_PERIOD` (5 s) in ns -/
def GRACE_NS : Int := 5000000000

/-- `ClockErrorBoundPoller { last_tracking_data: Instant }` -/
structure PollerState where
  lastGood : Int
deriving Repr, BEq, DecidableEq, Inhabited

/-- `impl Default`: `Instant::now().checked_sub(5 s).unwrap()`; `tStart` = that `Instant::now()` -/
def Poller.init (tStart : Int) : PollerState := ⟨tStart - GRACE_NS⟩

/-- what `blocking_query_uds` gave: `Err(_)`, a reply whose body is not Tracking, or Tracking -/
inductive ReplyKind
  | none
  | other
  | tracking (t : Tracking)
deriving Repr, BEq, DecidableEq, Inhabited

def ReplyKind.isSilence : ReplyKind → Bool
  | .tracking _ => false
  | _ => true

/-- state of the sysfs `phc_error_bound` file when it is read -/
inductive PhcFile
  | ok (v : Int)        -- contents trim to the decimal `v`
  | unreadable          -- `File::open` / `read_to_string` fails
  | unparsable          -- readable, contents do not parse as i64
deriving Repr, BEq, DecidableEq, Inhabited

/-- `PhcInfo { refid, sysfs_error_bound_path }` with the file's state at the time of the read -/
structure PhcCfg where
  refid : Nat
  file : PhcFile
deriving Repr, BEq, DecidableEq, Inhabited

/-- `get_phc_error_bound_from_path`: `some (some v)` = `Ok(v)`, `some none` = `Err(io)`,
    `none` = the `expect("Could not parse error bound value to i64")` panic -/
def PhcFile.read : PhcFile → Option (Option Int)
  | .ok v => if inI64 v then some (some v) else none
  | .unreadable => some none
  | .unparsable => none

/-- what the poller thread sends to the ShmWriter (`panic` = the thread dies, nothing is sent) -/
inductive PollMsg
  | data (t : Tracking) (phc : Int) (asOf : TimeSpec)   -- ClockErrorBoundData((tracking, phc, as_of))
  | nrGrace                                              -- ChronyNotRespondingGracePeriod
  | nr                                                   -- ChronyNotResponding
  | phcGrace                                             -- PhcErrorBoundRetrievalFailedGracePeriod
  | phcFail                                              -- PhcErrorBoundRetrievalFailed
  | panic
deriving Repr, BEq, DecidableEq, Inhabited

def PollMsg.isData : PollMsg → Bool
  | .data _ _ _ => true
  | _ => false

/-- `Instant::elapsed()` = `Instant::now() - self`, saturating at zero -/
def Poller.elapsed (last now : Int) : Int := if now - last < 0 then 0 else now - last

/-- `is_within_grace_period`; `tGrace` = the `Instant::now()` inside `elapsed()` -/
def PollerState.withinGrace (s : PollerState) (tGrace : Int) : Bool :=
  decide (Poller.elapsed s.lastGood tGrace < GRACE_NS)

/-- one iteration of the loop body of `run_clock_error_bound_poller`.
    `asOf`   = `clock_gettime_safe(CLOCK_MONOTONIC)` taken first;
    `reply`  = outcome of the query made by `get_tracking`;
    `tReply` = `Instant::now()` in `get_tracking` when a Tracking reply is accepted;
    `tGrace` = `Instant::now()` inside `is_within_grace_period` (only read where it is called);
    `phc`    = the PHC configuration with the state of its sysfs file, if any. -/
def pollStep (s : PollerState) (asOf : TimeSpec) (reply : ReplyKind) (tReply tGrace : Int)
    (phc : Option PhcCfg) : PollerState × PollMsg :=
  match reply with
  | .tracking t =>
    let s' : PollerState := ⟨tReply⟩                       -- self.last_tracking_data = Instant::now()
    match phc with
    | some cfg =>
      if cfg.refid = t.refid then
        match cfg.file.read with
        | some (some v) => (s', .data t v asOf)
        | some none => (s', if s'.withinGrace tGrace then .phcGrace else .phcFail)
        | none => (s', .panic)
      else (s', .data t 0 asOf)
    | none => (s', .data t 0 asOf)
  | _ => (s, if s.withinGrace tGrace then .nrGrace else .nr)

/-! ### the ordered actions of one iteration (C12, daemon half) -/

inductive PollAction
  | readMonoCoarse      -- clock_gettime_safe(CLOCK_MONOTONIC)  (→ as_of)
  | query               -- blocking_query_uds(Tracking)
  | readMono            -- Instant::now()
  | readPhc             -- get_phc_error_bound_from_path
  | send                -- ctx.dbox.send(ShmWriter, message)
  | wait                -- ctx.mbox.recv_timeout(sleep)
deriving Repr, BEq, DecidableEq, Inhabited

/-- the actions of one iteration, in program order (a panic ends the list) -/
def pollActions (reply : ReplyKind) (phc : Option PhcCfg) : List PollAction :=
  .readMonoCoarse :: .query ::
  match reply with
  | .tracking t =>
    .readMono ::
    match phc with
    | some cfg =>
      if cfg.refid = t.refid then
        .readPhc ::
        match cfg.file.read with
        | some (some _) => [.send, .wait]
        | some none => [.readMono, .send, .wait]
        | none => []
      else [.send, .wait]
    | none => [.send, .wait]
  | _ => [.readMono, .send, .wait]

/-- the same iteration with the values that flow: what each read returned, what was sent -/
inductive PollEv
  | readMonoCoarse (v : TimeSpec)
  | query (r : ReplyKind)
  | readMono (v : Int)
  | readPhc (f : PhcFile)
  | send (m : PollMsg)
  | wait
deriving Repr, BEq, DecidableEq, Inhabited

def PollEv.action : PollEv → PollAction
  | .readMonoCoarse _ => .readMonoCoarse
  | .query _ => .query
  | .readMono _ => .readMono
  | .readPhc _ => .readPhc
  | .send _ => .send
  | .wait => .wait

/-- event trace of one iteration; `coarse` is the value the first read returns. The message is
    assembled from the values read, as in the source: the as-of of a data message is the variable
    bound by the first read. -/
def pollTrace (s : PollerState) (coarse : TimeSpec) (reply : ReplyKind) (tReply tGrace : Int)
    (phc : Option PhcCfg) : List PollEv :=
  let asOf := coarse
  .readMonoCoarse coarse :: .query reply ::
  match reply with
  | .tracking t =>
    let s' : PollerState := ⟨tReply⟩
    .readMono tReply ::
    match phc with
    | some cfg =>
      if cfg.refid = t.refid then
        .readPhc cfg.file ::
        match cfg.file.read with
        | some (some v) => [.send (.data t v asOf), .wait]
        | some none =>
          [.readMono tGrace, .send (if s'.withinGrace tGrace then .phcGrace else .phcFail), .wait]
        | none => []
      else [.send (.data t 0 asOf), .wait]
    | none => [.send (.data t 0 asOf), .wait]
  | _ => [.readMono tGrace, .send (if s.withinGrace tGrace then .nrGrace else .nr), .wait]

/-- what the harness can observe of an action: the clock id of a read (6 = MONOTONIC_COARSE,
    1 = MONOTONIC), −1 = the query, −2 = the send, −3 = the wait; the sysfs read is not observed -/
def PollAction.obs : PollAction → Option Int
  | .readMonoCoarse => some 6
  | .query => some (-1)
  | .readMono => some 1
  | .readPhc => none
  | .send => some (-2)
  | .wait => some (-3)

def obsLog (acts : List PollAction) : List Int := acts.filterMap PollAction.obs

/-! ### whole runs -/

/-- inputs of one loop iteration; `file` = state of the PHC sysfs file during this iteration
    (ignored when no PHC is configured) -/
structure PollIter where
  asOf : TimeSpec
  reply : ReplyKind
  tReply : Int
  tGrace : Int
  file : PhcFile := .unreadable
deriving Repr, BEq, DecidableEq, Inhabited

/-- `phc_info` as this iteration sees it; `refid` = the configured PHC reference id, if any -/
def PollIter.phc (refid : Option Nat) (it : PollIter) : Option PhcCfg :=
  refid.map fun r => ⟨r, it.file⟩

def PollIter.step (refid : Option Nat) (s : PollerState) (it : PollIter) : PollerState × PollMsg :=
  pollStep s it.asOf it.reply it.tReply it.tGrace (it.phc refid)

def PollIter.actions (refid : Option Nat) (it : PollIter) : List PollAction :=
  pollActions it.reply (it.phc refid)

/-- messages of a run from state `s`; the loop ends with the thread's panic -/
def Poller.runFrom (refid : Option Nat) (s : PollerState) : List PollIter → List PollMsg
  | [] => []
  | it :: rest =>
    let r := it.step refid s
    if r.2 = .panic then [.panic] else r.2 :: Poller.runFrom refid r.1 rest

/-- `run`: a fresh poller created at Instant `tStart`, then the iterations -/
def Poller.run (tStart : Int) (refid : Option Nat) (iters : List PollIter) : List PollMsg :=
  Poller.runFrom refid (Poller.init tStart) iters

/-- observable logs of a run, one per executed iteration -/
def Poller.logsFrom (refid : Option Nat) (s : PollerState) : List PollIter → List (List Int)
  | [] => []
  | it :: rest =>
    let r := it.step refid s
    obsLog (it.actions refid) :: (if r.2 = .panic then [] else Poller.logsFrom refid r.1 rest)

def Poller.logs (tStart : Int) (refid : Option Nat) (iters : List PollIter) : List (List Int) :=
  Poller.logsFrom refid (Poller.init tStart) iters

/-- poller state after the iterations `pre` (no panic among them) -/
def Poller.stateAfter (refid : Option Nat) (s : PollerState) (pre : List PollIter) : PollerState :=
  pre.foldl (fun s it => (it.step refid s).1) s

/-- the message of iteration `it` when it runs after the iterations `pre` of a daemon started at `tStart` -/
def Poller.msgAfter (tStart : Int) (refid : Option Nat) (pre : List PollIter) (it : PollIter) : PollMsg :=
  (it.step refid (Poller.stateAfter refid (Poller.init tStart) pre)).2

/-- the `Instant` readings an iteration makes, in program order -/
def PollIter.readings (refid : Option Nat) (it : PollIter) : List Int :=
  match it.reply with
  | .tracking t =>
    it.tReply ::
    (match it.phc refid with
     | some cfg => if cfg.refid = t.refid ∧ cfg.file.read = some none then [it.tGrace] else []
     | none => [])
  | _ => [it.tGrace]

/-- all `Instant` readings of a run, starting with the one in `Default` -/
def Poller.readings (tStart : Int) (refid : Option Nat) (iters : List PollIter) : List Int :=
  tStart :: iters.flatMap (PollIter.readings refid)

def nonDecreasing : List Int → Bool
  | a :: b :: rest => decide (a ≤ b) && nonDecreasing (b :: rest)
  | _ => true

/-- what the writer thread does with the message (`Msg` of Model/Daemon); `nowNs` = its
    CLOCK_REALTIME reading. A panic sends nothing. -/
def PollMsg.toWriter (nowNs : Int) : PollMsg → Option Msg
  | .data t phc asOf => some (.data t phc asOf nowNs)
  | .nrGrace => some (.missing true)
  | .phcGrace => some (.missing true)
  | .nr => some (.missing false)
  | .phcFail => some (.missing false)
  | .panic => none

/-! ### C13 oracle — stated without the poller's state: in terms of when replies were accepted -/
namespace C13

/-- ghost of the spec: the Instant reading at which the latest Tracking reply was accepted -/
def accept (last : Option Int) (it : PollIter) : Option Int :=
  match it.reply with
  | .tracking _ => some it.tReply
  | _ => last

def lastAccepted (pre : List PollIter) : Option Int := pre.foldl accept none

/-- configured PHC is the reference of this report -/
def refMatches (refid : Option Nat) (t : Tracking) : Bool :=
  match refid with
  | some r => decide (r = t.refid)
  | none => false

/-- the clauses of C13 for one iteration, on the message `m` the implementation sent.
    `last` = acceptance time of the latest Tracking reply *before* this iteration. -/
def HoldsIter (tStart : Int) (refid : Option Nat) (last : Option Int) (it : PollIter) (m : PollMsg) : Bool :=
  match it.reply with
  | .tracking t =>
    if refMatches refid t then
      match it.file with
      | .ok v =>
        if inI64 v then
          -- matching reference, readable file: the report is passed on WITH the PHC bound
          (match m with | .data t' p _ => decide (t' = t) && decide (p = v) | _ => false)
        else !m.isData
      | .unreadable =>
        -- matching reference, bound cannot be read: a failure message, never a measurement;
        -- in-grace iff the reply just accepted is younger than 5 s at the grace read
        (match m with
         | .phcGrace => decide (it.tGrace - it.tReply < GRACE_NS)
         | .phcFail => decide (GRACE_NS ≤ it.tGrace - it.tReply)
         | _ => false)
      | .unparsable => !m.isData
    else
      -- no PHC configured or another reference: the report is passed on with PHC bound 0
      (match m with | .data t' p _ => decide (t' = t) && decide (p = 0) | _ => false)
  | _ =>
    match last with
    | some tL =>
      -- silence: FreeRunning-class iff the last good answer is less than 5 s old
      (match m with
       | .nrGrace => decide (it.tGrace - tL < GRACE_NS)
       | .nr => decide (GRACE_NS ≤ it.tGrace - tL)
       | _ => false)
    | none =>
      -- no answer ever: Unknown-class at once (the other message only if the clock ran backwards)
      (match m with
       | .nr => true
       | .nrGrace => decide (it.tGrace < tStart)
       | _ => false)

def HoldsFrom (tStart : Int) (refid : Option Nat) (last : Option Int) :
    List PollIter → List PollMsg → Bool
  | [], [] => true
  | [], _ :: _ => false
  | _ :: _, [] => false
  | it :: its, m :: ms =>
    HoldsIter tStart refid last it m &&
    (if m = .panic then ms.isEmpty else HoldsFrom tStart refid (accept last it) its ms)

/-- one message per iteration (up to a panic, which ends the run), each satisfying `HoldsIter` -/
def Holds (tStart : Int) (refid : Option Nat) (iters : List PollIter) (msgs : List PollMsg) : Bool :=
  HoldsFrom tStart refid none iters msgs

end C13

/-! ### C12 (daemon half) oracle on the observed log of an iteration -/
namespace C12d

def indexOf? (x : Int) : List Int → Option Nat
  | [] => none
  | y :: ys => if y = x then some 0 else (indexOf? x ys).map (· + 1)

/-- the MONOTONIC_COARSE read (6) exists and precedes the query event (−1); a data message carries
    exactly the value that read returned (`coarse`; the harness changes the clock at the query,
    so a later read would return something else) -/
def HoldsIter (coarse : TimeSpec) (log : List Int) (m : PollMsg) : Bool :=
  (match indexOf? 6 log, indexOf? (-1) log with
   | some i, some j => decide (i < j)
   | _, _ => false) &&
  (match m with
   | .data _ _ a => decide (a = coarse)
   | _ => true)

def Holds : List PollIter → List (PollMsg × List Int) → Bool
  | _, [] => true
  | [], _ :: _ => false
  | it :: its, (m, log) :: rest => HoldsIter it.asOf log m && Holds its rest

end C12d

end ClockBound
