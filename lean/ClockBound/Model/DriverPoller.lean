/-
  Line-protocol driver for the `poll` kind (chrony poller: C13 and the daemon half of C12).
  Import-free.  `Driver.processLine` forwards unknown kinds here.

  poll <tStart> (nophc | phc <refid>) ; <iter> ; ...  =>  <msg> @ <log> ; ...
    iter = <as_sec> <as_ns> <tReply> <tGrace> (fnone | fok <v> | funread | fbad)
           (none | other | trk <leap> <ref_ns> <offW> <dispW> <delayW> <intervalW> <refid>)
    msg  = data <phc> <as_sec> <as_ns> <leap> <ref_ns> <offW> <dispW> <delayW> <intervalW> <refid>
         | nr_grace | nr | phc_grace | phc | panic
    log  = 6 (MONOTONIC_COARSE read) | 1 (MONOTONIC read) | -1 (query) | -2 (send) | -3 (wait)
-/
import ClockBound.Model.Poller
namespace ClockBound.DriverP
open ClockBound

def ints (toks : List String) : Option (List Int) := toks.mapM String.toInt?

def verdict (name : String) (holds : Bool) : String :=
  if holds then s!"{name}:holds" else s!"{name}:FAILS"

/-- words are taken modulo their width, as the harness's `as u16` / `as u32` casts do -/
def mkTracking (leap ref off disp delay iv refid : Int) : Tracking :=
  { leap := (leap % 65536).toNat, refNs := ref, offW := (off % 4294967296).toNat,
    dispW := (disp % 4294967296).toNat, delayW := (delay % 4294967296).toNat,
    intervalW := (iv % 4294967296).toNat, refid := (refid % 4294967296).toNat }

def trackingText (t : Tracking) : String :=
  s!"{t.leap} {t.refNs} {t.offW} {t.dispW} {t.delayW} {t.intervalW} {t.refid}"

def msgText : PollMsg → String
  | .data t phc a => s!"data {phc} {a.sec} {a.nsec} {trackingText t}"
  | .nrGrace => "nr_grace"
  | .nr => "nr"
  | .phcGrace => "phc_grace"
  | .phcFail => "phc"
  | .panic => "panic"

def parseMsg (toks : List String) : Option PollMsg :=
  match toks with
  | "data" :: rest => do
    match ← ints rest with
    | [phc, as, an, leap, ref, off, disp, delay, iv, refid] =>
      some (.data (mkTracking leap ref off disp delay iv refid) phc ⟨as, an⟩)
    | _ => none
  | ["nr_grace"] => some .nrGrace
  | ["nr"] => some .nr
  | ["phc_grace"] => some .phcGrace
  | ["phc"] => some .phcFail
  | ["panic"] => some .panic
  | _ => none

def parseReply (toks : List String) : Option ReplyKind :=
  match toks with
  | ["none"] => some .none
  | ["other"] => some .other
  | "trk" :: rest => do
    match ← ints rest with
    | [leap, ref, off, disp, delay, iv, refid] =>
      if ref < 0 then none else some (.tracking (mkTracking leap ref off disp delay iv refid))
    -- an optional 8th field: the report's source address as an IPv4 word (the daemon never reads it)
    | [leap, ref, off, disp, delay, iv, refid, _ip4] =>
      if ref < 0 then none else some (.tracking (mkTracking leap ref off disp delay iv refid))
    -- an optional 9th field: the stratum chronyd reports for itself (the daemon never reads it)
    | [leap, ref, off, disp, delay, iv, refid, _ip4, _stratum] =>
      if ref < 0 then none else some (.tracking (mkTracking leap ref off disp delay iv refid))
    | _ => none
  | _ => none

def parseIter (toks : List String) : Option PollIter :=
  match toks with
  | as :: an :: tr :: tg :: rest => do
    let v ← ints [as, an, tr, tg]
    let (file, rep) ← (match rest with
      | "fnone" :: r => some (PhcFile.unreadable, r)
      | "funread" :: r => some (PhcFile.unreadable, r)
      | "fbad" :: r => some (PhcFile.unparsable, r)
      | "fblank" :: r => some (PhcFile.unparsable, r)      -- empty / whitespace-only attribute: `parse::<i64>` fails
      | "fok" :: x :: r => x.toInt?.map fun i => (PhcFile.ok i, r)
      | _ => none : Option (PhcFile × List String))
    let reply ← parseReply rep
    match v with
    | [as, an, tr, tg] => some { asOf := ⟨as, an⟩, reply := reply, tReply := tr, tGrace := tg, file := file }
    | _ => none
  | _ => none

def splitSemi (toks : List String) : List (List String) :=
  (toks.splitOn ";").filter (fun l => !l.isEmpty)

/-- `<msg> @ <log>` -/
def parseObs (toks : List String) : Option (PollMsg × List Int) :=
  match toks.splitOn "@" with
  | [m, l] => do some (← parseMsg m, ← ints l)
  | [m] => do some (← parseMsg m, [])
  | _ => none

def obsText (m : PollMsg) (log : List Int) : String :=
  s!"{msgText m} @ {String.intercalate " " (log.map toString)}"

def near (a b : Int) : Bool := decide ((a - b).natAbs ≤ 1)

/-- coverage tags of a run -/
def tags (tStart : Int) (refid : Option Nat) (iters : List PollIter) : List String :=
  let rec go (last : Option Int) (acc : List String) : List PollIter → List String
    | [] => acc
    | it :: rest =>
      let here : List String :=
        match it.reply with
        | .tracking t =>
          (match refid with
           | none => ["noPhc"]
           | some r =>
             if r = t.refid then
               ["phcMatch"] ++ (if r = 0 then ["refidZero"] else []) ++
               (match it.file with
                | .ok v => if inI64 v then (if v ≠ 0 then ["phcAdded"] else ["phcAddedZero"]) else ["phcPanic"]
                | .unreadable =>
                  ["phcFail"] ++ (if it.tGrace - it.tReply ≥ GRACE_NS then ["phcFailLate"] else []) ++
                  (if near (it.tGrace - it.tReply) GRACE_NS then ["phcFailNearGrace"] else [])
                | .unparsable => ["phcPanic"])
             else
               ["phcMismatch"] ++
               (if (r : Int) - t.refid = 1 ∨ (t.refid : Int) - r = 1 then ["refidOffByOne"] else []) ++
               (if t.refid = 0 ∨ r = 0 then ["refidZero"] else [])) ++
          (match last with | some l => if it.tReply < l then ["nonMonotone"] else [] | none => if it.tReply < tStart then ["nonMonotone"] else [])
        | k =>
          (if k == .other then ["otherReply"] else ["noReply"]) ++
          (match last with
           | none =>
             ["startupSilence"] ++
             (if near (it.tGrace - tStart) GRACE_NS then ["startupNear5s"] else []) ++
             (if it.tGrace < tStart then ["nonMonotone"] else [])
           | some l =>
             (if it.tGrace - l < GRACE_NS then ["graceSilence"] else ["lateSilence"]) ++
             (if near (it.tGrace - l) GRACE_NS then ["nearGrace"] else []) ++
             (if it.tGrace < l then ["nonMonotone"] else []))
      go (C13.accept last it) (acc ++ here.filter (fun x => !acc.contains x)) rest
  let base := (if iters.length ≥ 3 then ["len3"] else []) ++ (if refid.isSome then ["phcCfg"] else ["noPhcCfg"])
  go none base iters

def line (kind : String) (args impl : List String) : Option String :=
  if kind != "poll" then none else
  some <|
  match splitSemi args with
  | head :: iterToks =>
    let hdr : Option (Int × Option Nat) := match head with
      | [ts, "nophc"] => ts.toInt?.map fun t => (t, none)
      | [ts, "phc", r] => do
        let t ← ts.toInt?
        let r ← r.toInt?
        some (t, some (r % 4294967296).toNat)
      | _ => none
    match hdr, iterToks.mapM parseIter with
    | some (tStart, refid), some iters =>
      if iters.isEmpty then "bad-op | |" else
      let msgs := Poller.run tStart refid iters
      let logs := Poller.logs tStart refid iters
      let mtxt := String.intercalate " ; " ((msgs.zip logs).map fun (m, l) => obsText m l)
      let v := match ((splitSemi impl).mapM parseObs : Option (List (PollMsg × List Int))) with
        | some obs =>
          String.intercalate " " [
            verdict "C13" (C13.Holds tStart refid iters (obs.map Prod.fst)),
            verdict "C12" (C12d.Holds iters obs)]
        | none => "C13:FAILS C12:FAILS oracle:unparsed"
      let tg := tags tStart refid iters ++ (if msgs.contains .panic then ["panic"] else []) ++
        (if msgs.any PollMsg.isData then ["data"] else [])
      s!"{mtxt} | {v} | {String.intercalate "," tg}"
    | _, _ => "bad-op | |"
  | [] => "bad-op | |"

end ClockBound.DriverP
