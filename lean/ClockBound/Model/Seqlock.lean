/-
  Model of the seqlock protocol of clock-bound-shm (`ShmWriter::write`, `ShmWriter::new`'s version
  store, `ShmReader::snapshot`) over an operational release/acquire memory specialised to one
  writer at a time (DESIGN.md §3.4).

  * memory is an append-only log of messages; `carried` is the log prefix a reader learns by
    synchronising with the message;
  * a reader has `cur` (prefix it must respect), `acq` (what relaxed reads brought, released by an
    acquire fence) and a per-location coherence bound; a load may return ANY message at the location
    not older than max(coherence, last message at that location inside `cur`);
  * the writer and reader *programs* are pure step machines independent of the memory: they expose
    their next access and consume its result. C11 and C18 are statements about the machines alone,
    C02/C03/C04 about their composition with the memory.
  Import-free.
-/
import ClockBound.Model.Daemon
namespace ClockBound.SL
open ClockBound

inductive Loc | version | gen | cell (i : Nat)
deriving Repr, BEq, DecidableEq, Inhabited

structure Msg where
  loc : Loc
  val : Nat
  carried : Nat
deriving Repr, BEq, DecidableEq, Inhabited

inductive Ord | relaxed | acquire | release | acqrel | seqcst
deriving Repr, BEq, DecidableEq, Inhabited

/-- short names used in trace tokens -/
def Ord.short : Ord → String
  | .relaxed => "X" | .acquire => "A" | .release => "R" | .acqrel => "AR" | .seqcst => "SC"

def Ord.isAcq : Ord → Bool
  | .acquire | .acqrel | .seqcst => true
  | _ => false
def Ord.isRel : Ord → Bool
  | .release | .acqrel | .seqcst => true
  | _ => false

/-- orderings and fences of the real code, as observed by the atomics shim on this run -/
structure Ann where
  wLoad : Ord := .acquire
  wStore1 : Ord := .release
  wFence : Option Ord := some .release
  wStore2 : Ord := .release
  wVersion : Ord := .relaxed
  rVersion : Ord := .acquire
  rGen1 : Ord := .acquire
  rFence : Option Ord := some .acquire
  rGen2 : Ord := .acquire
deriving Repr, BEq, DecidableEq, Inhabited

/-- the annotations for which C02 is proved: release fence after the first generation store,
    release second store; acquire first generation load, acquire fence before the re-check, and an
    acquire re-check (its value is re-used as the next attempt's first generation) -/
def Ann.adequate (a : Ann) : Bool :=
  a.wStore2.isRel && (a.wFence.map Ord.isRel).getD false &&
  a.rGen1.isAcq && a.rGen2.isAcq && (a.rFence.map Ord.isAcq).getD false

/-- number of 8-byte cells of the 56-byte record -/
def N : Nat := 7

/-! ### memory -/

abbrev Log := List Msg

/-- largest index `< n` holding a message at `x` -/
def lastBefore (log : Log) (x : Loc) (n : Nat) : Option Nat :=
  let idx := (List.range (min n log.length)).filter (fun j => (log[j]?.map (·.loc == x)).getD false)
  idx.getLast?

/-- newest value at a location (what the single writer, and a file read, see) -/
def latest (log : Log) (x : Loc) : Nat :=
  match lastBefore log x log.length with
  | some j => (log[j]?.map (·.val)).getD 0
  | none => 0

structure View where
  cur : Nat := 0
  acq : Nat := 0
  coh : List (Loc × Nat) := []      -- location ↦ index of the last message read there
deriving Repr, BEq, DecidableEq, Inhabited

def View.cohOf (v : View) (x : Loc) : Nat :=
  match v.coh.find? (fun p => p.1 == x) with
  | some p => p.2
  | none => 0

def View.setCoh (v : View) (x : Loc) (j : Nat) : View :=
  { v with coh := (x, j) :: v.coh.filter (fun p => p.1 != x) }

/-- indices a load of `x` may read from, oldest first -/
def admissible (log : Log) (v : View) (x : Loc) : List Nat :=
  let lo := max (v.cohOf x) ((lastBefore log x v.cur).getD 0)
  (List.range log.length).filter (fun j => decide (lo ≤ j) && (log[j]?.map (·.loc == x)).getD false)

/-- a load: `pick` = 0 reads the newest admissible message, 1 the one before, … (clamped) -/
def load (log : Log) (v : View) (x : Loc) (ord : Ord) (pick : Nat) : Nat × Nat × View :=
  let adm := admissible log v x
  match adm.reverse[min pick (adm.length - 1)]? with
  | none => (0, 0, v)                      -- no message at x at all (does not happen: initial block)
  | some j =>
    let m := log[j]?.getD default
    let v1 := v.setCoh x j
    let v2 := { v1 with acq := max v1.acq m.carried }
    let v3 := if ord.isAcq then { v2 with cur := max v2.cur m.carried } else v2
    (m.val, j, v3)

def fenceAcq (v : View) (ord : Ord) : View := if ord.isAcq then { v with cur := max v.cur v.acq } else v

/-- the writer's side: `relFence` = log length at its last release fence (0 for a new process) -/
def storeMsg (log : Log) (relFence : Nat) (x : Loc) (val : Nat) (ord : Ord) : Log :=
  log ++ [{ loc := x, val := val, carried := if ord.isRel then log.length + 1 else relFence }]

/-- initial block of a segment file: cells, then version, then generation; all messages carry the
    whole block -/
def initBlock (version gen : Nat) (cells : List Nat) : Log :=
  let n := cells.length + 2
  (cells.zipIdx.map (fun (c, i) => { loc := .cell i, val := c, carried := n })) ++
  [{ loc := .version, val := version, carried := n }, { loc := .gen, val := gen, carried := n }]

/-! ### the writer machine -/

inductive WPc
  | idle
  | newVersion                                   -- `new`: about to store version = 1
  | loadGen (rec : List Nat)
  | store1 (rec : List Nat) (g : Nat)            -- about to store the odd generation g
  | fence (rec : List Nat) (g : Nat)
  | copy (rec : List Nat) (g : Nat) (todo : List Nat)   -- cells still to store
  | store2 (rec : List Nat) (g : Nat)
deriving Repr, BEq, DecidableEq, Inhabited

structure Writer where
  pc : WPc := .idle
  relFence : Nat := 0
deriving Repr, BEq, DecidableEq, Inhabited

/-- one shared access of the writer; `pick` selects the next cell during the copy.
    Returns the new log, the new writer and a trace token. -/
def wStep (a : Ann) (log : Log) (w : Writer) (pick : Nat) : Log × Writer × String :=
  match w.pc with
  | .idle => (log, w, "idle")
  | .newVersion =>
    (storeMsg log w.relFence .version 1 a.wVersion, { w with pc := .idle }, s!"S:v:{a.wVersion.short}:1")
  | .loadGen rec =>
    let g := latest log .gen
    (log, { w with pc := .store1 rec (genStart g) }, s!"L:g:{a.wLoad.short}:{g}")
  | .store1 rec g =>
    let log' := storeMsg log w.relFence .gen g a.wStore1
    let pc' := match a.wFence with
      | some _ => WPc.fence rec g
      | none => WPc.copy rec g (List.range rec.length)
    (log', { w with pc := pc' }, s!"S:g:{a.wStore1.short}:{g}")
  | .fence rec g =>
    let o := a.wFence.getD .relaxed
    (log, { pc := .copy rec g (List.range rec.length), relFence := if o.isRel then log.length else w.relFence },
      s!"F:{o.short}")
  | .copy rec g todo =>
    match todo[min pick (todo.length - 1)]? with
    | none => (log, { w with pc := .store2 rec g }, "copy-empty")
    | some c =>
      let v := rec[c]?.getD 0
      let rest := todo.filter (· != c)
      (storeMsg log w.relFence (.cell c) v .relaxed,
       { w with pc := if rest.isEmpty then .store2 rec g else .copy rec g rest }, s!"S:c{c}:N:{v}")
  | .store2 _ g =>
    let g2 := genFinish g
    (storeMsg log w.relFence .gen g2 a.wStore2, { w with pc := .idle }, s!"S:g:{a.wStore2.short}:{g2}")

/-! ### the reader machine -/

def RETRIES : Nat := 1000000

inductive RPc
  | idle
  | version
  | gen1
  | copy (g1 retries : Nat) (todo : List Nat) (got : List (Nat × Nat))
  | fence (g1 retries : Nat) (got : List (Nat × Nat))
  | gen2 (g1 retries : Nat) (got : List (Nat × Nat))
deriving Repr, BEq, DecidableEq, Inhabited

inductive RResult
  | ok (cells : List Nat)      -- `Ok(&snapshot_ceb)` (fresh or cached: indistinguishable to the caller)
  | errNotInit
deriving Repr, BEq, DecidableEq, Inhabited

structure Reader where
  pc : RPc := .idle
  view : View := {}
  cacheGen : Nat := 0
  cache : List Nat := List.replicate N 0
  /-- ghost: log index of the generation message that supplied the current `g1` -/
  g1Idx : Nat := 0
  /-- ghost: log index of the generation message of the last accepted snapshot -/
  acceptedIdx : Nat := 0
deriving Repr, BEq, DecidableEq, Inhabited

def assemble (got : List (Nat × Nat)) : List Nat :=
  (List.range N).map (fun c => ((got.find? (fun p => p.1 == c)).map (·.2)).getD 0)

/-- what happens after the copy: optional fence, then the re-check -/
def afterCopy (a : Ann) (g1 retries : Nat) (got : List (Nat × Nat)) : RPc :=
  match a.rFence with
  | some _ => .fence g1 retries got
  | none => .gen2 g1 retries got

/-- one shared access of the reader. `pickCell` selects the next cell during the copy, `pickMsg`
    which admissible message a load returns. Returns new reader, an optional call result and a token. -/
def rStep (a : Ann) (log : Log) (r : Reader) (pickCell pickMsg : Nat) : Reader × Option RResult × String :=
  match r.pc with
  | .idle => (r, none, "idle")
  | .version =>
    let (v, _, vw) := load log r.view .version a.rVersion pickMsg
    let tok := s!"L:v:{a.rVersion.short}:{v}"
    if v = 0 then ({ r with pc := .idle, view := vw }, some (.ok r.cache), tok)
    else ({ r with pc := .gen1, view := vw }, none, tok)
  | .gen1 =>
    let (g, j, vw) := load log r.view .gen a.rGen1 pickMsg
    let tok := s!"L:g:{a.rGen1.short}:{g}"
    if g = 0 ∨ g = r.cacheGen ∨ g % 2 = 1 then ({ r with pc := .idle, view := vw }, some (.ok r.cache), tok)
    else ({ r with pc := .copy g RETRIES (List.range N) [], view := vw, g1Idx := j }, none, tok)
  | .copy g1 retries todo got =>
    match todo[min pickCell (todo.length - 1)]? with
    | none => ({ r with pc := afterCopy a g1 retries got }, none, "copy-empty")
    | some c =>
      let (v, _, vw) := load log r.view (.cell c) .relaxed pickMsg
      let rest := todo.filter (· != c)
      let got' := (c, v) :: got
      ({ r with pc := if rest.isEmpty then afterCopy a g1 retries got' else .copy g1 retries rest got', view := vw },
       none, s!"L:c{c}:N:{v}")
  | .fence g1 retries got =>
    let o := a.rFence.getD .relaxed
    ({ r with pc := .gen2 g1 retries got, view := fenceAcq r.view o }, none, s!"F:{o.short}")
  | .gen2 g1 retries got =>
    let (g2, j2, vw) := load log r.view .gen a.rGen2 pickMsg
    let tok := s!"L:g:{a.rGen2.short}:{g2}"
    if g1 = g2 then
      let cells := assemble got
      ({ r with pc := .idle, view := vw, cacheGen := g1, cache := cells, acceptedIdx := r.g1Idx }, some (.ok cells), tok)
    else
      let g1' := if g2 % 2 = 0 then g2 else g1
      let i' := if g2 % 2 = 0 then j2 else r.g1Idx
      if retries ≤ 1 then ({ r with pc := .idle, view := vw }, some .errNotInit, tok)
      else ({ r with pc := .copy g1' (retries - 1) (List.range N) [], view := vw, g1Idx := i' }, none, tok)

/-- start of a `snapshot()` call -/
def Reader.call (r : Reader) : Reader := { r with pc := .version }

/-- upper bound on the number of shared accesses of one `snapshot()` call -/
def stepBound : Nat := 2 + RETRIES * (N + 2)

end ClockBound.SL
