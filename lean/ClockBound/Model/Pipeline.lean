/-
  Glue between the two halves of the end-to-end story:
  * the daemon/world model (`Model/World.lean`) speaks of `Record`s (typed fields);
  * the seqlock model (`Model/Seqlock*.lean`) speaks of records as `N = 7` eight-byte cells.
  `cellsOf` is the 56-byte `#[repr(C)] ClockErrorBound` cut into native-endian 64-bit words
  (`Properties/C01Pipeline.lean`: `cellsOf_bytes` proves it is the byte image of `Model/Header.lean`,
  i.e. of docs/PROTOCOL.md); `recordOfCells` is what a client decodes from the cells it copied.
  Import-free apart from Model files.
-/
import ClockBound.Model.Header
import ClockBound.Model.SeqlockSys
import ClockBound.Model.World
namespace ClockBound.Pipeline
open ClockBound ClockBound.SL

/-- a 64-bit word read as `i64` (two's complement) -/
def toI64 (u : Nat) : Int := if u < TWO63 then (u : Int) else (u : Int) - (TWO64 : Int)

/-- an `i64` as the 64-bit word that stores it -/
def ofI64 (x : Int) : Nat := (x % (TWO64 : Int)).toNat

/-- the record as the seven words the writer stores; `pad` = the four padding bytes after
    `clock_status` (whatever happened to be on the daemon's stack, see observation F2) as a 32-bit number -/
def cellsOf (r : Record) (pad : Nat) : List Nat :=
  [ofI64 r.asOf.sec, ofI64 r.asOf.nsec, ofI64 r.voidAfter.sec, ofI64 r.voidAfter.nsec, ofI64 r.bound,
   r.drift + TWO32 * r.reserved, r.status.code + TWO32 * pad]

/-- what a client makes of seven copied words; `none`: not seven words, or a status word that is not a
    `ClockStatus` discriminant -/
def recordOfCells : List Nat → Option Record
  | [a, b, c, d, e, f, g] =>
    (Status.ofCode (g % TWO32)).map fun st =>
      { asOf := ⟨toI64 a, toI64 b⟩, voidAfter := ⟨toI64 c, toI64 d⟩, bound := toI64 e,
        drift := f % TWO32, reserved := f / TWO32 % TWO32, status := st }
  | _ => none

/-- the eight-byte words of a byte string (little-endian host, as in `Model/Header.lean`) -/
def cellsOfBytes (bs : Bytes) : List Nat := (List.range N).map fun i => decLE (slice bs (8 * i) 8)

/-- the four padding bytes of `pad` -/
def padOf (pad : Nat) : Bytes := encLE 4 pad

end ClockBound.Pipeline
