/-
  C04 at the file level: `ShmWriter::new` followed by the first `write`, as the sequence of named
  events the cfg-gated shim reports (crash points and shared accesses), over an abstract segment
  file; the writer process may die at any event; a restarted writer runs the same sequence over
  whatever is there. Sequential (real) memory: the interleavings with readers are C02/C03's subject.
  Prior file states (`Prior`): missing, empty, garbage, wiped, valid (any version / generation), and
  `foreign` — a segment of another layout revision (wrong second magic word over plausible fields and
  a payload). Observed (`Observed`): the fatal event, the file left behind, what an attached reader
  and a FRESH reader obtain between the crash and the restart (`att1`, `fresh1`) and after the restart
  (`att2`, `fresh`). `C04.HoldsFile` includes "nobody reads what was never published" on `fresh1`.
  Import-free.
-/
import ClockBound.Model.Daemon
namespace ClockBound.Crash
open ClockBound

/-- what matters of a segment file -/
structure FileA where
  present : Bool := false      -- the path exists (regular file)
  len : Nat := 0               -- file length
  magic0 : Bool := false       -- first / second magic word as expected (meaningful when long enough)
  magic1 : Bool := false
  size : Nat := 0              -- declared segment size
  version : Nat := 0
  gen : Nat := 0
  cells : List Nat := List.replicate 7 0
deriving Repr, BEq, DecidableEq, Inhabited

/-- `ShmReader::new` succeeds (`is_usable_segment`) -/
def FileA.usable (f : FileA) : Bool :=
  f.present && decide (f.len ≥ 16) && f.magic0 && f.magic1 && f.version != 0 && f.gen != 0 && decide (f.size ≥ 72)

/-- one step of the writer's start-up + first publication; the event name is what the shim reports
    AFTER the step's effect (points) or AT the access (loads/stores/fence/copy) -/
inductive Ev
  | newStart | hdrLoad | wipeDirs | wipeCreated | wipeMagic0 | wipeMagic1 | wipeSegsize | wipeVersion
  | wipeGeneration | wipeZeroed | wipeSynced | newChecked | newMapped | storeVersion | newVersioned
  | loadGen | storeGenOdd | fence | copy | storeGenEven | done
deriving Repr, BEq, DecidableEq, Inhabited

def Ev.name : Ev → String
  | .newStart => "new:start" | .hdrLoad => "load" | .wipeDirs => "wipe:dirs" | .wipeCreated => "wipe:created"
  | .wipeMagic0 => "wipe:magic0" | .wipeMagic1 => "wipe:magic1" | .wipeSegsize => "wipe:segsize"
  | .wipeVersion => "wipe:version" | .wipeGeneration => "wipe:generation" | .wipeZeroed => "wipe:zeroed"
  | .wipeSynced => "wipe:synced" | .newChecked => "new:checked" | .newMapped => "new:mapped"
  | .storeVersion => "store:version" | .newVersioned => "new:versioned" | .loadGen => "load"
  | .storeGenOdd => "store:generation" | .fence => "fence" | .copy => "copy"
  | .storeGenEven => "store:generation" | .done => "done"

/-- atomic loads `ShmHeader::is_valid` performs on its private copy of the header while `new` checks
    whether the segment is usable: version, then generation, then size — each only if the previous
    check passed (they are reported by the shim like any other load; they touch no shared state) -/
def hdrLoads (f : FileA) : Nat :=
  if !(f.present && decide (f.len ≥ 16) && f.magic0 && f.magic1) then 0
  else if f.version = 0 then 1 else if f.gen = 0 then 2 else 3

/-- the events of `new; write rec` over a file -/
def script (f : FileA) : List Ev :=
  let usable := f.usable
  [.newStart] ++ List.replicate (hdrLoads f) .hdrLoad ++
  (if usable then [] else
    [.wipeDirs, .wipeCreated, .wipeMagic0, .wipeMagic1, .wipeSegsize, .wipeVersion, .wipeGeneration,
     .wipeZeroed, .wipeSynced]) ++
  [.newChecked, .newMapped, .storeVersion, .newVersioned, .loadGen, .storeGenOdd, .fence, .copy,
   .storeGenEven, .done]

/-- effect on the file of the work that is complete when event `e` is reported.
    A point event is reported after its file operation; an access event (load/store/fence/copy)
    is reported BEFORE the access takes effect, so its effect belongs to the next event. -/
def effectBefore (rec : List Nat) (f : FileA) : Ev → FileA
  | .wipeCreated => { f with present := true, len := 0 }                  -- File::create truncates
  | .wipeMagic0 => { f with len := 4, magic0 := true }
  | .wipeMagic1 => { f with len := 8, magic1 := true }
  | .wipeSegsize => { f with len := 12, size := 72 }
  | .wipeVersion => { f with len := 14, version := 0 }
  | .wipeGeneration => { f with len := 16, gen := 0 }
  | .wipeZeroed => { f with len := 72, cells := List.replicate 7 0 }
  | .newVersioned => { f with version := 1 }                              -- after `version.store(1)`
  | .fence => { f with gen := genStart f.gen }                            -- after the odd generation store
  | .storeGenEven => { f with cells := rec }                              -- after the record copy
  | .done => { f with gen := genFinish f.gen }                            -- after the even generation store
  | _ => f

/-- run `new; write rec`, dying at the k-th event (0-based): the file left behind and the fatal
    event (`none` = ran to completion) -/
def runUntil (f : FileA) (rec : List Nat) (k : Nat) : FileA × Option Ev :=
  let evs := script f
  let rec go (f : FileA) (i : Nat) : List Ev → FileA × Option Ev
    | [] => (f, none)
    | e :: rest =>
      let f' := effectBefore rec f e
      if i = k then (f', some e) else go f' (i + 1) rest
  go f 0 evs

def runAll (f : FileA) (rec : List Nat) : FileA := (runUntil f rec 1000).1

/-- a reader that was attached before: what `snapshot()` returns on the (sequential) memory -/
structure ReaderA where
  cacheGen : Nat := 0
  cache : List Nat := List.replicate 7 0
deriving Repr, BEq, DecidableEq, Inhabited

def ReaderA.snap (r : ReaderA) (f : FileA) : ReaderA :=
  if f.version = 0 ∨ f.gen = 0 ∨ f.gen = r.cacheGen ∨ f.gen % 2 = 1 then r
  else { cacheGen := f.gen, cache := f.cells }

end ClockBound.Crash

namespace ClockBound.Crash
open ClockBound

/-- record number k; every seventh one (k % 7 = 3) has the shape of what a freshly restarted daemon
    publishes before chronyd has answered: as-of 0/0, void-after 1000/0, bound 0, status Unknown -/
def recCells (k : Nat) : List Nat :=
  if k % 7 = 3 then [0, 0, 1000, 0, 0, k, 0]
  else (List.range 6).map (fun i => k * 8 + i + 1) ++ [k % 3]

/-- the prior file states. `foreign gen k` is a segment of ANOTHER layout revision: 72 bytes, first
    magic word right, second magic word wrong, but plausible size / version / generation fields and a
    payload (`recCells k`) — not usable, and nothing of it may ever be handed to a client -/
inductive Prior | missing | empty | garbage | wiped | valid (gen k : Nat) | validv (version gen k : Nat)
  | foreign (gen k : Nat)
deriving Repr, BEq, DecidableEq, Inhabited

def Prior.file : Prior → FileA
  | .missing => {}
  | .empty => { present := true, len := 0 }
  | .garbage => { present := true, len := 41 }
  | .wiped => { present := true, len := 72, magic0 := true, magic1 := true, size := 72 }
  | .valid g k => { present := true, len := 72, magic0 := true, magic1 := true, size := 72, version := 1, gen := g, cells := recCells k }
  | .validv v g k => { present := true, len := 72, magic0 := true, magic1 := true, size := 72, version := v, gen := g, cells := recCells k }
  | .foreign g k => { present := true, len := 72, magic0 := true, magic1 := false, size := 72, version := 1, gen := g, cells := recCells k }

def cellsText (cs : List Nat) : String := String.intercalate "," (cs.map toString)

/-- the error `ShmReader::new` reports on a file left behind by a dead writer -/
def openText (f : FileA) : String :=
  if !f.present then "err_sys_2_open"
  else if f.len < 16 then "err_notinit"
  else if !(f.magic0 && f.magic1) then "err_notinit"
  else if f.version = 0 ∨ f.gen = 0 then "err_notinit"
  else if f.size < 72 then "err_malformed"
  else "ok"

structure Observed where
  ev : String
  open1 : String
  len1 : Int
  att1 : String
  /-- what a reader that opens the file AFTER the crash and BEFORE the restart obtains from its first
      `snapshot()` (`"none"` if it cannot attach) -/
  fresh1 : String
  inodeSame : Bool
  len2 : Int
  fresh : String
  att2 : String
  /-- permission bits (octal text) of the segment file afterwards: created with 0666 under umask 022 -/
  mode : String := "644"
deriving Repr, BEq, Inhabited

def predict (p : Prior) (k k1 k2 : Nat) : Observed :=
  let f0 := p.file
  let r0 : Option ReaderA := if f0.usable then some (({} : ReaderA).snap f0) else none
  let (f1, ev) := runUntil f0 (recCells k1) k
  let r1 := r0.map (·.snap f1)
  let f2 := runAll f1 (recCells k2)
  let r2 := r1.map (·.snap f2)
  { ev := (ev.map Ev.name).getD "end", open1 := openText f1, len1 := if f1.present then f1.len else -1,
    att1 := (r1.map (fun r => cellsText r.cache)).getD "none",
    fresh1 := if openText f1 ≠ "ok" then "none" else cellsText (({} : ReaderA).snap f1).cache, inodeSame := f0.present, len2 := f2.len,
    fresh := cellsText (({} : ReaderA).snap f2).cache, att2 := (r2.map (fun r => cellsText r.cache)).getD "none" }

def Observed.text (o : Observed) : String :=
  s!"ev {o.ev} ; crashed open:{o.open1} file:{o.len1} attached:{o.att1} fresh:{o.fresh1} ; restarted inode_same:{if o.inodeSame then 1 else 0} len:{o.len2} fresh:{o.fresh} attached:{o.att2} mode:{o.mode}"

end ClockBound.Crash

namespace ClockBound.C04
open ClockBound ClockBound.Crash

/-- C04 (c)/(d) evaluated on what the implementation did:
    * whatever the prior content and the crash point, after the restart and one publication a fresh
      client can open the segment and reads exactly the published record;
    * a segment that was usable before is taken over in place (same inode, same length, never
      emptied: an attached reader never faces a truncated mapping), an attached reader keeps
      obtaining only complete records — the prior one, the empty one if the prior generation was odd,
      or the first incarnation's record — and sees the restarted writer's publication without reopening;
    * nobody reads what was never published: a FRESH client that manages to attach between the crash
      and the restart obtains the empty record, the record being published, or — over a usable prior —
      the prior's record; never anything else (e.g. the payload of a foreign / half-wiped file under a
      header the dead writer had just made valid) -/
def HoldsFile (p : Prior) (k1 k2 : Nat) (o : Observed) : Bool :=
  o.fresh == cellsText (recCells k2) && o.mode == "644" &&
  (o.fresh1 == "none" || o.fresh1 == cellsText (List.replicate 7 0) ||
   o.fresh1 == cellsText (recCells k1) || (p.file.usable && o.fresh1 == cellsText p.file.cells)) &&
  (if p.file.usable then
     o.inodeSame && o.len1 == 72 && o.len2 == 72 && o.open1 == "ok" &&
     (o.att1 == cellsText p.file.cells || o.att1 == cellsText (recCells k1) || o.att1 == cellsText (List.replicate 7 0)) &&
     o.att2 == cellsText (recCells k2)
   else o.att1 == "none" && o.att2 == "none")

end ClockBound.C04
