/-
  Model of the shared-memory segment FILE: byte layout (clock-bound-shm/src/shm_header.rs `ShmHeader`,
  lib.rs `ClockErrorBound`, both `#[repr(C)]`), `ShmHeader::read` / `is_valid`, `ShmReader::new`,
  `ShmWriter::new` (`is_usable_segment` / `wipe` / `mmap_segment_at` / `version.store(1)`),
  the first `ShmWriter::write`, and what a fresh `ShmReader` then reads back.
  `ShmWriter::new` is the repaired one: a usable segment whose file is shorter than 72 bytes is grown
  to 72 bytes (`set_len`) before it is mapped.

  Bytes are `List Nat` (each element meant to be < 256; the theorems about opening hold for every
  list).  Native endianness is little-endian (x86-64 / aarch64 hosts, see COMMON_ASSUMPTIONS).
  Import-free apart from other Model files.
-/
import ClockBound.Model.Client
import ClockBound.Model.Daemon
namespace ClockBound

abbrev Bytes := List Nat

def Bytes.validB (bs : Bytes) : Bool := bs.all (fun b => decide (b < 256))

/-! ### little-endian integers -/

/-- the `n` low-order bytes of `v`, least significant first -/
def encLE : Nat → Nat → Bytes
  | 0, _ => []
  | n + 1, v => (v % 256) :: encLE n (v / 256)

def decLE : Bytes → Nat
  | [] => 0
  | b :: bs => b + 256 * decLE bs

def TWO16 : Nat := 65536
def TWO32 : Nat := 4294967296
def TWO63 : Nat := 9223372036854775808
def TWO64 : Nat := 18446744073709551616

def encU16 (v : Nat) : Bytes := encLE 2 v
def encU32 (v : Nat) : Bytes := encLE 4 v
/-- two's complement -/
def encI64 (x : Int) : Bytes := encLE 8 (x % (TWO64 : Int)).toNat
def decI64 (bs : Bytes) : Int :=
  let u := decLE bs
  if u < TWO63 then (u : Int) else (u : Int) - (TWO64 : Int)

/-- `n` bytes starting at offset `off` (shorter if the list ends first) -/
def slice (bs : Bytes) (off n : Nat) : Bytes := (bs.drop off).take n

/-- overwrite in place: bytes `off .. off + new.length` that exist in `bs` are replaced; the length
    never changes (a store through a mapping does not extend the file) -/
def patch (bs : Bytes) (off : Nat) (new : Bytes) : Bytes :=
  bs.mapIdx fun i b => if off ≤ i ∧ i < off + new.length then new.getD (i - off) 0 else b

/-! ### layout -/

def MAGIC0 : Nat := 0x414D5A4E
def MAGIC1 : Nat := 0x43420200
def HEADER_SIZE : Nat := 16
def RECORD_SIZE : Nat := 56
/-- `ShmWriter::segment_size()`: 16 + 56, already a multiple of 8 -/
def SEGMENT_SIZE : Nat := 72

/-- `ShmHeader` -/
structure Header where
  magic0 : Nat       -- u32
  magic1 : Nat       -- u32
  segsize : Nat      -- u32
  version : Nat      -- u16
  generation : Nat   -- u16
deriving Repr, BEq, DecidableEq, Inhabited

def encodeHeader (h : Header) : Bytes :=
  encU32 h.magic0 ++ encU32 h.magic1 ++ encU32 h.segsize ++ encU16 h.version ++ encU16 h.generation

/-- the 56 bytes of a `ClockErrorBound`; the last four are the `repr(C)` tail padding, whose content
    the implementation does not define (`pad`, four bytes) -/
def ZERO_PAD : Bytes := [0, 0, 0, 0]
/-- exactly four bytes: the first four of `pad`, zero-extended -/
def padBytes (pad : Bytes) : Bytes := (pad ++ ZERO_PAD).take 4

def encodeRecordP (r : Record) (pad : Bytes) : Bytes :=
  encI64 r.asOf.sec ++ encI64 r.asOf.nsec ++ encI64 r.voidAfter.sec ++ encI64 r.voidAfter.nsec ++
  encI64 r.bound ++ encU32 r.drift ++ encU32 r.reserved ++ encU32 r.status.code ++ padBytes pad

def encodeRecord (r : Record) : Bytes := encodeRecordP r ZERO_PAD

def encodeSegmentP (h : Header) (r : Record) (pad : Bytes) : Bytes := encodeHeader h ++ encodeRecordP r pad
def encodeSegment (h : Header) (r : Record) : Bytes := encodeSegmentP h r ZERO_PAD

/-- the header fields as `ShmHeader::read` sees them in the first 16 bytes -/
def parseHeader (bs : Bytes) : Header :=
  { magic0 := decLE (slice bs 0 4), magic1 := decLE (slice bs 4 4), segsize := decLE (slice bs 8 4),
    version := decLE (slice bs 12 2), generation := decLE (slice bs 14 2) }

/-- `none`: fewer than 56 bytes, or a status word that is not a `ClockStatus` discriminant (reading
    it would be undefined behaviour in the implementation) -/
def decodeRecord (bs : Bytes) : Option Record :=
  if bs.length < RECORD_SIZE then none else
  match Status.ofCode (decLE (slice bs 48 4)) with
  | none => none
  | some st =>
    some { asOf := ⟨decI64 (slice bs 0 8), decI64 (slice bs 8 8)⟩,
           voidAfter := ⟨decI64 (slice bs 16 8), decI64 (slice bs 24 8)⟩,
           bound := decI64 (slice bs 32 8), drift := decLE (slice bs 40 4),
           reserved := decLE (slice bs 44 4), status := st }

def decodeSegment (bs : Bytes) : Option (Header × Record) :=
  if bs.length < SEGMENT_SIZE then none else
  (decodeRecord (slice bs HEADER_SIZE RECORD_SIZE)).map fun r => (parseHeader bs, r)

/-- field values for which encode/decode round-trips -/
def Header.inRange (h : Header) : Prop :=
  h.magic0 < TWO32 ∧ h.magic1 < TWO32 ∧ h.segsize < TWO32 ∧ h.version < TWO16 ∧ h.generation < TWO16
instance : Decidable (Header.inRange h) := by unfold Header.inRange; infer_instance

def i64InRange (x : Int) : Prop := -(TWO63 : Int) ≤ x ∧ x < (TWO63 : Int)
instance : Decidable (i64InRange x) := by unfold i64InRange; infer_instance

def Record.inRange (r : Record) : Prop :=
  i64InRange r.asOf.sec ∧ i64InRange r.asOf.nsec ∧ i64InRange r.voidAfter.sec ∧
  i64InRange r.voidAfter.nsec ∧ i64InRange r.bound ∧ r.drift < TWO32 ∧ r.reserved < TWO32
instance : Decidable (Record.inRange r) := by unfold Record.inRange; infer_instance

/-! ### what is at the path, and the errors of the shm crate -/

inductive FileState
  | missing
  | directory
  | file (bs : Bytes)
deriving Repr, BEq, DecidableEq, Inhabited

/-- the `&'static CStr` origins that occur on the open path -/
inductive Origin | open_ | read | mmap
deriving Repr, BEq, DecidableEq, Inhabited

def Origin.text : Origin → String
  | .open_ => "open" | .read => "read SHM segment" | .mmap => "mmap SHM segment"

/-- `ShmError` without `CausalityBreach` (which `ShmReader::new` cannot return) -/
inductive ShmErr
  | sys (errno : Nat) (origin : Origin)
  | notInit
  | malformed
deriving Repr, BEq, DecidableEq, Inhabited

def ENOENT : Nat := 2
def ENOMEM : Nat := 12
def EISDIR : Nat := 21

/-- `ShmHeader::read` on a regular file: short read, then `is_valid` in its order
    magic → version → generation → declared size ≥ 16 -/
def readHeader (bs : Bytes) : Except ShmErr Header :=
  if bs.length < HEADER_SIZE then .error .notInit else
  let h := parseHeader bs
  if ¬ (h.magic0 = MAGIC0 ∧ h.magic1 = MAGIC1) then .error .notInit
  else if h.version = 0 then .error .notInit
  else if h.generation = 0 then .error .notInit
  else if h.segsize < HEADER_SIZE then .error .malformed
  else .ok h

/-- `ShmReader::new`.  `lim`: the largest size `mmap` grants (`none` = every u32 size, which is what
    a 64-bit host without an address-space limit does: observed for 2^32−1; under `ulimit -v` the
    call fails with ENOMEM and the origin "mmap SHM segment").  The check `segsize < 16 + 56` comes
    after the mapping, as in the source. -/
def readerOpenLim (lim : Option Nat) : FileState → Except ShmErr Header
  | .missing => .error (.sys ENOENT .open_)          -- `FdGuard::new`: open(2) fails
  | .directory => .error (.sys EISDIR .read)         -- open(2) succeeds, read(2) fails
  | .file bs =>
    match readHeader bs with
    | .error e => .error e
    | .ok h =>
      if (match lim with | some L => decide (L < h.segsize) | none => false) then .error (.sys ENOMEM .mmap)
      else if h.segsize < SEGMENT_SIZE then .error .malformed
      else .ok h

def readerOpen (st : FileState) : Except ShmErr Header := readerOpenLim none st

def Except.isOk : Except ε α → Bool
  | .ok _ => true | .error _ => false

/-! ### the writer -/

/-- `ShmWriter::wipe`: header with version 0 and generation 0, zero fill up to 72 bytes -/
def wipeBytes : Bytes :=
  encodeHeader ⟨MAGIC0, MAGIC1, SEGMENT_SIZE, 0, 0⟩ ++ List.replicate RECORD_SIZE 0

/-- `File::set_len(72)` on a file shorter than 72 bytes: the existing bytes stay, zero bytes are
    appended up to offset 72; a file of 72 bytes or more is left alone (the writer only calls
    `set_len` on a shorter file) -/
def extendToSegment (bs : Bytes) : Bytes := bs ++ List.replicate (SEGMENT_SIZE - bs.length) 0

/-- `ShmWriter::new`: new state of the path and whether the file was re-created.
    `.error errno`: start-up fails (`wipe`'s `File::create` on a directory). A usable segment is taken
    over in place: a file that ends before byte 72 is first grown to 72 bytes with zeros
    (`OpenOptions::new().write(true).open(path)?.set_len(72)`), then the file is mapped and only the
    version field is stored to.  Anything else is wiped and re-created. -/
def writerNew (st : FileState) : Except Nat (FileState × Bool) :=
  match readerOpen st with
  | .ok _ =>
    match st with
    | .file bs => .ok (.file (patch (extendToSegment bs) 12 (encU16 1)), false)
    | s => .ok (s, false)                       -- unreachable: only files open
  | .error _ =>
    match st with
    | .directory => .error EISDIR
    | _ => .ok (.file (patch wipeBytes 12 (encU16 1)), true)

/-- one `ShmWriter::write` on the mapped file: generation to odd, record copy (56 bytes, `pad` = the
    four bytes that happen to sit in the source's padding), generation to the next even value -/
def writeRecord (bs : Bytes) (r : Record) (pad : Bytes) : Bytes :=
  let g := (parseHeader bs).generation
  let b1 := patch bs 14 (encU16 (genStart g))
  let b2 := patch b1 HEADER_SIZE (encodeRecordP r pad)
  patch b2 14 (encU16 (genFinish (genStart g)))

def writerFirstWrite (st : FileState) (r : Record) (pad : Bytes) : FileState :=
  match st with
  | .file bs => .file (writeRecord bs r pad)
  | s => s

/-- daemon start-up followed by the first publication -/
def startAndPublish (st : FileState) (r : Record) (pad : Bytes) : Except Nat (FileState × Bool) :=
  match writerNew st with
  | .error e => .error e
  | .ok (st', recreated) => .ok (writerFirstWrite st' r pad, recreated)

/-! ### a fresh reader -/

inductive Snap
  | err (e : ShmErr)    -- `ShmReader::new` failed
  | short               -- the file ends before byte 72: the record is not (all) in the file (a static
                        -- file only: the daemon never leaves one behind, see `C16.truncated_extended`)
  | undef               -- the status word is not a valid discriminant
  | record (r : Record)
deriving Repr, BEq, DecidableEq, Inhabited

/-- `ShmReader::new` + first `snapshot()` with no writer active: an odd generation makes the fresh
    reader return its initial (all-zero) snapshot -/
def snapshotOfFile (st : FileState) : Snap :=
  match readerOpen st with
  | .error e => .err e
  | .ok h =>
    match st with
    | .file bs =>
      if bs.length < SEGMENT_SIZE then .short
      else if h.generation % 2 = 1 then .record Record.empty
      else match decodeRecord (slice bs HEADER_SIZE RECORD_SIZE) with
        | some r => .record r
        | none => .undef
    | _ => .short

/-! ### the error as the two client libraries report it -/

inductive ErrKind | none | syscall | notInit | malformed | causality
deriving Repr, BEq, DecidableEq, Inhabited

/-- order of `clockbound_err_kind` in clock-bound-ffi/src/lib.rs -/
def ErrKind.code : ErrKind → Nat
  | .none => 0 | .syscall => 1 | .notInit => 2 | .malformed => 3 | .causality => 4

/-- `impl From<ShmError> for ClockBoundError` (clock-bound-client) and `for clockbound_err`
    (clock-bound-ffi): kind, errno (0 unless a system call failed), detail (`none` = empty / NULL) -/
structure ClientErr where
  kind : ErrKind
  errno : Nat
  detail : Option Origin
deriving Repr, BEq, DecidableEq, Inhabited

def ShmErr.toClient : ShmErr → ClientErr
  | .sys e o => ⟨.syscall, e, some o⟩
  | .notInit => ⟨.notInit, 0, none⟩
  | .malformed => ⟨.malformed, 0, none⟩

end ClockBound
