/-
  Line-protocol driver (import-free): one request per line `req => impl-answer`;
  one output line `model-answer | oracle verdicts | tags`.
-/
import ClockBound.Model.Oracles
import ClockBound.Model.OraclesD
import ClockBound.Model.SeqlockSim
import ClockBound.Model.DriverPoller
import ClockBound.Model.DriverWorld
import ClockBound.Model.Crash
import ClockBound.Model.DriverThreads
import ClockBound.Model.DriverHeader
import ClockBound.Model.DriverSession
import ClockBound.Model.Config
namespace ClockBound.Driver
open ClockBound

def ints (toks : List String) : Option (List Int) := toks.mapM String.toInt?

def tsText (t : TimeSpec) : String := s!"{t.sec} {t.nsec}"

def outcomeText : Outcome → String
  | .ok e l s => s!"ok {tsText e} {tsText l} {s.code}"
  | .malformed => "err malformed"
  | .causality => "err causality"
  | .panic => "panic"

def statusOfInt (i : Int) : Status :=
  if i = 1 then .synchronized else if i = 2 then .freeRunning else .unknown

/-- parse an implementation answer of the client family -/
def parseOutcome (toks : List String) : Option Outcome :=
  match toks with
  | ["ok", a, b, c, d, s] => do
      let v ← ints [a, b, c, d, s]
      match v with
      | [a, b, c, d, s] => some (.ok ⟨a, b⟩ ⟨c, d⟩ (statusOfInt s))
      | _ => none
  | ["err", "malformed"] => some .malformed
  | ["err", "causality"] => some .causality
  | ["panic"] => some .panic
  | _ => none

def verdict (name : String) (applicable holds : Bool) : String :=
  if !applicable then s!"{name}:na" else if holds then s!"{name}:holds" else s!"{name}:FAILS"

def clientTags (x : ClientIn) : List String :=
  let d := x.mono.toNs - x.r.asOf.toNs
  let near (a b : Int) : Bool := decide ((a - b).natAbs ≤ 1000)
  (if x.meaningful then ["meaningful"] else ["wild"]) ++
  (if near d 5000000000 then ["near5s"] else []) ++
  (if near x.mono.toNs x.r.voidAfter.toNs then ["nearVoid"] else []) ++
  (if near d (-1000) then ["nearBlur"] else []) ++
  (if d > 0 ∧ x.r.drift > 0 ∧ x.r.drift < 1000000000 ∧ C05.exactGrowth x ≥ 1 then ["growth"] else []) ++
  (if x.mono.nsec ≠ x.r.asOf.nsec then ["fracSec"] else []) ++
  (if x.r.drift ≥ 1000000000 then ["badDrift"] else []) ++
  (if decide (d > 5000000000) ∧ x.r.status != .unknown then ["aged"] else []) ++
  [s!"st{x.r.status.code}"]

def clientLine (args : List String) (impl : List String) : String :=
  match ints args with
  | some [as, an, vs, vn, b, dr, st, rs, rn, ms, mn] =>
    let x : ClientIn := ⟨⟨⟨as, an⟩, ⟨vs, vn⟩, b, dr.toNat, 0, statusOfInt st⟩, ⟨rs, rn⟩, ⟨ms, mn⟩⟩
    let m := computeBoundAt x.r x.real x.mono
    let v := match parseOutcome impl with
      | none => "oracle:unparsed"
      | some o =>
        String.intercalate " " [
          verdict "C05" (C05.applicable x) (C05.Holds x o),
          verdict "C06" (C06.applicable x) (C06.Holds x o),
          verdict "C14" x.meaningful (C14.Holds x o)]
    s!"{outcomeText m} | {v} | {String.intercalate "," (clientTags x)}"
  | _ => "bad-op | |"

/-- two monotonic readings of one record: `client2 <11 fields> <mono2_sec> <mono2_ns> => <ans1> ; <ans2>` -/
def client2Line (args : List String) (impl : List String) : String :=
  match ints args with
  | some [as, an, vs, vn, b, dr, st, rs, rn, ms, mn, ms2, mn2] =>
    let x : ClientIn := ⟨⟨⟨as, an⟩, ⟨vs, vn⟩, b, dr.toNat, 0, statusOfInt st⟩, ⟨rs, rn⟩, ⟨ms, mn⟩⟩
    let m2 : TimeSpec := ⟨ms2, mn2⟩
    let o1 := computeBoundAt x.r x.real x.mono
    let o2 := computeBoundAt x.r x.real m2
    let (i1, i2) := match impl.splitOn ";" with     -- split the token list at ";"
      | [a, b] => (parseOutcome a, parseOutcome b)
      | _ => (none, none)
    let v := match i1, i2 with
      | some a, some b =>
        let app := C05.applicable x && m2.inRange && decide (x.mono.toNs ≤ m2.toNs)
        verdict "C05" app (C05.HoldsMono x m2 a b)
      | _, _ => "oracle:unparsed"
    let tags := (if x.mono.toNs < m2.toNs then ["older"] else ["same"]) ++ clientTags x
    s!"{outcomeText o1} ; {outcomeText o2} | {v} | {String.intercalate "," tags}"
  | _ => "bad-op | |"


/-- corder <11 client fields> => log <clock ids> ; <now() result> -/
def corderLine (args impl : List String) : String :=
  match ints args with
  | some [as, an, vs, vn, b, dr, st, rs, rn, ms, mn] =>
    let x : ClientIn := ⟨⟨⟨as, an⟩, ⟨vs, vn⟩, b, dr.toNat, 0, statusOfInt st⟩, ⟨rs, rn⟩, ⟨ms, mn⟩⟩
    let m := computeBoundAt x.r x.real x.mono
    -- `now()` reads REALTIME (id 0) then the monotonic clock (id 6); both reads happen before any check
    let mlog := "0 6"
    let ilog := match impl.splitOn ";" with
      | ("log" :: l) :: _ => some (String.intercalate " " l)
      | _ => none
    let v := verdict "C12" true (ilog == some mlog)
    s!"log {mlog} ; {outcomeText m} | {v} | {if x.meaningful then "meaningful" else "wild"}"
  | _ => "bad-op | |"

/-! ### daemon lines -/

def chronyOfInt (i : Int) : ChronyStatus :=
  if i = 1 then .synchronized else if i = 2 then .freeRunning else .unknown

def recordText (r : Record) : String :=
  s!"rec {tsText r.asOf} {tsText r.voidAfter} {r.bound} {r.drift} {r.reserved} {r.status.code}"

def parseRecord (toks : List String) : Option Record :=
  match toks with
  | "rec" :: rest => do
    match ← ints rest with
    | [a, b, c, d, bd, dr, rs, st] => some ⟨⟨a, b⟩, ⟨c, d⟩, bd, dr.toNat, rs.toNat, statusOfInt st⟩
    | _ => none
  | _ => none

def mkTracking (leap ref off disp delay iv : Int) : Tracking :=
  -- words are taken modulo their width, as the harness's `as u32` / `as u16` casts do
  { leap := (leap % 65536).toNat, refNs := ref, offW := (off % 4294967296).toNat,
    dispW := (disp % 4294967296).toNat, delayW := (delay % 4294967296).toNat,
    intervalW := (iv % 4294967296).toNat }

def trackingTags (t : Tracking) (now : Int) : List String :=
  let off := F64.chronyFloat t.offW
  let E := C07.exactNs t
  (if off < 0 then ["negOffset"] else if off > 0 then ["posOffset"] else ["zeroOffset"]) ++
  (if E ≠ (E.floor : Rat) then ["fracNs"] else []) ++
  (if now < t.refNs then ["future"] else []) ++
  (if t.leap ≤ 2 then ["leapSync"] else if t.leap = 3 then ["leap3"] else ["leapOther"]) ++
  (let thr := C10.thresholdSecs t * 1000000000
   if (now - t.refNs - thr).natAbs ≤ 1000000000 then ["nearStale"] else []) ++
  (if now - t.refNs > C10.thresholdSecs t * 1000000000 then ["stale"] else ["fresh"])

def extractLine (args : List String) (impl : List String) : String :=
  match ints args with
  | some [leap, ref, now, off, disp, delay, iv] =>
    let t := mkTracking leap ref off disp delay iv
    let (b, cs) := extractBound t now
    let v := match ints impl with
      | some [ib, ics] =>
        String.intercalate " " [
          verdict "C07" (C07.applicable t 0) (C07.Holds t 0 ib),
          verdict "C07strict" (C07.applicable t 0) (C07.HoldsStrict t 0 ib),
          verdict "C10" true (C10.Holds t now (chronyOfInt ics))]
      | _ => "oracle:unparsed"
    s!"{b} {cs.code} | {v} | {String.intercalate "," (trackingTags t now)}"
  | _ => "bad-op | |"

/-- `phcrun <refid argument, hex> <chrony refid> <stratum> <ipv4 word> <phc value>`: the release daemon end to end (Model/Config.lean);
    stratum and source address of the report are not read by the daemon and do not occur in the model -/
def phcrunLine (args : List String) (impl : List String) : String :=
  match args with
  | [hex, chrony, stratum, ip4, phc] =>
    match DriverH.parseHex hex, chrony.toNat?, stratum.toNat?, ip4.toNat? with
    | some cfg, some ch, some stv, some ipv =>
      -- anything that is not an integer stands for an attribute whose content does not parse (`bad0` empty, `bad1` "N/A", ..)
      let p : Option Int := phc.toInt?
      let model := match C13.phcExpected cfg ch p with
        | some b => s!"pub {b} 1"
        | none => "exited"
      let pub : Option (Int × Int) := match impl with
        | ["pub", b, st] => (do let b ← b.toInt?; let st ← st.toInt?; pure (b, st))
        | _ => none
      let constrained := (refidOf cfg).isSome
      let v13 := verdict "C13" constrained (C13.HoldsPhcRun cfg ch p pub)
      let v07 := verdict "C07" constrained (C13.HoldsPhcRun cfg ch p pub)
      let tags := ["phcrun"] ++ (if constrained then (if refidOf cfg == some ch then ["match"] else ["nomatch"]) else ["norefid"]) ++
        (if cfg.any (fun b => decide (97 ≤ b ∧ b ≤ 122)) then ["lower"] else []) ++
        (if cfg.all (fun b => decide ((48 ≤ b ∧ b ≤ 57) ∨ (65 ≤ b ∧ b ≤ 70) ∨ (97 ≤ b ∧ b ≤ 102))) && !cfg.isEmpty then ["hexlike"] else []) ++
        (if cfg.length < 4 then ["short"] else []) ++ (if stv ≠ 1 then ["stratum"] else []) ++ (if ipv ≠ 0 then ["addr"] else []) ++
        (if p.isNone then ["phcUnparsable"] else [])
      s!"{model} | {v13} {v07} | {String.intercalate "," tags}"
    | _, _, _, _ => "bad-op | |"
  | _ => "bad-op | |"

/-- one message of an `upd` history -/
def parseMsg (toks : List String) : Option Msg :=
  match toks with
  | "d" :: rest => do
    match ← ints rest with
    | [leap, ref, now, off, disp, delay, iv, phc, as, an] =>
      some (.data (mkTracking leap ref off disp delay iv) phc ⟨as, an⟩ now)
    | _ => none
  | ["nr_grace"] => some (.missing true)
  | ["phc_grace"] => some (.missing true)
  | ["nr"] => some (.missing false)
  | ["phc"] => some (.missing false)
  | _ => none

def splitSemi (toks : List String) : List (List String) :=
  (toks.splitOn ";").filter (fun l => !l.isEmpty)

/-- abstract outcomes of a history, with the (bound, class) pairs supplied for the data messages -/
def outcomes : List Msg → List (Int × ChronyStatus) → List PollOutcome
  | [], _ => []
  | .missing g :: ms, ps => .silence g :: outcomes ms ps
  | .data _ phc a _ :: ms, (b, c) :: ps => .report (b + phc) c a :: outcomes ms ps
  | .data _ phc a _ :: ms, [] => .report phc .unknown a :: outcomes ms []

def pairsOf : List Int → List (Int × ChronyStatus)
  | b :: s :: rest => (b, chronyOfInt s) :: pairsOf rest
  | _ => []

def countChanges : List Status → Nat
  | a :: b :: rest => (if a != b then 1 else 0) + countChanges (b :: rest)
  | _ => 0

def updLine (args : List String) (impl : List String) : String :=
  match splitSemi args with
  | [drift] :: msgToks =>
    match drift.toInt?, msgToks.mapM parseMsg' with
    | some dr, some msgs' =>
      let msgs := msgs'.filterMap id            -- "noise" messages are ignored by the writer
      -- model
      let recs := Updater.run (Updater.new dr.toNat) msgs
      let mpairs := msgs.filterMap (fun m => match m with
        | .data t _ _ now => some (extractBound t now) | _ => none)
      let recTxt := recs.map recordText ++ (if recs.length < msgs.length then ["panic"] else [])
      let pairTxt := mpairs.map (fun p => s!"{p.1} {p.2.code}")
      let mtxt := (if recTxt.isEmpty then "none" else String.intercalate " ; " recTxt) ++ " ## " ++ String.intercalate " " pairTxt
      -- oracle on the implementation's answer
      let implParts := impl.splitOn "##"
      let irecs : Option (List Record) := ((splitSemi (implParts.headD [])).filter (· != ["none"])).mapM parseRecord
      let ipairs := (ints ((implParts.drop 1).headD [])).map pairsOf
      let (v, tags) := match irecs, ipairs with
        | some rs, some ps =>
          let h := outcomes msgs ps
          let noSyncPrefix := (List.range h.length).any (fun k => (lastSync (h.take (k+1))).isNone &&
              (match h[k]? with | some o => o.cls != ChronyStatus.unknown | none => false))
          let tags := (if h.length ≥ 3 then ["len3"] else []) ++
            (if countChanges (rs.map Record.status) ≥ 1 then ["statusChange"] else []) ++
            (if (lastSync h).isSome then ["hasSync"] else ["neverSync"]) ++
            (if noSyncPrefix then ["trustTemptation"] else []) ++
            (if msgs'.any (·.isNone) then ["noise"] else [])
          (String.intercalate " " [verdict "C08" true (C08.Holds dr.toNat h rs),
                                    verdict "C09" true (C09.Holds h rs)], tags)
        | _, _ => ("C08:FAILS C09:FAILS oracle:unparsed", [])
      s!"{mtxt} | {v} | {String.intercalate "," tags}"
    | _, _ => "bad-op | |"
  | _ => "bad-op | |"
where
  parseMsg' (toks : List String) : Option (Option Msg) :=
    if toks == ["noise"] then some none else (parseMsg toks).map some

/-- gen <start> => <in-flight> <final> -/
def genLine (args impl : List String) : String :=
  match ints args with
  | some [g] =>
    let s := genStart g.toNat
    let f := genFinish s
    let v := match ints impl with
      | some [i, fi] => verdict "C11" (decide (0 ≤ g ∧ g < 65536)) (C11.Holds g.toNat i.toNat fi.toNat && decide (0 ≤ i) && decide (0 ≤ fi))
      | _ => "C11:FAILS oracle:unparsed"
    let tags := (if g % 2 = 0 then ["even"] else ["odd"]) ++ (if g ≥ 65534 then ["wrap"] else []) ++ (if g = 0 then ["zero"] else [])
    s!"{s} {f} | {v} | {String.intercalate "," tags}"
  | _ => "bad-op | |"

/-- drift <ppm|none> => ok <ppb> | refused <rc> | rejected -/
def driftLine (args0 impl : List String) : String :=
  -- `@prior <ppb>` (restart over a previous instance's live record) and `@env` (environment variables
  -- the binary mentions are set): the published rate depends on neither
  let args := args0.takeWhile (fun t => !t.startsWith "@")
  let mods := args0.dropWhile (fun t => !t.startsWith "@")
  let arg : Option (Option Int) := match args with
    | ["none"] => some none
    | [x] => x.toInt?.map some
    | _ => none
  -- a decimal fraction `a.b`: the option takes whole ppm, so it is rejected; if a build accepts it, what
  -- it publishes must still be exactly 1000 times the value (C19), never a truncated rate
  let frac : Option (Nat × Nat) := match args with
    | [x] => (match x.splitOn "." with
      | [a, b] => (do
          let an ← a.toNat?
          let bn ← b.toNat?
          if b.length = 0 ∨ b.length > 18 then none else some (an * 10 ^ b.length + bn, 10 ^ b.length))
      | _ => none)
    | _ => none
  match arg with
  | none =>
    (match frac with
     | some (num, den) =>
       let ok := match impl with
         | ["ok", p] => (match p.toNat? with | some pn => decide (pn * den = 1000 * num) | none => false)
         | "refused" :: _ => true
         | "rejected" :: _ => true
         | _ => false
       s!"rejected | {verdict "C19" true ok} | fractional"
     | none => "bad-op | |")
  | some a =>
    if (match a with | some r => decide (r < 0 ∨ r ≥ 4294967296) | none => false) then
      -- not a 32-bit rate at all: C19 allows only a refusal (clap's usage error or an error from `main`), never a
      -- publication (whatever a wider intermediate type would make of the value)
      let published := match impl with | "ok" :: _ => true | _ => false
      s!"rejected | {verdict "C19" true (!published)} | outOfRange"
    else
      let an := a.map Int.toNat
      let m := driftPpb an
      let mtxt := match m with | some p => s!"ok {p}" | none => "refused"
      let ipub : Option (Option Nat) := match impl with
        | ["ok", p] => p.toNat?.map some
        | "refused" :: _ => some none
        | _ => none
      let v := match ipub with
        | some pub => verdict "C19" true (C19.Holds an pub)
        | none => if impl == ["relinked"] || impl.head? == some "trusted" then "C19:na" else "C19:FAILS oracle:unparsed"
      let tags := match an with
        | none => ["omitted"]
        | some r => (if r * 1000 ≥ 4294967296 then ["unrepresentable"] else ["representable"]) ++
                    (if r + 2 ≥ 4294968 ∧ r ≤ 4294970 then ["boundary"] else [])
      let tags := tags ++ (if mods.contains "@prior" then ["priorLive"] else []) ++ (if mods.contains "@env" then ["envSet"] else []) ++ (if mods.contains "@phc" then ["phcOptions"] else []) ++
        (if mods.contains "@link" then ["linkPath"] else [])
      -- `@link`: the path is a symbolic link to the segment file: the daemon publishes through it (C04: the file attached clients
      -- have mapped is the one that goes on being updated); "relinked" = the link was replaced or another file was updated
      let v04 := if mods.contains "@link" then " " ++ verdict "C04" m.isSome (match impl with | ["ok", _] => true | _ => false) else ""
      -- in every one of these runs chronyd is absent or unsynchronised (`@leap3`): no synchronised report reaches the daemon, so
      -- whatever a previous instance left (`@prior`, `@placeholder`) and however young the machine is (`@young`), the first record
      -- it publishes says Unknown (C09); the script answers "trusted <status> <bound>" otherwise
      let v09 := " " ++ verdict "C09" m.isSome (impl.head? != some "trusted")
      let tags := tags ++ (if mods.contains "@young" then ["youngMachine"] else []) ++ (if mods.contains "@placeholder" then ["priorPlaceholder"] else []) ++
        (if mods.contains "@leap3" then ["chronyUnsync"] else [])
      s!"{mtxt} | {v}{v04}{v09} | {String.intercalate "," tags}"

/-! ### seqlock scenarios -/

/-- sl <scenario…> => ann <9> ; <trace tokens> -/
def slLine (args impl : List String) : String :=
  match SL.parseScenario args, impl.splitOn ";" with
  | some sc, [annT, traceT] =>
    match annT with
    | "ann" :: at9 =>
      match SL.parseAnn at9 with
      | none => "bad-ann | C02:FAILS oracle:unparsed |"
      | some a =>
        let (mtrace, fresh) := SL.simulate a sc
        let isW (tid : Nat) : Bool := (sc.threads[tid]?.map (·.isWriter)).getD false
        let freshCall (tid n : Nat) : Bool := fresh.contains (tid, n)
        let toks := traceT.filterMap SL.parseTok
        let o := toks.foldl (SL.oracleStep sc.init isW freshCall) (SL.initState sc.init)
        let adequate := a.adequate
        let v := String.intercalate " " [
          verdict "C02" true o.c02,
          verdict "C03" true (o.c03 && o.c03catch),
          verdict "C04" (o.crashes > 0) (o.c02 && o.c03 && o.c03catch && o.c18 && SL.allReturned o),
          verdict "C18" true (o.c18 && SL.allReturned o),
          (if adequate then "ann:adequate" else "ann:INADEQUATE")]
        let tags := (if o.overlapped > 0 then ["overlap"] else []) ++ (if o.crashes > 0 then ["crash"] else []) ++
          (if o.retries > 0 then ["retry"] else []) ++ (if o.catchChecks > 0 then ["catchup"] else []) ++
          (if o.completed.length ≥ 2 then ["pubs2"] else []) ++ (if o.calls ≥ 2 then ["calls2"] else []) ++
          (match sc.init with | .valid _ _ => ["initValid"] | _ => ["initFresh"])
        s!"ann {a.text} ; {String.intercalate " " mtrace} | {v} | {String.intercalate "," tags}"
    | _ => "bad-ann | C02:FAILS oracle:unparsed |"
  | _, _ => "bad-op | C02:FAILS oracle:unparsed |"

/-- the stable even, non-zero generation of the third call of an `slx` scenario: the writer (or its
    successor) finished and stays quiet -/
def soloFinal (g0 : Nat) : Nat :=
  let e := ((g0 / 2) * 2 + 2 * 20011) % 65536
  if e = 0 then 2 else e

/-- scripted generation value of the k-th generation load (see harness `solo_load`) -/
def soloGen (g0 period mode k : Nat) : Nat :=
  if mode = 1 then (if k = 0 then g0 else (g0 + 1) % 65536)
  else if mode = 2 then (g0 + 1) % 65536
  else if mode = 4 then soloFinal g0
  else if mode = 5 then (if k = 0 then g0 else 0)
  else if mode = 3 then (if k = 0 then g0 else if k % 2 = 1 then (g0 + 1) % 65536 else (g0 + 2 * ((k / 2) % period + 1)) % 65536)
  else (g0 + 2 * (k % period)) % 65536

/-- cells the k-th record copy returns: 1000 + k % 1000 in every cell, status 1 -/
def soloCells (k : Nat) : List Nat := List.replicate 6 (1000 + k % 1000) ++ [1]

/-- one `snapshot()` call of the reader machine (`SL.rStep` itself) against scripted load results:
    at every step the log is a one-block log holding version 1, the scripted generation for the next
    generation load and the cells of the current copy. Returns the reader afterwards, the result and
    the load counters. (An instance of the `logs : Nat → Log` of theorem C18.bounded.) -/
def soloCall (a : SL.Ann) (g0 period mode : Nat) (r0 : SL.Reader) (gens0 copies0 : Nat) :
    SL.Reader × Option SL.RResult × Nat × Nat × Nat × Nat := Id.run do
  let mut r : SL.Reader := r0.call
  let mut ver := 0
  let mut gens := gens0
  let mut copies := copies0
  let mut fences := 0
  let mut copyIdx := copies0
  let mut result : Option SL.RResult := none
  let mut steps := 0
  while result.isNone ∧ steps ≤ SL.stepBound + 5 do
    match r.pc with
    | .version => ver := ver + 1
    | .gen1 => pure ()
    | .gen2 _ _ _ => pure ()
    | .fence _ _ _ => fences := fences + 1
    | .copy _ _ todo _ =>
      if todo.length == SL.N then
        copyIdx := copies
        copies := copies + 1
    | .idle => pure ()
    let log := SL.initBlock 1 (soloGen g0 period mode gens) (soloCells copyIdx)
    match r.pc with
    | .gen1 => gens := gens + 1
    | .gen2 _ _ _ => gens := gens + 1
    | _ => pure ()
    let out := SL.rStep a log { r with view := {} } 0 0
    r := out.1
    result := out.2.1
    steps := steps + 1
  return (r, result, ver, gens, copies, fences)

def soloRun (a : SL.Ann) (g0 period mode : Nat) : String :=
  let (r1, res1, ver, gens, copies, fences) := soloCall a g0 period mode ({} : SL.Reader) 0 0
  -- second call: generation frozen at g0 + 1
  let (r2, res2, _, gens2, copies2, _) := soloCall a g0 period 2 r1 gens copies
  let second := match res2 with
    | some (.ok cells) => s!"then:{SL.cellsText cells}"
    | some .errNotInit => "then:err"
    | none => "then:unbounded"
  -- third call: the generation is stable at a new even value (the writer, or a restarted one, is quiet)
  let (_, res3, _, _, _, _) := soloCall a g0 period 4 r2 gens2 copies2
  let third := match res3 with
    | some (.ok cells) => s!"final:{SL.cellsText cells}"
    | some .errNotInit => "final:err"
    | none => "final:unbounded"
  let counts := s!"v{ver} g{gens} c{copies} f{fences}"
  match res1 with
  | some (.ok cells) => s!"ok {SL.cellsText cells} {counts} {second} {third}"
  | some .errNotInit => s!"err {counts} {second} {third}"
  | none => s!"unbounded {counts} {second} {third}"

/-- slx <g0> <period> => ok … | err v<n> g<n> c<n> f<n> | unbounded … -/
def slxLine (args impl : List String) : String :=
  match ints args with
  | some (g0 :: period :: rest) =>
    let mode := (rest.headD 0).toNat
    let m := soloRun {} g0.toNat (max period.toNat 1) mode
    let returned := match impl with | "ok" :: _ => true | "err" :: _ => true | _ => false
    -- bound on shared accesses: generation loads ≤ 1 + RETRIES
    let genLoads := (impl.filterMap (fun t => if t.startsWith "g" then (t.drop 1).toNat? else none)).headD 0
    -- the second call (generation odd) must answer from the previous snapshot: the empty record, or
    -- the record the first call accepted — never the residue of a failed attempt
    let firstCells := match impl with | "ok" :: c :: _ => c | _ => "0,0,0,0,0,0,0"
    let thenTok := ((impl.find? (fun t => t.startsWith "then:")).map (fun t => (t.drop 5).toString)).getD "?"
    let odd2 := decide ((g0.toNat + 1) % 2 = 1)
    let secondOk := !odd2 || thenTok == firstCells
    -- the third call (stable new even generation) must deliver a record copied during that call:
    -- an attached reader sees later publications whatever its earlier calls went through (C03/C04 (b))
    let finalTok := ((impl.find? (fun t => t.startsWith "final:")).map (fun t => (t.drop 6).toString)).getD "?"
    let finalOk := match (finalTok.splitOn ",").head?.bind String.toNat? with
      | some c0 => decide (c0 ≥ 1000) && finalTok != thenTok
      | none => false
    let v := verdict "C18" true (returned && decide (genLoads ≤ SL.RETRIES + 1) && thenTok != "unbounded") ++ " " ++
             verdict "C02" true secondOk ++ " " ++ verdict "C03" true finalOk ++ " " ++ verdict "C04" true (secondOk && finalOk)
    let tags := (if genLoads > 1000 then ["exhaust"] else ["short"]) ++ (if mode == 1 then ["deadWriter"] else if mode == 3 then ["alternating"] else if mode == 5 then ["wipedUnder"] else [])
    s!"{m} | {v} | {String.intercalate "," tags}"
  | _ => "bad-op | |"

/-- slxc <g0> <period> [<mode>] => <class> <class> <class>: the scripts of `slx` through the C API; a call is `ok`
    when `snapshot()` answered (fresh or from the cache: the scripted records all pass `now()`), `err2`
    (CLOCKBOUND_ERR_SEGMENT_NOT_INITIALIZED) when the retry budget was used up -/
def slxcLine (args impl : List String) : String :=
  match ints args with
  | some (g0 :: period :: rest) =>
    let mode := (rest.headD 0).toNat
    let m := (soloRun {} g0.toNat (max period.toNat 1) mode).splitOn " "
    let c1 := if m.head? == some "ok" then "ok" else if m.head? == some "err" then "err2" else "unbounded"
    let cls (pref : String) : String :=
      match m.find? (fun t => t.startsWith pref) with
      | some t => if t == pref ++ "err" then "err2" else if t == pref ++ "unbounded" then "unbounded" else "ok"
      | none => "?"
    let model := s!"{c1} {cls "then:"} {cls "final:"}"
    let returned := impl.length == 3 && impl.all (fun t => t != "unbounded")
    let same := String.intercalate " " impl == model
    s!"{model} | {verdict "C18" true returned} {verdict "C17" true same} {verdict "C02" true same} {verdict "C04" true same} {verdict "C03" true same} | capi"
  | _ => "bad-op | |"

/-- crashpt <prior> <k> <k1> <k2> => ev … ; crashed open:… file:… attached:… fresh:… ; restarted … -/
def crashLine (args0 impl : List String) : String :=
  -- `@old` / `@bin`: age and spelling of the file name; the protocol does not depend on either
  let mods := args0.takeWhile (fun t => t.startsWith "@")
  let args := args0.dropWhile (fun t => t.startsWith "@")
  if !(mods.all (fun t => t == "@old" || t == "@bin" || t == "@uid" || t == "@link")) then "bad-op | |" else
  let parsed : Option (Crash.Prior × List String) := match args with
    | "missing" :: r => some (.missing, r) | "empty" :: r => some (.empty, r) | "garbage" :: r => some (.garbage, r)
    | "wiped" :: r => some (.wiped, r)
    | "valid" :: g :: k :: r => (do some (Crash.Prior.valid (← g.toNat?) (← k.toNat?), r))
    | "validv" :: v :: g :: k :: r => (do some (Crash.Prior.validv (← v.toNat?) (← g.toNat?) (← k.toNat?), r))
    | "foreign" :: g :: k :: r => (do some (Crash.Prior.foreign (← g.toNat?) (← k.toNat?), r))
    | _ => none
  match parsed with
  | some (p, [k, k1, k2]) =>
    match k.toNat?, k1.toNat?, k2.toNat? with
    | some k, some k1, some k2 =>
      let m := Crash.predict p k k1 k2
      -- parse the implementation's answer: fields are `name:value` tokens
      let field (n : String) : String := ((impl.find? (fun t => t.startsWith (n ++ ":"))).map (fun t => (t.drop (n.length + 1)).toString)).getD "?"
      let atts := impl.filter (fun t => t.startsWith "attached:")
      let evName := match impl with | "ev" :: e :: _ => e | _ => "?"
      let len1 : Int := (field "file").toInt?.getD (-2)
      let len2 : Int := (field "len").toInt?.getD (-2)
      let att1 : String := ((atts[0]?).map (fun t => (t.drop 9).toString)).getD "?"
      let att2 : String := ((atts[1]?).map (fun t => (t.drop 9).toString)).getD "?"
      -- two `fresh:` tokens: one in the `crashed` group (a client attaching between the crash and the
      -- restart), one in the `restarted` group; a group without one yields `?`, which no clause accepts
      let afterEv := (impl.dropWhile (· != ";")).drop 1
      let freshOf (g : List String) : String := ((g.find? (fun t => t.startsWith "fresh:")).map (fun t => (t.drop 6).toString)).getD "?"
      let fresh1 := freshOf (afterEv.takeWhile (· != ";"))
      let fresh2 := freshOf ((afterEv.dropWhile (· != ";")).drop 1)
      let o : Crash.Observed := ⟨evName, field "open", len1, att1, fresh1, field "inode_same" == "1", len2, fresh2, att2, field "mode"⟩
      -- C16's repair clause (a fresh client can open and reads the record; readable by other users) and
      -- C03's catch-up clause (an attached reader sees the restarted writer's publication) on the same run
      let c16 := o.fresh == Crash.cellsText (Crash.recCells k2) && o.mode == "644"
      let c03 := !p.file.usable || o.att2 == Crash.cellsText (Crash.recCells k2)
      let v := verdict "C04" true (C04.HoldsFile p k1 k2 o) ++ " " ++ verdict "C16" true c16 ++ " " ++
               verdict "C03" p.file.usable c03
      let tags := (if p.file.usable then ["priorUsable"] else ["priorUnusable"]) ++
        (if m.ev != "end" then ["crash"] else ["complete"]) ++ (if m.ev.startsWith "wipe" then ["crashInWipe"] else []) ++
        (if mods.contains "@old" then ["oldFile"] else []) ++ (if mods.contains "@bin" then ["binaryName"] else []) ++ (if mods.contains "@link" then ["symlink"] else [])
      -- `@uid`: the restart happens under another user (uid 65534), which owns the directory but not the file the first
      -- (root) incarnation left: it may read the file but not write it. If a file is there, the restart is REFUSED
      -- (`open(O_RDWR)` / `File::create` fail with EACCES) and nothing may change: same inode, same length, attached
      -- and fresh clients obtain what they obtained before (C04 (c): never emptied or re-created).
      let f1 := (Crash.runUntil p.file (Crash.recCells k1) k).1
      if mods.contains "@uid" && f1.present then
        let freshTxt := if Crash.openText f1 == "ok" then Crash.cellsText (({} : Crash.ReaderA).snap f1).cache else Crash.openText f1
        let mu : Crash.Observed := { m with inodeSame := true, len2 := f1.len, fresh := freshTxt, att2 := m.att1 }
        let mtxt := (mu.text.replace "; restarted inode_same" "; restarted-refused inode_same")
        let same := String.intercalate " " impl == mtxt
        s!"{mtxt} | {verdict "C04" true same} C16:na C03:na | {String.intercalate "," (tags ++ ["otherUid"])}"
      else
      s!"{m.text} | {v} | {String.intercalate "," tags}"
    | _, _, _ => "bad-op | |"
  | _ => "bad-op | |"

/-- skip <g0> <n> => first:<cells> second:<cells> third:<cells> gen:<g>
    sequential semantics (`Crash.ReaderA.snap`): a reader attached at generation g0, n real publications,
    two more calls. C03: publication order, and catch-up unless n is a positive multiple of 32767. -/
def skipLine (args impl : List String) : String :=
  match args.mapM String.toNat? with
  | some [g0, n] =>
    let f0 : Crash.FileA := { present := true, len := 72, magic0 := true, magic1 := true, size := 72,
                              version := 1, gen := g0, cells := Crash.recCells 90 }
    let r1 := ({} : Crash.ReaderA).snap f0
    let gN := (List.range n).foldl (fun g _ => genFinish (genStart g)) g0
    let fN : Crash.FileA := if n = 0 then f0 else { f0 with gen := gN, cells := Crash.recCells n }
    let r2 := r1.snap fN
    let r3 := r2.snap fN
    let txt (c : List Nat) := Crash.cellsText c
    let m := s!"first:{txt r1.cache} second:{txt r2.cache} third:{txt r3.cache} gen:{gN}"
    let field (k : String) : String := ((impl.find? (fun t => t.startsWith (k ++ ":"))).map (fun t => (t.drop (k.length + 1)).toString)).getD "?"
    let first := field "first"; let second := field "second"; let third := field "third"
    let latest := if n = 0 then (if g0 % 2 = 0 ∧ g0 ≠ 0 then txt (Crash.recCells 90) else txt (List.replicate 7 0)) else txt (Crash.recCells n)
    let exception_ := decide (n > 0 ∧ n % 32767 = 0 ∧ g0 % 2 = 0)
    -- publication order: the second answer is the first one (cache) or the latest; never anything else
    let order := (second == first || second == latest) && third == second
    let catchup := exception_ || second == latest
    let v := verdict "C03" true (order && catchup)
    let tags := (if n ≥ 16384 then ["longSkip"] else ["shortSkip"]) ++ (if exception_ then ["multiple32767"] else []) ++
      (if g0 % 2 = 1 then ["oddStart"] else []) ++ (if g0 + 2 * n ≥ 65536 then ["wrap"] else [])
    s!"{m} | {v} | {String.intercalate "," tags}"
  | _ => "bad-op | |"

def processLine (line : String) : String :=
  let parts := line.splitOn " => "
  -- `@env NAME=VALUE …` at the end of a request: the environment the harness set for it; irrelevant to the model
  let reqAll := (parts.headD "").trimAscii.toString.splitOn " " |>.filter (· ≠ "")
  let rec cut : List String → List String
    | "@env" :: kv :: rest => if kv.contains '=' then [] else "@env" :: cut (kv :: rest)
    | ["@release"] => []          -- executed by the harness built with the release profile
    | x :: rest => x :: cut rest
    | [] => []
  let req0 := cut reqAll
  -- an empty answer leaves a dangling "=>" at the end of the request
  let req := if req0.getLast? == some "=>" then req0.dropLast else req0
  let impl := ((parts.drop 1).headD "").trimAscii.toString.splitOn " " |>.filter (· ≠ "")
  match req with
  | "client" :: args => clientLine args impl
  | "client2" :: args => client2Line args impl
  | "corder" :: args => corderLine args impl
  | "session" :: args => DriverS.line args impl
  | "extract" :: args => extractLine args impl
  | "upd" :: args => updLine args impl
  | "gen" :: args => genLine args impl
  | "sl" :: args => slLine args impl
  | "crashpt" :: args => crashLine args impl
  | "thr" :: args => (DriverT.line "thr" args impl).getD "bad-op | |"
  | "thrrel" :: mode :: _ =>
    -- process-level run of the release binary: the writer died at start-up; the daemon must exit promptly
    let ok := impl == ["exited", "fast"]
    "exited fast | " ++ (if ok then "C15:holds" else "C15:FAILS") ++ " | release," ++ mode
  | "phcrun" :: args => phcrunLine args impl
  | "open" :: args => (DriverH.line "open" args impl).getD "bad-op | |"
  | "open0" :: args => (DriverH.line "open" args impl).getD "bad-op | |"
  | "openu" :: args => (DriverH.line "open" args impl).getD "bad-op | |"   -- as an unprivileged process, no lockable memory
  | "openb" :: args => (DriverH.line "open" args impl).getD "bad-op | |"   -- the segment's name is not valid UTF-8
  | "seg" :: args => (DriverH.line "seg" args impl).getD "bad-op | |"
  | "snap" :: args => (DriverH.line "snap" args impl).getD "bad-op | |"
  | "sandwich" :: args => (DriverH.line "sandwich" args impl).getD "bad-op | |"
  | "cabi" :: args => (DriverH.line "cabi" args impl).getD "bad-op | |"
  | "slx" :: args => slxLine args impl
  | "slxc" :: args => slxcLine args impl
  | "skip" :: args => skipLine args impl
  | "slaba" :: _ =>
    -- K1 replay on the real code only (a 360 000-step execution is not simulated by the model): the
    -- implementation's verdict is passed through
    let torn := impl.headD "" == "torn"
    String.intercalate " " impl ++ " | " ++ (if torn then "C02:FAILS" else "C02:holds") ++ " | k1"
  | "poll" :: args => (DriverP.line "poll" args impl).getD "bad-op | |"
  | "pollr" :: args => (DriverP.line "poll" args impl).getD "bad-op | |"   -- same scenario via `chrony_poller::run`
  | "world" :: args => (DriverW.line "world" args impl).getD "bad-op | |"
  | "drift" :: args => driftLine args (match impl with | "refused" :: _ => ["refused"] | x => x)
  | _ => "bad-op | |"

end ClockBound.Driver
