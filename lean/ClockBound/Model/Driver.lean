/-
  Line-protocol driver (import-free): one request per line `req => impl-answer`;
  one output line `model-answer | oracle verdicts | tags`.
-/
import ClockBound.Model.Oracles
namespace ClockBound.Driver
open ClockBound

def ints (toks : List String) : Option (List Int) := toks.mapM String.toInt?

def tsText (t : TimeSpec) : String := s!"{t.sec} {t.nsec}"

def outcomeText : Outcome → String
  | .ok e l s => s!"ok {tsText e} {tsText l} {s.code}"
  | .malformed => "err malformed"
  | .causality => "err causality"
  | .panic => "panic"

def statusOfInt (i : Int) : Status :=
  if i = 1 then .synchronized else if i = 2 then .freeRunning else .unknown

/-- parse an implementation answer of the client family -/
def parseOutcome (toks : List String) : Option Outcome :=
  match toks with
  | ["ok", a, b, c, d, s] => do
      let v ← ints [a, b, c, d, s]
      match v with
      | [a, b, c, d, s] => some (.ok ⟨a, b⟩ ⟨c, d⟩ (statusOfInt s))
      | _ => none
  | ["err", "malformed"] => some .malformed
  | ["err", "causality"] => some .causality
  | ["panic"] => some .panic
  | _ => none

def verdict (name : String) (applicable holds : Bool) : String :=
  if !applicable then s!"{name}:na" else if holds then s!"{name}:holds" else s!"{name}:FAILS"

def clientTags (x : ClientIn) : List String :=
  let d := x.mono.toNs - x.r.asOf.toNs
  let near (a b : Int) : Bool := decide ((a - b).natAbs ≤ 1000)
  (if x.meaningful then ["meaningful"] else ["wild"]) ++
  (if near d 5000000000 then ["near5s"] else []) ++
  (if near x.mono.toNs x.r.voidAfter.toNs then ["nearVoid"] else []) ++
  (if near d (-1000) then ["nearBlur"] else []) ++
  (if d > 0 ∧ x.r.drift > 0 ∧ x.r.drift < 1000000000 ∧ C05.exactGrowth x ≥ 1 then ["growth"] else []) ++
  (if x.mono.nsec ≠ x.r.asOf.nsec then ["fracSec"] else []) ++
  (if x.r.drift ≥ 1000000000 then ["badDrift"] else []) ++
  (if decide (d > 5000000000) ∧ x.r.status != .unknown then ["aged"] else []) ++
  [s!"st{x.r.status.code}"]

def clientLine (args : List String) (impl : List String) : String :=
  match ints args with
  | some [as, an, vs, vn, b, dr, st, rs, rn, ms, mn] =>
    let x : ClientIn := ⟨⟨⟨as, an⟩, ⟨vs, vn⟩, b, dr.toNat, 0, statusOfInt st⟩, ⟨rs, rn⟩, ⟨ms, mn⟩⟩
    let m := computeBoundAt x.r x.real x.mono
    let v := match parseOutcome impl with
      | none => "oracle:unparsed"
      | some o =>
        String.intercalate " " [
          verdict "C05" (C05.applicable x) (C05.Holds x o),
          verdict "C06" (C06.applicable x) (C06.Holds x o),
          verdict "C14" x.meaningful (C14.Holds x o)]
    s!"{outcomeText m} | {v} | {String.intercalate "," (clientTags x)}"
  | _ => "bad-op | |"

/-- two monotonic readings of one record: `client2 <11 fields> <mono2_sec> <mono2_ns> => <ans1> ; <ans2>` -/
def client2Line (args : List String) (impl : List String) : String :=
  match ints args with
  | some [as, an, vs, vn, b, dr, st, rs, rn, ms, mn, ms2, mn2] =>
    let x : ClientIn := ⟨⟨⟨as, an⟩, ⟨vs, vn⟩, b, dr.toNat, 0, statusOfInt st⟩, ⟨rs, rn⟩, ⟨ms, mn⟩⟩
    let m2 : TimeSpec := ⟨ms2, mn2⟩
    let o1 := computeBoundAt x.r x.real x.mono
    let o2 := computeBoundAt x.r x.real m2
    let (i1, i2) := match impl.splitOn ";" with     -- split the token list at ";"
      | [a, b] => (parseOutcome a, parseOutcome b)
      | _ => (none, none)
    let v := match i1, i2 with
      | some a, some b =>
        let app := C05.applicable x && m2.inRange && decide (x.mono.toNs ≤ m2.toNs)
        verdict "C05" app (C05.HoldsMono x m2 a b)
      | _, _ => "oracle:unparsed"
    let tags := (if x.mono.toNs < m2.toNs then ["older"] else ["same"]) ++ clientTags x
    s!"{outcomeText o1} ; {outcomeText o2} | {v} | {String.intercalate "," tags}"
  | _ => "bad-op | |"

def processLine (line : String) : String :=
  let parts := line.splitOn " => "
  let req := (parts.headD "").trimAscii.toString.splitOn " " |>.filter (· ≠ "")
  let impl := ((parts.drop 1).headD "").trimAscii.toString.splitOn " " |>.filter (· ≠ "")
  match req with
  | "client" :: args => clientLine args impl
  | "client2" :: args => client2Line args impl
  | _ => "bad-op | |"

end ClockBound.Driver
