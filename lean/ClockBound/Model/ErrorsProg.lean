/-
  Closed forms for the translation tie of the two client libraries (clock-bound-client/src/lib.rs,
  clock-bound-ffi/src/lib.rs): the error conversion on ALL four variants of `ShmError`, and the control
  flow of `now()` / `open()` / `close()` as functions of what the calls into clock-bound-shm return.

  `Model/Header.lean` has `ShmErr` (three variants: `ShmReader::new` cannot return `CausalityBreach`, and
  the origin is one of the three strings of the open path) and `ShmErr.toClient`.  `ShmErrorV` below is the
  Rust enum in full (four variants, any errno, any origin string); `ShmErr.full` embeds the former in the
  latter and `Properties/ErrorsProg.lean` proves that the two conversions commute with the embedding, so a
  statement about `ShmErrorV.toClient` is a statement about `ShmErr.toClient` on every value of `ShmErr`.

  Import-free apart from other Model files.
-/
import ClockBound.Model.Header
namespace ClockBound

/-- `clock_bound_shm::ShmError`, all variants: `SyscallError(Errno, &'static CStr)` with the errno
    (`errno::Errno(pub i32)`) and the origin string without its terminating NUL -/
inductive ShmErrorV
  | sys (errno : Int) (origin : String)
  | notInit
  | malformed
  | causality
deriving Repr, BEq, DecidableEq, Inhabited

/-- what both client libraries report: kind, errno (0 unless a system call failed), detail (`none` =
    the empty `String` of the Rust client / the NULL pointer of the C client) -/
structure ClientErrV where
  kind : ErrKind
  errno : Int
  detail : Option String
deriving Repr, BEq, DecidableEq, Inhabited

/-- `impl From<ShmError> for ClockBoundError` and `impl From<ShmError> for clockbound_err` -/
def ShmErrorV.toClient : ShmErrorV → ClientErrV
  | .sys e o => ⟨.syscall, e, some o⟩
  | .notInit => ⟨.notInit, 0, none⟩
  | .malformed => ⟨.malformed, 0, none⟩
  | .causality => ⟨.causality, 0, none⟩

/-- the errors of `Model/Header.lean` as values of the full enum -/
def ShmErr.full : ShmErr → ShmErrorV
  | .sys e o => .sys e o.text
  | .notInit => .notInit
  | .malformed => .malformed

def ClientErr.full (c : ClientErr) : ClientErrV := ⟨c.kind, c.errno, c.detail.map Origin.text⟩

/-- the errno is an `i32` (`errno::Errno(pub i32)`, `clockbound_err.errno: i32`) -/
def ShmErrorV.inRange : ShmErrorV → Prop
  | .sys e _ => -2147483648 ≤ e ∧ e ≤ 2147483647
  | _ => True
instance : Decidable (ShmErrorV.inRange e) := by cases e <;> unfold ShmErrorV.inRange <;> infer_instance

/-! ### `now()` -/

/-- the interval and status `ClockErrorBound::now` returns -/
abbrev Bound := TimeSpec × TimeSpec × Status

/-- `ClockBoundClient::now` and `clockbound_now` as ONE function of the result of
    `ShmReader::snapshot()` and the result of `ClockErrorBound::now()` on that snapshot (which is only
    called when there is a snapshot): the first error, converted; else the bound, unchanged. -/
def clientNow (snap : Except ShmErrorV Record) (bound : Except ShmErrorV Bound) : Except ClientErrV Bound :=
  match snap with
  | .error e => .error e.toClient
  | .ok _ =>
    match bound with
    | .error e => .error e.toClient
    | .ok b => .ok b

/-- the first error of the two calls, unconverted: `clientNow` is this error, converted
    (`ErrorsProg.clientNow_eq_firstErr`) -/
def firstErr (snap : Except ShmErrorV Record) (bound : Except ShmErrorV Bound) : Except ShmErrorV Bound :=
  match snap with
  | .error e => .error e
  | .ok _ => bound

/-- how many calls into clock-bound-shm `now()` makes: `snapshot()`, then `now()` if that succeeded -/
def clientNowCalls (snap : Except ShmErrorV Record) : Nat :=
  match snap with
  | .error _ => 1
  | .ok _ => 2

/-- the result of `ClockErrorBound::now` when both clock reads succeed, in terms of the model of
    `compute_bound_at` (`Model/Client.lean`); `none` = panic -/
def boundOfOutcome : Outcome → Option (Except ShmErrorV Bound)
  | .ok e l s => some (.ok (e, l, s))
  | .malformed => some (.error .malformed)
  | .causality => some (.error .causality)
  | .panic => none

/-! ### `open()` -/

/-- `ClockBoundClient::new_with_path` / `clockbound_open` as ONE function of the result of
    `ShmReader::new(path)`: the reader, or the converted error -/
def clientOpen {ρ : Type} (opened : Except ShmErrorV ρ) : Except ClientErrV ρ :=
  match opened with
  | .error e => .error e.toClient
  | .ok r => .ok r

end ClockBound
