/-
  Line-protocol driver for the segment-file lines of C16 / C17 (import-free):
    open <missing|dir|file HEX>                          => <ShmReader> ; <Rust client> ; <C client>
    seg <missing|dir|file HEX> <8 record ints>           => <recreated> <inode_same> <HEX> <fresh reader> | err io <errno>
    snap file HEX                                        => <fresh reader on the static file: rec … | short | err …>
    sandwich <8 record ints> <real_s real_ns mono_s mono_ns>  => <Rust client now()> ; <C clockbound_now()>
    cabi                                                 => abi <clockbound_err> ; <clockbound_now_result> ; <kinds> ; <status>
  `line kind args impl` returns `model answer | verdicts | tags`, `none` for other kinds.
-/
import ClockBound.Model.Oracles
import ClockBound.Model.OraclesH
namespace ClockBound.DriverH
open ClockBound

def verdict (name : String) (applicable holds : Bool) : String :=
  if !applicable then s!"{name}:na" else if holds then s!"{name}:holds" else s!"{name}:FAILS"

def ints (toks : List String) : Option (List Int) := toks.mapM String.toInt?

def joinSp (l : List String) : String := String.intercalate " " l

/-! ### hex -/

def hexVal (c : Char) : Option Nat :=
  if '0' ≤ c ∧ c ≤ '9' then some (c.toNat - '0'.toNat)
  else if 'a' ≤ c ∧ c ≤ 'f' then some (c.toNat - 'a'.toNat + 10)
  else if 'A' ≤ c ∧ c ≤ 'F' then some (c.toNat - 'A'.toNat + 10)
  else none

def hexPairs : List Char → Option Bytes
  | [] => some []
  | a :: b :: rest => do
    let x ← hexVal a
    let y ← hexVal b
    let r ← hexPairs rest
    some ((16 * x + y) :: r)
  | [_] => none

def parseHex (s : String) : Option Bytes := if s == "-" then some [] else hexPairs s.toList

def hexDigit (n : Nat) : Char := if n < 10 then Char.ofNat (48 + n) else Char.ofNat (87 + n)

def hexText (bs : Bytes) : String :=
  if bs.isEmpty then "-" else String.ofList (bs.flatMap fun b => [hexDigit (b / 16 % 16), hexDigit (b % 16)])

/-! ### requests -/

def parsePrior : List String → Option (FileState × List String)
  | "missing" :: rest => some (.missing, rest)
  | "dir" :: rest => some (.directory, rest)
  | "file" :: h :: rest => (parseHex h).map fun b => (.file b, rest)
  | _ => none

def statusOfInt (i : Int) : Status :=
  if i = 1 then .synchronized else if i = 2 then .freeRunning else .unknown

/-- the harness builds the record with `as u32` casts and `status_of` -/
def recordOfInts : List Int → Option Record
  | [a, b, c, d, bd, dr, rs, st] =>
    some ⟨⟨a, b⟩, ⟨c, d⟩, bd, (dr % 4294967296).toNat, (rs % 4294967296).toNat, statusOfInt st⟩
  | _ => none

/-! ### answers as text -/

def originText (o : Origin) : String := o.text.replace " " "_"

def originOfText : String → Option Origin
  | "open" => some .open_
  | "read_SHM_segment" => some .read
  | "mmap_SHM_segment" => some .mmap
  | _ => none

def shmErrText : ShmErr → String
  | .sys e o => s!"err sys {e} {originText o}"
  | .notInit => "err notinit"
  | .malformed => "err malformed"

def kindText : ErrKind → String
  | .none => "none" | .syscall => "syscall" | .notInit => "notinit" | .malformed => "malformed" | .causality => "causality"

def kindOfText : String → Option ErrKind
  | "none" => some .none | "syscall" => some .syscall | "notinit" => some .notInit
  | "malformed" => some .malformed | "causality" => some .causality | _ => none

def clientErrText (e : ClientErr) : String :=
  s!"err {kindText e.kind} {e.errno} {match e.detail with | some o => originText o | none => "-"}"

def shmResText : C16.Res ShmErr → String
  | .ok => "ok" | .err e => shmErrText e
def clientResText : C16.Res ClientErr → String
  | .ok => "ok" | .err e => clientErrText e

def parseShmRes : List String → Option (C16.Res ShmErr)
  | ["ok"] => some .ok
  | ["err", "notinit"] => some (.err .notInit)
  | ["err", "malformed"] => some (.err .malformed)
  | ["err", "sys", e, o] => do
    let n ← e.toNat?
    let o ← originOfText o
    some (.err (.sys n o))
  | _ => none

def parseClientErr : List String → Option ClientErr
  | [k, e, d] => do
    let k ← kindOfText k
    let n ← e.toNat?
    let d ← if d == "-" then some none else (originOfText d).map some
    some ⟨k, n, d⟩
  | _ => none

def parseClientRes : List String → Option (C16.Res ClientErr)
  | ["ok"] => some .ok
  | "err" :: rest => (parseClientErr rest).map .err
  | _ => none

def tsText (t : TimeSpec) : String := s!"{t.sec} {t.nsec}"

def recordText (r : Record) : String :=
  s!"rec {tsText r.asOf} {tsText r.voidAfter} {r.bound} {r.drift} {r.reserved} {r.status.code}"

def snapText : Snap → String
  | .err e => shmErrText e
  | .short => "short"
  | .undef => "undef"
  | .record r => recordText r

def parseSnap : List String → Option Snap
  | ["short"] => some .short
  | "rec" :: rest => do
    match ← ints rest with
    | [a, b, c, d, bd, dr, rs, st] =>
      if dr < 0 ∨ rs < 0 ∨ st < 0 ∨ st > 2 then none
      else some (.record ⟨⟨a, b⟩, ⟨c, d⟩, bd, dr.toNat, rs.toNat, statusOfInt st⟩)
    | _ => none
  | "err" :: rest =>
    match parseShmRes ("err" :: rest) with
    | some (.err e) => some (.err e)
    | _ => none
  | _ => none

def splitSemi (toks : List String) : List (List String) := toks.splitOn ";"

/-! ### tags -/

def priorTags : FileState → List String
  | .missing => ["missing"]
  | .directory => ["dir"]
  | .file bs =>
    let h := parseHeader bs
    (if bs.isEmpty then ["empty"] else []) ++
    (if bs.length < 16 then ["shortHeader"]
     else if !C16.magicOk bs then
       ["badMagic"] ++ (if slice bs 0 8 == C17.docMagicBytes then ["docMagic"] else [])
     else if h.version = 0 then ["ver0"]
     else if h.generation = 0 then ["gen0"]
     else if h.segsize < 16 then ["size<16"]
     else if h.segsize < 72 then ["size<72"]
     else ["usable"] ++ (if h.segsize = 72 then ["size72"] else if h.segsize = 4294967295 then ["sizeMax"] else ["size>72"]) ++
          (if h.generation % 2 = 1 then ["genOdd"] else []) ++ (if h.generation ≥ 65534 then ["genWrap"] else []) ++
          (if h.version ≠ 1 then ["verOther"] else [])) ++
    (if C16.truncatedValid (.file bs) then ["truncatedValid"] else []) ++
    (if bs.length = 72 then ["len72"] else if bs.length > 72 then ["len>72"] else if bs.length ≥ 16 then ["len16..71"] else []) ++
    -- two checks fail at once: the order of the checks is observable
    (if bs.length ≥ 16 ∧ (!C16.magicOk bs ∨ h.version = 0 ∨ h.generation = 0) ∧ h.segsize < 72 then ["orderVisible"] else [])

/-! ### open -/

def openLine (args impl : List String) : String :=
  match parsePrior args with
  | some (st, []) =>
    let m := C16.Res.ofExcept (readerOpen st)
    let mc := m.map ShmErr.toClient
    let mtxt := s!"{shmResText m} ; {clientResText mc} ; {clientResText mc}"
    let v := match splitSemi impl with
      | [a, b, c] =>
        let ra := parseShmRes a; let rb := parseClientRes b; let rc := parseClientRes c
        joinSp [verdict "C16" true (C16.HoldsOpen st ra rb rc), verdict "C17" true (C17.HoldsOpen rb rc)]
      | _ => "C16:FAILS C17:FAILS oracle:unparsed"
    s!"{mtxt} | {v} | {String.intercalate "," (priorTags st)}"
  | _ => "bad-op | |"

/-! ### seg -/

def segAnsText : C16.SegAns → String
  | .panic => "panic"
  | .ioErr e => s!"err io {e}"
  | .done rc ino bs rd => s!"{if rc then 1 else 0} {if ino then 1 else 0} {hexText bs} {snapText rd}"

def parseSegAns : List String → Option C16.SegAns
  | ["panic"] => some .panic
  | ["err", "io", e] => e.toNat?.map .ioErr
  | rc :: ino :: hx :: rd => do
    let rc ← if rc == "1" then some true else if rc == "0" then some false else none
    let ino ← if ino == "1" then some true else if ino == "0" then some false else none
    let bs ← parseHex hx
    let rd ← parseSnap rd
    some (.done rc ino bs rd)
  | _ => none

def recordTags (r : Record) : List String :=
  let fields := [r.asOf.sec, r.asOf.nsec, r.voidAfter.sec, r.voidAfter.nsec, r.bound]
  [s!"st{r.status.code}"] ++
  (if fields.any (· < 0) then ["negField"] else []) ++
  (if fields.any (fun x => x = 9223372036854775807 ∨ x = -9223372036854775808) then ["extremeField"] else []) ++
  (if r.drift ≥ 2147483648 ∨ r.reserved ≥ 2147483648 then ["highBitU32"] else []) ++
  (if r.reserved ≠ 0 then ["reservedNonZero"] else [])

def segLine (args impl : List String) : String :=
  match parsePrior args with
  | some (st, rest) =>
    match (ints rest).bind recordOfInts with
    | some r =>
      let ia := parseSegAns impl
      -- the four padding bytes of the record copy are an input of the model (the implementation
      -- copies whatever its source held): taken from the observed image when it has them
      let pad : Bytes := match ia with
        | some (.done _ _ bs _) => if bs.length ≥ 72 then slice bs 68 4 else ZERO_PAD
        | _ => ZERO_PAD
      let m := C16.modelSeg st r pad
      let (v, t) := match ia with
        | none => ("C16:FAILS C17:FAILS oracle:unparsed", [])
        | some a =>
          let c16 := match a with
            | .ioErr e => verdict "C16" (st != FileState.directory) (false) ++ (if st == FileState.directory ∧ e ≠ 21 then " errno:unexpected" else "")
            | _ => verdict "C16" (C16.segApplicable st) (C16.HoldsSeg st r a) ++ " " ++
                   -- `C16strict` used to be the reading that also counted truncated usable segments;
                   -- `C16` now does (every prior state but a directory), so the two are the same
                   -- verdict; the second name is kept for existing configuration
                   verdict "C16strict" (C16.segApplicable st) (C16.HoldsSeg st r a)
          let (c17, c17m, t) := match a with
            | .done rc _ bs _ =>
              (verdict "C17" (decide (72 ≤ bs.length)) (C17.HoldsSeg bs r rc),
               verdict "C17magic" (decide (8 ≤ bs.length)) (C17.HoldsMagic bs),
               (if rc then ["recreated"] else ["takenOver"]) ++
               (if bs.length ≥ 72 ∧ slice bs 68 4 != ZERO_PAD then ["padNonZero"] else []))
            | _ => ("C17:na", "C17magic:na", ["startRefused"])
          (joinSp [c16, c17, c17m], t)
      s!"{segAnsText m} | {v} | {String.intercalate "," (priorTags st ++ t ++ recordTags r)}"
    | none => "bad-op | |"
  | none => "bad-op | |"

/-! ### snap: a fresh reader on a static file (correspondence of `snapshotOfFile` only) -/

def snapLine (args : List String) : String :=
  match parsePrior args with
  | some (st, []) =>
    let g := match st with | .file bs => (parseHeader bs).generation | _ => 0
    let tags := priorTags st ++ (match snapshotOfFile st with
      | .record r => ["read"] ++ (if g % 2 = 1 then ["oddGenZeroRecord"] else []) ++ [s!"st{r.status.code}"]
      | .short => ["short"] | .undef => ["undef"] | .err _ => ["openErr"])
    s!"{snapText (snapshotOfFile st)} | C16:na | {String.intercalate "," tags}"
  | _ => "bad-op | |"

/-! ### sandwich -/

def nowAnsText : C17.NowAns → String
  | .out (.ok e l s) => s!"ok {tsText e} {tsText l} {s.code}"
  | .out .malformed => "err malformed 0 -"
  | .out .causality => "err causality 0 -"
  | .out .panic => "panic"
  | .sysErr e d => s!"err syscall {e} {d}"
  | .notInit => "err notinit 0 -"
  | .openErr e => "open" ++ clientErrText e
  | .crash s => s!"crash {s}"

def parseNowAns : List String → Option C17.NowAns
  | ["ok", a, b, c, d, s] => do
    match ← ints [a, b, c, d, s] with
    | [a, b, c, d, s] => if s < 0 ∨ s > 2 then none else some (.out (.ok ⟨a, b⟩ ⟨c, d⟩ (statusOfInt s)))
    | _ => none
  | ["err", "malformed", "0", "-"] => some (.out .malformed)
  | ["err", "causality", "0", "-"] => some (.out .causality)
  | ["err", "notinit", "0", "-"] => some .notInit
  | ["err", "syscall", e, d] => e.toNat?.map fun n => .sysErr n d
  | ["panic"] => some (.out .panic)
  | ["crash", s] => s.toNat?.map .crash
  | "openerr" :: rest => (parseClientErr rest).map .openErr
  | _ => none

/-- the C answer for a Rust answer: identical, but a panic aborts the process (SIGABRT = 6) -/
def cAnswerOf : C17.NowAns → C17.NowAns
  | .out .panic => .crash 6
  | a => a

def sandwichLine (args impl : List String) : String :=
  match ints args with
  | some [as, an, vs, vn, b, dr, rs, st, res, ren, ms, mn] =>
    match recordOfInts [as, an, vs, vn, b, dr, rs, st] with
    | some r =>
      let real : TimeSpec := ⟨res, ren⟩
      let mono : TimeSpec := ⟨ms, mn⟩
      let o := computeBoundAt r real mono
      let m : C17.NowAns := .out o
      let x : ClientIn := ⟨r, real, mono⟩
      let v := match splitSemi impl with
        | [a, c] =>
          match parseNowAns a, parseNowAns c with
          | some ra, some rc => verdict "C17" true (C17.HoldsSandwich ra rc)
          | _, _ => "C17:FAILS oracle:unparsed"
        | _ => "C17:FAILS oracle:unparsed"
      let cls := match o with
        | .ok .. => "ok" | .malformed => "errMalformed" | .causality => "errCausality" | .panic => "panic"
      let d := mono.toNs - r.asOf.toNs
      let near (a b : Int) : Bool := decide ((a - b).natAbs ≤ 1000)
      let tags := [cls, s!"st{r.status.code}"] ++ (if x.meaningful then ["meaningful"] else ["wild"]) ++
        (if r.reserved ≠ 0 then ["reservedNonZero"] else []) ++
        (if near d 5000000000 then ["near5s"] else []) ++ (if near mono.toNs r.voidAfter.toNs then ["nearVoid"] else []) ++
        (if near d (-1000) then ["nearBlur"] else []) ++
        (if d > 0 ∧ r.drift > 0 ∧ r.drift < 1000000000 ∧ C05.exactGrowth x ≥ 1 then ["growth"] else [])
      s!"{nowAnsText m} ; {nowAnsText (cAnswerOf m)} | {v} | {String.intercalate "," tags}"
    | none => "bad-op | |"
  | _ => "bad-op | |"

/-! ### cabi -/

def natsText (l : List Nat) : String := joinSp (l.map toString)

def cabiLine (impl : List String) : String :=
  let mtxt := match C17.expectedAbi with
    | some (a, b, c, d) => s!"abi {natsText a} ; {natsText b} ; {natsText c} ; {natsText d}"
    | none => "abi not-understood"
  let v := match impl with
    | "abi" :: rest =>
      match (splitSemi rest).mapM (fun (p : List String) => p.mapM String.toNat?) with
      | some [a, b, c, d] => verdict "C17" true (C17.HoldsAbi (a, b, c, d))
      | _ => "C17:FAILS oracle:unparsed"
    | _ => "C17:FAILS oracle:unparsed"
  s!"{mtxt} | {v} | abi"

def line (kind : String) (args impl : List String) : Option String :=
  match kind with
  | "open" => some (openLine args impl)
  | "seg" => some (segLine args impl)
  | "snap" => some (snapLine args)
  | "sandwich" => some (sandwichLine args impl)
  | "cabi" => some (cabiLine impl)
  | _ => none

end ClockBound.DriverH
