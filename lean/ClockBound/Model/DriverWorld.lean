/-
  Driver for `world` lines (C01): re-computes the piecewise-linear clocks exactly, checks the
  hypotheses of C01 on the generated history, runs the modelled pipeline and evaluates containment
  on the implementation's client results.  Import-free.
-/
import ClockBound.Model.World
namespace ClockBound.DriverW
open ClockBound

def Q : Int := 1000000000

structure Clocks where
  t0 : Int
  r0q : Int
  m0q : Int
  segs : List (Int × Int × Int)      -- (len_ns, r_ppb, m_ppb)
deriving Repr, Inhabited

/-- (Rc t, Mc t) scaled by 10^9, as exact rationals -/
def Clocks.atQ (c : Clocks) (t : Rat) : Rat × Rat :=
  let rec go (tk : Int) (r m : Rat) : List (Int × Int × Int) → Rat × Rat
    | [] => (r + (t - tk) * Q, m + (t - tk) * Q)
    | [(_, rp, mp)] => (r + (t - tk) * (Q + rp), m + (t - tk) * (Q + mp))
    | (len, rp, mp) :: rest =>
      if t < (tk + len : Int) then (r + (t - tk) * (Q + rp), m + (t - tk) * (Q + mp))
      else go (tk + len) (r + len * (Q + rp)) (m + len * (Q + mp)) rest
  go c.t0 c.r0q c.m0q c.segs

def Clocks.world (c : Clocks) (rho : Nat) : World :=
  { Rc := fun t => (c.atQ t).1 / Q, Mc := fun t => (c.atQ t).2 / Q, rho := rho }

/-- the slopes satisfy the drift hypothesis: |r| ≤ ρ(1 + m/10^9), monotonic clock increasing -/
def Clocks.good (c : Clocks) (rho : Nat) : Bool :=
  c.segs.all (fun (len, r, m) => decide (0 < len) && decide (-Q < m) &&
    decide (((r.natAbs : Int) : Rat) ≤ (rho : Rat) * (Q + m) / Q))

inductive Ev
  | poll (ta tq tp : Int) (reply : Option Tracking) (phc : Int) (grace : Bool)
  | restart
  | query (tr tm : Int)
deriving Inhabited

def ints (toks : List String) : Option (List Int) := toks.mapM String.toInt?

def parseEv (toks : List String) : Option Ev :=
  match toks with
  | "poll" :: ta :: tq :: tp :: "trk" :: rest => do
    match ← ints ([ta, tq, tp] ++ rest) with
    | [ta, tq, tp, leap, ref, off, disp, delay, iv, phc] =>
      let t : Tracking := ⟨(leap % 65536).toNat, ref, (off % 4294967296).toNat, (disp % 4294967296).toNat, (delay % 4294967296).toNat, (iv % 4294967296).toNat, 0⟩
      some (.poll ta tq tp (some t) phc false)
    | _ => none
  | ["poll", ta, tq, tp, "silence", g] => do
    match ← ints [ta, tq, tp, g] with
    | [ta, tq, tp, g] => some (.poll ta tq tp none 0 (g == 1))
    | _ => none
  | ["restart"] => some .restart
  | ["query", tr, tm] => do
    match ← ints [tr, tm] with
    | [tr, tm] => some (.query tr tm)
    | _ => none
  | _ => none

def parseHeader (toks : List String) : Option (Nat × Clocks) :=
  match toks with
  | rho :: t0 :: r0 :: m0 :: rest => do
    let rho ← rho.toNat?
    let t0 ← t0.toInt?; let r0 ← r0.toInt?; let m0 ← m0.toInt?
    let rec segs : List String → Option (List (Int × Int × Int))
      | [] => some []
      | "seg" :: a :: b :: c :: more => do
        let a ← a.toInt?; let b ← b.toInt?; let c ← c.toInt?
        let r ← segs more
        some ((a, b, c) :: r)
      | _ => none
    let s ← segs rest
    some (rho, ⟨t0, r0, m0, s⟩)
  | _ => none

def tsText (t : TimeSpec) : String := s!"{t.sec} {t.nsec}"
def recordText (r : Record) : String :=
  s!"rec {tsText r.asOf} {tsText r.voidAfter} {r.bound} {r.drift} {r.reserved} {r.status.code}"
def outcomeText : Outcome → String
  | .ok e l s => s!"ok {tsText e} {tsText l} {s.code}"
  | .malformed => "err SegmentMalformed"
  | .causality => "err CausalityBreach"
  | .panic => "panic"

def parseOutcome (toks : List String) : Option Outcome :=
  match toks with
  | ["ok", a, b, c, d, s] => do
    match ← ints [a, b, c, d, s] with
    | [a, b, c, d, s] => some (.ok ⟨a, b⟩ ⟨c, d⟩ (if s = 1 then .synchronized else if s = 2 then .freeRunning else .unknown))
    | _ => none
  | ["err", "SegmentMalformed"] => some .malformed
  | ["err", "CausalityBreach"] => some .causality
  | ["panic"] => some .panic
  | _ => none

/-- Boolean form of `WEvent.ok` for a poll with a reply -/
def pollOk (w : World) (ta tq tp : Int) (t : Tracking) (phc : Int) : Bool :=
  decide (ta ≤ tq) && decide (tq ≤ tp) && decide (0 ≤ phc) &&
  (classify t (w.Rc tp).floor != .synchronized ||
    (decide (absR (w.Rc tq - tq) ≤ C07.exactNs t + (phc : Rat)) && C07.applicable t phc &&
     decide (C07.exactNs t + (phc : Rat) < 1000000000000) && decide (0 ≤ (w.Mc ta).floor)))

structure St where
  d : DaemonState
  hypOk : Bool := true          -- all events so far satisfy the hypotheses of C01
  maxT : Int := 0               -- latest true time of a daemon event so far
  outs : List String := []      -- model answers, newest first
  c01 : Bool := true
  checked : Nat := 0            -- queries on which containment was evaluated with a trusted status
  tight : Nat := 0              -- … of which the true time is within 10 % of the interval's edge
  na : Nat := 0
  trusted : Nat := 0
  restarts : Nat := 0
  silences : Nat := 0
  /-- the generation word of the segment file (the model's: `genFinish ∘ genStart` per publication; a restart
      takes the segment over in place) -/
  gen : Nat := 0
  /-- the generation the implementation showed after its previous publication -/
  implGen : Option Nat := none
  /-- C11 on the implementation's generations: even, non-zero, different after every completed update -/
  c11 : Bool := true
  /-- (bound, as-of) of every record the MODEL published with a trusted status (by C09.model_holds these are
      exactly the measurement-backed ones) -/
  backed : List (Int × TimeSpec) := []
  /-- C09 on the implementation's records: a trusted status only with a measurement-backed (bound, as-of) -/
  c09 : Bool := true
  coldTemptation : Bool := false
  /-- C03 on the history's long-lived client: with no update in flight every query is answered from the latest
      completed publication (the model's answer) -/
  c03 : Bool := true
  queries : Nat := 0
deriving Inhabited

/-- `rec a b c d bound drift reserved status [@gen]`: (bound, as-of, status code, generation) -/
def parsePub (toks : List String) : Option (Int × TimeSpec × Int × Option Nat) :=
  match toks with
  | "rec" :: a :: b :: _ :: _ :: bd :: _ :: _ :: st :: rest => do
    let a ← a.toInt?; let b ← b.toInt?; let bd ← bd.toInt?; let st ← st.toInt?
    let g := match rest with
      | [g] => if g.startsWith "@" then (g.drop 1).toString.toNat? else none
      | _ => none
    some (bd, ⟨a, b⟩, st, g)
  | _ => none

def step (w : World) (implOuts : List (List String)) (s : St) (iev : Nat × Ev) : St :=
  let (i, ev) := iev
  match ev with
  | .poll ta tq tp reply phc g =>
    let we : WEvent := .poll ta tq tp reply phc g
    let hyp := match reply with
      | some t => pollOk w ta tq tp t phc
      | none => decide (ta ≤ tq) && decide (tq ≤ tp)
    let d' := s.d.step w we
    let published := d'.published.length != s.d.published.length
    let gen' := if published then genFinish (genStart s.gen) else s.gen
    let r' : Record := d'.published.headD default
    let out := if !published then "panic" else recordText r' ++ s!" @{gen'}"
    let backed' := if published && r'.status != .unknown then (r'.bound, r'.asOf) :: s.backed else s.backed
    -- the implementation's publication
    let ip := (implOuts[i]?).bind parsePub
    let c11' := match ip with
      | some (_, _, _, some g) => s.c11 && decide (g % 2 = 0) && decide (g ≠ 0) && (s.implGen != some g)
      | _ => s.c11
    let c09' := match ip with
      | some (bd, ao, st, _) => s.c09 && (st == 0 || backed'.any (fun p => p.1 == bd && p.2 == ao))
      | none => s.c09
    let cold := s.coldTemptation || (s.backed.isEmpty && published && d'.u.fsm != .unknown && backed'.isEmpty)
    { s with d := d', hypOk := s.hypOk && hyp, maxT := max s.maxT tp, outs := out :: s.outs,
             silences := s.silences + (if reply.isNone then 1 else 0), gen := gen',
             implGen := (match ip with | some (_, _, _, some g) => some g | _ => s.implGen),
             c11 := c11', backed := backed', c09 := c09', coldTemptation := cold }
  | .restart => { s with d := s.d.step w .restart, outs := "restarted" :: s.outs, restarts := s.restarts + 1 }
  | .query tr tm =>
    match s.d.published with
    | [] => { s with outs := "err open" :: s.outs }
    | r :: _ =>
      let m := clientQuery w r tr tm
      let s := { s with outs := outcomeText m :: s.outs, queries := s.queries + 1,
                        c03 := s.c03 && ((implOuts[i]?).map (String.intercalate " ")) == some (outcomeText m) }
      -- oracle on the implementation's answer
      match (implOuts[i]?).bind parseOutcome with
      | none => { s with c01 := false }
      | some o =>
        let applicable := s.hypOk && decide (s.maxT ≤ tr) && decide (tr ≤ tm) &&
          decide (0 ≤ (w.Rc tr).floor ∧ (w.Rc tr).floor < 2147483648000000000) &&
          decide ((w.Mc tm).floor < 2147483648000000000)
        if !applicable then { s with na := s.na + 1 } else
        let isTrusted := match o with | .ok _ _ st => st != .unknown | _ => false
        let isTight := match o with
          | .ok e l _ =>
            let hw : Rat := ((l.toNs - e.toNs : Int) : Rat) / 2
            let mid : Rat := ((l.toNs + e.toNs : Int) : Rat) / 2
            decide (absR ((tr : Rat) - mid) * 10 ≥ hw * 9)
          | _ => false
        { s with c01 := s.c01 && C01.Holds w tr o, checked := s.checked + 1,
                 trusted := s.trusted + (if isTrusted then 1 else 0),
                 tight := s.tight + (if isTrusted && isTight then 1 else 0) }

def splitSemi (toks : List String) : List (List String) := (toks.splitOn ";").filter (fun l => !l.isEmpty)

/-- world <rho> <t0> <r0q> <m0q> seg … ; ev ; ev …  =>  answer ; answer … -/
def line (kind : String) (args impl : List String) : Option String :=
  if kind != "world" then none else
  match splitSemi args with
  | hdr :: evT =>
    match parseHeader hdr, evT.mapM parseEv with
    | some (rho, clk), some evs =>
      let w := clk.world rho
      let good := clk.good rho && decide (rho < 1000000000)
      let implOuts := splitSemi impl
      let s0 : St := { d := { u := Updater.new rho }, hypOk := good }
      let s := (evs.zipIdx.map (fun (e, i) => (i, e))).foldl (step w implOuts) s0
      let v := (if s.checked == 0 then "C01:na" else if s.c01 then "C01:holds" else "C01:FAILS") ++
        (if s.implGen.isNone then " C11:na" else if s.c11 then " C11:holds" else " C11:FAILS") ++
        (if s.c09 then " C09:holds" else " C09:FAILS") ++
        (if s.queries == 0 then " C03:na" else if s.c03 then " C03:holds" else " C03:FAILS")
      let tags := (if s.coldTemptation then ["trustTemptation"] else []) ++ (if s.d.published.length ≥ 3 then ["pubs3"] else []) ++ (if s.trusted > 0 then ["trusted"] else []) ++ (if s.tight > 0 then ["tight"] else []) ++
        (if s.restarts > 0 then ["restart"] else []) ++ (if s.silences > 0 then ["outage"] else []) ++
        (if !s.hypOk then ["hypothesesViolated"] else []) ++ (if s.na > 0 then ["someNa"] else [])
      some s!"{String.intercalate " ; " s.outs.reverse} | {v} | {String.intercalate "," tags}"
    | _, _ => some "bad-op | C01:FAILS oracle:unparsed |"
  | _ => some "bad-op | C01:FAILS oracle:unparsed |"

end ClockBound.DriverW
