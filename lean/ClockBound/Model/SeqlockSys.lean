/-
  The composed system: one writer (possibly crashing and restarting), one arbitrary reader (readers
  never write, so one stands for any number), the shared log; every interleaving of their
  individual accesses and every admissible (stale) load result is a path of `Step`.
  Ghost fields record what was passed to `write` and what `snapshot` returned. Import-free.
-/
import ClockBound.Model.Seqlock
namespace ClockBound.SL

structure Sys where
  log : Log
  w : Writer := {}
  r : Reader := {}
  /-- ghost: records passed to `write` so far, newest first -/
  written : List (List Nat) := []
  /-- ghost: records returned by `snapshot`, newest first -/
  returned : List (List Nat) := []
deriving Repr, Inhabited

/-- the record a successful `snapshot` step hands to its caller, if any -/
def returnedBy (res : Option RResult) : Option (List Nat) :=
  match res with
  | some (.ok c) => some c
  | _ => none

inductive Step (a : Ann) : Sys → Sys → Prop
  /-- `ShmWriter::new` by a (new) writer process over a usable segment: only the version store follows -/
  | wNew (s : Sys) (h : s.w.pc = .idle) :
      Step a s { s with w := { pc := .newVersion, relFence := 0 } }
  /-- a call of `write(rec)` -/
  | wWrite (s : Sys) (rec : List Nat) (h : s.w.pc = .idle) (hl : rec.length = N) :
      Step a s { s with w := { s.w with pc := .loadGen rec }, written := rec :: s.written }
  /-- one shared access of the writer -/
  | wStep (s : Sys) (pick : Nat) (h : s.w.pc ≠ .idle) :
      Step a s { s with log := (wStep a s.log s.w pick).1, w := (wStep a s.log s.w pick).2.1 }
  /-- the writer process dies, at any point -/
  | wKill (s : Sys) : Step a s { s with w := {} }
  /-- the reader (re)opens the segment: a new reader with an empty cache and no knowledge -/
  | rOpen (s : Sys) (h : s.r.pc = .idle) : Step a s { s with r := {} }
  /-- a call of `snapshot()` -/
  | rCall (s : Sys) (h : s.r.pc = .idle) : Step a s { s with r := s.r.call }
  /-- one shared access of the reader, with any choice among the admissible messages -/
  | rStep (s : Sys) (pickCell pickMsg : Nat) (h : s.r.pc ≠ .idle) :
      Step a s { s with r := (rStep a s.log s.r pickCell pickMsg).1,
                        returned := match returnedBy (rStep a s.log s.r pickCell pickMsg).2.1 with
                          | some c => c :: s.returned
                          | none => s.returned }

inductive Reachable (a : Ann) (s0 : Sys) : Sys → Prop
  | refl : Reachable a s0 s0
  | step {s t : Sys} : Reachable a s0 s → Step a s t → Reachable a s0 t

/-- a segment file as the first process finds it -/
def Sys.init (version gen : Nat) (cells : List Nat) : Sys := { log := initBlock version gen cells }

def isEvenGen (m : Msg) : Bool := m.loc == .gen && m.val % 2 == 0

/-- number of even generation messages with index in (i, j] -/
def evenGenBetween (log : Log) (i j : Nat) : Nat :=
  ((List.range (j + 1)).filter (fun k => decide (i < k) && ((log[k]?.map isEvenGen).getD false))).length

/-- completed updates in the whole history -/
def completedUpdates (log : Log) : Nat := (log.filter isEvenGen).length

/-- the record in the segment as of message index `i`: the last store to each cell before `i` -/
def pubCells (log : Log) (i : Nat) : List Nat :=
  (List.range N).map (fun c => match lastBefore log (.cell c) i with
    | some j => (log[j]?.map (·.val)).getD 0
    | none => 0)

def zerosN : List Nat := List.replicate N 0

/-- a reader view that is consistent with the log: it knows nothing beyond the end of the log and
    its coherence bounds point at or before the newest message of each location -/
def ViewOk (log : Log) (v : View) : Prop :=
  v.cur ≤ log.length ∧ v.acq ≤ log.length ∧
  ∀ x j, lastBefore log x log.length = some j → v.cohOf x ≤ j

end ClockBound.SL
