/-
  C15 — the three threads of `Model/Threads.lean` as sequential programs (closed forms).

  `Model/Threads.lean` gives each thread a step function on the global state (`stepMain`, `stepPoller`,
  `stepWriter`, and the `step` cases `mainAbort`, `pollerTimeout`, `pollerClockFail`, `*Die`).  The translation
  tie (`Properties/CodeTieThreads.lean`) looks at ONE thread at a time: the Rust function of that thread,
  run against what its `recv()/send()/join()` calls return, performs a sequence of channel operations.
  This file names those operations (`MainOp`, `PollerOp`, `WriterOp`), gives each thread's control flow as a
  function on its program counter alone (`mainNext`, `pollerNext`, `writerNext`), and says which global
  step an operation is (`mainDo`, `pollerDo`, `writerDo`: defined BY the step functions of the model).
  `Properties/ThreadsProg.lean` proves that the two agree and that the closed-form programs (`mainProg`, ...)
  run the model thread to its end.  Import-free apart from the model.
-/
import ClockBound.Model.Threads
namespace ClockBound.ThreadsProg
open ClockBound.Threads

/-! ### main -/

/-- an operation of the main thread: `mbox.recv()` returned `m`; `ThreadAbort` sent to worker `w`'s channel;
    the handle of worker `w` joined -/
inductive MainOp
  | recv (m : Msg)
  | abort (w : Worker)
  | join (w : Worker)
deriving DecidableEq, Repr

def other : Worker → Worker
  | .poller => .writer
  | .writer => .poller

/-- main's control flow on its program counter: what `stepMain` / `step _ (.mainAbort w)` do to `State.m` -/
def mainNext : MainPc → MainOp → Option MainPc
  | .loop, .recv m => some (if m.isNotice then .bcast0 else .loop)
  | .bcast0, .abort .poller => some .bcastP
  | .bcast0, .abort .writer => some .bcastW
  | .bcastP, .abort .writer => some .joinP
  | .bcastW, .abort .poller => some .joinP
  | .joinP, .join .poller => some .joinW
  | .joinW, .join .writer => some .returned
  | _, _ => none

def mainNexts : MainPc → List MainOp → Option MainPc
  | pc, [] => some pc
  | pc, op :: rest => match mainNext pc op with
    | some pc' => mainNexts pc' rest
    | none => none

/-- the operation as a step of the model: it is the step `stepMain` / `step` takes in this state, and it is
    only accepted when it is the operation the model performs there (`recv m`: `m` is the head of main's queue) -/
def mainDo (s : State) : MainOp → Option State
  | .recv m => if s.m = .loop ∧ s.qM.head? = some m then stepMain s else none
  | .abort w =>
    if s.m = .bcast0 then step s (.mainAbort w)
    else if (s.m = .bcastP ∧ w = .writer) ∨ (s.m = .bcastW ∧ w = .poller) then stepMain s else none
  | .join .poller => if s.m = .joinP then stepMain s else none
  | .join .writer => if s.m = .joinW then stepMain s else none

def mainRun : State → List MainOp → Option State
  | s, [] => some s
  | s, op :: rest => match mainDo s op with
    | some s' => mainRun s' rest
    | none => none

/-- THE main program: receive and ignore `ignored` (no notice among them), receive the notice, send Abort to the
    two workers (`first` first), join the poller's handle, join the writer's handle (then `run` returns) -/
def mainProg (ignored : List Msg) (notice : Msg) (first : Worker) : List MainOp :=
  ignored.map .recv ++ [.recv notice, .abort first, .abort (other first), .join .poller, .join .writer]

/-! ### a worker's Context drop (both workers) -/

/-- `Drop for Context`: one send of the notice `k` to main's channel (its outcome does not matter) -/
def dropNextP : PollerPc → Kind → Option PollerPc
  | .exiting k, k' => if k = k' then some .dropping else none
  | _, _ => none

def dropNextW : WriterPc → Kind → Option WriterPc
  | .exiting k, k' => if k = k' then some .dropping else none
  | _, _ => none

/-! ### poller -/

/-- an operation of the poller thread: start-up (`ClockErrorBoundPoller::default()`); the clock read (ok / failed);
    the chrony query; the send of the poll outcome to the writer's channel (ok / failed); the mailbox check
    (`recv_timeout`: a message, or `none` for a time-out) -/
inductive PollerOp
  | init
  | clock (ok : Bool)
  | query
  | send (ok : Bool)
  | wait (m : Option Msg)
deriving DecidableEq, Repr

/-- the poller's control flow: what `stepPoller`, `pollerClockFail`, `pollerTimeout` do to `State.p` -/
def pollerNext : PollerPc → PollerOp → Option PollerPc
  | .start, .init => some .top
  | .top, .clock true => some .query
  | .top, .clock false => some .wait
  | .query, .query => some .send
  | .send, .send true => some .wait
  | .send, .send false => some (.exiting .panic)
  | .wait, .wait none => some .top
  | .wait, .wait (some m) => some (if m = .abort then .exiting .terminate else .top)
  | _, _ => none

def pollerNexts : PollerPc → List PollerOp → Option PollerPc
  | pc, [] => some pc
  | pc, op :: rest => match pollerNext pc op with
    | some pc' => pollerNexts pc' rest
    | none => none

/-- the operation as a step of the model -/
def pollerDo (s : State) : PollerOp → Option State
  | .init => if s.p = .start then stepPoller s else none
  | .clock true => if s.p = .top then stepPoller s else none
  | .clock false => step s .pollerClockFail
  | .query => if s.p = .query then stepPoller s else none
  | .send ok => if s.p = .send ∧ s.rxW = ok then stepPoller s else none
  | .wait none => step s .pollerTimeout
  | .wait (some m) => if s.p = .wait ∧ s.qP.head? = some m then stepPoller s else none

/-- one iteration of the poller's loop: the clock read; if it succeeded the query and a successful send; the
    mailbox check with a result that is not Abort -/
structure PollerIter where
  clockOk : Bool
  wait : Option Msg
deriving DecidableEq, Repr

def PollerIter.ops (it : PollerIter) : List PollerOp :=
  (if it.clockOk then [.clock true, .query, .send true] else [.clock false]) ++ [.wait it.wait]

/-- how the poller's loop ends: it receives Abort at the mailbox check (after an iteration whose clock read
    succeeded or not), or its send to the writer fails -/
inductive PollerEnd
  | abort (clockOk : Bool)
  | sendFailed
deriving DecidableEq, Repr

def PollerEnd.ops : PollerEnd → List PollerOp
  | .abort true => [.clock true, .query, .send true, .wait (some .abort)]
  | .abort false => [.clock false, .wait (some .abort)]
  | .sendFailed => [.clock true, .query, .send false]

def PollerEnd.kind : PollerEnd → Kind
  | .abort _ => .terminate
  | .sendFailed => .panic

/-- THE poller program, from its entry function to the point where its Context is dropped -/
def pollerProg (its : List PollerIter) (e : PollerEnd) : List PollerOp :=
  .init :: (its.flatMap PollerIter.ops ++ e.ops)

/-! ### writer -/

/-- an operation of the writer thread: `ShmWriter::new` (ok / failed: the thread panics), `ShmUpdater::new`, a
    receive (`mbox.recv()` returned `m`), the death while handling a message (`process_*` panicked) -/
inductive WriterOp
  | open_ (ok : Bool)
  | init
  | recv (m : Msg)
  | handlerPanic
deriving DecidableEq, Repr

/-- the writer's control flow: what `stepWriter` and `writerDie .panic` do to `State.w` -/
def writerNext : WriterPc → WriterOp → Option WriterPc
  | .start, .open_ true => some .opened
  | .start, .open_ false => some (.exiting .panic)
  | .opened, .init => some .recv
  | .recv, .recv m => some (if m = .abort then .exiting .terminate else .recv)
  | .recv, .handlerPanic => some (.exiting .panic)
  | _, _ => none

def writerNexts : WriterPc → List WriterOp → Option WriterPc
  | pc, [] => some pc
  | pc, op :: rest => match writerNext pc op with
    | some pc' => writerNexts pc' rest
    | none => none

/-- the operation as a step of the model (`ShmWriter::new` failing and a panic of the message handler are the
    model's `writerDie .panic` at `start` resp. `recv`) -/
def writerDo (s : State) : WriterOp → Option State
  | .open_ true => if s.w = .start then stepWriter s else none
  | .open_ false => if s.w = .start then step s (.writerDie .panic) else none
  | .init => if s.w = .opened then stepWriter s else none
  | .recv m => if s.w = .recv ∧ s.qW.head? = some m then stepWriter s else none
  | .handlerPanic => if s.w = .recv then step s (.writerDie .panic) else none

/-- how the writer ends: Abort received, `ShmWriter::new` failed, or the handler of the last message panicked -/
inductive WriterEnd
  | abort
  | openFailed
  | handlerPanic (m : Msg)
deriving DecidableEq, Repr

def WriterEnd.kind : WriterEnd → Kind
  | .abort => .terminate
  | _ => .panic

/-- THE writer program, from its entry function to the point where its Context is dropped; `handled` are the
    messages received and handled before the end (none of them Abort) -/
def writerProg (handled : List Msg) : WriterEnd → List WriterOp
  | .openFailed => [.open_ false]
  | .abort => [.open_ true, .init] ++ handled.map .recv ++ [.recv .abort]
  | .handlerPanic m => [.open_ true, .init] ++ handled.map .recv ++ [.recv m, .handlerPanic]

end ClockBound.ThreadsProg
