/-
  `ShmWriter::new` (with `is_usable_segment`, `wipe`, `mmap_segment_at` inlined) as the list of the
  STATE-CHANGING operations it performs on the segment file and the mapping, in the shape the Rust source has,
  for a prior file state abstracted as `Crash.FileA`.  `Properties/WriterNewProg.lean` proves that these
  operations, read as the events the crash shim reports, are the `new` part of `Crash.script` (the named
  events of `ShmWriter::new` + first `write` that the C04 crash sweep is about).  The translation tie
  (`Properties/CodeTieWriterNew.lean`) targets `newOps`.  Import-free apart from Model files.
-/
import ClockBound.Model.Crash
import ClockBound.Model.Header
namespace ClockBound.Crash
open ClockBound

/-- a state-changing operation of start-up; a header write carries the event it is reported as (its ROLE:
    the two `write_u16(0)` are distinguished by position only) -/
inductive Op
  | createDirAll                       -- `fs::create_dir_all(parent)` (only for a path with a parent directory)
  | create                             -- `File::create(path)`: create or truncate
  | writeU32 (role : Ev) (v : Nat)     -- `file.write_u32::<NativeEndian>(v)`
  | writeU16 (role : Ev) (v : Nat)     -- `file.write_u16::<NativeEndian>(v)`
  | writeAll (n : Nat)                 -- `file.write_all(&vec![0; n])`
  | syncAll                            -- `file.sync_all()`
  | setLen (n : Nat)                   -- `OpenOptions::new().write(true).open(path)?.set_len(n)`
  | storeVersion (v : Nat)             -- `version.store(v, Relaxed)` through the mapping
deriving Repr, BEq, DecidableEq, Inhabited

/-- the operations of `ShmWriter::new` on a prior file `f` (`hasParent`: the path has a non-empty parent
    directory), every operation succeeding: a usable segment is kept (grown to 72 bytes if the file is
    shorter), anything else is re-created by `wipe`; then the version is stored through the mapping -/
def newOps (f : FileA) (hasParent : Bool) : List Op :=
  (if f.usable then (if f.len < SEGMENT_SIZE then [.setLen SEGMENT_SIZE] else [])
   else
    (if hasParent then [.createDirAll] else []) ++
    [.create, .writeU32 .wipeMagic0 MAGIC0, .writeU32 .wipeMagic1 MAGIC1, .writeU32 .wipeSegsize SEGMENT_SIZE,
     .writeU16 .wipeVersion 0, .writeU16 .wipeGeneration 0, .writeAll (SEGMENT_SIZE - HEADER_SIZE), .syncAll]) ++
  [.storeVersion 1]

/-- the event of `Crash.script` an operation is reported as (`create_dir_all` and `set_len` have no event of
    their own: `wipe:dirs` is reported whether or not a directory was created, the grow-in-place is between
    `new:start` and `new:checked`) -/
def Op.ev : Op → Option Ev
  | .createDirAll => none
  | .create => some .wipeCreated
  | .writeU32 role _ => some role
  | .writeU16 role _ => some role
  | .writeAll _ => some .wipeZeroed
  | .syncAll => some .wipeSynced
  | .setLen _ => none
  | .storeVersion _ => some .storeVersion

/-- the events of `Crash.script` that report an operation on the file or the mapping (the others are
    progress points — `new:start`, `wipe:dirs`, `new:checked`, `new:mapped`, `new:versioned` — and the loads
    of `is_valid` on its private header copy) -/
def Ev.isOp : Ev → Bool
  | .wipeCreated | .wipeMagic0 | .wipeMagic1 | .wipeSegsize | .wipeVersion | .wipeGeneration | .wipeZeroed
  | .wipeSynced | .storeVersion => true
  | _ => false

/-- the part of `script` that belongs to `ShmWriter::new` (up to `new:versioned`) -/
def newScript (f : FileA) : List Ev :=
  [.newStart] ++ List.replicate (hdrLoads f) .hdrLoad ++
  (if f.usable then [] else
    [.wipeDirs, .wipeCreated, .wipeMagic0, .wipeMagic1, .wipeSegsize, .wipeVersion, .wipeGeneration,
     .wipeZeroed, .wipeSynced]) ++
  [.newChecked, .newMapped, .storeVersion, .newVersioned]

/-- … and the part that belongs to the first `write` -/
def writeScript : List Ev := [.loadGen, .storeGenOdd, .fence, .copy, .storeGenEven, .done]

/-- the prior file as `Crash.FileA`, from the state of the path (`Model/Header.lean`) -/
def fileAOf : FileState → FileA
  | .file bs =>
    let h := parseHeader bs
    { present := true, len := bs.length, magic0 := decide (h.magic0 = MAGIC0), magic1 := decide (h.magic1 = MAGIC1),
      size := h.segsize, version := h.version, gen := h.generation }
  | _ => {}

end ClockBound.Crash
