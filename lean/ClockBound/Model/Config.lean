/-
  Start-up configuration of the PHC path (clock-bound-d/src/lib.rs `refid_to_u32`, main.rs): the reference id typed on
  the command line becomes the number the poller compares with `tracking.ref_id`.  `phcrun` lines run the RELEASE daemon
  binary end to end (tools/phc_run.sh): a stand-in chronyd reports the fixed measurement `fakeTracking` with a given reference
  id, the PHC's error-bound attribute holds a given value; the first trusted record is observed.  Import-free apart from Model files.
-/
import ClockBound.Model.Poller
import ClockBound.Model.OraclesD
namespace ClockBound

/-- `refid_to_u32`: at most four ASCII bytes, packed big-endian (right-aligned); anything else is refused -/
def refidOf (bs : List Nat) : Option Nat :=
  if bs.length ≤ 4 ∧ bs.all (· < 128) then some (bs.foldl (fun a b => a * 256 + b) 0) else none

/-- the report of the stand-in chronyd (`cbharness fakechronyd`): leap 0, reference time = now, fixed offset / dispersion / delay words -/
def fakeTracking (refid : Nat) : Tracking :=
  { leap := 0, refNs := 0, offW := 0x020a0000, dispW := 0x04b00000, delayW := 0x06c00000, intervalW := 176160768, refid := refid }

namespace C13

/-- the bound of the first trusted record: the report's bound, plus the PHC bound exactly when the configured id is the report's.
    `phc = none`: the attribute does not parse as an integer — when the PHC is the reference the report is not used as a measurement
    (the poller thread panics and the daemon stops), so there is no trusted record (`none`) -/
def phcExpected (cfg : List Nat) (chrony : Nat) (phc : Option Int) : Option Int :=
  (refidOf cfg).bind fun r =>
    if refMatches (some r) (fakeTracking chrony) then phc.map (boundF (fakeTracking chrony) + ·)
    else some (boundF (fakeTracking chrony))

/-- the id with the missing characters as trailing zero bytes (chronyd's own packing of a short `refid` directive) -/
def refidLeft (bs : List Nat) : Nat := (bs ++ List.replicate (4 - bs.length) 0).foldl (fun a b => a * 256 + b) 0

/-- does the configured id denote the reported one?  For four characters the packing is unambiguous.  For fewer, the code packs
    right-aligned and chronyd left-aligned; which of the two "the configured id matches the report's" means is not settled by the
    property, so a report carrying either packing is left unconstrained (`none`); any other report does not match. -/
def idMatches (cfg : List Nat) (r chrony : Nat) : Option Bool :=
  if cfg.length = 4 then some (r == chrony)
  else if chrony == r || chrony == refidLeft cfg then none else some false

/-- oracle of a `phcrun` line on what the daemon published (`none` = it published nothing trusted / exited).  A configured id that
    is no reference id at all is not constrained.  Otherwise the record must be Synchronized and its bound must be the C07 bound WITH
    the PHC value if the ids match, and the C07 bound WITHOUT it if they do not (`C07.Holds` is two-sided, so for a PHC value above
    the rounding slack the two are exclusive).  `phc = none`: the attribute is not a number -/
def HoldsPhcRun (cfg : List Nat) (chrony : Nat) (phc : Option Int) (pub : Option (Int × Int)) : Bool :=
  match refidOf cfg with
  | none => true
  | some r =>
    let plain : Bool := match pub with
      | some (b, st) => st == 1 && C07.Holds (fakeTracking chrony) 0 b
      | none => false
    match phc with
    | some p =>
      (match pub with
       | some (b, st) =>
         st == 1 &&
         (match idMatches cfg r chrony with
          | some true => C07.Holds (fakeTracking chrony) p b
          | some false => C07.Holds (fakeTracking chrony) 0 b
          | none => C07.Holds (fakeTracking chrony) p b || C07.Holds (fakeTracking chrony) 0 b)
       | none => false)
    | none =>
      -- the attribute cannot be read as a number: with the PHC as reference the report must not become a measurement
      (match idMatches cfg r chrony with
       | some true => pub.isNone
       | some false => plain
       | none => pub.isNone || plain)

end C13
end ClockBound
