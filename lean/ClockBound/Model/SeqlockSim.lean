/-
  Scenario replay for the seqlock model: the harness runs the real `ShmWriter` / `ShmReader` as
  threads under a deterministic scheduler and a release/acquire view memory, and prints the
  scenario, the schedule it took and the trace it observed. This file re-executes the same scenario
  and schedule on the model (`wStep`, `rStep`) and produces the trace the model predicts; it also
  evaluates the C02 / C03 / C04 / C18 oracles on the *implementation's* trace.  Import-free.

  request : sl <init> ; <thread> ; <thread> … ; S <entry> <entry> …
     init   : fresh | wiped | valid <gen> <k>
     thread : W <op>… [/ <op>…]…      ops n | w<k>        (`/` separates writer incarnations)
            | R <op>…                 ops o | s
     entry  : <tid>:<pickCell>:<pickMsg>   one step of thread <tid>   |   <tid>:X  (kill the writer)
  answer  : ann <9 orderings> ; <token> <token> …      tokens `<tid>|<what>`
-/
import ClockBound.Model.Seqlock
namespace ClockBound.SL
open ClockBound

def Ord.ofShort : String → Option Ord
  | "X" => some .relaxed | "A" => some .acquire | "R" => some .release | "AR" => some .acqrel
  | "SC" => some .seqcst | _ => none

def optOrdShort : Option Ord → String
  | none => "-" | some o => o.short

/-- the record passed to the k-th `write`: every cell names k, so mixtures are recognisable;
    cell 6 holds the status code (only 0..2 are valid enum values).
    Record number k; every seventh one (k % 7 = 3) has the shape of what a freshly restarted daemon
    publishes before chronyd has answered: as-of 0/0, void-after 1000/0, bound 0, status Unknown -/
def recCells (k : Nat) : List Nat :=
  if k % 7 = 3 then [0, 0, 1000, 0, 0, k, 0]
  else (List.range 6).map (fun i => k * 8 + i + 1) ++ [k % 3]

def zeros : List Nat := List.replicate N 0

inductive Init | fresh | wiped | valid (gen k : Nat)
deriving Repr, BEq, DecidableEq, Inhabited

inductive Op | new | write (k : Nat) | open_ | snap
deriving Repr, BEq, DecidableEq, Inhabited

structure ThreadScript where
  isWriter : Bool
  incarnations : List (List Op)     -- readers have exactly one
deriving Repr, Inhabited

inductive Entry | step (tid pickCell pickMsg : Nat) | kill (tid : Nat)
deriving Repr, BEq, DecidableEq, Inhabited

structure Scenario where
  init : Init
  threads : List ThreadScript
  sched : List Entry
deriving Repr, Inhabited

/-! ### parsing -/

def parseOp (s : String) : Option Op :=
  if s == "n" then some .new else if s == "o" then some .open_ else if s == "s" then some .snap
  else if s.startsWith "w" then (s.drop 1).toNat?.map Op.write else none

def parseThread (toks : List String) : Option ThreadScript :=
  match toks with
  | "W" :: rest => do
    let incs ← (rest.splitOn "/").mapM (fun l => l.mapM parseOp)
    some ⟨true, incs⟩
  | "R" :: rest => do
    let ops ← rest.mapM parseOp
    some ⟨false, [ops]⟩
  | _ => none

def parseEntry (s : String) : Option Entry :=
  match s.splitOn ":" with
  | [t, "X"] => t.toNat?.map Entry.kill
  | [t, a, b] => do some (.step (← t.toNat?) (← a.toNat?) (← b.toNat?))
  | _ => none

def parseInit (toks : List String) : Option Init :=
  match toks with
  | ["fresh"] => some .fresh
  | ["wiped"] => some .wiped
  | ["valid", g, k] => do some (.valid (← g.toNat?) (← k.toNat?))
  | _ => none

def parseScenario (toks : List String) : Option Scenario :=
  match (toks.splitOn ";").filter (fun l => !l.isEmpty) with
  | initT :: rest =>
    match rest.reverse with
    | ("S" :: schedT) :: thrRev => do
      let init ← parseInit initT
      let threads ← thrRev.reverse.mapM parseThread
      let sched ← schedT.mapM parseEntry
      some ⟨init, threads, sched⟩
    | _ => none
  | _ => none

def parseAnn (toks : List String) : Option Ann :=
  match toks with
  | [a, b, c, d, e, f, g, h, i] => do
    let fo (s : String) : Option (Option Ord) := if s == "-" then some none else (Ord.ofShort s).map some
    some { wLoad := ← Ord.ofShort a, wStore1 := ← Ord.ofShort b, wFence := ← fo c, wStore2 := ← Ord.ofShort d,
           wVersion := ← Ord.ofShort e, rVersion := ← Ord.ofShort f, rGen1 := ← Ord.ofShort g,
           rFence := ← fo h, rGen2 := ← Ord.ofShort i }
  | _ => none

def Ann.text (a : Ann) : String :=
  String.intercalate " " [a.wLoad.short, a.wStore1.short, optOrdShort a.wFence, a.wStore2.short,
    a.wVersion.short, a.rVersion.short, a.rGen1.short, optOrdShort a.rFence, a.rGen2.short]

/-! ### simulation -/

structure ThreadState where
  script : ThreadScript
  inc : Nat := 0                 -- current incarnation (writers)
  opIdx : Nat := 0               -- next op of the current incarnation
  curOp : Option Op := none      -- op in progress
  w : Writer := {}
  r : Reader := {}
  attached : Bool := false       -- reader: `open` succeeded
  dead : Bool := false           -- writer incarnation killed, waiting for restart (next step starts it)
  callNo : Nat := 0              -- reader: number of `snapshot` calls started
  callFresh : Bool := true       -- reader: every load of the current call read the newest message
deriving Repr, Inhabited

structure Sim where
  log : Log
  threads : List ThreadState
  trace : List String := []      -- newest first
  fresh : List (Nat × Nat) := [] -- (tid, callNo) of calls all of whose loads were fresh
deriving Repr, Inhabited

def initLog : Init → Log
  | .fresh => initBlock 0 0 zeros
  | .wiped => initBlock 0 0 zeros
  | .valid g k => initBlock 1 g (recCells k)

def shortTok (s : String) : String :=
  -- machine tokens use `repr` of orderings; normalise to the short names
  (((((s.replace "ClockBound.SL.Ord.relaxed" "X").replace "ClockBound.SL.Ord.acquire" "A").replace
    "ClockBound.SL.Ord.release" "R").replace "ClockBound.SL.Ord.acqrel" "AR").replace
    "ClockBound.SL.Ord.seqcst" "SC")

def cellsText (cs : List Nat) : String := String.intercalate "," (cs.map toString)

/-- file-level validity as `ShmReader::new` / `is_usable_segment` see it (magic and size are intact
    in these scenarios): version ≠ 0 and generation ≠ 0 -/
def fileValid (log : Log) : Bool := latest log .version != 0 && latest log .gen != 0

def emit (s : Sim) (tid : Nat) (tok : String) : Sim := { s with trace := s!"{tid}|{tok}" :: s.trace }

def setThread (s : Sim) (tid : Nat) (t : ThreadState) : Sim := { s with threads := s.threads.set tid t }

/-- one schedule entry -/
def simStep (a : Ann) (s : Sim) : Entry → Sim
  | .kill tid =>
    match s.threads[tid]? with
    | none => s
    | some t =>
      if !t.script.isWriter then s else
      -- a writer that has finished its script is no longer running: nothing to kill
      if t.curOp.isNone && t.opIdx ≥ (t.script.incarnations[t.inc]?.getD []).length then s else
      let t' := { t with inc := t.inc + 1, opIdx := 0, curOp := none, w := {}, dead := false }
      emit (setThread s tid t') tid "crash"
  | .step tid pc pm =>
    match s.threads[tid]? with
    | none => s
    | some t =>
      match t.curOp with
      | none =>
        -- start the next op of the script
        match (t.script.incarnations[t.inc]?.getD [])[t.opIdx]? with
        | none => emit s tid "done"
        | some op =>
          let t1 := { t with opIdx := t.opIdx + 1 }
          match op with
          | .new =>
            -- `ShmWriter::new`: usable segment ⇒ taken over in place; otherwise wiped (no reader can
            -- be attached to an unusable segment, so the wipe adds no messages: the initial block
            -- of `fresh`/`wiped` scenarios already is the wiped state)
            let s1 := emit s tid "call:n"
            setThread s1 tid { t1 with curOp := some .new, w := { pc := .newVersion, relFence := 0 } }
          | .write k =>
            let s1 := emit s tid s!"call:w:{k}"
            setThread s1 tid { t1 with curOp := some (.write k), w := { t1.w with pc := .loadGen (recCells k) } }
          | .open_ =>
            if fileValid s.log then
              setThread (emit s tid "open:ok") tid { t1 with attached := true, r := {} }
            else
              setThread (emit s tid "open:err") tid { t1 with attached := false }
          | .snap =>
            if t1.attached then
              let t2 : ThreadState := { t1 with curOp := some Op.snap, r := Reader.call t1.r }
              setThread (emit s tid "call:s") tid { t2 with callNo := t1.callNo + 1, callFresh := true }
            else
              setThread (emit s tid "skip") tid t1
      | some op =>
        if t.script.isWriter then
          let (log', w', tok) := wStep a s.log t.w pc
          let s1 := emit { s with log := log' } tid (shortTok tok)
          if w'.pc == .idle then
            let s2 := emit s1 tid (match op with | .write k => s!"ret:w:{k}" | _ => "ret:n")
            setThread s2 tid { t with w := w', curOp := none }
          else setThread s1 tid { t with w := w' }
        else
          let (r', res, tok) := rStep a s.log t.r pc pm
          let s1 := emit s tid (shortTok tok)
          let t := { t with callFresh := t.callFresh && pm == 0 }
          let done (s : Sim) : Sim := if t.callFresh then { s with fresh := (tid, t.callNo) :: s.fresh } else s
          match res with
          | none => setThread s1 tid { t with r := r' }
          | some (.ok cells) => done (setThread (emit s1 tid s!"ret:ok:{cellsText cells}") tid { t with r := r', curOp := none })
          | some .errNotInit => done (setThread (emit s1 tid "ret:err") tid { t with r := r', curOp := none })

def simulate (a : Ann) (sc : Scenario) : List String × List (Nat × Nat) :=
  let s0 : Sim := { log := initLog sc.init, threads := sc.threads.map (fun ts => { script := ts }) }
  let s := sc.sched.foldl (simStep a) s0
  (s.trace.reverse, s.fresh)

/-! ### oracles over an observed trace -/

structure Tok where
  tid : Nat
  what : List String      -- split at ':'
deriving Repr, Inhabited

def parseTok (s : String) : Option Tok :=
  match s.splitOn "|" with
  | [t, w] => t.toNat?.map (fun n => ⟨n, w.splitOn ":"⟩)
  | _ => none

def parseCells (s : String) : Option (List Nat) := (s.splitOn ",").mapM String.toNat?

/-- publication index of a record: 0 = empty initial record of the reader, 1 = the pre-existing
    segment's record, 2 + position among completed writes otherwise; `none` = not a published record -/
def pubIndex (init : Init) (completed : List Nat) (cells : List Nat) : Option Nat :=
  if cells == zeros then some 0 else
  match init with
  | .valid _ k0 => if cells == recCells k0 then some 1 else pubOf completed cells
  | _ => pubOf completed cells
where
  pubOf (completed : List Nat) (cells : List Nat) : Option Nat :=
    (completed.findIdx? (fun k => recCells k == cells)).map (· + 2)

structure OState where
  completed : List Nat := []                 -- ks of completed writes, oldest first
  writerBusy : Bool := false                 -- an update is in flight (or was interrupted)
  lastIdx : List (Nat × Nat) := []           -- reader ↦ publication index of its last return
  steps : List (Nat × Nat) := []             -- reader ↦ accesses in its current call
  quiet : List (Nat × Bool) := []            -- reader ↦ no writer token since its call started
  idleAtCall : List (Nat × Bool) := []       -- reader ↦ writer was idle when the call started
  cacheGen : List (Nat × Nat) := []          -- reader ↦ generation of its cached snapshot
  genLoads : List (Nat × List Nat) := []     -- reader ↦ generation values loaded in this call (newest first)
  callNo : List (Nat × Nat) := []            -- reader ↦ number of `snapshot` calls started
  open_ : List (Nat × Bool) := []            -- reader ↦ inside a call
  liveGen : Nat := 0
  liveVersion : Nat := 0
  c02 : Bool := true
  c03 : Bool := true
  c03catch : Bool := true
  c18 : Bool := true
  torn : Nat := 0
  catchChecks : Nat := 0
  calls : Nat := 0
  retries : Nat := 0
  crashes : Nat := 0
  overlapped : Nat := 0                      -- calls during which the writer moved
deriving Repr, Inhabited

def look (l : List (Nat × α)) (k : Nat) (d : α) : α := ((l.find? (fun p => p.1 == k)).map (·.2)).getD d
def put (l : List (Nat × α)) (k : Nat) (v : α) : List (Nat × α) := (k, v) :: l.filter (fun p => p.1 != k)

def initState (init : Init) : OState :=
  match init with
  | .valid g _ => { liveGen := g, liveVersion := 1 }
  | _ => {}

/-- evaluate the oracles on one token of a trace; `freshCall tid n` says whether every load of the
    reader's n-th call returned the newest message (needed for the catch-up clause; it is a
    property of the schedule, computed by the replay) -/
def oracleStep (init : Init) (isWriter : Nat → Bool) (freshCall : Nat → Nat → Bool) (o : OState) (t : Tok) : OState :=
  if isWriter t.tid then
    let o := { o with quiet := o.quiet.map (fun p => (p.1, false)) }
    match t.what with
    | ["call", "w", _] => { o with writerBusy := true }
    | ["ret", "w", k] => { o with writerBusy := false, completed := o.completed ++ [k.toNat?.getD 0] }
    | ["crash"] => { o with crashes := o.crashes + 1 }
    | ["S", "g", _, v] => { o with liveGen := v.toNat?.getD 0 }
    | ["S", "v", _, v] => { o with liveVersion := v.toNat?.getD 0 }
    | _ => o
  else
    let bump (o : OState) : OState := { o with steps := put o.steps t.tid (look o.steps t.tid 0 + 1) }
    let finish (o : OState) : OState :=
      { o with c18 := o.c18 && decide (look o.steps t.tid 0 ≤ stepBound), open_ := put o.open_ t.tid false,
               overlapped := o.overlapped + (if look o.quiet t.tid true then 0 else 1) }
    match t.what with
    | ["open", _] =>
      -- a (re)opened reader is a new reader: empty cache, nothing returned yet
      { o with lastIdx := put o.lastIdx t.tid 0, cacheGen := put o.cacheGen t.tid 0 }
    | ["call", "s"] =>
      { o with calls := o.calls + 1, steps := put o.steps t.tid 0, quiet := put o.quiet t.tid true,
               idleAtCall := put o.idleAtCall t.tid (!o.writerBusy), genLoads := put o.genLoads t.tid [],
               callNo := put o.callNo t.tid (look o.callNo t.tid 0 + 1), open_ := put o.open_ t.tid true }
    | ["L", "g", _, v] =>
      let gl := look o.genLoads t.tid []
      bump { o with genLoads := put o.genLoads t.tid ((v.toNat?.getD 0) :: gl),
                    retries := o.retries + (if gl.length ≥ 2 then 1 else 0) }
    | "L" :: _ => bump o
    | "F" :: _ => bump o
    | ["ret", "ok", cs] =>
      let cells := (parseCells cs).getD []
      let o := finish o
      match pubIndex init o.completed cells with
      | none => { o with c02 := false, torn := o.torn + 1 }
      | some i =>
        let prev := look o.lastIdx t.tid 0
        let o := { o with c03 := o.c03 && decide (prev ≤ i), lastIdx := put o.lastIdx t.tid i }
        -- catch-up: writer idle during the whole call, all loads fresh ⇒ latest completed publication,
        -- unless the cached generation coincides with the live one (documented exception)
        let latestIdx := if o.completed.isEmpty then (match init with | .valid _ _ => 1 | _ => 0)
                         else o.completed.length + 1
        let applicable := look o.quiet t.tid false && look o.idleAtCall t.tid false &&
          freshCall t.tid (look o.callNo t.tid 0) &&
          o.liveGen % 2 == 0 && o.liveGen != 0 && o.liveVersion != 0 && look o.cacheGen t.tid 0 != o.liveGen
        let o := if applicable then { o with catchChecks := o.catchChecks + 1, c03catch := o.c03catch && i == latestIdx } else o
        -- an accepted fresh read (≥ 2 generation loads, the last two equal) updates the cached generation
        match look o.genLoads t.tid [] with
        | g2 :: _ :: _ => { o with cacheGen := put o.cacheGen t.tid g2 }
        | _ => o
    | ["ret", "err"] => finish o
    | _ => o

/-- every call that started has returned -/
def allReturned (o : OState) : Bool := o.open_.all (fun p => !p.2)

end ClockBound.SL
