/-
  Any number of readers. Readers never write to the shared log, so a system with a list of readers
  projects, reader by reader, onto the one-reader system `SL.Sys` for which C02/C03 are proved.
  Import-free.
-/
import ClockBound.Model.SeqlockSys
namespace ClockBound.SL

structure SysN where
  log : Log
  w : Writer := {}
  rs : List Reader := []
  written : List (List Nat) := []
  /-- ghost: records returned by `snapshot`, per reader index, newest first -/
  returned : List (List (List Nat)) := []
deriving Repr, Inhabited

/-- replace the i-th element -/
def setAt {α : Type} (l : List α) (i : Nat) (x : α) : List α := l.set i x

inductive StepN (a : Ann) : SysN → SysN → Prop
  | wNew (s : SysN) (h : s.w.pc = .idle) : StepN a s { s with w := { pc := .newVersion, relFence := 0 } }
  | wWrite (s : SysN) (rec : List Nat) (h : s.w.pc = .idle) (hl : rec.length = N) :
      StepN a s { s with w := { s.w with pc := .loadGen rec }, written := rec :: s.written }
  | wStep (s : SysN) (pick : Nat) (h : s.w.pc ≠ .idle) :
      StepN a s { s with log := (wStep a s.log s.w pick).1, w := (wStep a s.log s.w pick).2.1 }
  | wKill (s : SysN) : StepN a s { s with w := {} }
  /-- a new reader attaches -/
  | rJoin (s : SysN) : StepN a s { s with rs := s.rs ++ [{}], returned := s.returned ++ [[]] }
  | rOpen (s : SysN) (i : Nat) (r : Reader) (hi : s.rs[i]? = some r) (h : r.pc = .idle) :
      StepN a s { s with rs := setAt s.rs i {} }
  | rCall (s : SysN) (i : Nat) (r : Reader) (hi : s.rs[i]? = some r) (h : r.pc = .idle) :
      StepN a s { s with rs := setAt s.rs i r.call }
  | rStep (s : SysN) (i : Nat) (r : Reader) (hi : s.rs[i]? = some r) (pickCell pickMsg : Nat) (h : r.pc ≠ .idle) :
      StepN a s { s with rs := setAt s.rs i (rStep a s.log r pickCell pickMsg).1,
                         returned := match returnedBy (rStep a s.log r pickCell pickMsg).2.1 with
                           | some c => setAt s.returned i (c :: (s.returned[i]?.getD []))
                           | none => s.returned }

inductive ReachableN (a : Ann) (s0 : SysN) : SysN → Prop
  | refl : ReachableN a s0 s0
  | step {s t : SysN} : ReachableN a s0 s → StepN a s t → ReachableN a s0 t

def SysN.init (version gen : Nat) (cells : List Nat) : SysN := { log := initBlock version gen cells }

end ClockBound.SL
