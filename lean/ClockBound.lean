import ClockBound.Model.F64
import ClockBound.Model.Time
import ClockBound.Model.Client
