-- Root of the `ClockBound` library: everything that `./check setup` pre-builds.
import ClockBound.Model.Driver
import ClockBound.Model.Seqlock
import ClockBound.Properties.C05
import ClockBound.Properties.C06
import ClockBound.Properties.C07
import ClockBound.Properties.C08
import ClockBound.Properties.C09
import ClockBound.Properties.C10
import ClockBound.Properties.C11
import ClockBound.Properties.C14
import ClockBound.Properties.C19
