import ClockBound.Model.Driver
open ClockBound.Driver

partial def loop (h : IO.FS.Stream) (out : IO.FS.Stream) : IO Unit := do
  let line ← h.getLine
  if line.isEmpty then return ()
  let l := line.trimAscii.toString
  if l.isEmpty || l.startsWith "#" then loop h out else
  out.putStrLn (processLine l)
  loop h out

def main : IO Unit := do
  let out ← IO.getStdout
  loop (← IO.getStdin) out
