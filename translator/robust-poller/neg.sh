#!/bin/bash
# usage: neg.sh <runner-id> <patch-id>...   builds my modules below the patched code in a copy of the lean project
R=$1; shift
WT=/tmp/tie/wt-tie-poller$R
RB=/tmp/tie/poller/build/rb/lean$R
MODS="ClockBound.Properties.OnCodePipeline ClockBound.Properties.OnCodeNow ClockBound.Properties.OnCodeUpdater ClockBound.Properties.OnCodeExtract ClockBound.Properties.OnCodePoller ClockBound.Properties.CodeTieUpdater"
[ -d $WT ] || git -C /repo worktree add --detach $WT HEAD >/dev/null 2>&1
true; # /tmp/tie/poller/lean $RB
for id in "$@"; do
  git -C $WT checkout -q -- . ; git -C $WT clean -fdq
  if ! git -C $WT apply /tmp/tie/poller/seeded/$id/patch.diff 2>/tmp/tie/poller/build/rb/apply-$id.log; then
    echo "$id APPLY-FAILED" >> /tmp/tie/poller/build/rb/neg-$R.txt; continue; fi
  /tmp/tie/poller/build/target-tr/debug/rs2lean $WT $RB/ClockBound/Generated/Code.lean >/dev/null 2>&1
  ( cd $RB && timeout 2400 lake build $MODS > /tmp/tie/poller/build/rb/neglog-$id.txt 2>&1 ); rc=$?
  failed=$(grep -E '^✖' /tmp/tie/poller/build/rb/neglog-$id.txt | sed 's/.*Building //' | cut -d' ' -f1 | tr '\n' ' ')
  echo "$id rc=$rc failed: $failed" >> /tmp/tie/poller/build/rb/neg-$R.txt
  git -C $WT checkout -q -- . ; git -C $WT clean -fdq
done
echo "DONE $R" >> /tmp/tie/poller/build/rb/neg-$R.txt
