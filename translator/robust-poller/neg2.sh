#!/bin/bash
# usage: neg2.sh <runner-id> "<modules>" <patch-id>...
R=$1; MODS=$2; shift 2
WT=/tmp/tie/wt-tie-poller$R
RB=/tmp/tie/poller/build/rb/lean$R
[ -d $WT ] || git -C /repo worktree add --detach $WT HEAD >/dev/null 2>&1
rm -rf $RB; cp -a /tmp/tie/poller/lean $RB
for id in "$@"; do
  git -C $WT checkout -q -- . ; git -C $WT clean -fdq
  if ! git -C $WT apply /tmp/tie/poller/seeded/$id/patch.diff 2>/dev/null; then echo "$id APPLY-FAILED" >> /tmp/tie/poller/build/rb/neg2-$R.txt; continue; fi
  /tmp/tie/poller/build/target-tr/debug/rs2lean $WT $RB/ClockBound/Generated/Code.lean >/dev/null 2>&1
  ( cd $RB && timeout 2400 lake build $MODS > /tmp/tie/poller/build/rb/neg2log-$id.txt 2>&1 ); rc=$?
  failed=$(grep -E '^✖' /tmp/tie/poller/build/rb/neg2log-$id.txt | sed 's/.*Building //' | cut -d' ' -f1 | tr '\n' ' ')
  echo "$id rc=$rc failed: $failed" >> /tmp/tie/poller/build/rb/neg2-$R.txt
  git -C $WT checkout -q -- . ; git -C $WT clean -fdq
done
echo "DONE $R" >> /tmp/tie/poller/build/rb/neg2-$R.txt
