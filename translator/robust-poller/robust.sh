#!/bin/bash
# usage: robust.sh <runner-id> <module> <patch-id>...
# applies each seeded patch in the scratch worktree, regenerates Code.lean into a COPY of the lean project,
# rebuilds <module> with unchanged proofs, records the outcome in build/rb/results-<runner>.txt
R=$1; MOD=$2; shift 2
WT=/tmp/tie/wt-tie-poller$R
RB=/tmp/tie/poller/build/rb/lean$R
[ -d $WT ] || git -C /repo worktree add --detach $WT HEAD >/dev/null 2>&1
rm -rf $RB; cp -a /tmp/tie/poller/lean $RB
for id in "$@"; do
  git -C $WT checkout -q -- . ; git -C $WT clean -fdq
  if ! git -C $WT apply /tmp/tie/poller/seeded/$id/patch.diff 2>/tmp/tie/poller/build/rb/apply-$id.log; then
    echo "$id $MOD APPLY-FAILED" >> /tmp/tie/poller/build/rb/results-$R.txt; continue; fi
  /tmp/tie/poller/build/target-tr/debug/rs2lean $WT $RB/ClockBound/Generated/Code.lean >/dev/null 2>&1
  changed=$(diff <(grep -E '^(def|@\[simp, rs_code\] def) ' /tmp/tie/poller/lean/ClockBound/Generated/Code.lean) <(grep -E '^(def|@\[simp, rs_code\] def) ' $RB/ClockBound/Generated/Code.lean) | grep -c '^[<>]')
  ( cd $RB && timeout 1500 lake build $MOD > /tmp/tie/poller/build/rb/log-$id-$R.txt 2>&1 ); rc=$?
  err=$(grep -E '^error' /tmp/tie/poller/build/rb/log-$id-$R.txt | head -3 | cut -c1-160 | tr '\n' '|')
  stuck=$(grep -o 'Res.stuck "[^"]*"\|Outcome.stuck "[^"]*"' /tmp/tie/poller/build/rb/log-$id-$R.txt | sort | uniq -c | sort -rn | head -2 | tr '\n' ';')
  echo "$id $MOD rc=$rc declsChanged=$changed :: $err :: $stuck" >> /tmp/tie/poller/build/rb/results-$R.txt
  git -C $WT checkout -q -- . ; git -C $WT clean -fdq
done
echo "DONE $R" >> /tmp/tie/poller/build/rb/results-$R.txt
