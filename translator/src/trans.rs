//! syn AST  →  the small AST of `ClockBound/Rs/Ast.lean` (mirrored here as plain Rust enums).

use proc_macro2::TokenStream;
use std::str::FromStr;
use syn::spanned::Spanned;

// ---------------------------------------------------------------------------------------------
// mirror of ClockBound.Rs (Ast.lean)
// ---------------------------------------------------------------------------------------------

#[derive(Debug, Clone)]
pub enum Lit {
    Int(String, String),           // decimal digits, suffix
    Float(String, i64, String),    // decimal mantissa digits, exponent, suffix
    Bool(bool),
    Str(String),
    Other(String),
}

#[derive(Debug, Clone, Copy)]
pub enum UnOp {
    Neg,
    Not,
    Deref,
    Ref,
    RefMut,
}

#[derive(Debug, Clone, Copy)]
pub enum BinOp {
    Add,
    Sub,
    Mul,
    Div,
    Rem,
    And,
    Or,
    BitAnd,
    BitOr,
    BitXor,
    Shl,
    Shr,
    Eq,
    Ne,
    Lt,
    Le,
    Gt,
    Ge,
}

#[derive(Debug, Clone)]
pub enum Pat {
    Wild,
    Bind(String),
    Path(Vec<String>),
    Lit(bool, Lit),
    Range(Option<(bool, Lit)>, Option<(bool, Lit)>, bool),
    Or(Vec<Pat>),
    Tuple(Vec<Pat>),
    TupleStruct(Vec<String>, Vec<Pat>),
    Struct(Vec<String>, Vec<(String, Pat)>, bool),
    Ref(Box<Pat>),
    Other(String),
}

#[derive(Debug, Clone)]
pub enum Expr {
    Lit(Lit),
    Path(Vec<String>),
    Field(Box<Expr>, String),
    TupleIdx(Box<Expr>, u32),
    Call(Vec<String>, Vec<Expr>),
    MCall(Box<Expr>, String, Vec<Expr>),
    Unary(UnOp, Box<Expr>),
    Binary(BinOp, Box<Expr>, Box<Expr>),
    Assign(Box<Expr>, Box<Expr>),
    AssignOp(BinOp, Box<Expr>, Box<Expr>),
    Cast(Box<Expr>, String),
    IfTE(Box<Expr>, Vec<Stmt>, Option<Box<Expr>>),
    Match(Box<Expr>, Vec<Arm>),
    Block(Vec<Stmt>),
    Ret(Option<Box<Expr>>),
    Tuple(Vec<Expr>),
    StructLit(Vec<String>, Vec<(String, Expr)>, Option<Box<Expr>>),
    Try(Box<Expr>),
    Closure(Vec<Pat>, Box<Expr>),
    Macro(String, String),
    MacroArgs(String, String, Vec<Expr>),
    While(Box<Expr>, Vec<Stmt>),
    Loop(Vec<Stmt>),
    For(Pat, Box<Expr>, Vec<Stmt>),
    Range(Option<Box<Expr>>, Option<Box<Expr>>, bool),
    Break(Option<Box<Expr>>),
    Continue,
    LetCond(Pat, Box<Expr>),
    Index(Box<Expr>, Box<Expr>),
    Array(Vec<Expr>),
    Repeat(Box<Expr>, Box<Expr>),
    Other(String),
}

#[derive(Debug, Clone)]
pub enum Stmt {
    Let(Pat, Option<String>, Option<Expr>, Option<Expr>),
    Expr(Expr, bool),
    Const(String, String, Expr),
    Macro(String, String),
    Item(String),
}

#[derive(Debug, Clone)]
pub struct Arm {
    pub pat: Pat,
    pub guard: Option<Expr>,
    pub body: Expr,
}

#[derive(Debug, Clone, Copy)]
pub enum SelfKind {
    None,
    Value,
    Ref,
    RefMut,
}

#[derive(Debug, Clone)]
pub struct FnDecl {
    pub name: String,
    pub module: String,
    pub self_ty: String,
    pub trait_: String,
    pub ident: String,
    pub self_kind: SelfKind,
    pub params: Vec<(Pat, String)>,
    pub ret: String,
    pub body: Vec<Stmt>,
    pub source: String,
}

#[derive(Debug, Clone)]
pub struct ConstDecl {
    pub name: String,
    pub ty: String,
    pub init: Expr,
    pub source: String,
}

#[derive(Debug, Clone)]
pub struct StructDecl {
    pub name: String,
    pub fields: Vec<(String, String)>, // field name (or index), type
    pub source: String,
}

#[derive(Debug, Clone)]
pub struct EnumDecl {
    pub name: String,
    pub variants: Vec<(String, u32)>, // variant name, number of fields
    /// discriminants of a field-less enum (variant, signed decimal), `None` if the enum has a variant
    /// with fields or a discriminant that is not an integer literal
    pub discr: Option<Vec<(String, String)>>,
    pub source: String,
}

#[derive(Debug, Clone)]
pub struct StaticDecl {
    pub name: String,
    pub ty: String,
    pub mutable: bool,
    pub init: Expr,
    pub source: String,
}

#[derive(Debug, Clone)]
pub struct AliasDecl {
    pub name: String,
    pub ty: String,
    pub source: String,
}

#[derive(Default)]
pub struct Output {
    pub fns: Vec<FnDecl>,
    pub consts: Vec<ConstDecl>,
    pub structs: Vec<StructDecl>,
    pub enums: Vec<EnumDecl>,
    pub statics: Vec<StaticDecl>,
    pub aliases: Vec<AliasDecl>,
    /// files of the extended list that are missing or do not parse: (file, reason)
    pub unavailable: Vec<(String, String)>,
}

// ---------------------------------------------------------------------------------------------
// token text
// ---------------------------------------------------------------------------------------------

fn is_ident_char(c: char) -> bool {
    c.is_alphanumeric() || c == '_'
}

fn push_token(out: &mut String, tok: &str) {
    // a space only where two identifier-like tokens (or a lifetime) would otherwise fuse
    if let (Some(p), Some(n)) = (out.chars().last(), tok.chars().next()) {
        if is_ident_char(p) && (is_ident_char(n) || n == '\'') {
            out.push(' ');
        }
    }
    out.push_str(tok);
}

fn print_tokens(ts: TokenStream, out: &mut String) {
    use proc_macro2::{Delimiter, TokenTree};
    for tt in ts {
        match tt {
            TokenTree::Group(g) => {
                let (open, close) = match g.delimiter() {
                    Delimiter::Parenthesis => ("(", ")"),
                    Delimiter::Brace => ("{", "}"),
                    Delimiter::Bracket => ("[", "]"),
                    Delimiter::None => ("", ""),
                };
                out.push_str(open);
                print_tokens(g.stream(), out);
                out.push_str(close);
            }
            TokenTree::Ident(i) => push_token(out, &i.to_string()),
            TokenTree::Punct(p) => out.push(p.as_char()),
            TokenTree::Literal(l) => push_token(out, &l.to_string()),
        }
    }
}

/// Canonical, compact token text: single spaces only where two identifier-like tokens meet
/// (`dyn FSMState`, `&'static CStr`), no whitespace otherwise; literals are printed verbatim.
pub fn compact_tokens(ts: TokenStream) -> String {
    let mut out = String::new();
    print_tokens(ts, &mut out);
    out
}

/// Token text of a syntax node, re-lexed from its source text so that comments vanish and the
/// spacing is canonical.
pub fn tokens_of<T: Spanned>(node: &T) -> String {
    match node.span().source_text() {
        Some(src) => match TokenStream::from_str(&src) {
            Ok(ts) => compact_tokens(ts),
            Err(_) => src.split_whitespace().collect::<Vec<_>>().join(" "),
        },
        None => String::from("<source text unavailable>"),
    }
}

fn macro_tokens(ts: &TokenStream) -> String {
    compact_tokens(ts.clone())
}

// ---------------------------------------------------------------------------------------------
// cfg evaluation:  test = false, clock_bound_verif = false, everything else unknown (kept)
// ---------------------------------------------------------------------------------------------

#[derive(Clone, Copy, PartialEq)]
enum Tri {
    True,
    False,
    Unknown,
}

fn eval_cfg_meta(meta: &syn::Meta) -> Tri {
    match meta {
        syn::Meta::Path(p) => {
            if p.is_ident("test") || p.is_ident("clock_bound_verif") {
                Tri::False
            } else {
                Tri::Unknown
            }
        }
        syn::Meta::List(list) => {
            let nested: Vec<syn::Meta> = match list.parse_args_with(
                syn::punctuated::Punctuated::<syn::Meta, syn::Token![,]>::parse_terminated,
            ) {
                Ok(p) => p.into_iter().collect(),
                Err(_) => return Tri::Unknown,
            };
            if list.path.is_ident("not") {
                match nested.first().map(eval_cfg_meta) {
                    Some(Tri::True) => Tri::False,
                    Some(Tri::False) => Tri::True,
                    _ => Tri::Unknown,
                }
            } else if list.path.is_ident("any") {
                let mut r = Tri::False;
                for m in &nested {
                    match eval_cfg_meta(m) {
                        Tri::True => return Tri::True,
                        Tri::Unknown => r = Tri::Unknown,
                        Tri::False => {}
                    }
                }
                r
            } else if list.path.is_ident("all") {
                let mut r = Tri::True;
                for m in &nested {
                    match eval_cfg_meta(m) {
                        Tri::False => return Tri::False,
                        Tri::Unknown => r = Tri::Unknown,
                        Tri::True => {}
                    }
                }
                r
            } else {
                Tri::Unknown
            }
        }
        syn::Meta::NameValue(_) => Tri::Unknown,
    }
}

/// `false` iff some `#[cfg(..)]` attribute is definitely off with test = clock_bound_verif = false.
pub fn cfg_enabled(attrs: &[syn::Attribute]) -> bool {
    for a in attrs {
        if a.path().is_ident("cfg") {
            if let syn::Meta::List(list) = &a.meta {
                if let Ok(inner) = list.parse_args::<syn::Meta>() {
                    if eval_cfg_meta(&inner) == Tri::False {
                        return false;
                    }
                }
            }
        }
    }
    true
}

fn expr_attrs(e: &syn::Expr) -> &[syn::Attribute] {
    use syn::Expr::*;
    match e {
        Array(x) => &x.attrs,
        Assign(x) => &x.attrs,
        Async(x) => &x.attrs,
        Await(x) => &x.attrs,
        Binary(x) => &x.attrs,
        Block(x) => &x.attrs,
        Break(x) => &x.attrs,
        Call(x) => &x.attrs,
        Cast(x) => &x.attrs,
        Closure(x) => &x.attrs,
        Const(x) => &x.attrs,
        Continue(x) => &x.attrs,
        Field(x) => &x.attrs,
        ForLoop(x) => &x.attrs,
        Group(x) => &x.attrs,
        If(x) => &x.attrs,
        Index(x) => &x.attrs,
        Infer(x) => &x.attrs,
        Let(x) => &x.attrs,
        Lit(x) => &x.attrs,
        Loop(x) => &x.attrs,
        Macro(x) => &x.attrs,
        Match(x) => &x.attrs,
        MethodCall(x) => &x.attrs,
        Paren(x) => &x.attrs,
        Path(x) => &x.attrs,
        Range(x) => &x.attrs,
        Reference(x) => &x.attrs,
        Repeat(x) => &x.attrs,
        Return(x) => &x.attrs,
        Struct(x) => &x.attrs,
        Try(x) => &x.attrs,
        TryBlock(x) => &x.attrs,
        Tuple(x) => &x.attrs,
        Unary(x) => &x.attrs,
        Unsafe(x) => &x.attrs,
        While(x) => &x.attrs,
        Yield(x) => &x.attrs,
        _ => &[],
    }
}

// ---------------------------------------------------------------------------------------------
// paths, types
// ---------------------------------------------------------------------------------------------

fn segment_text(seg: &syn::PathSegment) -> String {
    let mut s = seg.ident.to_string();
    match &seg.arguments {
        syn::PathArguments::None => {}
        syn::PathArguments::AngleBracketed(a) => {
            // drop the turbofish `::` so that `Box::<T>` and `Box<T>` agree
            let mut inner = Vec::new();
            for arg in &a.args {
                inner.push(tokens_of(arg));
            }
            s.push('<');
            s.push_str(&inner.join(","));
            s.push('>');
        }
        syn::PathArguments::Parenthesized(p) => s.push_str(&tokens_of(p)),
    }
    s
}

fn path_segs(p: &syn::Path) -> Vec<String> {
    let mut v = Vec::new();
    if p.leading_colon.is_some() {
        v.push(String::new());
    }
    for seg in &p.segments {
        v.push(segment_text(seg));
    }
    v
}

fn type_text(t: &syn::Type) -> String {
    match t {
        syn::Type::Paren(p) => type_text(&p.elem),
        syn::Type::Group(g) => type_text(&g.elem),
        syn::Type::Path(tp) if tp.qself.is_none() => path_segs(&tp.path).join("::"),
        _ => tokens_of(t),
    }
}

/// Name of the self type of an impl: last path segment without generics (`ShmUpdater<W>` → `ShmUpdater`).
fn self_type_name(t: &syn::Type) -> String {
    match t {
        syn::Type::Paren(p) => self_type_name(&p.elem),
        syn::Type::Group(g) => self_type_name(&g.elem),
        syn::Type::Path(tp) if tp.qself.is_none() => tp
            .path
            .segments
            .last()
            .map(|s| s.ident.to_string())
            .unwrap_or_else(|| tokens_of(t)),
        _ => tokens_of(t),
    }
}

// ---------------------------------------------------------------------------------------------
// literals
// ---------------------------------------------------------------------------------------------

/// "12.50e-3" → ("1250", -5): the exact decimal value is mantissa * 10^exp.
fn parse_float(digits: &str) -> Option<(String, i64)> {
    let lower = digits.to_ascii_lowercase();
    let (num, exp) = match lower.find('e') {
        Some(i) => {
            let e: i64 = lower[i + 1..].trim_start_matches('+').parse().ok()?;
            (&lower[..i], e)
        }
        None => (&lower[..], 0),
    };
    let (int_part, frac_part) = match num.find('.') {
        Some(i) => (&num[..i], &num[i + 1..]),
        None => (num, ""),
    };
    if !int_part.chars().all(|c| c.is_ascii_digit()) || !frac_part.chars().all(|c| c.is_ascii_digit()) {
        return None;
    }
    // trailing zeros of the fraction carry no information: 8.0 = 8 * 10^0
    let frac_trim = frac_part.trim_end_matches('0');
    let mut mant = format!("{}{}", int_part, frac_trim);
    let exp = exp - frac_trim.len() as i64;
    let stripped = mant.trim_start_matches('0').to_string();
    mant = if stripped.is_empty() { "0".to_string() } else { stripped };
    Some((mant, exp))
}

/// syn keeps the sign of a negative literal pattern (`-1 => ..`) inside the literal token.
fn lit_signed(l: &syn::Lit) -> (bool, Lit) {
    match l {
        syn::Lit::Int(i) if i.base10_digits().starts_with('-') => {
            let text = format!("{}{}", &i.base10_digits()[1..], i.suffix());
            match syn::parse_str::<syn::Lit>(&text) {
                Ok(pos) => (true, lit(&pos)),
                Err(_) => (false, Lit::Other(tokens_of(l))),
            }
        }
        syn::Lit::Float(f) if f.base10_digits().starts_with('-') => {
            let text = format!("{}{}", &f.base10_digits()[1..], f.suffix());
            match syn::parse_str::<syn::Lit>(&text) {
                Ok(pos) => (true, lit(&pos)),
                Err(_) => (false, Lit::Other(tokens_of(l))),
            }
        }
        _ => (false, lit(l)),
    }
}

fn lit(l: &syn::Lit) -> Lit {
    // a sign inside the token is only legal in patterns and is handled by `lit_signed`
    match l {
        syn::Lit::Int(i) if i.base10_digits().starts_with('-') => return Lit::Other(tokens_of(l)),
        syn::Lit::Float(f) if f.base10_digits().starts_with('-') => return Lit::Other(tokens_of(l)),
        _ => {}
    }
    match l {
        syn::Lit::Int(i) => {
            // `1_000_000_000_f64` is lexed as an integer token with a float suffix: it is a float literal
            if i.suffix() == "f64" || i.suffix() == "f32" {
                match parse_float(i.base10_digits()) {
                    Some((m, e)) => Lit::Float(m, e, i.suffix().to_string()),
                    None => Lit::Other(tokens_of(l)),
                }
            } else {
                Lit::Int(i.base10_digits().to_string(), i.suffix().to_string())
            }
        }
        syn::Lit::Float(f) => match parse_float(f.base10_digits()) {
            Some((m, e)) => Lit::Float(m, e, f.suffix().to_string()),
            None => Lit::Other(tokens_of(l)),
        },
        syn::Lit::Bool(b) => Lit::Bool(b.value),
        syn::Lit::Str(s) => Lit::Str(s.value()),
        _ => Lit::Other(tokens_of(l)),
    }
}

// ---------------------------------------------------------------------------------------------
// patterns
// ---------------------------------------------------------------------------------------------

/// a (possibly negated) literal used as a pattern / range end
fn lit_of_expr(e: &syn::Expr) -> Option<(bool, Lit)> {
    match e {
        syn::Expr::Lit(l) => Some(lit_signed(&l.lit)),
        syn::Expr::Unary(u) => {
            if let (syn::UnOp::Neg(_), syn::Expr::Lit(l)) = (&u.op, &*u.expr) {
                Some((true, lit(&l.lit)))
            } else {
                None
            }
        }
        syn::Expr::Paren(p) => lit_of_expr(&p.expr),
        syn::Expr::Group(g) => lit_of_expr(&g.expr),
        _ => None,
    }
}

pub fn pat(p: &syn::Pat) -> Pat {
    match p {
        syn::Pat::Wild(_) => Pat::Wild,
        syn::Pat::Ident(i) => {
            let name = i.ident.to_string();
            if i.subpat.is_some() {
                Pat::Other(tokens_of(p))
            } else if name.chars().next().map_or(false, |c| c.is_uppercase()) {
                // syn cannot tell a unit variant / constant (`None`, `MAX`) from a fresh binding. Rust's
                // naming lints (non_snake_case, non_upper_case_globals) make the first character decide:
                // an identifier that starts with an upper-case letter is emitted as a path pattern.
                Pat::Path(vec![name])
            } else {
                Pat::Bind(name)
            }
        }
        syn::Pat::Path(pp) => {
            if pp.qself.is_some() {
                Pat::Other(tokens_of(p))
            } else {
                Pat::Path(path_segs(&pp.path))
            }
        }
        syn::Pat::Lit(l) => {
            let (neg, v) = lit_signed(&l.lit);
            Pat::Lit(neg, v)
        }
        syn::Pat::Range(r) => {
            let lo = match &r.start {
                Some(e) => match lit_of_expr(e) {
                    Some(x) => Some(x),
                    None => return Pat::Other(tokens_of(p)),
                },
                None => None,
            };
            let hi = match &r.end {
                Some(e) => match lit_of_expr(e) {
                    Some(x) => Some(x),
                    None => return Pat::Other(tokens_of(p)),
                },
                None => None,
            };
            let inclusive = matches!(r.limits, syn::RangeLimits::Closed(_));
            Pat::Range(lo, hi, inclusive)
        }
        syn::Pat::Or(o) => Pat::Or(o.cases.iter().map(pat).collect()),
        syn::Pat::Tuple(t) => Pat::Tuple(t.elems.iter().map(pat).collect()),
        syn::Pat::TupleStruct(t) => {
            if t.qself.is_some() {
                Pat::Other(tokens_of(p))
            } else {
                Pat::TupleStruct(path_segs(&t.path), t.elems.iter().map(pat).collect())
            }
        }
        syn::Pat::Struct(s) => {
            if s.qself.is_some() {
                return Pat::Other(tokens_of(p));
            }
            let mut fields = Vec::new();
            for f in &s.fields {
                let name = match &f.member {
                    syn::Member::Named(i) => i.to_string(),
                    syn::Member::Unnamed(i) => i.index.to_string(),
                };
                fields.push((name, pat(&f.pat)));
            }
            Pat::Struct(path_segs(&s.path), fields, s.rest.is_some())
        }
        syn::Pat::Reference(r) => Pat::Ref(Box::new(pat(&r.pat))),
        syn::Pat::Paren(pp) => pat(&pp.pat),
        syn::Pat::Type(t) => pat(&t.pat),
        // syn parses a negative literal pattern `-1` as an expression-like literal pattern only via
        // `Pat::Lit`; anything else (`const` blocks, macros, slices, rest) is kept as text
        _ => {
            // `-1` arrives here as Pat::Verbatim in some syn versions: try to recognise it
            let text = tokens_of(p);
            if let Ok(e) = syn::parse_str::<syn::Expr>(&text) {
                if let Some((neg, l)) = lit_of_expr(&e) {
                    return Pat::Lit(neg, l);
                }
            }
            Pat::Other(text)
        }
    }
}

// ---------------------------------------------------------------------------------------------
// expressions
// ---------------------------------------------------------------------------------------------

fn bin_op(op: &syn::BinOp) -> Option<(BinOp, bool)> {
    use syn::BinOp as B;
    Some(match op {
        B::Add(_) => (BinOp::Add, false),
        B::Sub(_) => (BinOp::Sub, false),
        B::Mul(_) => (BinOp::Mul, false),
        B::Div(_) => (BinOp::Div, false),
        B::Rem(_) => (BinOp::Rem, false),
        B::And(_) => (BinOp::And, false),
        B::Or(_) => (BinOp::Or, false),
        B::BitXor(_) => (BinOp::BitXor, false),
        B::BitAnd(_) => (BinOp::BitAnd, false),
        B::BitOr(_) => (BinOp::BitOr, false),
        B::Shl(_) => (BinOp::Shl, false),
        B::Shr(_) => (BinOp::Shr, false),
        B::Eq(_) => (BinOp::Eq, false),
        B::Lt(_) => (BinOp::Lt, false),
        B::Le(_) => (BinOp::Le, false),
        B::Ne(_) => (BinOp::Ne, false),
        B::Ge(_) => (BinOp::Ge, false),
        B::Gt(_) => (BinOp::Gt, false),
        B::AddAssign(_) => (BinOp::Add, true),
        B::SubAssign(_) => (BinOp::Sub, true),
        B::MulAssign(_) => (BinOp::Mul, true),
        B::DivAssign(_) => (BinOp::Div, true),
        B::RemAssign(_) => (BinOp::Rem, true),
        B::BitXorAssign(_) => (BinOp::BitXor, true),
        B::BitAndAssign(_) => (BinOp::BitAnd, true),
        B::BitOrAssign(_) => (BinOp::BitOr, true),
        B::ShlAssign(_) => (BinOp::Shl, true),
        B::ShrAssign(_) => (BinOp::Shr, true),
        _ => return None,
    })
}

fn bx(e: Expr) -> Box<Expr> {
    Box::new(e)
}

pub fn expr(e: &syn::Expr) -> Expr {
    // an expression carrying an attribute other than a (kept) cfg is translated as usual: attributes
    // are dropped.  A cfg'd-off expression in statement position is removed by `block`.
    match e {
        syn::Expr::Lit(l) => Expr::Lit(lit(&l.lit)),
        syn::Expr::Path(p) => {
            if p.qself.is_some() {
                Expr::Other(tokens_of(e))
            } else {
                Expr::Path(path_segs(&p.path))
            }
        }
        syn::Expr::Field(f) => match &f.member {
            syn::Member::Named(i) => Expr::Field(bx(expr(&f.base)), i.to_string()),
            syn::Member::Unnamed(i) => Expr::TupleIdx(bx(expr(&f.base)), i.index),
        },
        syn::Expr::Call(c) => {
            let callee = strip_parens(&c.func);
            if let syn::Expr::Path(p) = callee {
                if p.qself.is_none() {
                    return Expr::Call(path_segs(&p.path), c.args.iter().map(expr).collect());
                }
            }
            Expr::Other(tokens_of(e))
        }
        syn::Expr::MethodCall(m) => Expr::MCall(
            bx(expr(&m.receiver)),
            m.method.to_string(),
            m.args.iter().map(expr).collect(),
        ),
        syn::Expr::Unary(u) => {
            let op = match u.op {
                syn::UnOp::Deref(_) => UnOp::Deref,
                syn::UnOp::Not(_) => UnOp::Not,
                syn::UnOp::Neg(_) => UnOp::Neg,
                _ => return Expr::Other(tokens_of(e)),
            };
            Expr::Unary(op, bx(expr(&u.expr)))
        }
        syn::Expr::Reference(r) => {
            let op = if r.mutability.is_some() { UnOp::RefMut } else { UnOp::Ref };
            Expr::Unary(op, bx(expr(&r.expr)))
        }
        syn::Expr::Binary(b) => match bin_op(&b.op) {
            Some((op, false)) => Expr::Binary(op, bx(expr(&b.left)), bx(expr(&b.right))),
            Some((op, true)) => Expr::AssignOp(op, bx(expr(&b.left)), bx(expr(&b.right))),
            None => Expr::Other(tokens_of(e)),
        },
        syn::Expr::Assign(a) => Expr::Assign(bx(expr(&a.left)), bx(expr(&a.right))),
        syn::Expr::Cast(c) => Expr::Cast(bx(expr(&c.expr)), type_text(&c.ty)),
        syn::Expr::If(i) => {
            let cond = expr(&i.cond);
            let thn = block(&i.then_branch);
            let els = i.else_branch.as_ref().map(|(_, e)| bx(expr(e)));
            Expr::IfTE(bx(cond), thn, els)
        }
        syn::Expr::Match(m) => {
            let mut arms = Vec::new();
            for a in &m.arms {
                if !cfg_enabled(&a.attrs) {
                    continue;
                }
                arms.push(Arm {
                    pat: pat(&a.pat),
                    guard: a.guard.as_ref().map(|(_, g)| expr(g)),
                    body: expr(&a.body),
                });
            }
            Expr::Match(bx(expr(&m.expr)), arms)
        }
        syn::Expr::Block(b) => {
            if b.label.is_some() {
                Expr::Other(tokens_of(e))
            } else {
                Expr::Block(block(&b.block))
            }
        }
        syn::Expr::Unsafe(u) => Expr::Block(block(&u.block)),
        syn::Expr::Return(r) => Expr::Ret(r.expr.as_ref().map(|x| bx(expr(x)))),
        syn::Expr::Tuple(t) => Expr::Tuple(t.elems.iter().map(expr).collect()),
        syn::Expr::Struct(s) => {
            if s.qself.is_some() {
                return Expr::Other(tokens_of(e));
            }
            let mut fields = Vec::new();
            for f in &s.fields {
                if !cfg_enabled(&f.attrs) {
                    continue;
                }
                let name = match &f.member {
                    syn::Member::Named(i) => i.to_string(),
                    syn::Member::Unnamed(i) => i.index.to_string(),
                };
                fields.push((name, expr(&f.expr)));
            }
            Expr::StructLit(path_segs(&s.path), fields, s.rest.as_ref().map(|r| bx(expr(r))))
        }
        syn::Expr::Try(t) => Expr::Try(bx(expr(&t.expr))),
        syn::Expr::Closure(c) => {
            if c.asyncness.is_some() || c.constness.is_some() || c.lifetimes.is_some() {
                return Expr::Other(tokens_of(e));
            }
            Expr::Closure(c.inputs.iter().map(pat).collect(), bx(expr(&c.body)))
        }
        syn::Expr::Macro(m) => macro_expr(&m.mac),
        syn::Expr::While(w) => {
            if w.label.is_some() {
                return Expr::Other(tokens_of(e));
            }
            Expr::While(bx(expr(&w.cond)), block(&w.body))
        }
        syn::Expr::Loop(l) => {
            if l.label.is_some() {
                return Expr::Other(tokens_of(e));
            }
            Expr::Loop(block(&l.body))
        }
        syn::Expr::ForLoop(f) => {
            if f.label.is_some() {
                return Expr::Other(tokens_of(e));
            }
            Expr::For(pat(&f.pat), bx(expr(&f.expr)), block(&f.body))
        }
        syn::Expr::Range(r) => Expr::Range(
            r.start.as_ref().map(|x| bx(expr(x))),
            r.end.as_ref().map(|x| bx(expr(x))),
            matches!(r.limits, syn::RangeLimits::Closed(_)),
        ),
        syn::Expr::Break(b) => {
            if b.label.is_some() {
                return Expr::Other(tokens_of(e));
            }
            Expr::Break(b.expr.as_ref().map(|x| bx(expr(x))))
        }
        syn::Expr::Continue(c) => {
            if c.label.is_some() {
                return Expr::Other(tokens_of(e));
            }
            Expr::Continue
        }
        syn::Expr::Let(l) => Expr::LetCond(pat(&l.pat), bx(expr(&l.expr))),
        syn::Expr::Index(i) => Expr::Index(bx(expr(&i.expr)), bx(expr(&i.index))),
        syn::Expr::Array(a) => Expr::Array(a.elems.iter().map(expr).collect()),
        syn::Expr::Repeat(r) => Expr::Repeat(bx(expr(&r.expr)), bx(expr(&r.len))),
        syn::Expr::Paren(p) => expr(&p.expr),
        syn::Expr::Group(g) => expr(&g.expr),
        _ => Expr::Other(tokens_of(e)),
    }
}

/// Macros whose arguments are a format string and its operands (or an arbitrary message): never parsed.
const FORMAT_MACROS: [&str; 18] = [
    "debug", "info", "warn", "error", "trace", "log", "format", "format_args", "print", "println", "eprint",
    "eprintln", "write", "writeln", "panic", "unreachable", "unimplemented", "todo",
];

/// `matches!(e, P)` / `matches!(e, P if g)`
struct MatchesArgs {
    scrut: syn::Expr,
    pat: syn::Pat,
    guard: Option<syn::Expr>,
}

impl syn::parse::Parse for MatchesArgs {
    fn parse(input: syn::parse::ParseStream) -> syn::Result<Self> {
        let scrut: syn::Expr = input.parse()?;
        input.parse::<syn::Token![,]>()?;
        let pat = syn::Pat::parse_multi_with_leading_vert(input)?;
        let guard = if input.peek(syn::Token![if]) {
            input.parse::<syn::Token![if]>()?;
            Some(input.parse::<syn::Expr>()?)
        } else {
            None
        };
        if input.peek(syn::Token![,]) {
            input.parse::<syn::Token![,]>()?;
        }
        if !input.is_empty() {
            return Err(input.error("unexpected tokens after the pattern"));
        }
        Ok(MatchesArgs { scrut, pat, guard })
    }
}

/// `vec![x; n]`
struct RepeatArgs {
    elem: syn::Expr,
    len: syn::Expr,
}

impl syn::parse::Parse for RepeatArgs {
    fn parse(input: syn::parse::ParseStream) -> syn::Result<Self> {
        let elem: syn::Expr = input.parse()?;
        input.parse::<syn::Token![;]>()?;
        let len: syn::Expr = input.parse()?;
        if !input.is_empty() {
            return Err(input.error("unexpected tokens after the length"));
        }
        Ok(RepeatArgs { elem, len })
    }
}

/// A macro invocation: name + token text always; in addition the arguments as expressions when the
/// tokens parse as a comma-separated expression list (not attempted for the formatting macros).
fn macro_expr(mac: &syn::Macro) -> Expr {
    let name = path_segs(&mac.path).join("::");
    let toks = macro_tokens(&mac.tokens);
    let last = mac
        .path
        .segments
        .last()
        .map(|s| s.ident.to_string())
        .unwrap_or_default();
    if FORMAT_MACROS.contains(&last.as_str()) {
        return Expr::Macro(name, toks);
    }
    if last == "matches" {
        if let Ok(m) = syn::parse2::<MatchesArgs>(mac.tokens.clone()) {
            // std: `matches!(e, P if g)` is `match e { P if g => true, _ => false }`
            let arms = vec![
                Arm {
                    pat: pat(&m.pat),
                    guard: m.guard.as_ref().map(expr),
                    body: Expr::Lit(Lit::Bool(true)),
                },
                Arm { pat: Pat::Wild, guard: None, body: Expr::Lit(Lit::Bool(false)) },
            ];
            return Expr::MacroArgs(name, toks, vec![Expr::Match(bx(expr(&m.scrut)), arms)]);
        }
        return Expr::Macro(name, toks);
    }
    if last == "vec" {
        if let Ok(r) = syn::parse2::<RepeatArgs>(mac.tokens.clone()) {
            return Expr::MacroArgs(name, toks, vec![Expr::Repeat(bx(expr(&r.elem)), bx(expr(&r.len)))]);
        }
    }
    let parser = syn::punctuated::Punctuated::<syn::Expr, syn::Token![,]>::parse_terminated;
    match syn::parse::Parser::parse2(parser, mac.tokens.clone()) {
        Ok(list) => {
            let mut args: Vec<Expr> = list.iter().map(expr).collect();
            // the remaining operands of an assertion are its panic message
            let keep = match last.as_str() {
                "assert" | "debug_assert" => Some(1),
                "assert_eq" | "assert_ne" | "debug_assert_eq" | "debug_assert_ne" => Some(2),
                _ => None,
            };
            if let Some(k) = keep {
                if args.len() < k {
                    return Expr::Macro(name, toks);
                }
                args.truncate(k);
            }
            Expr::MacroArgs(name, toks, args)
        }
        Err(_) => Expr::Macro(name, toks),
    }
}

fn strip_parens(e: &syn::Expr) -> &syn::Expr {
    match e {
        syn::Expr::Paren(p) => strip_parens(&p.expr),
        syn::Expr::Group(g) => strip_parens(&g.expr),
        _ => e,
    }
}

pub fn block(b: &syn::Block) -> Vec<Stmt> {
    let mut out = Vec::new();
    for s in &b.stmts {
        match s {
            syn::Stmt::Local(l) => {
                if !cfg_enabled(&l.attrs) {
                    continue;
                }
                let (p, ty) = match &l.pat {
                    syn::Pat::Type(t) => (pat(&t.pat), Some(type_text(&t.ty))),
                    other => (pat(other), None),
                };
                let (init, els) = match &l.init {
                    Some(i) => (
                        Some(expr(&i.expr)),
                        i.diverge.as_ref().map(|(_, e)| expr(e)),
                    ),
                    None => (None, None),
                };
                out.push(Stmt::Let(p, ty, init, els));
            }
            syn::Stmt::Item(it) => {
                if let syn::Item::Const(c) = it {
                    if !cfg_enabled(&c.attrs) {
                        continue;
                    }
                    out.push(Stmt::Const(c.ident.to_string(), type_text(&c.ty), expr(&c.expr)));
                } else {
                    if !cfg_enabled(item_attrs(it)) {
                        continue;
                    }
                    out.push(Stmt::Item(item_text(it)));
                }
            }
            syn::Stmt::Expr(e, semi) => {
                if !cfg_enabled(expr_attrs(e)) {
                    continue;
                }
                out.push(Stmt::Expr(expr(e), semi.is_some()));
            }
            syn::Stmt::Macro(m) => {
                if !cfg_enabled(&m.attrs) {
                    continue;
                }
                match macro_expr(&m.mac) {
                    Expr::Macro(name, toks) => {
                        if m.semi_token.is_some() {
                            out.push(Stmt::Macro(name, toks));
                        } else {
                            // trailing macro without semicolon: it is the value of the block
                            out.push(Stmt::Expr(Expr::Macro(name, toks), false));
                        }
                    }
                    // a macro with parsed arguments is an expression statement
                    parsed => out.push(Stmt::Expr(parsed, m.semi_token.is_some())),
                }
            }
        }
    }
    out
}

fn item_attrs(it: &syn::Item) -> &[syn::Attribute] {
    use syn::Item::*;
    match it {
        Const(x) => &x.attrs,
        Enum(x) => &x.attrs,
        ExternCrate(x) => &x.attrs,
        Fn(x) => &x.attrs,
        ForeignMod(x) => &x.attrs,
        Impl(x) => &x.attrs,
        Macro(x) => &x.attrs,
        Mod(x) => &x.attrs,
        Static(x) => &x.attrs,
        Struct(x) => &x.attrs,
        Trait(x) => &x.attrs,
        TraitAlias(x) => &x.attrs,
        Type(x) => &x.attrs,
        Union(x) => &x.attrs,
        Use(x) => &x.attrs,
        _ => &[],
    }
}

/// Text of a nested item with its attributes (and therefore its doc comments) removed.
fn item_text(it: &syn::Item) -> String {
    let mut it = it.clone();
    strip_item_attrs(&mut it);
    // the clone keeps the spans, so the text still comes from the source; attributes are outside of
    // the joined span only if they come first, which they always do
    let full = tokens_of(&it);
    full
}

fn strip_item_attrs(it: &mut syn::Item) {
    use syn::Item::*;
    match it {
        Const(x) => x.attrs.clear(),
        Enum(x) => x.attrs.clear(),
        ExternCrate(x) => x.attrs.clear(),
        Fn(x) => x.attrs.clear(),
        ForeignMod(x) => x.attrs.clear(),
        Impl(x) => x.attrs.clear(),
        Macro(x) => x.attrs.clear(),
        Mod(x) => x.attrs.clear(),
        Static(x) => x.attrs.clear(),
        Struct(x) => x.attrs.clear(),
        Trait(x) => x.attrs.clear(),
        TraitAlias(x) => x.attrs.clear(),
        Type(x) => x.attrs.clear(),
        Union(x) => x.attrs.clear(),
        Use(x) => x.attrs.clear(),
        _ => {}
    }
}

// ---------------------------------------------------------------------------------------------
// items
// ---------------------------------------------------------------------------------------------

fn signature(
    sig: &syn::Signature,
) -> (SelfKind, Vec<(Pat, String)>, String) {
    let mut self_kind = SelfKind::None;
    let mut params = Vec::new();
    for a in &sig.inputs {
        match a {
            syn::FnArg::Receiver(r) => {
                self_kind = if r.reference.is_some() {
                    if r.mutability.is_some() {
                        SelfKind::RefMut
                    } else {
                        SelfKind::Ref
                    }
                } else if r.colon_token.is_some() {
                    // `self: &Self`, `self: &mut Self`, `self: Box<Self>` …
                    match &*r.ty {
                        syn::Type::Reference(tr) => {
                            if tr.mutability.is_some() {
                                SelfKind::RefMut
                            } else {
                                SelfKind::Ref
                            }
                        }
                        _ => SelfKind::Value,
                    }
                } else {
                    SelfKind::Value
                };
            }
            syn::FnArg::Typed(t) => {
                if !cfg_enabled(&t.attrs) {
                    continue;
                }
                params.push((pat(&t.pat), type_text(&t.ty)));
            }
        }
    }
    let ret = match &sig.output {
        syn::ReturnType::Default => String::from("()"),
        syn::ReturnType::Type(_, t) => type_text(t),
    };
    (self_kind, params, ret)
}

/// first path component of the source file: the crate directory (`clock-bound-shm`, ...)
fn crate_of(source: &str) -> &str {
    source.split('/').next().unwrap_or("")
}

/// Keys are unique.  The first item (in the fixed file order, then source order) keeps the plain key; a
/// later item with the same key gets the crate directory of its file as a prefix (`clock-bound-ffi/lib::f`),
/// and only if that collides too a numeric suffix `#n`.
fn unique_key(base: &str, source: &str, taken: &dyn Fn(&str) -> bool) -> String {
    if !taken(base) {
        return base.to_string();
    }
    let prefixed = format!("{}/{}", crate_of(source), base);
    if !taken(&prefixed) {
        return prefixed;
    }
    let mut n = 2;
    loop {
        let k = format!("{}#{}", prefixed, n);
        if !taken(&k) {
            return k;
        }
        n += 1;
    }
}

fn add_fn(out: &mut Output, mut d: FnDecl) {
    d.name = unique_key(&d.name, &d.source, &|k| out.fns.iter().any(|f| f.name == k));
    out.fns.push(d);
}

fn add_const(out: &mut Output, mut c: ConstDecl) {
    c.name = unique_key(&c.name, &c.source, &|k| {
        out.consts.iter().any(|f| f.name == k) || out.statics.iter().any(|f| f.name == k)
    });
    out.consts.push(c);
}

fn add_static(out: &mut Output, mut c: StaticDecl) {
    c.name = unique_key(&c.name, &c.source, &|k| {
        out.consts.iter().any(|f| f.name == k) || out.statics.iter().any(|f| f.name == k)
    });
    out.statics.push(c);
}

/// Self type of an impl as it appears in keys: the bare name, except when the impl is for a concrete
/// instance of a generic type (`impl FSMTransition for ShmClockState<Synchronized>`): then the generic
/// arguments are kept.  Arguments that are all generic parameters of the impl itself are dropped
/// (`impl<W: ShmWrite> ShmUpdater<W>` is `ShmUpdater`).
fn impl_key_type(im: &syn::ItemImpl) -> String {
    let bare = self_type_name(&im.self_ty);
    let params: Vec<String> = im
        .generics
        .params
        .iter()
        .map(|p| match p {
            syn::GenericParam::Type(t) => t.ident.to_string(),
            syn::GenericParam::Lifetime(l) => format!("'{}", l.lifetime.ident),
            syn::GenericParam::Const(c) => c.ident.to_string(),
        })
        .collect();
    let mut t = &*im.self_ty;
    loop {
        match t {
            syn::Type::Paren(p) => t = &p.elem,
            syn::Type::Group(g) => t = &g.elem,
            _ => break,
        }
    }
    if let syn::Type::Path(tp) = t {
        if let Some(last) = tp.path.segments.last() {
            if let syn::PathArguments::AngleBracketed(a) = &last.arguments {
                let args: Vec<String> = a.args.iter().map(|x| tokens_of(x)).collect();
                if !args.is_empty() && !args.iter().all(|x| params.contains(x)) {
                    return format!("{}<{}>", bare, args.join(","));
                }
            }
        }
    }
    bare
}

/// discriminants of a field-less enum: an integer literal (possibly negated) where written, else the
/// previous one plus one, starting at 0 (the Rust reference, "Enumerations / discriminants")
fn enum_discriminants(en: &syn::ItemEnum) -> Option<Vec<(String, String)>> {
    let mut next: i128 = 0;
    let mut out = Vec::new();
    for v in &en.variants {
        if !cfg_enabled(&v.attrs) {
            continue;
        }
        if !matches!(v.fields, syn::Fields::Unit) {
            return None;
        }
        if let Some((_, e)) = &v.discriminant {
            match lit_of_expr(e) {
                Some((neg, Lit::Int(d, _))) => {
                    let n: i128 = d.parse().ok()?;
                    next = if neg { -n } else { n };
                }
                _ => return None,
            }
        }
        out.push((v.ident.to_string(), next.to_string()));
        next += 1;
    }
    Some(out)
}

fn translate_items(items: &[syn::Item], stem: &str, prefix: &str, source: &str, out: &mut Output) {
    for it in items {
        if !cfg_enabled(item_attrs(it)) {
            continue;
        }
        match it {
            syn::Item::Fn(f) => {
                let (self_kind, params, ret) = signature(&f.sig);
                let ident = f.sig.ident.to_string();
                add_fn(
                    out,
                    FnDecl {
                        name: format!("{}::{}", prefix, ident),
                        module: stem.to_string(),
                        self_ty: String::new(),
                        trait_: String::new(),
                        ident,
                        self_kind,
                        params,
                        ret,
                        body: block(&f.block),
                        source: source.to_string(),
                    },
                );
            }
            syn::Item::Const(c) => {
                add_const(
                    out,
                    ConstDecl {
                        name: format!("{}::{}", prefix, c.ident),
                        ty: type_text(&c.ty),
                        init: expr(&c.expr),
                        source: source.to_string(),
                    },
                );
            }
            syn::Item::Static(c) => {
                add_static(
                    out,
                    StaticDecl {
                        name: format!("{}::{}", prefix, c.ident),
                        ty: type_text(&c.ty),
                        mutable: matches!(c.mutability, syn::StaticMutability::Mut(_)),
                        init: expr(&c.expr),
                        source: source.to_string(),
                    },
                );
            }
            syn::Item::Type(t) => {
                let name = unique_key(&format!("{}::{}", prefix, t.ident), source, &|k| {
                    out.aliases.iter().any(|a| a.name == k)
                });
                out.aliases.push(AliasDecl { name, ty: type_text(&t.ty), source: source.to_string() });
            }
            syn::Item::Impl(im) => {
                let self_ty = self_type_name(&im.self_ty);
                let key_ty = impl_key_type(im);
                let trait_ = match &im.trait_ {
                    Some((bang, path, _)) => {
                        let t = path_segs(path).join("::");
                        if bang.is_some() {
                            format!("!{}", t)
                        } else {
                            t
                        }
                    }
                    None => String::new(),
                };
                let key_prefix = if trait_.is_empty() {
                    key_ty.clone()
                } else {
                    format!("{} for {}", trait_, key_ty)
                };
                for ii in &im.items {
                    match ii {
                        syn::ImplItem::Fn(m) => {
                            if !cfg_enabled(&m.attrs) {
                                continue;
                            }
                            let (self_kind, params, ret) = signature(&m.sig);
                            let ident = m.sig.ident.to_string();
                            add_fn(
                                out,
                                FnDecl {
                                    name: format!("{}::{}", key_prefix, ident),
                                    module: stem.to_string(),
                                    self_ty: self_ty.clone(),
                                    trait_: trait_.clone(),
                                    ident,
                                    self_kind,
                                    params,
                                    ret,
                                    body: block(&m.block),
                                    source: source.to_string(),
                                },
                            );
                        }
                        syn::ImplItem::Const(c) => {
                            if !cfg_enabled(&c.attrs) {
                                continue;
                            }
                            add_const(
                                out,
                                ConstDecl {
                                    name: format!("{}::{}", key_prefix, c.ident),
                                    ty: type_text(&c.ty),
                                    init: expr(&c.expr),
                                    source: source.to_string(),
                                },
                            );
                        }
                        _ => {}
                    }
                }
            }
            syn::Item::Trait(tr) => {
                // provided (default) methods of a trait: `Trait::method`, with `Self` = the trait
                let tname = tr.ident.to_string();
                for ti in &tr.items {
                    if let syn::TraitItem::Fn(m) = ti {
                        if !cfg_enabled(&m.attrs) {
                            continue;
                        }
                        if let Some(body) = &m.default {
                            let (self_kind, params, ret) = signature(&m.sig);
                            let ident = m.sig.ident.to_string();
                            add_fn(
                                out,
                                FnDecl {
                                    name: format!("{}::{}", tname, ident),
                                    module: stem.to_string(),
                                    self_ty: tname.clone(),
                                    trait_: String::new(),
                                    ident,
                                    self_kind,
                                    params,
                                    ret,
                                    body: block(body),
                                    source: source.to_string(),
                                },
                            );
                        }
                    }
                }
            }
            syn::Item::Struct(st) => {
                let mut fields = Vec::new();
                for (i, f) in st.fields.iter().enumerate() {
                    if !cfg_enabled(&f.attrs) {
                        continue;
                    }
                    let name = match &f.ident {
                        Some(id) => id.to_string(),
                        None => i.to_string(),
                    };
                    fields.push((name, type_text(&f.ty)));
                }
                let name = unique_key(&st.ident.to_string(), source, &|k| {
                    out.structs.iter().any(|d| d.name == k)
                });
                out.structs.push(StructDecl { name, fields, source: source.to_string() });
            }
            syn::Item::Enum(en) => {
                let mut variants = Vec::new();
                for v in &en.variants {
                    if !cfg_enabled(&v.attrs) {
                        continue;
                    }
                    variants.push((v.ident.to_string(), v.fields.len() as u32));
                }
                let name = unique_key(&en.ident.to_string(), source, &|k| {
                    out.enums.iter().any(|d| d.name == k)
                });
                out.enums.push(EnumDecl {
                    name,
                    variants,
                    discr: enum_discriminants(en),
                    source: source.to_string(),
                });
            }
            syn::Item::Mod(m) => {
                if let Some((_, items)) = &m.content {
                    let p = format!("{}::{}", prefix, m.ident);
                    translate_items(items, stem, &p, source, out);
                }
            }
            _ => {}
        }
    }
}

pub fn translate_file(file: &syn::File, stem: &str, source: &str, out: &mut Output) {
    translate_items(&file.items, stem, stem, source, out);
}
