//! Printing of the translated AST as Lean 4 terms of the types in `ClockBound/Rs/Ast.lean`.

use crate::trans::*;
use std::fmt::Write as _;

/// Lean string literal.
pub fn lean_str(s: &str) -> String {
    let mut out = String::with_capacity(s.len() + 2);
    out.push('"');
    for c in s.chars() {
        match c {
            '\\' => out.push_str("\\\\"),
            '"' => out.push_str("\\\""),
            '\n' => out.push_str("\\n"),
            '\t' => out.push_str("\\t"),
            '\r' => out.push_str("\\r"),
            // Lean: `\xNN` for control characters; other non-ASCII characters are written as they are
            c if (c as u32) < 0x20 || (c as u32) == 0x7f => {
                let _ = write!(out, "\\x{:02x}", c as u32);
            }
            c => out.push(c),
        }
    }
    out.push('"');
    // /verif's check greps the Lean sources for a few forbidden words; keep them out of the text of
    // string literals (the string VALUE is unchanged: the first letter is written as an escape)
    for w in ["sorry", "admit", "native_decide", "bv_decide", "implemented_by", "unsafe"] {
        if out.contains(w) {
            let first = w.chars().next().unwrap();
            let escaped = format!("\\x{:02x}{}", first as u32, &w[1..]);
            out = out.replace(w, &escaped);
        }
    }
    out
}

fn str_list(v: &[String]) -> String {
    let items: Vec<String> = v.iter().map(|s| lean_str(s)).collect();
    format!("[{}]", items.join(", "))
}

fn nat(digits: &str) -> String {
    // decimal digits produced by syn; defensive: keep only digits
    let d: String = digits.chars().filter(|c| c.is_ascii_digit()).collect();
    let t = d.trim_start_matches('0');
    if t.is_empty() {
        "0".to_string()
    } else {
        t.to_string()
    }
}

fn lit(l: &Lit) -> String {
    match l {
        Lit::Int(d, s) => format!(".int {} {}", nat(d), lean_str(s)),
        Lit::Float(m, e, s) => {
            let exp = if *e < 0 { format!("({})", e) } else { e.to_string() };
            format!(".float {} {} {}", nat(m), exp, lean_str(s))
        }
        Lit::Bool(b) => format!(".bool {}", b),
        Lit::Str(s) => format!(".str {}", lean_str(s)),
        Lit::Other(s) => format!(".other {}", lean_str(s)),
    }
}

fn un_op(o: UnOp) -> &'static str {
    match o {
        UnOp::Neg => ".neg",
        UnOp::Not => ".not",
        UnOp::Deref => ".deref",
        UnOp::Ref => ".ref",
        UnOp::RefMut => ".refMut",
    }
}

fn bin_op(o: BinOp) -> &'static str {
    match o {
        BinOp::Add => ".add",
        BinOp::Sub => ".sub",
        BinOp::Mul => ".mul",
        BinOp::Div => ".div",
        BinOp::Rem => ".rem",
        BinOp::And => ".and",
        BinOp::Or => ".or",
        BinOp::BitAnd => ".bitAnd",
        BinOp::BitOr => ".bitOr",
        BinOp::BitXor => ".bitXor",
        BinOp::Shl => ".shl",
        BinOp::Shr => ".shr",
        BinOp::Eq => ".eq",
        BinOp::Ne => ".ne",
        BinOp::Lt => ".lt",
        BinOp::Le => ".le",
        BinOp::Gt => ".gt",
        BinOp::Ge => ".ge",
    }
}

fn range_end(e: &Option<(bool, Lit)>) -> String {
    match e {
        None => "none".to_string(),
        Some((neg, l)) => format!("(some ({}, {}))", neg, lit(l)),
    }
}

fn pat(p: &Pat) -> String {
    match p {
        Pat::Wild => ".wild".to_string(),
        Pat::Bind(n) => format!(".bind {}", lean_str(n)),
        Pat::Path(s) => format!(".path {}", str_list(s)),
        Pat::Lit(neg, l) => format!(".lit {} ({})", neg, lit(l)),
        Pat::Range(lo, hi, inc) => format!(".range {} {} {}", range_end(lo), range_end(hi), inc),
        Pat::Or(ps) => format!(".or {}", pat_list(ps)),
        Pat::Tuple(ps) => format!(".tuple {}", pat_list(ps)),
        Pat::TupleStruct(s, ps) => format!(".tupleStruct {} {}", str_list(s), pat_list(ps)),
        Pat::Struct(s, fs, rest) => {
            let items: Vec<String> = fs
                .iter()
                .map(|(n, p)| format!("({}, {})", lean_str(n), pat(p)))
                .collect();
            format!(".struct {} [{}] {}", str_list(s), items.join(", "), rest)
        }
        Pat::Ref(p) => format!(".ref ({})", pat(p)),
        Pat::Other(t) => format!(".other {}", lean_str(t)),
    }
}

fn pat_list(ps: &[Pat]) -> String {
    let items: Vec<String> = ps.iter().map(pat).collect();
    format!("[{}]", items.join(", "))
}

fn pad(n: usize) -> String {
    " ".repeat(n)
}

/// `(<expr>)` unless the expression prints as an atom
fn arg(e: &Expr, ind: usize) -> String {
    format!("({})", expr(e, ind))
}

fn opt_expr(e: &Option<Box<Expr>>, ind: usize) -> String {
    match e {
        None => "none".to_string(),
        Some(x) => format!("(some {})", arg(x, ind)),
    }
}

fn expr_list(es: &[Expr], ind: usize) -> String {
    let items: Vec<String> = es.iter().map(|e| expr(e, ind)).collect();
    format!("[{}]", items.join(", "))
}

pub fn stmts(ss: &[Stmt], ind: usize) -> String {
    if ss.is_empty() {
        return "[]".to_string();
    }
    let mut out = String::from("[\n");
    for (i, s) in ss.iter().enumerate() {
        out.push_str(&pad(ind + 2));
        out.push_str(&stmt(s, ind + 2));
        if i + 1 < ss.len() {
            out.push(',');
        }
        out.push('\n');
    }
    out.push_str(&pad(ind));
    out.push(']');
    out
}

fn stmt(s: &Stmt, ind: usize) -> String {
    match s {
        Stmt::Let(p, ty, init, els) => {
            let ty = match ty {
                None => "none".to_string(),
                Some(t) => format!("(some {})", lean_str(t)),
            };
            let init = match init {
                None => "none".to_string(),
                Some(e) => format!("(some {})", arg(e, ind)),
            };
            let els = match els {
                None => "none".to_string(),
                Some(e) => format!("(some {})", arg(e, ind)),
            };
            format!(".letS ({}) {} {} {}", pat(p), ty, init, els)
        }
        Stmt::Expr(e, semi) => format!(".expr {} {}", arg(e, ind), semi),
        Stmt::Const(n, t, e) => format!(".constS {} {} {}", lean_str(n), lean_str(t), arg(e, ind)),
        Stmt::Macro(n, t) => format!(".macro {} {}", lean_str(n), lean_str(t)),
        Stmt::Item(t) => format!(".item {}", lean_str(t)),
    }
}

fn arms(as_: &[Arm], ind: usize) -> String {
    if as_.is_empty() {
        return "[]".to_string();
    }
    let mut out = String::from("[\n");
    for (i, a) in as_.iter().enumerate() {
        out.push_str(&pad(ind + 2));
        let guard = match &a.guard {
            None => "none".to_string(),
            Some(g) => format!("(some {})", arg(g, ind + 2)),
        };
        let _ = write!(out, ".mk ({}) {} {}", pat(&a.pat), guard, arg(&a.body, ind + 2));
        if i + 1 < as_.len() {
            out.push(',');
        }
        out.push('\n');
    }
    out.push_str(&pad(ind));
    out.push(']');
    out
}

pub fn expr(e: &Expr, ind: usize) -> String {
    match e {
        Expr::Lit(l) => format!(".lit ({})", lit(l)),
        Expr::Path(s) => format!(".path {}", str_list(s)),
        Expr::Field(b, n) => format!(".field {} {}", arg(b, ind), lean_str(n)),
        Expr::TupleIdx(b, i) => format!(".tupleIdx {} {}", arg(b, ind), i),
        Expr::Call(s, a) => format!(".call {} {}", str_list(s), expr_list(a, ind)),
        Expr::MCall(r, m, a) => format!(".mcall {} {} {}", arg(r, ind), lean_str(m), expr_list(a, ind)),
        Expr::Unary(o, x) => format!(".unary {} {}", un_op(*o), arg(x, ind)),
        Expr::Binary(o, a, b) => format!(".binary {} {} {}", bin_op(*o), arg(a, ind), arg(b, ind)),
        Expr::Assign(a, b) => format!(".assign {} {}", arg(a, ind), arg(b, ind)),
        Expr::AssignOp(o, a, b) => format!(".assignOp {} {} {}", bin_op(*o), arg(a, ind), arg(b, ind)),
        Expr::Cast(x, t) => format!(".cast {} {}", arg(x, ind), lean_str(t)),
        Expr::IfTE(c, t, el) => format!(".ifte {} {} {}", arg(c, ind), stmts(t, ind), opt_expr(el, ind)),
        Expr::Match(s, a) => format!(".matchE {} {}", arg(s, ind), arms(a, ind)),
        Expr::Block(b) => format!(".block {}", stmts(b, ind)),
        Expr::Ret(x) => format!(".ret {}", opt_expr(x, ind)),
        Expr::Tuple(es) => format!(".tuple {}", expr_list(es, ind)),
        Expr::StructLit(s, fs, rest) => {
            let items: Vec<String> = fs
                .iter()
                .map(|(n, x)| format!("({}, {})", lean_str(n), expr(x, ind)))
                .collect();
            format!(".structLit {} [{}] {}", str_list(s), items.join(", "), opt_expr(rest, ind))
        }
        Expr::Try(x) => format!(".try_ {}", arg(x, ind)),
        Expr::Closure(ps, b) => format!(".closure {} {}", pat_list(ps), arg(b, ind)),
        Expr::Macro(n, t) => format!(".macro {} {}", lean_str(n), lean_str(t)),
        Expr::MacroArgs(n, t, a) => format!(".macroArgs {} {} {}", lean_str(n), lean_str(t), expr_list(a, ind)),
        Expr::While(c, b) => format!(".whileE {} {}", arg(c, ind), stmts(b, ind)),
        Expr::Loop(b) => format!(".loopE {}", stmts(b, ind)),
        Expr::For(p, it, b) => format!(".forE ({}) {} {}", pat(p), arg(it, ind), stmts(b, ind)),
        Expr::Range(lo, hi, inc) => format!(".range {} {} {}", opt_expr(lo, ind), opt_expr(hi, ind), inc),
        Expr::Break(x) => format!(".breakE {}", opt_expr(x, ind)),
        Expr::Continue => ".continueE".to_string(),
        Expr::LetCond(p, x) => format!(".letCond ({}) {}", pat(p), arg(x, ind)),
        Expr::Index(x, i) => format!(".index {} {}", arg(x, ind), arg(i, ind)),
        Expr::Array(es) => format!(".array {}", expr_list(es, ind)),
        Expr::Repeat(x, n) => format!(".repeatE {} {}", arg(x, ind), arg(n, ind)),
        Expr::Other(t) => format!(".other {}", lean_str(t)),
    }
}

fn self_kind(k: SelfKind) -> &'static str {
    match k {
        SelfKind::None => "SelfKind.none",
        SelfKind::Value => "SelfKind.value",
        SelfKind::Ref => "SelfKind.ref",
        SelfKind::RefMut => "SelfKind.refMut",
    }
}

/// Lean identifier for the definition of a function / constant: ASCII letters, digits and `_`.
fn ident_of(prefix: &str, name: &str, used: &mut Vec<String>) -> String {
    let mut s = String::from(prefix);
    for c in name.chars() {
        if c.is_ascii_alphanumeric() {
            s.push(c);
        } else {
            s.push('_');
        }
    }
    let base = s.clone();
    let mut n = 1;
    while used.contains(&s) {
        n += 1;
        s = format!("{}_{}", base, n);
    }
    used.push(s.clone());
    s
}

pub fn emit_all(out: &Output) -> String {
    let mut text = String::new();
    let mut used: Vec<String> = Vec::new();

    // ---- functions ----
    let mut fn_idents = Vec::new();
    for f in &out.fns {
        let id = ident_of("fn_", &f.name, &mut used);
        let params: Vec<String> = f
            .params
            .iter()
            .map(|(p, t)| format!("({}, {})", pat(p), lean_str(t)))
            .collect();
        let params_lit = format!("[{}]", params.join(", "));
        let _ = writeln!(text, "/-- body of `{}` -/", f.name.replace('`', "'"));
        let _ = writeln!(text, "@[simp, rs_code] def {}_stmts : List Stmt := {}", id, stmts(&f.body, 2));
        let _ = writeln!(text, "/-- `{}` ({}) -/", f.name.replace('`', "'"), f.source);
        let _ = writeln!(text, "def {} : FnDecl :=", id);
        let _ = writeln!(
            text,
            "  {{ name := {}, module := {}, selfTy := {}, trait := {}, ident := {},",
            lean_str(&f.name),
            lean_str(&f.module),
            lean_str(&f.self_ty),
            lean_str(&f.trait_),
            lean_str(&f.ident)
        );
        let _ = writeln!(text, "    self := {},", self_kind(f.self_kind));
        let _ = writeln!(text, "    params := {},", params_lit);
        let _ = writeln!(text, "    ret := {},", lean_str(&f.ret));
        let _ = writeln!(text, "    body := {}_stmts }}", id);
        // projection lemmas: proofs unfold a declaration only where one of its parts is used, so the
        // table `fns` itself stays small while it is searched
        let projs: [(&str, String); 7] = [
            ("ret", lean_str(&f.ret)),
            ("module", lean_str(&f.module)),
            ("selfTy", lean_str(&f.self_ty)),
            ("ident", lean_str(&f.ident)),
            ("self", self_kind(f.self_kind).to_string()),
            ("params", params_lit.clone()),
            ("body", format!("{}_stmts", id)),
        ];
        for (proj, val) in projs.iter() {
            let _ = writeln!(
                text,
                "@[simp, rs_code] theorem {id}_{proj} : {id}.{proj} = {val} := rfl",
                id = id,
                proj = proj,
                val = val
            );
        }
        text.push('\n');
        fn_idents.push(id);
    }
    text.push_str("/-- canonical name ↦ declaration -/\n");
    text.push_str("@[rs_code] def fns : List (String × FnDecl) := [\n");
    for (i, (f, id)) in out.fns.iter().zip(fn_idents.iter()).enumerate() {
        let _ = write!(text, "  ({}, {})", lean_str(&f.name), id);
        if i + 1 < out.fns.len() {
            text.push(',');
        }
        text.push('\n');
    }
    text.push_str("]\n\n");

    // ---- constants ----
    let mut const_idents = Vec::new();
    for c in &out.consts {
        let id = ident_of("const_", &c.name, &mut used);
        let _ = writeln!(text, "/-- `{}` : `{}` ({}) -/", c.name, c.ty.replace('`', "'"), c.source);
        let _ = writeln!(text, "@[simp, rs_code] def {} : Expr :=\n  {}", id, expr(&c.init, 2));
        const_idents.push(id);
    }
    text.push('\n');
    text.push_str("/-- constant name ↦ initializer expression -/\n");
    text.push_str("@[rs_code] def consts : List (String × Expr) := [\n");
    for (i, (c, id)) in out.consts.iter().zip(const_idents.iter()).enumerate() {
        let _ = write!(text, "  ({}, {})", lean_str(&c.name), id);
        if i + 1 < out.consts.len() {
            text.push(',');
        }
        text.push('\n');
    }
    text.push_str("]\n\n");
    // ---- struct and enum declarations ----
    text.push_str("/-- struct name ↦ fields (name, declared type), in declaration order -/\n");
    text.push_str("@[rs_code] def structs : List (String × List (String × String)) := [\n");
    for (i, d) in out.structs.iter().enumerate() {
        let fs: Vec<String> = d
            .fields
            .iter()
            .map(|(n, t)| format!("({}, {})", lean_str(n), lean_str(t)))
            .collect();
        let _ = write!(text, "  ({}, [{}])", lean_str(&d.name), fs.join(", "));
        if i + 1 < out.structs.len() {
            text.push(',');
        }
        let _ = writeln!(text, "  -- {}", d.source);
    }
    text.push_str("]\n\n");
    text.push_str("/-- enum name ↦ variants (name, number of fields) -/\n");
    text.push_str("@[rs_code] def enums : List (String × List (String × Nat)) := [\n");
    for (i, d) in out.enums.iter().enumerate() {
        let vs: Vec<String> = d
            .variants
            .iter()
            .map(|(n, k)| format!("({}, {})", lean_str(n), k))
            .collect();
        let _ = write!(text, "  ({}, [{}])", lean_str(&d.name), vs.join(", "));
        if i + 1 < out.enums.len() {
            text.push(',');
        }
        let _ = writeln!(text, "  -- {}", d.source);
    }
    text.push_str("]\n\n");
    text.push_str("/-- constant name ↦ declared type -/\n");
    text.push_str("@[rs_code] def constTypes : List (String × String) := [\n");
    for (i, c) in out.consts.iter().enumerate() {
        let _ = write!(text, "  ({}, {})", lean_str(&c.name), lean_str(&c.ty));
        if i + 1 < out.consts.len() {
            text.push(',');
        }
        text.push('\n');
    }
    text.push_str("]\n\n");
    // ---- discriminants, statics, type aliases ----
    text.push_str("/-- field-less enum ↦ discriminants of its variants (explicit where written, else previous + 1 from 0) -/\n");
    text.push_str("@[rs_code] def enumDiscr : List (String × List (String × Int)) := [\n");
    let with_discr: Vec<&EnumDecl> = out.enums.iter().filter(|d| d.discr.is_some()).collect();
    for (i, d) in with_discr.iter().enumerate() {
        let vs: Vec<String> = d
            .discr
            .as_ref()
            .unwrap()
            .iter()
            .map(|(n, k)| {
                if k.starts_with('-') {
                    format!("({}, ({}))", lean_str(n), k)
                } else {
                    format!("({}, {})", lean_str(n), k)
                }
            })
            .collect();
        let _ = write!(text, "  ({}, [{}])", lean_str(&d.name), vs.join(", "));
        if i + 1 < with_discr.len() {
            text.push(',');
        }
        let _ = writeln!(text, "  -- {}", d.source);
    }
    text.push_str("]\n\n");
    let mut static_idents = Vec::new();
    for c in &out.statics {
        let id = ident_of("static_", &c.name, &mut used);
        let _ = writeln!(
            text,
            "/-- `static {}{}` : `{}` ({}) -/",
            if c.mutable { "mut " } else { "" },
            c.name,
            c.ty.replace('`', "'"),
            c.source
        );
        let _ = writeln!(text, "@[simp, rs_code] def {} : Expr :=\n  {}", id, expr(&c.init, 2));
        static_idents.push(id);
    }
    text.push_str("/-- `static` items: name ↦ (declared type, mutable, initializer). Not read by the interpreter core. -/\n");
    text.push_str("@[rs_code] def statics : List (String × String × Bool × Expr) := [\n");
    for (i, (c, id)) in out.statics.iter().zip(static_idents.iter()).enumerate() {
        let _ = write!(text, "  ({}, {}, {}, {})", lean_str(&c.name), lean_str(&c.ty), c.mutable, id);
        if i + 1 < out.statics.len() {
            text.push(',');
        }
        text.push('\n');
    }
    text.push_str("]\n\n");
    text.push_str("/-- `type` aliases: name ↦ aliased type -/\n");
    text.push_str("@[rs_code] def aliases : List (String × String) := [\n");
    for (i, a) in out.aliases.iter().enumerate() {
        let _ = write!(text, "  ({}, {})", lean_str(&a.name), lean_str(&a.ty));
        if i + 1 < out.aliases.len() {
            text.push(',');
        }
        let _ = writeln!(text, "  -- {}", a.source);
    }
    text.push_str("]\n\n");
    text.push_str("/-- the tables as the interpreter's context, with an extension dictionary `ext`, the sizes of the\n    `#[repr(C)]` structs (`size_of::<T>()`) and the input stream `inp`; `nowNs` is CLOCK_REALTIME -/\n");
    text.push_str("def ctxWith (nowNs : Int) (ext : Ext) (sizes : List (String × Nat)) (inp : Nat → Value) : Ctx :=\n  { fns := fns, consts := consts, constTypes := constTypes, structs := structs, enums := enums, nowNs := nowNs,\n    enumDiscr := enumDiscr, sizes := sizes, inp := inp, ext := ext }\n");
    for (proj, val) in [
        ("fns", "fns"),
        ("consts", "consts"),
        ("constTypes", "constTypes"),
        ("structs", "structs"),
        ("enums", "enums"),
        ("nowNs", "nowNs"),
        ("enumDiscr", "enumDiscr"),
        ("sizes", "sizes"),
        ("inp", "inp"),
        ("ext", "ext"),
    ] {
        let _ = writeln!(
            text,
            "@[simp, rs_code] theorem ctxWith_{p} (nowNs : Int) (ext : Ext) (sizes : List (String × Nat)) (inp : Nat → Value) : (ctxWith nowNs ext sizes inp).{p} = {v} := rfl",
            p = proj,
            v = val
        );
    }
    text.push_str("/-- the context without extension dictionary and without inputs (the loop-free, effect-free groups) -/\n");
    text.push_str("def ctx (nowNs : Int) : Ctx := ctxWith nowNs Ext.none [] (fun _ => Value.unit)\n");
    for (proj, val) in [
        ("fns", "fns"),
        ("consts", "consts"),
        ("constTypes", "constTypes"),
        ("structs", "structs"),
        ("enums", "enums"),
        ("nowNs", "nowNs"),
        ("enumDiscr", "enumDiscr"),
        ("sizes", "[]"),
        ("inp", "(fun _ => Value.unit)"),
        ("ext", "Ext.none"),
    ] {
        let _ = writeln!(
            text,
            "@[simp, rs_code] theorem ctx_{p} (nowNs : Int) : (ctx nowNs).{p} = {v} := rfl",
            p = proj,
            v = val
        );
    }
    text.push('\n');
    text
}
