/-
  Proofs of the translation tie for `process_messages` (statements in `Properties/CodeTieDispatch.lean`):
  one iteration per kind of message, for every fuel `N ≥ 100`.  The two handlers are inlined by the
  interpreter; the `data` case is closed by the tactic of `Proofs/RsUpdater.lean`.
-/
import ClockBound.Proofs.RsNow
import ClockBound.Proofs.RsLoop
import ClockBound.Rs.EmbedDispatch
namespace ClockBound.Rs.DispatchProof
open ClockBound ClockBound.Rs ClockBound.Generated ClockBound.Rs.DictPoller ClockBound.Rs.NowProof

abbrev frW : Frame := ⟨"shm_writer", "", "()"⟩

/-- what the loop goes on with after the updater handled a message (`none` = panic) -/
def stepRes (next : St → Res) (log : List Value) (pos : Nat) (ev : Value) : Option (Updater × Record) → Res
  | none => .panic
  | some (u', r) => next (writerLoopSt true u' (log ++ [ev, recordValue r]) (pos + 1))

/-- one iteration of the loop body on the message `m` -/
def DispStmt (nowNs : Int) (u : Updater) (m : WMsg) : Prop :=
  ∀ (inp : Nat → Value) (log : List Value) (pos : Nat) (c : Expr) (body : List Stmt)
    (_hfw : findWhile Code.fn_shm_writer__process_messages_stmts = some (c, body))
    (_hin : inp pos = m.recvd) (N : Nat) (_hN : 100 ≤ N) (next : St → Res),
    ((evalBlock N (ctxP nowNs [] inp) frW body (writerLoopSt true u log pos)).popTo 3).loopNext next
    = match m.toMsg nowNs with
      | none => next (writerLoopSt true u (log ++ [evRecv m.recvd]) (pos + 1))
      | some msg =>
        stepRes next log pos (evRecv m.recvd) (u.step msg)

set_option hygiene false in
macro "disp_start" : tactic => `(tactic| (
  intro inp log pos c body hfw hin N hN next
  obtain ⟨M, rfl⟩ : ∃ M, N = M + 100 := ⟨N - 100, by omega⟩
  simp [rs_eval, rs_code] at hfw
  obtain ⟨rfl, rfl⟩ := hfw
  simp only [ctxP, linuxUses_eq]
  simp [WMsg.recvd, WMsg.value] at hin))

macro "disp_tie" : tactic => `(tactic| (
  simp (maxSteps := 400000) [rs_eval, chkInt, rs_code, writerLoopSt, contextValue, trackingValue, updaterValue,
    ctimespecValue, WMsg.recvd, WMsg.value, WMsg.toMsg, *]
  generalize hM : Updater.step _ _ = M
  repeat' split
  all_goals (subst hM; simp [Updater.step, extractBound, boundF, classify, leapClass, Updater.record, chk,
    inI64, I64_MIN, I64_MAX, stepRes, writerLoopSt, contextValue, updaterValue, recordValue, ctimespecValue, statusValue,
    statusName, *])))

set_option maxRecDepth 8000 in
set_option maxHeartbeats 4000000 in
theorem disp_missing (nowNs : Int) (u : Updater) (m : WMsg)
    (hm : m = .nrGrace ∨ m = .phcGrace ∨ m = .nr ∨ m = .phcFail) : DispStmt nowNs u m := by
  obtain ⟨drift, fsm, bound, ⟨as, an⟩, res, hmeas⟩ := u
  rcases hm with rfl | rfl | rfl | rfl <;> (disp_start; disp_tie)

end ClockBound.Rs.DispatchProof
