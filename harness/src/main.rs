mod client;
// the C API, compiled into this process from the working tree's source (the crate only builds C libraries): the
// `extern "C"` entry points then run over the SAME clock-bound-shm instance as the rest of the harness, i.e. under
// the cfg-gated atomics shim, which a separately built libclockbound.so is not
#[path = "/repo/clock-bound-ffi/src/lib.rs"]
#[allow(dead_code, unused_imports, clippy::all)]
mod ffi;
mod session;
mod daemon;
mod shm;
mod ra;
mod poller;
mod world;
mod crash;
mod threads;
mod header;
mod wire;
mod rng;
mod util;
mod vclock;

use std::io::{BufRead, Write};

/// executes one request line on the real code and returns the canonical answer
fn exec_line(line0: &str) -> String {
    // `<request> @env NAME=VALUE [NAME=VALUE …]`: the request is executed with these environment variables set
    // (nothing the library does may depend on the environment); the model ignores the modifier
    let (line, envs): (&str, Vec<(String, String)>) = match line0.find(" @env ") {
        Some(i) => (&line0[..i], line0[i + 6..].split_whitespace().filter_map(|kv| kv.split_once('=')).map(|(k, v)| (k.to_string(), v.to_string())).collect()),
        None => (line0, Vec::new()),
    };
    for (k, v) in &envs { std::env::set_var(k, v); }
    let r = exec_line_inner(line);
    for (k, _) in &envs { std::env::remove_var(k); }
    r
}

fn exec_line_inner(line: &str) -> String {
    let toks: Vec<&str> = line.split_whitespace().collect();
    match toks.first().copied() {
        Some("client") => client::exec(&toks),
        Some("client2") => client::exec2(&toks),
        Some("corder") => client::exec_order(&toks),
        Some("session") => session::exec(line),
        Some("extract") => daemon::exec_extract(&toks),
        Some("gen") => shm::exec_gen(&toks),
        Some("sl") => ra::exec_sl(line),
        Some("world") => world::exec(line),
        Some("crashpt") => crash::exec(&toks),
        Some("poll") | Some("pollr") => poller::exec(&toks, line).unwrap_or_else(|| "bad-op".into()),
        Some("slx") => ra::exec_slx(&toks),
        Some("slxc") => ra::exec_slxc(&toks),
        Some("slaba") => ra::exec_slaba(),
        Some("skip") => ra::exec_skip(&toks),
        Some("upd") => daemon::exec_upd(line),
        _ => header::exec(&toks, line).unwrap_or_else(|| "bad-op".into()),
    }
}

fn main() {
    util::quiet_panics();
    unsafe { libc::umask(0o022); }
    // the code under test may leak descriptors (that is then reported); the harness itself must survive it
    unsafe { let mut l = libc::rlimit { rlim_cur: 0, rlim_max: 0 }; if libc::getrlimit(libc::RLIMIT_NOFILE, &mut l) == 0 { l.rlim_cur = l.rlim_max; libc::setrlimit(libc::RLIMIT_NOFILE, &l); } }
    wire::self_test();
    let args: Vec<String> = std::env::args().collect();
    let out = std::io::stdout();
    // line-buffered on purpose: the watchdog writes its `=> hang` line straight to descriptor 1
    let mut out = out.lock();
    util::start_watchdog();
    let mut emit = |req: String| {
        util::watch(&req);
        let ans = exec_line(&req);
        util::unwatch();
        writeln!(out, "{} => {}", req, ans).unwrap();
    };
    match args.get(1).map(|s| s.as_str()) {
        // replay: request lines on stdin (anything after " => " is ignored)
        Some("replay") => {
            for l in std::io::stdin().lock().lines() {
                let l = l.unwrap();
                let req = l.split(" => ").next().unwrap().trim().to_string();
                if req.is_empty() || req.starts_with('#') { continue; }
                emit(req);
            }
        }
        Some("client") => {
            let seed: u64 = args[2].parse().unwrap();
            let count: usize = args[3].parse().unwrap();
            for g in client::grid() { emit(g); }
            let mut rng = rng::Rng::new(seed);
            for _ in 0..count { emit(client::gen_case(&mut rng)); }
        }
        Some("session") => {
            let seed: u64 = args[2].parse().unwrap();
            let count: usize = args[3].parse().unwrap();
            for g in session::grid() { emit(g); }
            let mut rng = rng::Rng::new(seed ^ 0x5e55);
            for _ in 0..count { emit(session::gen_case(&mut rng)); }
        }
        Some("corder") => {
            let seed: u64 = args[2].parse().unwrap();
            let count: usize = args[3].parse().unwrap();
            let mut rng = rng::Rng::new(seed ^ 0xc12);
            for _ in 0..count { let c = client::gen_case(&mut rng); emit(format!("corder {}", &c[7..])); }
        }
        Some("client2") => {
            let seed: u64 = args[2].parse().unwrap();
            let count: usize = args[3].parse().unwrap();
            let mut rng = rng::Rng::new(seed ^ 0x5151);
            for _ in 0..count { emit(client::gen_case2(&mut rng)); }
        }
        Some("extract") => {
            let seed: u64 = args[2].parse().unwrap();
            let count: usize = args[3].parse().unwrap();
            let mut rng = rng::Rng::new(seed);
            for _ in 0..count { emit(daemon::gen_extract(&mut rng)); }
        }
        Some("genall") => { drop(emit); util::watch("genall"); shm::gen_all(|req, ans| { writeln!(out, "{} => {}", req, ans).unwrap(); }); }
        Some("poll") => {
            let seed: u64 = args[2].parse().unwrap();
            let count: usize = args[3].parse().unwrap();
            for g in poller::grid() { emit(g); }
            // the same grid through the thread's real entry point
            for g in poller::grid() { emit(g.replacen("poll ", "pollr ", 1)); }
            let mut rng = rng::Rng::new(seed ^ 0xC13);
            for i in 0..count { let l = poller::gen_poll(&mut rng); if i % 4 == 0 { emit(l.replacen("poll ", "pollr ", 1)); } emit(l); }
        }
        Some("worldgen") => {
            let seed: u64 = args[2].parse().unwrap();
            let count: usize = args[3].parse().unwrap();
            let mut rng = rng::Rng::new(seed ^ 0xc01);
            for _ in 0..count { emit(world::gen_world(&mut rng)); }
        }
        // C15: one scenario of the real thread_manager::run per process (needs a private /run)
        Some("threads") => {
            drop(emit);
            let line = threads::run_scenario(&args[2..]);
            writeln!(out, "{}", line).unwrap();
            out.flush().unwrap();
            // worker threads of a daemon that did not exit may still be alive
            std::process::exit(if line.contains("=> returned") { 0 } else { 3 });
        }
        Some(k @ ("hdr-open" | "hdr-seg" | "hdr-snap" | "hdr-sandwich")) => {
            let seed: u64 = args[2].parse().unwrap();
            let count: usize = args[3].parse().unwrap();
            let v = match k { "hdr-open" => header::gen_open(seed, count), "hdr-seg" => header::gen_seg(seed, count), "hdr-snap" => header::gen_snap(seed, count), _ => header::gen_sandwich(seed, count) };
            for g in v { emit(g); }
        }
        // a stand-in for chronyd at process level: answers every request on a unix datagram socket with a Tracking
        // reply (reference id, leap status and update interval given; reference time = now; small offsets)
        //   cbharness fakechronyd <socket path> <refid u32> <leap> <seconds to live> [stratum] [ipv4 word, 0 = unspecified]
        Some("fakechronyd") => {
            drop(emit);
            let sock = std::os::unix::net::UnixDatagram::bind(&args[2]).expect("bind");
            let refid: u32 = args[3].parse().unwrap();
            let leap: u16 = args[4].parse().unwrap();
            let ttl: u64 = args[5].parse().unwrap();
            let stratum: Option<u16> = args.get(6).map(|s| s.parse().unwrap());
            let ip4: Option<u32> = args.get(7).map(|s| s.parse::<u32>().unwrap()).filter(|v| *v != 0);
            sock.set_read_timeout(Some(std::time::Duration::from_millis(200))).unwrap();
            let t0 = std::time::Instant::now();
            let mut buf = [0u8; 2048];
            while t0.elapsed().as_secs() < ttl {
                if let Ok((n, addr)) = sock.recv_from(&mut buf) {
                    if n < 12 { continue; }
                    let now = std::time::SystemTime::now().duration_since(std::time::UNIX_EPOCH).unwrap().as_nanos() as i64;
                    let t = wire::Trk { leap, ref_ns: now, off: 0x0200_0000 | 0x000a_0000, disp: 0x0400_0000 | 0x00b0_0000, delay: 0x0600_0000 | 0x00c0_0000, interval: (5u32 << 25) | (1 << 23), refid, ip4, stratum };
                    let mut b = wire::reply_bytes(&t, 5);
                    b[16..20].copy_from_slice(&buf[8..12]); // echo the sequence number
                    if let Some(p) = addr.as_pathname() { let _ = sock.send_to(&b, p); }
                }
            }
        }
        Some("hdr-abi") => { emit("cabi".to_string()); }
        Some("crashgrid") => { for g in crash::grid() { emit(g); } }
        Some("skipgen") => { for g in ra::skip_grid(args.get(2).map(|s| s.as_str()) == Some("all")) { emit(g); } }
        Some("slabagen") => { emit("slaba".to_string()); }
        Some("slxgen") => {
            // one full exhaustion of the retry budget + short scripted runs (more with `all`)
            let mut v = vec!["slx 2 1000 3", "slx 2 1", "slx 3 5", "slx 0 7", "slx 65534 1", "slx 4 1", "slx 4 1 5", "slx 65534 3 5"];
            if args.get(2).map(|s| s.as_str()) == Some("all") { v.extend(["slx 2 1000", "slx 6 1 1", "slx 65534 3", "slx 4 2", "slx 65532 40000", "slx 65534 1 1", "slx 2 7 1"]); }
            for l in v.clone() { emit(l.to_string()); }
            // the same scripts through the C API (clockbound_open / clockbound_now on one context)
            for l in v { emit(l.replacen("slx ", "slxc ", 1)); }
        }
        Some("slgen") => {
            let seed: u64 = args[2].parse().unwrap();
            let count: usize = args[3].parse().unwrap();
            drop(emit);
            // the scenario text is only known once a scenario has run: the watchdog names the generator call
            // (re-armed after every scenario, so the limit is per scenario)
            let tag = format!("slgen {} {}", seed, count);
            util::watch(&tag);
            ra::generate(seed, count, |req, ans| { writeln!(out, "{} => {}", req, ans).unwrap(); util::watch(&tag); });
        }
        Some("leapgrid") => { for g in daemon::leap_grid() { emit(g); } }
        Some("upd") => {
            let seed: u64 = args[2].parse().unwrap();
            let count: usize = args[3].parse().unwrap();
            let mut rng = rng::Rng::new(seed);
            for _ in 0..count { emit(daemon::gen_upd(&mut rng)); }
        }
        _ => { eprintln!("usage: cbharness <client|replay> ..."); std::process::exit(2); }
    }
}
